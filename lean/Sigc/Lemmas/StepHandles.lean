import Sigc.Model
import Sigc.Lemmas.Basic
import Sigc.Lemmas.Frames
import Sigc.Lemmas.StepConn
/-!
# StepHandles — signal objects (`Handle`) and the life time of their lists (`gcImpl`)

`ensureImpl` (`signal_base::impl()`), `mkFun` frames, `gcImpl` (`~signal_impl` when the last owner goes),
`nullConnsList`.  Everything holds for arbitrary states.
-/
namespace Sigc.StepHandles
open Sigc.Model Sigc.StepConn

/-! ### `ensureImpl` -/

theorem ensureImpl_some (s : St) (g i : Nat) (h : Handle) (hg : aget s.G g = some h) (hi : h.impl = some i) :
    ensureImpl s g = some (s, i) := by
  simp [ensureImpl, hg, hi]

/-- the state after allocating a list for handle `g` -/
def allocImpl (s : St) (g : Nat) (h : Handle) : St :=
  { s with next := s.next + 1, impls := aset s.impls s.next {}, G := aset s.G g { h with impl := some s.next } }

theorem ensureImpl_none (s : St) (g : Nat) (h : Handle) (hg : aget s.G g = some h) (hi : h.impl = none) :
    ensureImpl s g = some (allocImpl s g h, s.next) := by
  simp [ensureImpl, hg, hi, St.fresh, allocImpl]

theorem ensureImpl_dead (s : St) (g : Nat) (hg : aget s.G g = none) : ensureImpl s g = none := by
  simp [ensureImpl, hg]

/-- both cases at once -/
theorem ensureImpl_cases (s : St) (g : Nat) (h : Handle) (hg : aget s.G g = some h) :
    ∃ s1 im, ensureImpl s g = some (s1, im) ∧ aget s1.G g = some { h with impl := some im } ∧
      (∀ k, k ≠ g → aget s1.G k = aget s.G k) ∧ s1.S = s.S ∧ s1.C = s.C ∧ s1.K = s.K ∧ s1.T = s.T ∧
      s1.trace = s.trace ∧
      ((h.impl = some im ∧ s1 = s) ∨ (h.impl = none ∧ im = s.next ∧ s1 = allocImpl s g h)) := by
  cases hi : h.impl with
  | some i =>
    refine ⟨s, i, ensureImpl_some s g i h hg hi, ?_, fun _ _ => rfl, rfl, rfl, rfl, rfl, rfl, Or.inl ⟨rfl, rfl⟩⟩
    rw [hg]; congr 1; cases h; simp_all
  | none =>
    refine ⟨allocImpl s g h, s.next, ensureImpl_none s g h hg hi, by simp [allocImpl], ?_, rfl, rfl, rfl, rfl, rfl,
      Or.inr ⟨rfl, rfl, rfl⟩⟩
    intro k hk
    simp [allocImpl, aget_aset_other _ _ _ _ hk]

/-! ### the refusal `owned` of move assignment -/

/-- the refusal `owned` of move assignment `masgG j i` (source `i` of flavour `fl`; not for the `accumulated`
    flavours, whose move assignment is a copy assignment): the old slot list of the destination, which the
    assignment releases, may own the source, or (trackable flavours) the destination -/
def masgOwned (s : St) (fl : Flavour) (j i : Nat) : Bool :=
  s.ownedG.any (fun p => p.2 = i) || s.ownedG.any (fun p => p.2 = j)

/-! ### `mkFun` frame: only the `everFwd` mark of a handle may change -/

theorem mkFun_frame (s s' : St) (isVoid : Bool) (spec : FSpec) (fn : Fun) (h : mkFun s isVoid spec = .ok (fn, s')) :
    s'.impls = s.impls ∧ s'.S = s.S ∧ s'.C = s.C ∧ s'.trace = s.trace ∧
    ∀ g hd, aget s.G g = some hd → ∃ hd', aget s'.G g = some hd' ∧ hd'.impl = hd.impl ∧ hd'.fl = hd.fl ∧
      hd'.lvl = hd.lvl ∧ hd'.trk = hd.trk ∧ hd'.obj = hd.obj := by
  have triv : ∀ g hd, aget s.G g = some hd → ∃ hd', aget s.G g = some hd' ∧ hd'.impl = hd.impl ∧ hd'.fl = hd.fl ∧
      hd'.lvl = hd.lvl ∧ hd'.trk = hd.trk ∧ hd'.obj = hd.obj := fun g hd h => ⟨hd, h, rfl, rfl, rfl, rfl, rfl⟩
  cases spec with
  | fn fid => simp [mkFun] at h; obtain ⟨_, rfl⟩ := h; exact ⟨rfl, rfl, rfl, rfl, triv⟩
  | mem fid t =>
    simp only [mkFun] at h
    split at h
    · cases h
    · simp at h; obtain ⟨_, rfl⟩ := h; exact ⟨rfl, rfl, rfl, rfl, triv⟩
  | bref fid t =>
    simp only [mkFun] at h
    split at h
    · cases h
    · simp at h; obtain ⟨_, rfl⟩ := h; exact ⟨rfl, rfl, rfl, rfl, triv⟩
  | trk fid t1 t2 =>
    simp only [mkFun] at h
    split at h
    · cases h
    · split at h
      · simp at h; obtain ⟨_, rfl⟩ := h; exact ⟨rfl, rfl, rfl, rfl, triv⟩
      · split at h
        · cases h
        · simp at h; obtain ⟨_, rfl⟩ := h; exact ⟨rfl, rfl, rfl, rfl, triv⟩
  | nest sv =>
    simp only [mkFun] at h
    split at h
    · cases h
    · split at h
      · cases h
      · simp at h; obtain ⟨_, rfl⟩ := h; exact ⟨rfl, rfl, rfl, rfl, triv⟩
  | fwd g0 =>
    simp only [mkFun] at h
    split at h
    · cases h
    · rename_i h0 hg0
      split at h
      · cases h
      · split at h
        · cases h
        · simp at h; obtain ⟨_, rfl⟩ := h
          refine ⟨rfl, rfl, rfl, rfl, ?_⟩
          intro g hd hg
          by_cases e : g = g0
          · subst e
            rw [hg0] at hg; cases hg
            exact ⟨{ h0 with everFwd := true }, by simp, rfl, rfl, rfl, rfl, rfl⟩
          · exact ⟨hd, by simp [aget_aset_other _ _ _ _ e, hg], rfl, rfl, rfl, rfl, rfl⟩
  | ownT fid t =>
    simp only [mkFun] at h
    split at h
    · cases h
    · simp at h; obtain ⟨_, rfl⟩ := h; exact ⟨rfl, rfl, rfl, rfl, triv⟩
  | ownK fid k =>
    simp only [mkFun] at h
    split at h
    · cases h
    · simp [St.fresh] at h; obtain ⟨_, rfl⟩ := h; exact ⟨rfl, rfl, rfl, rfl, triv⟩
  | ownG fid g0 =>
    simp only [mkFun] at h
    split at h
    · cases h
    · split at h
      · cases h
      · split at h
        · cases h
        · simp [St.fresh] at h; obtain ⟨_, rfl⟩ := h; exact ⟨rfl, rfl, rfl, rfl, triv⟩
  | bad => simp [mkFun] at h

/-! ### `nullConnsList` -/

/-- what `nullConnsList cids` does to one connection -/
def nullFL (cids : List Nat) (p : Option Nat) : Option Nat :=
  match p with
  | some c => if c ∈ cids then none else some c
  | none => none

theorem nullFL_cons (x : Nat) (t : List Nat) (p : Option Nat) : nullFL t (nullF x p) = nullFL (x :: t) p := by
  cases p with
  | none => simp [nullF, nullFL]
  | some c =>
    by_cases h : c = x
    · subst h; simp [nullF, nullFL]
    · simp [nullF, nullFL, h]

theorem nullConnsList_C_entry (cids : List Nat) (s : St) (c : Nat) :
    aget (nullConnsList s cids).C c = (aget s.C c).map (nullFL cids) := by
  induction cids generalizing s with
  | nil =>
    simp only [nullConnsList, List.foldl]
    cases aget s.C c with
    | none => rfl
    | some p => cases p <;> simp [nullFL]
  | cons x t ih =>
    have : nullConnsList s (x :: t) = nullConnsList (nullConns s x) t := rfl
    rw [this, ih, nullConns_C, aget_amap]
    cases aget s.C c with
    | none => rfl
    | some p => simp [nullFL_cons]

theorem nullConnsList_K_entry (cids : List Nat) (s : St) (c : Nat) :
    aget (nullConnsList s cids).K c = (aget s.K c).map (nullFL cids) := by
  induction cids generalizing s with
  | nil =>
    simp only [nullConnsList, List.foldl]
    cases aget s.K c with
    | none => rfl
    | some p => cases p <;> simp [nullFL]
  | cons x t ih =>
    have : nullConnsList s (x :: t) = nullConnsList (nullConns s x) t := rfl
    rw [this, ih, nullConns_K, aget_amap]
    cases aget s.K c with
    | none => rfl
    | some p => simp [nullFL_cons]

theorem nullConnsList_T (cs : List Nat) (s : St) : (nullConnsList s cs).T = s.T := by
  induction cs generalizing s with
  | nil => rfl
  | cons c t ih => simp [nullConnsList, List.foldl] at ih ⊢; rw [ih]; rfl

theorem nullConnsList_ownedG (cs : List Nat) (s : St) : (nullConnsList s cs).ownedG = s.ownedG := by
  induction cs generalizing s with
  | nil => rfl
  | cons c t ih => simp [nullConnsList, List.foldl] at ih ⊢; rw [ih]; rfl

theorem nullConnsList_next (cs : List Nat) (s : St) : (nullConnsList s cs).next = s.next := by
  induction cs generalizing s with
  | nil => rfl
  | cons c t ih => simp [nullConnsList, List.foldl] at ih ⊢; rw [ih]; rfl

theorem nullConnsList_trace (cs : List Nat) (s : St) : (nullConnsList s cs).trace = s.trace := by
  induction cs generalizing s with
  | nil => rfl
  | cons c t ih => simp [nullConnsList, List.foldl] at ih ⊢; rw [ih]; rfl

/-! ### `gcImpl` -/

/-- some signal object (as seen by `gcImpl`) refers to list `i` -/
def refersTo (G : List (Nat × Handle)) (i : Nat) : Bool := G.any (fun p => p.2.impl = some i)

theorem mem_of_aget {α} (l : List (Nat × α)) (k : Nat) (v : α) (h : aget l k = some v) : (k, v) ∈ l := by
  induction l with
  | nil => simp [aget] at h
  | cons p t ih =>
    obtain ⟨k', v'⟩ := p
    by_cases hk : k' = k
    · simp [aget, hk] at h; subst h; subst hk; simp
    · simp [aget, hk] at h; exact List.mem_cons_of_mem _ (ih h)

theorem refersTo_of_aget (G : List (Nat × Handle)) (g i : Nat) (h : Handle) (hg : aget G g = some h) (hi : h.impl = some i) :
    refersTo G i = true := by
  unfold refersTo
  rw [List.any_eq_true]
  exact ⟨(g, h), mem_of_aget G g h hg, by simp [hi]⟩

/-- a list that some handle refers to is left alone -/
theorem gcImpl_owned (s : St) (i : Nat) (h : refersTo s.G i = true) : gcImpl s i = s := by
  unfold gcImpl
  split
  · rfl
  · unfold refersTo at h; simp [h]

/-- a list held by a running emission (`signal_impl_holder`) is left alone -/
theorem gcImpl_held (s : St) (i : Nat) (im : Impl) (hi : aget s.impls i = some im) (hh : im.holders ≠ 0) : gcImpl s i = s := by
  unfold gcImpl
  simp [hi, hh]

/-- the last owner went: the list disappears and every connection to one of its cells is nulled -/
theorem gcImpl_last (s : St) (i : Nat) (im : Impl) (hi : aget s.impls i = some im) (hh : im.holders = 0)
    (hr : refersTo s.G i = false) :
    gcImpl s i = nullConnsList { s with impls := adel s.impls i } (im.cells.map (·.id)) := by
  unfold gcImpl
  unfold refersTo at hr
  simp [hi, hh, hr]

theorem gcImpl_absent (s : St) (i : Nat) (hi : aget s.impls i = none) : gcImpl s i = s := by
  unfold gcImpl; simp [hi]

@[simp] theorem gcImpl_T (s : St) (i : Nat) : (gcImpl s i).T = s.T := by
  unfold gcImpl
  split
  · rfl
  · split
    · simp [nullConnsList_T]
    · rfl

@[simp] theorem gcImpl_next (s : St) (i : Nat) : (gcImpl s i).next = s.next := by
  unfold gcImpl
  split
  · rfl
  · split
    · simp [nullConnsList_next]
    · rfl

@[simp] theorem gcImpl_trace (s : St) (i : Nat) : (gcImpl s i).trace = s.trace := by
  unfold gcImpl
  split
  · rfl
  · split
    · simp [nullConnsList_trace]
    · rfl

/-- `gcImpl` touches no list other than `i` -/
theorem gcImpl_other (s : St) (i k : Nat) (hk : k ≠ i) : aget (gcImpl s i).impls k = aget s.impls k := by
  unfold gcImpl
  split
  · rfl
  · split
    · rw [nullConnsList_impls]; exact aget_adel_other _ _ _ hk
    · rfl

/-- either the state is untouched or the list is gone -/
theorem gcImpl_cases (s : St) (i : Nat) : gcImpl s i = s ∨
    ∃ im, aget s.impls i = some im ∧ im.holders = 0 ∧ refersTo s.G i = false ∧
      gcImpl s i = nullConnsList { s with impls := adel s.impls i } (im.cells.map (·.id)) := by
  cases hi : aget s.impls i with
  | none => exact Or.inl (gcImpl_absent s i hi)
  | some im =>
    by_cases hh : im.holders = 0
    · cases hr : refersTo s.G i with
      | true => exact Or.inl (gcImpl_owned s i hr)
      | false => exact Or.inr ⟨im, rfl, hh, rfl, gcImpl_last s i im hi hh hr⟩
    · exact Or.inl (gcImpl_held s i im hi hh)

/-! ### functor copies held by a list that is torn down -/

/-- live copies of user functor `fid` held by the cells of one list -/
def implLive (fid : Nat) (im : Impl) : Nat := (im.cells.map (fun c => c.slot.live fid)).sum

theorem liveCount_eq (s : St) (fid : Nat) :
    liveCount s fid = (s.S.map (fun p => p.2.slot.live fid)).sum + (s.impls.map (fun p => implLive fid p.2)).sum := rfl

theorem sum_adel_le {α : Type} (l : List (Nat × α)) (g : α → Nat) (i : Nat) (v : α) (h : aget l i = some v) :
    ((adel l i).map (fun p => g p.2)).sum + g v ≤ (l.map (fun p => g p.2)).sum := by
  induction l with
  | nil => simp [aget] at h
  | cons p t ih =>
    obtain ⟨k, x⟩ := p
    rw [adel_cons]
    by_cases hk : k = i
    · subst hk
      simp [aget] at h
      subst h
      simp only [if_true, List.map_cons, List.sum_cons]
      have : ((adel t k).map (fun p => g p.2)).sum ≤ (t.map (fun p => g p.2)).sum := by
        clear ih
        induction t with
        | nil => simp [adel]
        | cons q u ihu =>
          rw [adel_cons]
          by_cases hq : q.1 = k
          · simp only [hq, if_true, List.map_cons, List.sum_cons]; omega
          · simp only [hq, if_false, List.map_cons, List.sum_cons]; omega
      omega
    · simp [aget, hk] at h
      simp only [hk, if_false, List.map_cons, List.sum_cons]
      have := ih h
      omega

theorem sum_adel_eq {α : Type} (l : List (Nat × α)) (g : α → Nat) (i : Nat) (v : α) (h : aget l i = some v)
    (hn : (l.map (·.1)).Nodup) :
    ((adel l i).map (fun p => g p.2)).sum + g v = (l.map (fun p => g p.2)).sum := by
  induction l with
  | nil => simp [aget] at h
  | cons p t ih =>
    obtain ⟨k, x⟩ := p
    simp only [List.map_cons, List.nodup_cons] at hn
    rw [adel_cons]
    by_cases hk : k = i
    · subst hk
      simp [aget] at h
      subst h
      simp only [if_true, List.map_cons, List.sum_cons]
      have : adel t k = t := by
        unfold adel
        rw [List.filter_eq_self]
        intro q hq
        have : q.1 ≠ k := by
          intro e; exact hn.1 (List.mem_map.mpr ⟨q, hq, e⟩)
        simp [this]
      rw [this]; omega
    · simp [aget, hk] at h
      simp only [hk, if_false, List.map_cons, List.sum_cons]
      have := ih h hn.2
      omega

/-- tearing a list down releases (at least) the functor copies its cells held; exactly those when the
    impl keys are unique -/
theorem gcImpl_last_liveCount (s : St) (i : Nat) (im : Impl) (fid : Nat) (hi : aget s.impls i = some im) (hh : im.holders = 0)
    (hr : refersTo s.G i = false) :
    liveCount (gcImpl s i) fid + implLive fid im ≤ liveCount s fid ∧
    ((s.impls.map (·.1)).Nodup → liveCount (gcImpl s i) fid + implLive fid im = liveCount s fid) := by
  rw [gcImpl_last s i im hi hh hr, liveCount_eq, liveCount_eq, nullConnsList_S, nullConnsList_impls]
  simp only []
  constructor
  · have := sum_adel_le s.impls (implLive fid) i im hi
    omega
  · intro hn
    have := sum_adel_eq s.impls (implLive fid) i im hi hn
    omega

end Sigc.StepHandles
