import Sigc.Model
import Sigc.Lemmas.Basic
/-!
# StepIter — lemmas about the iterator buffer, `succId`/`predId`, and one-step unfoldings of the
emission loops of `Sigc.Model` (used by `Sigc/Props/C13.lean`)
-/
namespace Sigc.StepIter
open Sigc.Model

/-! ## `succId` / `predId` -/

theorem succId_mem_tail (cs : List Cell) (k n : Nat) (h : succId cs k = some n) :
    n ∈ cs.tail.map (·.id) := by
  induction cs with
  | nil => simp [succId] at h
  | cons c t ih =>
    simp only [succId] at h
    split at h
    · cases t with
      | nil => simp at h
      | cons d t' => simp at h; simp [h]
    · have := ih h
      cases t with
      | nil => simp at this
      | cons d t' =>
        simp at this ⊢
        right; exact this

theorem succId_mem (cs : List Cell) (k n : Nat) (h : succId cs k = some n) : n ∈ cs.map (·.id) := by
  have := succId_mem_tail cs k n h
  cases cs with
  | nil => simp at this
  | cons c t => simp at this ⊢; right; exact this

theorem succId_src_mem (cs : List Cell) (k n : Nat) (h : succId cs k = some n) : k ∈ cs.map (·.id) := by
  induction cs with
  | nil => simp [succId] at h
  | cons c t ih =>
    simp only [succId] at h
    split at h
    · rename_i hk; simp [hk]
    · simp; right; simpa using ih h

theorem predId_mem_dropLast (cs : List Cell) (n k : Nat) (h : predId cs n = some k) :
    k ∈ cs.dropLast.map (·.id) := by
  induction cs with
  | nil => simp [predId] at h
  | cons c t ih =>
    cases t with
    | nil => simp [predId] at h
    | cons d t' =>
      simp only [predId] at h
      split at h
      · simp at h; simp [h]
      · have := ih h
        simp [List.dropLast] at this ⊢
        right; exact this

theorem predId_mem (cs : List Cell) (n k : Nat) (h : predId cs n = some k) : k ∈ cs.map (·.id) := by
  obtain ⟨a, ha, rfl⟩ := List.mem_map.1 (predId_mem_dropLast cs n k h)
  exact List.mem_map.2 ⟨a, List.dropLast_subset _ ha, rfl⟩

theorem predId_tgt_mem_tail (cs : List Cell) (n k : Nat) (h : predId cs n = some k) :
    n ∈ cs.tail.map (·.id) := by
  induction cs with
  | nil => simp [predId] at h
  | cons c t ih =>
    cases t with
    | nil => simp [predId] at h
    | cons d t' =>
      simp only [predId] at h
      split at h
      · rename_i hd; simp [hd]
      · have := ih h
        simp at this ⊢
        right; exact this

/-- `--(++it)` is at the same cell -/
theorem predId_of_succId (cs : List Cell) (k n : Nat) (hnd : (cs.map (·.id)).Nodup)
    (h : succId cs k = some n) : predId cs n = some k := by
  induction cs with
  | nil => simp [succId] at h
  | cons c t ih =>
    simp only [succId] at h
    split at h
    · rename_i hk
      cases t with
      | nil => simp at h
      | cons d t' =>
        simp at h
        simp [predId, h, hk]
    · rename_i hk
      have hnd' : (t.map (·.id)).Nodup := by
        simp only [List.map_cons, List.nodup_cons] at hnd; exact hnd.2
      have ih' := ih hnd' h
      cases t with
      | nil => simp [succId] at h
      | cons d t' =>
        have hmem := succId_mem_tail _ _ _ h
        have hdn : d.id ≠ n := by
          intro e
          simp only [List.map_cons, List.nodup_cons] at hnd'
          apply hnd'.1
          rw [e]; simpa using hmem
        simp [predId, hdn, ih']

/-- `++(--it)` is at the same cell -/
theorem succId_of_predId (cs : List Cell) (k n : Nat) (hnd : (cs.map (·.id)).Nodup)
    (h : predId cs n = some k) : succId cs k = some n := by
  induction cs with
  | nil => simp [predId] at h
  | cons c t ih =>
    cases t with
    | nil => simp [predId] at h
    | cons d t' =>
      simp only [predId] at h
      split at h
      · rename_i hd
        simp at h
        simp [succId, h, hd]
      · rename_i hd
        have hnd' : ((d :: t').map (·.id)).Nodup := by
          simp only [List.map_cons, List.nodup_cons] at hnd ⊢; exact hnd.2
        have ih' := ih hnd' h
        have hmem := predId_mem _ _ _ h
        have hck : c.id ≠ k := by
          intro e
          rw [List.map_cons, List.nodup_cons] at hnd
          apply hnd.1
          rw [e]; exact hmem
        rw [succId]
        simp only [hck, if_false]
        exact ih'

/-- the successor of the last cell does not exist; of any other cell of a duplicate-free list it does -/
theorem succId_isSome_of_mem_dropLast (cs : List Cell) (k : Nat) (h : k ∈ cs.dropLast.map (·.id)) :
    ∃ n, succId cs k = some n := by
  induction cs with
  | nil => simp at h
  | cons c t ih =>
    cases t with
    | nil => simp at h
    | cons d t' =>
      by_cases hk : c.id = k
      · exact ⟨d.id, by simp [succId, hk]⟩
      · simp [List.dropLast] at h
        rcases h with h | h
        · exact absurd h.symm hk
        · obtain ⟨n, hn⟩ := ih (by simpa using h)
          exact ⟨n, by rw [succId]; simp only [hk, if_false]; exact hn⟩

/-- in a list without duplicate ids, `++` goes from index `j` to index `j+1` -/
theorem succId_getElem (cs : List Cell) (hnd : (cs.map (·.id)).Nodup) (j : Nat) (h : j + 1 < cs.length) :
    succId cs (cs[j]'(by omega)).id = some (cs[j+1]).id := by
  induction cs generalizing j with
  | nil => simp at h
  | cons c t ih =>
    have hnd' : (t.map (·.id)).Nodup := by
      simp only [List.map_cons, List.nodup_cons] at hnd; exact hnd.2
    cases j with
    | zero =>
      cases t with
      | nil => simp at h
      | cons d t' => simp [succId]
    | succ j' =>
      have hlt : j' + 1 < t.length := by simp at h; omega
      have hne : c.id ≠ (t[j']'(by omega)).id := by
        intro e
        simp only [List.map_cons, List.nodup_cons] at hnd
        apply hnd.1
        rw [e]
        exact List.mem_map.2 ⟨_, List.getElem_mem _, rfl⟩
      simp only [List.getElem_cons_succ]
      rw [succId]
      simp only [hne, if_false]
      exact ih hnd' j' hlt

/-- … and `--` from index `j+1` back to index `j`: a walk from the end backwards visits the list in
    reverse order -/
theorem predId_getElem (cs : List Cell) (hnd : (cs.map (·.id)).Nodup) (j : Nat) (h : j + 1 < cs.length) :
    predId cs (cs[j+1]).id = some (cs[j]'(by omega)).id :=
  predId_of_succId cs _ _ hnd (succId_getElem cs hnd j h)

/-- the first cell has no predecessor, the last no successor -/
theorem predId_head (c : Cell) (t : List Cell) (hnd : ((c :: t).map (·.id)).Nodup) : predId (c :: t) c.id = none := by
  cases hp : predId (c :: t) c.id with
  | none => rfl
  | some k =>
    exfalso
    have := predId_tgt_mem_tail _ _ _ hp
    simp only [List.map_cons, List.nodup_cons] at hnd
    exact hnd.1 (by simpa using this)

theorem succId_last (cs : List Cell) (c : Cell) (hnd : ((cs ++ [c]).map (·.id)).Nodup) : succId (cs ++ [c]) c.id = none := by
  induction cs with
  | nil => simp [succId]
  | cons d t ih =>
    have hnd' : ((t ++ [c]).map (·.id)).Nodup := by
      simp only [List.cons_append, List.map_cons, List.nodup_cons] at hnd; exact hnd.2
    have hne : d.id ≠ c.id := by
      intro e
      simp only [List.cons_append, List.map_cons, List.nodup_cons] at hnd
      apply hnd.1
      rw [e]; simp
    simp only [List.cons_append]
    rw [succId]
    simp only [hne, if_false]
    exact ih hnd'

/-! ## `deref` (`slot_iterator_buf::operator*`) -/

/-- the functor a dereference / loop step would invoke at cell `cur` of impl `i` in state `s`
    (`none`: list or cell gone, no rep, `call_ = nullptr`, functor released, or blocked) -/
def callableAt (s : St) (i cur : Nat) : Option Fun :=
  match aget s.impls i with
  | none => none
  | some im =>
    match im.cells.find? (·.id = cur) with
    | none => none
    | some c =>
      match c.slot.rep with
      | some { call := true, fn := some fn } => if c.slot.blocked then none else some fn
      | _ => none

theorem callableAt_eq_some (s : St) (i cur : Nat) (fn : Fun) (h : callableAt s i cur = some fn) :
    ∃ im c, aget s.impls i = some im ∧ im.cells.find? (·.id = cur) = some c ∧
      c.slot.rep = some { call := true, fn := some fn } ∧ c.slot.blocked = false := by
  unfold callableAt at h
  split at h
  · simp at h
  · rename_i im him
    split at h
    · simp at h
    · rename_i c hc
      split at h
      · rename_i fn' hrep
        split at h
        · simp at h
        · rename_i hb
          simp at h; subst h
          exact ⟨im, c, him, hc, hrep, by simpa using hb⟩
      · simp at h

theorem callableAt_of (s : St) (i cur : Nat) (im : Impl) (c : Cell) (fn : Fun)
    (hi : aget s.impls i = some im) (hc : im.cells.find? (·.id = cur) = some c)
    (hrep : c.slot.rep = some { call := true, fn := some fn }) (hb : c.slot.blocked = false) :
    callableAt s i cur = some fn := by
  simp [callableAt, hi, hc, hrep, hb]

/-- `deref` in terms of `callableAt`: everything a dereference can do -/
theorem deref_cases (f : Nat) (P : Prog) (s : St) (i arg : Nat) (it : IterBuf) :
    deref (f+1) P s i it arg =
      (if it.invoked then
         (match aget s.impls i with
          | none => some (s.fail "deref: impl destroyed", .ok, it)
          | some im =>
            match im.cells.find? (·.id = it.pos) with
            | none => some (s.fail "deref: iterator invalidated", .ok, it)
            | some _ => some (s, .ok, it))
       else
         match aget s.impls i with
         | none => some (s.fail "deref: impl destroyed", .ok, it)
         | some im =>
           match im.cells.find? (·.id = it.pos) with
           | none => some (s.fail "deref: iterator invalidated", .ok, it)
           | some _ =>
             match callableAt s i it.pos with
             | none => some (s, .ok, it)
             | some fn =>
               match invokeFun f P s fn arg with
               | none => none
               | some (s, .exc, _) => some (s, .exc, it)
               | some (s, .ok, v) => some (s, .ok, { it with buf := v, invoked := true })) := by
  rw [deref]
  cases hi : aget s.impls i with
  | none => simp
  | some im =>
    cases hc : im.cells.find? (·.id = it.pos) with
    | none => simp [hc]
    | some c =>
      simp only [callableAt, hi, hc]
      cases hrep : c.slot.rep with
      | none => simp
      | some rp =>
        obtain ⟨call, fn⟩ := rp
        cases call <;> cases fn <;> cases hb : c.slot.blocked <;> cases hinv : it.invoked <;>
          (try simp) <;> (try rfl)

/-- (a) an already-invoked position is not invoked again: the iterator comes back unchanged and the
    state is unchanged except possibly for the model-error flag (list/cell gone) -/
theorem deref_invoked (f : Nat) (P : Prog) (s : St) (i arg : Nat) (it : IterBuf) (hinv : it.invoked = true) :
    ∃ s', deref (f+1) P s i it arg = some (s', .ok, it) ∧ (s' = s ∨ ∃ msg, s' = s.fail msg) := by
  rw [deref_cases]
  simp only [hinv, if_true]
  split
  · exact ⟨_, rfl, Or.inr ⟨_, rfl⟩⟩
  · split
    · exact ⟨_, rfl, Or.inr ⟨_, rfl⟩⟩
    · exact ⟨_, rfl, Or.inl rfl⟩

/-- (b) a position that is not callable at that moment (blocked, no rep, `call_ = nullptr`, functor
    released, end marker, cell or list gone) is not invoked -/
theorem deref_not_callable (f : Nat) (P : Prog) (s : St) (i arg : Nat) (it : IterBuf)
    (hnc : callableAt s i it.pos = none) :
    ∃ s', deref (f+1) P s i it arg = some (s', .ok, it) ∧ (s' = s ∨ ∃ msg, s' = s.fail msg) := by
  rw [deref_cases]
  split
  · split
    · exact ⟨_, rfl, Or.inr ⟨_, rfl⟩⟩
    · split
      · exact ⟨_, rfl, Or.inr ⟨_, rfl⟩⟩
      · exact ⟨_, rfl, Or.inl rfl⟩
  · split
    · exact ⟨_, rfl, Or.inr ⟨_, rfl⟩⟩
    · split
      · exact ⟨_, rfl, Or.inr ⟨_, rfl⟩⟩
      · simp only [hnc]
        exact ⟨_, rfl, Or.inl rfl⟩

/-- everything `deref` can return: the iterator unchanged (nothing invoked, or the functor threw), or
    the result of exactly one `invokeFun` call buffered and the position marked invoked -/
theorem deref_result (f : Nat) (P : Prog) (s s' : St) (i arg : Nat) (it it' : IterBuf) (o : Outcome)
    (h : deref (f+1) P s i it arg = some (s', o, it')) :
    (it' = it ∧ o = .ok ∧ (s' = s ∨ ∃ msg, s' = s.fail msg)) ∨
    (∃ fn, callableAt s i it.pos = some fn ∧ it.invoked = false ∧
       ((∃ v, invokeFun f P s fn arg = some (s', .exc, v) ∧ o = .exc ∧ it' = it) ∨
        (∃ v, invokeFun f P s fn arg = some (s', .ok, v) ∧ o = .ok ∧
              it' = { it with buf := v, invoked := true }))) := by
  rw [deref_cases] at h
  split at h
  · left
    split at h
    · simp at h; obtain ⟨rfl, rfl, rfl⟩ := h; exact ⟨rfl, rfl, Or.inr ⟨_, rfl⟩⟩
    · split at h
      · simp at h; obtain ⟨rfl, rfl, rfl⟩ := h; exact ⟨rfl, rfl, Or.inr ⟨_, rfl⟩⟩
      · simp at h; obtain ⟨rfl, rfl, rfl⟩ := h; exact ⟨rfl, rfl, Or.inl rfl⟩
  · rename_i hinv
    split at h
    · left; simp at h; obtain ⟨rfl, rfl, rfl⟩ := h; exact ⟨rfl, rfl, Or.inr ⟨_, rfl⟩⟩
    · split at h
      · left; simp at h; obtain ⟨rfl, rfl, rfl⟩ := h; exact ⟨rfl, rfl, Or.inr ⟨_, rfl⟩⟩
      · split at h
        · left; simp at h; obtain ⟨rfl, rfl, rfl⟩ := h; exact ⟨rfl, rfl, Or.inl rfl⟩
        · rename_i fn hfn
          right
          refine ⟨fn, hfn, by simpa using hinv, ?_⟩
          split at h
          · simp at h
          · rename_i s2 v hx
            simp at h; obtain ⟨rfl, rfl, rfl⟩ := h
            exact Or.inl ⟨v, hx, rfl, rfl⟩
          · rename_i s2 v hx
            simp at h; obtain ⟨rfl, rfl, rfl⟩ := h
            exact Or.inr ⟨v, hx, rfl, rfl⟩

/-- `deref` never moves the iterator -/
theorem deref_pos (f : Nat) (P : Prog) (s s' : St) (i arg : Nat) (it it' : IterBuf) (o : Outcome)
    (h : deref f P s i it arg = some (s', o, it')) : it'.pos = it.pos := by
  cases f with
  | zero => simp [deref] at h
  | succ f =>
    rcases deref_result f P s s' i arg it it' o h with ⟨rfl, _, _⟩ | ⟨fn, _, _, h2 | h2⟩
    · rfl
    · obtain ⟨v, _, _, rfl⟩ := h2; rfl
    · obtain ⟨v, _, _, rfl⟩ := h2; rfl

/-- once invoked, stays invoked (until the iterator is moved) -/
theorem deref_invoked_mono (f : Nat) (P : Prog) (s s' : St) (i arg : Nat) (it it' : IterBuf) (o : Outcome)
    (h : deref f P s i it arg = some (s', o, it')) (hinv : it.invoked = true) : it'.invoked = true := by
  cases f with
  | zero => simp [deref] at h
  | succ f =>
    rcases deref_result f P s s' i arg it it' o h with ⟨rfl, _, _⟩ | ⟨fn, _, h1, _⟩
    · exact hinv
    · rw [hinv] at h1; cases h1

/-! ## one-step unfoldings of the accumulator loops -/

/-- the `++it` of the accumulator loops: successor in the *current* list, flag reset -/
def accAdvance (f : Nat) (P : Prog) (i m arg mode k : Nat) (s : St) (it : IterBuf) (r : Nat) :
    Option (St × Outcome × Nat) :=
  match aget s.impls i with
  | none => some (s.fail "acc: impl destroyed", .ok, r)
  | some im =>
    match succId im.cells it.pos with
    | none => some (s.fail "acc: iterator invalidated", .ok, r)
    | some nxt => accLoop f P s i { it with pos := nxt, invoked := false } m arg mode k r

theorem accAdvance_step (f : Nat) (P : Prog) (i m arg mode k : Nat) (s : St) (it : IterBuf) (r : Nat)
    (im : Impl) (nxt : Nat) (hi : aget s.impls i = some im) (hn : succId im.cells it.pos = some nxt) :
    accAdvance f P i m arg mode k s it r
      = accLoop f P s i { it with pos := nxt, invoked := false } m arg mode k r := by
  simp [accAdvance, hi, hn]

/-- `accLoop` unfolded once, in terms of `accAdvance` -/
theorem accLoop_unfold (f : Nat) (P : Prog) (s : St) (i : Nat) (it : IterBuf) (m arg mode k r : Nat) :
    accLoop (f+1) P s i it m arg mode k r =
      (if it.pos = m then some (s, .ok, r) else
       if mode = 3 then accAdvance f P i m arg mode k s it (r + 1) else
       match deref f P s i it arg with
       | none => none
       | some (s, .exc, _) => some (s, .exc, r)
       | some (s, .ok, it') =>
         if mode = 1 && r + it'.buf ≥ k then some (s, .ok, r + it'.buf) else
         if mode = 2 then
           match deref f P s i (if mode = 4 then it else it') arg with
           | none => none
           | some (s, .exc, _) => some (s, .exc, r + it'.buf)
           | some (s, .ok, it2) => accAdvance f P i m arg mode k s it2 (r + it'.buf + it2.buf)
         else accAdvance f P i m arg mode k s (if mode = 4 then it else it') (r + it'.buf)) := by
  rw [accLoop]
  rfl

theorem accLoop_at_end (f : Nat) (P : Prog) (s : St) (i : Nat) (it : IterBuf) (m arg mode k r : Nat)
    (h : it.pos = m) : accLoop (f+1) P s i it m arg mode k r = some (s, .ok, r) := by
  rw [accLoop_unfold]; simp [h]

/-- strategy `never`: moves to the successor in the current list without dereferencing -/
theorem accLoop_never_step (f : Nat) (P : Prog) (s : St) (i : Nat) (it : IterBuf) (m arg k r : Nat)
    (im : Impl) (nxt : Nat) (hne : it.pos ≠ m) (hi : aget s.impls i = some im)
    (hn : succId im.cells it.pos = some nxt) :
    accLoop (f+1) P s i it m arg 3 k r
      = accLoop f P s i { it with pos := nxt, invoked := false } m arg 3 k (r + 1) := by
  rw [accLoop_unfold]; simp [hne, accAdvance, hi, hn]

/-- strategy `sum`: dereferences once, adds the buffer, moves to the successor in the list as it is
    *after* the dereference, with the flag reset -/
theorem accLoop_sum_step (f : Nat) (P : Prog) (s s1 : St) (i : Nat) (it it' : IterBuf) (m arg k r : Nat)
    (im : Impl) (nxt : Nat) (hne : it.pos ≠ m) (hd : deref f P s i it arg = some (s1, .ok, it'))
    (hi : aget s1.impls i = some im) (hn : succId im.cells it'.pos = some nxt) :
    accLoop (f+1) P s i it m arg 0 k r
      = accLoop f P s1 i { it' with pos := nxt, invoked := false } m arg 0 k (r + it'.buf) := by
  rw [accLoop_unfold]; simp [hne, hd, accAdvance, hi, hn]

/-- strategy `stop k`: stops as soon as the running sum reaches `k` -/
theorem accLoop_stop_reached (f : Nat) (P : Prog) (s s1 : St) (i : Nat) (it it' : IterBuf) (m arg k r : Nat)
    (hne : it.pos ≠ m) (hd : deref f P s i it arg = some (s1, .ok, it')) (hk : r + it'.buf ≥ k) :
    accLoop (f+1) P s i it m arg 1 k r = some (s1, .ok, r + it'.buf) := by
  rw [accLoop_unfold]; simp [hne, hd, hk]

theorem accLoop_stop_step (f : Nat) (P : Prog) (s s1 : St) (i : Nat) (it it' : IterBuf) (m arg k r : Nat)
    (im : Impl) (nxt : Nat) (hne : it.pos ≠ m) (hd : deref f P s i it arg = some (s1, .ok, it'))
    (hk : r + it'.buf < k) (hi : aget s1.impls i = some im) (hn : succId im.cells it'.pos = some nxt) :
    accLoop (f+1) P s i it m arg 1 k r
      = accLoop f P s1 i { it' with pos := nxt, invoked := false } m arg 1 k (r + it'.buf) := by
  rw [accLoop_unfold]
  have : ¬ (k ≤ r + it'.buf) := by omega
  simp [hne, hd, this, accAdvance, hi, hn]

/-- strategy `twice`: dereferences the same iterator twice, then moves -/
theorem accLoop_twice_step (f : Nat) (P : Prog) (s s1 s2 : St) (i : Nat) (it it' it2 : IterBuf) (m arg k r : Nat)
    (im : Impl) (nxt : Nat) (hne : it.pos ≠ m) (hd : deref f P s i it arg = some (s1, .ok, it'))
    (hd2 : deref f P s1 i it' arg = some (s2, .ok, it2))
    (hi : aget s2.impls i = some im) (hn : succId im.cells it2.pos = some nxt) :
    accLoop (f+1) P s i it m arg 2 k r
      = accLoop f P s2 i { it2 with pos := nxt, invoked := false } m arg 2 k (r + it'.buf + it2.buf) := by
  rw [accLoop_unfold]; simp [hne, hd, hd2, accAdvance, hi, hn]

/-- strategy `postinc` (`old = it++; r += *old`): the copy is dereferenced, the iterator that moves
    on is the original one -/
theorem accLoop_postinc_step (f : Nat) (P : Prog) (s s1 : St) (i : Nat) (it it' : IterBuf) (m arg k r : Nat)
    (im : Impl) (nxt : Nat) (hne : it.pos ≠ m) (hd : deref f P s i it arg = some (s1, .ok, it'))
    (hi : aget s1.impls i = some im) (hn : succId im.cells it.pos = some nxt) :
    accLoop (f+1) P s i it m arg 4 k r
      = accLoop f P s1 i { it with pos := nxt, invoked := false } m arg 4 k (r + it'.buf) := by
  rw [accLoop_unfold]; simp [hne, hd, accAdvance, hi, hn]

/-- an exception thrown by a dereferenced slot leaves the accumulator loop at once -/
theorem accLoop_exc (f : Nat) (P : Prog) (s s1 : St) (i : Nat) (it it' : IterBuf) (m arg mode k r : Nat)
    (hne : it.pos ≠ m) (hm : mode ≠ 3) (hd : deref f P s i it arg = some (s1, .exc, it')) :
    accLoop (f+1) P s i it m arg mode k r = some (s1, .exc, r) := by
  rw [accLoop_unfold]; simp [hne, hm, hd]

theorem revLoop_at_begin (f : Nat) (P : Prog) (s : St) (i : Nat) (it : IterBuf) (first arg r : Nat)
    (h : it.pos = first) : revLoop (f+1) P s i it first arg r = some (s, .ok, r) := by
  rw [revLoop]; simp [h]

/-- reverse walk: steps to the predecessor in the current list with the flag reset, then dereferences -/
theorem revLoop_step (f : Nat) (P : Prog) (s : St) (i : Nat) (it : IterBuf) (first arg r : Nat)
    (im : Impl) (prv : Nat) (hne : it.pos ≠ first) (hi : aget s.impls i = some im)
    (hp : predId im.cells it.pos = some prv) :
    revLoop (f+1) P s i it first arg r =
      (match deref f P s i { it with pos := prv, invoked := false } arg with
       | none => none
       | some (s, .exc, _) => some (s, .exc, r)
       | some (s, .ok, it) => revLoop f P s i it first arg (r + it.buf)) := by
  rw [revLoop]; simp [hne, hi, hp] <;> rfl

theorem walkLoop_nil (f : Nat) (P : Prog) (s : St) (i : Nat) (it : IterBuf) (first m arg r : Nat) :
    walkLoop (f+1) P s i it first m arg [] r = some (s, .ok, r) := by
  rw [walkLoop]

/-- scripted walk, `i` (`++it`): successor in the current list, flag reset -/
theorem walkLoop_inc (f : Nat) (P : Prog) (s : St) (i : Nat) (it : IterBuf) (first m arg r : Nat) (cs : List Char)
    (im : Impl) (nxt : Nat) (hne : it.pos ≠ m) (hi : aget s.impls i = some im)
    (hn : succId im.cells it.pos = some nxt) :
    walkLoop (f+1) P s i it first m arg ('i' :: cs) r
      = walkLoop f P s i { it with pos := nxt, invoked := false } first m arg cs r := by
  rw [walkLoop]; simp [hne, hi, hn]

/-- scripted walk, `x` (`--it`): predecessor in the current list, flag reset -/
theorem walkLoop_dec (f : Nat) (P : Prog) (s : St) (i : Nat) (it : IterBuf) (first m arg r : Nat) (cs : List Char)
    (im : Impl) (prv : Nat) (hne : it.pos ≠ first) (hi : aget s.impls i = some im)
    (hp : predId im.cells it.pos = some prv) :
    walkLoop (f+1) P s i it first m arg ('x' :: cs) r
      = walkLoop f P s i { it with pos := prv, invoked := false } first m arg cs r := by
  rw [walkLoop]; simp [hne, hi, hp]

/-- scripted walk, `d` (`r += *it`): dereference in place, the iterator keeps flag and buffer -/
theorem walkLoop_deref (f : Nat) (P : Prog) (s : St) (i : Nat) (it : IterBuf) (first m arg r : Nat) (cs : List Char)
    (hne : it.pos ≠ m) :
    walkLoop (f+1) P s i it first m arg ('d' :: cs) r =
      (match deref f P s i it arg with
       | none => none
       | some (s, .exc, _) => some (s, .exc, r)
       | some (s, .ok, it) => walkLoop f P s i it first m arg cs (r + it.buf)) := by
  rw [walkLoop]; simp [hne] <;> rfl

/-- scripted walk, `c` (`r += *copy(it)`): a copy is dereferenced, the iterator itself is unchanged -/
theorem walkLoop_deref_copy (f : Nat) (P : Prog) (s : St) (i : Nat) (it : IterBuf) (first m arg r : Nat) (cs : List Char)
    (hne : it.pos ≠ m) :
    walkLoop (f+1) P s i it first m arg ('c' :: cs) r =
      (match deref f P s i it arg with
       | none => none
       | some (s, .exc, _) => some (s, .exc, r)
       | some (s, .ok, cp) => walkLoop f P s i it first m arg cs (r + cp.buf)) := by
  rw [walkLoop]; simp [hne] <;> rfl

/-! ## `emitImpl`: prologue, one loop / one accumulator call, epilogue -/

/-- `~temp_slot_list`, `~signal_impl_holder`, then the destructors of owned objects whose last owning
    functor copy died (`collect`); no functor runs here -/
def emitEpilogue (s : St) (i m : Nat) (o : Outcome) (v : Nat) : St × Outcome × Nat :=
  match aget s.impls i with
  | none => (s.fail "emit: impl destroyed during emission", o, v)
  | some im2 =>
    let s := if im2.cells.any (·.id = m) then eraseCell s i m else s.fail "emit: end marker missing"
    let s := unrefExec s i
    let s := match aget s.impls i with
      | none => s
      | some im3 => setImpl s i { im3 with holders := im3.holders - 1 }
    (collect (gcImpl s i), o, v)

theorem emitEpilogue_passes (s : St) (i m : Nat) (o : Outcome) (v : Nat) : (emitEpilogue s i m o v).2 = (o, v) := by
  unfold emitEpilogue
  split <;> rfl

/-- `signal_impl_holder` + `temp_slot_list`: exec and holder counts raised, end marker appended -/
def emitPrologue (s : St) (i : Nat) (im : Impl) : St :=
  setImpl { s with next := s.next + 1 } i
    { im with exec := im.exec + 1, holders := im.holders + 1,
              cells := im.cells ++ [{ id := s.next, slot := {}, linked := false }] }

/-- `begin()` of the range: the first cell present at emission start (the marker if there is none) -/
def emitFirst (s : St) (im : Impl) : Nat :=
  match im.cells with
  | [] => s.next
  | c :: _ => c.id

theorem emitImpl_acc_unfold (f : Nat) (P : Prog) (s : St) (fl : Flavour) (i arg : Nat) (strat : Strat) (im : Impl)
    (hacc : fl.isAcc = true) (hi : aget s.impls i = some im) :
    emitImpl (f+1) P s fl (some i) arg strat =
      (match runStrat f P (emitPrologue s i im) i (emitFirst s im) s.next arg (strat.forFlavour fl) with
       | none => none
       | some (s2, o, v) => some (emitEpilogue s2 i s.next o v)) := by
  rw [emitImpl]
  simp only [hi, hacc, St.fresh]
  simp only [Bool.not_true, Bool.false_and, Bool.false_eq_true, ↓reduceIte]
  unfold emitPrologue emitFirst
  cases hr : runStrat f P _ i _ s.next arg (strat.forFlavour fl) with
  | none => rfl
  | some res =>
    obtain ⟨s2, o, v⟩ := res
    simp only [emitEpilogue]
    cases aget s2.impls i <;> rfl

theorem emitImpl_plain_unfold (f : Nat) (P : Prog) (s : St) (fl : Flavour) (i arg : Nat) (strat : Strat) (im : Impl)
    (hacc : fl.isAcc = false) (hi : aget s.impls i = some im) (hne : im.cells ≠ []) :
    emitImpl (f+1) P s fl (some i) arg strat =
      (match emitLoop f P (emitPrologue s i im) i (emitFirst s im) s.next arg 0 with
       | none => none
       | some (s2, o, v) => some (emitEpilogue s2 i s.next o v)) := by
  rw [emitImpl]
  have hne' : im.cells.isEmpty = false := by cases h : im.cells <;> simp_all
  simp only [hi, hacc, St.fresh, hne']
  simp only [Bool.not_false, Bool.and_false, Bool.false_eq_true, ↓reduceIte]
  unfold emitPrologue emitFirst
  cases hr : emitLoop f P _ i _ s.next arg 0 with
  | none => rfl
  | some res =>
    obtain ⟨s2, o, v⟩ := res
    simp only [emitEpilogue]
    cases aget s2.impls i <;> rfl

theorem emitImpl_plain_empty (f : Nat) (P : Prog) (s : St) (fl : Flavour) (i arg : Nat) (strat : Strat) (im : Impl)
    (hacc : fl.isAcc = false) (hi : aget s.impls i = some im) (he : im.cells = []) :
    emitImpl (f+1) P s fl (some i) arg strat = some (s, .ok, 0) := by
  rw [emitImpl]
  simp [hi, hacc, he]

theorem emitImpl_none (f : Nat) (P : Prog) (s : St) (fl : Flavour) (arg : Nat) (strat : Strat) :
    emitImpl (f+1) P s fl none arg strat = some (s, .ok, 0) := by
  rw [emitImpl]

/-! ## user functors (`leaf`, `owner`) -/

/-- the user functor id of a functor that runs a user body directly (`leaf`, `owner`) -/
def userFid : Fun → Option Nat
  | .leaf fid _ => some fid
  | .owner fid _ _ => some fid
  | _ => none

/-- `invokeFun` of a user functor, unfolded once -/
theorem invokeFun_user (f : Nat) (P : Prog) (s : St) (fn : Fun) (fid arg : Nat) (hu : userFid fn = some fid) :
    invokeFun (f+1) P s fn arg =
      (match aget P.bodies fid with
       | none => some (s.log (.call s.depth fid arg), .ok, resultOf fid arg)
       | some body =>
         match runBody f P { s.log (.call s.depth fid arg) with depth := s.depth + 1 } body with
         | none => none
         | some (s2, o) => some ({ s2 with depth := s2.depth - 1 }, o, resultOf fid arg)) := by
  cases fn with
  | leaf fid' ts => simp [userFid] at hu; subst hu; rw [invokeFun]; rfl
  | owner fid' a b => simp [userFid] at hu; subst hu; rw [invokeFun]; rfl
  | nest b inner => simp [userFid] at hu
  | fwd o ts => simp [userFid] at hu

/-- a user functor without a body: logs its call at the current depth and returns `resultOf` -/
theorem invokeFun_leaf_nobody (f : Nat) (P : Prog) (s : St) (fid arg : Nat) (ts : List Nat)
    (hb : aget P.bodies fid = none) :
    invokeFun (f+1) P s (.leaf fid ts) arg = some (s.log (.call s.depth fid arg), .ok, resultOf fid arg) := by
  rw [invokeFun_user f P s _ fid arg rfl]; simp [hb]

/-- a user functor with a body: logs its call at the current depth, runs the body one level deeper,
    restores the depth, and returns `resultOf` whatever the body did -/
theorem invokeFun_leaf_body (f : Nat) (P : Prog) (s : St) (fid arg : Nat) (ts : List Nat) (body : List Line)
    (hb : aget P.bodies fid = some body) :
    invokeFun (f+1) P s (.leaf fid ts) arg =
      (match runBody f P { s.log (.call s.depth fid arg) with depth := s.depth + 1 } body with
       | none => none
       | some (s2, o) => some ({ s2 with depth := s2.depth - 1 }, o, resultOf fid arg)) := by
  rw [invokeFun_user f P s _ fid arg rfl]; simp only [hb]

/-! ## concrete states for the `example`s of `Props/C13.lean` -/

def exCell (id fid : Nat) (blocked : Bool) : Cell :=
  { id := id, slot := { blocked := blocked, rep := some { call := true, fn := some (.leaf fid []) } }, linked := true }

/-- impl 1 with cells 2 (functor 7), 3 (functor 8, blocked), 4 (functor 9), 5 (invalidated) -/
def exImpl : Impl :=
  { cells := [exCell 2 7 false, exCell 3 8 true, exCell 4 9 false,
              { id := 5, slot := { blocked := false, rep := some { call := false, fn := none } }, linked := false }] }

def exSt : St := { impls := [(1, exImpl)], next := 6, G := [(0, { obj := 100, fl := .I, impl := some 1, trk := 101, lvl := 0 })] }

def exProg : Prog := { bodies := [], top := [] }

/-- `exSt` after functor 7 (cell 2) was invoked with argument 5 -/
def exSt2 : St := exSt.log (.call 0 7 5)

/-- first dereference of cell 2 of `exSt` -/
theorem exDeref2 : deref 2 exProg exSt 1 { pos := 2 } 5
    = some (exSt2, .ok, { pos := 2, invoked := true, buf := 75 }) := by
  rw [deref]
  have hx : invokeFun 1 exProg exSt (.leaf 7 []) 5 = some (exSt2, .ok, 75) := invokeFun_leaf_nobody 0 exProg exSt 7 5 [] rfl
  have hi : aget exSt.impls 1 = some exImpl := rfl
  have hc : exImpl.cells.find? (·.id = ({ pos := 2 } : IterBuf).pos) = some (exCell 2 7 false) := rfl
  simp only [hi, hc]
  simp [exCell, hx]

/-- a program whose functor 7 throws -/
def exProgT : Prog := { bodies := [(7, [{ text := "throw", op := .throw_ }])], top := [] }

end Sigc.StepIter
