import Sigc.Lemmas.InvHandle
import Sigc.Lemmas.EmitDefs
/-!
# Fuel work package — the level invariant (definitions)

The recursion guard of the operation language: a forwarder (`Fun.fwd`, `make_slot()`) can only be connected to
a signal object of a strictly higher `lvl` than the one it forwards to.  `LvlInv` states this for every functor
held in a slot variable (bounded by the variable's `taint`) and in a slot list (bounded by the `lvl` of the
signal objects that share the list); `Bnd s i L` is the same bound for one slot list `i`, which is what an
emission of that list relies on while it runs (the list may lose all its signal objects meanwhile).

`Sub s s'` — "`s'` has nothing that `s` had not": the signal objects, slot-variable functors and cell functors
of `s'` come from `s` (or are fresh signal objects without a slot list, or empty slots).  `LvlInv` and `Bnd`
are inherited along `Sub`; every destructive step of the model is a `Sub` step.
-/
namespace Sigc.Fuel
open Sigc.Model

/-- the functor held by a slot -/
def fnOf (sl : SlotB) : Option Fun :=
  match sl.rep with
  | some r => r.fn
  | none => none

/-- the signal object `fn` finally forwards to (if any) was allocated before `n` and every signal object with
    that identity has a level below `ℓ` -/
def FunLt (n : Nat) (G : List (Nat × Handle)) (fn : Fun) (ℓ : Int) : Prop :=
  ∀ o ts, Emit.funTarget fn = some (o, ts) → o < n ∧ ∀ p ∈ G, p.2.obj = o → (p.2.lvl : Int) < ℓ

def SlotLt (n : Nat) (G : List (Nat × Handle)) (sl : SlotB) (ℓ : Int) : Prop :=
  ∀ fn, fnOf sl = some fn → FunLt n G fn ℓ

/-- slot list `i`: every functor forwards below level `L`, every signal object sharing the list has level `≤ L` -/
def Bnd (s : St) (i L : Nat) : Prop :=
  (∀ im, aget s.impls i = some im → ∀ c ∈ im.cells, SlotLt s.next s.G c.slot L) ∧
  (∀ p ∈ s.G, p.2.impl = some i → p.2.lvl ≤ L)

structure LvlInv (s : St) : Prop where
  objlt : ∀ p ∈ s.G, p.2.obj < s.next
  objuniq : ∀ p ∈ s.G, ∀ q ∈ s.G, p.2.obj = q.2.obj → p.2.lvl = q.2.lvl
  impllt : ∀ p ∈ s.G, ∀ i, p.2.impl = some i → i < s.next
  slots : ∀ i v, aget s.S i = some v → SlotLt s.next s.G v.slot (v.taint + 1)
  impls : ∀ p ∈ s.G, ∀ i, p.2.impl = some i → Bnd s i p.2.lvl

/-- the invariant carried through the interpreter: `LvlInv`, and for `k = some (i, L)` also the bound `L` of
    the slot list `i` whose emission is in progress -/
def JK (k : Option (Nat × Nat)) (s : St) : Prop :=
  LvlInv s ∧ ∀ i L, k = some (i, L) → Bnd s i L ∧ i < s.next

theorem LvlInv.init : LvlInv ({} : St) := by
  refine ⟨?_, ?_, ?_, ?_, ?_⟩
  · intro p hp; cases hp
  · intro p hp; cases hp
  · intro p hp; cases hp
  · intro i v h; cases h
  · intro p hp; cases hp

theorem JK.init : JK none ({} : St) := ⟨LvlInv.init, fun _ _ h => by cases h⟩

/-! ## `Sub` -/

structure Sub (s s' : St) : Prop where
  next : s.next ≤ s'.next
  /-- the identity of a signal object of `s'` is that of a signal object of `s` with the same level, or fresh -/
  Gobj : ∀ q ∈ s'.G, (∃ p ∈ s.G, p.2.obj = q.2.obj ∧ p.2.lvl = q.2.lvl) ∨
    (s.next ≤ q.2.obj ∧ q.2.obj < s'.next ∧ ∀ q' ∈ s'.G, q'.2.obj = q.2.obj → q'.2.lvl = q.2.lvl)
  /-- the slot list of a signal object of `s'` is that of a signal object of `s` with the same level -/
  Gimpl : ∀ q ∈ s'.G, q.2.impl = none ∨ ∃ p ∈ s.G, p.2.impl = q.2.impl ∧ p.2.lvl = q.2.lvl
  S : ∀ i v', aget s'.S i = some v' →
    fnOf v'.slot = none ∨ ∃ j v, aget s.S j = some v ∧ v.taint ≤ v'.taint ∧ fnOf v'.slot = fnOf v.slot
  impls : ∀ i im', aget s'.impls i = some im' →
    ∃ im, aget s.impls i = some im ∧
      ∀ c' ∈ im'.cells, fnOf c'.slot = none ∨ ∃ c ∈ im.cells, fnOf c'.slot = fnOf c.slot

theorem Sub.refl (s : St) : Sub s s :=
  ⟨Nat.le_refl _, fun q hq => Or.inl ⟨q, hq, rfl, rfl⟩, fun q hq => Or.inr ⟨q, hq, rfl, rfl⟩,
   fun i v h => Or.inr ⟨i, v, h, Int.le_refl _, rfl⟩,
   fun _ im h => ⟨im, h, fun c hc => Or.inr ⟨c, hc, rfl⟩⟩⟩

theorem Sub.trans {a b c : St} (h1 : Sub a b) (h2 : Sub b c) : Sub a c := by
  refine ⟨Nat.le_trans h1.next h2.next, ?_, ?_, ?_, ?_⟩
  · intro q hq
    rcases h2.Gobj q hq with ⟨p, hp, ho, hl⟩ | ⟨h3, h4, h5⟩
    · rcases h1.Gobj p hp with ⟨p0, hp0, ho0, hl0⟩ | ⟨h3, h4, h5⟩
      · exact Or.inl ⟨p0, hp0, ho0.trans ho, hl0.trans hl⟩
      · refine Or.inr ⟨ho ▸ h3, ?_, ?_⟩
        · have := h2.next; omega
        · intro q' hq' hqo
          rcases h2.Gobj q' hq' with ⟨p', hp', ho', hl'⟩ | ⟨h3', _, _⟩
          · rw [← hl', ← hl]
            exact h5 p' hp' (by rw [ho', hqo, ho])
          · omega
    · exact Or.inr ⟨Nat.le_trans h1.next h3, h4, h5⟩
  · intro q hq
    rcases h2.Gimpl q hq with e | ⟨p, hp, hi, hl⟩
    · exact Or.inl e
    · rcases h1.Gimpl p hp with e | ⟨p0, hp0, hi0, hl0⟩
      · exact Or.inl (hi ▸ e)
      · exact Or.inr ⟨p0, hp0, hi0.trans hi, hl0.trans hl⟩
  · intro i v'' h
    rcases h2.S i v'' h with e | ⟨j, v', hj, ht, hf⟩
    · exact Or.inl e
    · rcases h1.S j v' hj with e | ⟨j0, v, hj0, ht0, hf0⟩
      · exact Or.inl (hf.trans e)
      · exact Or.inr ⟨j0, v, hj0, Int.le_trans ht0 ht, hf.trans hf0⟩
  · intro i im'' h
    obtain ⟨im', hi', hc'⟩ := h2.impls i im'' h
    obtain ⟨im, hi, hc⟩ := h1.impls i im' hi'
    refine ⟨im, hi, ?_⟩
    intro c'' hc''
    rcases hc' c'' hc'' with e | ⟨c', hm', hf'⟩
    · exact Or.inl e
    · rcases hc c' hm' with e | ⟨c0, hm0, hf0⟩
      · exact Or.inl (hf'.trans e)
      · exact Or.inr ⟨c0, hm0, hf'.trans hf0⟩

/-- a state that differs only in components `Sub` does not look at -/
theorem Sub.congr {a x y : St} (h : Sub a x) (hn : y.next = x.next) (hG : y.G = x.G) (hS : y.S = x.S)
    (hI : y.impls = x.impls) : Sub a y := by
  refine ⟨hn ▸ h.next, ?_, ?_, ?_, ?_⟩
  · intro q hq; rw [hG] at hq; rw [hn, hG]; exact h.Gobj q hq
  · intro q hq; rw [hG] at hq; exact h.Gimpl q hq
  · intro i v hv; rw [hS] at hv; exact h.S i v hv
  · intro i im hi; rw [hI] at hi; exact h.impls i im hi

/-! ## inheritance along `Sub` -/

theorem FunLt.mono {n : Nat} {G : List (Nat × Handle)} {fn : Fun} {a b : Int} (h : FunLt n G fn a) (hab : a ≤ b) :
    FunLt n G fn b := fun o ts ht =>
  ⟨(h o ts ht).1, fun p hp ho => Int.lt_of_lt_of_le ((h o ts ht).2 p hp ho) hab⟩

theorem FunLt.sub {s s' : St} (h : Sub s s') {fn : Fun} {ℓ : Int} (hf : FunLt s.next s.G fn ℓ) :
    FunLt s'.next s'.G fn ℓ := by
  intro o ts ht
  obtain ⟨h1, h2⟩ := hf o ts ht
  refine ⟨Nat.lt_of_lt_of_le h1 h.next, ?_⟩
  intro q hq hqo
  rcases h.Gobj q hq with ⟨p, hp, ho, hl⟩ | ⟨h3, _, _⟩
  · rw [← hl]; exact h2 p hp (ho.trans hqo)
  · omega

theorem Bnd.sub {s s' : St} (h : Sub s s') {i L : Nat} (hb : Bnd s i L) : Bnd s' i L := by
  refine ⟨?_, ?_⟩
  · intro im' hi' c' hc' fn hfn
    obtain ⟨im, hi, hc⟩ := h.impls i im' hi'
    rcases hc c' hc' with e | ⟨c, hm, hf⟩
    · rw [e] at hfn; cases hfn
    · exact FunLt.sub h (hb.1 im hi c hm fn (hf ▸ hfn))
  · intro q hq hqi
    rcases h.Gimpl q hq with e | ⟨p, hp, hi, hl⟩
    · rw [e] at hqi; cases hqi
    · rw [← hl]; exact hb.2 p hp (hi.trans hqi)

theorem LvlInv.sub {s s' : St} (h : Sub s s') (hI : LvlInv s) : LvlInv s' := by
  refine ⟨?_, ?_, ?_, ?_, ?_⟩
  · intro q hq
    rcases h.Gobj q hq with ⟨p, hp, ho, _⟩ | ⟨_, h4, _⟩
    · rw [← ho]; exact Nat.lt_of_lt_of_le (hI.objlt p hp) h.next
    · exact h4
  · intro q hq q' hq' ho
    rcases h.Gobj q hq with ⟨p, hp, hpo, hpl⟩ | ⟨h3, _, h5⟩
    · rcases h.Gobj q' hq' with ⟨p', hp', hpo', hpl'⟩ | ⟨h3', _, _⟩
      · rw [← hpl, ← hpl']; exact hI.objuniq p hp p' hp' (by rw [hpo, hpo', ho])
      · have := hI.objlt p hp; omega
    · exact (h5 q' hq' ho.symm).symm
  · intro q hq i hqi
    rcases h.Gimpl q hq with e | ⟨p, hp, hi, _⟩
    · rw [e] at hqi; cases hqi
    · exact Nat.lt_of_lt_of_le (hI.impllt p hp i (hi.trans hqi)) h.next
  · intro i v' hv' fn hfn
    rcases h.S i v' hv' with e | ⟨j, v, hj, ht, hf⟩
    · rw [e] at hfn; cases hfn
    · exact FunLt.sub h ((hI.slots j v hj fn (hf ▸ hfn)).mono (by omega))
  · intro q hq i hqi
    rcases h.Gimpl q hq with e | ⟨p, hp, hi, hl⟩
    · rw [e] at hqi; cases hqi
    · rw [← hl]; exact Bnd.sub h (hI.impls p hp i (hi.trans hqi))

theorem JK.sub {k : Option (Nat × Nat)} {s s' : St} (h : Sub s s') (hJ : JK k s) : JK k s' :=
  ⟨hJ.1.sub h, fun i L hk => ⟨Bnd.sub h (hJ.2 i L hk).1, Nat.lt_of_lt_of_le (hJ.2 i L hk).2 h.next⟩⟩

end Sigc.Fuel
