import Sigc.Model
import Sigc.Lemmas.Basic
import Sigc.Lemmas.Frames
import Sigc.Lemmas.StepConn
/-!
# StepTrack — `invalidateTrackable` (`trackable::notify_callbacks()` as seen by slot reps)

* slot variables: `(invalidateTrackable s t).S = amap s.S (invVar t)` for every state;
* list cells: `invalidateCell` is the pure table transformation `invI` (mirror of `discI`); under the
  well-formedness `UniqueCells` (impl keys and cell ids are unique — what the allocator `St.fresh`
  guarantees) no cell of any list refers to `t` afterwards, and `UniqueCells` is preserved;
* if nothing refers to `t`, `invalidateTrackable s t = s`.
-/
namespace Sigc.StepTrack
open Sigc.Model Sigc.StepConn

/-! ### slot variables -/

/-- what `notify_callbacks()` of trackable `t` does to one slot variable -/
def invVar (t : Nat) (v : SlotVar) : SlotVar :=
  if v.slot.tracksObj t then { v with slot := v.slot.invalidate } else v

theorem invalidateTrackable_S (s : St) (t : Nat) : (invalidateTrackable s t).S = amap s.S (invVar t) := by
  unfold invalidateTrackable
  simp only [foldl_invalidateCell_S]
  rfl

theorem invalidate_not_tracks (sl : SlotB) (t : Nat) : sl.invalidate.tracksObj t = false := by
  unfold SlotB.invalidate
  cases h : sl.rep <;> simp [SlotB.tracksObj, h]

theorem invalidate_empty_of_rep (sl : SlotB) : sl.invalidate.empty = true := by
  unfold SlotB.invalidate
  cases h : sl.rep <;> simp [SlotB.empty, h]

theorem invVar_not_tracks (t : Nat) (v : SlotVar) : (invVar t v).slot.tracksObj t = false := by
  unfold invVar
  by_cases h : v.slot.tracksObj t = true
  · simp [h, invalidate_not_tracks]
  · simp [h]

/-- after `notify_callbacks()` of `t` no slot variable refers to `t` -/
theorem invalidateTrackable_S_no_tracker (s : St) (t k : Nat) (v : SlotVar)
    (h : aget (invalidateTrackable s t).S k = some v) : v.slot.tracksObj t = false := by
  rw [invalidateTrackable_S, aget_amap] at h
  cases hv : aget s.S k with
  | none => simp [hv] at h
  | some v0 =>
    simp [hv] at h
    subst h
    exact invVar_not_tracks t v0

/-! ### list cells: `invalidateCell` as a pure function of the impl table -/

/-- the cell after `notify_slot_rep_invalidated`: invalid, functor released, parent record detached -/
def invCell (c : Cell) : Cell := { c with slot := c.slot.invalidate, linked := false }

/-- pure effect of `slot_rep::notify_slot_rep_invalidated` of cell `cid` on the impl table; the flag: was
    the cell erased -/
def invI (impls : List (Nat × Impl)) (cid : Nat) : List (Nat × Impl) × Bool :=
  match findCellImpl impls cid with
  | none => (impls, false)
  | some i =>
    match aget impls i with
    | none => (impls, false)
    | some im =>
      match im.cells.find? (·.id = cid) with
      | none => (impls, false)
      | some c =>
        let cells1 := im.cells.map (fun c => if c.id = cid then invCell c else c)
        if c.linked then
          if im.exec = 0 then (aset impls i { im with cells := cells1.filter (·.id ≠ cid) }, true)
          else (aset impls i { im with cells := cells1, deferred := true }, false)
        else (aset impls i { im with cells := cells1 }, false)

theorem invalidateCell_eq (s : St) (cid : Nat) : invalidateCell s cid = applyDisc s cid (invI s.impls cid) := by
  unfold invalidateCell getCell invI applyDisc
  cases hf : findCellImpl s.impls cid with
  | none => simp
  | some i =>
    simp only []
    cases hi : aget s.impls i with
    | none => simp
    | some im =>
      simp only []
      cases hc : im.cells.find? (·.id = cid) with
      | none => simp
      | some c =>
        simp only [Option.map_some, updCell, hi, setImpl]
        cases hl : c.linked with
        | false => simp [invCell]
        | true =>
          simp only [if_true, notifyParent, aget_aset_same]
          by_cases he : im.exec = 0
          · simp [he, eraseCell, setImpl, aset_aset_same, invCell]
          · simp [he, setImpl, aset_aset_same, invCell]

theorem invalidateCell_impls (s : St) (cid : Nat) : (invalidateCell s cid).impls = (invI s.impls cid).1 := by
  rw [invalidateCell_eq]; unfold applyDisc; split <;> rfl

theorem foldl_invalidateCell_impls (vs : List Nat) (s : St) :
    (vs.foldl invalidateCell s).impls = vs.foldl (fun im cid => (invI im cid).1) s.impls := by
  induction vs generalizing s with
  | nil => rfl
  | cons c t ih => simp only [List.foldl]; rw [ih, invalidateCell_impls]

/-! ### well-formedness: unique impl keys, unique cell ids -/

def allCells (impls : List (Nat × Impl)) : List Cell := impls.flatMap (fun p => p.2.cells)

/-- impl keys are unique and cell ids are unique across all lists -/
def UniqueCells (impls : List (Nat × Impl)) : Prop :=
  (impls.map (·.1)).Nodup ∧ ((allCells impls).map (·.id)).Nodup

instance (impls : List (Nat × Impl)) : Decidable (UniqueCells impls) := by
  unfold UniqueCells; exact inferInstance

theorem allCells_cons (p : Nat × Impl) (t : List (Nat × Impl)) : allCells (p :: t) = p.2.cells ++ allCells t := by
  simp [allCells]

theorem allCells_append (a b : List (Nat × Impl)) : allCells (a ++ b) = allCells a ++ allCells b := by
  simp [allCells]

theorem mem_allCells (impls : List (Nat × Impl)) (c : Cell) :
    c ∈ allCells impls ↔ ∃ p ∈ impls, c ∈ p.2.cells := by
  simp [allCells]

theorem aget_split {α} (l : List (Nat × α)) (k : Nat) (v : α) (h : aget l k = some v) :
    ∃ pre post, l = pre ++ (k, v) :: post ∧ (∀ w, aset l k w = pre ++ (k, w) :: post) := by
  induction l with
  | nil => simp [aget] at h
  | cons p t ih =>
    obtain ⟨k', v'⟩ := p
    by_cases hk : k' = k
    · subst hk
      simp [aget] at h
      subst h
      exact ⟨[], t, rfl, fun w => by simp [aset]⟩
    · simp [aget, hk] at h
      obtain ⟨pre, post, e, hs⟩ := ih h
      exact ⟨(k', v') :: pre, post, by rw [e]; rfl, fun w => by simp [aset, hk, hs w]⟩

theorem aget_of_mem_nodup {α} (l : List (Nat × α)) (k : Nat) (v : α) (hn : (l.map (·.1)).Nodup) (hm : (k, v) ∈ l) :
    aget l k = some v := by
  induction l with
  | nil => cases hm
  | cons p t ih =>
    obtain ⟨k', v'⟩ := p
    simp only [List.map_cons, List.nodup_cons] at hn
    rcases List.mem_cons.mp hm with e | hm'
    · cases e; simp [aget]
    · have : k' ≠ k := by
        intro e; subst e
        exact hn.1 (List.mem_map.mpr ⟨(k', v), hm', rfl⟩)
      simp [aget, this, ih hn.2 hm']

theorem findCellImpl_some (impls : List (Nat × Impl)) (cid i : Nat) (h : findCellImpl impls cid = some i) :
    ∃ im, (i, im) ∈ impls ∧ im.cells.any (fun c => decide (c.id = cid)) = true := by
  induction impls with
  | nil => simp [findCellImpl] at h
  | cons p t ih =>
    obtain ⟨k, x⟩ := p
    simp only [findCellImpl] at h
    by_cases ha : x.cells.any (fun c => decide (c.id = cid)) = true
    · simp [ha] at h; subst h; exact ⟨x, by simp, ha⟩
    · simp [ha] at h
      obtain ⟨im, hm, hany⟩ := ih (by simpa using h)
      exact ⟨im, List.mem_cons_of_mem _ hm, hany⟩

theorem findCellImpl_none (impls : List (Nat × Impl)) (cid : Nat) (h : findCellImpl impls cid = none) :
    ∀ c ∈ allCells impls, c.id ≠ cid := by
  induction impls with
  | nil => intro c hc; simp [allCells] at hc
  | cons p t ih =>
    obtain ⟨k, x⟩ := p
    simp only [findCellImpl] at h
    by_cases ha : x.cells.any (fun c => decide (c.id = cid)) = true
    · simp [ha] at h
    · simp only [ha] at h
      intro c hc
      rw [allCells_cons] at hc
      rcases List.mem_append.mp hc with h1 | h2
      · intro e
        apply ha
        rw [List.any_eq_true]
        exact ⟨c, h1, by simp [e]⟩
      · exact ih (by simpa using h) c h2

theorem find_of_any (l : List Cell) (cid : Nat) (h : l.any (fun c => decide (c.id = cid)) = true) :
    ∃ c, l.find? (fun c => decide (c.id = cid)) = some c ∧ c.id = cid ∧ c ∈ l := by
  induction l with
  | nil => simp at h
  | cons a t ih =>
    by_cases ha : a.id = cid
    · exact ⟨a, by simp [List.find?, ha], ha, by simp⟩
    · simp only [List.any_cons, ha, decide_false, Bool.false_or] at h
      obtain ⟨c, h1, h2, h3⟩ := ih h
      exact ⟨c, by simp [List.find?, ha, h1], h2, List.mem_cons_of_mem _ h3⟩

theorem map_invCell_ids (l : List Cell) (cid : Nat) :
    (l.map (fun c => if c.id = cid then invCell c else c)).map (·.id) = l.map (·.id) := by
  induction l with
  | nil => rfl
  | cons c t ih =>
    simp only [List.map_cons, ih]
    by_cases h : c.id = cid <;> simp [h, invCell]

/-- one `invalidateCell` under `UniqueCells`: well-formedness is kept; every cell afterwards is either an
    untouched cell with another id, or an invalidated one -/
theorem invI_spec (impls : List (Nat × Impl)) (cid : Nat) (hU : UniqueCells impls) :
    UniqueCells (invI impls cid).1 ∧
    ∀ c' ∈ allCells (invI impls cid).1, (c' ∈ allCells impls ∧ c'.id ≠ cid) ∨ (∃ c, c' = invCell c) := by
  cases hf : findCellImpl impls cid with
  | none =>
    have e : invI impls cid = (impls, false) := by simp [invI, hf]
    rw [e]
    exact ⟨hU, fun c' hc' => Or.inl ⟨hc', findCellImpl_none impls cid hf c' hc'⟩⟩
  | some i =>
    obtain ⟨im, hmem, hany⟩ := findCellImpl_some impls cid i hf
    have hi : aget impls i = some im := aget_of_mem_nodup impls i im hU.1 hmem
    obtain ⟨c, hc, hcid, hcm⟩ := find_of_any im.cells cid hany
    obtain ⟨pre, post, hsplit, hset⟩ := aget_split impls i im hi
    -- the new table replaces `im` by an impl whose cells are `cells1` or `cells1` without `cid`
    have hshape : ∃ im' : Impl, (invI impls cid).1 = pre ++ (i, im') :: post ∧
        (im'.cells = im.cells.map (fun c => if c.id = cid then invCell c else c) ∨
         im'.cells = (im.cells.map (fun c => if c.id = cid then invCell c else c)).filter (·.id ≠ cid)) := by
      unfold invI
      simp only [hf, hi, hc]
      by_cases hl : c.linked = true
      · by_cases he : im.exec = 0
        · exact ⟨_, by simp only [hl, he, if_true]; exact hset _, Or.inr rfl⟩
        · exact ⟨_, by simp only [hl, he, if_true, if_false]; exact hset _, Or.inl rfl⟩
      · exact ⟨_, by simp only [hl]; exact hset _, Or.inl rfl⟩
    obtain ⟨im', htab, hcells⟩ := hshape
    rw [htab]
    have hsub : (im'.cells.map (·.id)).Sublist (im.cells.map (·.id)) := by
      rcases hcells with e | e
      · rw [e, map_invCell_ids]; exact List.Sublist.refl _
      · rw [e]
        have := (List.filter_sublist (p := fun x : Cell => decide (x.id ≠ cid))
          (l := im.cells.map (fun c => if c.id = cid then invCell c else c))).map (·.id)
        rw [map_invCell_ids] at this
        exact this
    have hcellmem : ∀ c' ∈ im'.cells, ∃ c0 ∈ im.cells, c' = (if c0.id = cid then invCell c0 else c0) := by
      intro c' hc'
      rcases hcells with e | e
      · rw [e] at hc'; obtain ⟨c0, h0, rfl⟩ := List.mem_map.mp hc'; exact ⟨c0, h0, rfl⟩
      · rw [e] at hc'
        obtain ⟨c0, h0, rfl⟩ := List.mem_map.mp (List.mem_filter.mp hc').1
        exact ⟨c0, h0, rfl⟩
    obtain ⟨hkeys, hids⟩ := hU
    rw [hsplit] at hkeys hids
    refine ⟨⟨?_, ?_⟩, ?_⟩
    · simpa using hkeys
    · -- ids of the new table are a sublist of the old ids
      have : ((allCells (pre ++ (i, im') :: post)).map (·.id)).Sublist ((allCells (pre ++ (i, im) :: post)).map (·.id)) := by
        simp only [allCells_append, allCells_cons, List.map_append]
        exact (List.Sublist.refl _).append (hsub.append (List.Sublist.refl _))
      exact List.Nodup.sublist this hids
    · intro c' hc'
      simp only [allCells_append, allCells_cons, List.mem_append] at hc'
      simp only [allCells_append, allCells_cons, List.map_append] at hids
      have hcidmem : cid ∈ im.cells.map (·.id) := List.mem_map.mpr ⟨c, hcm, hcid⟩
      rw [List.nodup_append] at hids
      obtain ⟨_, hids2, hdis1⟩ := hids
      rw [List.nodup_append] at hids2
      obtain ⟨_, _, hdis2⟩ := hids2
      rcases hc' with h1 | h2 | h3
      · left
        refine ⟨by rw [hsplit]; simp only [allCells_append, List.mem_append]; exact Or.inl h1, ?_⟩
        intro e
        exact hdis1 c'.id (List.mem_map.mpr ⟨c', h1, rfl⟩) cid (List.mem_append.mpr (Or.inl hcidmem)) e
      · obtain ⟨c0, h0, rfl⟩ := hcellmem c' h2
        by_cases e : c0.id = cid
        · right; exact ⟨c0, by simp [e]⟩
        · left
          simp only [e, if_false]
          refine ⟨?_, e⟩
          rw [hsplit]; simp only [allCells_append, allCells_cons, List.mem_append]; exact Or.inr (Or.inl h0)
      · left
        refine ⟨by rw [hsplit]; simp only [allCells_append, allCells_cons, List.mem_append]; exact Or.inr (Or.inr h3), ?_⟩
        intro e
        exact hdis2 cid hcidmem c'.id (List.mem_map.mpr ⟨c', h3, rfl⟩) e.symm

theorem invCell_not_tracks (c : Cell) (t : Nat) : (invCell c).slot.tracksObj t = false :=
  invalidate_not_tracks c.slot t

/-- the fold over the victims: if every cell referring to `t` is among the victims, none refers to `t`
    afterwards -/
theorem foldl_invI_no_tracker (t : Nat) (vs : List Nat) (impls : List (Nat × Impl)) (hU : UniqueCells impls)
    (hV : ∀ c ∈ allCells impls, c.slot.tracksObj t = true → c.id ∈ vs) :
    UniqueCells (vs.foldl (fun im cid => (invI im cid).1) impls) ∧
    ∀ c ∈ allCells (vs.foldl (fun im cid => (invI im cid).1) impls), c.slot.tracksObj t = false := by
  induction vs generalizing impls with
  | nil =>
    refine ⟨hU, fun c hc => ?_⟩
    cases h : c.slot.tracksObj t with
    | false => rfl
    | true => exact absurd (hV c hc h) (by simp)
  | cons cid rest ih =>
    simp only [List.foldl]
    obtain ⟨hU1, hB⟩ := invI_spec impls cid hU
    apply ih _ hU1
    intro c' hc' htr
    rcases hB c' hc' with ⟨hmem, hne⟩ | ⟨c0, rfl⟩
    · rcases List.mem_cons.mp (hV c' hmem htr) with e | e
      · exact absurd e hne
      · exact e
    · rw [invCell_not_tracks] at htr; cases htr

/-- the victims computed by `invalidateTrackable` contain every cell referring to `t` -/
theorem victims_complete (t : Nat) (impls : List (Nat × Impl)) :
    ∀ c ∈ allCells impls, c.slot.tracksObj t = true →
      c.id ∈ impls.foldr (fun p acc => ((p.2.cells.filter (fun c => c.slot.tracksObj t)).map (·.id)) ++ acc) [] := by
  induction impls with
  | nil => intro c hc; simp [allCells] at hc
  | cons p rest ih =>
    intro c hc htr
    rw [allCells_cons] at hc
    simp only [List.foldr]
    rcases List.mem_append.mp hc with h1 | h2
    · exact List.mem_append.mpr (Or.inl (List.mem_map.mpr ⟨c, List.mem_filter.mpr ⟨h1, htr⟩, rfl⟩))
    · exact List.mem_append.mpr (Or.inr (ih c h2 htr))

/-- **after `notify_callbacks()` of trackable `t` nothing refers to `t`**: no slot variable (every state)
    and — in a state with unique cell ids — no cell of any list; uniqueness is preserved -/
theorem invalidateTrackable_no_tracker (s : St) (t : Nat) (hU : UniqueCells s.impls) :
    UniqueCells (invalidateTrackable s t).impls ∧
    (∀ c ∈ allCells (invalidateTrackable s t).impls, c.slot.tracksObj t = false) ∧
    (∀ k v, aget (invalidateTrackable s t).S k = some v → v.slot.tracksObj t = false) := by
  refine ⟨?_, ?_, fun k v h => invalidateTrackable_S_no_tracker s t k v h⟩
  · unfold invalidateTrackable
    simp only [foldl_invalidateCell_impls]
    exact (foldl_invI_no_tracker t _ s.impls hU (victims_complete t s.impls)).1
  · unfold invalidateTrackable
    simp only [foldl_invalidateCell_impls]
    exact (foldl_invI_no_tracker t _ s.impls hU (victims_complete t s.impls)).2

/-! ### nothing refers to `t`: `notify_callbacks()` does nothing -/

theorem amap_id_of {α} (l : List (Nat × α)) (f : α → α) (h : ∀ p ∈ l, f p.2 = p.2) : amap l f = l := by
  induction l with
  | nil => rfl
  | cons p t ih =>
    simp only [amap, List.map_cons] at ih ⊢
    rw [ih (fun q hq => h q (List.mem_cons_of_mem _ hq)), h p (by simp)]

theorem victims_nil (t : Nat) (impls : List (Nat × Impl)) (h : ∀ c ∈ allCells impls, c.slot.tracksObj t = false) :
    impls.foldr (fun p acc => ((p.2.cells.filter (fun c => c.slot.tracksObj t)).map (·.id)) ++ acc) [] = [] := by
  induction impls with
  | nil => rfl
  | cons p rest ih =>
    simp only [List.foldr]
    rw [ih (fun c hc => h c (by rw [allCells_cons]; exact List.mem_append.mpr (Or.inr hc)))]
    have : p.2.cells.filter (fun c => c.slot.tracksObj t) = [] := by
      rw [List.filter_eq_nil_iff]
      intro c hc
      rw [h c (by rw [allCells_cons]; exact List.mem_append.mpr (Or.inl hc))]
      simp
    simp [this]

/-- a trackable nobody refers to: its `notify_callbacks()` changes nothing (every state) -/
theorem invalidateTrackable_noop (s : St) (t : Nat)
    (hS : ∀ p ∈ s.S, p.2.slot.tracksObj t = false)
    (hI : ∀ c ∈ allCells s.impls, c.slot.tracksObj t = false) :
    invalidateTrackable s t = s := by
  unfold invalidateTrackable
  have e1 : amap s.S (fun v => if v.slot.tracksObj t then { v with slot := v.slot.invalidate } else v) = s.S := by
    apply amap_id_of
    intro p hp
    simp [hS p hp]
  simp only [e1]
  rw [victims_nil t s.impls hI]
  rfl

/-! ### everything else `invalidateTrackable` leaves alone -/

theorem invalidateCell_T (s : St) (cid : Nat) : (invalidateCell s cid).T = s.T := by
  rw [invalidateCell_eq]; unfold applyDisc; split <;> rfl
theorem invalidateCell_next (s : St) (cid : Nat) : (invalidateCell s cid).next = s.next := by
  rw [invalidateCell_eq]; unfold applyDisc; split <;> rfl
theorem invalidateCell_trace (s : St) (cid : Nat) : (invalidateCell s cid).trace = s.trace := by
  rw [invalidateCell_eq]; unfold applyDisc; split <;> rfl

theorem foldl_invalidateCell_T (cs : List Nat) (s : St) : (cs.foldl invalidateCell s).T = s.T := by
  induction cs generalizing s with
  | nil => rfl
  | cons c t ih => simp [List.foldl, ih, invalidateCell_T]
theorem foldl_invalidateCell_next (cs : List Nat) (s : St) : (cs.foldl invalidateCell s).next = s.next := by
  induction cs generalizing s with
  | nil => rfl
  | cons c t ih => simp [List.foldl, ih, invalidateCell_next]
theorem foldl_invalidateCell_trace (cs : List Nat) (s : St) : (cs.foldl invalidateCell s).trace = s.trace := by
  induction cs generalizing s with
  | nil => rfl
  | cons c t ih => simp [List.foldl, ih, invalidateCell_trace]

theorem invalidateTrackable_T (s : St) (t : Nat) : (invalidateTrackable s t).T = s.T := by
  unfold invalidateTrackable; simp [foldl_invalidateCell_T]
theorem invalidateTrackable_next (s : St) (t : Nat) : (invalidateTrackable s t).next = s.next := by
  unfold invalidateTrackable; simp [foldl_invalidateCell_next]
theorem invalidateTrackable_trace (s : St) (t : Nat) : (invalidateTrackable s t).trace = s.trace := by
  unfold invalidateTrackable; simp [foldl_invalidateCell_trace]

/-- a concrete non-trivial well-formed state: signal object 0 (trackable_signal, trackable base 2) and a
    copy 1 (trackable base 9) share list 3; slot variable 0 and cell 5 of list 6 (the list of signal
    object 2) hold forwarders to object 0 -/
def exStT : St :=
  { G := [(0, { obj := 1, fl := .TI, impl := some 3, trk := 2, lvl := 0, everFwd := true }),
          (1, { obj := 8, fl := .TI, impl := some 3, trk := 9, lvl := 0 }),
          (2, { obj := 10, fl := .I, impl := some 6, trk := 11, lvl := 2 })],
    S := [(0, { isVoid := false, slot := { rep := some { call := true, fn := some (.fwd 1 [2]) } }, taint := 0 })],
    impls := [(3, { cells := [{ id := 4, slot := { rep := some { call := true, fn := some (.leaf 7 []) } }, linked := true }] }),
              (6, { cells := [{ id := 5, slot := { rep := some { call := true, fn := some (.fwd 1 [2]) } }, linked := true },
                              { id := 12, slot := { rep := some { call := true, fn := some (.leaf 8 []) } }, linked := true }] })],
    C := [(0, some 5)], next := 13 }

/-! ### `gcImpl` keeps well-formedness and adds no cell -/

theorem allCells_filter_sublist (l : List (Nat × Impl)) (q : Nat × Impl → Bool) :
    (allCells (l.filter q)).Sublist (allCells l) := by
  induction l with
  | nil => exact List.Sublist.refl _
  | cons p t ih =>
    by_cases hq : q p = true
    · simp only [List.filter_cons, hq, if_true, allCells_cons]
      exact (List.Sublist.refl _).append ih
    · simp only [List.filter_cons, hq, allCells_cons]
      exact List.Sublist.trans ih (List.sublist_append_right _ _)

theorem UniqueCells_adel (impls : List (Nat × Impl)) (i : Nat) (hU : UniqueCells impls) : UniqueCells (adel impls i) := by
  obtain ⟨h1, h2⟩ := hU
  unfold adel
  exact ⟨List.Nodup.sublist ((List.filter_sublist).map _) h1,
         List.Nodup.sublist ((allCells_filter_sublist impls _).map _) h2⟩

theorem gcImpl_impls_cases (s : St) (i : Nat) : (gcImpl s i).impls = s.impls ∨ (gcImpl s i).impls = adel s.impls i := by
  unfold gcImpl
  split
  · exact Or.inl rfl
  · split
    · right; rw [nullConnsList_impls]
    · exact Or.inl rfl

theorem UniqueCells_gcImpl (s : St) (i : Nat) (hU : UniqueCells s.impls) : UniqueCells (gcImpl s i).impls := by
  rcases gcImpl_impls_cases s i with h | h <;> rw [h]
  · exact hU
  · exact UniqueCells_adel _ _ hU

theorem gcImpl_cells_subset (s : St) (i : Nat) (c : Cell) (hc : c ∈ allCells (gcImpl s i).impls) : c ∈ allCells s.impls := by
  rcases gcImpl_impls_cases s i with h | h <;> rw [h] at hc
  · exact hc
  · exact (allCells_filter_sublist s.impls _).subset hc

/-! ### freshness of trackable identities -/

/-- the trackable objects the functor of a slot refers to -/
def slotTracks (sl : SlotB) : List Nat :=
  match sl.rep with
  | some { fn := some f, .. } => f.tracks
  | _ => []

theorem tracksObj_eq (sl : SlotB) (t : Nat) : sl.tracksObj t = (slotTracks sl).contains t := by
  unfold SlotB.tracksObj slotTracks
  split <;> simp_all

/-- every trackable identity referred to by a slot variable or a cell was allocated before `next` -/
def TracksBelow (s : St) : Prop :=
  (∀ p ∈ s.S, ∀ t ∈ slotTracks p.2.slot, t < s.next) ∧ (∀ c ∈ allCells s.impls, ∀ t ∈ slotTracks c.slot, t < s.next)

instance (s : St) : Decidable (TracksBelow s) := by
  unfold TracksBelow; exact inferInstance

theorem TracksBelow_fresh (s : St) (h : TracksBelow s) (t : Nat) (ht : t ≥ s.next) :
    (∀ p ∈ s.S, p.2.slot.tracksObj t = false) ∧ (∀ c ∈ allCells s.impls, c.slot.tracksObj t = false) := by
  constructor
  · intro p hp
    rw [tracksObj_eq]
    cases hc : (slotTracks p.2.slot).contains t with
    | false => rfl
    | true =>
      have := h.1 p hp t (by simpa using hc)
      omega
  · intro c hc0
    rw [tracksObj_eq]
    cases hc : (slotTracks c.slot).contains t with
    | false => rfl
    | true =>
      have := h.2 c hc0 t (by simpa using hc)
      omega

theorem allCells_aset_empty_subset (l : List (Nat × Impl)) (k : Nat) (c : Cell) (hc : c ∈ allCells (aset l k {})) :
    c ∈ allCells l := by
  induction l with
  | nil => simp [aset, allCells] at hc
  | cons p t ih =>
    obtain ⟨k', x⟩ := p
    by_cases hk : k' = k
    · simp only [aset, hk, if_true, allCells_cons, List.mem_append] at hc ⊢
      rcases hc with h | h
      · simp at h
      · exact Or.inr h
    · simp only [aset, hk, if_false, allCells_cons, List.mem_append] at hc ⊢
      rcases hc with h | h
      · exact Or.inl h
      · exact Or.inr (ih h)

/-- the event trace with the `.res` texts dropped (events have no decidable equality) -/
def callsOf (tr : List Event) : List (Nat × Nat × Nat) :=
  tr.filterMap (fun e => match e with | .call d f a => some (d, f, a) | .res _ _ _ => none)

/-- nothing refers to trackable identity `t` any more: no slot variable, no cell of any list -/
def NoTracker (s : St) (t : Nat) : Prop :=
  (∀ k v, aget s.S k = some v → v.slot.tracksObj t = false) ∧ (∀ c ∈ allCells s.impls, c.slot.tracksObj t = false)

end Sigc.StepTrack
