import Sigc.Lemmas.RefineTdA
import Sigc.Lemmas.EmitTeardown
/-!
# Refine work package — the driver's `teardown` is simulated (part B: the whole teardown), what is left
after it, and the line-level trace relation used by the statement about `runProgram`.
-/
namespace Sigc.Refine
open Sigc.Model

namespace Td

/-- the `execOp` sequences of the teardown keep the model invariant and start no emission -/
theorem mseq_good (f : Nat) (P : Prog) (ops : List Op) (s s' : St) (hs : Emit.Inv s) (hc : Calm s)
    (h : Inv.tdSeq f P (some s) ops = some s') : Emit.Inv s' ∧ Calm s' := by
  have g := Emit.seq_good f P ops s s' hs h
  exact ⟨g.inv, hc.step g.frame⟩

/-- after `delC* ++ delS* ++ clear*` no functor is left: no slot variable, and no list has a cell -/
theorem nofn_phase2 (f : Nat) (P : Prog) (s1 s2 : St) (hs : Emit.Inv s1) (hc : Calm s1) (htd : Inv.TdInv s1)
    (h2 : Inv.tdSeq f P (some s1) ((sortedKeys s1.C).map Op.delC ++ (sortedKeys s1.S).map Op.delS
            ++ (sortedKeys s1.G).map Op.clear) = some s2) : NoFn s2 := by
  rw [Inv.tdSeq_append, Inv.tdSeq_append] at h2
  cases ha : Inv.tdSeq f P (some s1) ((sortedKeys s1.C).map Op.delC) with
  | none => rw [ha, Inv.tdSeq_none, Inv.tdSeq_none] at h2; cases h2
  | some s1a =>
  rw [ha] at h2
  obtain ⟨ia, ka⟩ := Inv.tdSeq_phase f P Op.delC (fun k a => { a with C := a.C.filter (fun x => x ≠ k) })
    (fun s k r _ hr => Inv.delC_keys hr) _ s1 s1a htd ha
  rw [Inv.foldl_C] at ka
  obtain ⟨ea, ca⟩ := mseq_good f P _ s1 s1a hs hc ha
  cases hb : Inv.tdSeq f P (some s1a) ((sortedKeys s1.S).map Op.delS) with
  | none => rw [hb, Inv.tdSeq_none] at h2; cases h2
  | some s1b =>
  rw [hb] at h2
  obtain ⟨ib, kb⟩ := Inv.tdSeq_phase f P Op.delS (fun k a => { a with S := a.S.filter (fun x => x ≠ k) })
    (fun s k r hi hr => Inv.delS_keys hi.2.2 hr) _ s1a s1b ia hb
  rw [Inv.foldl_S] at kb
  obtain ⟨eb, cb⟩ := mseq_good f P _ s1a s1b ea ca hb
  obtain ⟨i2, k2⟩ := Inv.tdSeq_phase f P Op.clear (fun _ a => a)
    (fun s k r _ hr => Inv.clear_keys hr) _ s1b s2 ib h2
  rw [Inv.foldl_id] at k2
  obtain ⟨c1, _, c3⟩ := clear_phase f P _ s1b s2 eb cb h2
  have eS : (Inv.keysOf s1b).S = [] := by
    rw [kb]
    refine Inv.foldl_filter_nil (fun x hx => (Inv.mem_sortedKeys _ _).2 ?_)
    rw [ka] at hx; exact hx
  have eG : (Inv.keysOf s1b).G = (Inv.keysOf s1).G := by rw [kb, ka]
  have hS : (Inv.keysOf s2).S = [] := by rw [k2]; exact eS
  refine ⟨List.map_eq_nil_iff.1 hS, ?_⟩
  intro i im hi
  rcases (i2.2.1.2.1 i im hi).2 with e | e | ⟨g, hd, hg, hgi⟩
  · cases e
  · exact absurd e (Nat.lt_irrefl 0)
  · rw [c1] at hg
    have hmem : g ∈ (Inv.keysOf s1).G := by rw [← eG]; exact Emit.mem_keys_of_aget hg
    exact c3 g ((Inv.mem_sortedKeys _ _).2 hmem) hd i hg hgi im hi

/-- **the teardown is simulated** (the bundle) -/
theorem teardown_bun (f : Nat) (P : Prog) {e : Option String} {s : St} {t : Spec.LSt} {s' : St} (hb : Bun e s t)
    (h : Model.teardown f P s = some s') : ∃ t', Spec.teardown f P t = some t' ∧ Bun e s' t' := by
  rw [Inv.teardown_eq] at h
  rw [spec_teardown_eq]
  split at h
  · cases h
  rename_i s1 h1
  obtain ⟨t1, ht1, hb1⟩ := seq_step f P _ s t s1 hb h1
  rw [sortedKeys_AR hb.rel.K, ht1]
  simp only
  split at h
  · cases h
  rename_i s2 h2
  obtain ⟨t2, ht2, hb2⟩ := seq_step f P _ s1 t1 s2 hb1 h2
  rw [sortedKeys_AR hb1.rel.C, hb1.rel.S, hb1.rel.G, ht2]
  simp only
  have hn2 : NoFn s2 := nofn_phase2 f P s1 s2 hb1.inv hb1.calm hb1.td h2
  obtain ⟨hb3, _⟩ := force_sim (sortedKeys s2.G) s2 t2 hb2 hn2
  simp only [] at h
  obtain ⟨t', ht', hb'⟩ := seq_step f P _ _ _ s' hb3 h
  rw [hb2.rel.G, hb3.rel.T]
  exact ⟨t', ht', hb'⟩

/-! ## the teardown never runs out of fuel (its operations run no user code) -/

theorem tdQuiet_some (f : Nat) (P : Prog) (s : St) (k : Nat) (op : Op)
    (hop : op = .delK k ∨ op = .delC k ∨ op = .delS k ∨ op = .clear k ∨ op = .delT k) :
    ∃ s1, Inv.tdQuiet (f+1) P s op = some s1 := by
  have h : ∃ r, execOp (f+1) P s op = some r := by
    rcases hop with rfl | rfl | rfl | rfl | rfl
    all_goals (
      rw [execOp]
      · simp only [modeRule]
        split <;> exact ⟨_, rfl⟩
      all_goals simp)
  obtain ⟨r, hr⟩ := h
  unfold Inv.tdQuiet
  rw [hr]
  exact ⟨_, rfl⟩

theorem tdSeq_some (f : Nat) (P : Prog) : ∀ (ops : List Op) (s : St),
    (∀ op ∈ ops, ∃ k, op = .delK k ∨ op = .delC k ∨ op = .delS k ∨ op = .clear k ∨ op = .delT k) →
    ∃ s', Inv.tdSeq (f+1) P (some s) ops = some s' := by
  intro ops
  induction ops with
  | nil => intro s _; exact ⟨s, rfl⟩
  | cons op ops ih =>
    intro s h
    obtain ⟨k, hk⟩ := h op (by simp)
    obtain ⟨s1, h1⟩ := tdQuiet_some f P s k op hk
    rw [Inv.tdSeq_cons, h1]
    exact ih s1 (fun o ho => h o (List.mem_cons_of_mem _ ho))

/-- with at least one unit of fuel the model's teardown terminates -/
theorem teardown_terminates (f : Nat) (P : Prog) (s : St) : ∃ s', Model.teardown (f+1) P s = some s' := by
  rw [Inv.teardown_eq]
  obtain ⟨s1, h1⟩ := tdSeq_some f P ((sortedKeys s.K).map Op.delK) s (by
    intro op hop; obtain ⟨k, _, rfl⟩ := List.mem_map.mp hop; exact ⟨k, Or.inl rfl⟩)
  rw [h1]
  simp only
  obtain ⟨s2, h2⟩ := tdSeq_some f P ((sortedKeys s1.C).map Op.delC ++ (sortedKeys s1.S).map Op.delS
      ++ (sortedKeys s1.G).map Op.clear) s1 (by
    intro op hop
    simp only [List.mem_append, List.mem_map] at hop
    rcases hop with (⟨k, _, rfl⟩ | ⟨k, _, rfl⟩) | ⟨k, _, rfl⟩
    · exact ⟨k, Or.inr (Or.inl rfl)⟩
    · exact ⟨k, Or.inr (Or.inr (Or.inl rfl))⟩
    · exact ⟨k, Or.inr (Or.inr (Or.inr (Or.inl rfl)))⟩)
  rw [h2]
  simp only
  exact tdSeq_some f P _ _ (by
    intro op hop; obtain ⟨k, _, rfl⟩ := List.mem_map.mp hop; exact ⟨k, Or.inr (Or.inr (Or.inr (Or.inr rfl)))⟩)

end Td

/-! ## what is left after the teardown -/

/-- related states without slot variables and lists: the specification holds no functor copy -/
theorem spec_liveTotal_zero {s : St} {t : Spec.LSt} (hR : R s t) (hS : s.S = []) (hI : s.impls = []) :
    Spec.liveTotal t = 0 := by
  have h1 : t.S = [] := by rw [hR.S, hS]
  have h2 : t.sigs = [] := by
    have := F2.length hR.sigs
    rw [hI] at this
    exact List.length_eq_zero_iff.1 this.symm
  simp [Spec.liveTotal, h1, h2]

/-! ## lines -/

/-- the final line never reads like the fuel notice -/
theorem final_ne_fuel (n : Nat) : (s!"0 final live={n}" : String) ≠ "MODEL-FUEL" := by
  intro h
  have := congrArg String.toList h
  simp [toString] at this


/-- specification line vs model line: equal, or the specification leaves the result open (`… => *`) -/
def LineAllows (ls lm : String) : Prop :=
  ls = lm ∨ ∃ d text r, ls = renderEvent (.res d text "*") ∧ lm = renderEvent (.res d text r)

/-- the specification's output allows the model's output, line by line -/
def AllowsLines (outS outM : List String) : Prop := F2 LineAllows outS outM

theorem F2.reverse {α β : Type} {r : α → β → Prop} {l : List α} {m : List β} (h : F2 r l m) :
    F2 r l.reverse m.reverse := by
  induction h with
  | nil => exact .nil
  | cons hab _ ih =>
    simp only [List.reverse_cons]
    exact ih.append (.cons hab .nil)

theorem lineAllows_of_ev {a b : Event} (h : EvAllows a b) : LineAllows (renderEvent a) (renderEvent b) := by
  cases h with
  | same e => exact Or.inl rfl
  | star d text r => exact Or.inr ⟨d, text, r, rfl, rfl⟩

/-- related traces render to related outputs (the traces are stored newest first) -/
theorem lines_of_allows {ts tm : List Event} (h : Allows ts tm) :
    AllowsLines (ts.reverse.map renderEvent) (tm.reverse.map renderEvent) :=
  F2.map (F2.reverse h) _ _ (fun _ _ _ _ hab => lineAllows_of_ev hab)

theorem AllowsLines.snoc_same {a b : List String} (h : AllowsLines a b) (l : String) :
    AllowsLines (a ++ [l]) (b ++ [l]) :=
  F2.append h (.cons (Or.inl rfl) .nil)

end Sigc.Refine
