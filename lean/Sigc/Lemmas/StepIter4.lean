import Sigc.Model
import Sigc.Run
import Sigc.Lemmas.Basic
import Sigc.Lemmas.StepIter
import Sigc.Lemmas.StepIter2
import Sigc.Lemmas.StepIter3
/-!
# StepIter4 — what the non-accumulating loop returns (`EmitRun`), and its reading in the call log
-/
namespace Sigc.StepIter
open Sigc.Model

/-! ## the newest call logged at depth `d` -/

/-- the newest `.call d fid arg` event (the trace is newest-first) -/
def lastCallAt (d : Nat) : List Event → Option (Nat × Nat)
  | [] => none
  | .call d' fid a :: t => if d' = d then some (fid, a) else lastCallAt d t
  | .res _ _ _ :: t => lastCallAt d t

theorem lastCallAt_append (d : Nat) (a b : List Event) :
    lastCallAt d (a ++ b) = (lastCallAt d a).or (lastCallAt d b) := by
  induction a with
  | nil => simp [lastCallAt]
  | cons e t ih =>
    cases e with
    | call d' fid x =>
      simp only [List.cons_append, lastCallAt]
      split
      · simp
      · exact ih
    | res _ _ _ => simpa [lastCallAt] using ih

theorem lastCallAt_deeper (d : Nat) (l : List Event) (h : ∀ e ∈ l, d < evDepth e) : lastCallAt d l = none := by
  induction l with
  | nil => rfl
  | cons e t ih =>
    have ht : ∀ e ∈ t, d < evDepth e := fun e he => h e (List.mem_cons_of_mem _ he)
    cases e with
    | call d' fid x =>
      have : d < d' := h _ (List.mem_cons_self ..)
      have hne : d' ≠ d := by omega
      simp [lastCallAt, hne, ih ht]
    | res _ _ _ => simp [lastCallAt, ih ht]

/-! ## a leaf functor in the log -/

/-- invoking a user functor (`leaf` or `owner`): the value is `resultOf fid arg` whatever its body does;
    its call is logged at the current depth; everything its body logs is deeper; the depth is restored -/
theorem invoke_user_trace (f : Nat) (P : Prog) (s : St) (fn : Fun) (fid arg : Nat) (s' : St) (o : Outcome) (v : Nat)
    (hu : userFid fn = some fid) (h : invokeFun f P s fn arg = some (s', o, v)) :
    v = resultOf fid arg ∧ s'.depth = s.depth ∧
    ∃ new, s'.trace = new ++ (Event.call s.depth fid arg :: s.trace) ∧ ∀ e ∈ new, s.depth < evDepth e := by
  cases f with
  | zero => simp [invokeFun] at h
  | succ f =>
    rw [invokeFun_user f P s fn fid arg hu] at h
    split at h
    · simp at h; obtain ⟨rfl, _, rfl⟩ := h
      exact ⟨rfl, rfl, [], rfl, by simp⟩
    · split at h
      · simp at h
      · rename_i s2 o2 hr
        simp at h; obtain ⟨rfl, _, rfl⟩ := h
        obtain ⟨hd, new, ht, ha⟩ := (allExt f).body _ _ _ _ _ hr
        simp only [St.log] at hd ht ha
        refine ⟨rfl, by simp [hd], new, by simp [ht], ?_⟩
        intro e he
        have := ha e he
        omega

theorem invoke_leaf_trace (f : Nat) (P : Prog) (s : St) (fid : Nat) (ts : List Nat) (arg : Nat) (s' : St) (o : Outcome) (v : Nat)
    (h : invokeFun f P s (.leaf fid ts) arg = some (s', o, v)) :
    v = resultOf fid arg ∧ s'.depth = s.depth ∧
    ∃ new, s'.trace = new ++ (Event.call s.depth fid arg :: s.trace) ∧ ∀ e ∈ new, s.depth < evDepth e :=
  invoke_user_trace f P s _ fid arg s' o v rfl h

/-! ## the run of the non-accumulating loop -/

/-- the cell an iterator at `cur` points at -/
def cellAt (s : St) (i cur : Nat) : Option Cell :=
  match aget s.impls i with
  | none => none
  | some im => im.cells.find? (·.id = cur)

/-- `++it` in the current list -/
def nextOf (s : St) (i cur : Nat) : Option Nat :=
  match aget s.impls i with
  | none => none
  | some im => succId im.cells cur

/-- `EmitRun P i m arg s cur r calls s' o v`: the loop of the non-accumulating emitters, started at
    cell `cur` in state `s` with `r` = the result so far, ends in state `s'` with outcome `o` and value
    `v`, having invoked exactly the functors `calls` (in this order, each with the value it returned):
    at each turn the cell is invoked iff it is callable *at that moment* (`callableAt`), the successor
    is looked up in the list as it is *after* the call; an exception stops the loop. -/
inductive EmitRun (P : Prog) (i m arg : Nat) : St → Nat → Nat → List (Fun × Nat) → St → Outcome → Nat → Prop
  /-- reached the end marker -/
  | done (s : St) (r : Nat) : EmitRun P i m arg s m r [] s .ok r
  /-- model error: list or cell gone (never happens in a well-formed state, see C03) -/
  | lost (s : St) (cur r : Nat) (msg : String) : cur ≠ m → cellAt s i cur = none →
      EmitRun P i m arg s cur r [] (s.fail msg) .ok r
  /-- not callable at its turn (blocked, invalid, …): not invoked, result unchanged -/
  | skip (s : St) (cur r nxt : Nat) (c : Cell) (calls : List (Fun × Nat)) (s' : St) (o : Outcome) (v : Nat) :
      cur ≠ m → cellAt s i cur = some c → callableAt s i cur = none → nextOf s i cur = some nxt →
      EmitRun P i m arg s nxt r calls s' o v → EmitRun P i m arg s cur r calls s' o v
  | skipLost (s : St) (cur r : Nat) (c : Cell) (msg : String) :
      cur ≠ m → cellAt s i cur = some c → callableAt s i cur = none → nextOf s i cur = none →
      EmitRun P i m arg s cur r [] (s.fail msg) .ok r
  /-- callable: invoked; its value replaces the result -/
  | call (f : Nat) (s : St) (cur r nxt : Nat) (fn : Fun) (s1 : St) (v1 : Nat)
      (calls : List (Fun × Nat)) (s' : St) (o : Outcome) (v : Nat) :
      cur ≠ m → callableAt s i cur = some fn → invokeFun f P s fn arg = some (s1, .ok, v1) →
      nextOf s1 i cur = some nxt →
      EmitRun P i m arg s1 nxt v1 calls s' o v → EmitRun P i m arg s cur r ((fn, v1) :: calls) s' o v
  | callLost (f : Nat) (s : St) (cur r : Nat) (fn : Fun) (s1 : St) (v1 : Nat) (msg : String) :
      cur ≠ m → callableAt s i cur = some fn → invokeFun f P s fn arg = some (s1, .ok, v1) →
      nextOf s1 i cur = none →
      EmitRun P i m arg s cur r [(fn, v1)] (s1.fail msg) .ok v1
  /-- the invoked functor threw: the loop is left at once -/
  | exc (f : Nat) (s : St) (cur r : Nat) (fn : Fun) (s1 : St) (v1 : Nat) :
      cur ≠ m → callableAt s i cur = some fn → invokeFun f P s fn arg = some (s1, .exc, v1) →
      EmitRun P i m arg s cur r [(fn, v1)] s1 .exc v1

/-- every terminating run of `emitLoop` is an `EmitRun` -/
theorem emitLoop_run (f : Nat) : ∀ (P : Prog) (s : St) (i cur m arg r : Nat) (s' : St) (o : Outcome) (v : Nat),
    emitLoop f P s i cur m arg r = some (s', o, v) → ∃ calls, EmitRun P i m arg s cur r calls s' o v := by
  induction f with
  | zero => intro P s i cur m arg r s' o v h; simp [emitLoop] at h
  | succ f ih =>
    intro P s i cur m arg r s' o v h
    rw [emitLoop_unfold] at h
    split at h
    · rename_i hcm
      simp at h; obtain ⟨rfl, rfl, rfl⟩ := h
      subst hcm
      exact ⟨[], EmitRun.done _ _⟩
    · rename_i hcm
      split at h
      · rename_i hi
        simp at h; obtain ⟨rfl, rfl, rfl⟩ := h
        exact ⟨[], EmitRun.lost _ _ _ _ hcm (by simp [cellAt, hi])⟩
      · rename_i im hi
        split at h
        · rename_i hc
          simp at h; obtain ⟨rfl, rfl, rfl⟩ := h
          exact ⟨[], EmitRun.lost _ _ _ _ hcm (by simp [cellAt, hi, hc])⟩
        · rename_i c hc
          have hcell : cellAt s i cur = some c := by simp [cellAt, hi, hc]
          unfold emitStep at h
          cases hca : callableAt s i cur with
          | none =>
            simp only [hca, hi] at h
            split at h
            · rename_i hn
              simp at h; obtain ⟨rfl, rfl, rfl⟩ := h
              exact ⟨[], EmitRun.skipLost _ _ _ c _ hcm hcell hca (by simp [nextOf, hi, hn])⟩
            · rename_i nxt hn
              obtain ⟨calls, hr⟩ := ih _ _ _ _ _ _ _ _ _ _ h
              exact ⟨calls, EmitRun.skip _ _ _ nxt c _ _ _ _ hcm hcell hca (by simp [nextOf, hi, hn]) hr⟩
          | some fn =>
            simp only [hca] at h
            split at h
            · simp at h
            · rename_i s1 v1 hx
              simp at h; obtain ⟨rfl, rfl, rfl⟩ := h
              exact ⟨[(fn, _)], EmitRun.exc f _ _ _ fn _ _ hcm hca hx⟩
            · rename_i s1 v1 hx
              split at h
              · rename_i hi1
                simp at h; obtain ⟨rfl, rfl, rfl⟩ := h
                exact ⟨[(fn, _)], EmitRun.callLost f _ _ _ fn _ _ _ hcm hca hx (by simp [nextOf, hi1])⟩
              · rename_i im1 hi1
                split at h
                · rename_i hn
                  simp at h; obtain ⟨rfl, rfl, rfl⟩ := h
                  exact ⟨[(fn, _)], EmitRun.callLost f _ _ _ fn _ _ _ hcm hca hx (by simp [nextOf, hi1, hn])⟩
                · rename_i nxt hn
                  obtain ⟨calls, hr⟩ := ih _ _ _ _ _ _ _ _ _ _ h
                  exact ⟨(fn, v1) :: calls,
                    EmitRun.call f _ _ _ nxt fn _ _ _ _ _ _ hcm hca hx (by simp [nextOf, hi1, hn]) hr⟩

/-- **the value**: what the loop returns is the value returned by the last functor it invoked, or the
    initial result if it invoked none -/
theorem EmitRun.value {P : Prog} {i m arg : Nat} {s : St} {cur r : Nat} {calls : List (Fun × Nat)}
    {s' : St} {o : Outcome} {v : Nat} (h : EmitRun P i m arg s cur r calls s' o v) :
    v = ((calls.map (·.2)).getLast?).getD r := by
  induction h with
  | done => rfl
  | lost => rfl
  | skip _ _ _ _ _ _ _ _ _ _ _ _ _ _ ih => exact ih
  | skipLost => rfl
  | call _ _ _ _ _ _ _ _ _ _ _ _ _ _ _ _ _ ih =>
    rw [ih]; simp [List.getLast?_cons]
  | callLost => rfl
  | exc => rfl

/-- an exception is always the last invoked functor's -/
theorem EmitRun.exc_nonempty {P : Prog} {i m arg : Nat} {s : St} {cur r : Nat} {calls : List (Fun × Nat)}
    {s' : St} {v : Nat} (h : EmitRun P i m arg s cur r calls s' .exc v) : calls ≠ [] := by
  generalize ho : Outcome.exc = o at h
  induction h with
  | done => cases ho
  | lost => cases ho
  | skip _ _ _ _ _ _ _ _ _ _ _ _ _ _ ih => exact ih ho
  | skipLost => cases ho
  | call => simp
  | callLost => simp
  | exc => simp

/-- the log and the depth along a run -/
theorem EmitRun.ext {P : Prog} {i m arg : Nat} {s : St} {cur r : Nat} {calls : List (Fun × Nat)}
    {s' : St} {o : Outcome} {v : Nat} (h : EmitRun P i m arg s cur r calls s' o v) : Ext s s' := by
  induction h with
  | done => exact Ext.refl _
  | lost => exact Ext.fail _ _
  | skip _ _ _ _ _ _ _ _ _ _ _ _ _ _ ih => exact ih
  | skipLost => exact Ext.fail _ _
  | call f _ _ _ _ _ _ _ _ _ _ _ _ _ hx _ _ ih => exact ((allExt f).invoke _ _ _ _ _ _ _ hx).trans ih
  | callLost f _ _ _ _ _ _ _ _ _ hx _ => exact ((allExt f).invoke _ _ _ _ _ _ _ hx).trans (Ext.fail _ _)
  | exc f _ _ _ _ _ _ _ _ hx => exact (allExt f).invoke _ _ _ _ _ _ _ hx

/-- the functor runs a user body directly (`leaf`, `owner`) — as opposed to a slot held inside an
    adaptor (`nest`) or `make_slot()` of another signal (`fwd`) -/
def isUser (fn : Fun) : Bool := (userFid fn).isSome

/-- **the value in the call log**: if every functor the loop invoked was a user functor, the value is
    `resultOf` of the newest call logged at the loop's own depth during the loop, or the initial result
    if no call was logged at that depth -/
theorem EmitRun.trace_leaf {P : Prog} {i m arg : Nat} {s : St} {cur r : Nat} {calls : List (Fun × Nat)}
    {s' : St} {o : Outcome} {v : Nat} (h : EmitRun P i m arg s cur r calls s' o v)
    (hleaf : ∀ p ∈ calls, isUser p.1 = true) :
    s'.depth = s.depth ∧
    ∃ new, s'.trace = new ++ s.trace ∧ (∀ e ∈ new, s.depth ≤ evDepth e) ∧
      v = (match lastCallAt s.depth new with
           | some (fid, a) => resultOf fid a
           | none => r) := by
  induction h with
  | done => exact ⟨rfl, [], rfl, by simp, rfl⟩
  | lost => exact ⟨by simp, [], by simp, by simp, rfl⟩
  | skip _ _ _ _ _ _ _ _ _ _ _ _ _ _ ih => exact ih hleaf
  | skipLost => exact ⟨by simp, [], by simp, by simp, rfl⟩
  | call f s cur r nxt fn s1 v1 calls s' o v _ _ hx _ _ ih =>
    have hl : isUser fn = true := hleaf (fn, v1) (List.mem_cons_self ..)
    obtain ⟨fid, hu⟩ := Option.isSome_iff_exists.1 hl
    obtain ⟨hv1, hd1, n1, ht1, ha1⟩ := invoke_user_trace f P s fn fid arg s1 .ok v1 hu hx
    obtain ⟨hd2, n2, ht2, ha2, hv⟩ := ih (fun p hp => hleaf p (List.mem_cons_of_mem _ hp))
    refine ⟨hd2.trans hd1, n2 ++ n1 ++ [Event.call s.depth fid arg], by simp [ht2, ht1], ?_, ?_⟩
    · intro e he
      simp only [List.mem_append, List.mem_singleton] at he
      rcases he with (he | he) | he
      · have := ha2 e he; omega
      · have := ha1 e he; omega
      · subst he; exact Nat.le_refl _
    · rw [hd1] at hv
      rw [List.append_assoc, lastCallAt_append, lastCallAt_append, lastCallAt_deeper _ n1 ha1]
      cases hl2 : lastCallAt s.depth n2 with
      | some x => simp [hl2] at hv ⊢; exact hv
      | none => simp [hl2, lastCallAt] at hv ⊢; rw [hv, hv1]
  | callLost f s cur r fn s1 v1 msg _ _ hx _ =>
    have hl : isUser fn = true := hleaf (fn, v1) (List.mem_cons_self ..)
    obtain ⟨fid, hu⟩ := Option.isSome_iff_exists.1 hl
    obtain ⟨hv1, hd1, n1, ht1, ha1⟩ := invoke_user_trace f P s fn fid arg s1 .ok v1 hu hx
    refine ⟨by simp [hd1], n1 ++ [Event.call s.depth fid arg], by simp [ht1], ?_, ?_⟩
    · intro e he
      simp only [List.mem_append, List.mem_singleton] at he
      rcases he with he | he
      · have := ha1 e he; omega
      · subst he; exact Nat.le_refl _
    · rw [lastCallAt_append, lastCallAt_deeper _ n1 ha1]
      simp [lastCallAt, hv1]
  | exc f s cur r fn s1 v1 _ _ hx =>
    have hl : isUser fn = true := hleaf (fn, v1) (List.mem_cons_self ..)
    obtain ⟨fid, hu⟩ := Option.isSome_iff_exists.1 hl
    obtain ⟨hv1, hd1, n1, ht1, ha1⟩ := invoke_user_trace f P s fn fid arg s1 .exc v1 hu hx
    refine ⟨hd1, n1 ++ [Event.call s.depth fid arg], by simp [ht1], ?_, ?_⟩
    · intro e he
      simp only [List.mem_append, List.mem_singleton] at he
      rcases he with he | he
      · have := ha1 e he; omega
      · subst he; exact Nat.le_refl _
    · rw [lastCallAt_append, lastCallAt_deeper _ n1 ha1]
      simp [lastCallAt, hv1]

/-! ## never dereferenced ⇒ never invoked -/

/-- strategy `never` invokes nothing and cannot throw: the state is unchanged up to the error flag -/
theorem accLoop_never (f : Nat) : ∀ (P : Prog) (s : St) (i : Nat) (it : IterBuf) (m arg k r : Nat) (s' : St) (o : Outcome) (v : Nat),
    accLoop f P s i it m arg 3 k r = some (s', o, v) → o = .ok ∧ (s' = s ∨ ∃ msg, s' = s.fail msg) := by
  induction f with
  | zero => intro P s i it m arg k r s' o v h; simp [accLoop] at h
  | succ f ih =>
    intro P s i it m arg k r s' o v h
    rw [accLoop_unfold] at h
    split at h
    · simp at h; obtain ⟨rfl, rfl, _⟩ := h; exact ⟨rfl, Or.inl rfl⟩
    · simp only [if_true] at h
      unfold accAdvance at h
      split at h
      · simp at h; obtain ⟨rfl, rfl, _⟩ := h; exact ⟨rfl, Or.inr ⟨_, rfl⟩⟩
      · split at h
        · simp at h; obtain ⟨rfl, rfl, _⟩ := h; exact ⟨rfl, Or.inr ⟨_, rfl⟩⟩
        · exact ih _ _ _ _ _ _ _ _ _ _ _ h

/-- a scripted walk that never dereferences (`d`, `c` absent) invokes nothing -/
theorem walkLoop_no_deref (f : Nat) : ∀ (P : Prog) (s : St) (i : Nat) (it : IterBuf) (first m arg : Nat) (ops : List Char) (r : Nat)
    (s' : St) (o : Outcome) (v : Nat), 'd' ∉ ops → 'c' ∉ ops →
    walkLoop f P s i it first m arg ops r = some (s', o, v) → o = .ok ∧ v = r ∧ (s' = s ∨ ∃ msg, s' = s.fail msg) := by
  induction f with
  | zero => intro P s i it first m arg ops r s' o v _ _ h; simp [walkLoop] at h
  | succ f ih =>
    intro P s i it first m arg ops r s' o v hd hc h
    cases ops with
    | nil => rw [walkLoop_nil] at h; simp at h; obtain ⟨rfl, rfl, rfl⟩ := h; exact ⟨rfl, rfl, Or.inl rfl⟩
    | cons c cs =>
      have hd' : 'd' ∉ cs := fun hh => hd (List.mem_cons_of_mem _ hh)
      have hc' : 'c' ∉ cs := fun hh => hc (List.mem_cons_of_mem _ hh)
      have hcd : c ≠ 'd' := fun e => hd (by simp [e])
      have hcc : c ≠ 'c' := fun e => hc (by simp [e])
      rw [walkLoop] at h
      simp only [hcd, hcc, if_false] at h
      split at h
      · split at h
        · exact ih _ _ _ _ _ _ _ _ _ _ _ _ hd' hc' h
        · split at h
          · simp at h; obtain ⟨rfl, rfl, rfl⟩ := h; exact ⟨rfl, rfl, Or.inr ⟨_, rfl⟩⟩
          · split at h
            · simp at h; obtain ⟨rfl, rfl, rfl⟩ := h; exact ⟨rfl, rfl, Or.inr ⟨_, rfl⟩⟩
            · exact ih _ _ _ _ _ _ _ _ _ _ _ _ hd' hc' h
      · split at h
        · split at h
          · exact ih _ _ _ _ _ _ _ _ _ _ _ _ hd' hc' h
          · split at h
            · simp at h; obtain ⟨rfl, rfl, rfl⟩ := h; exact ⟨rfl, rfl, Or.inr ⟨_, rfl⟩⟩
            · split at h
              · simp at h; obtain ⟨rfl, rfl, rfl⟩ := h; exact ⟨rfl, rfl, Or.inr ⟨_, rfl⟩⟩
              · exact ih _ _ _ _ _ _ _ _ _ _ _ _ hd' hc' h
        · exact ih _ _ _ _ _ _ _ _ _ _ _ _ hd' hc' h

/-! ## `emitImpl` without accumulator -/

/-- a non-accumulated emission is: nothing at all for an empty list; otherwise prologue, one `EmitRun`
    from the first cell to the fresh marker starting from the default value 0, epilogue -/
theorem emitImpl_plain_run (f : Nat) (P : Prog) (s : St) (fl : Flavour) (i arg : Nat) (strat : Strat) (im : Impl)
    (s' : St) (o : Outcome) (v : Nat) (hacc : fl.isAcc = false) (hi : aget s.impls i = some im)
    (h : emitImpl (f+1) P s fl (some i) arg strat = some (s', o, v)) :
    ∃ calls,
      ((im.cells = [] ∧ calls = [] ∧ s' = s ∧ o = .ok) ∨
       (im.cells ≠ [] ∧ ∃ s2, EmitRun P i s.next arg (emitPrologue s i im) (emitFirst s im) 0 calls s2 o v ∧
          s' = (emitEpilogue s2 i s.next o v).1)) ∧
      v = ((calls.map (·.2)).getLast?).getD 0 ∧
      ((∀ p ∈ calls, isUser p.1 = true) →
        s'.depth = s.depth ∧
        ∃ new, s'.trace = new ++ s.trace ∧ (∀ e ∈ new, s.depth ≤ evDepth e) ∧
          v = (match lastCallAt s.depth new with
               | some (fid, a) => resultOf fid a
               | none => 0)) := by
  by_cases hne : im.cells = []
  · rw [emitImpl_plain_empty f P s fl i arg strat im hacc hi hne] at h
    simp at h; obtain ⟨rfl, rfl, rfl⟩ := h
    exact ⟨[], Or.inl ⟨hne, rfl, rfl, rfl⟩, rfl, fun _ => ⟨rfl, [], rfl, by simp, rfl⟩⟩
  · rw [emitImpl_plain_unfold f P s fl i arg strat im hacc hi hne] at h
    split at h
    · simp at h
    · rename_i s2 o2 v2 hr
      simp at h
      have hp := emitEpilogue_passes s2 i s.next o2 v2
      rw [h] at hp
      simp at hp
      obtain ⟨rfl, rfl⟩ := hp
      obtain ⟨calls, hrun⟩ := emitLoop_run f _ _ _ _ _ _ _ _ _ _ hr
      refine ⟨calls, Or.inr ⟨hne, s2, hrun, by rw [h]⟩, hrun.value, ?_⟩
      intro hleaf
      obtain ⟨hd, new, ht, ha, hv⟩ := hrun.trace_leaf hleaf
      have ep := emitEpilogue_td s2 i s.next o v
      rw [h] at ep
      simp only at ep
      exact ⟨ep.2.trans hd, new, ep.1.trans ht, ha, hv⟩

/-- what the driver prints for an `emit` line (no try/catch) that completes normally: the line's result
    event is logged last, at the line's depth, and shows the value the emission returned -/
theorem execLine_emit_ok (f : Nat) (P : Prog) (s : St) (text : String) (g arg : Nat) (strat : Strat)
    (h0 : Handle) (s' : St) (hg : aget s.G g = some h0)
    (hd : ¬ s.depth ≥ P.maxdepth) (hs : ¬ s.steps + 1 > P.maxsteps)
    (h : execLine (f+3) P s { text := text, op := .emit g arg strat false } = some (s', .ok)) :
    ∃ s1 v, emitImpl (f+1) P { s with steps := s.steps + 1 } h0.fl h0.impl arg strat = some (s1, .ok, v) ∧
      s' = collect (s1.log (.res s.depth text (showRes h0.fl.isVoid v))) := by
  rw [execLine] at h
  simp only at h
  rw [execOp] at h
  simp only [hg, hd, hs, if_false] at h
  cases he : emitImpl (f+1) P { s with steps := s.steps + 1 } h0.fl h0.impl arg strat with
  | none => simp [he] at h
  | some res =>
    obtain ⟨s1, o1, v1⟩ := res
    have e1 := (allExt _).emit _ _ _ _ _ _ _ _ _ he
    cases o1 with
    | exc => simp [he] at h
    | ok =>
      simp [he] at h
      refine ⟨s1, v1, rfl, ?_⟩
      rw [← h, e1.1]

/-- what the driver runs: a whole top-level program only extends the log and ends at the depth it started -/
theorem runTop_ext (f : Nat) (P : Prog) (s : St) (ls : List Line) (s' : St) (h : runTop f P s ls = some s') : Ext s s' := by
  induction ls generalizing s with
  | nil => simp [runTop] at h; subst h; exact Ext.refl _
  | cons l ls ih =>
    rw [runTop] at h
    split at h
    · simp at h
    · rename_i s1 o hl
      exact ((allExt f).line _ _ _ _ _ hl).trans (ih _ h)

/-- the list an emission walks (cells at emission start ++ fresh marker) has no duplicate ids if the
    list had none and the allocator is ahead of all its ids -/
theorem prologue_nodup (s : St) (i : Nat) (im : Impl) (hnd : (im.cells.map (·.id)).Nodup)
    (hfresh : ∀ c ∈ im.cells, c.id < s.next) :
    ∃ im', aget (emitPrologue s i im).impls i = some im' ∧ (im'.cells.map (·.id)).Nodup := by
  refine ⟨{ im with exec := im.exec + 1, holders := im.holders + 1,
                     cells := im.cells ++ [{ id := s.next, slot := {}, linked := false }] },
          aget_aset_same _ _ _, ?_⟩
  simp only [List.map_append, List.map_cons, List.map_nil]
  rw [List.nodup_append]
  refine ⟨hnd, by simp, ?_⟩
  intro a ha b hb
  simp at hb; subst hb
  obtain ⟨c, hc, rfl⟩ := List.mem_map.1 ha
  have := hfresh c hc
  omega

/-! ## a concrete run (for the `example`s): `exSt` after the prologue; cell 3 is blocked, cell 5 invalid -/

def exSt1 : St := emitPrologue exSt 1 exImpl

theorem exRun : EmitRun exProg 1 6 5 exSt1 2 0 [(.leaf 7 [], 75), (.leaf 9 [], 95)]
    ((exSt1.log (.call 0 7 5)).log (.call 0 9 5)) .ok 95 :=
  EmitRun.call 1 _ 2 0 3 (.leaf 7 []) _ 75 _ _ _ _ (by decide) rfl (invokeFun_leaf_nobody 0 exProg exSt1 7 5 [] rfl) rfl
    (EmitRun.skip _ 3 75 4 (exCell 3 8 true) _ _ _ _ (by decide) rfl rfl rfl
      (EmitRun.call 1 _ 4 75 5 (.leaf 9 []) _ 95 _ _ _ _ (by decide) rfl
        (invokeFun_leaf_nobody 0 exProg (exSt1.log (.call 0 7 5)) 9 5 [] rfl) rfl
        (EmitRun.skip _ 5 95 6 { id := 5, slot := { blocked := false, rep := some { call := false, fn := none } }, linked := false }
          _ _ _ _ (by decide) rfl rfl rfl (EmitRun.done _ _))))

/-- a program whose functor 7, when invoked, blocks the slot of cell 4 through connection 0 -/
def exProgB : Prog := { bodies := [(7, [{ text := "blockC 0 1", op := .blockC 0 true }])], top := [] }
def exStB : St := { exSt with C := [(0, some 4)] }

end Sigc.StepIter
