import Sigc.Model
/-! helper lemmas about the association lists of `Sigc.Model` -/
namespace Sigc.Model

variable {α : Type}

@[simp] theorem aget_nil (k : Nat) : aget ([] : List (Nat × α)) k = none := rfl

@[simp] theorem aget_aset_same (l : List (Nat × α)) (k : Nat) (v : α) : aget (aset l k v) k = some v := by
  induction l with
  | nil => simp [aset, aget]
  | cons p t ih =>
    obtain ⟨k', v'⟩ := p
    by_cases h : k' = k
    · simp [aset, aget, h]
    · simp [aset, aget, h, ih]

theorem aget_aset_other (l : List (Nat × α)) (k k' : Nat) (v : α) (h : k' ≠ k) :
    aget (aset l k v) k' = aget l k' := by
  induction l with
  | nil => simp [aset, aget, Ne.symm h]
  | cons p t ih =>
    obtain ⟨k2, v2⟩ := p
    by_cases h2 : k2 = k
    · subst h2
      simp [aset, aget, Ne.symm h]
    · by_cases h3 : k2 = k'
      · subst h3
        simp [aset, aget, h2]
      · simp [aset, aget, h2, h3, ih]

theorem adel_cons (p : Nat × α) (t : List (Nat × α)) (k : Nat) :
    adel (p :: t) k = if p.1 = k then adel t k else p :: adel t k := by
  by_cases h : p.1 = k <;> simp [adel, List.filter, h]

@[simp] theorem aget_adel_same (l : List (Nat × α)) (k : Nat) : aget (adel l k) k = none := by
  induction l with
  | nil => simp [adel, aget]
  | cons p t ih =>
    obtain ⟨k', v'⟩ := p
    rw [adel_cons]
    by_cases h : k' = k
    · simp [h, ih]
    · simp [h, aget, ih]

theorem aget_adel_other (l : List (Nat × α)) (k k' : Nat) (h : k' ≠ k) :
    aget (adel l k) k' = aget l k' := by
  induction l with
  | nil => simp [adel, aget]
  | cons p t ih =>
    obtain ⟨k2, v2⟩ := p
    rw [adel_cons]
    by_cases h2 : k2 = k
    · subst h2
      simp [aget, Ne.symm h, ih]
    · by_cases h3 : k2 = k'
      · subst h3
        simp [h2, aget]
      · simp [h2, aget, h3, ih]

theorem aget_amap (l : List (Nat × α)) (f : α → α) (k : Nat) :
    aget (amap l f) k = (aget l k).map f := by
  induction l with
  | nil => simp [amap, aget]
  | cons p t ih =>
    obtain ⟨k', v'⟩ := p
    simp only [amap] at ih ⊢
    by_cases h : k' = k
    · simp [aget, h]
    · simp [aget, h, ih]

end Sigc.Model
