import Sigc.Lemmas.SpecPWF
/-!
# SpecPWFSimple — every operation that runs no user code (`Spec.stepSimple`) is a `Step`
-/
namespace Sigc.SpecP
open Sigc.Spec
open Sigc.Model (aget aset adel amap Prog Line Op FSpec Fun SlotB SlotVar Rep Handle Flavour Strat Outcome Event
  aget_nil aget_aset_same aget_aset_other aget_amap aget_adel_same aget_adel_other)

theorem Step.after {s s' s'' : LSt} (h2 : Step s' s'') (h1 : Step s s') : Step s s'' := Step.trans h1 h2

theorem step_mkFun (s s' : LSt) (v : Bool) (spec : FSpec) (fn : Fun) (h : Spec.mkFun s v spec = .ok (fn, s')) : Step s s' := by
  cases spec <;> simp only [Spec.mkFun] at h <;> (repeat' split at h) <;>
    simp only [Except.ok.injEq, Prod.mk.injEq, reduceCtorEq, LSt.fresh] at h <;>
    (obtain ⟨-, rfl⟩ := h) <;>
    first
    | exact Step.refl _
    | exact step_frame rfl (Nat.le_refl _) rfl rfl
    | exact step_frame rfl (Nat.le_succ _) rfl rfl

/-- a frame step whose target is given by the goal -/
theorem step_frame' {s s' : LSt} (hs : s'.sigs = s.sigs) (hn : s.next ≤ s'.next) (h1 : s'.k1 = s.k1) (h2 : s'.k2 = s.k2) :
    Step s s' := step_frame hs hn h1 h2

syntax "step_auto" : tactic
macro_rules
  | `(tactic| step_auto) => `(tactic| first
    | exact Step.refl _
    | exact step_frame rfl (by simp only; omega) rfl rfl
    | (refine Step.after (step_invalidate _ _) ?_; step_auto)
    | (refine Step.after (step_removeCell _ _) ?_; step_auto)
    | (refine Step.after (step_disconnect _ _) ?_; step_auto)
    | (refine Step.after (step_gcSig _ _) ?_; step_auto)
    | (refine Step.after (step_insertCell _ _ _ _) ?_; step_auto)
    | (refine Step.trans (step_ensureSig _ _ _ _ (by assumption)) ?_; step_auto)
    | (refine Step.trans (step_mkFun _ _ _ _ _ (by assumption)) ?_; step_auto)
    | (split <;> step_auto))

syntax "simple_tac" : tactic
macro_rules
  | `(tactic| simple_tac) => `(tactic|
      (intro h <;> simp only [Spec.stepSimple] at h <;> (repeat' split at h) <;>
       simp only [Option.some.injEq, Prod.mk.injEq, reduceCtorEq, LSt.fresh] at h <;>
       (have h1 := h.1) <;> subst h1 <;> step_auto))

theorem step_simple_T (s s' : LSt) (r : String) (t j i : Nat) :
    (Spec.stepSimple s (.newT t) = some (s', r) → Step s s') ∧
    (Spec.stepSimple s (.delT t) = some (s', r) → Step s s') ∧
    (Spec.stepSimple s (.notifyT t) = some (s', r) → Step s s') ∧
    (Spec.stepSimple s (.cpT j i) = some (s', r) → Step s s') ∧
    (Spec.stepSimple s (.mvT j i) = some (s', r) → Step s s') ∧
    (Spec.stepSimple s (.asgT j i) = some (s', r) → Step s s') ∧
    (Spec.stepSimple s (.masgT j i) = some (s', r) → Step s s') := by
  refine ⟨?_, ?_, ?_, ?_, ?_, ?_, ?_⟩ <;> simple_tac

theorem step_simple_S1 (s s' : LSt) (r : String) (j i : Nat) (ty : String) (f : FSpec) :
    (Spec.stepSimple s (.mkS i ty f) = some (s', r) → Step s s') ∧
    (Spec.stepSimple s (.mkS0 i ty) = some (s', r) → Step s s') ∧
    (Spec.stepSimple s (.cpS j i) = some (s', r) → Step s s') ∧
    (Spec.stepSimple s (.mvS j i) = some (s', r) → Step s s') ∧
    (Spec.stepSimple s (.setS i f) = some (s', r) → Step s s') := by
  refine ⟨?_, ?_, ?_, ?_, ?_⟩ <;> simple_tac

theorem step_simple_S2 (s s' : LSt) (r : String) (j i : Nat) (b : Bool) :
    (Spec.stepSimple s (.asgS j i) = some (s', r) → Step s s') ∧
    (Spec.stepSimple s (.masgS j i) = some (s', r) → Step s s') ∧
    (Spec.stepSimple s (.delS i) = some (s', r) → Step s s') ∧
    (Spec.stepSimple s (.discS i) = some (s', r) → Step s s') ∧
    (Spec.stepSimple s (.blockS i b) = some (s', r) → Step s s') ∧
    (Spec.stepSimple s (.blockedSq i) = some (s', r) → Step s s') ∧
    (Spec.stepSimple s (.emptySq i) = some (s', r) → Step s s') := by
  refine ⟨?_, ?_, ?_, ?_, ?_, ?_, ?_⟩ <;> simple_tac

theorem step_simple_S3 (s s' : LSt) (r : String) (i : Nat) :
    (Spec.stepSimple s (.boolSq i) = some (s', r) → Step s s') := by
  simple_tac

theorem step_simple_G1 (s s' : LSt) (r : String) (j i : Nat) (fl : Option Flavour) :
    (Spec.stepSimple s (.newG i fl) = some (s', r) → Step s s') ∧
    (Spec.stepSimple s (.cpG j i) = some (s', r) → Step s s') ∧
    (Spec.stepSimple s (.mvG j i) = some (s', r) → Step s s') ∧
    (Spec.stepSimple s (.delG i) = some (s', r) → Step s s') := by
  refine ⟨?_, ?_, ?_, ?_⟩ <;> simple_tac

theorem step_simple_G2 (s s' : LSt) (r : String) (j i : Nat) :
    (Spec.stepSimple s (.asgG j i) = some (s', r) → Step s s') ∧
    (Spec.stepSimple s (.masgG j i) = some (s', r) → Step s s') := by
  refine ⟨?_, ?_⟩ <;> simple_tac

theorem step_simple_G3 (s s' : LSt) (r : String) (g : Nat) (_b : Bool) :
    (Spec.stepSimple s (.sizeq g) = some (s', r) → Step s s') ∧
    (Spec.stepSimple s (.emptyGq g) = some (s', r) → Step s s') ∧
    (Spec.stepSimple s (.blockedGq g) = some (s', r) → Step s s') := by
  refine ⟨?_, ?_, ?_⟩ <;> simple_tac

theorem step_simple_C (s s' : LSt) (r : String) (j i : Nat) :
    (Spec.stepSimple s (.newC i) = some (s', r) → Step s s') ∧
    (Spec.stepSimple s (.cpC j i) = some (s', r) → Step s s') ∧
    (Spec.stepSimple s (.asgC j i) = some (s', r) → Step s s') ∧
    (Spec.stepSimple s (.delC i) = some (s', r) → Step s s') ∧
    (Spec.stepSimple s (.disc i) = some (s', r) → Step s s') ∧
    (Spec.stepSimple s (.connectedq i) = some (s', r) → Step s s') ∧
    (Spec.stepSimple s (.emptyCq i) = some (s', r) → Step s s') ∧
    (Spec.stepSimple s (.blockedCq i) = some (s', r) → Step s s') := by
  refine ⟨?_, ?_, ?_, ?_, ?_, ?_, ?_, ?_⟩ <;> simple_tac

theorem step_simple_K1 (s s' : LSt) (r : String) (j i c : Nat) :
    (Spec.stepSimple s (.newK0 i) = some (s', r) → Step s s') ∧
    (Spec.stepSimple s (.newK i c) = some (s', r) → Step s s') ∧
    (Spec.stepSimple s (.mvK j i) = some (s', r) → Step s s') ∧
    (Spec.stepSimple s (.swapK i j) = some (s', r) → Step s s') ∧
    (Spec.stepSimple s (.relK c i) = some (s', r) → Step s s') ∧
    (Spec.stepSimple s (.discK i) = some (s', r) → Step s s') ∧
    (Spec.stepSimple s (.delK i) = some (s', r) → Step s s') ∧
    (Spec.stepSimple s (.connectedKq i) = some (s', r) → Step s s') ∧
    (Spec.stepSimple s (.blockedKq i) = some (s', r) → Step s s') := by
  refine ⟨?_, ?_, ?_, ?_, ?_, ?_, ?_, ?_, ?_⟩ <;> simple_tac

theorem step_simple_misc (s s' : LSt) (r : String) (fid : Nat) :
    (Spec.stepSimple s (.liveq fid) = some (s', r) → Step s s') ∧
    (Spec.stepSimple s .mark = some (s', r) → Step s s') ∧
    (Spec.stepSimple s .allocsq = some (s', r) → Step s s') ∧
    (Spec.stepSimple s .bad = some (s', r) → Step s s') := by
  refine ⟨?_, ?_, ?_, ?_⟩ <;> simple_tac

theorem step_blockAll (s : LSt) (im : Nat) (x : LSig) (b : Bool) (hx : aget s.sigs im = some x) :
    Step s (setSig s im { x with cells := x.cells.map (fun c => { c with slot := { c.slot with blocked := b } }) }) := by
  refine step_aset im x _ hx rfl (Nat.le_refl _) rfl rfl rfl ?_ ?_
  · intro nx h
    exact WFSig.map h _ _ _ _ h.clean (fun _ => rfl) (fun _ _ => ⟨rfl, rfl⟩)
  · intro c hc
    simp only [List.mem_map] at hc
    obtain ⟨c0, hc0, rfl⟩ := hc
    exact ⟨c0, hc0, rfl⟩

theorem step_blockCell (s : LSt) (p : Option Nat) (b : Bool) :
    Step s (match p with
      | some cid => updCell s cid (fun c => { c with slot := { c.slot with blocked := b } })
      | none => s) := by
  cases p with
  | none => exact Step.refl s
  | some cid => exact step_updCell s cid _ (fun _ => rfl) (fun _ => ⟨rfl, rfl⟩)

theorem step_simple_block (s s' : LSt) (r : String) (g i : Nat) (b : Bool) :
    (Spec.stepSimple s (.clear g) = some (s', r) → Step s s') ∧
    (Spec.stepSimple s (.blockG g b) = some (s', r) → Step s s') ∧
    (Spec.stepSimple s (.blockC i b) = some (s', r) → Step s s') ∧
    (Spec.stepSimple s (.blockK i b) = some (s', r) → Step s s') := by
  refine ⟨?_, ?_, ?_, ?_⟩ <;> intro h <;> simp only [Spec.stepSimple] at h <;> (repeat' split at h) <;>
    simp only [Option.some.injEq, Prod.mk.injEq] at h <;> (have h1 := h.1) <;> subst h1 <;>
    first
    | exact Step.refl _
    | exact step_setSig_remove _ _ _ _ _ (by assumption)
    | exact step_blockAll _ _ _ _ (by assumption)
    | exact step_blockCell _ _ _
    | exact step_updCell _ _ _ (fun _ => rfl) (fun _ => ⟨rfl, rfl⟩)

theorem step_simple_K2 (s s' : LSt) (r : String) (j i c : Nat) :
    (Spec.stepSimple s (.asgKC i c) = some (s', r) → Step s s') ∧
    (Spec.stepSimple s (.masgK j i) = some (s', r) → Step s s') := by
  refine ⟨?_, ?_⟩ <;> intro h <;> simp only [Spec.stepSimple] at h <;> (repeat' split at h) <;>
    simp only [Option.some.injEq, Prod.mk.injEq] at h <;> (have h1 := h.1) <;> subst h1 <;>
    first
    | exact Step.refl _
    | exact step_frame rfl (Nat.le_refl _) rfl rfl
    | exact Step.after (s' := removeCell s _) (step_frame rfl (Nat.le_refl _) rfl rfl) (step_removeCell s _)

theorem step_simple_conn (s s' : LSt) (r : String) (k g sv : Nat) (first mv : Bool) (f : FSpec) :
    (Spec.stepSimple s (.conn k g sv first mv) = some (s', r) → Step s s') ∧
    (Spec.stepSimple s (.connfn k g f first) = some (s', r) → Step s s') := by
  refine ⟨?_, ?_⟩ <;> intro h <;> simp only [Spec.stepSimple] at h <;> (repeat' split at h) <;>
    simp only [Option.some.injEq, Prod.mk.injEq] at h <;> (have h1 := h.1) <;> subst h1 <;>
    first
    | exact Step.refl _
    | step_auto

/-- every operation that runs no user code is a `Step` -/
theorem step_stepSimple (s s' : LSt) (op : Op) (r : String) (h : Spec.stepSimple s op = some (s', r)) : Step s s' := by
  cases op with
  | newT t => exact (step_simple_T s s' r t 0 0).1 h
  | delT t => exact (step_simple_T s s' r t 0 0).2.1 h
  | notifyT t => exact (step_simple_T s s' r t 0 0).2.2.1 h
  | cpT j i => exact (step_simple_T s s' r 0 j i).2.2.2.1 h
  | mvT j i => exact (step_simple_T s s' r 0 j i).2.2.2.2.1 h
  | asgT j i => exact (step_simple_T s s' r 0 j i).2.2.2.2.2.1 h
  | masgT j i => exact (step_simple_T s s' r 0 j i).2.2.2.2.2.2 h
  | mkS i ty f => exact (step_simple_S1 s s' r 0 i ty f).1 h
  | mkS0 i ty => exact (step_simple_S1 s s' r 0 i ty .bad).2.1 h
  | cpS j i => exact (step_simple_S1 s s' r j i "" .bad).2.2.1 h
  | mvS j i => exact (step_simple_S1 s s' r j i "" .bad).2.2.2.1 h
  | setS i f => exact (step_simple_S1 s s' r 0 i "" f).2.2.2.2 h
  | asgS j i => exact (step_simple_S2 s s' r j i false).1 h
  | masgS j i => exact (step_simple_S2 s s' r j i false).2.1 h
  | delS i => exact (step_simple_S2 s s' r 0 i false).2.2.1 h
  | discS i => exact (step_simple_S2 s s' r 0 i false).2.2.2.1 h
  | blockS i b => exact (step_simple_S2 s s' r 0 i b).2.2.2.2.1 h
  | blockedSq i => exact (step_simple_S2 s s' r 0 i false).2.2.2.2.2.1 h
  | emptySq i => exact (step_simple_S2 s s' r 0 i false).2.2.2.2.2.2 h
  | boolSq i => exact step_simple_S3 s s' r i h
  | callS i arg => simp [Spec.stepSimple] at h
  | newG i fl => exact (step_simple_G1 s s' r 0 i fl).1 h
  | cpG j i => exact (step_simple_G1 s s' r j i none).2.1 h
  | mvG j i => exact (step_simple_G1 s s' r j i none).2.2.1 h
  | delG i => exact (step_simple_G1 s s' r 0 i none).2.2.2 h
  | asgG j i => exact (step_simple_G2 s s' r j i).1 h
  | masgG j i => exact (step_simple_G2 s s' r j i).2 h
  | conn k g sv first mv => exact (step_simple_conn s s' r k g sv first mv .bad).1 h
  | connfn k g f first => exact (step_simple_conn s s' r k g 0 first false f).2 h
  | emit g arg strat t => simp [Spec.stepSimple] at h
  | throw_ => simp [Spec.stepSimple] at h
  | clear g => exact (step_simple_block s s' r g 0 false).1 h
  | sizeq g => exact (step_simple_G3 s s' r g false).1 h
  | emptyGq g => exact (step_simple_G3 s s' r g false).2.1 h
  | blockedGq g => exact (step_simple_G3 s s' r g false).2.2 h
  | blockG g b => exact (step_simple_block s s' r g 0 b).2.1 h
  | newC i => exact (step_simple_C s s' r 0 i).1 h
  | cpC j i => exact (step_simple_C s s' r j i).2.1 h
  | asgC j i => exact (step_simple_C s s' r j i).2.2.1 h
  | delC i => exact (step_simple_C s s' r 0 i).2.2.2.1 h
  | disc i => exact (step_simple_C s s' r 0 i).2.2.2.2.1 h
  | connectedq i => exact (step_simple_C s s' r 0 i).2.2.2.2.2.1 h
  | emptyCq i => exact (step_simple_C s s' r 0 i).2.2.2.2.2.2.1 h
  | blockedCq i => exact (step_simple_C s s' r 0 i).2.2.2.2.2.2.2 h
  | blockC i b => exact (step_simple_block s s' r 0 i b).2.2.1 h
  | newK0 i => exact (step_simple_K1 s s' r 0 i 0).1 h
  | newK i c => exact (step_simple_K1 s s' r 0 i c).2.1 h
  | asgKC i c => exact (step_simple_K2 s s' r 0 i c).1 h
  | mvK j i => exact (step_simple_K1 s s' r j i 0).2.2.1 h
  | masgK j i => exact (step_simple_K2 s s' r j i 0).2 h
  | swapK i j => exact (step_simple_K1 s s' r j i 0).2.2.2.1 h
  | relK c k => exact (step_simple_K1 s s' r 0 k c).2.2.2.2.1 h
  | discK i => exact (step_simple_K1 s s' r 0 i 0).2.2.2.2.2.1 h
  | delK i => exact (step_simple_K1 s s' r 0 i 0).2.2.2.2.2.2.1 h
  | connectedKq i => exact (step_simple_K1 s s' r 0 i 0).2.2.2.2.2.2.2.1 h
  | blockedKq i => exact (step_simple_K1 s s' r 0 i 0).2.2.2.2.2.2.2.2 h
  | blockK i b => exact (step_simple_block s s' r 0 i b).2.2.2 h
  | liveq fid => exact (step_simple_misc s s' r fid).1 h
  | mark => exact (step_simple_misc s s' r 0).2.1 h
  | allocsq => exact (step_simple_misc s s' r 0).2.2.1 h
  | bad => exact (step_simple_misc s s' r 0).2.2.2 h

end Sigc.SpecP
