import Sigc.Lemmas.FuelLvlPrims
/-!
# Fuel work package — the level invariant under the constructive steps of the model

new functors (`mkFun`), new slot lists (`ensureImpl`), new cells (`insertCell`), new or re-seated signal objects.
-/
namespace Sigc.Fuel
open Sigc.Model

/-- `FunLt` only looks at the `(obj, lvl)` pairs of the signal objects -/
theorem FunLt.congrG {n n' : Nat} {G G' : List (Nat × Handle)} {fn : Fun} {ℓ : Int} (hn : n ≤ n')
    (hG : ∀ q ∈ G', (∃ p ∈ G, p.2.obj = q.2.obj ∧ p.2.lvl = q.2.lvl) ∨ n ≤ q.2.obj)
    (h : FunLt n G fn ℓ) : FunLt n' G' fn ℓ := by
  intro o ts ht
  obtain ⟨h1, h2⟩ := h o ts ht
  refine ⟨Nat.lt_of_lt_of_le h1 hn, ?_⟩
  intro q hq hqo
  rcases hG q hq with ⟨p, hp, ho, hl⟩ | h3
  · rw [← hl]; exact h2 p hp (ho.trans hqo)
  · omega

theorem SlotLt.congrG {n n' : Nat} {G G' : List (Nat × Handle)} {sl : SlotB} {ℓ : Int} (hn : n ≤ n')
    (hG : ∀ q ∈ G', (∃ p ∈ G, p.2.obj = q.2.obj ∧ p.2.lvl = q.2.lvl) ∨ n ≤ q.2.obj)
    (h : SlotLt n G sl ℓ) : SlotLt n' G' sl ℓ := fun fn hfn => (h fn hfn).congrG hn hG

theorem SlotLt.mono {n : Nat} {G : List (Nat × Handle)} {sl : SlotB} {a b : Int} (h : SlotLt n G sl a) (hab : a ≤ b) :
    SlotLt n G sl b := fun fn hfn => (h fn hfn).mono hab

theorem SlotLt.of_none {n : Nat} {G : List (Nat × Handle)} {sl : SlotB} {ℓ : Int} (h : fnOf sl = none) :
    SlotLt n G sl ℓ := fun fn hfn => by rw [h] at hfn; cases hfn

/-- a slot variable receives a functor that respects its taint -/
theorem JK.setS {k : Option (Nat × Nat)} {s : St} (hJ : JK k s) (i : Nat) (v' : SlotVar)
    (hv : SlotLt s.next s.G v'.slot (v'.taint + 1)) : JK k { s with S := aset s.S i v' } := by
  refine ⟨⟨hJ.1.objlt, hJ.1.objuniq, hJ.1.impllt, ?_, fun p hp j hj => hJ.1.impls p hp j hj⟩,
    fun j L hk => hJ.2 j L hk⟩
  intro j w hw
  simp only [Sigc.Inv.aget_aset] at hw
  split at hw
  · cases hw; exact hv
  · exact hJ.1.slots j w hw

/-! ## `mkFun` -/

theorem fnOf_copy (sl : SlotB) : fnOf sl.copy = none ∨ fnOf sl.copy = fnOf sl := by
  simp only [fnOf, SlotB.copy]
  cases h : sl.rep with
  | none => left; rfl
  | some r =>
    cases hc : r.call
    · left; simp [hc]
    · right; simp [hc]

theorem mkFun_lvl {s s' : St} {isVoid : Bool} {spec : FSpec} {fn : Fun} (hI : LvlInv s)
    (hm : mkFun s isVoid spec = .ok (fn, s')) : Sub s s' ∧ FunLt s'.next s'.G fn (specTaint s spec + 1) := by
  have leaf : ∀ {n G} (fid : Nat) (ts : List Nat) (ℓ : Int), FunLt n G (.leaf fid ts) ℓ :=
    fun fid ts ℓ o ts' h => by simp [Emit.funTarget] at h
  have owner : ∀ {n G} (fid : Nat) (a b : List Nat) (ℓ : Int), FunLt n G (.owner fid a b) ℓ :=
    fun fid a b ℓ o ts' h => by simp [Emit.funTarget] at h
  cases spec <;> simp only [mkFun] at hm
  case fn fid => cases hm; exact ⟨Sub.refl _, leaf _ _ _⟩
  case mem fid t =>
    split at hm
    · cases hm
    · cases hm; exact ⟨Sub.refl _, leaf _ _ _⟩
  case bref fid t =>
    split at hm
    · cases hm
    · cases hm; exact ⟨Sub.refl _, leaf _ _ _⟩
  case trk fid t1 t2 =>
    split at hm
    · cases hm
    · split at hm
      · cases hm; exact ⟨Sub.refl _, leaf _ _ _⟩
      · split at hm
        · cases hm
        · cases hm; exact ⟨Sub.refl _, leaf _ _ _⟩
  case nest sv =>
    split at hm
    · cases hm
    · rename_i v hv
      split at hm
      · cases hm
      · cases hm
        refine ⟨Sub.refl _, ?_⟩
        intro o ts ht
        have hsl := hI.slots sv v hv
        simp only [specTaint, hv]
        rcases fnOf_copy v.slot with e | e
        · simp only [fnOf] at e
          cases hr : v.slot.copy.rep with
          | none => simp [hr, Emit.funTarget] at ht
          | some r =>
            rw [hr] at e; simp only at e
            simp [hr, e, Emit.funTarget] at ht
        · simp only [fnOf] at e
          cases hr : v.slot.copy.rep with
          | none => simp [hr, Emit.funTarget] at ht
          | some r =>
            rw [hr] at e; simp only at e
            cases hf : r.fn with
            | none => simp [hr, hf, Emit.funTarget] at ht
            | some f =>
              simp only [hr, hf, Emit.funTarget] at ht
              exact hsl f (by simp only [fnOf]; rw [← e, hf]) o ts ht
  case fwd g =>
    split at hm
    · cases hm
    · rename_i h hg
      split at hm
      · cases hm
      · split at hm
        · cases hm
        · cases hm
          have hmem : (g, h) ∈ s.G := Sigc.Inv.mem_of_aget hg
          refine ⟨⟨Nat.le_refl _, ?_, ?_, fun i v h => Or.inr ⟨i, v, h, Int.le_refl _, rfl⟩,
            fun _ im h => ⟨im, h, fun c hc => Or.inr ⟨c, hc, rfl⟩⟩⟩, ?_⟩
          · intro q hq
            rcases Sigc.Inv.mem_aset hq with e | e
            · subst e; exact Or.inl ⟨(g, h), hmem, rfl, rfl⟩
            · exact Or.inl ⟨q, e, rfl, rfl⟩
          · intro q hq
            rcases Sigc.Inv.mem_aset hq with e | e
            · subst e; exact Or.inr ⟨(g, h), hmem, rfl, rfl⟩
            · exact Or.inr ⟨q, e, rfl, rfl⟩
          · intro o ts ht
            simp only [Emit.funTarget, Option.some.injEq, Prod.mk.injEq] at ht
            obtain ⟨rfl, _⟩ := ht
            refine ⟨hI.objlt _ hmem, ?_⟩
            intro q hq hqo
            simp only [specTaint, hg]
            have : q.2.lvl = h.lvl := by
              rcases Sigc.Inv.mem_aset hq with e | e
              · subst e; rfl
              · exact hI.objuniq q e (g, h) hmem hqo
            rw [this]; omega
  case ownT fid t =>
    split at hm
    · cases hm
    · cases hm; exact ⟨(Sub.refl s).congr rfl rfl rfl rfl, owner _ _ _ _⟩
  case ownK fid k =>
    split at hm
    · cases hm
    · cases hm
      exact ⟨(sub_next (Sub.refl s) (Nat.le_succ _)).congr rfl rfl rfl rfl, owner _ _ _ _⟩
  case ownG fid g =>
    split at hm
    · cases hm
    · split at hm
      · cases hm
      · split at hm
        · cases hm
        · cases hm
          exact ⟨(sub_next (Sub.refl s) (Nat.le_succ _)).congr rfl rfl rfl rfl, owner _ _ _ _⟩
  case bad => cases hm

/-! ## new slot lists, new cells -/

theorem same_pairs (G : List (Nat × Handle)) : ∀ q ∈ G, (∃ p ∈ G, p.2.obj = q.2.obj ∧ p.2.lvl = q.2.lvl) ∨ n ≤ q.2.obj :=
  fun q hq => Or.inl ⟨q, hq, rfl, rfl⟩

/-- the cells of one slot list are replaced, `next` may grow, the signal objects stay -/
theorem Bnd.setImpl {s : St} {i j L n : Nat} {im' : Impl} (hn : s.next ≤ n) (hb : Bnd s j L)
    (hc : j = i → ∀ c ∈ im'.cells, SlotLt n s.G c.slot L) :
    Bnd (Model.setImpl { s with next := n } i im') j L := by
  refine ⟨?_, hb.2⟩
  intro jm hj c hcm
  simp only [Sigc.Inv.setImpl_impls, Sigc.Inv.aget_aset] at hj
  split at hj
  · rename_i e; cases hj; exact hc e c hcm
  · exact (hb.1 jm hj c hcm).congrG hn (same_pairs _)

theorem JK.setImpl {k : Option (Nat × Nat)} {s : St} {i n : Nat} {im' : Impl} (hJ : JK k s) (hn : s.next ≤ n)
    (hc : ∀ L, Bnd s i L → ∀ c ∈ im'.cells, SlotLt n s.G c.slot L) :
    JK k (Model.setImpl { s with next := n } i im') := by
  refine ⟨⟨?_, hJ.1.objuniq, ?_, ?_, ?_⟩, ?_⟩
  · intro p hp; exact Nat.lt_of_lt_of_le (hJ.1.objlt p hp) hn
  · intro p hp j hj; exact Nat.lt_of_lt_of_le (hJ.1.impllt p hp j hj) hn
  · intro j v hv; exact (hJ.1.slots j v hv).congrG hn (same_pairs _)
  · intro p hp j hj
    exact Bnd.setImpl hn (hJ.1.impls p hp j hj) (fun e => hc _ (e ▸ hJ.1.impls p hp j hj))
  · intro j L hk
    exact ⟨Bnd.setImpl hn (hJ.2 j L hk).1 (fun e => hc _ (e ▸ (hJ.2 j L hk).1)),
      Nat.lt_of_lt_of_le (hJ.2 j L hk).2 hn⟩

/-- `signal_impl::insert`: the new cell's functor forwards below the level of a signal object of the list -/
theorem JK.insertCell {k : Option (Nat × Nat)} {s : St} {i : Nat} (hJ : JK k s) (first : Bool) {sl : SlotB}
    {p : Nat × Handle} (hp : p ∈ s.G) (hi : p.2.impl = some i) (hsl : SlotLt s.next s.G sl p.2.lvl) :
    JK k (insertCell s i first sl).1 := by
  unfold Model.insertCell
  simp only [St.fresh]
  split
  · exact JK.sub (sub_fail (sub_next (Sub.refl s) (Nat.le_succ _)) _) hJ
  · rename_i im him
    refine JK.setImpl hJ (Nat.le_succ _) ?_
    intro L hb c hc
    have hcell : ∀ c ∈ im.cells, SlotLt (s.next + 1) s.G c.slot L := fun c hc =>
      (hb.1 im him c hc).congrG (Nat.le_succ _) (same_pairs _)
    have hnew : SlotLt (s.next + 1) s.G (match sl.rep with
        | none => { sl with rep := some { call := false, fn := none } }
        | some _ => sl) L := by
      have h1 : SlotLt (s.next + 1) s.G sl L :=
        (hsl.congrG (Nat.le_succ _) (same_pairs _)).mono (by have := hb.2 p hp hi; omega)
      cases hr : sl.rep with
      | none => exact SlotLt.of_none (by simp [fnOf])
      | some r => simpa [hr] using h1
    cases first
    · simp only [Bool.false_eq_true, if_false, List.mem_append, List.mem_singleton] at hc
      rcases hc with hc | rfl
      · exact hcell c hc
      · exact hnew
    · simp only [if_true, List.mem_cons] at hc
      rcases hc with rfl | hc
      · exact hnew
      · exact hcell c hc

/-- `signal_base::impl()`: the slot list of the signal object named `g`, created on first use -/
theorem JK.ensureImpl {k : Option (Nat × Nat)} {s s1 : St} {g im : Nat} (hJ : JK k s)
    (he : ensureImpl s g = some (s1, im)) :
    JK k s1 ∧ ∃ h, aget s.G g = some h ∧ aget s1.G g = some { h with impl := some im } ∧
      s.next ≤ s1.next ∧ s1.S = s.S ∧ (∀ g', g' ≠ g → aget s1.G g' = aget s.G g') ∧
      (∀ q ∈ s1.G, ∃ p ∈ s.G, p.2.obj = q.2.obj ∧ p.2.lvl = q.2.lvl) := by
  unfold Model.ensureImpl at he
  split at he
  · cases he
  · rename_i h hg
    split at he
    · rename_i i hi
      cases he
      refine ⟨hJ, h, hg, ?_, Nat.le_refl _, rfl, fun _ _ => rfl, fun q hq => ⟨q, hq, rfl, rfl⟩⟩
      rw [hg]; congr 1
      cases h; simp only at hi; subst hi; rfl
    · rename_i hi
      simp only [St.fresh, Option.some.injEq, Prod.mk.injEq] at he
      obtain ⟨rfl, rfl⟩ := he
      have hmem : (g, h) ∈ s.G := Sigc.Inv.mem_of_aget hg
      -- the signal objects keep their `(obj, lvl)`; only `g` gets the fresh slot list
      have hG : ∀ q ∈ aset s.G g { h with impl := some s.next },
          (q = (g, { h with impl := some s.next })) ∨ q ∈ s.G := fun q hq => Sigc.Inv.mem_aset hq
      have hp2 : ∀ q ∈ aset s.G g { h with impl := some s.next },
          ∃ p ∈ s.G, p.2.obj = q.2.obj ∧ p.2.lvl = q.2.lvl := by
        intro q hq
        rcases hG q hq with rfl | e
        · exact ⟨(g, h), hmem, rfl, rfl⟩
        · exact ⟨q, e, rfl, rfl⟩
      refine ⟨?_, h, hg, by simp, Nat.le_succ _, rfl, fun g' hg' => by simp [Sigc.Inv.aget_aset, hg'], hp2⟩
      have hpairs : ∀ q ∈ aset s.G g { h with impl := some s.next },
          (∃ p ∈ s.G, p.2.obj = q.2.obj ∧ p.2.lvl = q.2.lvl) ∨ s.next ≤ q.2.obj := by
        intro q hq
        rcases hG q hq with rfl | e
        · exact Or.inl ⟨(g, h), hmem, rfl, rfl⟩
        · exact Or.inl ⟨q, e, rfl, rfl⟩
      have hold : ∀ q ∈ aset s.G g { h with impl := some s.next }, ∀ j, q.2.impl = some j → j ≠ s.next →
          q ∈ s.G := by
        intro q hq j hj hne
        rcases hG q hq with rfl | e
        · simp only [Option.some.injEq] at hj; exact absurd hj.symm hne
        · exact e
      have hbnd : ∀ j L, j < s.next → Bnd s j L →
          Bnd { s with next := s.next + 1, impls := aset s.impls s.next {},
                       G := aset s.G g { h with impl := some s.next } } j L := by
        intro j L hj hb
        refine ⟨?_, ?_⟩
        · intro jm hjm c hc
          simp only [Sigc.Inv.aget_aset] at hjm
          split at hjm
          · omega
          · exact (hb.1 jm hjm c hc).congrG (Nat.le_succ _) hpairs
        · intro q hq hqj
          exact hb.2 q (hold q hq j hqj (by omega)) hqj
      refine ⟨⟨?_, ?_, ?_, ?_, ?_⟩, ?_⟩
      · intro q hq
        rcases hG q hq with rfl | e
        · exact Nat.lt_succ_of_lt (hJ.1.objlt (g, h) hmem)
        · exact Nat.lt_succ_of_lt (hJ.1.objlt _ e)
      · intro q hq q' hq' ho
        have e1 : ∃ p ∈ s.G, p.2.obj = q.2.obj ∧ p.2.lvl = q.2.lvl := by
          rcases hG q hq with rfl | e
          · exact ⟨(g, h), hmem, rfl, rfl⟩
          · exact ⟨q, e, rfl, rfl⟩
        have e2 : ∃ p ∈ s.G, p.2.obj = q'.2.obj ∧ p.2.lvl = q'.2.lvl := by
          rcases hG q' hq' with rfl | e
          · exact ⟨(g, h), hmem, rfl, rfl⟩
          · exact ⟨q', e, rfl, rfl⟩
        obtain ⟨p, hp, hpo, hpl⟩ := e1
        obtain ⟨p', hp', hpo', hpl'⟩ := e2
        rw [← hpl, ← hpl']
        exact hJ.1.objuniq p hp p' hp' (by rw [hpo, hpo', ho])
      · intro q hq j hj
        rcases hG q hq with rfl | e
        · simp only [Option.some.injEq] at hj; subst hj; exact Nat.lt_succ_self _
        · exact Nat.lt_succ_of_lt (hJ.1.impllt q e j hj)
      · intro j v hv
        exact (hJ.1.slots j v hv).congrG (Nat.le_succ _) hpairs
      · intro q hq j hj
        by_cases hjn : j = s.next
        · subst hjn
          -- the fresh list: no cells, and `g` is the only signal object that has it
          refine ⟨?_, ?_⟩
          · intro jm hjm c hc
            simp only [Sigc.Inv.aget_aset, if_true, Option.some.injEq] at hjm
            subst hjm; cases hc
          · intro q' hq' hj'
            have hq'g : ∀ r ∈ aset s.G g { h with impl := some s.next }, r.2.impl = some s.next →
                r = (g, { h with impl := some s.next }) := by
              intro r hr hri
              rcases hG r hr with rfl | e
              · rfl
              · exact absurd (hJ.1.impllt r e _ hri) (Nat.lt_irrefl _)
            rw [hq'g q hq hj, hq'g q' hq' hj']
            exact Nat.le_refl _
        · have hqs := hold q hq j hj hjn
          exact hbnd j q.2.lvl (hJ.1.impllt q hqs j hj) (hJ.1.impls q hqs j hj)
      · intro j L hk
        exact ⟨hbnd j L (hJ.2 j L hk).2 (hJ.2 j L hk).1, Nat.lt_succ_of_lt (hJ.2 j L hk).2⟩

/-! ## slot variables and signal objects change -/

/-- the functors of the slot variables of the new state were there before, under a taint that is not larger -/
theorem Sub.ofS {x : St} {S' : List (Nat × SlotVar)}
    (h : ∀ i v', aget S' i = some v' →
      fnOf v'.slot = none ∨ ∃ j v, aget x.S j = some v ∧ v.taint ≤ v'.taint ∧ fnOf v'.slot = fnOf v.slot) :
    Sub x { x with S := S' } :=
  ⟨Nat.le_refl _, fun q hq => Or.inl ⟨q, hq, rfl, rfl⟩, fun q hq => Or.inr ⟨q, hq, rfl, rfl⟩, h,
   fun _ im h => ⟨im, h, fun c hc => Or.inr ⟨c, hc, rfl⟩⟩⟩

/-- the signal objects of the new state: old ones, or re-seated / fresh ones -/
theorem Sub.ofG {x : St} {G' : List (Nat × Handle)} {n : Nat} (hn : x.next ≤ n)
    (hG : ∀ r ∈ G', r ∈ x.G ∨
      (((∃ p ∈ x.G, p.2.obj = r.2.obj ∧ p.2.lvl = r.2.lvl) ∨
        (x.next ≤ r.2.obj ∧ r.2.obj < n ∧ ∀ r' ∈ G', r'.2.obj = r.2.obj → r'.2.lvl = r.2.lvl)) ∧
       (r.2.impl = none ∨ ∃ p ∈ x.G, p.2.impl = r.2.impl ∧ p.2.lvl = r.2.lvl))) :
    Sub x { x with G := G', next := n } := by
  refine ⟨hn, ?_, ?_, fun i v h => Or.inr ⟨i, v, h, Int.le_refl _, rfl⟩,
    fun _ im h => ⟨im, h, fun c hc => Or.inr ⟨c, hc, rfl⟩⟩⟩
  · intro r hr
    rcases hG r hr with e | ⟨e, _⟩
    · exact Or.inl ⟨r, e, rfl, rfl⟩
    · exact e
  · intro r hr
    rcases hG r hr with e | ⟨_, e⟩
    · exact Or.inr ⟨r, e, rfl, rfl⟩
    · exact e

theorem fnOf_blocked (sl : SlotB) (b : Bool) : fnOf { sl with blocked := b } = fnOf sl := rfl
theorem fnOf_rep (b : Bool) (sl : SlotB) : fnOf { blocked := b, rep := sl.rep } = fnOf sl := rfl

theorem fnOf_disconnectRep (sl : SlotB) : fnOf sl.disconnectRep = fnOf sl := by
  simp only [fnOf, SlotB.disconnectRep]
  cases h : sl.rep <;> simp [h]

theorem fnOf_move_fst (sl : SlotB) : fnOf sl.move.1 = fnOf sl := by
  simp only [fnOf, SlotB.move]
  cases h : sl.rep <;> simp [h]

theorem fnOf_move_snd (sl : SlotB) : fnOf sl.move.2 = none := by
  simp only [fnOf, SlotB.move]
  cases h : sl.rep <;> simp [h]

end Sigc.Fuel
