import Sigc.Lemmas.RefineTdD
/-!
# Refine work package — the simulation tracking the specification's error flag, part E: the iterator functions
(`deref`, `accLoop`, `revLoop`, `walkLoop`, `runStrat`); proofs as in `RefineSimB`, with `R` replaced by `RE e`.
-/
namespace Sigc.Refine
open Sigc.Model

/-! ## `deref` -/

theorem deref_simE0 : DerefE 0 := by
  intro e P s t i itm its arg snap m B s' o itm' _ _ _ _ _ _ h
  simp [Model.deref] at h

theorem deref_simE (f : Nat) (hi : InvokeE f) : DerefE (f+1) := by
  intro e P s t i itm its arg snap m B s' o itm' hs hR hb hB hp hlt h g hg
  obtain ⟨g', rfl⟩ : ∃ g', g = g'+1 := ⟨g-1, by omega⟩
  rw [StepIter.deref_cases] at h
  rw [StepIter.spec_deref_cases]
  obtain ⟨im, c, him, hfind⟩ := hb.find (hp.memB hB)
  rw [him] at h
  simp only [hfind] at h
  rw [hp.in_snap hlt]
  simp only [callable_sim hs hR.r, hp.invoked]
  cases hc : StepIter.callableAt s i itm.pos with
  | none =>
    simp only [hc] at h
    simp at h
    obtain ⟨rfl, rfl, rfl⟩ := h
    exact ⟨t, its, rfl, hR, hp, rfl⟩
  | some fn =>
    simp only [hc] at h
    cases hinv : itm.invoked with
    | true =>
      simp only [hinv] at h
      simp at h
      obtain ⟨rfl, rfl, rfl⟩ := h
      exact ⟨t, its, by simp, hR, hp, rfl⟩
    | false =>
      simp only [hinv] at h
      simp only [Bool.false_eq_true, if_false] at h ⊢
      obtain ⟨im', c', him', hc', hrep, _⟩ := StepIter.callableAt_eq_some _ _ _ _ hc
      have hfn : Emit.FunOK s.G fn := hs.fwdC i im' him' c' (Emit.find_mem hc').1 _ fn hrep rfl
      split at h
      · contradiction
      · rename_i s1 v1 hinvk
        simp at h; obtain ⟨rfl, rfl, rfl⟩ := h
        obtain ⟨t1, ht1, hR1⟩ := hi e P s t fn arg s1 .exc v1 hs hfn hR hinvk g' (by omega)
        simp only [ht1]
        exact ⟨t1, its, rfl, hR1, hp, rfl⟩
      · rename_i s1 v1 hinvk
        simp at h; obtain ⟨rfl, rfl, rfl⟩ := h
        obtain ⟨t1, ht1, hR1⟩ := hi e P s t fn arg s1 .ok v1 hs hfn hR hinvk g' (by omega)
        simp only [ht1]
        exact ⟨t1, _, rfl, hR1, ⟨hp.pos, rfl, rfl⟩, rfl⟩

/-! ## `accLoop` -/

/-- `++it` of the accumulator loops -/
theorem advance_simE (f : Nat) (ha : AccE f) {e : Option String} {P : Prog} {s : St} {t : Spec.LSt} {i m : Nat} {snap : List Nat}
    {B : List (Nat × Bool)} (hs : Emit.Inv s) (hR : RE e s t) (hb : Emit.InBlk s i B) (hB : B.map (·.1) = snap ++ [m])
    {itm : IterBuf} {its : Spec.It} (hp : PosR snap m itm its) (hlt : its.pos < snap.length)
    (arg mode k r : Nat) {s' : St} {o : Outcome} {v : Nat}
    (h : (match aget s.impls i with
      | none => some (s.fail "acc: impl destroyed", Outcome.ok, r)
      | some im =>
        match succId im.cells itm.pos with
        | none => some (s.fail "acc: iterator invalidated", Outcome.ok, r)
        | some nxt => Model.accLoop f P s i { itm with pos := nxt, invoked := false } m arg mode k r) = some (s', o, v))
    (g : Nat) (hg : f ≤ g) :
    ∃ t', Spec.accLoop g P t i snap { its with pos := its.pos + 1, invoked := false } arg mode k r = some (t', o, v) ∧
      RE e s' t' := by
  obtain ⟨im, nxt, him, hsucc, hp'⟩ := hp.succ hs hb hB hlt
  rw [him] at h
  simp only [hsucc] at h
  exact ha e P s t i _ _ m arg mode k r snap B s' o v hs hR hb hB hp' h g hg

theorem acc_simE0 : AccE 0 := by
  intro e P s t i itm its m arg mode k r snap B s' o v _ _ _ _ _ h
  simp [Model.accLoop] at h

theorem acc_simE (f : Nat) (hd : DerefE f) (ha : AccE f) : AccE (f+1) := by
  intro e P s t i itm its m arg mode k r snap B s' o v hs hR hb hB hp h g hg
  obtain ⟨g', rfl⟩ : ∃ g', g = g'+1 := ⟨g-1, by omega⟩
  have hg' : f ≤ g' := by omega
  have hnd := blk_nodup hs hb hB
  rw [Model.accLoop] at h
  rw [Spec.accLoop]
  split at h
  · rename_i hpm
    simp at h; obtain ⟨rfl, rfl, rfl⟩ := h
    rw [if_pos ((hp.at_end hnd).mp hpm)]
    exact ⟨t, rfl, hR⟩
  · rename_i hpm
    have hlt : its.pos < snap.length := by
      have := mt (hp.at_end hnd).mpr hpm
      omega
    rw [if_neg (by omega)]
    simp only at h
    split at h
    · rename_i hm3
      rw [if_pos hm3]
      exact advance_simE f ha hs hR hb hB hp hlt arg mode k _ h g' hg'
    · rename_i hm3
      rw [if_neg hm3]
      split at h
      · contradiction
      · rename_i s1 it1 hder
        simp at h; obtain ⟨rfl, rfl, rfl⟩ := h
        obtain ⟨t1, its1, hd1, hR1, _, _⟩ := hd e P s t i itm its arg snap m B _ _ _ hs hR hb hB hp hlt hder g' hg'
        simp only [hd1]
        exact ⟨t1, rfl, hR1⟩
      · rename_i s1 it1 hder
        obtain ⟨t1, its1, hd1, hR1, hp1, hpp1⟩ := hd e P s t i itm its arg snap m B _ _ _ hs hR hb hB hp hlt hder g' hg'
        obtain ⟨hs1, hb1⟩ := deref_blk hs hb hB hp hder
        simp only [hd1, hp1.buf]
        have hpX : PosR snap m (if mode = 4 then itm else it1) (if mode = 4 then its else its1) := by
          split
          · exact hp
          · exact hp1
        have hltX : (if mode = 4 then its else its1).pos < snap.length := by
          split
          · exact hlt
          · omega
        split at h
        · rename_i hstop
          simp at h; obtain ⟨rfl, rfl, rfl⟩ := h
          rw [if_pos hstop]
          exact ⟨t1, rfl, hR1⟩
        · rename_i hstop
          rw [if_neg hstop]
          split at h
          · rename_i hm2
            rw [if_pos hm2]
            split at h
            · contradiction
            · rename_i s2 it2 hder2
              simp at h; obtain ⟨rfl, rfl, rfl⟩ := h
              obtain ⟨t2, its2, hd2, hR2, _, _⟩ :=
                hd e P s1 t1 i _ _ arg snap m B _ _ _ hs1 hR1 hb1 hB hpX hltX hder2 g' hg'
              simp only [hd2]
              exact ⟨t2, rfl, hR2⟩
            · rename_i s2 it2 hder2
              obtain ⟨t2, its2, hd2, hR2, hp2, hpp2⟩ :=
                hd e P s1 t1 i _ _ arg snap m B _ _ _ hs1 hR1 hb1 hB hpX hltX hder2 g' hg'
              obtain ⟨hs2, hb2⟩ := deref_blk hs1 hb1 hB hpX hder2
              simp only [hd2]
              rw [show r + it1.buf + its2.buf = r + it1.buf + it2.buf by rw [hp2.buf]]
              exact advance_simE f ha hs2 hR2 hb2 hB hp2 (by omega) arg mode k _ h g' hg'
          · rename_i hm2
            rw [if_neg hm2]
            exact advance_simE f ha hs1 hR1 hb1 hB hpX hltX arg mode k _ h g' hg'

/-! ## `revLoop` -/

theorem rev_simE0 : RevE 0 := by
  intro e P s t i itm its first m arg r snap B s' o v _ _ _ _ _ _ h
  simp [Model.revLoop] at h

theorem rev_simE (f : Nat) (hd : DerefE f) (hr : RevE f) : RevE (f+1) := by
  intro e P s t i itm its first m arg r snap B s' o v hs hR hb hB hfirst hp h g hg
  obtain ⟨g', rfl⟩ : ∃ g', g = g'+1 := ⟨g-1, by omega⟩
  have hg' : f ≤ g' := by omega
  have hnd := blk_nodup hs hb hB
  have hiff := hp.at_first hnd hfirst
  rw [Model.revLoop] at h
  rw [Spec.revLoop]
  split at h
  · rename_i hpf
    simp at h; obtain ⟨rfl, rfl, rfl⟩ := h
    rw [if_pos (hiff.mp hpf)]
    exact ⟨t, rfl, hR⟩
  · rename_i hpf
    have hne : its.pos ≠ 0 := mt hiff.mpr hpf
    rw [if_neg hne]
    obtain ⟨im, prv, him, hpred, hp'⟩ := hp.pred hs hb hB hne
    rw [him] at h
    simp only [hpred] at h
    have hlt' : its.pos - 1 < snap.length := by have := hp.le; omega
    split at h
    · contradiction
    · rename_i s1 it1 hder
      simp at h; obtain ⟨rfl, rfl, rfl⟩ := h
      obtain ⟨t1, its1, hd1, hR1, _, _⟩ := hd e P s t i _ _ arg snap m B _ _ _ hs hR hb hB hp' hlt' hder g' hg'
      simp only [hd1]
      exact ⟨t1, rfl, hR1⟩
    · rename_i s1 it1 hder
      obtain ⟨t1, its1, hd1, hR1, hp1, _⟩ := hd e P s t i _ _ arg snap m B _ _ _ hs hR hb hB hp' hlt' hder g' hg'
      obtain ⟨hs1, hb1⟩ := deref_blk hs hb hB hp' hder
      simp only [hd1, hp1.buf]
      exact hr e P s1 t1 i it1 its1 first m arg _ snap B s' o v hs1 hR1 hb1 hB hfirst hp1 h g' hg'

/-! ## `walkLoop` -/

theorem walk_simE0 : WalkE 0 := by
  intro e P s t i itm its first m arg ops r snap B s' o v _ _ _ _ _ _ h
  simp [Model.walkLoop] at h

theorem walk_simE (f : Nat) (hd : DerefE f) (hw : WalkE f) : WalkE (f+1) := by
  intro e P s t i itm its first m arg ops r snap B s' o v hs hR hb hB hfirst hp h g hg
  obtain ⟨g', rfl⟩ : ∃ g', g = g'+1 := ⟨g-1, by omega⟩
  have hg' : f ≤ g' := by omega
  have hnd := blk_nodup hs hb hB
  have hend := hp.at_end hnd
  have hiff := hp.at_first hnd hfirst
  cases ops with
  | nil =>
    rw [Model.walkLoop] at h
    rw [Spec.walkLoop]
    simp at h; obtain ⟨rfl, rfl, rfl⟩ := h
    exact ⟨t, rfl, hR⟩
  | cons c cs =>
    rw [Model.walkLoop] at h
    rw [Spec.walkLoop]
    split at h
    · -- 'd'
      rename_i hc
      rw [if_pos hc]
      split at h
      · rename_i hpm
        rw [if_pos (hend.mp hpm)]
        exact hw e P s t i itm its first m arg cs r snap B s' o v hs hR hb hB hfirst hp h g' hg'
      · rename_i hpm
        have hlt : its.pos < snap.length := by have := mt hend.mpr hpm; omega
        rw [if_neg (by omega)]
        split at h
        · contradiction
        · rename_i s1 it1 hder
          simp at h; obtain ⟨rfl, rfl, rfl⟩ := h
          obtain ⟨t1, its1, hd1, hR1, _, _⟩ := hd e P s t i itm its arg snap m B _ _ _ hs hR hb hB hp hlt hder g' hg'
          simp only [hd1]
          exact ⟨t1, rfl, hR1⟩
        · rename_i s1 it1 hder
          obtain ⟨t1, its1, hd1, hR1, hp1, _⟩ := hd e P s t i itm its arg snap m B _ _ _ hs hR hb hB hp hlt hder g' hg'
          obtain ⟨hs1, hb1⟩ := deref_blk hs hb hB hp hder
          simp only [hd1, hp1.buf]
          exact hw e P s1 t1 i it1 its1 first m arg cs _ snap B s' o v hs1 hR1 hb1 hB hfirst hp1 h g' hg'
    · rename_i hc
      rw [if_neg hc]
      split at h
      · -- 'c'
        rename_i hc2
        rw [if_pos hc2]
        split at h
        · rename_i hpm
          rw [if_pos (hend.mp hpm)]
          exact hw e P s t i itm its first m arg cs r snap B s' o v hs hR hb hB hfirst hp h g' hg'
        · rename_i hpm
          have hlt : its.pos < snap.length := by have := mt hend.mpr hpm; omega
          rw [if_neg (by omega)]
          split at h
          · contradiction
          · rename_i s1 it1 hder
            simp at h; obtain ⟨rfl, rfl, rfl⟩ := h
            obtain ⟨t1, its1, hd1, hR1, _, _⟩ := hd e P s t i itm its arg snap m B _ _ _ hs hR hb hB hp hlt hder g' hg'
            simp only [hd1]
            exact ⟨t1, rfl, hR1⟩
          · rename_i s1 it1 hder
            obtain ⟨t1, its1, hd1, hR1, hp1, _⟩ := hd e P s t i itm its arg snap m B _ _ _ hs hR hb hB hp hlt hder g' hg'
            obtain ⟨hs1, hb1⟩ := deref_blk hs hb hB hp hder
            simp only [hd1, hp1.buf]
            exact hw e P s1 t1 i itm its first m arg cs _ snap B s' o v hs1 hR1 hb1 hB hfirst hp h g' hg'
      · rename_i hc2
        rw [if_neg hc2]
        split at h
        · -- 'i'
          rename_i hc3
          rw [if_pos hc3]
          split at h
          · rename_i hpm
            rw [if_pos (hend.mp hpm)]
            exact hw e P s t i itm its first m arg cs r snap B s' o v hs hR hb hB hfirst hp h g' hg'
          · rename_i hpm
            have hlt : its.pos < snap.length := by have := mt hend.mpr hpm; omega
            rw [if_neg (by omega)]
            obtain ⟨im, nxt, him, hsucc, hp'⟩ := hp.succ hs hb hB hlt
            rw [him] at h
            simp only [hsucc] at h
            exact hw e P s t i _ _ first m arg cs r snap B s' o v hs hR hb hB hfirst hp' h g' hg'
        · rename_i hc3
          rw [if_neg hc3]
          split at h
          · -- 'x'
            rename_i hc4
            rw [if_pos hc4]
            split at h
            · rename_i hpf
              rw [if_pos (hiff.mp hpf)]
              exact hw e P s t i itm its first m arg cs r snap B s' o v hs hR hb hB hfirst hp h g' hg'
            · rename_i hpf
              have hne : its.pos ≠ 0 := mt hiff.mpr hpf
              rw [if_neg hne]
              obtain ⟨im, prv, him, hpred, hp'⟩ := hp.pred hs hb hB hne
              rw [him] at h
              simp only [hpred] at h
              exact hw e P s t i _ _ first m arg cs r snap B s' o v hs hR hb hB hfirst hp' h g' hg'
          · rename_i hc4
            rw [if_neg hc4]
            exact hw e P s t i itm its first m arg cs r snap B s' o v hs hR hb hB hfirst hp h g' hg'

/-! ## `runStrat` -/

theorem strat_simE0 : StratE 0 := by
  intro e P s t i first m arg strat snap B s' o v _ _ _ _ _ h
  simp [Model.runStrat] at h

theorem strat_simE (f : Nat) (ha : AccE f) (hr : RevE f) (hw : WalkE f) : StratE (f+1) := by
  intro e P s t i first m arg strat snap B s' o v hs hR hb hB hfirst h g hg
  obtain ⟨g', rfl⟩ : ∃ g', g = g'+1 := ⟨g-1, by omega⟩
  have hg' : f ≤ g' := by omega
  have hp0 : PosR snap m { pos := first } { pos := 0 } := ⟨hfirst, rfl, rfl⟩
  have hpm : PosR snap m { pos := m } { pos := snap.length } := ⟨by simp, rfl, rfl⟩
  cases strat <;> rw [Model.runStrat] at h <;> rw [Spec.runStrat]
  case sum => exact ha e P s t i _ _ m arg 0 0 0 snap B s' o v hs hR hb hB hp0 h g' hg'
  case stop k => exact ha e P s t i _ _ m arg 1 k 0 snap B s' o v hs hR hb hB hp0 h g' hg'
  case twice => exact ha e P s t i _ _ m arg 2 0 0 snap B s' o v hs hR hb hB hp0 h g' hg'
  case never => exact ha e P s t i _ _ m arg 3 0 0 snap B s' o v hs hR hb hB hp0 h g' hg'
  case postinc => exact ha e P s t i _ _ m arg 4 0 0 snap B s' o v hs hR hb hB hp0 h g' hg'
  case rev => exact hr e P s t i _ _ first m arg 0 snap B s' o v hs hR hb hB hfirst hpm h g' hg'
  case walk ops => exact hw e P s t i _ _ first m arg ops 0 snap B s' o v hs hR hb hB hfirst hp0 h g' hg'

end Sigc.Refine
