import Sigc.Lemmas.EmitStepA
/-!
# Emit work package — `stepSimple` preserves `Inv` and is a `Frame` step, part B: slot variables.
-/
namespace Sigc.Emit
open Sigc.Model

theorem SlotOK.of_rep {G} {sl sl' : SlotB} (h : SlotOK G sl) (e : sl'.rep = sl.rep) : SlotOK G sl' := by
  intro r fn h1 h2; rw [e] at h1; exact h r fn h1 h2

theorem SlotOK.mk_valid {G} {fn : Fun} (h : FunOK G fn) (b : Bool) :
    SlotOK G { blocked := b, rep := some { call := true, fn := some fn } } := by
  intro r f h1 h2
  simp at h1; subst h1; simp at h2; subst h2; exact h

theorem step_mkS {s s' : St} {r : String} (i : Nat) (ty : String) (spec : FSpec) (h : Inv s)
    (hs : stepSimple s (.mkS i ty spec) = some (s', r)) : Good0 s s' := by
  simp only [stepSimple] at hs
  split at hs
  · core_branch h hs
  · rename_i hnone
    split at hs
    · core_branch h hs
    · split at hs
      · core_branch h hs
      · rename_i fn s1 hm
        obtain ⟨hg, hf, hS⟩ := mkFun_good h hm
        simp at hs; obtain ⟨h1, h2⟩ := hs; subst h1; subst h2
        refine hg.trans (Good.setS hg.inv _ _ (SlotOK.mk_valid hf _) ?_)
        rw [incallOf_of_none (by rw [hS]; exact hnone)]

theorem step_mkS0 {s s' : St} {r : String} (i : Nat) (ty : String) (h : Inv s)
    (hs : stepSimple s (.mkS0 i ty) = some (s', r)) : Good0 s s' := by
  simp only [stepSimple] at hs
  split at hs
  · core_branch h hs
  · rename_i hnone
    split at hs
    · core_branch h hs
    · simp at hs; obtain ⟨h1, h2⟩ := hs; subst h1; subst h2
      refine Good.setS h _ _ (SlotOK.none _) ?_
      rw [incallOf_of_none hnone]

theorem step_cpS {s s' : St} {r : String} (j i : Nat) (h : Inv s)
    (hs : stepSimple s (.cpS j i) = some (s', r)) : Good0 s s' := by
  simp only [stepSimple] at hs
  split at hs
  · core_branch h hs
  · rename_i v hv
    split at hs
    · core_branch h hs
    · rename_i hnone
      simp at hs; obtain ⟨h1, h2⟩ := hs; subst h1; subst h2
      refine Good.setS h _ _ (h.fwdS i v hv).copy ?_
      rw [incallOf_of_none hnone]

theorem step_mvS {s s' : St} {r : String} (j i : Nat) (h : Inv s)
    (hs : stepSimple s (.mvS j i) = some (s', r)) : Good0 s s' := by
  simp only [stepSimple] at hs
  split at hs
  · core_branch h hs
  · rename_i v hv
    split at hs
    · core_branch h hs
    · rename_i hnone
      split at hs
      · core_branch h hs
      · rename_i hbusy
        simp at hs; obtain ⟨h1, h2⟩ := hs; subst h1; subst h2
        have g1 : Good0 s { s with S := aset s.S i { v with slot := v.slot.move.2 } } :=
          Good.setS h _ _ (h.fwdS i v hv).move2 (by rw [incallOf_of_aget hv])
        refine g1.trans ?_
        refine Good.setS g1.inv j _ (h.fwdS i v hv).move1 ?_
        rw [incallOf_aset]
        split
        · rename_i e; simp at hbusy ⊢; omega
        · rw [incallOf_of_none hnone]

theorem step_delS {s s' : St} {r : String} (i : Nat) (h : Inv s)
    (hs : stepSimple s (.delS i) = some (s', r)) : Good0 s s' := by
  simp only [stepSimple] at hs
  split at hs
  · core_branch h hs
  · rename_i v hv
    split at hs
    · core_branch h hs
    · rename_i hbusy
      simp at hs; obtain ⟨h1, h2⟩ := hs; subst h1; subst h2
      apply Good.delS h
      rw [incallOf_of_aget hv]; omega

theorem step_discS {s s' : St} {r : String} (i : Nat) (h : Inv s)
    (hs : stepSimple s (.discS i) = some (s', r)) : Good0 s s' := by
  simp only [stepSimple] at hs
  split at hs
  · core_branch h hs
  · rename_i v hv
    simp at hs; obtain ⟨h1, h2⟩ := hs; subst h1; subst h2
    exact Good.setS h _ _ (h.fwdS i v hv).disconnectRep (by rw [incallOf_of_aget hv])

theorem step_blockS {s s' : St} {r : String} (i : Nat) (b : Bool) (h : Inv s)
    (hs : stepSimple s (.blockS i b) = some (s', r)) : Good0 s s' := by
  simp only [stepSimple] at hs
  split at hs
  · core_branch h hs
  · rename_i v hv
    simp at hs; obtain ⟨h1, h2⟩ := hs; subst h1; subst h2
    exact Good.setS h _ _ ((h.fwdS i v hv).setBlocked b) (by rw [incallOf_of_aget hv])

theorem step_setS {s s' : St} {r : String} (i : Nat) (spec : FSpec) (h : Inv s)
    (hs : stepSimple s (.setS i spec) = some (s', r)) : Good0 s s' := by
  simp only [stepSimple] at hs
  split at hs
  · core_branch h hs
  · rename_i d hd
    split at hs
    · core_branch h hs
    · split at hs
      · core_branch h hs
      · rename_i fn s1 hm
        obtain ⟨hg, hf, hS⟩ := mkFun_good h hm
        simp at hs; obtain ⟨h1, h2⟩ := hs; subst h1; subst h2
        refine hg.trans (Good.setS hg.inv _ _ (SlotOK.mk_valid hf _) ?_)
        rw [incallOf_of_aget (by rw [hS]; exact hd)]


theorem step_asgS {s s' : St} {r : String} (j i : Nat) (h : Inv s)
    (hs : stepSimple s (.asgS j i) = some (s', r)) : Good0 s s' := by
  simp only [stepSimple] at hs
  split at hs
  · rename_i d v hd hv
    split at hs
    · core_branch h hs
    · split at hs
      · core_branch h hs
      · simp at hs; obtain ⟨h1, h2⟩ := hs; subst h1; subst h2
        refine Good.setS h _ _ ?_ (by rw [incallOf_of_aget hd])
        simp only
        split
        · exact (h.fwdS j d hd).setBlocked _
        · split
          · exact SlotOK.none _
          · exact (h.fwdS i v hv).copy.of_rep rfl
  · core_branch h hs

theorem step_masgS {s s' : St} {r : String} (j i : Nat) (h : Inv s)
    (hs : stepSimple s (.masgS j i) = some (s', r)) : Good0 s s' := by
  simp only [stepSimple] at hs
  split at hs
  · rename_i d v hd hv
    split at hs
    · core_branch h hs
    · split at hs
      · core_branch h hs
      · rename_i hbusy
        simp at hbusy
        split at hs
        · simp at hs; obtain ⟨h1, h2⟩ := hs; subst h1; subst h2
          exact Good.setS h _ _ ((h.fwdS j d hd).setBlocked _) (by rw [incallOf_of_aget hd])
        · split at hs
          · simp at hs; obtain ⟨h1, h2⟩ := hs; subst h1; subst h2
            exact Good.setS h _ _ (SlotOK.none _) (by rw [incallOf_of_aget hd])
          · simp at hs; obtain ⟨h1, h2⟩ := hs; subst h1; subst h2
            have g1 : Good0 s { s with S := aset s.S i { v with slot := { blocked := false, rep := none } } } :=
              Good.setS h _ _ (SlotOK.none _) (by rw [incallOf_of_aget hv])
            refine g1.trans ?_
            refine Good.setS g1.inv j _ ((h.fwdS i v hv).of_rep rfl) ?_
            rw [incallOf_aset, incallOf_of_aget hd]
            by_cases e : j = i <;> simp [e, hbusy.1, hbusy.2]
  · core_branch h hs

end Sigc.Emit
