import Sigc.Model
import Sigc.Lemmas.Basic
/-!
helper definitions and lemmas for the per-operation theorems of C15 (slots are values) and C12
(blocking): association-list sums under `aset`, `liveCount` under an update of one slot variable,
the frame predicate `SlotFrame`, the slot-value algebra of `SlotB`, cell lookup (`getCell`, `updCell`).
-/
namespace Sigc.StepSlots
open Sigc.Model

variable {α : Type}

/-! ## association lists -/

/-- overwriting a key with the value it already has changes nothing -/
theorem aset_self (l : List (Nat × α)) (k : Nat) (v : α) (h : aget l k = some v) : aset l k v = l := by
  induction l with
  | nil => simp [aget] at h
  | cons p t ih =>
    obtain ⟨k', v'⟩ := p
    by_cases hk : k' = k
    · subst hk
      simp [aget] at h
      simp [aset, h]
    · simp [aget, hk] at h
      simp [aset, hk, ih h]

/-- first-match semantics: replacing the value of key `k` changes a sum over the values by exactly
    the difference at that entry (also with duplicate keys) -/
theorem sum_aset (l : List (Nat × α)) (k : Nat) (v v' : α) (g : α → Nat) (h : aget l k = some v) :
    ((aset l k v').map (fun p => g p.2)).sum + g v = (l.map (fun p => g p.2)).sum + g v' := by
  induction l with
  | nil => simp [aget] at h
  | cons p t ih =>
    obtain ⟨k', w⟩ := p
    by_cases hk : k' = k
    · subst hk
      simp [aget] at h
      subst h
      simp [aset]
      omega
    · simp [aget, hk] at h
      have := ih h
      simp [aset, hk]
      omega

theorem sum_aset_new (l : List (Nat × α)) (k : Nat) (v' : α) (g : α → Nat) (h : aget l k = none) :
    ((aset l k v').map (fun p => g p.2)).sum = (l.map (fun p => g p.2)).sum + g v' := by
  induction l with
  | nil => simp [aset]
  | cons p t ih =>
    obtain ⟨k', w⟩ := p
    by_cases hk : k' = k
    · subst hk
      simp [aget] at h
    · simp [aget, hk] at h
      have := ih h
      simp [aset, hk]
      omega

/-- deleting a key removes at least the first entry with that key -/
theorem sum_adel_le (l : List (Nat × α)) (k : Nat) (v : α) (g : α → Nat) (h : aget l k = some v) :
    ((adel l k).map (fun p => g p.2)).sum + g v ≤ (l.map (fun p => g p.2)).sum := by
  have hle : ∀ t : List (Nat × α), ((adel t k).map (fun p => g p.2)).sum ≤ (t.map (fun p => g p.2)).sum := by
    intro t
    induction t with
    | nil => simp [adel]
    | cons p t ih =>
      rw [adel_cons]
      by_cases hk : p.1 = k
      · simp [hk]; omega
      · simp [hk]; omega
  induction l with
  | nil => simp [aget] at h
  | cons p t ih =>
    obtain ⟨k', w⟩ := p
    rw [adel_cons]
    by_cases hk : k' = k
    · subst hk
      simp [aget] at h
      subst h
      have := hle t
      simp
      omega
    · simp [aget, hk] at h
      have := ih h
      simp [hk]
      omega

/-! ## the frame of an operation on one slot variable -/

/-- `s'` differs from `s` at most in the slot variable `j` (every other component of the state —
    trackables, handles, connections, impls, counters, trace, error — is the same) -/
def SlotFrame (j : Nat) (s s' : St) : Prop :=
  ∃ S', s' = { s with S := S' } ∧ ∀ k, k ≠ j → aget S' k = aget s.S k

theorem SlotFrame.refl (j : Nat) (s : St) : SlotFrame j s s := ⟨s.S, rfl, fun _ _ => rfl⟩

theorem slotFrame_aset (j : Nat) (s : St) (x : SlotVar) : SlotFrame j s { s with S := aset s.S j x } :=
  ⟨_, rfl, fun _ hk => aget_aset_other _ _ _ _ hk⟩

theorem slotFrame_adel (j : Nat) (s : St) : SlotFrame j s { s with S := adel s.S j } :=
  ⟨_, rfl, fun _ hk => aget_adel_other _ _ _ hk⟩

/-- `s'` differs from `s` at most in the slot variables `j` and `i` -/
def SlotFrame2 (j i : Nat) (s s' : St) : Prop :=
  ∃ S', s' = { s with S := S' } ∧ ∀ k, k ≠ j → k ≠ i → aget S' k = aget s.S k

theorem SlotFrame.to2 {j : Nat} (i : Nat) {s s' : St} (h : SlotFrame j s s') : SlotFrame2 j i s s' := by
  obtain ⟨S', h1, h2⟩ := h
  exact ⟨S', h1, fun k hk _ => h2 k hk⟩

theorem slotFrame2_aset2 (j i : Nat) (s : St) (x y : SlotVar) :
    SlotFrame2 j i s { s with S := aset (aset s.S i y) j x } :=
  ⟨_, rfl, fun k hk hk' => by rw [aget_aset_other _ _ _ _ hk, aget_aset_other _ _ _ _ hk']⟩

/-- what a `SlotFrame2` (hence a `SlotFrame`) leaves unchanged, component by component -/
theorem SlotFrame2.components {j i : Nat} {s s' : St} (h : SlotFrame2 j i s s') :
    s'.T = s.T ∧ s'.G = s.G ∧ s'.C = s.C ∧ s'.K = s.K ∧ s'.impls = s.impls ∧ s'.next = s.next ∧
    s'.err = s.err ∧ s'.trace = s.trace ∧ ∀ k, k ≠ j → k ≠ i → aget s'.S k = aget s.S k := by
  obtain ⟨S', rfl, h2⟩ := h
  exact ⟨rfl, rfl, rfl, rfl, rfl, rfl, rfl, rfl, h2⟩

theorem SlotFrame.components {j : Nat} {s s' : St} (h : SlotFrame j s s') :
    s'.T = s.T ∧ s'.G = s.G ∧ s'.C = s.C ∧ s'.K = s.K ∧ s'.impls = s.impls ∧ s'.next = s.next ∧
    s'.err = s.err ∧ s'.trace = s.trace ∧ ∀ k, k ≠ j → aget s'.S k = aget s.S k := by
  obtain ⟨S', rfl, h2⟩ := h
  exact ⟨rfl, rfl, rfl, rfl, rfl, rfl, rfl, rfl, h2⟩

/-! ## live functor copies -/

theorem liveCount_aset (s : St) (j : Nat) (d x : SlotVar) (fid : Nat) (hd : aget s.S j = some d) :
    liveCount { s with S := aset s.S j x } fid + d.slot.live fid = liveCount s fid + x.slot.live fid := by
  have := sum_aset s.S j d x (fun v => v.slot.live fid) hd
  simp only [liveCount]
  omega

theorem liveCount_aset_new (s : St) (j : Nat) (x : SlotVar) (fid : Nat) (hd : aget s.S j = none) :
    liveCount { s with S := aset s.S j x } fid = liveCount s fid + x.slot.live fid := by
  have := sum_aset_new s.S j x (fun v => v.slot.live fid) hd
  simp only [liveCount]
  omega

theorem liveCount_adel_le (s : St) (j : Nat) (d : SlotVar) (fid : Nat) (hd : aget s.S j = some d) :
    liveCount { s with S := adel s.S j } fid + d.slot.live fid ≤ liveCount s fid := by
  have := sum_adel_le s.S j d (fun v => v.slot.live fid) hd
  simp only [liveCount]
  omega

/-- `liveCount` depends only on `S` and `impls` -/
theorem liveCount_congr (s s' : St) (fid : Nat) (hS : s'.S = s.S) (hI : s'.impls = s.impls) :
    liveCount s' fid = liveCount s fid := by
  simp only [liveCount, hS, hI]

/-! ## slot values -/

/-- the normalisation `signal_impl::insert` applies (`set_parent` creates the dummy rep) -/
def withDummy (sl : SlotB) : SlotB :=
  match sl.rep with
  | none => { sl with rep := some { call := false, fn := none } }
  | some _ => sl

theorem withDummy_blocked (sl : SlotB) : (withDummy sl).blocked = sl.blocked := by
  unfold withDummy; split <;> rfl

theorem withDummy_empty (sl : SlotB) : (withDummy sl).empty = sl.empty := by
  unfold withDummy; split <;> simp_all [SlotB.empty]

theorem withDummy_live (sl : SlotB) (fid : Nat) : (withDummy sl).live fid = sl.live fid := by
  unfold withDummy; split <;> simp_all [SlotB.live]

theorem withDummy_of_rep (sl : SlotB) (r : Rep) (h : sl.rep = some r) : withDummy sl = sl := by
  unfold withDummy; simp [h]

theorem withDummy_rep_isSome (sl : SlotB) : (withDummy sl).rep.isSome = true := by
  unfold withDummy; split <;> simp_all

theorem live_of_rep_none (sl : SlotB) (fid : Nat) (h : sl.rep = none) : sl.live fid = 0 := by
  simp [SlotB.live, h]

theorem copy_live (sl : SlotB) (fid : Nat) :
    sl.copy.live fid = if sl.empty then 0 else sl.live fid := by
  unfold SlotB.copy SlotB.empty
  cases hr : sl.rep with
  | none => simp [SlotB.live]
  | some r =>
    obtain ⟨c, fn⟩ := r
    cases c <;> cases fn <;> simp [SlotB.live, hr]

theorem copy_rep_live (sl : SlotB) (b : Bool) (fid : Nat) :
    ({ blocked := b, rep := sl.copy.rep } : SlotB).live fid = if sl.empty then 0 else sl.live fid := by
  rw [← copy_live]
  rfl

theorem move_live (sl : SlotB) (fid : Nat) : sl.move.1.live fid = sl.live fid ∧ sl.move.2.live fid = 0 := by
  unfold SlotB.move
  cases hr : sl.rep with
  | none => simp [SlotB.live, hr]
  | some r => simp [SlotB.live, hr]

/-! ## what each slot operation computes when its guards pass (bridges to `stepSimple`) -/

/-- the taint of an assigned-to variable (recursion guard of the op language, not part of C15) -/
def maxTaint (a b : Int) : Int := if a < b then b else a

theorem maxTaint_self (a : Int) : maxTaint a a = a := by simp [maxTaint]

/-- `slot_base::operator=(const slot_base&)` as executed by `asgS j i` -/
def asgSlot (j i : Nat) (d v : SlotB) : SlotB :=
  if j = i || (d.rep.isNone && v.rep.isNone) then { d with blocked := v.blocked }
  else if v.empty then { d with rep := none }
  else { blocked := v.blocked, rep := v.copy.rep }

theorem asgS_eq (s : St) (j i : Nat) (d v : SlotVar)
    (hd : aget s.S j = some d) (hv : aget s.S i = some v)
    (hty : d.isVoid = v.isVoid) (hin : d.incall = 0) :
    stepSimple s (.asgS j i) =
      some ({ s with S := aset s.S j { d with slot := asgSlot j i d.slot v.slot, taint := maxTaint d.taint v.taint } }, "ok") := by
  have h1 : (d.isVoid != v.isVoid) = false := by simp [hty]
  have h2 : ¬ d.incall > 0 := by omega
  simp only [stepSimple, hd, hv, h1, h2]
  rfl

theorem asgS_badtype (s : St) (j i : Nat) (d v : SlotVar)
    (hd : aget s.S j = some d) (hv : aget s.S i = some v) (hty : d.isVoid ≠ v.isVoid) :
    stepSimple s (.asgS j i) = some (s, "badtype") := by
  have h1 : (d.isVoid != v.isVoid) = true := by simp [hty]
  simp only [stepSimple, hd, hv, h1]
  rfl

theorem asgS_busy (s : St) (j i : Nat) (d v : SlotVar)
    (hd : aget s.S j = some d) (hv : aget s.S i = some v) (hty : d.isVoid = v.isVoid) (hin : d.incall > 0) :
    stepSimple s (.asgS j i) = some (s, "busy") := by
  have h1 : (d.isVoid != v.isVoid) = false := by simp [hty]
  simp only [stepSimple, hd, hv, h1, hin]
  rfl

/-- `slot_base::operator=(slot_base&&)` as executed by `masgS j i`: the same-rep and the empty-source branch -/
theorem masgS_eq_same (s : St) (j i : Nat) (d v : SlotVar)
    (hd : aget s.S j = some d) (hv : aget s.S i = some v)
    (hty : d.isVoid = v.isVoid) (hin : d.incall = 0) (hin' : v.incall = 0)
    (hs : (j = i || (d.slot.rep.isNone && v.slot.rep.isNone)) = true) :
    stepSimple s (.masgS j i) =
      some ({ s with S := aset s.S j { d with slot := { d.slot with blocked := v.slot.blocked },
                                              taint := maxTaint d.taint v.taint } }, "ok") := by
  have h1 : (d.isVoid != v.isVoid) = false := by simp [hty]
  have h2 : ¬ (d.incall > 0 ∨ v.incall > 0) := by omega
  have h2' : (decide (d.incall > 0) || decide (v.incall > 0)) = false := by simp; omega
  simp only [stepSimple, hd, hv, h1, h2', hs]
  rfl

theorem masgS_eq_empty (s : St) (j i : Nat) (d v : SlotVar)
    (hd : aget s.S j = some d) (hv : aget s.S i = some v)
    (hty : d.isVoid = v.isVoid) (hin : d.incall = 0) (hin' : v.incall = 0)
    (hs : (j = i || (d.slot.rep.isNone && v.slot.rep.isNone)) = false) (he : v.slot.empty = true) :
    stepSimple s (.masgS j i) =
      some ({ s with S := aset s.S j { d with slot := { d.slot with rep := none },
                                              taint := maxTaint d.taint v.taint } }, "ok") := by
  have h1 : (d.isVoid != v.isVoid) = false := by simp [hty]
  have h2' : (decide (d.incall > 0) || decide (v.incall > 0)) = false := by simp; omega
  simp only [stepSimple, hd, hv, h1, h2', hs, he]
  rfl

theorem masgS_eq_valid (s : St) (j i : Nat) (d v : SlotVar)
    (hd : aget s.S j = some d) (hv : aget s.S i = some v)
    (hty : d.isVoid = v.isVoid) (hin : d.incall = 0) (hin' : v.incall = 0)
    (hs : (j = i || (d.slot.rep.isNone && v.slot.rep.isNone)) = false) (he : v.slot.empty = false) :
    stepSimple s (.masgS j i) =
      some ({ s with S := aset (aset s.S i { v with slot := { blocked := false, rep := none } }) j
                          { d with slot := { blocked := v.slot.blocked, rep := v.slot.rep },
                                   taint := maxTaint d.taint v.taint } }, "ok") := by
  have h1 : (d.isVoid != v.isVoid) = false := by simp [hty]
  have h2' : (decide (d.incall > 0) || decide (v.incall > 0)) = false := by simp; omega
  simp only [stepSimple, hd, hv, h1, h2', hs, he]
  rfl

theorem masgS_busy (s : St) (j i : Nat) (d v : SlotVar)
    (hd : aget s.S j = some d) (hv : aget s.S i = some v) (hty : d.isVoid = v.isVoid)
    (hin : d.incall > 0 ∨ v.incall > 0) :
    stepSimple s (.masgS j i) = some (s, "busy") := by
  have h1 : (d.isVoid != v.isVoid) = false := by simp [hty]
  have h2' : (decide (d.incall > 0) || decide (v.incall > 0)) = true := by simpa using hin
  simp only [stepSimple, hd, hv, h1, h2']
  rfl

/-! `mkFun` never touches a slot variable, a connection or a cell -/

/-- what building a functor leaves unchanged whatever the spec -/
def MkFrame (s s' : St) : Prop :=
  s'.S = s.S ∧ s'.C = s.C ∧ s'.impls = s.impls ∧ s'.depth = s.depth ∧ s'.steps = s.steps ∧
  s'.trace = s.trace ∧ s'.err = s.err

theorem MkFrame.refl (s : St) : MkFrame s s := ⟨rfl, rfl, rfl, rfl, rfl, rfl, rfl⟩

/-- functor specs whose construction has no side effect on the state: everything but `make_slot()` of a
    signal (marks the signal object) and the owning functors (take over a trackable / scoped connection /
    signal object) -/
def plainSpec : FSpec → Bool
  | .fwd _ | .ownT _ _ | .ownK _ _ | .ownG _ _ => false
  | _ => true

def ownSpec : FSpec → Bool
  | .ownT _ _ | .ownK _ _ | .ownG _ _ => true
  | _ => false

theorem mkFun_ok (s s0 : St) (b : Bool) (spec : FSpec) (fn : Fun) (h : mkFun s b spec = .ok (fn, s0)) :
    MkFrame s s0 ∧ (plainSpec spec = true → s0 = s) ∧
    (ownSpec spec = false → s0.T = s.T ∧ s0.K = s.K ∧ s0.next = s.next) ∧
    ((∀ g, spec ≠ .fwd g) → s0.G = s.G) := by
  cases spec with
  | fn fid =>
    simp [mkFun] at h; obtain ⟨_, rfl⟩ := h
    exact ⟨MkFrame.refl _, fun _ => rfl, fun _ => ⟨rfl, rfl, rfl⟩, fun _ => rfl⟩
  | mem fid t =>
    simp only [mkFun] at h
    split at h
    · cases h
    · simp at h; obtain ⟨_, rfl⟩ := h
      exact ⟨MkFrame.refl _, fun _ => rfl, fun _ => ⟨rfl, rfl, rfl⟩, fun _ => rfl⟩
  | bref fid t =>
    simp only [mkFun] at h
    split at h
    · cases h
    · simp at h; obtain ⟨_, rfl⟩ := h
      exact ⟨MkFrame.refl _, fun _ => rfl, fun _ => ⟨rfl, rfl, rfl⟩, fun _ => rfl⟩
  | trk fid t1 t2 =>
    simp only [mkFun] at h
    split at h
    · cases h
    · split at h
      · simp at h; obtain ⟨_, rfl⟩ := h
        exact ⟨MkFrame.refl _, fun _ => rfl, fun _ => ⟨rfl, rfl, rfl⟩, fun _ => rfl⟩
      · split at h
        · cases h
        · simp at h; obtain ⟨_, rfl⟩ := h
          exact ⟨MkFrame.refl _, fun _ => rfl, fun _ => ⟨rfl, rfl, rfl⟩, fun _ => rfl⟩
  | nest sv =>
    simp only [mkFun] at h
    split at h
    · cases h
    · split at h
      · cases h
      · simp at h; obtain ⟨_, rfl⟩ := h
        exact ⟨MkFrame.refl _, fun _ => rfl, fun _ => ⟨rfl, rfl, rfl⟩, fun _ => rfl⟩
  | fwd g =>
    simp only [mkFun] at h
    split at h
    · cases h
    · split at h
      · cases h
      · split at h
        · cases h
        · simp at h
          obtain ⟨_, rfl⟩ := h
          exact ⟨⟨rfl, rfl, rfl, rfl, rfl, rfl, rfl⟩, fun hp => by simp [plainSpec] at hp,
                 fun _ => ⟨rfl, rfl, rfl⟩, fun hn => absurd rfl (hn g)⟩
  | ownT fid t =>
    simp only [mkFun] at h
    split at h
    · cases h
    · simp at h
      obtain ⟨_, rfl⟩ := h
      exact ⟨⟨rfl, rfl, rfl, rfl, rfl, rfl, rfl⟩, fun hp => by simp [plainSpec] at hp,
             fun hp => by simp [ownSpec] at hp, fun _ => rfl⟩
  | ownK fid k =>
    simp only [mkFun] at h
    split at h
    · cases h
    · simp [St.fresh] at h
      obtain ⟨_, rfl⟩ := h
      exact ⟨⟨rfl, rfl, rfl, rfl, rfl, rfl, rfl⟩, fun hp => by simp [plainSpec] at hp,
             fun hp => by simp [ownSpec] at hp, fun _ => rfl⟩
  | ownG fid g =>
    simp only [mkFun] at h
    split at h
    · cases h
    · split at h
      · cases h
      · split at h
        · cases h
        · simp [St.fresh] at h
          obtain ⟨_, rfl⟩ := h
          exact ⟨⟨rfl, rfl, rfl, rfl, rfl, rfl, rfl⟩, fun hp => by simp [plainSpec] at hp,
                 fun hp => by simp [ownSpec] at hp, fun _ => rfl⟩
  | bad => simp [mkFun] at h

/-- the owning functor `ownG fid g`: only `ownedG` (one new entry, owner id = the old `next`) and `next` change;
    every other spec leaves `ownedG` alone -/
theorem mkFun_ok_ownG (s s0 : St) (b : Bool) (spec : FSpec) (fn : Fun) (h : mkFun s b spec = .ok (fn, s0)) :
    ((∀ fid g, spec ≠ .ownG fid g) → s0.ownedG = s.ownedG) ∧
    (∀ fid g, spec = .ownG fid g →
      s0 = { s with ownedG := (s.next, g) :: s.ownedG, next := s.next + 1 } ∧ fn = .owner fid [] [s.next] ∧
      (aget s.G g).isSome ∧ s.ownedG.any (fun p => p.2 = g) = false) := by
  cases spec <;> simp only [mkFun] at h
  all_goals (repeat' (split at h))
  all_goals (first | (cases h; done) | skip)
  all_goals (simp only [St.fresh, Except.ok.injEq, Prod.mk.injEq] at h; obtain ⟨rfl, rfl⟩ := h)
  all_goals (refine ⟨fun hn => ?_, fun fid' g' he => ?_⟩)
  all_goals (first | (cases he; done) | skip)
  all_goals (first | rfl | skip)
  · exact absurd rfl (hn _ _)
  · cases he
    refine ⟨rfl, rfl, ?_, ?_⟩
    · simp [*]
    · exact Bool.eq_false_iff.mpr ‹¬ _›

theorem mkS0_eq (s : St) (i : Nat) (ty : String) (hn : aget s.S i = none) (hty : ty = "I" ∨ ty = "V") :
    stepSimple s (.mkS0 i ty) = some ({ s with S := aset s.S i { isVoid := ty = "V", slot := {} } }, "ok") := by
  have h1 : (ty ≠ "I" && ty ≠ "V") = false := by rcases hty with rfl | rfl <;> decide
  simp only [stepSimple, hn, h1]
  rfl

theorem mkS_eq (s s0 : St) (i : Nat) (ty : String) (spec : FSpec) (fn : Fun)
    (hn : aget s.S i = none) (hty : ty = "I" ∨ ty = "V")
    (hf : mkFun s (ty = "V") spec = .ok (fn, s0)) :
    stepSimple s (.mkS i ty spec) =
      some ({ s0 with S := aset s0.S i { isVoid := ty = "V",
                                         slot := { blocked := false, rep := some { call := true, fn := some fn } },
                                         taint := specTaint s spec } }, "ok") := by
  have h1 : (ty ≠ "I" && ty ≠ "V") = false := by rcases hty with rfl | rfl <;> decide
  simp only [stepSimple, hn, h1, hf]
  rfl

theorem setS_eq (s s0 : St) (i : Nat) (d : SlotVar) (spec : FSpec) (fn : Fun)
    (hd : aget s.S i = some d) (hin : d.incall = 0) (hf : mkFun s d.isVoid spec = .ok (fn, s0)) :
    stepSimple s (.setS i spec) =
      some ({ s0 with S := aset s0.S i { d with slot := { blocked := false, rep := some { call := true, fn := some fn } },
                                                taint := maxTaint d.taint (specTaint s spec) } }, "ok") := by
  have h2 : ¬ d.incall > 0 := by omega
  simp only [stepSimple, hd, h2, hf]
  rfl

theorem cpS_eq (s : St) (j i : Nat) (v : SlotVar) (hv : aget s.S i = some v) (hn : aget s.S j = none) :
    stepSimple s (.cpS j i) =
      some ({ s with S := aset s.S j { isVoid := v.isVoid, slot := v.slot.copy, taint := v.taint } }, "ok") := by
  simp only [stepSimple, hv, hn]

theorem mvS_eq (s : St) (j i : Nat) (v : SlotVar) (hv : aget s.S i = some v) (hn : aget s.S j = none)
    (hin : v.incall = 0) :
    stepSimple s (.mvS j i) =
      some ({ s with S := aset (aset s.S i { v with slot := v.slot.move.2 }) j
                          { isVoid := v.isVoid, slot := v.slot.move.1, taint := v.taint } }, "ok") := by
  have h2 : ¬ v.incall > 0 := by omega
  simp only [stepSimple, hv, hn, h2]
  rfl

theorem delS_eq (s : St) (i : Nat) (v : SlotVar) (hv : aget s.S i = some v) (hin : v.incall = 0) :
    stepSimple s (.delS i) = some ({ s with S := adel s.S i }, "ok") := by
  have h2 : ¬ v.incall > 0 := by omega
  simp only [stepSimple, hv, h2]
  rfl

theorem discS_eq (s : St) (i : Nat) (v : SlotVar) (hv : aget s.S i = some v) :
    stepSimple s (.discS i) = some ({ s with S := aset s.S i { v with slot := v.slot.disconnectRep } }, "ok") := by
  simp only [stepSimple, hv]

theorem blockS_eq (s : St) (i : Nat) (b : Bool) (v : SlotVar) (hv : aget s.S i = some v) :
    stepSimple s (.blockS i b) =
      some ({ s with S := aset s.S i { v with slot := { v.slot with blocked := b } } }, bstr v.slot.blocked) := by
  simp only [stepSimple, hv]

end Sigc.StepSlots
