import Sigc.Lemmas.SpecKRel
/-!
# SpecK — entries leaving a list: `LSig.remove` in the two configurations (zombie positions vs immediate
removal with `limbo`), `removeCell`, `invalidateTrackable`.
-/
namespace Sigc.SpecK
open Sigc.Model Sigc.Spec

/-- what `LSig.remove` does to one entry while an emission runs (`k2`) -/
def zomb (d : Bool) (p : LCell → Bool) (c : LCell) : LCell :=
  if p c && !c.marker && !c.zombie then
    { c with zombie := true, slot := if d then c.slot.invalidate else c.slot.disconnectRep }
  else c

theorem zomb_id (d : Bool) (p : LCell → Bool) (c : LCell) : (zomb d p c).id = c.id := by
  unfold zomb; split <;> rfl

theorem zomb_marker (d : Bool) (p : LCell → Bool) (c : LCell) : (zomb d p c).marker = c.marker := by
  unfold zomb; split <;> rfl

theorem zomb_dead {d : Bool} {p : LCell → Bool} {c : LCell} (h : live c = false) : zomb d p c = c := by
  unfold zomb
  have : (p c && !c.marker && !c.zombie) = false := by
    unfold live at h
    cases p c <;> cases hm : c.marker <;> cases hz : c.zombie <;> simp_all
  simp [this]

theorem zomb_keep {d : Bool} {p : LCell → Bool} {c : LCell} (h : p c = false) : zomb d p c = c := by
  unfold zomb; simp [h]

theorem zomb_hit {d : Bool} {p : LCell → Bool} {c : LCell} (hl : live c = true) (h : p c = true) :
    zomb d p c = { c with zombie := true, slot := if d then c.slot.invalidate else c.slot.disconnectRep } := by
  unfold zomb
  unfold live at hl
  have : (p c && !c.marker && !c.zombie) = true := by
    cases hm : c.marker <;> cases hz : c.zombie <;> simp_all
  simp [this]

theorem zomb_live (d : Bool) (p : LCell → Bool) (c : LCell) : live (zomb d p c) = (live c && !p c) := by
  cases hl : live c
  · rw [zomb_dead hl, hl]; rfl
  · cases hpc : p c
    · rw [zomb_keep hpc, hl]; rfl
    · rw [zomb_hit hl hpc]; simp [live]

theorem filter_live_zomb (d : Bool) (p : LCell → Bool) (l : List LCell) :
    (l.map (zomb d p)).filter live = (l.filter live).filter (fun c => !p c) := by
  induction l with
  | nil => rfl
  | cons c t ih =>
    have e1 : (List.map (zomb d p) (c :: t)).filter live
        = (if (live c && !p c) = true then [zomb d p c] else []) ++ (t.map (zomb d p)).filter live := by
      rw [List.map_cons, List.filter_cons, zomb_live]; split <;> rfl
    have e2 : ((c :: t).filter live).filter (fun c => !p c)
        = (if (live c && !p c) = true then [c] else []) ++ (t.filter live).filter (fun c => !p c) := by
      rw [List.filter_cons]
      cases hl : live c
      · simp
      · cases hpc : p c <;> simp [List.filter_cons, hpc]
    rw [e1, e2, ih]
    congr 1
    split
    · rename_i hx
      have hpc : p c = false := by cases hp : p c <;> simp_all
      rw [zomb_keep hpc]
    · rfl

theorem empty_disconnectRep (s : SlotB) : s.disconnectRep.empty = true := by
  unfold SlotB.disconnectRep SlotB.empty
  cases h : s.rep <;> simp [h]

theorem empty_invalidate (s : SlotB) : s.invalidate.empty = true := by
  unfold SlotB.invalidate SlotB.empty
  cases h : s.rep <;> simp [h]

theorem fnOf_disconnectRep (s : SlotB) : SlotB.fnOf s.disconnectRep = SlotB.fnOf s := by
  unfold SlotB.disconnectRep SlotB.fnOf
  cases h : s.rep <;> simp [h]

theorem fnOf_invalidate (s : SlotB) : SlotB.fnOf s.invalidate = none := by
  unfold SlotB.invalidate SlotB.fnOf
  cases h : s.rep <;> simp [h]

theorem remove_known (g : LSig) (d : Bool) (p : LCell → Bool) :
    g.remove true true d p =
      { g with cells := if g.active > 0 then g.cells.map (zomb d p) else g.cells.filter (fun c => !(p c) || c.marker),
               dirty := g.dirty || (decide (g.active > 0) && g.cells.any (fun c => p c && !c.zombie && !c.marker)) } := by
  unfold LSig.remove zomb
  simp

theorem remove_pure (g : LSig) (d : Bool) (p : LCell → Bool) :
    g.remove false false d p =
      { g with cells := g.cells.filter (fun c => !(p c) || c.marker),
               limbo := if g.active > 0 ∧ d = false then
                          g.limbo ++ ((g.cells.filter (fun c => p c && !c.marker)).map (·.slot))
                        else g.limbo } := by
  unfold LSig.remove
  simp

/-- an entry leaves the list in both configurations -/
theorem remove_sim {ρ : IdRel} {n n' : Nat} (_hp : PB ρ n n') {g g' : LSig} (h : SigR ρ g g') (hi : SigInv n g)
    (d : Bool) (p p' : LCell → Bool)
    (hpp : ∀ c c', c ∈ g.cells → live c = true → CellR ρ c c' → p' c' = p c) :
    SigR ρ (g.remove true true d p) (g'.remove false false d p') ∧ SigInv n (g.remove true true d p)
      ∧ (g.remove true true d p).active = g.active
      ∧ ((g.remove true true d p).cells.filter (·.marker)).map (·.id) = (g.cells.filter (·.marker)).map (·.id) := by
  rw [remove_known, remove_pure]
  have hpp' : ∀ a b, a ∈ g.cells.filter live → b ∈ g'.cells → CellR ρ a b → p' b = p a := fun a b ha _ hr =>
    hpp a b (List.mem_filter.mp ha).1 (List.mem_filter.mp ha).2 hr
  by_cases ha : g.active = 0
  · -- no emission in progress: every entry is live, plain removal on both sides
    have hall := hi.idle ha
    have ha' : g'.active = 0 := by rw [h.active]; exact ha
    rw [if_neg (by omega : ¬ g.active > 0), if_neg (fun x : g'.active > 0 ∧ d = false => by omega)]
    have hfl : (g.cells.filter (fun c => !(p c) || c.marker)).filter live
        = (g.cells.filter live).filter (fun c => !p c) := by
      rw [List.filter_filter, List.filter_filter]
      apply List.filter_congr
      intro c hc
      have := hall c hc
      unfold live at this
      cases hm : c.marker <;> cases hz : c.zombie <;> simp_all [live]
    refine ⟨⟨?_, h.active, h.dirty, h.limbo, ?_, ?_, ?_⟩, ⟨?_, ?_, ?_, ?_, ?_⟩, rfl, ?_⟩
    · simp only
      rw [hfl]
      exact F2.filter h.cells _ _ (fun a b ha hb hr => by rw [hpp' a b ha hb hr, hr.marker]; simp)
    · intro c hc hl
      have := hall c (List.mem_filter.mp hc).1
      rw [this] at hl; cases hl
    · intro sl hsl f' hf'
      obtain ⟨c, hc, hl, _⟩ := h.hold2 sl hsl f' hf'
      have := hall c hc
      rw [this] at hl; cases hl
    · intro c hc; exact h.nomk c (List.mem_filter.mp hc).1
    · intro c hc; exact hi.lt c (List.mem_filter.mp hc).1
    · exact (List.filter_sublist.map _).nodup hi.nodup
    · intro _ c hc; exact hall c (List.mem_filter.mp hc).1
    · intro c hc; exact hi.dead c (List.mem_filter.mp hc).1
    · intro c hc; exact hi.mkslot c (List.mem_filter.mp hc).1
    · simp only
      rw [List.filter_filter]
      congr 1
      apply List.filter_congr
      intro c hc
      have := hall c hc
      unfold live at this
      cases hm : c.marker <;> simp_all
  · -- an emission is in progress: zombie positions vs removal with `limbo`
    have hpos : g.active > 0 := Nat.pos_of_ne_zero ha
    have hpos' : g'.active > 0 := by rw [h.active]; exact hpos
    rw [if_pos hpos]
    refine ⟨⟨?_, h.active, h.dirty, h.limbo, ?_, ?_, ?_⟩, ⟨?_, ?_, ?_, ?_, ?_⟩, rfl, ?_⟩
    · simp only
      rw [filter_live_zomb]
      exact F2.filter h.cells _ _ (fun a b ha hb hr => by rw [hpp' a b ha hb hr, hr.marker]; simp)
    · -- hold1
      intro c hc hl f hf
      simp only at hc
      obtain ⟨c0, hc0, e⟩ := List.mem_map.mp hc
      cases hl0 : live c0
      · rw [zomb_dead hl0] at e; subst e
        obtain ⟨sl, hsl, x⟩ := h.hold1 c0 hc0 hl0 f hf
        refine ⟨sl, ?_, x⟩
        simp only; split
        · exact List.mem_append_left _ hsl
        · exact hsl
      · cases hpc : p c0
        · rw [zomb_keep hpc] at e; subst e; rw [hl0] at hl; cases hl
        · rw [zomb_hit hl0 hpc] at e; subst e
          simp only at hf
          cases d with
          | true => simp only [if_true, fnOf_invalidate] at hf; cases hf
          | false =>
            simp only [Bool.false_eq_true, if_false, fnOf_disconnectRep] at hf
            obtain ⟨c', hc', hr⟩ := h.cells.mem_left (List.mem_filter.mpr ⟨hc0, hl0⟩)
            have hfn := hr.slot.fnOf
            rw [hf] at hfn
            cases hfn' : SlotB.fnOf c'.slot with
            | none => rw [hfn'] at hfn; cases hfn
            | some f' =>
              rw [hfn'] at hfn
              cases hfn with
              | some hfr =>
                refine ⟨c'.slot, ?_, f', hfn', hfr⟩
                simp only
                rw [if_pos ⟨hpos', trivial⟩]
                apply List.mem_append_right
                apply List.mem_map.mpr
                refine ⟨c', List.mem_filter.mpr ⟨hc', ?_⟩, rfl⟩
                rw [hpp c0 c' hc0 hl0 hr, hpc, hr.marker]; rfl
    · -- hold2
      intro sl hsl f' hf'
      simp only at hsl
      have hold : sl ∈ g'.limbo → ∃ c ∈ (g.cells.map (zomb d p)), live c = false ∧
          ∃ f, SlotB.fnOf c.slot = some f ∧ FunR ρ f f' := by
        intro hsl
        obtain ⟨c, hc, hl, x⟩ := h.hold2 sl hsl f' hf'
        exact ⟨c, List.mem_map.mpr ⟨c, hc, zomb_dead hl⟩, hl, x⟩
      split at hsl
      · rename_i hd
        rcases List.mem_append.mp hsl with hsl | hsl
        · exact hold hsl
        · obtain ⟨c', hc', e⟩ := List.mem_map.mp hsl
          subst e
          obtain ⟨hc', hpc'⟩ := List.mem_filter.mp hc'
          obtain ⟨c0, hc0, hr⟩ := h.cells.mem_right hc'
          obtain ⟨hc0, hl0⟩ := List.mem_filter.mp hc0
          have hpc : p c0 = true := by
            rw [← hpp c0 c' hc0 hl0 hr]
            rw [hr.marker] at hpc'; simpa using hpc'
          refine ⟨zomb d p c0, List.mem_map.mpr ⟨c0, hc0, rfl⟩, ?_, ?_⟩
          · rw [zomb_live, hpc]; simp
          · rw [zomb_hit hl0 hpc, hd.2]
            simp only [Bool.false_eq_true, if_false, fnOf_disconnectRep]
            have hfn := hr.slot.fnOf
            rw [hf'] at hfn
            cases hfn0 : SlotB.fnOf c0.slot with
            | none => rw [hfn0] at hfn; cases hfn
            | some f =>
              rw [hfn0] at hfn
              cases hfn with
              | some hfr => exact ⟨f, rfl, hfr⟩
      · exact hold hsl
    · intro c hc hm
      simp only at hc
      obtain ⟨c0, hc0, e⟩ := List.mem_map.mp hc
      subst e
      rw [zomb_marker] at hm; rw [zomb_id]
      exact h.nomk c0 hc0 hm
    · intro c hc
      simp only at hc
      obtain ⟨c0, hc0, e⟩ := List.mem_map.mp hc
      subst e; rw [zomb_id]; exact hi.lt c0 hc0
    · simp only
      rw [List.map_map]
      have : ((fun x => x.id) ∘ zomb d p) = (fun x : LCell => x.id) := by
        funext c; simp [zomb_id]
      rw [this]; exact hi.nodup
    · intro hz; simp only at hz; omega
    · intro c hc hl
      simp only at hc
      obtain ⟨c0, hc0, e⟩ := List.mem_map.mp hc
      cases hl0 : live c0
      · rw [zomb_dead hl0] at e; subst e; exact hi.dead c0 hc0 hl0
      · cases hpc : p c0
        · rw [zomb_keep hpc] at e; subst e; rw [hl0] at hl; cases hl
        · rw [zomb_hit hl0 hpc] at e; subst e
          simp only
          cases d
          · simp [empty_disconnectRep]
          · simp [empty_invalidate]
    · intro c hc hm
      simp only at hc
      obtain ⟨c0, hc0, e⟩ := List.mem_map.mp hc
      subst e
      rw [zomb_marker] at hm
      have hl0 : live c0 = false := by unfold live; simp [hm]
      rw [zomb_dead hl0]; exact hi.mkslot c0 hc0 hm
    · simp only
      rw [List.filter_map, List.map_map]
      have e1 : ((fun x : LCell => x.marker) ∘ zomb d p) = (fun x : LCell => x.marker) := by
        funext c; simp [zomb_marker]
      have e2 : ((fun x : LCell => x.id) ∘ zomb d p) = (fun x : LCell => x.id) := by
        funext c; simp [zomb_id]
      rw [e1, e2]

end Sigc.SpecK
