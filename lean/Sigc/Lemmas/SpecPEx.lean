import Sigc.Lemmas.SpecPDefs
/-!
# SpecPEx — the concrete program and states used by the `example`s of `Sigc.Props.SpecProps`
-/
namespace Sigc.SpecP
open Sigc.Model Sigc.Spec

/-- a valid, unblocked slot holding user functor `fid` -/
def exSlot (fid : Nat) : SlotB := { blocked := false, rep := some { call := true, fn := some (.leaf fid []) } }

/-- functor 1 disconnects connection 2 (entry 4), functor 3 connects functor 1 again as connection 7,
    functor 5 throws -/
def exP : Prog :=
  { bodies := [(1, [{ text := "disc 2", op := .disc 2 }]),
               (3, [{ text := "connfn 7 0 fn:1", op := .connfn 7 0 (.fn 1) false }]),
               (5, [{ text := "throw", op := .throw_ }])],
    top := [] }

/-- list 1: entries 2 (functor 1), 3 (functor 2, blocked), 4 (functor 3) -/
def exSig : LSig :=
  { cells := [{ id := 2, slot := exSlot 1 }, { id := 3, slot := { exSlot 2 with blocked := true } },
              { id := 4, slot := exSlot 3 }] }

/-- signal objects 0 and 1 (flavour `I`) share list 1; signal object 2 (flavour `A`) has no list;
    connections 0, 1, 2 point at the entries 2, 3, 4 -/
def exS : LSt :=
  { G := [(0, { obj := 10, fl := .I, impl := some 1, trk := 11, lvl := 5 }),
          (1, { obj := 12, fl := .I, impl := some 1, trk := 13, lvl := 5 }),
          (2, { obj := 14, fl := .A, impl := none, trk := 15, lvl := 6 })],
    S := [(0, { isVoid := false, slot := { exSlot 2 with blocked := true } })],
    C := [(0, some 2), (1, some 3), (2, some 4)],
    sigs := [(1, exSig)],
    next := 20 }

/-- list 1 with entries 2 (functor 3: connects during the emission) and 4 (functor 5: throws) -/
def exSig2 : LSig :=
  { cells := [{ id := 2, slot := exSlot 3 }, { id := 4, slot := exSlot 5 }, { id := 6, slot := exSlot 2 }] }

def exS2 : LSt := { exS with sigs := [(1, exSig2)] }

end Sigc.SpecP
