import Sigc.Lemmas.InvBal
import Sigc.Lemmas.InvTracks3
/-! `Bal` and the operations of `stepSimple`; the indexed stability instance -/
namespace Sigc.Inv
open Sigc.Model

theorem balw_succ {h x impls G n} (hb : BalW h x impls G n) : BalW h x impls G (n+1) :=
  hb.mono_next (Nat.le_succ _)
theorem balw_invalidateTrackable {h : Nat → Nat} {s : St} {t : Nat} (hb : BalW h none s.impls s.G s.next) :
    BalW h none (invalidateTrackable s t).impls (invalidateTrackable s t).G (invalidateTrackable s t).next :=
  (bal_prims h none).invalidateTrackable t hb
theorem balw_gcImpl {h : Nat → Nat} {s : St} {i : Nat} (hb : BalW h none s.impls s.G s.next) :
    BalW h none (gcImpl s i).impls (gcImpl s i).G (gcImpl s i).next := (bal_prims h none).gcImpl i hb
theorem balw_disconnectCell {h : Nat → Nat} {s : St} {i : Nat} (hb : BalW h none s.impls s.G s.next) :
    BalW h none (disconnectCell s i).impls (disconnectCell s i).G (disconnectCell s i).next :=
  (bal_prims h none).disconnectCell i hb
theorem balw_clearImpl {h : Nat → Nat} {s : St} {i : Nat} (hb : BalW h none s.impls s.G s.next) :
    BalW h none (clearImpl s i).impls (clearImpl s i).G (clearImpl s i).next := (bal_prims h none).clearImpl i hb
theorem balw_connBlock {h : Nat → Nat} {s : St} {p : Option Nat} {b : Bool} (hb : BalW h none s.impls s.G s.next) :
    BalW h none (connBlock s p b).impls (connBlock s p b).G (connBlock s p b).next :=
  (bal_prims h none).connBlock p b hb
theorem balw_insertCell {h : Nat → Nat} {s : St} {i : Nat} {first : Bool} {sl : SlotB}
    (hb : BalW h none s.impls s.G s.next) :
    BalW h none (insertCell s i first sl).fst.impls (insertCell s i first sl).fst.G
      (insertCell s i first sl).fst.next :=
  Bal.insert i first sl hb
theorem balw_blockAll {h : Nat → Nat} {s : St} {i : Nat} {x : Impl} {b : Bool} (hi : aget s.impls i = some x)
    (hb : BalW h none s.impls s.G s.next) :
    BalW h none
      (aset s.impls i { x with cells := x.cells.map (fun c => { c with slot := { c.slot with blocked := b } }) })
      s.G s.next :=
  (bal_prims h none).blockAll b hb hi
theorem balw_newG {h : Nat → Nat} {impls G n} {g : Nat} {hd : Handle} (hg : aget G g = none)
    (hb : BalW h none impls G n) : BalW h none impls (aset G g hd) n :=
  BalW.setG hb none (keys_nodup_aset hb.1 _ _)
    (ref_step_aset none (fun hd0 e => by rw [hg] at e; cases e))

theorem ensureImpl_G_other {s s1 : St} {g i : Nat} (he : ensureImpl s g = some (s1, i)) (j : Nat) (hj : j ≠ g) :
    aget s1.G j = aget s.G j := by
  unfold Model.ensureImpl at he
  split at he
  · cases he
  · split at he
    · cases he; rfl
    · simp only [St.fresh, Option.some.injEq, Prod.mk.injEq] at he
      obtain ⟨rfl, rfl⟩ := he
      exact aget_aset_other _ _ _ _ hj

/-- the signal-object operations -/
theorem Bal_G_ops (h0 : Nat → Nat) (s : St) (op : Op) (s' : St) (r : String) (hI : Bal h0 s)
    (hop : (∃ j i, op = .cpG j i) ∨ (∃ j i, op = .mvG j i) ∨ (∃ j i, op = .asgG j i) ∨ (∃ j i, op = .masgG j i) ∨
      (∃ i, op = .delG i))
    (h : stepSimple s op = some (s', r)) : Bal h0 s' := by
  -- copy-assignment body shared by `asgG` and the accumulated branch of `masgG`
  have hasg : ∀ (j i : Nat) (d : Handle) (s1 : St) (im : Nat), aget s.G j = some d → j ≠ i →
      ensureImpl s i = some (s1, im) →
      BalW h0 d.impl s1.impls (aset s1.G j { d with impl := some im }) s1.next := by
    intro j i d s1 im hj hne he
    have h2 := Bal.ensure hI he
    have hj1 : aget s1.G j = some d := by rw [ensureImpl_G_other he j hne]; exact hj
    exact BalW.setG h2 d.impl (keys_nodup_aset h2.1 _ _)
        (ref_step_aset d.impl (fun hd0 e => by rw [hj1] at e; cases e; exact Or.inl rfl))
  rcases hop with ⟨j, i, rfl⟩ | ⟨j, i, rfl⟩ | ⟨j, i, rfl⟩ | ⟨j, i, rfl⟩ | ⟨i, rfl⟩
  all_goals simp only [stepSimple] at h
  · -- cpG
    repeat' split at h
    all_goals (simp only [Option.some.injEq, Prod.mk.injEq] at h; obtain ⟨rfl, _⟩ := h)
    all_goals (first | exact hI | exact Bal.ensure hI ‹_› | skip)
    have h2 := Bal.ensure hI ‹_›
    obtain ⟨_, _, _, _, hfr⟩ := ensureImpl_frame ‹ensureImpl s i = some _›
    exact (balw_newG (hfr j ‹_›) h2).mono_next (Nat.le_trans (Nat.le_succ _) (Nat.le_succ _))
  · -- mvG
    split at h
    · simp only [Option.some.injEq, Prod.mk.injEq] at h; obtain ⟨rfl, _⟩ := h; exact hI
    rename_i hd hi
    split at h
    · simp only [Option.some.injEq, Prod.mk.injEq] at h; obtain ⟨rfl, _⟩ := h; exact hI
    rename_i hj
    split at h
    · split at h
      · simp only [Option.some.injEq, Prod.mk.injEq] at h; obtain ⟨rfl, _⟩ := h; exact hI
      · rename_i s1 im he
        simp only [St.fresh, Option.some.injEq, Prod.mk.injEq] at h; obtain ⟨rfl, _⟩ := h
        have h2 := Bal.ensure hI he
        obtain ⟨_, _, _, _, hfr⟩ := ensureImpl_frame he
        exact (balw_newG (hfr j hj) h2).mono_next (Nat.le_trans (Nat.le_succ _) (Nat.le_succ _))
    · simp only [St.fresh, Option.some.injEq, Prod.mk.injEq] at h; obtain ⟨rfl, _⟩ := h
      have hne : j ≠ i := ne_of_aget hi hj
      have h3 : BalW h0 none s.impls (aset (aset s.G i { hd with impl := none }) j
          { obj := s.next, fl := hd.fl, impl := hd.impl, trk := s.next + 1, lvl := hd.lvl }) (s.next + 1 + 1) := by
        refine (BalW.setG hI none (keys_nodup_aset (keys_nodup_aset hI.1 _ _) _ _) ?_).mono_next
          (Nat.le_trans (Nat.le_succ _) (Nat.le_succ _))
        rintro x ⟨g0, hd0, hg0, hx⟩
        right
        by_cases e : g0 = i
        · subst e
          rw [hi] at hg0; cases hg0
          exact ⟨j, _, aget_aset_same _ _ _, hx⟩
        · have e2 : g0 ≠ j := by intro e2; subst e2; rw [hj] at hg0; cases hg0
          exact ⟨g0, hd0, by rw [aget_aset_other _ _ _ _ e2, aget_aset_other _ _ _ _ e]; exact hg0, hx⟩
      split
      · exact (bal_prims h0 none).invalidateTrackable _ h3
      · exact h3
  · -- asgG
    split at h
    · rename_i d hh hj hi
      repeat' split at h
      all_goals (simp only [Option.some.injEq, Prod.mk.injEq] at h; obtain ⟨rfl, _⟩ := h)
      all_goals (first | exact hI | exact Bal.ensure hI ‹_› | skip)
      all_goals (have h3 := hasg j i d _ _ hj ‹_› ‹_›; rw [‹d.impl = _›] at h3)
      · exact BalW.gcImpl h3
      · exact h3
    · simp only [Option.some.injEq, Prod.mk.injEq] at h; obtain ⟨rfl, _⟩ := h; exact hI
  · -- masgG
    split at h
    · rename_i d hh hj hi
      split at h
      · simp only [Option.some.injEq, Prod.mk.injEq] at h; obtain ⟨rfl, _⟩ := h; exact hI
      split at h
      · simp only [Option.some.injEq, Prod.mk.injEq] at h; obtain ⟨rfl, _⟩ := h; exact hI
      split at h
      · simp only [Option.some.injEq, Prod.mk.injEq] at h; obtain ⟨rfl, _⟩ := h; exact hI
      split at h
      · repeat' split at h
        all_goals (simp only [Option.some.injEq, Prod.mk.injEq] at h; obtain ⟨rfl, _⟩ := h)
        all_goals (first | exact hI | exact Bal.ensure hI ‹_› | skip)
        all_goals (have h3 := hasg j i d _ _ hj ‹_› ‹_›; rw [‹d.impl = _›] at h3)
        · exact BalW.gcImpl h3
        · exact h3
      · split at h
        · simp only [Option.some.injEq, Prod.mk.injEq] at h; obtain ⟨rfl, _⟩ := h; exact hI
        · rename_i hne
          simp only [Option.some.injEq, Prod.mk.injEq] at h; obtain ⟨rfl, _⟩ := h
          have h3 : BalW h0 d.impl s.impls
              (aset (aset s.G j { d with impl := hh.impl }) i { hh with impl := none }) s.next := by
            refine BalW.setG hI d.impl (keys_nodup_aset (keys_nodup_aset hI.1 _ _) _ _) ?_
            rintro x ⟨g0, hd0, hg0, hx⟩
            by_cases e : g0 = j
            · subst e
              rw [hj] at hg0; cases hg0
              exact Or.inl hx.symm
            · right
              by_cases e2 : g0 = i
              · subst e2
                rw [hi] at hg0; cases hg0
                exact ⟨j, { d with impl := hh.impl },
                  by rw [aget_aset_other _ _ _ _ hne]; exact aget_aset_same _ _ _, hx⟩
              · exact ⟨g0, hd0, by rw [aget_aset_other _ _ _ _ e2, aget_aset_other _ _ _ _ e]; exact hg0, hx⟩
          split <;> split <;> rename_i hdi <;> rw [hdi] at h3 <;>
            first
            | exact (bal_prims h0 none).invalidateTrackable _ (BalW.gcImpl h3)
            | exact (bal_prims h0 none).invalidateTrackable _ h3
            | exact BalW.gcImpl h3
            | exact h3
    · simp only [Option.some.injEq, Prod.mk.injEq] at h; obtain ⟨rfl, _⟩ := h; exact hI
  · -- delG
    split at h
    · simp only [Option.some.injEq, Prod.mk.injEq] at h; obtain ⟨rfl, _⟩ := h; exact hI
    rename_i hd hi
    split at h
    · simp only [Option.some.injEq, Prod.mk.injEq] at h; obtain ⟨rfl, _⟩ := h; exact hI
    split at h
    · simp only [Option.some.injEq, Prod.mk.injEq] at h; obtain ⟨rfl, _⟩ := h; exact hI
    simp only [Option.some.injEq, Prod.mk.injEq] at h; obtain ⟨rfl, _⟩ := h
    have key : ∀ s1 : St, Bal h0 s1 → s1.G = s.G → BalW h0 hd.impl s1.impls (adel s1.G i) s1.next := by
      intro s1 h1 hG
      exact BalW.setG h1 hd.impl (keys_nodup_adel h1.1 _)
          (ref_step_adel hd.impl (fun hd0 e => by rw [hG, hi] at e; cases e; rfl))
    split <;> rename_i hdi
    · split
      · have h3 := key _ ((bal_prims h0 none).invalidateTrackable hd.trk hI) (invalidateTrackable_frame s hd.trk).2.1
        rw [hdi] at h3; exact BalW.gcImpl h3
      · have h3 := key s hI rfl
        rw [hdi] at h3; exact BalW.gcImpl h3
    · split
      · have h3 := key _ ((bal_prims h0 none).invalidateTrackable hd.trk hI) (invalidateTrackable_frame s hd.trk).2.1
        rw [hdi] at h3; exact h3
      · have h3 := key s hI rfl
        rw [hdi] at h3; exact h3

set_option maxHeartbeats 400000 in
theorem Bal_simple (h0 : Nat → Nat) (s : St) (op : Op) (s' : St) (r : String) (hI : Bal h0 s)
    (h : stepSimple s op = some (s', r)) : Bal h0 s' := by
  cases op
  case cpG j i => exact Bal_G_ops h0 s _ s' r hI (Or.inl ⟨j, i, rfl⟩) h
  case mvG j i => exact Bal_G_ops h0 s _ s' r hI (Or.inr (Or.inl ⟨j, i, rfl⟩)) h
  case asgG j i => exact Bal_G_ops h0 s _ s' r hI (Or.inr (Or.inr (Or.inl ⟨j, i, rfl⟩))) h
  case masgG j i => exact Bal_G_ops h0 s _ s' r hI (Or.inr (Or.inr (Or.inr (Or.inl ⟨j, i, rfl⟩)))) h
  case delG i => exact Bal_G_ops h0 s _ s' r hI (Or.inr (Or.inr (Or.inr (Or.inr ⟨i, rfl⟩)))) h
  all_goals simp only [stepSimple] at h
  all_goals (repeat' split at h)
  all_goals (first | (cases h; done) | skip)
  all_goals (simp only [Option.some.injEq, Prod.mk.injEq] at h; obtain ⟨rfl, _⟩ := h)
  all_goals (first | exact hI | skip)
  all_goals (
    try (have h1 := Bal.mkF hI ‹_›)
    try (have h2 := Bal.ensure hI ‹_›)
    try (have h3 := Bal.ensure ‹Bal _ _› ‹_›)
    simp only [Bal] at *
    first
      | done
      | simp (maxDischargeDepth := 8) only [St.fresh, setConn, setImpl, balw_succ,
          balw_invalidateTrackable, balw_disconnectCell, balw_clearImpl, balw_connBlock,
          balw_insertCell, balw_blockAll, balw_newG, *])

theorem Bal_forceDelG (h0 : Nat → Nat) (s : St) (g : Nat) (hI : Bal h0 s) : Bal h0 (forceDelG s g) := by
  unfold forceDelG
  split
  · exact hI
  · rename_i hd hi
    simp only []
    have key : ∀ s1 : St, Bal h0 s1 → s1.G = s.G → BalW h0 hd.impl s1.impls (adel s1.G g) s1.next := by
      intro s1 h1 hG
      exact BalW.setG h1 hd.impl (keys_nodup_adel h1.1 _)
          (ref_step_adel hd.impl (fun hd0 e => by rw [hG, hi] at e; cases e; rfl))
    split <;> rename_i hdi
    · split
      · have h3 := key _ ((bal_prims h0 none).invalidateTrackable hd.trk hI) (invalidateTrackable_frame s hd.trk).2.1
        rw [hdi] at h3; exact BalW.gcImpl h3
      · have h3 := key s hI rfl
        rw [hdi] at h3; exact BalW.gcImpl h3
    · split
      · have h3 := key _ ((bal_prims h0 none).invalidateTrackable hd.trk hI) (invalidateTrackable_frame s hd.trk).2.1
        rw [hdi] at h3; exact h3
      · have h3 := key s hI rfl
        rw [hdi] at h3; exact h3

theorem Bal.coll {h : Nat → Nat} (s : St) (hb : Bal h s) : Bal h (collect s) :=
  (bal_prims h none).collect (fun _ _ x => x) (fun _ _ x => x)
    (dropG_of (fun _ _ x => x) (Bal_forceDelG h)) hb

theorem Bal.epi {h : Nat → Nat} {s : St} {i : Nat} (m : Nat) (hb : Bal (bump h i) s) :
    Bal h (emitEpi s i m) := by
  unfold Inv.emitEpi
  split
  · rename_i hn
    exact Bal.fail _ (Bal.unbump_none hb hn)
  · apply Bal.coll
    apply BalW.gcImpl
    apply Bal.drop
    apply (bal_prims (bump h i) none).unrefExec
    split
    · exact (bal_prims (bump h i) none).eraseCell _ _ hb
    · exact Bal.fail _ hb

/-- `Bal` is a stable family relative to `WF`: the emission prologue moves from index `h` to `bump h i`, the
    epilogue returns to `h` -/
theorem Bal.stableK : StableKRel WF Bal where
  log _ _ _ _ h := h
  fail _ s m _ h := Bal.fail m h
  depth _ _ _ _ h := h
  steps _ _ _ _ h := h
  call k s i v _ h _ := ⟨k, h, fun s2 _ h2 => by
    unfold callEpi
    split
    · exact h2
    · exact Bal.fail _ h2⟩
  simple k s op s' r _ h hs := Bal_simple k s op s' r h hs
  collect _ s _ h := Bal.coll s h
  emit k s i im hw h hi := ⟨bump k i, Bal.pro hw h hi, fun _ _ h2 => Bal.epi _ h2⟩
  forceDel k s g _ h := Bal_forceDelG k s g h

theorem WBal.stable : StableK (fun k s => WF s ∧ Bal k s) := StableKRel.and WF.stable Bal.stableK

/-- at top level no emission is running: `holders = 0` everywhere and every impl is owned by a handle -/
theorem Bal.reachable (f : Nat) (P : Prog) (s : St) (h : runTop f P {} P.top = some s) :
    Bal (fun _ => 0) s :=
  (runTop_preserved WBal.stable f (fun _ => 0) P _ _ _ ⟨WF.init, Bal.init⟩ h).2

theorem Bal.teardown (f : Nat) (P : Prog) (s s' : St) (hw : WF s) (hb : Bal (fun _ => 0) s)
    (h : Model.teardown f P s = some s') : Bal (fun _ => 0) s' :=
  (teardown_preserved WBal.stable f (fun _ => 0) P _ _ ⟨hw, hb⟩ h).2

end Sigc.Inv
