import Sigc.Lemmas.SpecPWFSimple
import Sigc.Lemmas.SpecPEx
/-!
# SpecPWFMutual — every function of the mutual block of `S` is a `Step` (induction on fuel)
-/
namespace Sigc.SpecP
open Sigc.Spec
open Sigc.Model (aget aset adel amap Prog Line Op FSpec Fun SlotB SlotVar Rep Handle Flavour Strat Outcome Event
  aget_nil aget_aset_same aget_aset_other aget_amap aget_adel_same aget_adel_other)

theorem WF_enter (s : LSt) (i : Nat) (g : LSig) (hw : WF s) (hg : aget s.sigs i = some g) : WF (enter s i g) := by
  intro j x hx
  simp only [enter, setSig] at hx
  by_cases hj : j = i
  · subst hj
    rw [aget_aset_same] at hx
    cases hx
    have h := (hw j g hg).2
    refine ⟨Nat.lt_succ_of_lt (hw j g hg).1, ?_, ?_, ?_, h.clean⟩
    · intro c hc
      simp only at hc
      split at hc
      · simp only [List.mem_append, List.mem_singleton] at hc
        rcases hc with hc | rfl
        · exact Nat.lt_succ_of_lt (h.lt c hc)
        · exact Nat.lt_succ_self _
      · exact Nat.lt_succ_of_lt (h.lt c hc)
    · simp only
      split
      · have hnot : s.next ∉ g.cells.map (·.id) := by
          intro hm
          simp only [List.mem_map] at hm
          obtain ⟨c, hc, he⟩ := hm
          have := h.lt c hc
          omega
        simp only [List.map_append, List.map_cons, List.map_nil]
        rw [List.nodup_append]
        refine ⟨h.nodup, by simp, ?_⟩
        intro a ha b hb
        simp only [List.mem_singleton] at hb
        subst hb
        intro e; subst e; exact hnot ha
      · exact h.nodup
    · intro hk c hc
      have hk' : s.k2 = false := hk
      simp only [hk', Bool.false_eq_true, if_false] at hc
      exact h.pure hk c hc
  · rw [aget_aset_other _ _ _ _ hj] at hx
    exact ⟨Nat.lt_succ_of_lt (hw j x hx).1, (hw j x hx).2.mono (Nat.le_succ _)⟩

theorem actOf_enter (s : LSt) (i j : Nat) (g : LSig) (_hg : aget s.sigs i = some g) :
    actOf (enter s i g) j = if j = i then g.active + 1 else actOf s j := by
  simp only [actOf, enter, setSig, actL_aset]

theorem ids_enter (s : LSt) (i : Nat) (g : LSig) (hg : aget s.sigs i = some g) (n : Nat) (hn : n < s.next)
    (h : idsL (enter s i g).sigs n) : idsL s.sigs n := by
  obtain ⟨j, x, c, hx, hc, rfl⟩ := h
  simp only [enter, setSig] at hx
  by_cases hj : j = i
  · subst hj
    rw [aget_aset_same] at hx
    cases hx
    simp only at hc
    split at hc
    · simp only [List.mem_append, List.mem_singleton] at hc
      rcases hc with hc | rfl
      · exact ⟨j, g, c, hg, hc, rfl⟩
      · simp at hn
    · exact ⟨j, g, c, hg, hc, rfl⟩
  · rw [aget_aset_other _ _ _ _ hj] at hx
    exact ⟨j, x, c, hx, hc, rfl⟩

theorem ids_enter_pure (s : LSt) (i : Nat) (g : LSig) (hg : aget s.sigs i = some g) (hk : s.k2 = false) (n : Nat)
    (h : idsL (enter s i g).sigs n) : idsL s.sigs n := by
  obtain ⟨j, x, c, hx, hc, rfl⟩ := h
  simp only [enter, setSig] at hx
  by_cases hj : j = i
  · subst hj
    rw [aget_aset_same] at hx
    cases hx
    simp only [hk, Bool.false_eq_true, if_false] at hc
    exact ⟨j, g, c, hg, hc, rfl⟩
  · rw [aget_aset_other _ _ _ _ hj] at hx
    exact ⟨j, x, c, hx, hc, rfl⟩

/-- the bracket of an emission: if the body is a `Step` from `enter s i g`, the whole emission is a `Step`
    from `s` — in particular `active` of the emitted list is back to its value -/
theorem step_emit_bracket (s s2 : LSt) (i : Nat) (g : LSig) (hg : aget s.sigs i = some g)
    (hb : Step (enter s i g) s2) : Step s (epi i s.next s2) := by
  obtain ⟨hn, hk1, hk2, hrest⟩ := hb
  have hn' : s.next ≤ s2.next := Nat.le_trans (Nat.le_succ _) hn
  unfold epi
  cases hg2 : aget s2.sigs i with
  | none =>
    simp only
    refine ⟨?_, ?_, ?_, ?_⟩
    · simp only [LSt.fail]; split <;> exact hn'
    · simp only [LSt.fail]; split <;> exact hk1
    · simp only [LSt.fail]; split <;> exact hk2
    · intro hw
      obtain ⟨_, ha, _⟩ := hrest (WF_enter s i g hw hg)
      have := ha i
      rw [actOf_enter s i i g hg] at this
      simp [actOf, actL, hg2] at this
  | some g2 =>
    simp only
    refine Step.after (step_collect _) (Step.after (step_gcSig _ _) ?_)
    refine ⟨hn', hk1, hk2, fun hw => ?_⟩
    obtain ⟨hw2, ha, hi⟩ := hrest (WF_enter s i g hw hg)
    have hact : g2.active = g.active + 1 := by
      have := ha i
      rw [actOf_enter s i i g hg] at this
      simpa [actOf, actL, hg2] using this
    refine ⟨?_, ?_, ?_⟩
    · intro j x hx
      simp only [setSig] at hx
      by_cases hj : j = i
      · subst hj
        rw [aget_aset_same] at hx
        cases hx
        exact ⟨(hw2 j g2 hg2).1, (hw2 j g2 hg2).2.closeSig _⟩
      · rw [aget_aset_other _ _ _ _ hj] at hx
        exact hw2 j x hx
    · intro j
      simp only [actOf, setSig, actL_aset]
      by_cases hj : j = i
      · subst hj
        simp only [if_true, closeSig_act, hact]
        simp [actL, hg]
      · simp only [hj, if_false]
        have := ha j
        rw [actOf_enter s i j g hg] at this
        simpa [hj, actOf] using this
    · intro n hlt h
      apply ids_enter s i g hg n hlt
      apply hi n (Nat.lt_succ_of_lt hlt)
      obtain ⟨j, x, c, hx, hc, rfl⟩ := h
      simp only [setSig] at hx
      by_cases hj : j = i
      · subst hj
        rw [aget_aset_same] at hx
        cases hx
        exact ⟨j, g2, c, hg2, closeSig_ids _ _ c hc, rfl⟩
      · rw [aget_aset_other _ _ _ _ hj] at hx
        exact ⟨j, x, c, hx, hc, rfl⟩

/-- all functions of the mutual block at fuel `f` are `Step`s -/
structure AllStep (f : Nat) : Prop where
  invokeFun : ∀ P s fn arg s' o v, Spec.invokeFun f P s fn arg = some (s', o, v) → Step s s'
  runBody : ∀ P s ls s' o, Spec.runBody f P s ls = some (s', o) → Step s s'
  execLine : ∀ P s l s' o, Spec.execLine f P s l = some (s', o) → Step s s'
  emitSig : ∀ P s fl impl arg strat s' o v, Spec.emitSig f P s fl impl arg strat = some (s', o, v) → Step s s'
  turns : ∀ P s i snap arg r s' o v, Spec.turns f P s i snap arg r = some (s', o, v) → Step s s'
  deref : ∀ P s i snap it arg s' o it', Spec.deref f P s i snap it arg = some (s', o, it') → Step s s'
  accLoop : ∀ P s i snap it arg mode k r s' o v, Spec.accLoop f P s i snap it arg mode k r = some (s', o, v) → Step s s'
  revLoop : ∀ P s i snap it arg r s' o v, Spec.revLoop f P s i snap it arg r = some (s', o, v) → Step s s'
  walkLoop : ∀ P s i snap it arg cs r s' o v, Spec.walkLoop f P s i snap it arg cs r = some (s', o, v) → Step s s'
  runStrat : ∀ P s i snap arg strat s' o v, Spec.runStrat f P s i snap arg strat = some (s', o, v) → Step s s'
  execOp : ∀ P s op s' e, Spec.execOp f P s op = some (s', e) → Step s s'

theorem allStep_zero : AllStep 0 := by
  constructor <;> intros <;> rename_i h
  · simp [Spec.invokeFun] at h
  · simp [Spec.runBody] at h
  · simp [Spec.execLine] at h
  · simp [Spec.emitSig] at h
  · simp [Spec.turns] at h
  · simp [Spec.deref] at h
  · simp [Spec.accLoop] at h
  · simp [Spec.revLoop] at h
  · simp [Spec.walkLoop] at h
  · simp [Spec.runStrat] at h
  · simp [Spec.execOp] at h

theorem step_invokeFun (f : Nat) (ih : AllStep f) (P : Prog) (s : LSt) (fn : Fun) (arg : Nat) (s' : LSt) (o : Outcome) (v : Nat)
    (h : Spec.invokeFun (f+1) P s fn arg = some (s', o, v)) : Step s s' := by
  have leafCase : ∀ fid, (match aget P.bodies fid with
      | none => some (s.log (.call s.depth fid arg), Outcome.ok, Model.resultOf fid arg)
      | some body =>
        match Spec.runBody f P { (s.log (.call s.depth fid arg)) with depth := (s.log (.call s.depth fid arg)).depth + 1 } body with
        | none => none
        | some (s, o) => some ({ s with depth := s.depth - 1 }, o, Model.resultOf fid arg)) = some (s', o, v) → Step s s' := by
    intro fid h
    split at h
    · simp only [Option.some.injEq, Prod.mk.injEq] at h
      rw [← h.1]; exact step_log _ _
    · split at h
      · simp at h
      · rename_i s1 o1 hb
        simp only [Option.some.injEq, Prod.mk.injEq] at h
        rw [← h.1]
        exact Step.after (s' := s1) (step_frame rfl (Nat.le_refl _) rfl rfl)
          (Step.after (ih.runBody _ _ _ _ _ hb) (step_frame rfl (Nat.le_refl _) rfl rfl))
  cases fn with
  | leaf fid ts => rw [Spec.invokeFun.eq_def] at h; exact leafCase fid h
  | owner fid ts ks => rw [Spec.invokeFun.eq_def] at h; exact leafCase fid h
  | nest blocked inner =>
    rw [Spec.invokeFun.eq_def] at h
    simp only at h
    split at h
    · simp only [Option.some.injEq, Prod.mk.injEq] at h
      rw [← h.1]; exact Step.refl _
    · split at h
      · simp only [Option.some.injEq, Prod.mk.injEq] at h
        rw [← h.1]; exact Step.refl _
      · exact ih.invokeFun _ _ _ _ _ _ _ h
  | fwd ob ts =>
    rw [Spec.invokeFun.eq_def] at h
    simp only at h
    split at h
    · simp only [Option.some.injEq, Prod.mk.injEq] at h
      rw [← h.1]; exact step_fail _ _
    · exact ih.emitSig _ _ _ _ _ _ _ _ _ h

theorem step_runBody (f : Nat) (ih : AllStep f) (P : Prog) (s : LSt) (ls : List Line) (s' : LSt) (o : Outcome)
    (h : Spec.runBody (f+1) P s ls = some (s', o)) : Step s s' := by
  cases ls with
  | nil =>
    rw [Spec.runBody] at h
    simp only [Option.some.injEq, Prod.mk.injEq] at h
    rw [← h.1]; exact Step.refl _
  | cons l ls =>
    rw [Spec.runBody] at h
    split at h
    · simp at h
    · rename_i s1 hl
      simp only [Option.some.injEq, Prod.mk.injEq] at h
      rw [← h.1]; exact ih.execLine _ _ _ _ _ hl
    · rename_i s1 hl
      exact Step.trans (ih.execLine _ _ _ _ _ hl) (ih.runBody _ _ _ _ _ h)

theorem step_execLine (f : Nat) (ih : AllStep f) (P : Prog) (s : LSt) (l : Line) (s' : LSt) (o : Outcome)
    (h : Spec.execLine (f+1) P s l = some (s', o)) : Step s s' := by
  rw [Spec.execLine] at h
  split at h
  · simp at h
  · rename_i s1 _ hop
    simp only [Option.some.injEq, Prod.mk.injEq] at h
    rw [← h.1]
    exact Step.after (step_collect _) (Step.after (step_log _ _)
      (Step.after (ih.execOp _ _ _ _ _ hop) (step_frame rfl (Nat.le_refl _) rfl rfl)))
  · rename_i s1 _ hop
    simp only [Option.some.injEq, Prod.mk.injEq] at h
    rw [← h.1]
    exact Step.after (step_collect _) (Step.after (step_log _ _)
      (Step.after (ih.execOp _ _ _ _ _ hop) (step_frame rfl (Nat.le_refl _) rfl rfl)))

theorem step_body (f : Nat) (ih : AllStep f) (P : Prog) (s : LSt) (fl : Flavour) (i : Nat) (snap : List Nat) (arg : Nat)
    (strat : Strat) (s' : LSt) (o : Outcome) (v : Nat) (h : body f P s fl i snap arg strat = some (s', o, v)) :
    Step s s' := by
  unfold body at h
  split at h
  · exact ih.runStrat _ _ _ _ _ _ _ _ _ h
  · exact ih.turns _ _ _ _ _ _ _ _ _ h

theorem step_emitSig (f : Nat) (ih : AllStep f) (P : Prog) (s : LSt) (fl : Flavour) (impl : Option Nat) (arg : Nat)
    (strat : Strat) (s' : LSt) (o : Outcome) (v : Nat)
    (h : Spec.emitSig (f+1) P s fl impl arg strat = some (s', o, v)) : Step s s' := by
  cases impl with
  | none =>
    rw [Spec.emitSig] at h
    simp only [Option.some.injEq, Prod.mk.injEq] at h
    rw [← h.1]; exact Step.refl _
  | some i =>
    cases hg : aget s.sigs i with
    | none =>
      rw [Spec.emitSig] at h
      simp only [hg, Option.some.injEq, Prod.mk.injEq] at h
      rw [← h.1]; exact step_fail _ _
    | some g =>
      by_cases hk : (s.k2 && !fl.isAcc && g.cells.isEmpty) = true
      · rw [Spec.emitSig] at h
        simp only [hg, hk, if_true, Option.some.injEq, Prod.mk.injEq] at h
        rw [← h.1]; exact Step.refl _
      · have hk' : (s.k2 && !fl.isAcc && g.cells.isEmpty) = false := by simpa using hk
        rw [emitSig_eq f P s fl i arg strat g hg hk'] at h
        cases hb : body f P (enter s i g) fl i (snapOf s.k2 fl g) arg strat with
        | none => simp [hb] at h
        | some x =>
          obtain ⟨s2, o2, v2⟩ := x
          simp only [hb, Option.map_some, Option.some.injEq, Prod.mk.injEq] at h
          rw [← h.1]
          exact step_emit_bracket s s2 i g hg (step_body f ih P _ fl i _ arg strat s2 o2 v2 hb)

theorem step_turns (f : Nat) (ih : AllStep f) (P : Prog) (s : LSt) (i : Nat) (snap : List Nat) (arg r : Nat)
    (s' : LSt) (o : Outcome) (v : Nat) (h : Spec.turns (f+1) P s i snap arg r = some (s', o, v)) : Step s s' := by
  cases snap with
  | nil =>
    rw [turns_nil] at h
    simp only [Option.some.injEq, Prod.mk.injEq] at h
    rw [← h.1]; exact Step.refl _
  | cons cid rest =>
    rw [turns_cons] at h
    cases hc : callable s i cid with
    | none =>
      simp only [hc] at h
      exact ih.turns _ _ _ _ _ _ _ _ _ h
    | some fn =>
      simp only [hc] at h
      split at h
      · simp at h
      · rename_i s1 v1 hi
        simp only [Option.some.injEq, Prod.mk.injEq] at h
        rw [← h.1]; exact ih.invokeFun _ _ _ _ _ _ _ hi
      · rename_i s1 v1 hi
        exact Step.trans (ih.invokeFun _ _ _ _ _ _ _ hi) (ih.turns _ _ _ _ _ _ _ _ _ h)

theorem step_deref (f : Nat) (ih : AllStep f) (P : Prog) (s : LSt) (i : Nat) (snap : List Nat) (it : It) (arg : Nat)
    (s' : LSt) (o : Outcome) (it' : It) (h : Spec.deref (f+1) P s i snap it arg = some (s', o, it')) : Step s s' := by
  rw [deref_eq] at h
  split at h
  · simp only [Option.some.injEq, Prod.mk.injEq] at h; rw [← h.1]; exact Step.refl _
  · split at h
    · simp only [Option.some.injEq, Prod.mk.injEq] at h; rw [← h.1]; exact Step.refl _
    · split at h
      · simp only [Option.some.injEq, Prod.mk.injEq] at h; rw [← h.1]; exact Step.refl _
      · split at h
        · simp at h
        · rename_i hi
          simp only [Option.some.injEq, Prod.mk.injEq] at h; rw [← h.1]
          exact ih.invokeFun _ _ _ _ _ _ _ hi
        · rename_i hi
          simp only [Option.some.injEq, Prod.mk.injEq] at h; rw [← h.1]
          exact ih.invokeFun _ _ _ _ _ _ _ hi

theorem step_accLoop (f : Nat) (ih : AllStep f) (P : Prog) (s : LSt) (i : Nat) (snap : List Nat) (it : It)
    (arg mode k r : Nat) (s' : LSt) (o : Outcome) (v : Nat)
    (h : Spec.accLoop (f+1) P s i snap it arg mode k r = some (s', o, v)) : Step s s' := by
  rw [Spec.accLoop] at h
  split at h
  · simp only [Option.some.injEq, Prod.mk.injEq] at h; rw [← h.1]; exact Step.refl _
  · split at h
    · exact ih.accLoop _ _ _ _ _ _ _ _ _ _ _ _ h
    · split at h
      · simp at h
      · rename_i hd
        simp only [Option.some.injEq, Prod.mk.injEq] at h; rw [← h.1]
        exact ih.deref _ _ _ _ _ _ _ _ _ hd
      · rename_i s1 it1 hd
        have h1 := ih.deref _ _ _ _ _ _ _ _ _ hd
        simp only at h
        split at h
        · simp only [Option.some.injEq, Prod.mk.injEq] at h; rw [← h.1]; exact h1
        · split at h
          · split at h
            · simp at h
            · rename_i hd2
              simp only [Option.some.injEq, Prod.mk.injEq] at h; rw [← h.1]
              exact Step.trans h1 (ih.deref _ _ _ _ _ _ _ _ _ hd2)
            · rename_i hd2
              exact Step.trans h1 (Step.trans (ih.deref _ _ _ _ _ _ _ _ _ hd2) (ih.accLoop _ _ _ _ _ _ _ _ _ _ _ _ h))
          · exact Step.trans h1 (ih.accLoop _ _ _ _ _ _ _ _ _ _ _ _ h)

theorem step_revLoop (f : Nat) (ih : AllStep f) (P : Prog) (s : LSt) (i : Nat) (snap : List Nat) (it : It)
    (arg r : Nat) (s' : LSt) (o : Outcome) (v : Nat)
    (h : Spec.revLoop (f+1) P s i snap it arg r = some (s', o, v)) : Step s s' := by
  rw [Spec.revLoop] at h
  split at h
  · simp only [Option.some.injEq, Prod.mk.injEq] at h; rw [← h.1]; exact Step.refl _
  · simp only at h
    split at h
    · simp at h
    · rename_i hd
      simp only [Option.some.injEq, Prod.mk.injEq] at h; rw [← h.1]
      exact ih.deref _ _ _ _ _ _ _ _ _ hd
    · rename_i hd
      exact Step.trans (ih.deref _ _ _ _ _ _ _ _ _ hd) (ih.revLoop _ _ _ _ _ _ _ _ _ _ h)

theorem step_walkLoop (f : Nat) (ih : AllStep f) (P : Prog) (s : LSt) (i : Nat) (snap : List Nat) (it : It)
    (arg : Nat) (cs : List Char) (r : Nat) (s' : LSt) (o : Outcome) (v : Nat)
    (h : Spec.walkLoop (f+1) P s i snap it arg cs r = some (s', o, v)) : Step s s' := by
  cases cs with
  | nil =>
    rw [Spec.walkLoop] at h
    simp only [Option.some.injEq, Prod.mk.injEq] at h; rw [← h.1]; exact Step.refl _
  | cons c cs =>
    rw [Spec.walkLoop] at h
    repeat' split at h
    all_goals first
      | exact ih.walkLoop _ _ _ _ _ _ _ _ _ _ _ h
      | (simp at h; done)
      | (rename_i hd
         simp only [Option.some.injEq, Prod.mk.injEq] at h; rw [← h.1]
         exact ih.deref _ _ _ _ _ _ _ _ _ hd)
      | (rename_i hd
         exact Step.trans (ih.deref _ _ _ _ _ _ _ _ _ hd) (ih.walkLoop _ _ _ _ _ _ _ _ _ _ _ h))

theorem step_runStrat (f : Nat) (ih : AllStep f) (P : Prog) (s : LSt) (i : Nat) (snap : List Nat) (arg : Nat)
    (strat : Strat) (s' : LSt) (o : Outcome) (v : Nat)
    (h : Spec.runStrat (f+1) P s i snap arg strat = some (s', o, v)) : Step s s' := by
  rw [Spec.runStrat.eq_def] at h
  simp only at h
  split at h
  all_goals first
    | exact ih.accLoop _ _ _ _ _ _ _ _ _ _ _ _ h
    | exact ih.revLoop _ _ _ _ _ _ _ _ _ _ h
    | exact ih.walkLoop _ _ _ _ _ _ _ _ _ _ _ h

theorem step_callS_epilogue (s1 : LSt) (i : Nat) :
    Step s1 (match aget s1.S i with
      | some v2 => { s1 with S := aset s1.S i { v2 with incall := v2.incall - 1 } }
      | none => s1.fail "callS: slot variable destroyed during its own call") := by
  split
  · exact step_frame rfl (Nat.le_refl _) rfl rfl
  · exact step_fail _ _

theorem step_execOp (f : Nat) (ih : AllStep f) (P : Prog) (s : LSt) (op : Op) (s' : LSt) (e : Except Unit String)
    (h : Spec.execOp (f+1) P s op = some (s', e)) : Step s s' := by
  rw [Spec.execOp.eq_def] at h
  simp only at h
  split at h
  · -- callS
    split at h
    · simp only [Option.some.injEq, Prod.mk.injEq] at h; rw [← h.1]; exact Step.refl _
    · split at h
      · simp only [Option.some.injEq, Prod.mk.injEq] at h; rw [← h.1]; exact Step.refl _
      · split at h
        · simp only [Option.some.injEq, Prod.mk.injEq] at h; rw [← h.1]; exact Step.refl _
        · split at h
          · split at h
            · simp only [Option.some.injEq, Prod.mk.injEq] at h; rw [← h.1]; exact Step.refl _
            · split at h
              · simp at h
              · rename_i s1 o1 r1 hi
                have h1 : Step s s1 :=
                  Step.after (ih.invokeFun _ _ _ _ _ _ _ hi) (step_frame rfl (Nat.le_refl _) rfl rfl)
                split at h <;>
                · simp only [Option.some.injEq, Prod.mk.injEq] at h; rw [← h.1]
                  exact Step.trans h1 (step_callS_epilogue _ _)
          · simp only [Option.some.injEq, Prod.mk.injEq] at h; rw [← h.1]; exact Step.refl _
  · -- emit
    split at h
    · simp only [Option.some.injEq, Prod.mk.injEq] at h; rw [← h.1]; exact Step.refl _
    · split at h
      · simp only [Option.some.injEq, Prod.mk.injEq] at h; rw [← h.1]; exact Step.refl _
      · split at h
        · simp only [Option.some.injEq, Prod.mk.injEq] at h; rw [← h.1]; exact Step.refl _
        · split at h
          · simp at h
          · rename_i he
            split at h <;>
            · simp only [Option.some.injEq, Prod.mk.injEq] at h; rw [← h.1]
              exact ih.emitSig _ _ _ _ _ _ _ _ _ he
          · rename_i he
            simp only [Option.some.injEq, Prod.mk.injEq] at h; rw [← h.1]
            exact ih.emitSig _ _ _ _ _ _ _ _ _ he
  · simp only [Option.some.injEq, Prod.mk.injEq] at h; rw [← h.1]; exact Step.refl _
  · split at h
    · simp only [Option.some.injEq, Prod.mk.injEq] at h; rw [← h.1]; exact Step.refl _
    · split at h
      · rename_i hs
        simp only [Option.some.injEq, Prod.mk.injEq] at h; rw [← h.1]
        exact step_stepSimple _ _ _ _ hs
      · simp only [Option.some.injEq, Prod.mk.injEq] at h; rw [← h.1]; exact Step.refl _

theorem allStep : ∀ f, AllStep f := by
  intro f
  induction f with
  | zero => exact allStep_zero
  | succ f ih =>
    exact ⟨step_invokeFun f ih, step_runBody f ih, step_execLine f ih, step_emitSig f ih, step_turns f ih,
      step_deref f ih, step_accLoop f ih, step_revLoop f ih, step_walkLoop f ih, step_runStrat f ih, step_execOp f ih⟩

/-- a top-level run is a `Step` -/
theorem step_runTop (f : Nat) (P : Prog) : ∀ (ls : List Line) (s s' : LSt), Spec.runTop f P s ls = some s' → Step s s' := by
  intro ls
  induction ls with
  | nil =>
    intro s s' h
    simp only [Spec.runTop, Option.some.injEq] at h
    rw [← h]; exact Step.refl _
  | cons l ls ihl =>
    intro s s' h
    simp only [Spec.runTop] at h
    split at h
    · simp at h
    · rename_i s1 o hl
      exact Step.trans ((allStep f).execLine _ _ _ _ _ hl) (ihl s1 s' h)

/-! ## the example states are well-formed -/

theorem WF_single (s : LSt) (i : Nat) (g : LSig) (hs : s.sigs = [(i, g)]) (hi : i < s.next)
    (hw : WFSig s.k1 s.k2 s.next g) : WF s := by
  intro j x hx
  rw [hs] at hx
  simp only [aget] at hx
  split at hx
  · cases hx; rename_i h; subst h; exact ⟨hi, hw⟩
  · cases hx

theorem exS_WF : WF exS :=
  WF_single exS 1 exSig rfl (by decide) ⟨by decide, by decide, fun _ => by decide, fun _ => rfl⟩

theorem exS2_WF : WF exS2 :=
  WF_single exS2 1 exSig2 rfl (by decide) ⟨by decide, by decide, fun _ => by decide, fun _ => rfl⟩

end Sigc.SpecP
