import Sigc.Lemmas.RefineTdC
/-!
# Refine work package — the simulation of the mutual block once more, now also tracking the specification's own
error flag (part D: statements; `invokeFun`, `runBody`, `execLine`, `execOp`).

`RE e s t` = `R s t` and `t.err = e`.  The statements and proofs are those of `RefineSimDefs` / `RefineSimA`
with `R` replaced by `RE e`: wherever the specification could call `fail` ("insert: no list", "emit: no list",
"emit: list died during its emission", "forward to a destroyed signal object", "callS: slot variable
destroyed during its own call") the simulation proof already shows that it takes the other branch.
-/
namespace Sigc.Refine
open Sigc.Model

/-- the simulation relation, and the specification's error flag has the value `e` -/
structure RE (e : Option String) (s : St) (t : Spec.LSt) : Prop where
  r : R s t
  err : t.err = e

namespace RE
variable {e : Option String} {s : St} {t : Spec.LSt}

theorem log (h : RE e s t) (ev : Event) : RE e (s.log ev) (t.log ev) := ⟨h.r.log ev, h.err⟩

theorem logRes (h : RE e s t) (d : Nat) (text : String) {rs rm : String} (hr : ResAllows rs rm) :
    RE e (s.log (.res d text rm)) (t.log (.res d text rs)) := ⟨h.r.logRes d text hr, h.err⟩

theorem setDepth (h : RE e s t) (d : Nat) : RE e { s with depth := d } { t with depth := d } :=
  ⟨h.r.setDepth d, h.err⟩

theorem setSteps (h : RE e s t) (n : Nat) : RE e { s with steps := n } { t with steps := n } :=
  ⟨h.r.setSteps n, h.err⟩

theorem updS (h : RE e s t) (x : List (Nat × SlotVar)) : RE e { s with S := x } { t with S := x } :=
  ⟨h.r.updS x, h.err⟩

theorem collect (hs : Emit.Inv s) (h : RE e s t) : RE e (Model.collect s) (Spec.collect t) :=
  ⟨R_collect hs h.r, (SErr.collect_err t).trans h.err⟩

end RE

theorem fail_err_ne (s : St) (m : String) : (s.fail m).err ≠ none := by
  unfold St.fail
  cases h : s.err <;> simp [h]

/-! ## the statements -/

def InvokeE (f : Nat) : Prop := ∀ e P s t fn arg s' o v, Emit.Inv s → Emit.FunOK s.G fn → RE e s t →
  Model.invokeFun f P s fn arg = some (s', o, v) →
  ∀ g, f ≤ g → ∃ t', Spec.invokeFun g P t fn arg = some (t', o, v) ∧ RE e s' t'

def BodyE (f : Nat) : Prop := ∀ e P s t ls s' o, Emit.Inv s → RE e s t → Quiet s →
  Model.runBody f P s ls = some (s', o) →
  ∀ g, f ≤ g → ∃ t', Spec.runBody g P t ls = some (t', o) ∧ RE e s' t'

def LineE (f : Nat) : Prop := ∀ e P s t l s' o, Emit.Inv s → RE e s t → Quiet s →
  Model.execLine f P s l = some (s', o) →
  ∀ g, f ≤ g → ∃ t', Spec.execLine g P t l = some (t', o) ∧ RE e s' t'

def EmitE (f : Nat) : Prop := ∀ e P s t fl impl arg strat s' o v, Emit.Inv s →
  (∀ i, impl = some i → (aget s.impls i).isSome = true) → RE e s t →
  Model.emitImpl f P s fl impl arg strat = some (s', o, v) →
  ∀ g, f ≤ g → ∃ t', Spec.emitSig g P t fl impl arg strat = some (t', o, v) ∧ RE e s' t'

def LoopE (f : Nat) : Prop := ∀ e P s t i cur m arg r (B : List (Nat × Bool)) (Z done todo tl : List Nat) s' o v,
  Emit.Inv s → RE e s t → Emit.InBlk s i B → B.map (·.1) = done ++ todo ++ [m] → todo ++ [m] = cur :: tl → Off Z s →
  Model.emitLoop f P s i cur m arg r = some (s', o, v) →
  ∀ g, f ≤ g → ∃ t', Spec.turns g P t i (todo.filter (fun k => !Z.contains k)) arg r = some (t', o, v) ∧ RE e s' t'

/-- `deref` for positions inside the snapshot (the end marker is never dereferenced) -/
def DerefE (f : Nat) : Prop := ∀ e P s t i itm its arg snap m (B : List (Nat × Bool)) s' o itm', Emit.Inv s → RE e s t →
  Emit.InBlk s i B → B.map (·.1) = snap ++ [m] → PosR snap m itm its → its.pos < snap.length →
  Model.deref f P s i itm arg = some (s', o, itm') →
  ∀ g, f ≤ g → ∃ t' its', Spec.deref g P t i snap its arg = some (t', o, its') ∧ RE e s' t' ∧ PosR snap m itm' its' ∧
    its'.pos = its.pos

def AccE (f : Nat) : Prop := ∀ e P s t i itm its m arg mode k r snap (B : List (Nat × Bool)) s' o v, Emit.Inv s → RE e s t →
  Emit.InBlk s i B → B.map (·.1) = snap ++ [m] → PosR snap m itm its →
  Model.accLoop f P s i itm m arg mode k r = some (s', o, v) →
  ∀ g, f ≤ g → ∃ t', Spec.accLoop g P t i snap its arg mode k r = some (t', o, v) ∧ RE e s' t'

def RevE (f : Nat) : Prop := ∀ e P s t i itm its first m arg r snap (B : List (Nat × Bool)) s' o v, Emit.Inv s → RE e s t →
  Emit.InBlk s i B → B.map (·.1) = snap ++ [m] → (snap ++ [m])[0]? = some first → PosR snap m itm its →
  Model.revLoop f P s i itm first arg r = some (s', o, v) →
  ∀ g, f ≤ g → ∃ t', Spec.revLoop g P t i snap its arg r = some (t', o, v) ∧ RE e s' t'

def WalkE (f : Nat) : Prop := ∀ e P s t i itm its first m arg ops r snap (B : List (Nat × Bool)) s' o v, Emit.Inv s → RE e s t →
  Emit.InBlk s i B → B.map (·.1) = snap ++ [m] → (snap ++ [m])[0]? = some first → PosR snap m itm its →
  Model.walkLoop f P s i itm first m arg ops r = some (s', o, v) →
  ∀ g, f ≤ g → ∃ t', Spec.walkLoop g P t i snap its arg ops r = some (t', o, v) ∧ RE e s' t'

def StratE (f : Nat) : Prop := ∀ e P s t i first m arg strat snap (B : List (Nat × Bool)) s' o v, Emit.Inv s → RE e s t →
  Emit.InBlk s i B → B.map (·.1) = snap ++ [m] → (snap ++ [m])[0]? = some first →
  Model.runStrat f P s i first m arg strat = some (s', o, v) →
  ∀ g, f ≤ g → ∃ t', Spec.runStrat g P t i snap arg strat = some (t', o, v) ∧ RE e s' t'

def OpE (f : Nat) : Prop := ∀ e P s t op s' res, Emit.Inv s → RE e s t → Quiet s →
  Model.execOp f P s op = some (s', res) →
  ∀ g, f ≤ g → ∃ t' res', Spec.execOp g P t op = some (t', res') ∧ RE e s' t' ∧ ResR res' res

/-! ## fuel 0 -/

theorem invoke_simE0 : InvokeE 0 := by
  intro e P s t fn arg s' o v _ _ _ h; simp [Model.invokeFun] at h

theorem body_simE0 : BodyE 0 := by
  intro e P s t ls s' o _ _ _ h; simp [Model.runBody] at h

theorem line_simE0 : LineE 0 := by
  intro e P s t l s' o _ _ _ h; simp [Model.execLine] at h

theorem op_simE0 : OpE 0 := by
  intro e P s t op s' res _ _ _ h; simp [Model.execOp] at h

/-! ## `invokeFun` -/

theorem invoke_simE (f : Nat) (hb : BodyE f) (hi : InvokeE f) (he : EmitE f) : InvokeE (f+1) := by
  intro e P s t fn arg s' o v hs hfn hR h g hg
  obtain ⟨g', rfl⟩ : ∃ g', g = g'+1 := ⟨g-1, by omega⟩
  have hfg : f ≤ g' := by omega
  have leafCase : ∀ fid, (match aget P.bodies fid with
      | none => some (s.log (.call s.depth fid arg), Outcome.ok, resultOf fid arg)
      | some body =>
        match Model.runBody f P { (s.log (.call s.depth fid arg)) with depth := (s.log (.call s.depth fid arg)).depth + 1 } body with
        | none => none
        | some (s, o) => some ({ s with depth := s.depth - 1 }, o, resultOf fid arg)) = some (s', o, v) →
      ∃ t', (match aget P.bodies fid with
      | none => some (t.log (.call t.depth fid arg), Outcome.ok, resultOf fid arg)
      | some body =>
        match Spec.runBody g' P { (t.log (.call t.depth fid arg)) with depth := (t.log (.call t.depth fid arg)).depth + 1 } body with
        | none => none
        | some (s, o) => some ({ s with depth := s.depth - 1 }, o, resultOf fid arg)) = some (t', o, v) ∧ RE e s' t' := by
    intro fid h
    rw [hR.r.depth]
    have hR1 : RE e (s.log (.call s.depth fid arg)) (t.log (.call s.depth fid arg)) := hR.log _
    split at h
    · simp at h; obtain ⟨h1, h2, h3⟩ := h; subst h1 h2 h3
      exact ⟨_, rfl, hR1⟩
    · split at h
      · contradiction
      · rename_i s2 o2 hr
        simp at h; obtain ⟨h1, h2, h3⟩ := h; subst h1 h2 h3
        have g1 : Emit.Good0 s { (s.log (.call s.depth fid arg)) with depth := (s.log (.call s.depth fid arg)).depth + 1 } :=
          Emit.Good.of_core hs rfl rfl rfl rfl (Nat.le_refl _)
        have hRd : RE e { (s.log (.call s.depth fid arg)) with depth := (s.log (.call s.depth fid arg)).depth + 1 }
            { (t.log (.call s.depth fid arg)) with depth := (t.log (.call s.depth fid arg)).depth + 1 } := by
          rw [hR1.r.depth]; exact hR1.setDepth _
        obtain ⟨t2, ht2, hR2⟩ := hb e P _ _ _ _ _ g1.inv hRd (Quiet.of_depth (Nat.succ_ne_zero _)) hr g' hfg
        simp only [ht2]
        rw [hR2.r.depth]
        exact ⟨_, rfl, hR2.setDepth _⟩
  cases fn with
  | leaf fid ts => rw [invokeFun.eq_def] at h; rw [Spec.invokeFun.eq_def]; exact leafCase fid h
  | owner fid a b => rw [invokeFun.eq_def] at h; rw [Spec.invokeFun.eq_def]; exact leafCase fid h
  | nest blocked inner =>
    rw [invokeFun.eq_def] at h
    simp only at h
    rw [Spec.invokeFun.eq_def]
    simp only
    cases inner with
    | none => simp at h; obtain ⟨h1, h2, h3⟩ := h; subst h1 h2 h3; exact ⟨t, rfl, hR⟩
    | some g0 =>
      simp only at h ⊢
      split at h
      · rename_i hbl
        simp at h; obtain ⟨h1, h2, h3⟩ := h; subst h1 h2 h3
        rw [if_pos hbl]; exact ⟨t, rfl, hR⟩
      · rename_i hbl
        rw [if_neg hbl]
        exact hi e P s t g0 arg s' o v hs (fun o ts ht => hfn o ts ht) hR h g' hfg
  | fwd ob ts =>
    rw [invokeFun.eq_def] at h
    simp only at h
    rw [Spec.invokeFun.eq_def]
    simp only
    obtain ⟨g0, hd, hh, hmem⟩ := Emit.handleByObj_some hfn (o := ob) (ts := ts) rfl
    rw [hh] at h
    rw [handleByObj_sim hR.r, hh]
    simp only at h ⊢
    exact he e P s t hd.fl hd.impl arg .sum s' o v hs (fun i hi => hs.himpl (g0, hd) hmem i hi) hR h g' hfg

/-! ## `runBody` -/

theorem body_simE (f : Nat) (hl : LineE f) (hb : BodyE f) : BodyE (f+1) := by
  intro e P s t ls s' o hs hR hq h g hg
  obtain ⟨g', rfl⟩ : ∃ g', g = g'+1 := ⟨g-1, by omega⟩
  have hfg : f ≤ g' := by omega
  cases ls with
  | nil =>
    rw [runBody] at h; simp at h; obtain ⟨h1, h2⟩ := h; subst h1 h2
    rw [Spec.runBody]; exact ⟨t, rfl, hR⟩
  | cons l ls =>
    rw [runBody] at h
    rw [Spec.runBody]
    split at h
    · contradiction
    · rename_i s1 h1
      simp at h; obtain ⟨e1, e2⟩ := h; subst e1 e2
      obtain ⟨t1, ht1, hR1⟩ := hl e P s t l _ _ hs hR hq h1 g' hfg
      simp only [ht1]; exact ⟨t1, rfl, hR1⟩
    · rename_i s1 h1
      obtain ⟨t1, ht1, hR1⟩ := hl e P s t l _ _ hs hR hq h1 g' hfg
      simp only [ht1]
      have g1 := (Emit.all_ok f).line P s l _ _ hs h1
      exact hb e P s1 t1 ls s' o g1.inv hR1 (Quiet.step hq g1.frame (execLine_keeps h1).depth) h g' hfg

/-! ## `execLine` -/

theorem line_simE (f : Nat) (ho : OpE f) : LineE (f+1) := by
  intro e P s t l s' o hs hR hq h g hg
  obtain ⟨g', rfl⟩ : ∃ g', g = g'+1 := ⟨g-1, by omega⟩
  have hfg : f ≤ g' := by omega
  rw [execLine] at h
  rw [Spec.execLine]
  have g0 : Emit.Good0 s { s with steps := s.steps + 1 } := Emit.Good.of_core hs rfl rfl rfl rfl (Nat.le_refl _)
  have hR0 : RE e { s with steps := s.steps + 1 } { t with steps := t.steps + 1 } := by
    rw [hR.r.steps]; exact hR.setSteps _
  have hq0 : Quiet { s with steps := s.steps + 1 } := Quiet.step hq g0.frame rfl
  split at h
  · contradiction
  · rename_i s1 _ h1
    simp at h; obtain ⟨e1, e2⟩ := h; subst e1 e2
    obtain ⟨t1, res1, ht1, hR1, hres⟩ := ho e P _ _ _ _ _ g0.inv hR0 hq0 h1 g' hfg
    have g1 := (Emit.all_ok f).op P _ _ _ _ g0.inv h1
    have g2 : Emit.Good0 s (s1.log (.res s1.depth l.text "exc")) :=
      (g0.trans g1).congr rfl rfl rfl rfl (Nat.le_refl _)
    cases res1 with
    | ok r => exact absurd hres (by simp [ResR])
    | error u =>
      simp only [ht1]
      rw [hR1.r.depth]
      exact ⟨_, rfl, (hR1.log _).collect g2.inv⟩
  · rename_i s1 r h1
    simp at h; obtain ⟨e1, e2⟩ := h; subst e1 e2
    obtain ⟨t1, res1, ht1, hR1, hres⟩ := ho e P _ _ _ _ _ g0.inv hR0 hq0 h1 g' hfg
    have g1 := (Emit.all_ok f).op P _ _ _ _ g0.inv h1
    have g2 : Emit.Good0 s (s1.log (.res s1.depth l.text r)) :=
      (g0.trans g1).congr rfl rfl rfl rfl (Nat.le_refl _)
    cases res1 with
    | error u => exact absurd hres (by simp [ResR])
    | ok r' =>
      simp only [ht1]
      rw [hR1.r.depth]
      exact ⟨_, rfl, (hR1.logRes _ _ hres).collect g2.inv⟩

/-! ## `execOp` -/

/-- both sides end with the same result -/
theorem fin_resE {e : Option String} {s1 s' : St} {t1 : Spec.LSt} {x res : Except Unit String} (hR : RE e s1 t1)
    (h : some (s1, x) = some (s', res)) :
    ∃ t' res', some (t1, x) = some (t', res') ∧ RE e s' t' ∧ ResR res' res := by
  simp at h; obtain ⟨h1, h2⟩ := h; subst h1 h2
  exact ⟨t1, x, rfl, hR, ResR.refl x⟩

/-- the operations without user code -/
theorem fall_simE {e : Option String} {P : Prog} {s s' : St} {t : Spec.LSt} {op : Op} {res : Except Unit String}
    (hs : Emit.Inv s) (hR : RE e s t) (hq : Quiet s)
    (h : (match Model.modeRule P s op with
      | some r => some (s, (Except.ok r : Except Unit String))
      | none =>
        match Model.stepSimple s op with
        | some (s, r) => some (s, Except.ok r)
        | none => some (s, Except.ok "badop")) = some (s', res)) :
    ∃ t' res', (match Spec.modeRule P t op with
      | some r => some (t, (Except.ok r : Except Unit String))
      | none =>
        match Spec.stepSimple t op with
        | some (s, r) => some (s, Except.ok r)
        | none => some (t, Except.ok "badop")) = some (t', res') ∧ RE e s' t' ∧ ResR res' res := by
  rw [modeRule_sim hR.r]
  split at h
  · rename_i r hm
    exact fin_resE hR h
  · rename_i hm
    obtain ⟨h1, h2⟩ := stepSim_all op s t hs hR.r hq
    split at h
    · rename_i s1 r hst
      obtain ⟨t1, r1, ht1, hR1, hr⟩ := h1 _ _ hst
      simp only [ht1]
      simp at h; obtain ⟨e1, e2⟩ := h; subst e1 e2
      exact ⟨_, _, rfl, ⟨hR1, (SErr.stepSimple_err (SErr.HI.of_R hs hR.r) ht1).trans hR.err⟩, hr⟩
    · rename_i hst
      rw [h2 hst]; exact fin_resE hR h

theorem op_simE (f : Nat) (hi : InvokeE f) (he : EmitE f) : OpE (f+1) := by
  intro e P s t op s' res hs hR hq h g hg
  obtain ⟨g', rfl⟩ : ∃ g', g = g'+1 := ⟨g-1, by omega⟩
  have hfg : f ≤ g' := by omega
  have hgood := (Emit.all_ok (f+1)).op P s op s' res hs h
  rw [execOp.eq_def] at h
  simp only at h
  rw [Spec.execOp.eq_def]
  simp only
  split at h
  · -- callS
    rename_i i arg
    have eS : aget t.S i = aget s.S i := by rw [hR.r.S]
    simp only
    rw [eS]
    split at h
    · rename_i hv
      rw [hv]; exact fin_resE hR h
    · rename_i v hv
      rw [hv]; simp only
      split at h
      · rename_i hd
        rw [if_pos (by rw [hR.r.depth]; exact hd)]; exact fin_resE hR h
      · rename_i hd
        rw [if_neg (by rw [hR.r.depth]; exact hd)]
        split at h
        · rename_i hst
          rw [if_pos (by rw [hR.r.steps]; exact hst)]; exact fin_resE hR h
        · rename_i hst
          rw [if_neg (by rw [hR.r.steps]; exact hst)]
          split at h
          · rename_i fn hrep
            rw [hrep]; simp only
            split at h
            · rename_i hbl
              rw [if_pos hbl]; exact fin_resE hR h
            · rename_i hbl
              rw [if_neg hbl]
              have hsl := hs.fwdS i v hv
              have h0 : Emit.Inv { s with S := aset s.S i { v with incall := v.incall + 1 } } :=
                hs.setS i _ hsl
              have hR0 : RE e { s with S := aset s.S i { v with incall := v.incall + 1 } }
                  { t with S := aset t.S i { v with incall := v.incall + 1 } } := by
                rw [hR.r.S]; exact hR.updS _
              split at h
              · contradiction
              · rename_i s1 o r hinv
                obtain ⟨t1, ht1, hR1⟩ := hi e P _ _ fn arg s1 o r h0 (hsl _ fn hrep rfl) hR0 hinv g' hfg
                simp only [ht1]
                have e1 : aget t1.S i = aget s1.S i := by rw [hR1.r.S]
                rw [e1]
                cases hv2 : aget s1.S i with
                | none =>
                  rw [hv2] at h
                  exfalso
                  have hne : ∀ (x : Except Unit String),
                      some (s1.fail "callS: slot variable destroyed during its own call", x) = some (s', res) → False := by
                    intro x hx
                    simp only [Option.some.injEq, Prod.mk.injEq] at hx
                    have := hgood.inv.noerr
                    rw [← hx.1] at this
                    exact fail_err_ne _ _ this
                  cases o <;> simp only at h <;> exact hne _ h
                | some v2 =>
                  rw [hv2] at h
                  have hR2 : RE e { s1 with S := aset s1.S i { v2 with incall := v2.incall - 1 } }
                      { t1 with S := aset t1.S i { v2 with incall := v2.incall - 1 } } := by
                    rw [hR1.r.S]; exact hR1.updS _
                  cases o <;> simp only at h ⊢ <;> exact fin_resE hR2 h
          · rename_i hno
            split
            · rename_i fn hrep
              exact absurd hrep (hno fn)
            · exact fin_resE hR h
  · -- emit
    rename_i gi arg strat try_
    have eG : aget t.G gi = aget s.G gi := by rw [hR.r.G]
    simp only
    rw [eG]
    split at h
    · rename_i hgn
      rw [hgn]; exact fin_resE hR h
    · rename_i hd hgs
      rw [hgs]; simp only
      split at h
      · rename_i hdp
        rw [if_pos (by rw [hR.r.depth]; exact hdp)]; exact fin_resE hR h
      · rename_i hdp
        rw [if_neg (by rw [hR.r.depth]; exact hdp)]
        split at h
        · rename_i hst
          rw [if_pos (by rw [hR.r.steps]; exact hst)]; exact fin_resE hR h
        · rename_i hst
          rw [if_neg (by rw [hR.r.steps]; exact hst)]
          have hh : ∀ k, hd.impl = some k → (aget s.impls k).isSome = true :=
            fun k hk => hs.himpl (gi, hd) (Emit.aget_some_mem hgs) k hk
          split at h
          · contradiction
          · rename_i s1 v1 hem
            obtain ⟨t1, ht1, hR1⟩ := he e P s t hd.fl hd.impl arg strat s1 _ v1 hs hh hR hem g' hfg
            simp only [ht1]
            split at h
            · rename_i htry
              rw [if_pos htry]; exact fin_resE hR1 h
            · rename_i htry
              rw [if_neg htry]; exact fin_resE hR1 h
          · rename_i s1 v1 hem
            obtain ⟨t1, ht1, hR1⟩ := he e P s t hd.fl hd.impl arg strat s1 _ v1 hs hh hR hem g' hfg
            simp only [ht1]
            exact fin_resE hR1 h
  · -- throw_
    simp only
    exact fin_resE hR h
  · -- everything else
    rename_i n1 n2 n3
    split
    · exact (n1 _ _ rfl).elim
    · exact (n2 _ _ _ _ rfl).elim
    · exact (n3 rfl).elim
    · exact fall_simE hs hR hq h

end Sigc.Refine
