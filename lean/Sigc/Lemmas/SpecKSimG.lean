import Sigc.Lemmas.SpecKSimF
/-!
# SpecK — the mutual induction on fuel, part G: all statements for every fuel, and the run of the top-level
operations.
-/
namespace Sigc.SpecK
open Sigc.Model Sigc.Spec

theorem all_zero : All 0 := by
  refine ⟨?_, ?_, ?_, ?_, ?_, ?_, ?_, ?_, ?_, ?_, ?_⟩
  · intro P ρ t u fn fn' arg t' o v _ _ _ _ hr; unfold Spec.invokeFun at hr; simp at hr
  · intro P ρ t u ls t' o _ _ _ _ hr; unfold Spec.runBody at hr; simp at hr
  · intro P ρ t u l t' o _ _ _ _ hr; unfold Spec.execLine at hr; simp at hr
  · intro P ρ t u op t' e _ _ _ _ hr; unfold Spec.execOp at hr; simp at hr
  · intro P ρ t u fl impl impl' arg strat t' o v _ _ _ _ _ hr; unfold Spec.emitSig at hr; simp at hr
  · intro P ρ t u i i' snap snap' arg r t' o v _ _ _ _ _ hr; unfold Spec.turns at hr; simp at hr
  · intro P ρ t u i i' snap snap' it arg t' o it' _ _ _ _ _ hr; unfold Spec.deref at hr; simp at hr
  · intro P ρ t u i i' snap snap' it arg mode k r t' o v _ _ _ _ _ hr; unfold Spec.accLoop at hr; simp at hr
  · intro P ρ t u i i' snap snap' it arg r t' o v _ _ _ _ _ hr; unfold Spec.revLoop at hr; simp at hr
  · intro P ρ t u i i' snap snap' it arg ops r t' o v _ _ _ _ _ hr; unfold Spec.walkLoop at hr; simp at hr
  · intro P ρ t u i i' snap snap' arg strat t' o v _ _ _ _ _ hr; unfold Spec.runStrat at hr; simp at hr

theorem all_succ (f : Nat) (ih : All f) : All (f+1) :=
  ⟨invoke_succ f ih, body_succ f ih, line_succ f ih, op_succ f ih, emit_succ f ih, turns_succ f ih, deref_succ f ih,
    acc_succ f ih, rev_succ f ih, walk_succ f ih, strat_succ f ih⟩

/-- every statement of the mutual induction, for every fuel -/
theorem all (f : Nat) : All f := by
  induction f with
  | zero => exact all_zero
  | succ f ih => exact all_succ f ih

/-- the run of the top-level operations: no emission is in progress between them -/
theorem runTop_sim (f : Nat) (P : Prog) : ∀ (ls : List Line) (ρ : IdRel) (t u t' : LSt),
    Q ρ t u → Settled t → (∀ i, act t i = 0) → clearTop f P t ls = true → Spec.runTop f P t ls = some t' →
    ∃ u', Spec.runTop (f+1) P u ls = some u' ∧ ∃ ρ', Q ρ' t' u' := by
  intro ls
  induction ls with
  | nil =>
    intro ρ t u t' hq _ _ _ hr
    unfold Spec.runTop at hr ⊢
    simp only [Option.some.injEq] at hr
    subst hr
    exact ⟨u, rfl, ρ, hq⟩
  | cons l ls ihl =>
    intro ρ t u t' hq hst hidle hc hr
    unfold Spec.runTop at hr ⊢
    unfold clearTop at hc
    have hc := (Bool.and_eq_true _ _).mp hc
    cases hl : Spec.execLine f P t l with
    | none => rw [hl] at hr; simp at hr
    | some res =>
      obtain ⟨t1, o1⟩ := res
      rw [hl] at hr hc
      simp only at hr hc
      obtain ⟨u1, e1, ⟨ρ1, hq1, _, hf1⟩, hst1⟩ := (all f).line P ρ t u l t1 o1 hq hst (fun _ => hidle) hc.1 hl
      rw [e1]
      simp only
      exact ihl ρ1 t1 u1 t' hq1 hst1 (fun i => by rw [hf1.act i]; exact hidle i) hc.2 hr

/-! ## concrete programs used by the examples of the property file -/

/-- an emission of an existing *empty* list (the `k2` shortcut: the two configurations allocate different ids
    afterwards), then a re-entrant emission in which the running slot disconnects itself and another slot
    (zombie positions vs immediate removal), queries in between -/
def exEmpty : Prog :=
  { bodies := [(1, [⟨"disc C0", .disc 0⟩, ⟨"disc C1", .disc 1⟩, ⟨"emit G0 3", .emit 0 3 .sum false⟩,
                    ⟨"size? G0", .sizeq 0⟩])],
    top := [⟨"newG G0 I", .newG 0 (some .I)⟩, ⟨"connfn C0 G0 fn:1", .connfn 0 0 (.fn 1) false⟩,
            ⟨"disc C0", .disc 0⟩, ⟨"emit G0 1", .emit 0 1 .sum false⟩, ⟨"newT T1", .newT 1⟩,
            ⟨"connfn C0 G0 fn:1", .connfn 0 0 (.fn 1) false⟩, ⟨"connfn C1 G0 trk:2:T1", .connfn 1 0 (.trk 2 1 none) false⟩,
            ⟨"connfn C2 G0 fn:3", .connfn 2 0 (.fn 3) false⟩, ⟨"emit G0 7", .emit 0 7 .sum false⟩,
            ⟨"size? G0", .sizeq 0⟩, ⟨"connected? C1", .connectedq 1⟩] }

/-- known finding K1 (corpus/C01/K1_empty_slot_counted_until_sweep): an *empty* slot is connected and a deferred
    sweep drops it -/
def exK1 : Prog :=
  { bodies := [(1, [⟨"disc C2", .disc 2⟩])],
    top := [⟨"newG G0 V", .newG 0 (some .V)⟩, ⟨"mkS0 S0 V", .mkS0 0 "V"⟩, ⟨"conn C0 G0 S0", .conn 0 0 0 false false⟩,
            ⟨"connfn C1 G0 fn:1", .connfn 1 0 (.fn 1) false⟩, ⟨"connfn C2 G0 fn:2", .connfn 2 0 (.fn 2) false⟩,
            ⟨"size? G0", .sizeq 0⟩, ⟨"emit G0 1", .emit 0 1 .sum false⟩, ⟨"size? G0", .sizeq 0⟩] }

/-- known finding K2 (corpus/C13/K2_nested_accumulated_emission_sees_markers): an accumulated emission starts
    while an emission of the same list runs -/
def exK2 : Prog :=
  { bodies := [(1, [⟨"emit G0 2 never", .emit 0 2 .never false⟩, ⟨"emit G0 3 sum", .emit 0 3 .sum false⟩])],
    top := [⟨"newG G0 A", .newG 0 (some .A)⟩, ⟨"connfn C0 G0 fn:1", .connfn 0 0 (.fn 1) false⟩,
            ⟨"emit G0 1 sum", .emit 0 1 .sum false⟩] }

/-- functor-owned signal objects (`ownG:`): an emission of an existing empty list first (the two configurations
    allocate different ids afterwards, so the owner ids differ), two lists owned by functors held in `G1`;
    `delG G0` is refused (`owned`); the only copy of the functor owning `G0` is released *during an emission of
    `G0`* (`disc C0` in the body of functor 2: `collect` → `dropHandle`, `size? G0` answers `dead`, the emission
    goes on with the next slot); `G2` stays owned to the end -/
def exOwnG : Prog :=
  { owners := true,
    bodies := [(2, [⟨"disc C0", .disc 0⟩, ⟨"size? G0", .sizeq 0⟩])],
    top := [⟨"newG G0 I", .newG 0 (some .I)⟩, ⟨"newG G1 I", .newG 1 (some .I)⟩, ⟨"newG G2 I", .newG 2 (some .I)⟩,
            ⟨"connfn C3 G1 fn:9", .connfn 3 1 (.fn 9) false⟩, ⟨"disc C3", .disc 3⟩,
            ⟨"emit G1 1", .emit 1 1 .sum false⟩,
            ⟨"connfn C0 G1 ownG:1:G0", .connfn 0 1 (.ownG 1 0) false⟩,
            ⟨"connfn C4 G1 ownG:4:G2", .connfn 4 1 (.ownG 4 2) false⟩,
            ⟨"connfn C1 G0 fn:2", .connfn 1 0 (.fn 2) false⟩,
            ⟨"connfn C2 G0 fn:3", .connfn 2 0 (.fn 3) false⟩,
            ⟨"delG G0", .delG 0⟩,
            ⟨"emit G0 5", .emit 0 5 .sum false⟩,
            ⟨"emit G0 7", .emit 0 7 .sum false⟩,
            ⟨"size? G1", .sizeq 1⟩] }

/-- the number of entries of the first list of the state -/
def firstLen (s : LSt) : Option Nat := s.sigs.head?.map (·.2.cells.length)

end Sigc.SpecK
