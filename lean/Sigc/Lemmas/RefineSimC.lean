import Sigc.Lemmas.RefineSimDefs
/-!
# Refine work package — the loop of a non-accumulating emission (`emitLoop`, pointer chasing from
`cur` to the end marker) is simulated by the specification's `turns` over the snapshot.
-/
namespace Sigc.Refine
open Sigc.Model

theorem loop_sim0 : LoopS 0 := by
  intro P s t i cur m arg r B Z done todo tl s' o v _ _ _ _ _ _ h
  simp [Model.emitLoop] at h

/-- a cell whose id is in `Z` is not callable -/
theorem off_not_callable {s : St} (hs : Emit.Inv s) {Z : List Nat} (hoff : Off Z s) {i cur : Nat} (hz : cur ∈ Z) :
    StepIter.callableAt s i cur = none := by
  cases hi : aget s.impls i with
  | none => simp [StepIter.callableAt, hi]
  | some im =>
    cases hc : im.cells.find? (fun c => c.id = cur) with
    | none => simp [StepIter.callableAt, hi, hc]
    | some c =>
      rw [callableAt_eq hi hc]
      obtain ⟨hcm, hcid⟩ := Emit.find_mem hc
      have hl := hoff.2 (i, im) (Emit.aget_some_mem hi) c hcm (by rw [hcid]; exact hz)
      exact slotCallable_empty ((hs.ok i im hi).l c hcm hl)

theorem loop_sim (f : Nat) (hi : InvokeS f) (hl : LoopS f) : LoopS (f+1) := by
  intro P s t i cur m arg r B Z done todo tl s' o v hs hR hb hB hcur hoff h g hg
  obtain ⟨g', rfl⟩ : ∃ g', g = g' + 1 := ⟨g - 1, by omega⟩
  have hg' : f ≤ g' := by omega
  rw [StepIter.emitLoop_unfold] at h
  obtain ⟨im, pre, post, him, hids, hn, hnB⟩ := blk_ids hs hb
  rw [hB] at hnB
  by_cases hcm : cur = m
  · simp only [hcm, if_true] at h
    cases h
    have htodo : todo = [] := by
      cases todo with
      | nil => rfl
      | cons x xs =>
        exfalso
        simp at hcur
        have hx : x = m := by rw [hcur.1, hcm]
        have := (List.nodup_append.mp hnB).2.2 m (by rw [← hx]; simp) m (by simp)
        exact this rfl
    subst htodo
    refine ⟨t, ?_, hR⟩
    simp [Spec.turns]
  · simp only [hcm, if_false] at h
    cases todo with
    | nil => simp at hcur; exact absurd hcur.1.symm hcm
    | cons x todo' =>
      simp at hcur
      obtain ⟨hx, htl⟩ := hcur
      subst hx
      obtain ⟨n, tl', hnt⟩ : ∃ n tl', todo' ++ [m] = n :: tl' := by
        cases todo' with
        | nil => exact ⟨m, [], rfl⟩
        | cons y ys => exact ⟨y, ys ++ [m], rfl⟩
      have hB' : B.map (·.1) = done ++ x :: n :: tl' := by
        rw [hB]; simp; rw [← hnt]
      have hB2 : B.map (·.1) = (done ++ [x]) ++ todo' ++ [m] := by rw [hB]; simp
      obtain ⟨im0, c, him0, hfind⟩ := hb.find (k := x) (by rw [hB]; simp)
      rw [him0] at h
      simp only [hfind] at h
      by_cases hz : x ∈ Z
      · -- the cell is unlinked for good: the model steps over it, the specification has no turn for it
        have hfil : (x :: todo').filter (fun k => !Z.contains k) = todo'.filter (fun k => !Z.contains k) := by
          simp [List.filter, hz]
        rw [hfil]
        simp only [StepIter.emitStep, off_not_callable hs hoff hz] at h
        obtain ⟨im1, him1, hsucc⟩ := blk_succ hs hb hB'
        rw [him1] at h
        simp only [hsucc] at h
        exact hl P s t i n m arg r B Z (done ++ [x]) todo' tl' s' o v hs hR hb hB2 hnt hoff h (g' + 1) (by omega)
      · have hfil : (x :: todo').filter (fun k => !Z.contains k) = x :: todo'.filter (fun k => !Z.contains k) := by
          simp [List.filter, hz]
        rw [hfil, StepIter.spec_turns_unfold, callable_sim hs hR]
        simp only [StepIter.emitStep] at h
        cases hc : StepIter.callableAt s i x with
        | none =>
          simp only [hc] at h ⊢
          obtain ⟨im1, him1, hsucc⟩ := blk_succ hs hb hB'
          rw [him1] at h
          simp only [hsucc] at h
          exact hl P s t i n m arg r B Z (done ++ [x]) todo' tl' s' o v hs hR hb hB2 hnt hoff h g' hg'
        | some fn =>
          simp only [hc] at h ⊢
          obtain ⟨im2, c2, him2, hfind2, hrep, _⟩ := StepIter.callableAt_eq_some s i x fn hc
          have hfok : Emit.FunOK s.G fn :=
            hs.fwdC i im2 him2 c2 (Emit.find_mem hfind2).1 _ fn hrep rfl
          cases hinv : Model.invokeFun f P s fn arg with
          | none => rw [hinv] at h; simp at h
          | some res =>
            obtain ⟨s1, o1, v1⟩ := res
            rw [hinv] at h
            obtain ⟨t1, ht1, hR1⟩ := hi P s t fn arg s1 o1 v1 hs hfok hR hinv g' hg'
            rw [ht1]
            have g1 := (Emit.all_ok f).invoke P s fn arg s1 o1 v1 hs hfok hinv
            cases o1 with
            | exc =>
              simp only at h ⊢
              cases h
              exact ⟨t1, rfl, hR1⟩
            | ok =>
              simp only at h ⊢
              have hb1 := hb.frame g1.frame
              have hoff1 := ((all_keeps f).invoke P s fn arg s1 .ok v1 hinv).off Z hoff
              obtain ⟨im1, him1, hsucc⟩ := blk_succ g1.inv hb1 hB'
              rw [him1] at h
              simp only [hsucc] at h
              exact hl P s1 t1 i n m arg v1 B Z (done ++ [x]) todo' tl' s' o v g1.inv hR1 hb1 hB2 hnt hoff1 h g' hg'

end Sigc.Refine
