import Sigc.Lemmas.FuelLvlOps
/-!
# Fuel work package — the level invariant is preserved by every operation that runs no user code (`stepSimple`)
-/
namespace Sigc.Fuel
open Sigc.Model

theorem sub_lit_next {a x : St} (h : Sub a x) {n : Nat} (hn : x.next ≤ n) {t : List (Nat × Nat)}
    {c k : List (Nat × Option Nat)} {oT : List Nat}
    {oK : List (Nat × Option Nat)} {oG : List (Nat × Nat)} {d st : Nat} {tr : List Event} {e : Option String} :
    Sub a { T := t, S := x.S, G := x.G, C := c, K := k, impls := x.impls, ownedT := oT, ownedK := oK, ownedG := oG,
            next := n, depth := d, steps := st, trace := tr, err := e } :=
  (sub_next h hn).congr rfl rfl rfl rfl

theorem sub_lit_next1 {a x : St} (h : Sub a x) {t : List (Nat × Nat)}
    {c k : List (Nat × Option Nat)} {oT : List Nat}
    {oK : List (Nat × Option Nat)} {oG : List (Nat × Nat)} {d st : Nat} {tr : List Event} {e : Option String} :
    Sub a { T := t, S := x.S, G := x.G, C := c, K := k, impls := x.impls, ownedT := oT, ownedK := oK, ownedG := oG,
            next := x.next + 1, depth := d, steps := st, trace := tr, err := e } :=
  sub_lit_next h (Nat.le_succ _)

theorem sub_setConn' {a x : St} (h : Sub a x) (k : Nat) (p : Option Nat) :
    Sub a { x with C := aset x.C k p } := h.congr rfl rfl rfl rfl

/-! ## slot variables -/

section
variable {k : Option (Nat × Nat)} {s s' : St} {r : String}

theorem simple_mkS {i : Nat} {ty : String} {f : FSpec} (hJ : JK k s)
    (h : stepSimple s (.mkS i ty f) = some (s', r)) : JK k s' := by
  simp only [stepSimple] at h
  repeat' split at h
  all_goals (simp only [Option.some.injEq, Prod.mk.injEq] at h; obtain ⟨rfl, _⟩ := h)
  all_goals (first | exact hJ | skip)
  obtain ⟨h1, h2⟩ := mkFun_lvl hJ.1 ‹_›
  refine JK.setS (JK.sub h1 hJ) i _ ?_
  intro fn' hfn'
  simp only [fnOf, Option.some.injEq] at hfn'
  subst hfn'
  exact h2

theorem simple_setS {i : Nat} {f : FSpec} (hJ : JK k s)
    (h : stepSimple s (.setS i f) = some (s', r)) : JK k s' := by
  simp only [stepSimple] at h
  repeat' split at h
  all_goals (simp only [Option.some.injEq, Prod.mk.injEq] at h; obtain ⟨rfl, _⟩ := h)
  all_goals (first | exact hJ | skip)
  all_goals
    obtain ⟨h1, h2⟩ := mkFun_lvl hJ.1 ‹_›
    refine JK.setS (JK.sub h1 hJ) i _ ?_
    intro fn' hfn'
    simp only [fnOf, Option.some.injEq] at hfn'
    subst hfn'
    refine h2.mono ?_
    simp only []
    omega

theorem src_same {S : List (Nat × SlotVar)} {j : Nat} {v v' : SlotVar} (hv : aget S j = some v)
    (ht : v.taint ≤ v'.taint) (hf : fnOf v'.slot = fnOf v.slot) :
    fnOf v'.slot = none ∨ ∃ j v, aget S j = some v ∧ v.taint ≤ v'.taint ∧ fnOf v'.slot = fnOf v.slot :=
  Or.inr ⟨j, v, hv, ht, hf⟩

theorem src_copy {S : List (Nat × SlotVar)} {j : Nat} {v v' : SlotVar} (hv : aget S j = some v)
    (ht : v.taint ≤ v'.taint) (hf : fnOf v'.slot = fnOf v.slot.copy) :
    fnOf v'.slot = none ∨ ∃ j v, aget S j = some v ∧ v.taint ≤ v'.taint ∧ fnOf v'.slot = fnOf v.slot := by
  rcases fnOf_copy v.slot with e | e
  · exact Or.inl (hf.trans e)
  · exact Or.inr ⟨j, v, hv, ht, hf.trans e⟩

/-- closes `fnOf v'.slot = none ∨ ∃ j v, aget s.S j = some v ∧ v.taint ≤ v'.taint ∧ fnOf v'.slot = fnOf v.slot`
    from a slot variable read by the operation -/
macro "src_tac " hv:ident : tactic => `(tactic| first
  | exact Or.inl rfl
  | exact Or.inl (fnOf_move_snd _)
  | exact src_same $hv (by simp only []; omega) rfl
  | exact src_same $hv (by simp only []; omega) (fnOf_disconnectRep _)
  | exact src_same $hv (by simp only []; omega) (fnOf_move_fst _)
  | exact src_copy $hv (by simp only []; omega) rfl)

theorem simple_mkS0 {i : Nat} {ty : String} (hJ : JK k s)
    (h : stepSimple s (.mkS0 i ty) = some (s', r)) : JK k s' := by
  simp only [stepSimple] at h
  repeat' split at h
  all_goals (simp only [Option.some.injEq, Prod.mk.injEq] at h; obtain ⟨rfl, _⟩ := h)
  all_goals (first | exact hJ | skip)
  exact JK.sub (sub_setS (Sub.refl s) _ _ (Or.inl rfl)) hJ

theorem simple_cpS {j i : Nat} (hJ : JK k s)
    (h : stepSimple s (.cpS j i) = some (s', r)) : JK k s' := by
  simp only [stepSimple] at h
  repeat' split at h
  all_goals (simp only [Option.some.injEq, Prod.mk.injEq] at h; obtain ⟨rfl, _⟩ := h)
  all_goals (first | exact hJ | skip)
  have hv := ‹aget s.S i = some _›
  exact JK.sub (sub_setS (Sub.refl s) _ _ (by src_tac hv)) hJ

theorem simple_discS {i : Nat} (hJ : JK k s)
    (h : stepSimple s (.discS i) = some (s', r)) : JK k s' := by
  simp only [stepSimple] at h
  repeat' split at h
  all_goals (simp only [Option.some.injEq, Prod.mk.injEq] at h; obtain ⟨rfl, _⟩ := h)
  all_goals (first | exact hJ | skip)
  have hv := ‹aget s.S i = some _›
  exact JK.sub (sub_setS (Sub.refl s) _ _ (by src_tac hv)) hJ

theorem simple_blockS {i : Nat} {b : Bool} (hJ : JK k s)
    (h : stepSimple s (.blockS i b) = some (s', r)) : JK k s' := by
  simp only [stepSimple] at h
  repeat' split at h
  all_goals (simp only [Option.some.injEq, Prod.mk.injEq] at h; obtain ⟨rfl, _⟩ := h)
  all_goals (first | exact hJ | skip)
  have hv := ‹aget s.S i = some _›
  exact JK.sub (sub_setS (Sub.refl s) _ _ (by src_tac hv)) hJ

theorem simple_mvS {j i : Nat} (hJ : JK k s)
    (h : stepSimple s (.mvS j i) = some (s', r)) : JK k s' := by
  simp only [stepSimple] at h
  repeat' split at h
  all_goals (simp only [Option.some.injEq, Prod.mk.injEq] at h; obtain ⟨rfl, _⟩ := h)
  all_goals (first | exact hJ | skip)
  have hv := ‹aget s.S i = some _›
  refine JK.sub (Sub.ofS ?_) hJ
  intro a w hw
  simp only [Sigc.Inv.aget_aset] at hw
  split at hw
  · cases hw; src_tac hv
  · split at hw
    · cases hw; src_tac hv
    · exact Or.inr ⟨a, w, hw, Int.le_refl _, rfl⟩

theorem simple_asgS {j i : Nat} (hJ : JK k s)
    (h : stepSimple s (.asgS j i) = some (s', r)) : JK k s' := by
  simp only [stepSimple] at h
  repeat' split at h
  all_goals (simp only [Option.some.injEq, Prod.mk.injEq] at h; obtain ⟨rfl, _⟩ := h)
  all_goals (first | exact hJ | skip)
  all_goals
    have hd := ‹aget s.S j = some _›
    have hv := ‹aget s.S i = some _›
    refine JK.sub (sub_setS (Sub.refl s) _ _ ?_) hJ
    first | src_tac hd | src_tac hv

theorem simple_masgS {j i : Nat} (hJ : JK k s)
    (h : stepSimple s (.masgS j i) = some (s', r)) : JK k s' := by
  simp only [stepSimple] at h
  repeat' split at h
  all_goals (simp only [Option.some.injEq, Prod.mk.injEq] at h; obtain ⟨rfl, _⟩ := h)
  all_goals (first | exact hJ | skip)
  all_goals
    have hd := ‹aget s.S j = some _›
    have hv := ‹aget s.S i = some _›
    first
    | (refine JK.sub (sub_setS (Sub.refl s) _ _ ?_) hJ
       first | src_tac hd | src_tac hv)
    | (refine JK.sub (Sub.ofS ?_) hJ
       intro a w hw
       simp only [Sigc.Inv.aget_aset] at hw
       split at hw
       · cases hw; first | src_tac hd | src_tac hv
       · split at hw
         · cases hw; first | src_tac hd | src_tac hv
         · exact Or.inr ⟨a, w, hw, Int.le_refl _, rfl⟩)

/-! ## signal objects -/

/-- a fresh signal object -/
theorem fresh_handle {x : St} (hI : LvlInv x) (g : Nat) (q : Handle) {n : Nat} (ho1 : x.next ≤ q.obj) (ho2 : q.obj < n) :
    (∃ p ∈ x.G, p.2.obj = q.obj ∧ p.2.lvl = q.lvl) ∨
      (x.next ≤ q.obj ∧ q.obj < n ∧ ∀ r' ∈ aset x.G g q, r'.2.obj = q.obj → r'.2.lvl = q.lvl) := by
  refine Or.inr ⟨ho1, ho2, ?_⟩
  intro r' hr' ho
  rcases Sigc.Inv.mem_aset hr' with rfl | e
  · rfl
  · have := hI.objlt r' e; omega

theorem simple_newG {i : Nat} {fl : Option Flavour} (hJ : JK k s)
    (h : stepSimple s (.newG i fl) = some (s', r)) : JK k s' := by
  simp only [stepSimple] at h
  repeat' split at h
  all_goals (simp only [Option.some.injEq, Prod.mk.injEq] at h; obtain ⟨rfl, _⟩ := h)
  all_goals (first | exact hJ | skip)
  refine JK.sub (Sub.ofG (x := s) (n := s.next + 1 + 1) (by omega) ?_) hJ
  intro q hq
  rcases Sigc.Inv.mem_aset hq with rfl | e
  · exact Or.inr ⟨fresh_handle hJ.1 _ _ (Nat.le_refl _) (by simp only [St.fresh]; omega), Or.inl rfl⟩
  · exact Or.inl e

theorem simple_cpG {j i : Nat} (hJ : JK k s)
    (h : stepSimple s (.cpG j i) = some (s', r)) : JK k s' := by
  simp only [stepSimple] at h
  repeat' split at h
  all_goals (simp only [Option.some.injEq, Prod.mk.injEq] at h; obtain ⟨rfl, _⟩ := h)
  all_goals (first | exact hJ | skip)
  all_goals
    obtain ⟨hJ1, h0, hg0, hg1, hn, hS, hoth, hpairs⟩ := JK.ensureImpl hJ ‹_›
  · exact hJ1
  · rename_i s1 im _ _ _ hh _
    rw [hg1] at hh
    simp only [Option.some.injEq] at hh
    subst hh
    refine JK.sub (Sub.ofG (x := s1) (n := s1.next + 1 + 1) (by omega) ?_) hJ1
    intro q hq
    rcases Sigc.Inv.mem_aset hq with rfl | e
    · exact Or.inr ⟨fresh_handle hJ1.1 _ _ (Nat.le_refl _) (by simp only [St.fresh]; omega),
        Or.inr ⟨_, Sigc.Inv.mem_of_aget hg1, rfl, rfl⟩⟩
    · exact Or.inl e

/-- a new signal object with a fresh identity, sharing (or not) the slot list of an existing one of the same level -/
theorem JK.addHandle {x : St} (hJ : JK k x) (j : Nat) (q : Handle) {n : Nat} (hn : x.next ≤ n)
    (ho1 : x.next ≤ q.obj) (ho2 : q.obj < n)
    (himpl : q.impl = none ∨ ∃ p ∈ x.G, p.2.impl = q.impl ∧ p.2.lvl = q.lvl) :
    JK k { x with G := aset x.G j q, next := n } := by
  refine JK.sub (Sub.ofG hn ?_) hJ
  intro r hr
  rcases Sigc.Inv.mem_aset hr with rfl | e
  · exact Or.inr ⟨fresh_handle hJ.1 _ _ ho1 ho2, himpl⟩
  · exact Or.inl e

/-- a signal object is re-seated on the slot list of another one of the same level -/
theorem JK.reseat {x : St} (hJ : JK k x) (j : Nat) (q : Handle)
    (hobj : ∃ p ∈ x.G, p.2.obj = q.obj ∧ p.2.lvl = q.lvl)
    (himpl : q.impl = none ∨ ∃ p ∈ x.G, p.2.impl = q.impl ∧ p.2.lvl = q.lvl) :
    JK k { x with G := aset x.G j q } := by
  refine JK.sub (Sub.ofG (n := x.next) (Nat.le_refl _) ?_) hJ
  intro r hr
  rcases Sigc.Inv.mem_aset hr with rfl | e
  · exact Or.inr ⟨Or.inl hobj, himpl⟩
  · exact Or.inl e

/-- `signal_base(signal_base&&)`: the source keeps its identity without slot list, the destination is new -/
theorem JK.moveHandle {x : St} (hJ : JK k x) {i j : Nat} {h0 : Handle} (hi : aget x.G i = some h0) (q : Handle)
    {n : Nat} (hn : x.next ≤ n) (ho1 : x.next ≤ q.obj) (ho2 : q.obj < n) (hq : q.impl = h0.impl) (hl : q.lvl = h0.lvl) :
    JK k { x with G := aset (aset x.G i { h0 with impl := none }) j q, next := n } := by
  have hmem : (i, h0) ∈ x.G := Sigc.Inv.mem_of_aget hi
  refine JK.sub (Sub.ofG hn ?_) hJ
  intro r hr
  rcases Sigc.Inv.mem_aset hr with rfl | e
  · refine Or.inr ⟨Or.inr ⟨ho1, ho2, ?_⟩, ?_⟩
    · intro r' hr' ho
      rcases Sigc.Inv.mem_aset hr' with rfl | e'
      · rfl
      · rcases Sigc.Inv.mem_aset e' with rfl | e''
        · exfalso; have := hJ.1.objlt _ hmem; simp only [] at ho this; omega
        · exfalso; have := hJ.1.objlt r' e''; simp only [] at ho this; omega
    · cases hc : h0.impl with
      | none => left; rw [hq, hc]
      | some im => right; exact ⟨(i, h0), hmem, hq.symm, hl.symm⟩
  · rcases Sigc.Inv.mem_aset e with rfl | e'
    · exact Or.inr ⟨Or.inl ⟨(i, h0), hmem, rfl, rfl⟩, Or.inl rfl⟩
    · exact Or.inl e'

theorem simple_mvG {j i : Nat} (hJ : JK k s)
    (h : stepSimple s (.mvG j i) = some (s', r)) : JK k s' := by
  simp only [stepSimple] at h
  repeat' split at h
  all_goals (simp only [Option.some.injEq, Prod.mk.injEq] at h; obtain ⟨rfl, _⟩ := h)
  all_goals (first | exact hJ | skip)
  · have hh := ‹aget s.G i = some _›
    obtain ⟨hJ1, h0, hg0, hg1, hn, hS, hoth, hpairs⟩ := JK.ensureImpl hJ ‹_›
    have e0 := hh.symm.trans hg0
    simp only [Option.some.injEq] at e0
    subst e0
    exact JK.addHandle hJ1 j _ (by simp only [St.fresh]; omega) (Nat.le_refl _) (by simp only [St.fresh]; omega)
      (Or.inr ⟨_, Sigc.Inv.mem_of_aget hg1, rfl, rfl⟩)
  · exact JK.sub (sub_invalidateTrackable (Sub.refl _) _)
      (JK.moveHandle hJ ‹aget s.G i = some _› _ (by simp only [St.fresh]; omega) (Nat.le_refl _)
        (by simp only [St.fresh]; omega) rfl rfl)
  · exact JK.moveHandle hJ ‹aget s.G i = some _› _ (by simp only [St.fresh]; omega) (Nat.le_refl _)
        (by simp only [St.fresh]; omega) rfl rfl

/-- `impl_ = src.impl()` for two signal objects of the same level -/
theorem assign_impl {x s1 : St} {j i im : Nat} {d h : Handle} (hJ : JK k x) (hd : aget x.G j = some d)
    (hh : aget x.G i = some h) (hl : d.lvl = h.lvl) (hji : ¬ j = i) (he : ensureImpl x i = some (s1, im)) :
    JK k s1 ∧ JK k { s1 with G := aset s1.G j { d with impl := some im } } := by
  obtain ⟨hJ1, h0, hg0, hg1, hn, hS, hoth, hpairs⟩ := JK.ensureImpl hJ he
  have e0 := hh.symm.trans hg0
  simp only [Option.some.injEq] at e0
  subst e0
  refine ⟨hJ1, JK.reseat hJ1 j _ ⟨(j, d), Sigc.Inv.mem_of_aget ((hoth j hji).trans hd), rfl, rfl⟩
    (Or.inr ⟨_, Sigc.Inv.mem_of_aget hg1, rfl, hl.symm⟩)⟩

theorem simple_asgG {j i : Nat} (hJ : JK k s)
    (h : stepSimple s (.asgG j i) = some (s', r)) : JK k s' := by
  simp only [stepSimple] at h
  repeat' split at h
  all_goals (simp only [Option.some.injEq, Prod.mk.injEq] at h; obtain ⟨rfl, _⟩ := h)
  all_goals (first | exact hJ | skip)
  all_goals
    have hl : _ = _ := Decidable.of_not_not ‹¬ _ ≠ _›
    obtain ⟨hJ1, hJ2⟩ := assign_impl hJ ‹aget s.G j = some _› ‹aget s.G i = some _› hl ‹¬ j = i› ‹_›
  · exact hJ1
  · exact JK.sub (sub_gcImpl (Sub.refl _) _) hJ2
  · exact hJ2

/-- `signal_base::operator=(signal_base&&)`: the destination takes the slot list of the source -/
theorem JK.stealImpl {x : St} (hJ : JK k x) {j i : Nat} {d h : Handle} (hd : aget x.G j = some d)
    (hh : aget x.G i = some h) (hl : d.lvl = h.lvl) :
    JK k { x with G := aset (aset x.G j { d with impl := h.impl }) i { h with impl := none } } := by
  have hmd : (j, d) ∈ x.G := Sigc.Inv.mem_of_aget hd
  have hmh : (i, h) ∈ x.G := Sigc.Inv.mem_of_aget hh
  refine JK.sub (Sub.ofG (n := x.next) (Nat.le_refl _) ?_) hJ
  intro r hr
  rcases Sigc.Inv.mem_aset hr with rfl | e
  · exact Or.inr ⟨Or.inl ⟨(i, h), hmh, rfl, rfl⟩, Or.inl rfl⟩
  · rcases Sigc.Inv.mem_aset e with rfl | e'
    · refine Or.inr ⟨Or.inl ⟨(j, d), hmd, rfl, rfl⟩, ?_⟩
      cases hc : h.impl with
      | none => exact Or.inl rfl
      | some im => exact Or.inr ⟨(i, h), hmh, hc, hl.symm⟩
    · exact Or.inl e'

theorem simple_masgG {j i : Nat} (hJ : JK k s)
    (h : stepSimple s (.masgG j i) = some (s', r)) : JK k s' := by
  simp only [stepSimple] at h
  repeat' split at h
  all_goals (simp only [Option.some.injEq, Prod.mk.injEq] at h; obtain ⟨rfl, _⟩ := h)
  all_goals (first | exact hJ | skip)
  all_goals
    have hl : _ = _ := Decidable.of_not_not ‹¬ _ ≠ _›
    first
    | (have hJ2 := JK.stealImpl hJ ‹aget s.G j = some _› ‹aget s.G i = some _› hl
       first
       | exact hJ2
       | exact JK.sub (sub_gcImpl (Sub.refl _) _) hJ2
       | exact JK.sub (sub_invalidateTrackable (Sub.refl _) _) hJ2
       | exact JK.sub (sub_invalidateTrackable (sub_gcImpl (Sub.refl _) _) _) hJ2)
    | (obtain ⟨hJ1, hJ2⟩ := assign_impl hJ ‹aget s.G j = some _› ‹aget s.G i = some _› hl ‹¬ j = i› ‹_›
       first
       | exact hJ1
       | exact JK.sub (sub_gcImpl (Sub.refl _) _) hJ2
       | exact hJ2)

/-! ## connecting -/

theorem SlotLt.of_fnOf {n : Nat} {G : List (Nat × Handle)} {sl sl' : SlotB} {ℓ : Int}
    (h : fnOf sl' = none ∨ fnOf sl' = fnOf sl) (hs : SlotLt n G sl ℓ) : SlotLt n G sl' ℓ := by
  intro fn hfn
  rcases h with e | e
  · rw [e] at hfn; cases hfn
  · exact hs fn (e ▸ hfn)

theorem simple_conn {c g sv : Nat} {first mv : Bool} (hJ : JK k s)
    (h : stepSimple s (.conn c g sv first mv) = some (s', r)) : JK k s' := by
  simp only [stepSimple] at h
  repeat' split at h
  all_goals (simp only [Option.some.injEq, Prod.mk.injEq] at h; obtain ⟨rfl, _⟩ := h)
  all_goals (first | exact hJ | skip)
  all_goals
    have hh := ‹aget s.G g = some _›
    have hv := ‹aget s.S sv = some _›
    have ht := ‹¬ _ ≥ _›
    obtain ⟨hJ1, h0, hg0, hg1, hn, hS, hoth, hpairs⟩ := JK.ensureImpl hJ ‹_›
    have e0 := hh.symm.trans hg0
    simp only [Option.some.injEq] at e0
    subst e0
    have hsl := (hJ1.1.slots sv _ (hS ▸ hv)).mono (b := _) (Int.not_le.mp ht)
    refine JK.sub (sub_setConn (Sub.refl _) _ _) ?_
  · refine JK.insertCell (JK.sub (sub_setS (Sub.refl _) _ _ (Or.inl (fnOf_move_snd _))) hJ1) first
      (Sigc.Inv.mem_of_aget hg1) rfl ?_
    exact SlotLt.of_fnOf (Or.inr (fnOf_move_fst _)) hsl
  · refine JK.insertCell hJ1 first (Sigc.Inv.mem_of_aget hg1) rfl ?_
    exact SlotLt.of_fnOf (fnOf_copy _) hsl

theorem mkFun_lvl_of {x x' : St} {v : Bool} {spec : FSpec} {fn : Fun} {g : Nat} {h : Handle}
    (hg : aget x.G g = some h) (hm : mkFun x v spec = .ok (fn, x')) : ∃ h', aget x'.G g = some h' ∧ h'.lvl = h.lvl := by
  rcases Sigc.Inv.mkFun_G hm with e | ⟨g', hd, hg', e⟩
  · exact ⟨h, e ▸ hg, rfl⟩
  · rw [e, Sigc.Inv.aget_aset]
    split
    · rename_i e'; subst e'
      rw [hg] at hg'; cases hg'
      exact ⟨_, rfl, rfl⟩
    · exact ⟨h, hg, rfl⟩

theorem simple_connfn {c g : Nat} {f : FSpec} {first : Bool} (hJ : JK k s)
    (h : stepSimple s (.connfn c g f first) = some (s', r)) : JK k s' := by
  simp only [stepSimple] at h
  repeat' split at h
  all_goals (simp only [Option.some.injEq, Prod.mk.injEq] at h; obtain ⟨rfl, _⟩ := h)
  all_goals (first | exact hJ | skip)
  all_goals
    have hh := ‹aget s.G g = some _›
    have hm := ‹mkFun s _ f = _›
    obtain ⟨h1, h2⟩ := mkFun_lvl hJ.1 hm
    obtain ⟨h', hg', hl'⟩ := mkFun_lvl_of hh hm
  · exact JK.sub h1 hJ
  · have ht := ‹¬ _ ≥ _›
    obtain ⟨hJ1, h0, hg0, hg1, hn, hS, hoth, hpairs⟩ := JK.ensureImpl (JK.sub h1 hJ) ‹_›
    have e0 := hg'.symm.trans hg0
    simp only [Option.some.injEq] at e0
    subst e0
    refine JK.sub (sub_setConn (Sub.refl _) _ _) ?_
    refine JK.insertCell hJ1 first (Sigc.Inv.mem_of_aget hg1) rfl ?_
    intro fn' hfn'
    simp only [fnOf, Option.some.injEq] at hfn'
    subst hfn'
    refine (h2.mono ?_).congrG hn (fun q hq => Or.inl (hpairs q hq))
    simp only []
    rw [hl']
    exact Int.not_le.mp ht

end

/-- **the level invariant is preserved by every operation that runs no user code** -/
theorem JK_simple (k : Option (Nat × Nat)) (s : St) (op : Op) (s' : St) (r : String) (hJ : JK k s)
    (h : stepSimple s op = some (s', r)) : JK k s' := by
  cases op with
  | mkS i ty f => exact simple_mkS hJ h
  | mkS0 i ty => exact simple_mkS0 hJ h
  | cpS j i => exact simple_cpS hJ h
  | mvS j i => exact simple_mvS hJ h
  | asgS j i => exact simple_asgS hJ h
  | masgS j i => exact simple_masgS hJ h
  | setS i f => exact simple_setS hJ h
  | discS i => exact simple_discS hJ h
  | blockS i b => exact simple_blockS hJ h
  | newG i fl => exact simple_newG hJ h
  | cpG j i => exact simple_cpG hJ h
  | mvG j i => exact simple_mvG hJ h
  | asgG j i => exact simple_asgG hJ h
  | masgG j i => exact simple_masgG hJ h
  | conn c g sv first mv => exact simple_conn hJ h
  | connfn c g f first => exact simple_connfn hJ h
  | _ =>
    simp only [stepSimple] at h
    repeat' split at h
    all_goals (first | (cases h; done) | skip)
    all_goals (simp only [Option.some.injEq, Prod.mk.injEq] at h; obtain ⟨rfl, _⟩ := h)
    all_goals (first | exact hJ | skip)
    all_goals (refine JK.sub ?_ hJ; simp (maxDischargeDepth := 8) only [St.fresh, setConn, Sub.refl,
      sub_invalidateTrackable, sub_gcImpl, sub_disconnectCell, sub_clearImpl, sub_connBlock, sub_delG, sub_delS,
      sub_lit, sub_lit_next1, sub_blockAll, *])

end Sigc.Fuel
