import Sigc.Model
import Sigc.Lemmas.Basic
import Sigc.Lemmas.StepSlots
/-!
frames of the slot-variable operations over *all* their branches (also the refused ones), and the
connect operations (`ensureImpl`, `insertCell`, `conn`, `connfn`).
-/
namespace Sigc.StepSlots
open Sigc.Model

/-- the slot variables an operation on slot variables may write (`none`: not a slot-variable operation) -/
def slotWrites : Op → Option (List Nat)
  | .mkS i _ _ | .mkS0 i _ | .cpS i _ | .asgS i _ | .setS i _ | .delS i | .discS i | .blockS i _ => some [i]
  | .mvS j i | .masgS j i => some [j, i]
  | .blockedSq _ | .emptySq _ => some []
  | _ => none

/-- operations on slot variables whose functor spec (if any) has no side effect of its own -/
def slotOpPlain : Op → Bool
  | .mkS _ _ f | .setS _ f => plainSpec f
  | _ => true

/-- `s'` agrees with `s` on every slot variable outside `ws`, on all cells and connections, and — when `p`
    holds — on all trackables, scoped connections, handles and the allocator -/
def SFrameL (p : Bool) (ws : List Nat) (s s' : St) : Prop :=
  s'.C = s.C ∧ s'.impls = s.impls ∧ (∀ k, k ∉ ws → aget s'.S k = aget s.S k) ∧
  (p = true → s'.T = s.T ∧ s'.K = s.K ∧ s'.G = s.G ∧ s'.next = s.next)

theorem SFrameL.refl (p : Bool) (ws : List Nat) (s : St) : SFrameL p ws s s :=
  ⟨rfl, rfl, fun _ _ => rfl, fun _ => ⟨rfl, rfl, rfl, rfl⟩⟩

theorem ne_of_notMem {k j : Nat} {ws : List Nat} (hk : k ∉ ws) (hj : j ∈ ws) : k ≠ j :=
  fun e => hk (by rw [e]; exact hj)

theorem sframe_aset (s : St) (j : Nat) (x : SlotVar) (ws : List Nat) (hj : j ∈ ws) :
    SFrameL true ws s { s with S := aset s.S j x } :=
  ⟨rfl, rfl, fun _ hk => aget_aset_other _ _ _ _ (ne_of_notMem hk hj), fun _ => ⟨rfl, rfl, rfl, rfl⟩⟩

theorem sframe_adel (s : St) (j : Nat) (ws : List Nat) (hj : j ∈ ws) :
    SFrameL true ws s { s with S := adel s.S j } :=
  ⟨rfl, rfl, fun _ hk => aget_adel_other _ _ _ (ne_of_notMem hk hj), fun _ => ⟨rfl, rfl, rfl, rfl⟩⟩

theorem sframe_aset2 (s : St) (j i : Nat) (x y : SlotVar) (ws : List Nat) (hj : j ∈ ws) (hi : i ∈ ws) :
    SFrameL true ws s { s with S := aset (aset s.S i y) j x } :=
  ⟨rfl, rfl, fun k hk => by
    show aget (aset (aset s.S i y) j x) k = aget s.S k
    rw [aget_aset_other _ _ _ _ (ne_of_notMem hk hj), aget_aset_other _ _ _ _ (ne_of_notMem hk hi)],
   fun _ => ⟨rfl, rfl, rfl, rfl⟩⟩

theorem sframe_mkFun (s s0 : St) (b : Bool) (spec : FSpec) (fn : Fun) (hf : mkFun s b spec = .ok (fn, s0))
    (j : Nat) (x : SlotVar) (ws : List Nat) (hj : j ∈ ws) :
    SFrameL (plainSpec spec) ws s { s0 with S := aset s0.S j x } := by
  obtain ⟨⟨hS, hC, hI, _⟩, hp, _⟩ := mkFun_ok s s0 b spec fn hf
  refine ⟨hC, hI, fun k hk => ?_, fun h => ?_⟩
  · show aget (aset s0.S j x) k = aget s.S k
    rw [aget_aset_other _ _ _ _ (ne_of_notMem hk hj), hS]
  · rw [hp h]; exact ⟨rfl, rfl, rfl, rfl⟩

theorem asgS_sframe (s s' : St) (r : String) (j i : Nat) (h : stepSimple s (.asgS j i) = some (s', r)) :
    SFrameL true [j] s s' := by
  simp only [stepSimple] at h
  repeat' split at h
  all_goals (simp only [Option.some.injEq, Prod.mk.injEq] at h; obtain ⟨rfl, _⟩ := h)
  all_goals first | exact SFrameL.refl _ _ _ | exact sframe_aset _ _ _ _ (by simp)

theorem masgS_sframe (s s' : St) (r : String) (j i : Nat) (h : stepSimple s (.masgS j i) = some (s', r)) :
    SFrameL true [j, i] s s' := by
  simp only [stepSimple] at h
  repeat' split at h
  all_goals (simp only [Option.some.injEq, Prod.mk.injEq] at h; obtain ⟨rfl, _⟩ := h)
  all_goals first | exact SFrameL.refl _ _ _ | exact sframe_aset _ _ _ _ (by simp) | exact sframe_aset2 _ _ _ _ _ _ (by simp) (by simp)

theorem cpS_sframe (s s' : St) (r : String) (j i : Nat) (h : stepSimple s (.cpS j i) = some (s', r)) :
    SFrameL true [j] s s' := by
  simp only [stepSimple] at h
  repeat' split at h
  all_goals (simp only [Option.some.injEq, Prod.mk.injEq] at h; obtain ⟨rfl, _⟩ := h)
  all_goals first | exact SFrameL.refl _ _ _ | exact sframe_aset _ _ _ _ (by simp)

theorem mvS_sframe (s s' : St) (r : String) (j i : Nat) (h : stepSimple s (.mvS j i) = some (s', r)) :
    SFrameL true [j, i] s s' := by
  simp only [stepSimple] at h
  repeat' split at h
  all_goals (simp only [Option.some.injEq, Prod.mk.injEq] at h; obtain ⟨rfl, _⟩ := h)
  all_goals first | exact SFrameL.refl _ _ _ | exact sframe_aset2 _ _ _ _ _ _ (by simp) (by simp)

theorem mkS0_sframe (s s' : St) (r : String) (i : Nat) (ty : String) (h : stepSimple s (.mkS0 i ty) = some (s', r)) :
    SFrameL true [i] s s' := by
  simp only [stepSimple] at h
  repeat' split at h
  all_goals (simp only [Option.some.injEq, Prod.mk.injEq] at h; obtain ⟨rfl, _⟩ := h)
  all_goals first | exact SFrameL.refl _ _ _ | exact sframe_aset _ _ _ _ (by simp)

theorem delS_sframe (s s' : St) (r : String) (i : Nat) (h : stepSimple s (.delS i) = some (s', r)) :
    SFrameL true [i] s s' := by
  simp only [stepSimple] at h
  repeat' split at h
  all_goals (simp only [Option.some.injEq, Prod.mk.injEq] at h; obtain ⟨rfl, _⟩ := h)
  all_goals first | exact SFrameL.refl _ _ _ | exact sframe_adel _ _ _ (by simp)

theorem discS_sframe (s s' : St) (r : String) (i : Nat) (h : stepSimple s (.discS i) = some (s', r)) :
    SFrameL true [i] s s' := by
  simp only [stepSimple] at h
  repeat' split at h
  all_goals (simp only [Option.some.injEq, Prod.mk.injEq] at h; obtain ⟨rfl, _⟩ := h)
  all_goals first | exact SFrameL.refl _ _ _ | exact sframe_aset _ _ _ _ (by simp)

theorem blockS_sframe (s s' : St) (r : String) (i : Nat) (b : Bool) (h : stepSimple s (.blockS i b) = some (s', r)) :
    SFrameL true [i] s s' := by
  simp only [stepSimple] at h
  repeat' split at h
  all_goals (simp only [Option.some.injEq, Prod.mk.injEq] at h; obtain ⟨rfl, _⟩ := h)
  all_goals first | exact SFrameL.refl _ _ _ | exact sframe_aset _ _ _ _ (by simp)

theorem querySq_same (s s' : St) (r : String) (i : Nat)
    (h : stepSimple s (.blockedSq i) = some (s', r) ∨ stepSimple s (.emptySq i) = some (s', r)) : s' = s := by
  rcases h with h | h <;>
  · simp only [stepSimple] at h
    repeat' split at h
    all_goals (simp only [Option.some.injEq, Prod.mk.injEq] at h; obtain ⟨rfl, _⟩ := h; rfl)

theorem setS_sframe (s s' : St) (r : String) (i : Nat) (spec : FSpec) (h : stepSimple s (.setS i spec) = some (s', r)) :
    SFrameL (plainSpec spec) [i] s s' := by
  simp only [stepSimple] at h
  split at h
  · simp only [Option.some.injEq, Prod.mk.injEq] at h; obtain ⟨rfl, _⟩ := h; exact SFrameL.refl _ _ _
  · split at h
    · simp only [Option.some.injEq, Prod.mk.injEq] at h; obtain ⟨rfl, _⟩ := h; exact SFrameL.refl _ _ _
    · split at h
      · simp only [Option.some.injEq, Prod.mk.injEq] at h; obtain ⟨rfl, _⟩ := h; exact SFrameL.refl _ _ _
      · rename_i hf
        simp only [Option.some.injEq, Prod.mk.injEq] at h; obtain ⟨rfl, _⟩ := h
        exact sframe_mkFun _ _ _ _ _ hf _ _ _ (by simp)

theorem mkS_sframe (s s' : St) (r : String) (i : Nat) (ty : String) (spec : FSpec)
    (h : stepSimple s (.mkS i ty spec) = some (s', r)) : SFrameL (plainSpec spec) [i] s s' := by
  simp only [stepSimple] at h
  split at h
  · simp only [Option.some.injEq, Prod.mk.injEq] at h; obtain ⟨rfl, _⟩ := h; exact SFrameL.refl _ _ _
  · split at h
    · simp only [Option.some.injEq, Prod.mk.injEq] at h; obtain ⟨rfl, _⟩ := h; exact SFrameL.refl _ _ _
    · split at h
      · simp only [Option.some.injEq, Prod.mk.injEq] at h; obtain ⟨rfl, _⟩ := h; exact SFrameL.refl _ _ _
      · rename_i hf
        simp only [Option.some.injEq, Prod.mk.injEq] at h; obtain ⟨rfl, _⟩ := h
        exact sframe_mkFun _ _ _ _ _ hf _ _ _ (by simp)

/-- every operation on slot variables leaves every slot variable it does not name, every cell,
    connection and trackable untouched — in all of its branches -/
theorem slotOp_sframe (s s' : St) (r : String) (op : Op) (ws : List Nat)
    (hw : slotWrites op = some ws) (h : stepSimple s op = some (s', r)) : SFrameL (slotOpPlain op) ws s s' := by
  cases op <;> simp only [slotWrites, Option.some.injEq] at hw <;> try cases hw
  · exact mkS_sframe _ _ _ _ _ _ h
  · exact mkS0_sframe _ _ _ _ _ h
  · exact cpS_sframe _ _ _ _ _ h
  · exact mvS_sframe _ _ _ _ _ h
  · exact asgS_sframe _ _ _ _ _ h
  · exact masgS_sframe _ _ _ _ _ h
  · exact setS_sframe _ _ _ _ _ h
  · exact delS_sframe _ _ _ _ h
  · exact discS_sframe _ _ _ _ h
  · exact blockS_sframe _ _ _ _ _ h
  · rw [querySq_same _ _ _ _ (.inl h)]; exact SFrameL.refl _ _ _
  · rw [querySq_same _ _ _ _ (.inr h)]; exact SFrameL.refl _ _ _

/-! ## connecting a slot: `ensureImpl`, `insertCell`, `conn`, `connfn` -/

theorem ensureImpl_existing (s : St) (g : Nat) (h : Handle) (im : Nat)
    (hg : aget s.G g = some h) (hi : h.impl = some im) : ensureImpl s g = some (s, im) := by
  simp only [ensureImpl, hg, hi]

theorem ensureImpl_fresh (s : St) (g : Nat) (h : Handle) (hg : aget s.G g = some h) (hi : h.impl = none) :
    ensureImpl s g = some ({ s with next := s.next + 1, impls := aset s.impls s.next {},
                                    G := aset s.G g { h with impl := some s.next } }, s.next) := by
  simp only [ensureImpl, hg, hi, St.fresh]

/-- `ensureImpl` touches no slot variable, connection or trackable; the impl it returns exists -/
theorem ensureImpl_spec (s s1 : St) (g im : Nat) (he : ensureImpl s g = some (s1, im)) :
    s1.S = s.S ∧ s1.C = s.C ∧ s1.K = s.K ∧ s1.T = s.T ∧
    ((s1 = s ∧ ∃ h, aget s.G g = some h ∧ h.impl = some im) ∨
     (∃ h, aget s.G g = some h ∧ h.impl = none ∧ im = s.next ∧ aget s1.impls im = some {} ∧
           s1.next = s.next + 1 ∧ (∀ k, k ≠ im → aget s1.impls k = aget s.impls k) ∧
           aget s1.G g = some { h with impl := some im } ∧ ∀ k, k ≠ g → aget s1.G k = aget s.G k)) := by
  cases hg : aget s.G g with
  | none => simp [ensureImpl, hg] at he
  | some h =>
    cases hi : h.impl with
    | some i =>
      rw [ensureImpl_existing s g h i hg hi] at he
      simp only [Option.some.injEq, Prod.mk.injEq] at he
      obtain ⟨rfl, rfl⟩ := he
      exact ⟨rfl, rfl, rfl, rfl, .inl ⟨rfl, h, rfl, hi⟩⟩
    | none =>
      rw [ensureImpl_fresh s g h hg hi] at he
      simp only [Option.some.injEq, Prod.mk.injEq] at he
      obtain ⟨rfl, rfl⟩ := he
      refine ⟨rfl, rfl, rfl, rfl, .inr ⟨h, rfl, hi, rfl, aget_aset_same _ _ _, rfl,
        fun k hk => aget_aset_other _ _ _ _ hk, aget_aset_same _ _ _, fun k hk => aget_aset_other _ _ _ _ hk⟩⟩

/-- the cell `signal_impl::insert` creates for slot value `sl` with id `cid` -/
def newCell (cid : Nat) (sl : SlotB) : Cell := { id := cid, slot := withDummy sl, linked := true }

/-- insertion at the front (`connect_first`) or at the back (`connect`) -/
def insAt (first : Bool) (c : Cell) (cs : List Cell) : List Cell := if first then c :: cs else cs ++ [c]

theorem insertCell_eq (s : St) (i : Nat) (first : Bool) (sl : SlotB) (x : Impl) (hx : aget s.impls i = some x) :
    insertCell s i first sl =
      (setImpl { s with next := s.next + 1 } i { x with cells := insAt first (newCell s.next sl) x.cells }, s.next) := by
  simp only [insertCell, St.fresh, hx]
  rfl

theorem conn_copy_eq (s s1 : St) (k g sv : Nat) (first : Bool) (h : Handle) (v : SlotVar) (im : Nat) (x : Impl)
    (hg : aget s.G g = some h) (hv : aget s.S sv = some v)
    (hty : h.fl.isVoid = v.isVoid) (hta : v.taint < (h.lvl : Int))
    (he : ensureImpl s g = some (s1, im)) (hx : aget s1.impls im = some x) :
    stepSimple s (.conn k g sv first false) =
      some (setConn (setImpl { s1 with next := s1.next + 1 } im
                       { x with cells := insAt first (newCell s1.next v.slot.copy) x.cells }) k (some s1.next), "ok") := by
  have h1 : (h.fl.isVoid != v.isVoid) = false := by simp [hty]
  have h2 : ¬ (v.taint ≥ (h.lvl : Int)) := by omega
  simp only [stepSimple, hg, hv, h1, h2, he, Bool.false_and, Bool.false_eq_true, if_false, insertCell_eq _ _ _ _ _ hx]

theorem conn_move_eq (s s1 : St) (k g sv : Nat) (first : Bool) (h : Handle) (v : SlotVar) (im : Nat) (x : Impl)
    (hg : aget s.G g = some h) (hv : aget s.S sv = some v)
    (hty : h.fl.isVoid = v.isVoid) (hta : v.taint < (h.lvl : Int)) (hin : v.incall = 0)
    (he : ensureImpl s g = some (s1, im)) (hx : aget s1.impls im = some x) :
    stepSimple s (.conn k g sv first true) =
      some (setConn (setImpl { s1 with next := s1.next + 1, S := aset s1.S sv { v with slot := v.slot.move.2 } } im
                       { x with cells := insAt first (newCell s1.next v.slot.move.1) x.cells }) k (some s1.next), "ok") := by
  have h1 : (h.fl.isVoid != v.isVoid) = false := by simp [hty]
  have h2 : ¬ (v.taint ≥ (h.lvl : Int)) := by omega
  have h3 : (true && decide (v.incall > 0)) = false := by simp; omega
  have hx' : aget ({ s1 with S := aset s1.S sv { v with slot := v.slot.move.2 } } : St).impls im = some x := hx
  simp only [stepSimple, hg, hv, h1, h2, h3, he, Bool.false_eq_true, if_false, if_true, insertCell_eq _ _ _ _ _ hx']

theorem connfn_eq (s s0 s1 : St) (k g : Nat) (spec : FSpec) (first : Bool) (h : Handle) (fn : Fun) (im : Nat) (x : Impl)
    (hg : aget s.G g = some h) (hf : mkFun s h.fl.isVoid spec = .ok (fn, s0))
    (hta : specTaint s spec < (h.lvl : Int))
    (he : ensureImpl s0 g = some (s1, im)) (hx : aget s1.impls im = some x) :
    stepSimple s (.connfn k g spec first) =
      some (setConn (setImpl { s1 with next := s1.next + 1 } im
                       { x with cells := insAt first (newCell s1.next { blocked := false, rep := some { call := true, fn := some fn } }) x.cells })
                    k (some s1.next), "ok") := by
  have h2 : ¬ (specTaint s spec ≥ (h.lvl : Int)) := by omega
  simp only [stepSimple, hg, hf, h2, he, if_false, insertCell_eq _ _ _ _ _ hx]

theorem sum_insAt (first : Bool) (c : Cell) (cs : List Cell) (f : Cell → Nat) :
    ((insAt first c cs).map f).sum = (cs.map f).sum + f c := by
  cases first <;> simp [insAt] <;> omega

theorem liveCount_setImpl (s : St) (im : Nat) (x x' : Impl) (fid : Nat) (hx : aget s.impls im = some x) :
    liveCount (setImpl s im x') fid + (x.cells.map (fun c => c.slot.live fid)).sum
      = liveCount s fid + (x'.cells.map (fun c => c.slot.live fid)).sum := by
  have := sum_aset s.impls im x x' (fun y => (y.cells.map (fun c => c.slot.live fid)).sum) hx
  simp only [liveCount, setImpl]
  omega

theorem liveCount_insert (s0 : St) (im : Nat) (x : Impl) (first : Bool) (k : Nat) (p : Option Nat) (c : Cell)
    (fid : Nat) (hx : aget s0.impls im = some x) :
    liveCount (setConn (setImpl s0 im { x with cells := insAt first c x.cells }) k p) fid
      = liveCount s0 fid + c.slot.live fid := by
  have h1 := liveCount_setImpl s0 im x { x with cells := insAt first c x.cells } fid hx
  have h2 := sum_insAt first c x.cells (fun c => c.slot.live fid)
  have h3 : liveCount (setConn (setImpl s0 im { x with cells := insAt first c x.cells }) k p) fid
      = liveCount (setImpl s0 im { x with cells := insAt first c x.cells }) fid := rfl
  simp only at h1 h2
  omega

end Sigc.StepSlots
