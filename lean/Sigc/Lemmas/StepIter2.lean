import Sigc.Model
import Sigc.Lemmas.Basic
import Sigc.Lemmas.StepIter
/-!
# StepIter2 — the call log (`trace`) and the nesting depth: no library operation touches them

`stepSimple` (every operation that runs no user code) leaves `trace` and `depth` unchanged; one lemma
per helper.
-/
namespace Sigc.StepIter
open Sigc.Model

theorem foldl_td {α : Type} (f : St → α → St) (hf : ∀ s a, (f s a).trace = s.trace ∧ (f s a).depth = s.depth)
    (l : List α) (s : St) : (l.foldl f s).trace = s.trace ∧ (l.foldl f s).depth = s.depth := by
  induction l generalizing s with
  | nil => exact ⟨rfl, rfl⟩
  | cons a t ih =>
    simp only [List.foldl]
    exact ⟨(ih (f s a)).1.trans (hf s a).1, (ih (f s a)).2.trans (hf s a).2⟩

@[simp] theorem fail_trace (s : St) (m : String) : (s.fail m).trace = s.trace := by
  unfold St.fail; split <;> rfl
@[simp] theorem fail_depth (s : St) (m : String) : (s.fail m).depth = s.depth := by
  unfold St.fail; split <;> rfl
@[simp] theorem fail_impls (s : St) (m : String) : (s.fail m).impls = s.impls := by
  unfold St.fail; split <;> rfl

@[simp] theorem setImpl_trace (s : St) (i : Nat) (im : Impl) : (setImpl s i im).trace = s.trace := rfl
@[simp] theorem setImpl_depth (s : St) (i : Nat) (im : Impl) : (setImpl s i im).depth = s.depth := rfl
@[simp] theorem nullConns_trace (s : St) (c : Nat) : (nullConns s c).trace = s.trace := rfl
@[simp] theorem nullConns_depth (s : St) (c : Nat) : (nullConns s c).depth = s.depth := rfl
@[simp] theorem setConn_trace (s : St) (k : Nat) (p : Option Nat) : (setConn s k p).trace = s.trace := rfl
@[simp] theorem setConn_depth (s : St) (k : Nat) (p : Option Nat) : (setConn s k p).depth = s.depth := rfl

theorem nullConnsList_td (s : St) (cs : List Nat) :
    (nullConnsList s cs).trace = s.trace ∧ (nullConnsList s cs).depth = s.depth :=
  foldl_td nullConns (fun _ _ => ⟨rfl, rfl⟩) cs s
@[simp] theorem nullConnsList_trace (s : St) (cs : List Nat) : (nullConnsList s cs).trace = s.trace := (nullConnsList_td s cs).1
@[simp] theorem nullConnsList_depth (s : St) (cs : List Nat) : (nullConnsList s cs).depth = s.depth := (nullConnsList_td s cs).2

theorem updCell_td (s : St) (i c : Nat) (f : Cell → Cell) :
    (updCell s i c f).trace = s.trace ∧ (updCell s i c f).depth = s.depth := by
  unfold updCell; split <;> simp
@[simp] theorem updCell_trace (s : St) (i c : Nat) (f : Cell → Cell) : (updCell s i c f).trace = s.trace := (updCell_td s i c f).1
@[simp] theorem updCell_depth (s : St) (i c : Nat) (f : Cell → Cell) : (updCell s i c f).depth = s.depth := (updCell_td s i c f).2

theorem eraseCell_td (s : St) (i c : Nat) : (eraseCell s i c).trace = s.trace ∧ (eraseCell s i c).depth = s.depth := by
  unfold eraseCell; split <;> simp
@[simp] theorem eraseCell_trace (s : St) (i c : Nat) : (eraseCell s i c).trace = s.trace := (eraseCell_td s i c).1
@[simp] theorem eraseCell_depth (s : St) (i c : Nat) : (eraseCell s i c).depth = s.depth := (eraseCell_td s i c).2

theorem sweep_td (s : St) (i : Nat) : (sweep s i).trace = s.trace ∧ (sweep s i).depth = s.depth := by
  unfold sweep; split <;> simp
@[simp] theorem sweep_trace (s : St) (i : Nat) : (sweep s i).trace = s.trace := (sweep_td s i).1
@[simp] theorem sweep_depth (s : St) (i : Nat) : (sweep s i).depth = s.depth := (sweep_td s i).2

theorem unrefExec_td (s : St) (i : Nat) : (unrefExec s i).trace = s.trace ∧ (unrefExec s i).depth = s.depth := by
  unfold unrefExec; split
  · simp
  · simp only; split <;> simp
@[simp] theorem unrefExec_trace (s : St) (i : Nat) : (unrefExec s i).trace = s.trace := (unrefExec_td s i).1
@[simp] theorem unrefExec_depth (s : St) (i : Nat) : (unrefExec s i).depth = s.depth := (unrefExec_td s i).2

theorem gcImpl_td (s : St) (i : Nat) : (gcImpl s i).trace = s.trace ∧ (gcImpl s i).depth = s.depth := by
  unfold gcImpl; split
  · simp
  · split <;> simp
@[simp] theorem gcImpl_trace (s : St) (i : Nat) : (gcImpl s i).trace = s.trace := (gcImpl_td s i).1
@[simp] theorem gcImpl_depth (s : St) (i : Nat) : (gcImpl s i).depth = s.depth := (gcImpl_td s i).2

theorem notifyParent_td (s : St) (i c : Nat) :
    (notifyParent s i c).trace = s.trace ∧ (notifyParent s i c).depth = s.depth := by
  unfold notifyParent; split
  · simp
  · split <;> simp
@[simp] theorem notifyParent_trace (s : St) (i c : Nat) : (notifyParent s i c).trace = s.trace := (notifyParent_td s i c).1
@[simp] theorem notifyParent_depth (s : St) (i c : Nat) : (notifyParent s i c).depth = s.depth := (notifyParent_td s i c).2

theorem disconnectCell_td (s : St) (c : Nat) :
    (disconnectCell s c).trace = s.trace ∧ (disconnectCell s c).depth = s.depth := by
  unfold disconnectCell; split
  · simp
  · simp only; split <;> simp
@[simp] theorem disconnectCell_trace (s : St) (c : Nat) : (disconnectCell s c).trace = s.trace := (disconnectCell_td s c).1
@[simp] theorem disconnectCell_depth (s : St) (c : Nat) : (disconnectCell s c).depth = s.depth := (disconnectCell_td s c).2

theorem invalidateCell_td (s : St) (c : Nat) :
    (invalidateCell s c).trace = s.trace ∧ (invalidateCell s c).depth = s.depth := by
  unfold invalidateCell; split
  · simp
  · simp only; split <;> simp
@[simp] theorem invalidateCell_trace (s : St) (c : Nat) : (invalidateCell s c).trace = s.trace := (invalidateCell_td s c).1
@[simp] theorem invalidateCell_depth (s : St) (c : Nat) : (invalidateCell s c).depth = s.depth := (invalidateCell_td s c).2

theorem invalidateTrackable_td (s : St) (t : Nat) :
    (invalidateTrackable s t).trace = s.trace ∧ (invalidateTrackable s t).depth = s.depth := by
  unfold invalidateTrackable
  simp only
  exact foldl_td invalidateCell invalidateCell_td _ _
@[simp] theorem invalidateTrackable_trace (s : St) (t : Nat) : (invalidateTrackable s t).trace = s.trace := (invalidateTrackable_td s t).1
@[simp] theorem invalidateTrackable_depth (s : St) (t : Nat) : (invalidateTrackable s t).depth = s.depth := (invalidateTrackable_td s t).2

theorem ensureImpl_td (s s' : St) (g i : Nat) (h : ensureImpl s g = some (s', i)) :
    s'.trace = s.trace ∧ s'.depth = s.depth := by
  unfold ensureImpl at h
  split at h
  · simp at h
  · split at h
    · simp at h; obtain ⟨rfl, _⟩ := h; exact ⟨rfl, rfl⟩
    · simp [St.fresh] at h; obtain ⟨rfl, _⟩ := h; exact ⟨rfl, rfl⟩

theorem insertCell_td (s : St) (i : Nat) (first : Bool) (sl : SlotB) :
    (insertCell s i first sl).1.trace = s.trace ∧ (insertCell s i first sl).1.depth = s.depth := by
  unfold insertCell
  simp only [St.fresh]
  split <;> simp
@[simp] theorem insertCell_trace (s : St) (i : Nat) (first : Bool) (sl : SlotB) :
    (insertCell s i first sl).1.trace = s.trace := (insertCell_td s i first sl).1
@[simp] theorem insertCell_depth (s : St) (i : Nat) (first : Bool) (sl : SlotB) :
    (insertCell s i first sl).1.depth = s.depth := (insertCell_td s i first sl).2

theorem clearImpl_td (s : St) (i : Nat) : (clearImpl s i).trace = s.trace ∧ (clearImpl s i).depth = s.depth := by
  unfold clearImpl
  split
  · simp
  · rename_i im _
    simp only
    have h1 := foldl_td disconnectCell disconnectCell_td (im.cells.map (·.id))
      (setImpl s i { im with exec := im.exec + 1 })
    split
    · simpa using h1
    · split <;> simpa using h1
@[simp] theorem clearImpl_trace (s : St) (i : Nat) : (clearImpl s i).trace = s.trace := (clearImpl_td s i).1
@[simp] theorem clearImpl_depth (s : St) (i : Nat) : (clearImpl s i).depth = s.depth := (clearImpl_td s i).2

theorem mkFun_td (s s' : St) (v : Bool) (spec : FSpec) (fn : Fun) (h : mkFun s v spec = .ok (fn, s')) :
    s'.trace = s.trace ∧ s'.depth = s.depth := by
  cases spec <;> simp only [mkFun] at h
  all_goals (repeat' (split at h))
  all_goals (first | (cases h; done) | (injection h with h; injection h with _ h; subst h; exact ⟨rfl, rfl⟩))

theorem connBlock_td (s : St) (p : Option Nat) (b : Bool) :
    (connBlock s p b).trace = s.trace ∧ (connBlock s p b).depth = s.depth := by
  unfold connBlock
  split
  · simp
  · split <;> simp
@[simp] theorem connBlock_trace (s : St) (p : Option Nat) (b : Bool) : (connBlock s p b).trace = s.trace := (connBlock_td s p b).1
@[simp] theorem connBlock_depth (s : St) (p : Option Nat) (b : Bool) : (connBlock s p b).depth = s.depth := (connBlock_td s p b).2

theorem dropHandle_td (s : St) (g : Nat) : (dropHandle s g).trace = s.trace ∧ (dropHandle s g).depth = s.depth := by
  unfold dropHandle
  split
  · exact ⟨rfl, rfl⟩
  · simp only
    split <;> split <;> simp
@[simp] theorem dropHandle_trace (s : St) (g : Nat) : (dropHandle s g).trace = s.trace := (dropHandle_td s g).1
@[simp] theorem dropHandle_depth (s : St) (g : Nat) : (dropHandle s g).depth = s.depth := (dropHandle_td s g).2

theorem collectStep_td (s s' : St) (h : collectStep s = some s') : s'.trace = s.trace ∧ s'.depth = s.depth := by
  unfold collectStep at h
  split at h
  · simp at h; subst h; simp
  · split at h
    · simp at h; subst h
      split <;> simp
    · split at h
      · simp at h; subst h; simp
      · simp at h

theorem collectN_td (n : Nat) (s : St) : (collectN n s).trace = s.trace ∧ (collectN n s).depth = s.depth := by
  induction n generalizing s with
  | zero => exact ⟨rfl, rfl⟩
  | succ n ih =>
    simp only [collectN]
    split
    · rename_i s1 h1
      have e1 := collectStep_td s s1 h1
      exact ⟨(ih s1).1.trans e1.1, (ih s1).2.trans e1.2⟩
    · exact ⟨rfl, rfl⟩

@[simp] theorem collect_trace (s : St) : (collect s).trace = s.trace := (collectN_td _ s).1
@[simp] theorem collect_depth (s : St) : (collect s).depth = s.depth := (collectN_td _ s).2

/-- finishing tactic for one `stepSimple` case: `h : <result> = some (s', r)` after unfolding -/
macro "td_finish" : tactic => `(tactic| (
  first
  | (simp at ‹_ = some (_, _)›; done)
  | (simp only [Option.some.injEq, Prod.mk.injEq] at ‹_ = some (_, _)›
     obtain ⟨rfl, _⟩ := ‹_ ∧ _›
     simp [St.fresh, *])))

theorem stepSimple_td (s s' : St) (op : Op) (r : String) (h : stepSimple s op = some (s', r)) :
    s'.trace = s.trace ∧ s'.depth = s.depth := by
  cases op <;> simp only [stepSimple] at h
  all_goals (repeat' (split at h))
  all_goals (first
    | (simp at h; done)
    | (simp only [Option.some.injEq, Prod.mk.injEq] at h; obtain ⟨rfl, _⟩ := h; simp [St.fresh, *]; done)
    | (have e1 := mkFun_td _ _ _ _ _ ‹mkFun _ _ _ = Except.ok _›
       have e2 := ensureImpl_td _ _ _ _ ‹ensureImpl _ _ = some _›
       simp only [Option.some.injEq, Prod.mk.injEq] at h; obtain ⟨rfl, _⟩ := h
       simp [St.fresh, e1.1, e1.2, e2.1, e2.2]; done)
    | (have e2 := ensureImpl_td _ _ _ _ ‹ensureImpl _ _ = some _›
       simp only [Option.some.injEq, Prod.mk.injEq] at h; obtain ⟨rfl, _⟩ := h
       simp [St.fresh, e2.1, e2.2]; done)
    | (have e1 := mkFun_td _ _ _ _ _ ‹mkFun _ _ _ = Except.ok _›
       simp only [Option.some.injEq, Prod.mk.injEq] at h; obtain ⟨rfl, _⟩ := h
       simp [St.fresh, e1.1, e1.2]; done)
    | skip)

end Sigc.StepIter
