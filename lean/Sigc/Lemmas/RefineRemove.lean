import Sigc.Lemmas.RefineTouch
/-!
# Refine work package — entries leaving their list: folding `touchCell` over cell ids in the model is
simulated by `LSig.remove` in the specification (`disconnectCell`/`removeCell`,
`invalidateTrackable` on both sides).
-/
namespace Sigc.Refine
open Sigc.Model

/-! ## slots -/

theorem SameHold.refl (a : SlotB) : SameHold a a := ⟨fun _ => rfl, fun _ => rfl⟩
theorem SameHold.symm {a b : SlotB} (h : SameHold a b) : SameHold b a := ⟨fun o => (h.1 o).symm, fun k => (h.2 k).symm⟩
theorem SameHold.trans {a b c : SlotB} (h1 : SameHold a b) (h2 : SameHold b c) : SameHold a c :=
  ⟨fun o => (h1.1 o).trans (h2.1 o), fun k => (h1.2 k).trans (h2.2 k)⟩

theorem sameHold_disconnectRep (sl : SlotB) : SameHold sl.disconnectRep sl := by
  unfold SameHold SlotB.disconnectRep SlotB.holdsT SlotB.holdsK
  cases h : sl.rep with
  | none => simp [h]
  | some r => obtain ⟨cl, fn⟩ := r; cases fn <;> simp

theorem disconnectRep_none {sl : SlotB} (h : sl.rep = none) : sl.disconnectRep = sl := by
  unfold SlotB.disconnectRep; simp [h]

theorem invalidate_none {sl : SlotB} (h : sl.rep = none) : sl.invalidate = sl := by
  unfold SlotB.invalidate; simp [h]

theorem disconnectRep_idem (sl : SlotB) : sl.disconnectRep.disconnectRep = sl.disconnectRep := by
  unfold SlotB.disconnectRep
  cases h : sl.rep <;> simp [h]

theorem invalidate_idem (sl : SlotB) : sl.invalidate.invalidate = sl.invalidate := by
  unfold SlotB.invalidate
  cases h : sl.rep <;> simp [h]

/-- a functor that refers to a trackable owns nothing -/
theorem tracks_owns : ∀ (f : Fun), f.tracks ≠ [] → f.ownsT = [] ∧ f.ownsK = []
  | .leaf _ _, _ => ⟨rfl, rfl⟩
  | .fwd _ _, _ => ⟨rfl, rfl⟩
  | .nest _ none, _ => ⟨rfl, rfl⟩
  | .nest _ (some f), h => by
    have := tracks_owns f (by simpa [Fun.tracks] using h)
    simpa [Fun.ownsT, Fun.ownsK] using this
  | .owner _ _ _, h => by simp [Fun.tracks] at h

theorem sameHold_invalidate_of_tracks {sl : SlotB} {t : Nat} (h : sl.tracksObj t = true) : SameHold sl.invalidate sl := by
  unfold SlotB.tracksObj at h
  unfold SameHold SlotB.invalidate SlotB.holdsT SlotB.holdsK
  cases hr : sl.rep with
  | none => simp [hr] at h
  | some r =>
    obtain ⟨cl, fn⟩ := r
    cases fn with
    | none => simp [hr] at h
    | some f =>
      simp only [hr] at h
      have hne : f.tracks ≠ [] := by
        intro e; rw [e] at h; simp at h
      obtain ⟨h1, h2⟩ := tracks_owns f hne
      simp [h1, h2]

/-! ## `LSig.remove` (with both known findings reproduced) -/

theorem remove_active (g : Spec.LSig) (d : Bool) (p : Spec.LCell → Bool) : (g.remove true true d p).active = g.active := rfl
theorem remove_limbo (g : Spec.LSig) (d : Bool) (p : Spec.LCell → Bool) : (g.remove true true d p).limbo = g.limbo := by
  simp [Spec.LSig.remove]

theorem remove_ids_sub (g : Spec.LSig) (d : Bool) (p : Spec.LCell → Bool) :
    ∀ c' ∈ (g.remove true true d p).cells, ∃ c ∈ g.cells, c.id = c'.id := by
  intro c' hc'
  simp only [Spec.LSig.remove, Bool.true_and] at hc'
  split at hc'
  · obtain ⟨c, hc, rfl⟩ := List.mem_map.mp hc'
    refine ⟨c, hc, ?_⟩
    split <;> rfl
  · exact ⟨c', (List.mem_filter.mp hc').1, rfl⟩

/-- predicates that agree on the live entries remove the same entries -/
theorem remove_congr (g : Spec.LSig) (d : Bool) {p q : Spec.LCell → Bool}
    (h : ∀ c ∈ g.cells, c.zombie = false → c.marker = false → p c = q c)
    (h0 : g.active = 0 → ∀ c ∈ g.cells, c.zombie = false ∧ c.marker = false) :
    g.remove true true d p = g.remove true true d q := by
  have hcell : ∀ c ∈ g.cells, (p c && !c.marker && !c.zombie) = (q c && !c.marker && !c.zombie) := by
    intro c hc
    cases hz : c.zombie <;> cases hm : c.marker <;> simp
    exact h c hc hz hm
  have hcell' : ∀ c ∈ g.cells, (p c && !c.zombie && !c.marker) = (q c && !c.zombie && !c.marker) := by
    intro c hc
    cases hz : c.zombie <;> cases hm : c.marker <;> simp
    exact h c hc hz hm
  have hhit : g.cells.any (fun c => p c && !c.zombie && !c.marker) = g.cells.any (fun c => q c && !c.zombie && !c.marker) := by
    generalize g.cells = cs at hcell'
    induction cs with
    | nil => rfl
    | cons c t ih =>
      simp only [List.any_cons]
      rw [hcell' c (by simp), ih (fun c hc => hcell' c (List.mem_cons_of_mem _ hc))]
  simp only [Spec.LSig.remove, Bool.true_and, Bool.not_true, Bool.false_and]
  rw [hhit]
  congr 1
  split
  · apply List.map_congr_left
    intro c hc
    rw [hcell c hc]
  · rename_i ha
    have ha0 : g.active = 0 := by
      simp at ha; exact ha
    apply List.filter_congr
    intro c hc
    obtain ⟨hz, hm⟩ := h0 ha0 c hc
    rw [h c hc hz hm]

/-- nothing live matches: nothing happens -/
theorem remove_noop (g : Spec.LSig) (d : Bool) {p : Spec.LCell → Bool}
    (h : ∀ c ∈ g.cells, c.zombie = false → c.marker = false → p c = false)
    (h0 : g.active = 0 → ∀ c ∈ g.cells, c.zombie = false ∧ c.marker = false) :
    g.remove true true d p = g := by
  rw [remove_congr g d (q := fun _ => false) h h0]
  simp only [Spec.LSig.remove, Bool.true_and, Bool.not_true, Bool.false_and, Bool.false_and]
  have h1 : g.cells.map (fun c => if (false && !c.marker && !c.zombie) = true then
      ({ c with zombie := true, slot := if d = true then c.slot.invalidate else c.slot.disconnectRep } : Spec.LCell) else c) = g.cells := by
    conv => rhs; rw [← List.map_id g.cells]
    apply List.map_congr_left; intro c _; simp
  have h2 : g.cells.filter (fun c => !false || c.marker) = g.cells := by
    rw [List.filter_eq_self]; intro c _; simp
  have h3 : g.cells.any (fun c => false && !c.zombie && !c.marker) = false := by
    rw [List.any_eq_false]; intro c _; simp
  simp only [h1, h2, h3]
  cases g; simp

/-! ## one impl / one list -/

/-- a list that is not being emitted has no disconnected entries and no end markers -/
theorem SigR.quiet {im : Impl} {g : Spec.LSig} (hr : SigR im g) (hok : Emit.ImplOK 0 im) (ha : g.active = 0) :
    ∀ d ∈ g.cells, d.zombie = false ∧ d.marker = false := by
  intro d hd
  obtain ⟨c, hc, hcd⟩ := hr.cells.mem_right hd
  have hx : im.exec = 0 := by have := hok.eh; rw [hr.active] at ha; omega
  have hm := hok.no_markers hx c hc
  have hl := hok.d (hok.q1 hx) c hc hm
  rw [hcd.zombie, hcd.marker, hl]; simp

/-- a linked cell is a live entry -/
theorem CellR.live {c : Cell} {d : Spec.LCell} (h : CellR c d) : c.linked = (!d.zombie && !d.marker) := by
  rw [h.zombie, h.marker]
  cases hl : c.linked with
  | true => simp
  | false => cases hn : c.slot.rep <;> simp

theorem sigR_touch {hf : SlotB → SlotB} {dr : Bool} (hg : ∀ sl, (if dr = true then sl.invalidate else sl.disconnectRep) = hf sl)
    (hw : Emit.Weakens hf) (hnone : ∀ sl : SlotB, sl.rep = none → hf sl = sl)
    {im : Impl} {g : Spec.LSig} (hr : SigR im g) (hok : Emit.ImplOK 0 im) (W : List Nat)
    (hH : ∀ c ∈ im.cells, c.id ∈ W → c.linked = false → SameHold (hf c.slot) c.slot) :
    SigR (touchImpl hf W im) (g.remove true true dr (fun c => W.contains c.id)) := by
  have heh : im.exec = im.holders := by have := hok.eh; omega
  by_cases hx : im.exec = 0
  · have ha : g.active = 0 := by rw [hr.active]; omega
    have hq := hr.quiet hok ha
    refine ⟨?_, ?_, ?_, ?_⟩
    · simp only [touchImpl, hx, if_true, Spec.LSig.remove, Bool.true_and, ha]
      simp only [Nat.lt_irrefl, decide_false, if_false]
      apply F2.filter hr.cells
      intro c d _ hd hcd
      rw [hcd.id, (hq d hd).2]; simp
    · rw [remove_active, touchImpl_holders]; exact hr.active
    · simp only [touchImpl, hx, if_true, Spec.LSig.remove, ha]
      simp [hr.dirty]
    · rw [remove_limbo]; exact hr.limbo
  · have ha : g.active > 0 := by rw [hr.active]; omega
    refine ⟨?_, ?_, ?_, ?_⟩
    · simp only [touchImpl, hx, if_false, Spec.LSig.remove, Bool.true_and, ha, decide_true, if_true]
      apply F2.map hr.cells
      intro c d hc _ hcd
      unfold touchC
      rw [hcd.id]
      by_cases hin : c.id ∈ W
      · have hcon : W.contains c.id = true := by simpa using hin
        simp only [hcon, if_true, Bool.true_and]
        cases hl : c.linked with
        | true =>
          have hlive := hcd.live
          rw [hl] at hlive
          have hz : d.zombie = false := by cases h : d.zombie <;> simp [h] at hlive ⊢
          have hm : d.marker = false := by cases h : d.marker <;> simp [h] at hlive ⊢
          have hsl := hcd.slot hz
          have hsome := hcd.lrep hl
          simp only [hz, hm, Bool.not_false, Bool.and_self, if_true]
          refine ⟨rfl, ?_, ?_, ?_, ?_, ?_⟩
          · simp only [hm]
            have := hw.isNone c.slot
            cases hn : c.slot.rep with
            | none => rw [hn] at hsome; simp at hsome
            | some r =>
              have h2 : (hf c.slot).rep.isNone = false := by rw [this, hn]; rfl
              simp [h2]
          · have := hw.isNone c.slot
            cases hn : c.slot.rep with
            | none => rw [hn] at hsome; simp at hsome
            | some r =>
              have h2 : (hf c.slot).rep.isNone = false := by rw [this, hn]; rfl
              cases h3 : (hf c.slot).rep with
              | none => rw [h3] at h2; simp at h2
              | some _ => simp
          · intro h; simp at h
          · intro _
            rw [hg, hsl]
            exact ⟨hw.empty _, SameHold.refl _⟩
          · intro h; simp at h
        | false =>
          have hlive := hcd.live
          rw [hl] at hlive
          have hskip : (!d.marker && !d.zombie) = false := by
            cases h1 : d.marker <;> cases h2 : d.zombie <;> simp [h1, h2] at hlive ⊢
          simp only [hskip, Bool.false_eq_true, if_false]
          have hiso : (hf c.slot).rep.isNone = c.slot.rep.isNone := hw.isNone _
          have hisS : (hf c.slot).rep.isSome = c.slot.rep.isSome := by
            cases h1 : (hf c.slot).rep <;> cases h2 : c.slot.rep <;> simp [h1, h2] at hiso ⊢
          refine ⟨hcd.id, ?_, ?_, ?_, ?_, ?_⟩
          · simp only [hiso]; rw [hcd.marker, hl]
          · simp only [hisS]; rw [hcd.zombie, hl]
          · intro hz
            have := hcd.slot hz
            -- an end marker: nothing changes
            have hzz := hcd.zombie
            rw [hz, hl] at hzz
            have hn : c.slot.rep = none := by
              cases h2 : c.slot.rep with
              | none => rfl
              | some _ => rw [h2] at hzz; simp at hzz
            simp only [hnone _ hn]; exact this
          · intro hz
            obtain ⟨h1, h2⟩ := hcd.zslot hz
            exact ⟨h1, (hH c hc hin hl).trans h2⟩
          · intro h; simp at h
      · have hcon : W.contains c.id = false := by simpa using hin
        simp only [hcon, Bool.false_and, Bool.false_eq_true, if_false]
        exact hcd
    · rw [remove_active, touchImpl_holders]; exact hr.active
    · simp only [touchImpl, hx, if_false, Spec.LSig.remove, Bool.true_and, ha, decide_true]
      rw [hr.dirty]
      congr 1
      apply Eq.symm
      apply F2.any hr.cells
      intro c d _ _ hcd
      rw [hcd.live, hcd.id, Bool.and_assoc]
    · rw [remove_limbo]; exact hr.limbo

/-! ## the whole state -/

theorem hasId_of_AR {impls : List (Nat × Impl)} {sigs : List (Nat × Spec.LSig)} (h : AR SigR impls sigs) {cid : Nat}
    (hc : HasId sigs cid) : ∃ p ∈ impls, cid ∈ Emit.cids p.2 := by
  obtain ⟨q, hq, c, hcm, e⟩ := hc
  obtain ⟨p, hp, _, hr⟩ := F2.mem_right h hq
  refine ⟨p, hp, ?_⟩
  rw [← hr.ids, ← e]; exact List.mem_map.mpr ⟨c, hcm, rfl⟩

/-- nulling the connections to erased cells keeps them related -/
theorem ptrs_null {sigs sigs' : List (Nat × Spec.LSig)} {n : Nat} (hle : SigsLe sigs n sigs') (E : List Nat)
    (hE : ∀ cid ∈ E, Gone sigs' n cid) {l m : List (Nat × Option Nat)} (h : AR (PtrR sigs n) l m) :
    AR (PtrR sigs' n) (amap l (nullE E)) m := by
  apply h.map_left
  intro k a b _ _ hab
  rcases hab with e | ⟨e, cid, e2, hgone⟩
  · subst e
    cases a with
    | none => exact Or.inl rfl
    | some c =>
      by_cases hc : c ∈ E
      · right; exact ⟨by simp [nullE, hc], c, rfl, hE c hc⟩
      · left; simp [nullE, hc]
  · subst e
    exact Or.inr ⟨rfl, cid, e2, hgone.mono (Nat.le_refl _) hle⟩

theorem touch_sim {hf : SlotB → SlotB} {dr : Bool} (hg : ∀ sl, (if dr = true then sl.invalidate else sl.disconnectRep) = hf sl)
    (hw : Emit.Weakens hf) (hidem : ∀ sl, hf (hf sl) = hf sl) (hnone : ∀ sl : SlotB, sl.rep = none → hf sl = sl)
    {s : St} {t : Spec.LSt} (hs : Emit.Inv s) (hR : R s t) (W : List Nat)
    (hH : ∀ p ∈ s.impls, ∀ c ∈ p.2.cells, c.id ∈ W → c.linked = false → SameHold (hf c.slot) c.slot) :
    R (W.foldl (Emit.touchCell hf) s)
      { t with sigs := amap t.sigs (fun g => g.remove true true dr (fun c => W.contains c.id)) } := by
  obtain ⟨E, hE, heq⟩ := touch_fold hw hidem W hs
  rw [heq]
  have hsigs : AR SigR (amap s.impls (touchImpl hf W))
      (amap t.sigs (fun g => g.remove true true dr (fun c => W.contains c.id))) := by
    apply hR.sigs.map
    intro k a b ha _ hr
    exact sigR_touch hg hw hnone hr (hs.ok k a (Emit.aget_of_mem_nodup hs.keys ha)) W (hH (k, a) ha)
  have hle : SigsLe t.sigs t.next (amap t.sigs (fun g => g.remove true true dr (fun c => W.contains c.id))) :=
    SigsLe.amap _ (fun g => remove_ids_sub g dr _)
  have hgone : ∀ cid ∈ E, Gone (amap t.sigs (fun g => g.remove true true dr (fun c => W.contains c.id))) t.next cid := by
    intro cid hc
    obtain ⟨_, ⟨p, hp, hin⟩, her⟩ := hE cid hc
    rw [gone_iff]
    refine ⟨?_, ?_⟩
    · rw [hR.next]
      exact (hs.lt p.1 p.2 (Emit.aget_of_mem_nodup hs.keys (show (p.1, p.2) ∈ s.impls from hp))).2 cid hin
    · intro hh
      obtain ⟨q, hq, hin'⟩ := hasId_of_AR hsigs hh
      exact her q hq hin'
  exact ⟨hR.T, hR.S, hR.G, ptrs_null hle E hgone hR.C, ptrs_null hle E hgone hR.K, hsigs, hR.ownedT,
    ptrs_null hle E hgone hR.ownedK, hR.ownedG, hR.next, hR.depth, hR.steps, hR.trace, hR.k1, hR.k2⟩

end Sigc.Refine
