import Sigc.Lemmas.InvTracks2
/-! `TL` and the operations of `stepSimple`; `TL` is stable relative to `WF` -/
namespace Sigc.Inv
open Sigc.Model

theorem tli_invalidateTrackable {s : St} {t : Nat} (h : TLI s.T s.G s.ownedT s.S s.impls) :
    TLI (invalidateTrackable s t).T (invalidateTrackable s t).G (invalidateTrackable s t).ownedT
      (invalidateTrackable s t).S (invalidateTrackable s t).impls := TL.prims.invalidateTrackable t h
theorem tli_gcImpl {s : St} {i : Nat} (h : TLI s.T s.G s.ownedT s.S s.impls) :
    TLI (gcImpl s i).T (gcImpl s i).G (gcImpl s i).ownedT (gcImpl s i).S (gcImpl s i).impls := TL.prims.gcImpl i h
theorem tli_disconnectCell {s : St} {i : Nat} (h : TLI s.T s.G s.ownedT s.S s.impls) :
    TLI (disconnectCell s i).T (disconnectCell s i).G (disconnectCell s i).ownedT (disconnectCell s i).S
      (disconnectCell s i).impls := TL.prims.disconnectCell i h
theorem tli_clearImpl {s : St} {i : Nat} (h : TLI s.T s.G s.ownedT s.S s.impls) :
    TLI (clearImpl s i).T (clearImpl s i).G (clearImpl s i).ownedT (clearImpl s i).S (clearImpl s i).impls :=
  TL.prims.clearImpl i h
theorem tli_connBlock {s : St} {p : Option Nat} {b : Bool} (h : TLI s.T s.G s.ownedT s.S s.impls) :
    TLI (connBlock s p b).T (connBlock s p b).G (connBlock s p b).ownedT (connBlock s p b).S (connBlock s p b).impls :=
  TL.prims.connBlock p b h
theorem tli_blockAll {s : St} {i : Nat} {x : Impl} {b : Bool} (hi : aget s.impls i = some x)
    (h : TLI s.T s.G s.ownedT s.S s.impls) :
    TLI s.T s.G s.ownedT s.S
      (aset s.impls i { x with cells := x.cells.map (fun c => { c with slot := { c.slot with blocked := b } }) }) :=
  TL.prims.blockAll b h hi
theorem tli_T_aset_fresh {T G oT S impls} {t o : Nat} (ht : aget T t = none) (h : TLI T G oT S impls) :
    TLI (aset T t o) G oT S impls := h.monoL (fun _ ho => liveObj_aset_T ht ho)
theorem tli_G_aset_fresh {T G oT S impls} {g : Nat} {hd : Handle} (hg : aget G g = none) (h : TLI T G oT S impls) :
    TLI T (aset G g hd) oT S impls :=
  h.monoL (fun _ ho => liveObj_aset_G (fun h0 e => by rw [hg] at e; cases e) ho)
theorem tli_S_aset {T G oT S impls} {k : Nat} {v : SlotVar} (hv : SlotTracks (LiveObj T G oT) v.slot)
    (h : TLI T G oT S impls) : TLI T G oT (aset S k v) impls := TrackedIn.asetS h k hv
theorem tli_S_adel {T G oT S impls} {k : Nat} (h : TLI T G oT S impls) : TLI T G oT (adel S k) impls :=
  TrackedIn.adelS h k
theorem tli_insertCell {s : St} {i : Nat} {first : Bool} {sl : SlotB}
    (hs : SlotTracks (LiveObj s.T s.G s.ownedT) sl) (h : TLI s.T s.G s.ownedT s.S s.impls) :
    TLI (insertCell s i first sl).fst.T (insertCell s i first sl).fst.G (insertCell s i first sl).fst.ownedT
      (insertCell s i first sl).fst.S (insertCell s i first sl).fst.impls := TL.insertCell i first hs h

theorem st_copy {L : Nat → Prop} {sl : SlotB} (h : SlotTracks L sl) : SlotTracks L sl.copy := h.copy
theorem st_move_fst {L : Nat → Prop} {sl : SlotB} (h : SlotTracks L sl) : SlotTracks L sl.move.1 := by
  unfold SlotB.move; split
  · rename_i r hr; exact h.of_rep_eq (by simp [hr])
  · rename_i hr; exact SlotTracks.norep rfl
theorem st_move_snd {L : Nat → Prop} (sl : SlotB) : SlotTracks L sl.move.2 := by
  unfold SlotB.move; split
  · exact SlotTracks.norep rfl
  · rename_i hr; exact SlotTracks.norep hr
theorem st_norep {L : Nat → Prop} (b : Bool) : SlotTracks L { blocked := b, rep := none } := SlotTracks.norep rfl
theorem st_blocked {L : Nat → Prop} {sl : SlotB} {b : Bool} (h : SlotTracks L sl) :
    SlotTracks L { blocked := b, rep := sl.rep } := h.of_rep_eq rfl
theorem st_disconnectRep {L : Nat → Prop} {sl : SlotB} (h : SlotTracks L sl) : SlotTracks L sl.disconnectRep :=
  h.le (Or.inr (Or.inl rfl))
theorem st_new {L : Nat → Prop} {b : Bool} {fn : Fun} (h : ∀ o ∈ fn.tracks, L o) :
    SlotTracks L { blocked := b, rep := some { call := true, fn := some fn } } := SlotTracks.new h

/-- the S-operations -/
theorem TL_S_ops (s : St) (op : Op) (s' : St) (r : String) (hI : TL s)
    (hop : (∃ i ty f, op = .mkS i ty f) ∨ (∃ i f, op = .setS i f) ∨ (∃ j i, op = .cpS j i) ∨ (∃ j i, op = .mvS j i) ∨
      (∃ j i, op = .asgS j i) ∨ (∃ j i, op = .masgS j i))
    (h : stepSimple s op = some (s', r)) : TL s' := by
  rcases hop with ⟨i, ty, f, rfl⟩ | ⟨i, f, rfl⟩ | ⟨j, i, rfl⟩ | ⟨j, i, rfl⟩ | ⟨j, i, rfl⟩ | ⟨j, i, rfl⟩
  all_goals simp only [stepSimple] at h
  · -- mkS
    repeat' split at h
    all_goals (simp only [Option.some.injEq, Prod.mk.injEq] at h; obtain ⟨rfl, _⟩ := h)
    all_goals (first | exact hI | skip)
    have hM := TL.mkFun hI ‹_›
    exact TrackedIn.asetS hM.1 _ (SlotTracks.new hM.2)
  · -- setS
    repeat' split at h
    all_goals (simp only [Option.some.injEq, Prod.mk.injEq] at h; obtain ⟨rfl, _⟩ := h)
    all_goals (first | exact hI | skip)
    all_goals (
      have hM := TL.mkFun hI ‹_›
      exact TrackedIn.asetS hM.1 _ (SlotTracks.new hM.2))
  · -- cpS
    repeat' split at h
    all_goals (simp only [Option.some.injEq, Prod.mk.injEq] at h; obtain ⟨rfl, _⟩ := h)
    all_goals (first | exact hI | skip)
    exact TrackedIn.asetS hI _ (TrackedIn.getS hI ‹_›).copy
  · -- mvS
    repeat' split at h
    all_goals (simp only [Option.some.injEq, Prod.mk.injEq] at h; obtain ⟨rfl, _⟩ := h)
    all_goals (first | exact hI | skip)
    exact TrackedIn.asetS (TrackedIn.asetS hI _ (st_move_snd _)) _ (st_move_fst (TrackedIn.getS hI ‹_›))
  · -- asgS
    split at h
    · rename_i d v hd hv
      have sd := TrackedIn.getS hI hd
      have sv := TrackedIn.getS hI hv
      repeat' split at h
      all_goals (simp only [Option.some.injEq, Prod.mk.injEq] at h; obtain ⟨rfl, _⟩ := h)
      all_goals (first | exact hI | skip)
      all_goals (refine TrackedIn.asetS hI _ ?_)
      all_goals (first | exact st_blocked sd | exact st_norep _ | exact st_blocked sv.copy)
    · simp only [Option.some.injEq, Prod.mk.injEq] at h; obtain ⟨rfl, _⟩ := h; exact hI
  · -- masgS
    split at h
    · rename_i d v hd hv
      have sd := TrackedIn.getS hI hd
      have sv := TrackedIn.getS hI hv
      repeat' split at h
      all_goals (simp only [Option.some.injEq, Prod.mk.injEq] at h; obtain ⟨rfl, _⟩ := h)
      all_goals (first | exact hI | skip)
      all_goals (first
        | exact TrackedIn.asetS hI _ (st_blocked sd)
        | exact TrackedIn.asetS hI _ (st_norep _)
        | exact TrackedIn.asetS (TrackedIn.asetS hI _ (st_norep _)) _ (st_blocked sv))
    · simp only [Option.some.injEq, Prod.mk.injEq] at h; obtain ⟨rfl, _⟩ := h; exact hI

/-! handles: `G'` extends `G` keeping flavour and trackable base of every handle -/
def GLe (G G' : List (Nat × Handle)) : Prop :=
  ∀ g h, aget G g = some h → ∃ h', aget G' g = some h' ∧ h'.fl = h.fl ∧ h'.trk = h.trk

theorem GLe.refl (G : List (Nat × Handle)) : GLe G G := fun _ h hg => ⟨h, hg, rfl, rfl⟩

theorem GLe.trans {G G' G'' : List (Nat × Handle)} (h1 : GLe G G') (h2 : GLe G' G'') : GLe G G'' := by
  intro g h hg
  obtain ⟨h', hg', e1, e2⟩ := h1 g h hg
  obtain ⟨h'', hg'', e3, e4⟩ := h2 g h' hg'
  exact ⟨h'', hg'', e3.trans e1, e4.trans e2⟩

theorem GLe.aset_fresh {G : List (Nat × Handle)} {g : Nat} (hd : Handle) (h : aget G g = none) : GLe G (aset G g hd) := by
  intro g' h' hg'
  refine ⟨h', ?_, rfl, rfl⟩
  rw [aget_aset]
  split
  · rename_i e; subst e; rw [h] at hg'; cases hg'
  · exact hg'

theorem GLe.aset_same {G : List (Nat × Handle)} {g : Nat} {h0 hd : Handle} (h : aget G g = some h0)
    (e1 : hd.fl = h0.fl) (e2 : hd.trk = h0.trk) : GLe G (aset G g hd) := by
  intro g' h' hg'
  rw [aget_aset]
  split
  · rename_i e; subst e; rw [h] at hg'; cases hg'; exact ⟨hd, rfl, e1, e2⟩
  · exact ⟨h', hg', rfl, rfl⟩

theorem liveObj_gle {T : List (Nat × Nat)} {G G' : List (Nat × Handle)} {oT : List Nat} (h : GLe G G') {o : Nat}
    (ho : LiveObj T G oT o) : LiveObj T G' oT o := by
  rcases ho with a | ⟨g, hd, hg, ht, he⟩ | a
  · exact Or.inl a
  · obtain ⟨h', hg', e1, e2⟩ := h g hd hg
    exact Or.inr (Or.inl ⟨g, h', hg', e1 ▸ ht, e2.trans he⟩)
  · exact Or.inr (Or.inr a)

theorem TLI.gle {T : List (Nat × Nat)} {G G' : List (Nat × Handle)} {oT : List Nat}
    {S : List (Nat × SlotVar)} {impls : List (Nat × Impl)} (h : TLI T G oT S impls) (hg : GLe G G') :
    TLI T G' oT S impls := h.monoL (fun _ ho => liveObj_gle hg ho)

theorem ensureImpl_frame {s s1 : St} {g i : Nat} (he : ensureImpl s g = some (s1, i)) :
    s1.T = s.T ∧ s1.S = s.S ∧ s1.ownedT = s.ownedT ∧ GLe s.G s1.G ∧
    (∀ j, aget s.G j = none → aget s1.G j = none) := by
  unfold Model.ensureImpl at he
  split at he
  · cases he
  · rename_i hd hg
    split at he
    · cases he; exact ⟨rfl, rfl, rfl, GLe.refl _, fun _ h => h⟩
    · simp only [St.fresh, Option.some.injEq, Prod.mk.injEq] at he
      obtain ⟨rfl, rfl⟩ := he
      refine ⟨rfl, rfl, rfl, GLe.aset_same hg rfl rfl, ?_⟩
      intro j hj
      show aget (aset s.G g _) j = none
      rw [aget_aset]
      split
      · rename_i e; subst e; rw [hg] at hj; cases hj
      · exact hj

theorem ne_of_aget {α : Type} {l : List (Nat × α)} {i j : Nat} {v : α} (hi : aget l i = some v) (hj : aget l j = none) :
    j ≠ i := by
  intro e; subst e; rw [hi] at hj; cases hj

/-- the signal-object operations -/
theorem TL_G_ops (s : St) (op : Op) (s' : St) (r : String) (hW : WF s) (hI : TL s)
    (hop : (∃ j i, op = .cpG j i) ∨ (∃ j i, op = .mvG j i) ∨ (∃ j i, op = .asgG j i) ∨ (∃ j i, op = .masgG j i) ∨
      (∃ i, op = .delG i))
    (h : stepSimple s op = some (s', r)) : TL s' := by
  rcases hop with ⟨j, i, rfl⟩ | ⟨j, i, rfl⟩ | ⟨j, i, rfl⟩ | ⟨j, i, rfl⟩ | ⟨i, rfl⟩
  all_goals simp only [stepSimple] at h
  · -- cpG
    repeat' split at h
    all_goals (simp only [Option.some.injEq, Prod.mk.injEq] at h; obtain ⟨rfl, _⟩ := h)
    all_goals (first | exact hI | exact TL.ensureImpl hI ‹_› | skip)
    have h2 := TL.ensureImpl hI ‹_›
    obtain ⟨_, _, _, _, hfr⟩ := ensureImpl_frame ‹ensureImpl s i = some _›
    exact TLI.gle h2 (GLe.aset_fresh _ (hfr j ‹_›))
  · -- mvG
    split at h
    · simp only [Option.some.injEq, Prod.mk.injEq] at h; obtain ⟨rfl, _⟩ := h; exact hI
    rename_i h0 hi
    split at h
    · simp only [Option.some.injEq, Prod.mk.injEq] at h; obtain ⟨rfl, _⟩ := h; exact hI
    rename_i hj
    split at h
    · -- accumulated: a copy
      split at h
      · simp only [Option.some.injEq, Prod.mk.injEq] at h; obtain ⟨rfl, _⟩ := h; exact hI
      · rename_i s1 im he
        simp only [St.fresh, Option.some.injEq, Prod.mk.injEq] at h; obtain ⟨rfl, _⟩ := h
        have h2 := TL.ensureImpl hI he
        obtain ⟨_, _, _, _, hfr⟩ := ensureImpl_frame he
        exact TLI.gle h2 (GLe.aset_fresh _ (hfr j hj))
    · simp only [St.fresh, Option.some.injEq, Prod.mk.injEq] at h; obtain ⟨rfl, _⟩ := h
      have hg : GLe s.G (aset (aset s.G i { h0 with impl := none }) j
          { obj := s.next, fl := h0.fl, impl := h0.impl, trk := s.next + 1, lvl := h0.lvl }) :=
        GLe.trans (GLe.aset_same (hd := { h0 with impl := none }) hi rfl rfl) (GLe.aset_fresh _ (by
          rw [aget_aset_other _ _ _ _ (ne_of_aget hi hj)]; exact hj))
      split
      · exact TL.prims.invalidateTrackable _ (TLI.gle hI hg)
      · exact TLI.gle hI hg
  · -- asgG
    split at h
    · rename_i d hh hj hi
      repeat' split at h
      all_goals (simp only [Option.some.injEq, Prod.mk.injEq] at h; obtain ⟨rfl, _⟩ := h)
      all_goals (first | exact hI | exact TL.ensureImpl hI ‹_› | skip)
      all_goals (
        have h2 := TL.ensureImpl hI ‹_›
        obtain ⟨_, _, _, hle, _⟩ := ensureImpl_frame ‹ensureImpl s i = some _›
        obtain ⟨d', hd', e1, e2⟩ := hle j d hj)
      · exact TL.prims.gcImpl _ (TLI.gle h2 (GLe.aset_same hd' e1.symm e2.symm))
      · exact TLI.gle h2 (GLe.aset_same hd' e1.symm e2.symm)
    · simp only [Option.some.injEq, Prod.mk.injEq] at h; obtain ⟨rfl, _⟩ := h; exact hI
  · -- masgG
    split at h
    · rename_i d hh hj hi
      split at h
      · simp only [Option.some.injEq, Prod.mk.injEq] at h; obtain ⟨rfl, _⟩ := h; exact hI
      split at h
      · simp only [Option.some.injEq, Prod.mk.injEq] at h; obtain ⟨rfl, _⟩ := h; exact hI
      split at h
      · -- refused: functor-owned source / destination
        simp only [Option.some.injEq, Prod.mk.injEq] at h; obtain ⟨rfl, _⟩ := h; exact hI
      split at h
      · -- accumulated: copy assignment
        repeat' split at h
        all_goals (simp only [Option.some.injEq, Prod.mk.injEq] at h; obtain ⟨rfl, _⟩ := h)
        all_goals (first | exact hI | exact TL.ensureImpl hI ‹_› | skip)
        all_goals (
          have h2 := TL.ensureImpl hI ‹_›
          obtain ⟨_, _, _, hle, _⟩ := ensureImpl_frame ‹ensureImpl s i = some _›
          obtain ⟨d', hd', e1, e2⟩ := hle j d hj)
        · exact TL.prims.gcImpl _ (TLI.gle h2 (GLe.aset_same hd' e1.symm e2.symm))
        · exact TLI.gle h2 (GLe.aset_same hd' e1.symm e2.symm)
      · split at h
        · simp only [Option.some.injEq, Prod.mk.injEq] at h; obtain ⟨rfl, _⟩ := h; exact hI
        · rename_i hne
          simp only [Option.some.injEq, Prod.mk.injEq] at h; obtain ⟨rfl, _⟩ := h
          have hg : GLe s.G (aset (aset s.G j { d with impl := hh.impl }) i { hh with impl := none }) :=
            GLe.trans (GLe.aset_same (hd := { d with impl := hh.impl }) hj rfl rfl)
              (GLe.aset_same (h0 := hh) (by rw [aget_aset_other _ _ _ _ (fun e => hne e.symm)]; exact hi) rfl rfl)
          have h3 := TLI.gle hI hg
          split <;> split <;>
            first
            | exact TL.prims.invalidateTrackable _ (TL.prims.gcImpl _ h3)
            | exact TL.prims.invalidateTrackable _ h3
            | exact TL.prims.gcImpl _ h3
            | exact h3
    · simp only [Option.some.injEq, Prod.mk.injEq] at h; obtain ⟨rfl, _⟩ := h; exact hI
  · -- delG
    split at h
    · simp only [Option.some.injEq, Prod.mk.injEq] at h; obtain ⟨rfl, _⟩ := h; exact hI
    rename_i hd hi
    split at h
    · simp only [Option.some.injEq, Prod.mk.injEq] at h; obtain ⟨rfl, _⟩ := h; exact hI
    split at h
    · simp only [Option.some.injEq, Prod.mk.injEq] at h; obtain ⟨rfl, _⟩ := h; exact hI
    simp only [Option.some.injEq, Prod.mk.injEq] at h; obtain ⟨rfl, _⟩ := h
    cases htr : hd.fl.isTrackable with
    | false =>
      simp only [Bool.false_eq_true, if_false]
      have h3 : TLI s.T (adel s.G i) s.ownedT s.S s.impls :=
        hI.monoL (fun o ho => liveObj_adel_G hi ho (fun e => by rw [htr] at e; cases e))
      split
      · exact TL.prims.gcImpl _ h3
      · exact h3
    | true =>
      simp only [if_true]
      obtain ⟨f1, f2, f3, _, _⟩ := invalidateTrackable_frame s hd.trk
      have h3 : TLI (invalidateTrackable s hd.trk).T (adel (invalidateTrackable s hd.trk).G i)
          (invalidateTrackable s hd.trk).ownedT (invalidateTrackable s hd.trk).S (invalidateTrackable s hd.trk).impls := by
        rw [f1, f2, f3]
        exact (trackedIn_kill hW hI hd.trk).mono (fun o ho => liveObj_adel_G hi ho.1 (fun _ => ho.2))
      split
      · exact TL.prims.gcImpl _ h3
      · exact h3

theorem TL_delT (s : St) (t : Nat) (s' : St) (r : String) (hW : WF s) (hI : TL s)
    (h : stepSimple s (.delT t) = some (s', r)) : TL s' := by
  simp only [stepSimple] at h
  split at h
  · simp only [Option.some.injEq, Prod.mk.injEq] at h; obtain ⟨rfl, _⟩ := h; exact hI
  · rename_i o ht
    simp only [Option.some.injEq, Prod.mk.injEq] at h; obtain ⟨rfl, _⟩ := h
    obtain ⟨f1, f2, f3, _, _⟩ := invalidateTrackable_frame { s with T := adel s.T t } o
    show TLI _ _ _ _ _
    rw [f1, f2, f3]
    have hk := trackedIn_kill (s := { s with T := adel s.T t }) hW (L := LiveObj s.T s.G s.ownedT) hI o
    exact hk.mono (fun o' ho => liveObj_adel_T ht ho.1 ho.2)

theorem TL_conn (s : St) (k g sv : Nat) (first mv : Bool) (s' : St) (r : String) (hI : TL s)
    (h : stepSimple s (.conn k g sv first mv) = some (s', r)) : TL s' := by
  simp only [stepSimple] at h
  split at h
  · rename_i hd v hg hv
    repeat' split at h
    all_goals (simp only [Option.some.injEq, Prod.mk.injEq] at h; obtain ⟨rfl, _⟩ := h)
    all_goals (first | exact hI | skip)
    all_goals (
      have h2 := TL.ensureImpl hI ‹_›
      obtain ⟨_, fS, _, _, _⟩ := ensureImpl_frame ‹ensureImpl s g = some _›
      have sv2 := TrackedIn.getS h2 (fS ▸ hv))
    · exact TL.insertCell _ _ (st_move_fst sv2) (TrackedIn.asetS h2 _ (st_move_snd _))
    · exact TL.insertCell _ _ sv2.copy h2
  · simp only [Option.some.injEq, Prod.mk.injEq] at h; obtain ⟨rfl, _⟩ := h; exact hI

theorem TL_connfn (s : St) (k g : Nat) (f : FSpec) (first : Bool) (s' : St) (r : String) (hI : TL s)
    (h : stepSimple s (.connfn k g f first) = some (s', r)) : TL s' := by
  simp only [stepSimple] at h
  repeat' split at h
  all_goals (simp only [Option.some.injEq, Prod.mk.injEq] at h; obtain ⟨rfl, _⟩ := h)
  all_goals (first | exact hI | exact (TL.mkFun hI ‹_›).1 | skip)
  have hM := TL.mkFun hI ‹_›
  have h3 := TL.ensureImpl hM.1 ‹_›
  obtain ⟨fT, _, fO, hle, _⟩ := ensureImpl_frame ‹ensureImpl _ g = some _›
  refine TL.insertCell _ _ (SlotTracks.new ?_) h3
  intro o ho
  rw [fT, fO]
  exact liveObj_gle hle (hM.2 o ho)


set_option maxHeartbeats 400000 in
theorem TL_simple (s : St) (op : Op) (s' : St) (r : String) (hW : WF s) (hI : TL s)
    (h : stepSimple s op = some (s', r)) : TL s' := by
  cases op
  case mkS i ty f => exact TL_S_ops s _ s' r hI (Or.inl ⟨i, ty, f, rfl⟩) h
  case setS i f => exact TL_S_ops s _ s' r hI (Or.inr (Or.inl ⟨i, f, rfl⟩)) h
  case cpS j i => exact TL_S_ops s _ s' r hI (Or.inr (Or.inr (Or.inl ⟨j, i, rfl⟩))) h
  case mvS j i => exact TL_S_ops s _ s' r hI (Or.inr (Or.inr (Or.inr (Or.inl ⟨j, i, rfl⟩)))) h
  case asgS j i => exact TL_S_ops s _ s' r hI (Or.inr (Or.inr (Or.inr (Or.inr (Or.inl ⟨j, i, rfl⟩))))) h
  case masgS j i => exact TL_S_ops s _ s' r hI (Or.inr (Or.inr (Or.inr (Or.inr (Or.inr ⟨j, i, rfl⟩))))) h
  case cpG j i => exact TL_G_ops s _ s' r hW hI (Or.inl ⟨j, i, rfl⟩) h
  case mvG j i => exact TL_G_ops s _ s' r hW hI (Or.inr (Or.inl ⟨j, i, rfl⟩)) h
  case asgG j i => exact TL_G_ops s _ s' r hW hI (Or.inr (Or.inr (Or.inl ⟨j, i, rfl⟩))) h
  case masgG j i => exact TL_G_ops s _ s' r hW hI (Or.inr (Or.inr (Or.inr (Or.inl ⟨j, i, rfl⟩)))) h
  case delG i => exact TL_G_ops s _ s' r hW hI (Or.inr (Or.inr (Or.inr (Or.inr ⟨i, rfl⟩)))) h
  case delT t => exact TL_delT s t s' r hW hI h
  case conn k g sv first mv => exact TL_conn s k g sv first mv s' r hI h
  case connfn k g f first => exact TL_connfn s k g f first s' r hI h
  all_goals simp only [stepSimple] at h
  all_goals (repeat' split at h)
  all_goals (first | (cases h; done) | skip)
  all_goals (simp only [Option.some.injEq, Prod.mk.injEq] at h; obtain ⟨rfl, _⟩ := h)
  all_goals (first | exact hI | skip)
  all_goals (
    try (have hv := TrackedIn.getS hI ‹aget s.S _ = some _›)
    simp only [TL] at *
    first
      | done
      | simp (maxDischargeDepth := 8) only [St.fresh, setImpl,
          tli_invalidateTrackable, tli_disconnectCell, tli_clearImpl, tli_connBlock, tli_blockAll,
          tli_T_aset_fresh, tli_G_aset_fresh, tli_S_aset, tli_S_adel,
          st_norep, st_blocked, st_disconnectRep, *])

theorem TL_forceDelG (s : St) (g : Nat) (hW : WF s) (hI : TL s) : TL (forceDelG s g) := by
  unfold forceDelG
  split
  · exact hI
  · rename_i hd hi
    cases htr : hd.fl.isTrackable with
    | false =>
      simp only [Bool.false_eq_true, if_false]
      have h3 : TLI s.T (adel s.G g) s.ownedT s.S s.impls :=
        hI.monoL (fun o ho => liveObj_adel_G hi ho (fun e => by rw [htr] at e; cases e))
      split
      · exact TL.prims.gcImpl _ h3
      · exact h3
    | true =>
      simp only [if_true]
      obtain ⟨f1, f2, f3, _, _⟩ := invalidateTrackable_frame s hd.trk
      have h3 : TLI (invalidateTrackable s hd.trk).T (adel (invalidateTrackable s hd.trk).G g)
          (invalidateTrackable s hd.trk).ownedT (invalidateTrackable s hd.trk).S
          (invalidateTrackable s hd.trk).impls := by
        rw [f1, f2, f3]
        exact (trackedIn_kill hW hI hd.trk).mono (fun o ho => liveObj_adel_G hi ho.1 (fun _ => ho.2))
      split
      · exact TL.prims.gcImpl _ h3
      · exact h3

theorem TL_collectStep (s s' : St) (hW : WF s) (hI : TL s) (h : collectStep s = some s') : TL s' := by
  unfold collectStep at h
  split at h
  · rename_i o _
    simp only [Option.some.injEq] at h; subst h
    obtain ⟨f1, f2, f3, _, _⟩ := invalidateTrackable_frame { s with ownedT := s.ownedT.filter (· ≠ o) } o
    show TLI _ _ _ _ _
    rw [f1, f2, f3]
    have hk := trackedIn_kill (s := { s with ownedT := s.ownedT.filter (· ≠ o) }) hW
      (L := LiveObj s.T s.G s.ownedT) hI o
    refine hk.mono ?_
    rintro o' ⟨a | a | a, hne⟩
    · exact Or.inl a
    · exact Or.inr (Or.inl a)
    · exact Or.inr (Or.inr (List.mem_filter.2 ⟨a, by simpa using hne⟩))
  · split at h
    · simp only [Option.some.injEq] at h; subst h
      split
      · exact TL.prims.disconnectCell _ hI
      · exact hI
    · split at h
      · rename_i k g _
        simp only [Option.some.injEq] at h; subst h
        exact TL_forceDelG { s with ownedG := s.ownedG.filter (fun q => q.1 ≠ k) } g hW hI
      · cases h

theorem WF_collectStep (s s' : St) (hW : WF s) (h : collectStep s = some s') : WF s' := by
  unfold collectStep at h
  split at h
  · simp only [Option.some.injEq] at h; subst h
    exact WF.prims.invalidateTrackable _ hW
  · split at h
    · simp only [Option.some.injEq] at h; subst h
      split
      · exact WF.prims.disconnectCell _ hW
      · exact hW
    · split at h
      · rename_i k g _
        simp only [Option.some.injEq] at h; subst h
        exact WF_forceDelG { s with ownedG := s.ownedG.filter (fun q => q.1 ≠ k) } g hW
      · cases h

/-- `TL` (together with `WF`) is preserved by `collect` -/
theorem TL_collect (s : St) (hW : WF s) (hI : TL s) : TL (collect s) :=
  (collect_preserved (I := fun s => WF s ∧ TL s)
    (fun a b h hc => ⟨WF_collectStep a b h.1 hc, TL_collectStep a b h.1 h.2 hc⟩) s ⟨hW, hI⟩).2

theorem TL.stableRel : StableRel WF TL where
  log _ _ _ h := h
  fail s m _ h := TL.fail m h
  depth _ _ _ h := h
  steps _ _ _ h := h
  incall s i v n _ h hv := by
    have hs : SlotTracks (LiveObj s.T s.G s.ownedT) v.slot := TrackedIn.getS h hv
    exact TrackedIn.asetS h i (v := { v with incall := n }) hs
  simple s op s' r hW h hs := TL_simple s op s' r hW h hs
  collect s hW h := TL_collect s hW h
  pro _ _ _ _ h hi := TL.emitPro h hi
  erase _ i m _ h := TL.prims.eraseCell i m h
  unref _ i _ h := TL.prims.unrefExec i h
  drop _ i _ h := TL.dropHolder i h
  gc _ i _ h := TL.prims.gcImpl i h
  forceDel s g hW h := TL_forceDelG s g hW h

/-- identities and tracking -/
def WTL (s : St) : Prop := WF s ∧ TL s

theorem WTL.stable : Stable WTL := StableRel.and WF.stable TL.stableRel

theorem WTL.reachable (f : Nat) (P : Prog) (s : St) (h : runTop f P {} P.top = some s) : WTL s :=
  WTL.stable.runTop ⟨WF.init, TL.init⟩ f P s h

end Sigc.Inv
