import Sigc.Lemmas.SpecKStepB
/-!
# SpecK — `stepSimple` on related states, part C: connections, scoped connections, `live?`; and the
summary `stepSimple_sim` over all operations.
-/
namespace Sigc.SpecK
open Sigc.Model Sigc.Spec

section
variable {ρ : IdRel} {t u : LSt}

theorem disconnect_sim (h : Q ρ t u) {p p' : Option Nat} (hp : OR ρ p p') :
    Sim0 ρ t u (match (generalizing := false) p with | some cid => removeCell t cid | none => t)
      (match (generalizing := false) p' with | some cid => removeCell u cid | none => u) := by
  cases hp with
  | none => exact Sim0.refl h
  | some hc => exact removeCell_sim h hc

theorem blockConn_sim (h : Q ρ t u) {p p' : Option Nat} (hp : OR ρ p p') (b : Bool) :
    Sim0 ρ t u
      (match (generalizing := false) p with
        | some cid => Spec.updCell t cid (fun c => { c with slot := { c.slot with blocked := b } })
        | none => t)
      (match (generalizing := false) p' with
        | some cid => Spec.updCell u cid (fun c => { c with slot := { c.slot with blocked := b } })
        | none => u) := by
  cases hp with
  | none => exact Sim0.refl h
  | some hc => exact updCell_sim h hc b

theorem step_newC (h : Q ρ t u) (i : Nat) : StepR ρ t u (Spec.stepSimple t (.newC i)) (Spec.stepSimple u (.newC i)) := by
  simp only [Spec.stepSimple]
  have hC := h.C.get i
  generalize aget t.C i = x at hC
  generalize aget u.C i = y at hC
  cases hC with
  | some _ => exact .same h _
  | none => exact .upd (h.setC (h.C.set i .none)) _ rfl rfl rfl rfl

theorem step_cpC (h : Q ρ t u) (j i : Nat) : StepR ρ t u (Spec.stepSimple t (.cpC j i)) (Spec.stepSimple u (.cpC j i)) := by
  simp only [Spec.stepSimple]
  have hC := h.C.get i
  generalize aget t.C i = x at hC
  generalize aget u.C i = y at hC
  cases hC with
  | none => exact .same h _
  | some hp =>
    simp only
    have hC := h.C.get j
    generalize aget t.C j = x at hC
    generalize aget u.C j = y at hC
    cases hC with
    | some _ => exact .same h _
    | none => exact .upd (h.setC (h.C.set j hp)) _ rfl rfl rfl rfl

theorem step_asgC (h : Q ρ t u) (j i : Nat) : StepR ρ t u (Spec.stepSimple t (.asgC j i)) (Spec.stepSimple u (.asgC j i)) := by
  simp only [Spec.stepSimple]
  have hC := h.C.get j
  generalize aget t.C j = x at hC
  generalize aget u.C j = y at hC
  have hC2 := h.C.get i
  generalize aget t.C i = x2 at hC2
  generalize aget u.C i = y2 at hC2
  cases hC with
  | none => cases hC2 <;> exact .same h _
  | some _ =>
    cases hC2 with
    | none => exact .same h _
    | some hp => exact .upd (h.setC (h.C.set j hp)) _ rfl rfl rfl rfl

theorem step_delC (h : Q ρ t u) (i : Nat) : StepR ρ t u (Spec.stepSimple t (.delC i)) (Spec.stepSimple u (.delC i)) := by
  simp only [Spec.stepSimple]
  have hC := h.C.get i
  generalize aget t.C i = x at hC
  generalize aget u.C i = y at hC
  cases hC with
  | none => exact .same h _
  | some _ => exact .upd (h.setC (h.C.del i)) _ rfl rfl rfl rfl

theorem step_disc (h : Q ρ t u) (i : Nat) : StepR ρ t u (Spec.stepSimple t (.disc i)) (Spec.stepSimple u (.disc i)) := by
  simp only [Spec.stepSimple]
  have hC := h.C.get i
  generalize aget t.C i = x at hC
  generalize aget u.C i = y at hC
  cases hC with
  | none => exact .same h _
  | some hp => exact .of0 (disconnect_sim h hp) _

theorem step_connectedq (h : Q ρ t u) (i : Nat) :
    StepR ρ t u (Spec.stepSimple t (.connectedq i)) (Spec.stepSimple u (.connectedq i)) := by
  simp only [Spec.stepSimple]
  have hC := h.C.get i
  generalize aget t.C i = x at hC
  generalize aget u.C i = y at hC
  cases hC with
  | none => exact .same h _
  | some hp => simp only [connConnected_sim h hp]; exact .same h _

theorem step_emptyCq (h : Q ρ t u) (i : Nat) :
    StepR ρ t u (Spec.stepSimple t (.emptyCq i)) (Spec.stepSimple u (.emptyCq i)) := by
  simp only [Spec.stepSimple]
  have hC := h.C.get i
  generalize aget t.C i = x at hC
  generalize aget u.C i = y at hC
  cases hC with
  | none => exact .same h _
  | some hp => simp only [connConnected_sim h hp]; exact .same h _

theorem step_blockedCq (h : Q ρ t u) (i : Nat) :
    StepR ρ t u (Spec.stepSimple t (.blockedCq i)) (Spec.stepSimple u (.blockedCq i)) := by
  simp only [Spec.stepSimple]
  have hC := h.C.get i
  generalize aget t.C i = x at hC
  generalize aget u.C i = y at hC
  cases hC with
  | none => exact .same h _
  | some hp => simp only [connBlockedStr_sim h hp]; exact .same h _

theorem step_blockC (h : Q ρ t u) (i : Nat) (b : Bool) :
    StepR ρ t u (Spec.stepSimple t (.blockC i b)) (Spec.stepSimple u (.blockC i b)) := by
  simp only [Spec.stepSimple]
  have hC := h.C.get i
  generalize aget t.C i = x at hC
  generalize aget u.C i = y at hC
  cases hC with
  | none => exact .same h _
  | some hp => simp only [connBlockedStr_sim h hp]; exact .of0 (blockConn_sim h hp b) _

/-! ## scoped connections -/

theorem step_newK0 (h : Q ρ t u) (i : Nat) : StepR ρ t u (Spec.stepSimple t (.newK0 i)) (Spec.stepSimple u (.newK0 i)) := by
  simp only [Spec.stepSimple]
  have hK := h.K.get i
  generalize aget t.K i = x at hK
  generalize aget u.K i = y at hK
  cases hK with
  | some _ => exact .same h _
  | none => exact .upd (h.setK (h.K.set i .none)) _ rfl rfl rfl rfl

theorem step_newK (h : Q ρ t u) (i c : Nat) : StepR ρ t u (Spec.stepSimple t (.newK i c)) (Spec.stepSimple u (.newK i c)) := by
  simp only [Spec.stepSimple]
  have hC := h.C.get c
  generalize aget t.C c = x at hC
  generalize aget u.C c = y at hC
  cases hC with
  | none => exact .same h _
  | some hp =>
    simp only
    have hK := h.K.get i
    generalize aget t.K i = x at hK
    generalize aget u.K i = y at hK
    cases hK with
    | some _ => exact .same h _
    | none => exact .upd (h.setK (h.K.set i hp)) _ rfl rfl rfl rfl

theorem step_asgKC (h : Q ρ t u) (i c : Nat) :
    StepR ρ t u (Spec.stepSimple t (.asgKC i c)) (Spec.stepSimple u (.asgKC i c)) := by
  simp only [Spec.stepSimple]
  have hK := h.K.get i
  generalize aget t.K i = x at hK
  generalize aget u.K i = y at hK
  have hC := h.C.get c
  generalize aget t.C c = x2 at hC
  generalize aget u.C c = y2 at hC
  cases hK with
  | none => cases hC <;> exact .same h _
  | some hold =>
    cases hC with
    | none => exact .same h _
    | some hp =>
      have h1 := disconnect_sim h hold
      exact .ok _ ρ (h1.q.setK (h.K.set i hp)) (Step.of_eq h1.nk h1.np) (h1.fr.trans (Fr.of_eq rfl rfl))

theorem step_mvK (h : Q ρ t u) (j i : Nat) : StepR ρ t u (Spec.stepSimple t (.mvK j i)) (Spec.stepSimple u (.mvK j i)) := by
  simp only [Spec.stepSimple]
  have hK := h.K.get i
  generalize aget t.K i = x at hK
  generalize aget u.K i = y at hK
  cases hK with
  | none => exact .same h _
  | some hp =>
    simp only
    have hK := h.K.get j
    generalize aget t.K j = x at hK
    generalize aget u.K j = y at hK
    cases hK with
    | some _ => exact .same h _
    | none => exact .upd (h.setK ((h.K.set i .none).set j hp)) _ rfl rfl rfl rfl

theorem step_masgK (h : Q ρ t u) (j i : Nat) :
    StepR ρ t u (Spec.stepSimple t (.masgK j i)) (Spec.stepSimple u (.masgK j i)) := by
  simp only [Spec.stepSimple]
  have hK := h.K.get j
  generalize aget t.K j = x at hK
  generalize aget u.K j = y at hK
  have hK2 := h.K.get i
  generalize aget t.K i = x2 at hK2
  generalize aget u.K i = y2 at hK2
  cases hK with
  | none => cases hK2 <;> exact .same h _
  | some hold =>
    cases hK2 with
    | none => exact .same h _
    | some hp =>
      simp only
      split
      · exact .same h _
      · have h1 := disconnect_sim h hold
        exact .ok _ ρ (h1.q.setK ((h.K.set i .none).set j hp)) (Step.of_eq h1.nk h1.np)
          (h1.fr.trans (Fr.of_eq rfl rfl))

theorem step_swapK (h : Q ρ t u) (i j : Nat) :
    StepR ρ t u (Spec.stepSimple t (.swapK i j)) (Spec.stepSimple u (.swapK i j)) := by
  simp only [Spec.stepSimple]
  have hK := h.K.get i
  generalize aget t.K i = x at hK
  generalize aget u.K i = y at hK
  have hK2 := h.K.get j
  generalize aget t.K j = x2 at hK2
  generalize aget u.K j = y2 at hK2
  cases hK with
  | none => cases hK2 <;> exact .same h _
  | some ha =>
    cases hK2 with
    | none => exact .same h _
    | some hb => exact .upd (h.setK ((h.K.set i hb).set j ha)) _ rfl rfl rfl rfl

theorem step_relK (h : Q ρ t u) (c k : Nat) : StepR ρ t u (Spec.stepSimple t (.relK c k)) (Spec.stepSimple u (.relK c k)) := by
  simp only [Spec.stepSimple]
  have hK := h.K.get k
  generalize aget t.K k = x at hK
  generalize aget u.K k = y at hK
  cases hK with
  | none => exact .same h _
  | some hp => exact .upd ((h.setK (h.K.set k .none)).setC (h.C.set c hp)) _ rfl rfl rfl rfl

theorem step_discK (h : Q ρ t u) (i : Nat) : StepR ρ t u (Spec.stepSimple t (.discK i)) (Spec.stepSimple u (.discK i)) := by
  simp only [Spec.stepSimple]
  have hK := h.K.get i
  generalize aget t.K i = x at hK
  generalize aget u.K i = y at hK
  cases hK with
  | none => exact .same h _
  | some hp => exact .of0 (disconnect_sim h hp) _

theorem step_delK (h : Q ρ t u) (i : Nat) : StepR ρ t u (Spec.stepSimple t (.delK i)) (Spec.stepSimple u (.delK i)) := by
  simp only [Spec.stepSimple]
  have hK := h.K.get i
  generalize aget t.K i = x at hK
  generalize aget u.K i = y at hK
  cases hK with
  | none => exact .same h _
  | some hp => exact .of0 ((disconnect_sim (h.setK (h.K.del i)) hp).pre (t := t) (u := u) rfl rfl rfl rfl) _

theorem step_connectedKq (h : Q ρ t u) (i : Nat) :
    StepR ρ t u (Spec.stepSimple t (.connectedKq i)) (Spec.stepSimple u (.connectedKq i)) := by
  simp only [Spec.stepSimple]
  have hK := h.K.get i
  generalize aget t.K i = x at hK
  generalize aget u.K i = y at hK
  cases hK with
  | none => exact .same h _
  | some hp => simp only [connConnected_sim h hp]; exact .same h _

theorem step_blockedKq (h : Q ρ t u) (i : Nat) :
    StepR ρ t u (Spec.stepSimple t (.blockedKq i)) (Spec.stepSimple u (.blockedKq i)) := by
  simp only [Spec.stepSimple]
  have hK := h.K.get i
  generalize aget t.K i = x at hK
  generalize aget u.K i = y at hK
  cases hK with
  | none => exact .same h _
  | some hp => simp only [connBlockedStr_sim h hp]; exact .same h _

theorem step_blockK (h : Q ρ t u) (i : Nat) (b : Bool) :
    StepR ρ t u (Spec.stepSimple t (.blockK i b)) (Spec.stepSimple u (.blockK i b)) := by
  simp only [Spec.stepSimple]
  have hK := h.K.get i
  generalize aget t.K i = x at hK
  generalize aget u.K i = y at hK
  cases hK with
  | none => exact .same h _
  | some hp => simp only [connBlockedStr_sim h hp]; exact .of0 (blockConn_sim h hp b) _

/-! ## `live?` -/

theorem liveCount_sim (h : Q ρ t u) (hq : ∀ i, act t i = 0) (fid : Nat) :
    Spec.liveCount u fid = Spec.liveCount t fid := by
  unfold Spec.liveCount
  congr 1
  · exact (F2.sum_eq h.S _ _ (fun a b _ _ hr => (hr.2.slot.live fid).symm)).symm
  · refine (F2.sum_eq h.sigs _ _ (fun p q hp _ hr => ?_)).symm
    have ha : p.2.active = 0 := by
      have := hq p.1
      simp only [act, aget_of_mem h.keys hp] at this
      exact this
    have hc := hr.2.cells
    rw [filter_live_idle (h.inv p hp).2 ha] at hc
    exact F2.sum_eq hc _ _ (fun a b _ _ hab => (hab.slot.live fid).symm)

theorem step_liveq (h : Q ρ t u) (hq : Quiet t) (fid : Nat) :
    StepR ρ t u (Spec.stepSimple t (.liveq fid)) (Spec.stepSimple u (.liveq fid)) := by
  simp only [Spec.stepSimple, h.depth]
  split
  · exact .same h _
  · rename_i hd
    rw [liveCount_sim h (hq (by omega)) fid]
    exact .same h _

end

/-- **every operation that runs no user code is simulated** -/
theorem stepSimple_sim {ρ : IdRel} {t u : LSt} (h : Q ρ t u) (hq : Quiet t) (op : Op) :
    StepR ρ t u (Spec.stepSimple t op) (Spec.stepSimple u op) := by
  cases op with
  | newT a => exact step_newT h a
  | delT a => exact step_delT h a
  | notifyT a => exact step_notifyT h a
  | cpT a b => exact step_cpT h a b
  | mvT a b => exact step_mvT h a b
  | asgT a b => exact step_asgT h a b
  | masgT a b => exact step_masgT h a b
  | mkS a b c => exact step_mkS h a b c
  | mkS0 a b => exact step_mkS0 h a b
  | cpS a b => exact step_cpS h a b
  | mvS a b => exact step_mvS h a b
  | asgS a b => exact step_asgS h a b
  | masgS a b => exact step_masgS h a b
  | setS a b => exact step_setS h a b
  | delS a => exact step_delS h a
  | discS a => exact step_discS h a
  | blockS a b => exact step_blockS h a b
  | blockedSq a => exact step_blockedSq h a
  | emptySq a => exact step_emptySq h a
  | boolSq a => exact step_boolSq h a
  | callS a b => exact .none
  | newG a b => exact step_newG h a b
  | cpG a b => exact step_cpG h a b
  | mvG a b => exact step_mvG h a b
  | asgG a b => exact step_asgG h a b
  | masgG a b => exact step_masgG h a b
  | delG a => exact step_delG h a
  | conn a b c d e => exact step_conn h a b c d e
  | connfn a b c d => exact step_connfn h a b c d
  | emit a b c d => exact .none
  | throw_ => exact .none
  | clear a => exact step_clear h a
  | sizeq a => exact step_sizeq h a
  | emptyGq a => exact step_emptyGq h a
  | blockedGq a => exact step_blockedGq h a
  | blockG a b => exact step_blockG h a b
  | newC a => exact step_newC h a
  | cpC a b => exact step_cpC h a b
  | asgC a b => exact step_asgC h a b
  | delC a => exact step_delC h a
  | disc a => exact step_disc h a
  | connectedq a => exact step_connectedq h a
  | emptyCq a => exact step_emptyCq h a
  | blockedCq a => exact step_blockedCq h a
  | blockC a b => exact step_blockC h a b
  | newK0 a => exact step_newK0 h a
  | newK a b => exact step_newK h a b
  | asgKC a b => exact step_asgKC h a b
  | mvK a b => exact step_mvK h a b
  | masgK a b => exact step_masgK h a b
  | swapK a b => exact step_swapK h a b
  | relK a b => exact step_relK h a b
  | discK a => exact step_discK h a
  | delK a => exact step_delK h a
  | connectedKq a => exact step_connectedKq h a
  | blockedKq a => exact step_blockedKq h a
  | blockK a b => exact step_blockK h a b
  | liveq a => exact step_liveq h hq a
  | mark => exact .same h _
  | allocsq => exact .same h _
  | bad => exact .same h _

end Sigc.SpecK
