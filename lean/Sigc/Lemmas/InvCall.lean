import Sigc.Lemmas.InvHandle
/-!
# `AC`: in every state, every callable representation holds its functor

`CallOk sl` (`Sigc.C20.CallHasFn`): a representation of slot value `sl` with `call_ ≠ nullptr` still holds its
functor.  `AC s`: every user slot variable of `s` and every cell of every `signal_impl` of `s` is `CallOk`.
`AC` is preserved by every function of the model (`Stable AC`, the generic schema of `Sigc.Lemmas.InvSchema`),
the harness teardown included, and holds initially; hence it holds in every state of every run
(`AC.reachable`) and at every operation boundary inside emissions.

The inner slot of a `nest` functor needs no separate clause: the model stores only the inner slot's
`blocked_` flag and its functor (`Fun.nest blocked (inner : Option Fun)`), and `invokeFun` enters the inner
functor only when `inner = some g` — the inner erased call has its functor by construction of the datatype.
-/
namespace Sigc.InvCall
open Sigc.Model Sigc.Inv

/-- a representation that is callable holds its functor -/
def RepOk (o : Option Rep) : Prop := ∀ r, o = some r → r.call = true → r.fn.isSome = true

/-- a slot value whose representation is callable still holds its functor (= `Sigc.C20.CallHasFn`) -/
def CallOk (s : SlotB) : Prop := RepOk s.rep

theorem repOk_none : RepOk none := fun _ h => by cases h
theorem repOk_made (fn : Fun) : RepOk (some { call := true, fn := some fn }) := by
  intro r h _; cases h; rfl
theorem repOk_dead (fn : Option Fun) : RepOk (some { call := false, fn := fn }) := by
  intro r h hc; cases h; cases hc

theorem CallOk.default : CallOk ({} : SlotB) := repOk_none
theorem CallOk.made (b : Bool) (fn : Fun) : CallOk { blocked := b, rep := some { call := true, fn := some fn } } :=
  repOk_made fn
theorem CallOk.norep (b : Bool) : CallOk { blocked := b, rep := none } := repOk_none
theorem CallOk.blocked {s : SlotB} (b : Bool) (h : CallOk s) : CallOk { s with blocked := b } := h
theorem CallOk.withRepNone (s : SlotB) : CallOk { s with rep := none } := repOk_none
theorem CallOk.mk {b : Bool} {s : SlotB} (h : CallOk s) : CallOk { blocked := b, rep := s.rep } := h

theorem CallOk.disconnect (s : SlotB) : CallOk s.disconnectRep := by
  unfold SlotB.disconnectRep
  cases hr : s.rep with
  | none => intro r h2; simp [hr] at h2
  | some r0 => exact repOk_dead _

theorem CallOk.invalidate (s : SlotB) : CallOk s.invalidate := by
  unfold SlotB.invalidate
  cases hr : s.rep with
  | none => intro r h2; simp [hr] at h2
  | some r0 => exact repOk_dead _

theorem CallOk.copy {s : SlotB} (h : CallOk s) : CallOk s.copy := by
  unfold SlotB.copy
  cases hr : s.rep with
  | none => exact repOk_none
  | some r0 =>
    by_cases hc : r0.call = true
    · simp only [hc, if_true]
      intro r h2 _
      cases h2
      exact h r0 hr hc
    · simp only [hc]
      exact repOk_none

theorem CallOk.move_fst {s : SlotB} (h : CallOk s) : CallOk s.move.1 := by
  unfold SlotB.move
  cases hr : s.rep with
  | none => exact repOk_none
  | some r0 => intro r h2 hc; cases h2; exact h r0 hr hc

theorem CallOk.move_snd {s : SlotB} (h : CallOk s) : CallOk s.move.2 := by
  unfold SlotB.move
  cases hr : s.rep with
  | none => exact h
  | some r0 => exact repOk_none

theorem CallOk.le {a b : SlotB} (hle : SlotLe a b) (h : CallOk b) : CallOk a := by
  rcases hle with e | e | e
  · unfold CallOk; rw [e]; exact h
  · unfold CallOk; rw [e]; exact CallOk.disconnect b
  · unfold CallOk; rw [e]; exact CallOk.invalidate b

/-- the cell `insertCell` stores: `set_parent` gives an empty slot the dummy representation -/
theorem CallOk.inserted {sl : SlotB} (h : CallOk sl) :
    CallOk (match sl.rep with
      | none => { sl with rep := some { call := false, fn := none } }
      | some _ => sl) := by
  split
  · exact repOk_dead _
  · exact h

/-! ### the state invariant -/

def CI (S : List (Nat × SlotVar)) (impls : List (Nat × Impl)) : Prop :=
  (∀ p ∈ S, CallOk p.2.slot) ∧ (∀ q ∈ impls, ∀ c ∈ q.2.cells, CallOk c.slot)

/-- every slot variable and every cell of every `signal_impl` is `CallOk` -/
def AC (s : St) : Prop := CI s.S s.impls

theorem AC.init : AC {} := ⟨fun _ h => (by cases h), fun _ h => (by cases h)⟩

section
variable {S : List (Nat × SlotVar)} {impls : List (Nat × Impl)}

theorem CI.getS (h : CI S impls) {i : Nat} {v : SlotVar} (hv : aget S i = some v) : CallOk v.slot :=
  h.1 (i, v) (mem_of_aget hv)

theorem CI.cells (h : CI S impls) {i : Nat} {im : Impl} (hi : aget impls i = some im) :
    ∀ c ∈ im.cells, CallOk c.slot :=
  h.2 (i, im) (mem_of_aget hi)

theorem CI.aset_S (h : CI S impls) (i : Nat) {v : SlotVar} (hv : CallOk v.slot) : CI (aset S i v) impls := by
  refine ⟨fun p hp => ?_, h.2⟩
  rcases mem_aset hp with e | m
  · subst e; exact hv
  · exact h.1 p m

theorem CI.adel_S (h : CI S impls) (i : Nat) : CI (adel S i) impls :=
  ⟨fun p hp => h.1 p (mem_adel hp), h.2⟩

theorem CI.aset_impls (h : CI S impls) (i : Nat) {im : Impl} (hc : ∀ c ∈ im.cells, CallOk c.slot) :
    CI S (aset impls i im) := by
  refine ⟨h.1, fun q hq => ?_⟩
  rcases mem_aset hq with e | m
  · subst e; exact hc
  · exact h.2 q m

theorem CI.adel_impls (h : CI S impls) (i : Nat) : CI S (adel impls i) :=
  ⟨h.1, fun q hq => h.2 q (mem_adel hq)⟩

end

theorem AC.prims : PrimsA AC where
  upd s i im g e d _ h hi hg := by
    refine CI.aset_impls h i ?_
    intro c hc
    obtain ⟨c0, hc0, rfl⟩ := List.mem_map.1 hc
    exact CallOk.le (hg c0).2 (h.cells hi c0 hc0)
  filter s i im p d ids _ h hi _ := by
    show CI (nullConnsList _ _).S (nullConnsList _ _).impls
    simp only [Inv.nullConnsList_impls, Inv.nullConnsList_S]
    exact CI.aset_impls h i (fun c hc => h.cells hi c (List.mem_filter.1 hc).1)
  delImpl s i im _ h _ _ _ := by
    show CI (nullConnsList _ _).S (nullConnsList _ _).impls
    simp only [Inv.nullConnsList_impls, Inv.nullConnsList_S]
    exact CI.adel_impls h i
  invalS s t _ h := by
    refine ⟨fun p hp => ?_, h.2⟩
    obtain ⟨p0, hp0, rfl⟩ := List.mem_map.1 hp
    show CallOk (if _ then _ else _ : SlotVar).slot
    split
    · exact CallOk.invalidate _
    · exact h.1 p0 hp0

theorem AC.fail {s : St} (m : String) (h : AC s) : AC (s.fail m) := by
  unfold St.fail; split <;> exact h

theorem AC.mkFun {s s' : St} {v : Bool} {spec : FSpec} {fn : Fun} (h : AC s)
    (hm : mkFun s v spec = .ok (fn, s')) : AC s' := by
  obtain ⟨h1, _, h2, _⟩ := mkFun_frame hm
  unfold AC; rw [h1, h2]; exact h

theorem AC.ensureImpl {s s1 : St} {g i : Nat} (h : AC s) (he : ensureImpl s g = some (s1, i)) : AC s1 := by
  unfold Model.ensureImpl at he
  split at he
  · cases he
  · split at he
    · cases he; exact h
    · simp only [St.fresh, Option.some.injEq, Prod.mk.injEq] at he
      obtain ⟨rfl, rfl⟩ := he
      exact CI.aset_impls h _ (fun c hc => by cases hc)

theorem AC.insertCell {s : St} (i : Nat) (first : Bool) {sl : SlotB} (hs : CallOk sl) (h : AC s) :
    AC (insertCell s i first sl).fst := by
  unfold Model.insertCell
  simp only [St.fresh]
  split
  · exact AC.fail _ h
  · rename_i im hi
    refine CI.aset_impls h i ?_
    have hi' : aget s.impls i = some im := hi
    intro c hc
    cases first
    · simp only [Bool.false_eq_true, if_false] at hc
      rcases List.mem_append.1 hc with m | m
      · exact h.cells hi' c m
      · simp only [List.mem_singleton] at m; subst m; exact CallOk.inserted hs
    · simp only [if_true] at hc
      cases hc with
      | head => exact CallOk.inserted hs
      | tail _ m => exact h.cells hi' c m

theorem AC.emitPro {s : St} {i : Nat} {im : Impl} (h : AC s) (hi : aget s.impls i = some im) :
    AC (emitPro s i im) := by
  refine CI.aset_impls h i ?_
  intro c hc
  rcases List.mem_append.1 hc with m | m
  · exact h.cells hi c m
  · simp only [List.mem_singleton] at m; subst m; exact CallOk.default

theorem AC.dropHolder {s : St} (i : Nat) (h : AC s) : AC (dropHolder s i) := by
  unfold Inv.dropHolder
  split
  · exact h
  · rename_i im hi
    exact CI.aset_impls h i (fun c hc => h.cells hi c hc)

/-! simp-normal forms used to discharge `stepSimple` obligations -/

theorem ci_invalidateTrackable {s : St} {t : Nat} (h : CI s.S s.impls) :
    CI (invalidateTrackable s t).S (invalidateTrackable s t).impls := AC.prims.invalidateTrackable t h
theorem ci_gcImpl {s : St} {i : Nat} (h : CI s.S s.impls) :
    CI (gcImpl s i).S (gcImpl s i).impls := AC.prims.gcImpl i h
theorem ci_disconnectCell {s : St} {i : Nat} (h : CI s.S s.impls) :
    CI (disconnectCell s i).S (disconnectCell s i).impls := AC.prims.disconnectCell i h
theorem ci_clearImpl {s : St} {i : Nat} (h : CI s.S s.impls) :
    CI (clearImpl s i).S (clearImpl s i).impls := AC.prims.clearImpl i h
theorem ci_connBlock {s : St} {p : Option Nat} {b : Bool} (h : CI s.S s.impls) :
    CI (connBlock s p b).S (connBlock s p b).impls := AC.prims.connBlock p b h
theorem ci_insertCell {s : St} {i : Nat} {first : Bool} {sl : SlotB} (hs : CallOk sl) (h : CI s.S s.impls) :
    CI (insertCell s i first sl).fst.S (insertCell s i first sl).fst.impls := AC.insertCell i first hs h
theorem ci_blockAll {s : St} {i : Nat} {x : Impl} {b : Bool} (hi : aget s.impls i = some x)
    (h : CI s.S s.impls) :
    CI s.S (aset s.impls i { x with cells := x.cells.map (fun c => { c with slot := { c.slot with blocked := b } }) }) :=
  AC.prims.blockAll b h hi
theorem ci_aset_S {S : List (Nat × SlotVar)} {impls : List (Nat × Impl)} {i : Nat} {v : SlotVar}
    (hv : CallOk v.slot) (h : CI S impls) : CI (aset S i v) impls := h.aset_S i hv
theorem ci_adel_S {S : List (Nat × SlotVar)} {impls : List (Nat × Impl)} {i : Nat}
    (h : CI S impls) : CI (adel S i) impls := h.adel_S i
theorem callOk_copy {s : SlotB} (h : CallOk s) : CallOk s.copy := h.copy
theorem callOk_blocked {s : SlotB} {b : Bool} (h : CallOk s) :
    CallOk { blocked := b, rep := s.rep } := h
theorem callOk_rep {b : Bool} {o : Option Rep} (h : RepOk o) : CallOk { blocked := b, rep := o } := h
theorem callOk_made {b : Bool} {fn : Fun} : CallOk { blocked := b, rep := some { call := true, fn := some fn } } :=
  repOk_made fn

theorem callOk_move_fst {s : SlotB} (h : CallOk s) : CallOk s.move.fst := h.move_fst
theorem callOk_move_snd {s : SlotB} (h : CallOk s) : CallOk s.move.snd := h.move_snd
theorem callOk_norep {b : Bool} : CallOk { blocked := b } := repOk_none

/-- the two slot assignments (`slot_base::operator=`, copy and move) -/
theorem AC_asg (s : St) (op : Op) (s' : St) (r : String) (hI : AC s)
    (hop : (∃ j i, op = .asgS j i) ∨ (∃ j i, op = .masgS j i))
    (h : stepSimple s op = some (s', r)) : AC s' := by
  rcases hop with ⟨j, i, rfl⟩ | ⟨j, i, rfl⟩
  all_goals simp only [stepSimple] at h
  all_goals split at h
  all_goals (first | (rename_i d v hd hv; have hd' := CI.getS hI hd; have hv' := CI.getS hI hv) | skip)
  all_goals (repeat' split at h)
  all_goals (simp only [Option.some.injEq, Prod.mk.injEq] at h; obtain ⟨rfl, _⟩ := h)
  all_goals (first | exact hI | skip)
  all_goals (
    simp only [AC] at *
    first | done | simp (maxDischargeDepth := 8) only [ci_aset_S, callOk_copy, callOk_blocked, callOk_norep, *])

set_option maxHeartbeats 400000 in
theorem AC_simple (s : St) (op : Op) (s' : St) (r : String) (hI : AC s)
    (h : stepSimple s op = some (s', r)) : AC s' := by
  cases op
  case asgS j i => exact AC_asg s _ s' r hI (Or.inl ⟨j, i, rfl⟩) h
  case masgS j i => exact AC_asg s _ s' r hI (Or.inr ⟨j, i, rfl⟩) h
  all_goals simp only [stepSimple] at h
  all_goals (repeat' split at h)
  all_goals (first | (cases h; done) | skip)
  all_goals (simp only [Option.some.injEq, Prod.mk.injEq] at h; obtain ⟨rfl, _⟩ := h)
  all_goals (first | exact hI | skip)
  all_goals (
    try (have h1 := AC.mkFun hI ‹_›)
    try (have h2 := AC.ensureImpl hI ‹_›)
    try (have h3 := AC.ensureImpl ‹AC _› ‹_›)
    try (have hv := CI.getS hI ‹aget s.S _ = some _›)
    simp only [AC] at *
    first | done | simp (maxDischargeDepth := 8) only [St.fresh, setConn, setImpl,
      ci_invalidateTrackable, ci_gcImpl, ci_disconnectCell, ci_clearImpl, ci_connBlock, ci_insertCell,
      ci_blockAll, ci_aset_S, ci_adel_S, callOk_copy, callOk_blocked, callOk_made,
      CallOk.disconnect, callOk_move_fst, callOk_move_snd, callOk_norep, *])

theorem AC_forceDelG (s : St) (g : Nat) (hI : AC s) : AC (forceDelG s g) := by
  unfold forceDelG
  split
  · exact hI
  · simp only []
    split <;> split <;>
    · simp only [AC] at *
      first | done | simp (maxDischargeDepth := 8) only [ci_invalidateTrackable, ci_gcImpl, *]

theorem AC.collect (s : St) (hI : AC s) : AC (collect s) :=
  AC.prims.collect (fun _ _ h => h) (fun _ _ h => h) (dropG_of (fun _ _ h => h) AC_forceDelG) hI

/-- `AC` is preserved by every function of the model (and by the harness teardown) -/
theorem AC.stable : Stable AC where
  log _ _ _ h := h
  fail _ m _ h := AC.fail m h
  depth _ _ _ h := h
  steps _ _ _ h := h
  incall _ i v n _ h hv := CI.aset_S (v := { v with incall := n }) h i
    (show CallOk v.slot from CI.getS h hv)
  simple s op s' r _ h hs := AC_simple s op s' r h hs
  collect s _ h := AC.collect s h
  pro _ _ _ _ h hi := AC.emitPro h hi
  erase _ i m _ h := AC.prims.eraseCell i m h
  unref _ i _ h := AC.prims.unrefExec i h
  drop _ i _ h := AC.dropHolder i h
  gc _ i _ h := AC.prims.gcImpl i h
  forceDel s g _ h := AC_forceDelG s g h

/-- every state of every run satisfies `AC` -/
theorem AC.reachable (f : Nat) (P : Prog) (s : St) (h : runTop f P {} P.top = some s) : AC s :=
  AC.stable.runTop AC.init f P s h

/-! ### what the erased-call sites find -/

/-- a `CallOk` slot whose representation is callable matches the pattern of the call sites
    (`emitLoop`, `deref`, `callS`): `some { call := true, fn := some fn }` -/
theorem CallOk.typed {sl : SlotB} (h : CallOk sl) {fn : Option Fun} (hr : sl.rep = some { call := true, fn := fn }) :
    ∃ g, fn = some g ∧ sl.rep = some { call := true, fn := some g } := by
  have := h _ hr rfl
  cases fn with
  | none => cases this
  | some g => exact ⟨g, rfl, hr⟩

theorem AC.cell {s : St} (h : AC s) {i : Nat} {im : Impl} {c : Cell} (hi : aget s.impls i = some im)
    (hc : c ∈ im.cells) : CallOk c.slot := h.cells hi c hc

theorem AC.cell_find {s : St} (h : AC s) {i cur : Nat} {im : Impl} {c : Cell} (hi : aget s.impls i = some im)
    (hc : im.cells.find? (·.id = cur) = some c) : CallOk c.slot :=
  h.cells hi c (List.mem_of_find?_eq_some hc)

end Sigc.InvCall
