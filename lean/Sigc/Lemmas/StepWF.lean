import Sigc.Model
import Sigc.Lemmas.Basic
import Sigc.Lemmas.Frames
import Sigc.Lemmas.StepConn
import Sigc.Lemmas.StepHandles
import Sigc.Lemmas.StepTrack
/-!
# StepWF — the well-formedness invariant `WF` of reachable states (part 1: definition, primitives)

`WF s`: impl keys and cell ids are unique (`UniqueCells`) and below the allocator `s.next`; every
trackable identity a functor of a slot variable or of a list cell refers to is below `s.next`
(`TracksBelow`); the trackable objects named in `T` and the trackable bases of the signal objects in `G`
are below `s.next`.  It holds in the initial state and is preserved by every primitive of the model
(this file), by `stepSimple` (`StepWF2`) and by all eleven interpreter functions (`StepWF3`).
-/
namespace Sigc.StepWF
open Sigc.Model Sigc.StepConn Sigc.StepHandles Sigc.StepTrack

/-! ### association lists -/

theorem mem_aset {α} (l : List (Nat × α)) (k : Nat) (v : α) (p : Nat × α) (h : p ∈ aset l k v) :
    p = (k, v) ∨ p ∈ l := by
  induction l with
  | nil => simp [aset] at h; exact Or.inl h
  | cons q t ih =>
    obtain ⟨k', v'⟩ := q
    by_cases hk : k' = k
    · simp only [aset, hk, if_true, List.mem_cons] at h
      rcases h with h | h
      · exact Or.inl h
      · exact Or.inr (List.mem_cons_of_mem _ h)
    · simp only [aset, hk, if_false, List.mem_cons] at h
      rcases h with h | h
      · exact Or.inr (by rw [h]; exact List.mem_cons_self ..)
      · rcases ih h with h | h
        · exact Or.inl h
        · exact Or.inr (List.mem_cons_of_mem _ h)

theorem mem_adel {α} (l : List (Nat × α)) (k : Nat) (p : Nat × α) (h : p ∈ adel l k) : p ∈ l :=
  (List.mem_filter.mp h).1

theorem mem_amap {α} (l : List (Nat × α)) (f : α → α) (p : Nat × α) (h : p ∈ amap l f) :
    ∃ q ∈ l, p = (q.1, f q.2) := by
  obtain ⟨q, hq, rfl⟩ := List.mem_map.mp h
  exact ⟨q, hq, rfl⟩

/-- every value of an association list satisfies `P` -/
def AllV {α} (P : α → Prop) (l : List (Nat × α)) : Prop := ∀ p ∈ l, P p.2

instance {α} (P : α → Prop) [DecidablePred P] (l : List (Nat × α)) : Decidable (AllV P l) := by
  unfold AllV; exact inferInstance

theorem AllV.nil {α} (P : α → Prop) : AllV P ([] : List (Nat × α)) := by intro p hp; cases hp

theorem AllV.aset {α} {P : α → Prop} {l : List (Nat × α)} (h : AllV P l) (k : Nat) (v : α) (hv : P v) :
    AllV P (aset l k v) := by
  intro p hp
  rcases mem_aset l k v p hp with rfl | hp
  · exact hv
  · exact h p hp

theorem AllV.adel {α} {P : α → Prop} {l : List (Nat × α)} (h : AllV P l) (k : Nat) : AllV P (adel l k) :=
  fun p hp => h p (mem_adel l k p hp)

theorem AllV.amap {α} {P : α → Prop} {l : List (Nat × α)} (h : AllV P l) (f : α → α) (hf : ∀ v, P v → P (f v)) :
    AllV P (amap l f) := by
  intro p hp
  obtain ⟨q, hq, rfl⟩ := mem_amap l f p hp
  exact hf _ (h q hq)

theorem AllV.of_aget {α} {P : α → Prop} {l : List (Nat × α)} (h : AllV P l) {k : Nat} {v : α}
    (hk : aget l k = some v) : P v :=
  h (k, v) (mem_of_aget l k v hk)

theorem AllV.imp {α} {P Q : α → Prop} {l : List (Nat × α)} (h : AllV P l) (hpq : ∀ v, P v → Q v) : AllV Q l :=
  fun p hp => hpq _ (h p hp)

/-! ### trackable identities of one slot -/

/-- every trackable identity the functor of slot `sl` refers to is below `n` -/
def SlotBelow (n : Nat) (sl : SlotB) : Prop := ∀ t ∈ slotTracks sl, t < n

instance (n : Nat) (sl : SlotB) : Decidable (SlotBelow n sl) := by
  unfold SlotBelow; exact inferInstance

theorem SlotBelow.mono {n n' : Nat} {sl : SlotB} (h : SlotBelow n sl) (hn : n ≤ n') : SlotBelow n' sl :=
  fun t ht => Nat.lt_of_lt_of_le (h t ht) hn

theorem SlotBelow.of_nil {n : Nat} {sl : SlotB} (h : slotTracks sl = []) : SlotBelow n sl := by
  intro t ht; rw [h] at ht; cases ht

theorem SlotBelow.of_eq {n : Nat} {sl sl' : SlotB} (h : SlotBelow n sl) (e : slotTracks sl' = slotTracks sl) :
    SlotBelow n sl' := by
  intro t ht; rw [e] at ht; exact h t ht

theorem slotTracks_empty : slotTracks ({} : SlotB) = [] := rfl

theorem slotTracks_norep (b : Bool) : slotTracks { blocked := b, rep := none } = [] := rfl

theorem slotTracks_mk (b c : Bool) (fn : Fun) : slotTracks { blocked := b, rep := some { call := c, fn := some fn } } = fn.tracks := rfl

theorem slotTracks_released (b c : Bool) : slotTracks { blocked := b, rep := some { call := c, fn := none } } = [] := rfl

theorem slotTracks_of_rep (sl sl' : SlotB) (h : sl'.rep = sl.rep) : slotTracks sl' = slotTracks sl := by
  unfold slotTracks; rw [h]

theorem slotTracks_blocked (sl : SlotB) (b : Bool) : slotTracks { sl with blocked := b } = slotTracks sl := rfl

theorem slotTracks_invalidate (sl : SlotB) : slotTracks sl.invalidate = [] := by
  unfold SlotB.invalidate
  cases h : sl.rep <;> simp [slotTracks, h]

theorem slotTracks_disconnectRep (sl : SlotB) : slotTracks sl.disconnectRep = slotTracks sl := by
  unfold SlotB.disconnectRep
  cases h : sl.rep with
  | none => simp
  | some r =>
    obtain ⟨c, fn⟩ := r
    cases fn <;> simp [slotTracks, h]

theorem slotTracks_copy (sl : SlotB) : slotTracks sl.copy = slotTracks sl ∨ slotTracks sl.copy = [] := by
  unfold SlotB.copy
  cases h : sl.rep with
  | none => right; rfl
  | some r =>
    obtain ⟨c, fn⟩ := r
    cases c
    · right; simp [slotTracks]
    · left; cases fn <;> simp [slotTracks, h]

theorem slotTracks_copy_rep (sl : SlotB) (b : Bool) :
    slotTracks { blocked := b, rep := sl.copy.rep } = slotTracks sl ∨ slotTracks { blocked := b, rep := sl.copy.rep } = [] := by
  rcases slotTracks_copy sl with h | h
  · left; rw [← h]; exact slotTracks_of_rep _ _ rfl
  · right; rw [← h]; exact slotTracks_of_rep _ _ rfl

theorem slotTracks_move1 (sl : SlotB) : slotTracks sl.move.1 = slotTracks sl := by
  unfold SlotB.move
  cases h : sl.rep with
  | none => simp [slotTracks, h]
  | some r =>
    obtain ⟨c, fn⟩ := r
    cases fn <;> simp [slotTracks, h]

theorem slotTracks_move2 (sl : SlotB) : slotTracks sl.move.2 = slotTracks sl ∨ slotTracks sl.move.2 = [] := by
  unfold SlotB.move
  cases h : sl.rep with
  | none => left; simp
  | some r => right; simp [slotTracks]

theorem SlotBelow.copy {n : Nat} {sl : SlotB} (h : SlotBelow n sl) : SlotBelow n sl.copy := by
  rcases slotTracks_copy sl with e | e
  · exact h.of_eq e
  · exact SlotBelow.of_nil e

theorem SlotBelow.copy_rep {n : Nat} {sl : SlotB} (h : SlotBelow n sl) (b : Bool) :
    SlotBelow n { blocked := b, rep := sl.copy.rep } := by
  rcases slotTracks_copy_rep sl b with e | e
  · exact h.of_eq e
  · exact SlotBelow.of_nil e

theorem SlotBelow.move1 {n : Nat} {sl : SlotB} (h : SlotBelow n sl) : SlotBelow n sl.move.1 :=
  h.of_eq (slotTracks_move1 sl)

theorem SlotBelow.move2 {n : Nat} {sl : SlotB} (h : SlotBelow n sl) : SlotBelow n sl.move.2 := by
  rcases slotTracks_move2 sl with e | e
  · exact h.of_eq e
  · exact SlotBelow.of_nil e

theorem SlotBelow.disconnectRep {n : Nat} {sl : SlotB} (h : SlotBelow n sl) : SlotBelow n sl.disconnectRep :=
  h.of_eq (slotTracks_disconnectRep sl)

theorem SlotBelow.invalidate {n : Nat} (sl : SlotB) : SlotBelow n sl.invalidate :=
  SlotBelow.of_nil (slotTracks_invalidate sl)

theorem SlotBelow.blocked {n : Nat} {sl : SlotB} (h : SlotBelow n sl) (b : Bool) : SlotBelow n { sl with blocked := b } :=
  h.of_eq (slotTracks_blocked sl b)

/-- the functor `mkFun … (.nest sv)` builds from the copy `inner` of the slot variable refers to what
    the copy refers to -/
theorem nest_tracks (b : Bool) (sl : SlotB) :
    (Fun.nest b (match sl.rep with | some r => r.fn | none => none)).tracks = slotTracks sl := by
  unfold slotTracks
  cases h : sl.rep with
  | none => rfl
  | some r =>
    obtain ⟨c, fn⟩ := r
    cases fn <;> rfl

/-! ### the impl table -/

/-- the impl table is well-formed relative to the allocator value `n`: keys and cell ids are unique and
    below `n`; every trackable identity a cell refers to is below `n` -/
structure ImplsOK (n : Nat) (impls : List (Nat × Impl)) : Prop where
  uniq : UniqueCells impls
  keys : ∀ p ∈ impls, p.1 < n
  cells : ∀ c ∈ allCells impls, c.id < n ∧ SlotBelow n c.slot

instance (n : Nat) (impls : List (Nat × Impl)) : Decidable (ImplsOK n impls) :=
  decidable_of_iff (UniqueCells impls ∧ (∀ p ∈ impls, p.1 < n) ∧ (∀ c ∈ allCells impls, c.id < n ∧ SlotBelow n c.slot))
    ⟨fun ⟨a, b, c⟩ => ⟨a, b, c⟩, fun ⟨a, b, c⟩ => ⟨a, b, c⟩⟩

theorem ImplsOK.nil (n : Nat) : ImplsOK n [] :=
  ⟨⟨by simp, by simp [allCells]⟩, by simp, by simp [allCells]⟩

theorem ImplsOK.mono {n n' : Nat} {impls : List (Nat × Impl)} (h : ImplsOK n impls) (hn : n ≤ n') : ImplsOK n' impls :=
  ⟨h.uniq, fun p hp => Nat.lt_of_lt_of_le (h.keys p hp) hn,
   fun c hc => ⟨Nat.lt_of_lt_of_le (h.cells c hc).1 hn, (h.cells c hc).2.mono hn⟩⟩

theorem mem_allCells_of_aget {impls : List (Nat × Impl)} {i : Nat} {im : Impl} (hi : aget impls i = some im)
    {c : Cell} (hc : c ∈ im.cells) : c ∈ allCells impls :=
  (mem_allCells impls c).mpr ⟨(i, im), mem_of_aget impls i im hi, hc⟩

/-- **the table update lemma**: the impl under an existing key `i` is replaced by one whose cell ids are
    unique and each either an id of the old impl or fresh (`≥ n`), all below the new allocator value `n'`
    and with trackable references below `n'` -/
theorem ImplsOK.aset_at {n n' : Nat} {impls : List (Nat × Impl)} (h : ImplsOK n impls) (hn : n ≤ n')
    {i : Nat} {im : Impl} (hi : aget impls i = some im) (im' : Impl)
    (hnd : (im'.cells.map (·.id)).Nodup)
    (hc : ∀ c' ∈ im'.cells, (c'.id ∈ im.cells.map (·.id) ∨ n ≤ c'.id) ∧ c'.id < n' ∧ SlotBelow n' c'.slot) :
    ImplsOK n' (aset impls i im') := by
  obtain ⟨pre, post, hsplit, hset⟩ := aget_split impls i im hi
  rw [hset]
  obtain ⟨⟨hkeys, hids⟩, hk, hcells⟩ := h
  rw [hsplit] at hkeys hids hk hcells
  simp only [allCells_append, allCells_cons, List.map_append] at hids
  rw [List.nodup_append] at hids
  obtain ⟨hpre, hmid, hdis1⟩ := hids
  rw [List.nodup_append] at hmid
  obtain ⟨_, hpost, hdis2⟩ := hmid
  have hcpre : ∀ c ∈ allCells pre, c.id < n ∧ SlotBelow n c.slot := fun c hc0 =>
    hcells c (by simp only [allCells_append, List.mem_append]; exact Or.inl hc0)
  have hcpost : ∀ c ∈ allCells post, c.id < n ∧ SlotBelow n c.slot := fun c hc0 =>
    hcells c (by simp only [allCells_append, allCells_cons, List.mem_append]; exact Or.inr (Or.inr hc0))
  refine ⟨⟨by simpa using hkeys, ?_⟩, ?_, ?_⟩
  · simp only [allCells_append, allCells_cons, List.map_append]
    rw [List.nodup_append]
    refine ⟨hpre, ?_, ?_⟩
    · rw [List.nodup_append]
      refine ⟨hnd, hpost, ?_⟩
      intro a ha b hb
      obtain ⟨c', hc', rfl⟩ := List.mem_map.mp ha
      rcases (hc c' hc').1 with hold | hnew
      · exact hdis2 _ hold b hb
      · obtain ⟨c0, hc0, rfl⟩ := List.mem_map.mp hb
        have := (hcpost c0 hc0).1
        omega
    · intro a ha b hb
      rcases List.mem_append.mp hb with hb | hb
      · obtain ⟨c', hc', rfl⟩ := List.mem_map.mp hb
        rcases (hc c' hc').1 with hold | hnew
        · exact hdis1 a ha _ (List.mem_append.mpr (Or.inl hold))
        · obtain ⟨c0, hc0, rfl⟩ := List.mem_map.mp ha
          have := (hcpre c0 hc0).1
          omega
      · exact hdis1 a ha b (List.mem_append.mpr (Or.inr hb))
  · intro p hp
    have : p.1 < n := by
      simp only [List.mem_append, List.mem_cons] at hp
      rcases hp with hp | rfl | hp
      · exact hk p (by simp [hp])
      · exact hk (i, im) (by simp)
      · exact hk p (by simp [hp])
    omega
  · intro c hc0
    simp only [allCells_append, allCells_cons, List.mem_append] at hc0
    rcases hc0 with h1 | h2 | h3
    · have := hcpre c h1; exact ⟨by omega, this.2.mono hn⟩
    · exact (hc c h2).2
    · have := hcpost c h3; exact ⟨by omega, this.2.mono hn⟩

theorem nodup_ids_of_aget {n : Nat} {impls : List (Nat × Impl)} (h : ImplsOK n impls) {i : Nat} {im : Impl}
    (hi : aget impls i = some im) : (im.cells.map (·.id)).Nodup := by
  obtain ⟨pre, post, hsplit, _⟩ := aget_split impls i im hi
  have := h.uniq.2
  rw [hsplit] at this
  simp only [allCells_append, allCells_cons, List.map_append] at this
  rw [List.nodup_append] at this
  have := this.2.1
  rw [List.nodup_append] at this
  exact this.1

/-- special case: the new impl's cell ids are a sublist of the old ones (cells changed in place or
    removed), trackable references stay below `n` -/
theorem ImplsOK.aset_sub {n : Nat} {impls : List (Nat × Impl)} (h : ImplsOK n impls)
    {i : Nat} {im : Impl} (hi : aget impls i = some im) (im' : Impl)
    (hsub : (im'.cells.map (·.id)).Sublist (im.cells.map (·.id)))
    (hc : ∀ c' ∈ im'.cells, SlotBelow n c'.slot) :
    ImplsOK n (aset impls i im') := by
  refine h.aset_at (Nat.le_refl _) hi im' ((nodup_ids_of_aget h hi).sublist hsub) ?_
  intro c' hc'
  have hmem : c'.id ∈ im.cells.map (·.id) := hsub.subset (List.mem_map.mpr ⟨c', hc', rfl⟩)
  obtain ⟨c0, hc0, e⟩ := List.mem_map.mp hmem
  have := (h.cells c0 (mem_allCells_of_aget hi hc0)).1
  exact ⟨Or.inl hmem, by rw [← e]; exact this, hc c' hc'⟩

/-- special case: only `exec`, `deferred`, `holders` change -/
theorem ImplsOK.aset_same {n : Nat} {impls : List (Nat × Impl)} (h : ImplsOK n impls)
    {i : Nat} {im : Impl} (hi : aget impls i = some im) (im' : Impl) (hcells : im'.cells = im.cells) :
    ImplsOK n (aset impls i im') := by
  refine h.aset_sub hi im' (by rw [hcells]; exact List.Sublist.refl _) ?_
  intro c' hc'
  rw [hcells] at hc'
  exact (h.cells c' (mem_allCells_of_aget hi hc')).2

/-- special case: some cells are removed -/
theorem ImplsOK.aset_filter {n : Nat} {impls : List (Nat × Impl)} (h : ImplsOK n impls)
    {i : Nat} {im : Impl} (hi : aget impls i = some im) (im' : Impl) (q : Cell → Bool)
    (hcells : im'.cells = im.cells.filter q) :
    ImplsOK n (aset impls i im') := by
  refine h.aset_sub hi im' (by rw [hcells]; exact (List.filter_sublist).map _) ?_
  intro c' hc'
  rw [hcells] at hc'
  exact (h.cells c' (mem_allCells_of_aget hi (List.mem_filter.mp hc').1)).2

/-- special case: cells are changed in place by an id-preserving function that adds no trackable
    reference -/
theorem ImplsOK.aset_map {n : Nat} {impls : List (Nat × Impl)} (h : ImplsOK n impls)
    {i : Nat} {im : Impl} (hi : aget impls i = some im) (im' : Impl) (g : Cell → Cell)
    (hcells : im'.cells = im.cells.map g) (hid : ∀ c, (g c).id = c.id)
    (hg : ∀ c, SlotBelow n c.slot → SlotBelow n (g c).slot) :
    ImplsOK n (aset impls i im') := by
  refine h.aset_sub hi im' ?_ ?_
  · rw [hcells, List.map_map]
    have : ((fun c : Cell => c.id) ∘ g) = (fun c : Cell => c.id) := by funext c; exact hid c
    rw [this]; exact List.Sublist.refl _
  · intro c' hc'
    rw [hcells] at hc'
    obtain ⟨c0, hc0, rfl⟩ := List.mem_map.mp hc'
    exact hg c0 (h.cells c0 (mem_allCells_of_aget hi hc0)).2

/-- special case: one cell with the fresh id `n` is prepended or appended (the allocator moves on) -/
theorem ImplsOK.aset_insert {n : Nat} {impls : List (Nat × Impl)} (h : ImplsOK n impls)
    {i : Nat} {im : Impl} (hi : aget impls i = some im) (im' : Impl) (c : Cell) (hid : c.id = n)
    (hsl : SlotBelow (n+1) c.slot) (hcells : im'.cells = c :: im.cells ∨ im'.cells = im.cells ++ [c]) :
    ImplsOK (n+1) (aset impls i im') := by
  have hold : ∀ c0 ∈ im.cells, c0.id < n ∧ SlotBelow n c0.slot := fun c0 hc0 => h.cells c0 (mem_allCells_of_aget hi hc0)
  have hnd := nodup_ids_of_aget h hi
  have hnot : c.id ∉ im.cells.map (·.id) := by
    intro hm
    obtain ⟨c0, hc0, e⟩ := List.mem_map.mp hm
    have := (hold c0 hc0).1
    omega
  refine h.aset_at (Nat.le_succ n) hi im' ?_ ?_
  · rcases hcells with e | e <;> rw [e]
    · simp only [List.map_cons, List.nodup_cons]; exact ⟨hnot, hnd⟩
    · simp only [List.map_append, List.map_cons, List.map_nil]
      rw [List.nodup_append]
      refine ⟨hnd, by simp, ?_⟩
      intro a ha b hb
      simp at hb; subst hb
      intro e; subst e; exact hnot ha
  · intro c' hc'
    have : c' = c ∨ c' ∈ im.cells := by
      rcases hcells with e | e <;> rw [e] at hc'
      · exact List.mem_cons.mp hc'
      · rcases List.mem_append.mp hc' with h1 | h1
        · exact Or.inr h1
        · simp at h1; exact Or.inl h1
    rcases this with rfl | hc0
    · exact ⟨Or.inr (by omega), by omega, hsl⟩
    · have := hold c' hc0
      exact ⟨Or.inl (List.mem_map.mpr ⟨c', hc0, rfl⟩), by omega, this.2.mono (Nat.le_succ n)⟩

theorem aset_keys_nodup {α} (l : List (Nat × α)) (k : Nat) (v : α) (h : (l.map (·.1)).Nodup) :
    ((aset l k v).map (·.1)).Nodup := by
  induction l with
  | nil => simp [aset]
  | cons p t ih =>
    obtain ⟨k', v'⟩ := p
    simp only [List.map_cons, List.nodup_cons] at h
    by_cases hk : k' = k
    · subst hk
      simp only [aset, if_true, List.map_cons, List.nodup_cons]
      exact h
    · simp only [aset, hk, if_false, List.map_cons, List.nodup_cons]
      refine ⟨?_, ih h.2⟩
      intro hm
      obtain ⟨q, hq, e⟩ := List.mem_map.mp hm
      rcases mem_aset t k v q hq with rfl | hq'
      · exact hk e.symm
      · exact h.1 (List.mem_map.mpr ⟨q, hq', e⟩)

theorem allCells_aset_empty_sublist (l : List (Nat × Impl)) (k : Nat) :
    (allCells (aset l k {})).Sublist (allCells l) := by
  induction l with
  | nil => simp [aset, allCells]
  | cons p t ih =>
    obtain ⟨k', x⟩ := p
    by_cases hk : k' = k
    · simp only [aset, hk, if_true, allCells_cons]
      exact List.Sublist.trans (by simp) (List.sublist_append_right _ _)
    · simp only [aset, hk, if_false, allCells_cons]
      exact (List.Sublist.refl _).append ih

/-- an empty impl is stored under a key below `n` (`signal_base::impl()` creating the list) -/
theorem ImplsOK.aset_empty {n : Nat} {impls : List (Nat × Impl)} (h : ImplsOK n impls) (k : Nat) (hk : k < n) :
    ImplsOK n (aset impls k {}) := by
  refine ⟨⟨aset_keys_nodup _ _ _ h.uniq.1, (h.uniq.2).sublist ((allCells_aset_empty_sublist impls k).map _)⟩, ?_, ?_⟩
  · intro p hp
    rcases mem_aset impls k {} p hp with rfl | hp
    · exact hk
    · exact h.keys p hp
  · intro c hc
    exact h.cells c ((allCells_aset_empty_sublist impls k).subset hc)

theorem ImplsOK.adel {n : Nat} {impls : List (Nat × Impl)} (h : ImplsOK n impls) (k : Nat) : ImplsOK n (adel impls k) :=
  ⟨UniqueCells_adel _ _ h.uniq, fun p hp => h.keys p (mem_adel impls k p hp),
   fun c hc => h.cells c ((allCells_filter_sublist impls _).subset hc)⟩

/-! ### the invariant -/

/-- the owner ids of the functor-owned signal objects (`ownG`): below the allocator `n`, pairwise distinct -/
def OwnIds (n : Nat) (oG : List (Nat × Nat)) : Prop := (∀ p ∈ oG, p.1 < n) ∧ (oG.map (·.1)).Nodup

instance (n : Nat) (oG : List (Nat × Nat)) : Decidable (OwnIds n oG) := by unfold OwnIds; infer_instance

theorem OwnIds.nil (n : Nat) : OwnIds n [] := ⟨fun _ h => (by cases h), List.nodup_nil⟩

theorem OwnIds.mono {n n' : Nat} {oG : List (Nat × Nat)} (h : OwnIds n oG) (hn : n ≤ n') : OwnIds n' oG :=
  ⟨fun p hp => Nat.lt_of_lt_of_le (h.1 p hp) hn, h.2⟩

theorem OwnIds.filter {n : Nat} {oG : List (Nat × Nat)} (h : OwnIds n oG) (q : Nat × Nat → Bool) :
    OwnIds n (oG.filter q) :=
  ⟨fun p hp => h.1 p (List.mem_filter.mp hp).1, (List.filter_sublist.map _).nodup h.2⟩

/-- `ownG`: the new entry gets the allocator's next id -/
theorem OwnIds.fresh {n : Nat} {oG : List (Nat × Nat)} (h : OwnIds n oG) (g : Nat) : OwnIds (n + 1) ((n, g) :: oG) := by
  refine ⟨?_, ?_⟩
  · intro p hp
    rcases List.mem_cons.mp hp with rfl | hp
    · exact Nat.lt_succ_self _
    · exact Nat.lt_succ_of_lt (h.1 p hp)
  · simp only [List.map_cons, List.nodup_cons]
    refine ⟨?_, h.2⟩
    intro hmem
    obtain ⟨p, hp, e⟩ := List.mem_map.mp hmem
    have := h.1 p hp
    omega

/-- an owner id stands for one signal object -/
theorem OwnIds.unique {n : Nat} {oG : List (Nat × Nat)} (h : OwnIds n oG) {k g g' : Nat}
    (h1 : (k, g) ∈ oG) (h2 : (k, g') ∈ oG) : g' = g := by
  have e1 := aget_of_mem_nodup oG k g h.2 h1
  have e2 := aget_of_mem_nodup oG k g' h.2 h2
  rw [e1] at e2
  exact (Option.some.inj e2).symm

/-- **well-formedness of a state** (holds in every reachable state, `runTop_WF`) -/
structure WF (s : St) : Prop where
  /-- impl keys / cell ids unique and `< next`; trackable references of cells `< next` -/
  impls : ImplsOK s.next s.impls
  /-- trackable references of slot variables `< next` -/
  vars : AllV (fun v : SlotVar => SlotBelow s.next v.slot) s.S
  /-- the trackable objects named in `T` are `< next` -/
  objs : AllV (fun o : Nat => o < s.next) s.T
  /-- the trackable bases of the signal objects are `< next` -/
  trks : AllV (fun h : Handle => h.trk < s.next) s.G
  /-- the owner ids of the functor-owned signal objects are `< next` and pairwise distinct -/
  owners : OwnIds s.next s.ownedG

instance (s : St) : Decidable (WF s) :=
  decidable_of_iff (ImplsOK s.next s.impls ∧ AllV (fun v : SlotVar => SlotBelow s.next v.slot) s.S ∧
      AllV (fun o : Nat => o < s.next) s.T ∧ AllV (fun h : Handle => h.trk < s.next) s.G ∧
      OwnIds s.next s.ownedG)
    ⟨fun ⟨a, b, c, d, e⟩ => ⟨a, b, c, d, e⟩, fun ⟨a, b, c, d, e⟩ => ⟨a, b, c, d, e⟩⟩

/-- what `WF` says, spelled out -/
theorem WF_iff (s : St) : WF s ↔
    (UniqueCells s.impls ∧ (∀ p ∈ s.impls, p.1 < s.next) ∧ (∀ c ∈ allCells s.impls, c.id < s.next) ∧
     TracksBelow s ∧ (∀ p ∈ s.T, p.2 < s.next) ∧ (∀ p ∈ s.G, p.2.trk < s.next) ∧
     (∀ p ∈ s.ownedG, p.1 < s.next) ∧ (s.ownedG.map (·.1)).Nodup) := by
  constructor
  · intro h
    exact ⟨h.impls.uniq, h.impls.keys, fun c hc => (h.impls.cells c hc).1,
      ⟨fun p hp => h.vars p hp, fun c hc => (h.impls.cells c hc).2⟩, h.objs, h.trks, h.owners.1, h.owners.2⟩
  · rintro ⟨h1, h2, h3, h4, h5, h6, h7, h8⟩
    exact ⟨⟨h1, h2, fun c hc => ⟨h3 c hc, h4.2 c hc⟩⟩, fun p hp => h4.1 p hp, h5, h6, ⟨h7, h8⟩⟩

theorem WF.uniqueCells {s : St} (h : WF s) : UniqueCells s.impls := h.impls.uniq
theorem WF.tracksBelow {s : St} (h : WF s) : TracksBelow s := ((WF_iff s).mp h).2.2.2.1

/-- the initial state is well-formed -/
theorem WF_init : WF ({} : St) :=
  ⟨ImplsOK.nil _, AllV.nil _, AllV.nil _, AllV.nil _, OwnIds.nil _⟩

example : WF exStT := by decide
example : WF exStK := by decide

/-! ### frame rules -/

/-- only `impls`, `S`, `T`, `G`, `ownedG`, `next` matter -/
theorem WF.frame {s : St} (h : WF s) (s' : St) (hn : s'.next = s.next) (hi : s'.impls = s.impls) (hS : s'.S = s.S)
    (hT : s'.T = s.T) (hG : s'.G = s.G) (hO : s'.ownedG = s.ownedG) : WF s' := by
  obtain ⟨a, b, c, d, e⟩ := h
  constructor
  · rw [hn, hi]; exact a
  · rw [hn, hS]; exact b
  · rw [hn, hT]; exact c
  · rw [hn, hG]; exact d
  · rw [hn, hO]; exact e

/-- the allocator moves on -/
theorem WF.bump {s : St} (h : WF s) (s' : St) (hn : s.next ≤ s'.next) (hi : s'.impls = s.impls) (hS : s'.S = s.S)
    (hT : s'.T = s.T) (hG : s'.G = s.G) (hO : s'.ownedG = s.ownedG) : WF s' := by
  obtain ⟨a, b, c, d, e⟩ := h
  constructor
  · rw [hi]; exact a.mono hn
  · rw [hS]; exact b.imp (fun v hv => hv.mono hn)
  · rw [hT]; exact c.imp (fun v hv => Nat.lt_of_lt_of_le hv hn)
  · rw [hG]; exact d.imp (fun v hv => Nat.lt_of_lt_of_le hv hn)
  · rw [hO]; exact e.mono hn

theorem WF.fresh {s : St} (h : WF s) : WF s.fresh.2 := h.bump _ (Nat.le_succ _) rfl rfl rfl rfl rfl

theorem WF.fail {s : St} (h : WF s) (m : String) : WF (s.fail m) := by
  unfold St.fail; split
  · exact h.frame _ rfl rfl rfl rfl rfl rfl
  · exact h

theorem WF.log {s : St} (h : WF s) (e : Event) : WF (s.log e) := h.frame _ rfl rfl rfl rfl rfl rfl

theorem WF.nullConns {s : St} (h : WF s) (cid : Nat) : WF (nullConns s cid) := h.frame _ rfl rfl rfl rfl rfl rfl

theorem WF.nullConnsList {s : St} (h : WF s) (cids : List Nat) : WF (nullConnsList s cids) :=
  h.frame _ (nullConnsList_next _ _) (nullConnsList_impls _ _) (nullConnsList_S _ _) (nullConnsList_T _ _)
    (nullConnsList_G _ _) (nullConnsList_ownedG _ _)

/-- the impl table is replaced by a well-formed one -/
theorem WF.withImpls {s : St} (h : WF s) (impls : List (Nat × Impl)) (hi : ImplsOK s.next impls) :
    WF { s with impls := impls } :=
  ⟨hi, h.vars, h.objs, h.trks, h.owners⟩

theorem WF.setImpl {s : St} (h : WF s) (i : Nat) (im' : Impl) (hi : ImplsOK s.next (aset s.impls i im')) :
    WF (setImpl s i im') :=
  ⟨hi, h.vars, h.objs, h.trks, h.owners⟩

/-- the table of slot variables is replaced by a well-formed one -/
theorem WF.withS {s : St} (h : WF s) (S : List (Nat × SlotVar)) (hS : AllV (fun v : SlotVar => SlotBelow s.next v.slot) S) :
    WF { s with S := S } :=
  ⟨h.impls, hS, h.objs, h.trks, h.owners⟩

theorem WF.withC {s : St} (h : WF s) (C : List (Nat × Option Nat)) : WF { s with C := C } := h.frame _ rfl rfl rfl rfl rfl rfl
theorem WF.withK {s : St} (h : WF s) (K : List (Nat × Option Nat)) : WF { s with K := K } := h.frame _ rfl rfl rfl rfl rfl rfl
theorem WF.setConn {s : St} (h : WF s) (k : Nat) (p : Option Nat) : WF (setConn s k p) := h.frame _ rfl rfl rfl rfl rfl rfl

/-! ### cells and lists -/

theorem WF.updCell {s : St} (h : WF s) (i cid : Nat) (f : Cell → Cell) (hid : ∀ c, (f c).id = c.id)
    (hf : ∀ c, SlotBelow s.next c.slot → SlotBelow s.next (f c).slot) : WF (updCell s i cid f) := by
  unfold Model.updCell
  split
  · exact h
  · rename_i im hi
    refine h.setImpl _ _ (h.impls.aset_map hi _ (fun c => if c.id = cid then f c else c) rfl ?_ ?_)
    · intro c; by_cases e : c.id = cid <;> simp [e, hid]
    · intro c hc; by_cases e : c.id = cid <;> simp [e, hc, hf]

theorem WF.eraseCell {s : St} (h : WF s) (i cid : Nat) : WF (eraseCell s i cid) := by
  unfold Model.eraseCell
  split
  · exact h
  · rename_i im hi
    exact (h.setImpl _ _ (h.impls.aset_filter hi _ (fun c => decide (c.id ≠ cid)) rfl)).nullConns cid

theorem WF.sweep {s : St} (h : WF s) (i : Nat) : WF (sweep s i) := by
  unfold Model.sweep
  split
  · exact h
  · rename_i im hi
    exact (h.setImpl _ _ (h.impls.aset_filter hi _ (fun c => !c.slot.empty) rfl)).nullConnsList _

theorem WF.unrefExec {s : St} (h : WF s) (i : Nat) : WF (unrefExec s i) := by
  unfold Model.unrefExec
  split
  · exact h
  · rename_i im hi
    have h1 : WF (Model.setImpl s i { im with exec := im.exec - 1 }) := h.setImpl _ _ (h.impls.aset_same hi _ rfl)
    simp only
    split
    · exact h1.sweep i
    · exact h1

theorem WF.gcImpl {s : St} (h : WF s) (i : Nat) : WF (gcImpl s i) := by
  rcases gcImpl_cases s i with e | ⟨im, _, _, _, e⟩ <;> rw [e]
  · exact h
  · exact (h.withImpls _ (h.impls.adel i)).nullConnsList _

theorem WF.notifyParent {s : St} (h : WF s) (i cid : Nat) : WF (notifyParent s i cid) := by
  unfold Model.notifyParent
  split
  · exact h
  · rename_i im hi
    split
    · exact h.eraseCell i cid
    · exact h.setImpl _ _ (h.impls.aset_same hi _ rfl)

theorem updCell_next (s : St) (i cid : Nat) (f : Cell → Cell) : (updCell s i cid f).next = s.next := by
  unfold updCell; split <;> rfl

theorem WF.disconnectCell {s : St} (h : WF s) (cid : Nat) : WF (disconnectCell s cid) := by
  unfold Model.disconnectCell
  split
  · exact h
  · have h1 : WF (Model.updCell s ‹Nat› cid (fun c => { c with slot := c.slot.disconnectRep, linked := false })) :=
      h.updCell _ _ _ (fun _ => rfl) (fun c hc => hc.disconnectRep)
    simp only
    split
    · exact h1.notifyParent _ _
    · exact h1

theorem WF.invalidateCell {s : St} (h : WF s) (cid : Nat) : WF (invalidateCell s cid) := by
  unfold Model.invalidateCell
  split
  · exact h
  · have h1 : WF (Model.updCell s ‹Nat› cid (fun c => { c with slot := c.slot.invalidate, linked := false })) :=
      h.updCell _ _ _ (fun _ => rfl) (fun c _ => SlotBelow.invalidate c.slot)
    simp only
    split
    · exact h1.notifyParent _ _
    · exact h1

theorem WF.foldl {α} (f : St → α → St) (hf : ∀ s a, WF s → WF (f s a)) (l : List α) {s : St} (h : WF s) :
    WF (l.foldl f s) := by
  induction l generalizing s with
  | nil => exact h
  | cons a t ih => exact ih (hf s a h)

theorem WF.invalidateTrackable {s : St} (h : WF s) (t : Nat) : WF (invalidateTrackable s t) := by
  unfold Model.invalidateTrackable
  simp only
  apply WF.foldl _ (fun s a hs => hs.invalidateCell a)
  refine h.withS _ (h.vars.amap _ ?_)
  intro v hv
  by_cases e : v.slot.tracksObj t = true
  · simp only [e, if_true]; exact SlotBelow.invalidate _
  · simp only [e]; exact hv

theorem WF.ensureImpl {s s1 : St} (h : WF s) {g i : Nat} (he : ensureImpl s g = some (s1, i)) : WF s1 := by
  unfold Model.ensureImpl at he
  split at he
  · cases he
  · rename_i hd hg
    split at he
    · simp at he; obtain ⟨rfl, _⟩ := he; exact h
    · simp only [St.fresh, Option.some.injEq, Prod.mk.injEq] at he
      obtain ⟨rfl, _⟩ := he
      have h1 : WF { s with next := s.next + 1 } := h.bump _ (Nat.le_succ _) rfl rfl rfl rfl rfl
      exact ⟨h1.impls.aset_empty s.next (Nat.lt_succ_self _), h1.vars, h1.objs,
        h1.trks.aset g _ (h1.trks.of_aget (v := hd) hg), h1.owners⟩

theorem ensureImpl_next_le {s s1 : St} {g i : Nat} (he : ensureImpl s g = some (s1, i)) : s.next ≤ s1.next := by
  unfold Model.ensureImpl at he
  split at he
  · cases he
  · split at he
    · simp at he; obtain ⟨rfl, _⟩ := he; exact Nat.le_refl _
    · simp only [St.fresh, Option.some.injEq, Prod.mk.injEq] at he
      obtain ⟨rfl, _⟩ := he; exact Nat.le_succ _

theorem ensureImpl_S {s s1 : St} {g i : Nat} (he : ensureImpl s g = some (s1, i)) : s1.S = s.S := by
  unfold Model.ensureImpl at he
  split at he
  · cases he
  · split at he
    · simp at he; obtain ⟨rfl, _⟩ := he; rfl
    · simp only [St.fresh, Option.some.injEq, Prod.mk.injEq] at he
      obtain ⟨rfl, _⟩ := he; rfl

theorem WF.insertCell {s : St} (h : WF s) (i : Nat) (first : Bool) (sl : SlotB) (hsl : SlotBelow (s.next + 1) sl) :
    WF (insertCell s i first sl).1 := by
  unfold Model.insertCell
  simp only [St.fresh]
  have h1 : WF { s with next := s.next + 1 } := h.bump _ (Nat.le_succ _) rfl rfl rfl rfl rfl
  split
  · exact h1.fail _
  · rename_i im hi
    have hi' : aget s.impls i = some im := hi
    refine ⟨?_, h1.vars, h1.objs, h1.trks, h1.owners⟩
    have hsl' : SlotBelow (s.next + 1) (match sl.rep with
        | none => { sl with rep := some { call := false, fn := none } }
        | some _ => sl) := by
      split
      · exact SlotBelow.of_nil rfl
      · exact hsl
    refine h.impls.aset_insert hi' _ { id := s.next, slot := _, linked := true } rfl hsl' ?_
    · cases first
      · right; rfl
      · left; rfl

theorem insertCell_next (s : St) (i : Nat) (first : Bool) (sl : SlotB) : (insertCell s i first sl).1.next = s.next + 1 := by
  unfold Model.insertCell
  simp only [St.fresh]
  split
  · unfold St.fail; split <;> rfl
  · rfl

theorem WF.clearImpl {s : St} (h : WF s) (i : Nat) : WF (clearImpl s i) := by
  unfold Model.clearImpl
  split
  · exact h
  · rename_i im hi
    simp only
    have h1 : WF (Model.setImpl s i { im with exec := im.exec + 1 }) := h.setImpl _ _ (h.impls.aset_same hi _ rfl)
    have h2 := WF.foldl Model.disconnectCell (fun s a hs => hs.disconnectCell a) (im.cells.map (·.id)) h1
    split
    · exact h2
    · rename_i im2 hi2
      apply WF.unrefExec
      split
      · exact h2
      · refine (h2.setImpl _ _ (h2.impls.aset_sub hi2 _ ?_ ?_)).nullConnsList _
        · simp
        · intro c hc; simp at hc

theorem WF.connBlock {s : St} (h : WF s) (p : Option Nat) (b : Bool) : WF (connBlock s p b) := by
  unfold Model.connBlock
  split
  · exact h
  · split
    · exact h
    · exact h.updCell _ _ _ (fun _ => rfl) (fun c hc => hc.blocked b)

/-- the signal object named `g` dies (`delG` when it does not refuse; `collect` for a functor-owned one) -/
theorem WF.dropHandle {s : St} (h : WF s) (g : Nat) : WF (dropHandle s g) := by
  unfold Model.dropHandle
  split
  · exact h
  · rename_i hd _
    have h1 : WF (if hd.fl.isTrackable then Model.invalidateTrackable s hd.trk else s) := by
      split
      · exact h.invalidateTrackable _
      · exact h
    have h2 : WF { (if hd.fl.isTrackable then Model.invalidateTrackable s hd.trk else s) with
        G := adel (if hd.fl.isTrackable then Model.invalidateTrackable s hd.trk else s).G g } :=
      ⟨h1.impls, h1.vars, h1.objs, h1.trks.adel g, h1.owners⟩
    simp only
    split
    · exact h2.gcImpl _
    · exact h2

theorem WF.collectStep {s s' : St} (h : WF s) (hc : collectStep s = some s') : WF s' := by
  unfold Model.collectStep at hc
  split at hc
  · simp only [Option.some.injEq] at hc; subst hc
    apply WF.invalidateTrackable
    exact h.frame _ rfl rfl rfl rfl rfl rfl
  · split at hc
    · simp only [Option.some.injEq] at hc; subst hc
      have h1 : WF { s with ownedK := s.ownedK.filter (fun q => q.1 ≠ ‹Nat›) } := h.frame _ rfl rfl rfl rfl rfl rfl
      split
      · exact h1.disconnectCell _
      · exact h1
    · split at hc
      · rename_i k g _
        simp only [Option.some.injEq] at hc; subst hc
        have h1 : WF { s with ownedG := s.ownedG.filter (fun q => q.1 ≠ k) } :=
          ⟨h.impls, h.vars, h.objs, h.trks, h.owners.filter _⟩
        exact h1.dropHandle g
      · cases hc

theorem WF.collectN {s : St} (h : WF s) (n : Nat) : WF (collectN n s) := by
  induction n generalizing s with
  | zero => exact h
  | succ n ih =>
    simp only [Model.collectN]
    split
    · rename_i s1 h1; exact ih (h.collectStep h1)
    · exact h

theorem WF.collect {s : St} (h : WF s) : WF (collect s) := h.collectN _

end Sigc.StepWF
