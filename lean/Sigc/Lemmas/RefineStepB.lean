import Sigc.Lemmas.RefinePrimA
/-!
# Refine work package — simulation of the operations without user code, part B:
the operations on trackables that invalidate slots (`delT`, `notifyT`, `mvT`, `asgT`, `masgT`) and the
operations on connections / scoped connections that disconnect (`disc`, `discK`, `delK`, `asgKC`, `masgK`).
-/
set_option linter.unusedSimpArgs false
namespace Sigc.Refine
open Sigc.Model

/-! ## `removeCell` only changes the lists -/

@[simp] theorem removeCell_C (t : Spec.LSt) (cid : Nat) : (Spec.removeCell t cid).C = t.C := by
  unfold Spec.removeCell Spec.setSig
  split
  · rfl
  · split <;> rfl

@[simp] theorem removeCell_K (t : Spec.LSt) (cid : Nat) : (Spec.removeCell t cid).K = t.K := by
  unfold Spec.removeCell Spec.setSig
  split
  · rfl
  · split <;> rfl

@[simp] theorem removeCell_next (t : Spec.LSt) (cid : Nat) : (Spec.removeCell t cid).next = t.next := by
  unfold Spec.removeCell Spec.setSig
  split
  · rfl
  · split <;> rfl

/-- the specification's `connection::disconnect()` (the local `disconnect` of `Spec.stepSimple`) -/
def sdisc (t : Spec.LSt) (p : Option Nat) : Spec.LSt :=
  match p with
  | some cid => Spec.removeCell t cid
  | none => t

/-- the model's `connection::disconnect()` -/
def mdisc (s : St) (p : Option Nat) : St :=
  match p with
  | some cid => disconnectCell s cid
  | none => s

@[simp] theorem sdisc_C (t : Spec.LSt) (p : Option Nat) : (sdisc t p).C = t.C := by
  cases p <;> simp [sdisc]

@[simp] theorem sdisc_K (t : Spec.LSt) (p : Option Nat) : (sdisc t p).K = t.K := by
  cases p <;> simp [sdisc]

@[simp] theorem sdisc_next (t : Spec.LSt) (p : Option Nat) : (sdisc t p).next = t.next := by
  cases p <;> simp [sdisc]

theorem R_disc {s : St} {t : Spec.LSt} (hs : Emit.Inv s) (hR : R s t) {pm ps : Option Nat}
    (hp : PtrR t.sigs t.next pm ps) : R (mdisc s pm) (sdisc t ps) := by
  have := R_optDisconnect hs hR hp
  cases pm <;> cases ps <;> exact this

/-! ## the operations -/

/-- the model never refuses these operations -/
local macro "none_case" : tactic =>
  `(tactic| (intro h; simp only [Model.stepSimple] at h; repeat' (first | (simp at h; done) | split at h)))

/-- close a leaf: `h : some (a, b) = some (s', r)`, the goal's specification side is reduced to `some _` -/
local macro "leaf" h:ident hR:term : tactic =>
  `(tactic| (cases $h:ident; exact ⟨_, _, rfl, $hR, .refl _⟩))

/-! ### trackables -/

theorem step_delT (k : Nat) : StepSim (.delT k) := by
  intro s t hs hR hq
  refine ⟨?_, by none_case⟩
  intro s' r h
  simp only [Model.stepSimple] at h
  simp only [Spec.stepSimple, hR.T]
  cases hk : aget s.T k with
  | none => simp only [hk] at h ⊢; leaf h hR
  | some o =>
    simp only [hk] at h ⊢
    have hs1 : Emit.Inv { s with T := adel s.T k } := Emit.InvX.congr hs rfl rfl rfl rfl (Nat.le_refl _)
    leaf h (R_invalidateTrackable hs1 (hR.updT _) o)

theorem step_notifyT (k : Nat) : StepSim (.notifyT k) := by
  intro s t hs hR hq
  refine ⟨?_, by none_case⟩
  intro s' r h
  simp only [Model.stepSimple] at h
  simp only [Spec.stepSimple, hR.T]
  cases hk : aget s.T k with
  | none => simp only [hk] at h ⊢; leaf h hR
  | some o =>
    simp only [hk] at h ⊢
    leaf h (R_invalidateTrackable hs hR o)

theorem step_mvT (j i : Nat) : StepSim (.mvT j i) := by
  intro s t hs hR hq
  refine ⟨?_, by none_case⟩
  intro s' r h
  simp only [Model.stepSimple] at h
  simp only [Spec.stepSimple, hR.T]
  cases hi : aget s.T i with
  | none => simp only [hi] at h ⊢; leaf h hR
  | some oi =>
    simp only [hi] at h ⊢
    cases hj : aget s.T j with
    | some oj => simp only [hj] at h ⊢; leaf h hR
    | none =>
      simp only [hj, St.fresh] at h
      simp only [hj, Spec.LSt.fresh, hR.next, hR.T]
      have hs1 : Emit.Inv { s with next := s.next + 1, T := aset s.T j s.next } :=
        Emit.InvX.congr hs rfl rfl rfl rfl (Nat.le_succ _)
      leaf h (R_invalidateTrackable hs1 (hR.fresh'.updT _) oi)

theorem step_asgT (j i : Nat) : StepSim (.asgT j i) := by
  intro s t hs hR hq
  refine ⟨?_, by none_case⟩
  intro s' r h
  simp only [Model.stepSimple] at h
  simp only [Spec.stepSimple, hR.T]
  cases hj : aget s.T j <;> cases hi : aget s.T i <;> simp only [hj, hi] at h ⊢
  · leaf h hR
  · leaf h hR
  · leaf h hR
  · by_cases e : j = i
    · simp only [e, ↓reduceIte] at h ⊢; leaf h hR
    · simp only [e, ↓reduceIte] at h ⊢
      leaf h (R_invalidateTrackable hs hR _)

theorem step_masgT (j i : Nat) : StepSim (.masgT j i) := by
  intro s t hs hR hq
  refine ⟨?_, by none_case⟩
  intro s' r h
  simp only [Model.stepSimple] at h
  simp only [Spec.stepSimple, hR.T]
  cases hj : aget s.T j <;> cases hi : aget s.T i <;> simp only [hj, hi] at h ⊢
  · leaf h hR
  · leaf h hR
  · leaf h hR
  · by_cases e : j = i
    · simp only [e, ↓reduceIte] at h ⊢; leaf h hR
    · simp only [e, ↓reduceIte] at h ⊢
      rename_i oj oi
      have hs1 : Emit.Inv (Model.invalidateTrackable s oj) := (Emit.good_invalidateTrackable hs oj).inv
      leaf h (R_invalidateTrackable hs1 (R_invalidateTrackable hs hR oj) oi)

/-! ### connections and scoped connections -/

theorem step_disc (i : Nat) : StepSim (.disc i) := by
  intro s t hs hR hq
  refine ⟨?_, by none_case⟩
  intro s' r h
  simp only [Model.stepSimple] at h
  simp only [Spec.stepSimple]
  rcases hR.C.get i with ⟨h1, h2⟩ | ⟨a, b, h1, h2, hr⟩
  · simp only [h1] at h; simp only [h2]; leaf h hR
  · simp only [h1] at h; simp only [h2]
    leaf h (R_disc hs hR hr)

theorem step_discK (i : Nat) : StepSim (.discK i) := by
  intro s t hs hR hq
  refine ⟨?_, by none_case⟩
  intro s' r h
  simp only [Model.stepSimple] at h
  simp only [Spec.stepSimple]
  rcases hR.K.get i with ⟨h1, h2⟩ | ⟨a, b, h1, h2, hr⟩
  · simp only [h1] at h; simp only [h2]; leaf h hR
  · simp only [h1] at h; simp only [h2]
    leaf h (R_disc hs hR hr)

theorem step_delK (i : Nat) : StepSim (.delK i) := by
  intro s t hs hR hq
  refine ⟨?_, by none_case⟩
  intro s' r h
  simp only [Model.stepSimple] at h
  simp only [Spec.stepSimple]
  rcases hR.K.get i with ⟨h1, h2⟩ | ⟨a, b, h1, h2, hr⟩
  · simp only [h1] at h; simp only [h2]; leaf h hR
  · simp only [h1] at h; simp only [h2]
    have hs0 : Emit.Inv { s with K := adel s.K i } := Emit.InvX.congr hs rfl rfl rfl rfl (Nat.le_refl _)
    have hR0 : R { s with K := adel s.K i } { t with K := adel t.K i } := hR.updK (hR.K.del i)
    leaf h (R_disc hs0 hR0 hr)

theorem step_asgKC (i c : Nat) : StepSim (.asgKC i c) := by
  intro s t hs hR hq
  refine ⟨?_, by none_case⟩
  intro s' r h
  simp only [Model.stepSimple] at h
  simp only [Spec.stepSimple]
  rcases hR.K.get i with ⟨h1, h2⟩ | ⟨a, b, h1, h2, hr⟩ <;>
    rcases hR.C.get c with ⟨k1, k2⟩ | ⟨a', b', k1, k2, hr'⟩ <;>
    simp only [k1, h1] at h <;> simp only [k2, h2]
  · leaf h hR
  · leaf h hR
  · leaf h hR
  · have hR1 : R (mdisc s a) (sdisc t b) := R_disc hs hR hr
    change (match aget (mdisc s a).C c with
      | some p' => some ({ mdisc s a with K := aset (mdisc s a).K i p' }, "ok")
      | none => some (mdisc s a, "ok")) = some (s', r) at h
    rcases hR1.C.get c with ⟨m1, m2⟩ | ⟨a2, b2, m1, m2, hr2⟩
    · rw [sdisc_C, k2] at m2; cases m2
    · rw [sdisc_C, k2] at m2; cases m2
      simp only [m1] at h
      have hfin := hR1.updK (hR1.K.set i hr2)
      rw [sdisc_K] at hfin
      cases h
      exact ⟨_, _, rfl, hfin, .refl _⟩

theorem step_masgK (j i : Nat) : StepSim (.masgK j i) := by
  intro s t hs hR hq
  refine ⟨?_, by none_case⟩
  intro s' r h
  simp only [Model.stepSimple] at h
  simp only [Spec.stepSimple]
  rcases hR.K.get j with ⟨h1, h2⟩ | ⟨a, b, h1, h2, hr⟩ <;>
    rcases hR.K.get i with ⟨k1, k2⟩ | ⟨a', b', k1, k2, hr'⟩ <;>
    simp only [k1, h1] at h <;> simp only [k2, h2]
  · leaf h hR
  · leaf h hR
  · leaf h hR
  · by_cases e : j = i
    · simp only [e, ↓reduceIte] at h ⊢; leaf h hR
    · simp only [e, ↓reduceIte] at h ⊢
      have hR1 : R (mdisc s a) (sdisc t b) := R_disc hs hR hr
      change (match aget (mdisc s a).K i with
        | some p' => some ({ mdisc s a with K := aset (aset (mdisc s a).K i none) j p' }, "ok")
        | none => some (mdisc s a, "ok")) = some (s', r) at h
      rcases hR1.K.get i with ⟨m1, m2⟩ | ⟨a2, b2, m1, m2, hr2⟩
      · rw [sdisc_K, k2] at m2; cases m2
      · rw [sdisc_K, k2] at m2; cases m2
        simp only [m1] at h
        have hfin := hR1.updK ((hR1.K.set i (PtrR.rfl' none)).set j hr2)
        rw [sdisc_K] at hfin
        cases h
        exact ⟨_, _, rfl, hfin, .refl _⟩

end Sigc.Refine
