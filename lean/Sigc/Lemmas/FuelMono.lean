import Sigc.Run
/-!
# Fuel work package — fuel monotonicity of the mechanism model `P`

Every function of the mutual block of `Sigc.Model` (and `runTop`, `teardown`): a result obtained with fuel
`f` is obtained, unchanged, with every fuel `f' ≥ f`.
-/
namespace Sigc.Fuel
open Sigc.Model

/-- all functions of the mutual block: a result at fuel `f` is the result at fuel `g` -/
structure Mono (f g : Nat) : Prop where
  invoke : ∀ P s fn arg, invokeFun f P s fn arg ≠ none → invokeFun g P s fn arg = invokeFun f P s fn arg
  body : ∀ P s ls, runBody f P s ls ≠ none → runBody g P s ls = runBody f P s ls
  line : ∀ P s l, execLine f P s l ≠ none → execLine g P s l = execLine f P s l
  emit : ∀ P s fl impl arg st, emitImpl f P s fl impl arg st ≠ none →
    emitImpl g P s fl impl arg st = emitImpl f P s fl impl arg st
  loop : ∀ P s i cur m arg r, emitLoop f P s i cur m arg r ≠ none →
    emitLoop g P s i cur m arg r = emitLoop f P s i cur m arg r
  deref : ∀ P s i it arg, deref f P s i it arg ≠ none → deref g P s i it arg = deref f P s i it arg
  acc : ∀ P s i it m arg mode k r, accLoop f P s i it m arg mode k r ≠ none →
    accLoop g P s i it m arg mode k r = accLoop f P s i it m arg mode k r
  rev : ∀ P s i it first arg r, revLoop f P s i it first arg r ≠ none →
    revLoop g P s i it first arg r = revLoop f P s i it first arg r
  walk : ∀ P s i it first m arg cs r, walkLoop f P s i it first m arg cs r ≠ none →
    walkLoop g P s i it first m arg cs r = walkLoop f P s i it first m arg cs r
  strat : ∀ P s i first m arg st, runStrat f P s i first m arg st ≠ none →
    runStrat g P s i first m arg st = runStrat f P s i first m arg st
  op : ∀ P s o, execOp f P s o ≠ none → execOp g P s o = execOp f P s o


/-- split along the run at the smaller fuel until the induction hypotheses (conditional rewrite rules
    `X g … = X f …` provided `X f … ≠ none`) turn the run at the larger fuel into the same term -/
syntax "fuel_go " ident : tactic
macro_rules
  | `(tactic| fuel_go $h:ident) => `(tactic| first
      | exact absurd rfl $h
      | (simp only [*, ne_eq, reduceCtorEq, not_false_eq_true, not_true_eq_false, if_true, if_false]; done)
      | (split at $h:ident <;> (try subst_vars) <;> fuel_go $h:ident))

/-- unfold one step of the same function at the two fuels, then `fuel_go` -/
syntax "fuel_step " ident ident : tactic
macro_rules
  | `(tactic| fuel_step $e:ident $h:ident) => `(tactic| (
      rw [$e:ident] at $h:ident
      conv => lhs; rw [$e:ident]
      conv => rhs; rw [$e:ident]
      try simp only [] at $h:ident ⊢
      fuel_go $h:ident))

theorem invoke_step {f g} (ih : Mono f g) : ∀ P s fn arg, invokeFun (f+1) P s fn arg ≠ none →
    invokeFun (g+1) P s fn arg = invokeFun (f+1) P s fn arg := by
  intro P s fn arg h
  have hb := ih.body; have hi := ih.invoke; have he := ih.emit
  fuel_step invokeFun.eq_def h

theorem body_step {f g} (ih : Mono f g) : ∀ P s ls, runBody (f+1) P s ls ≠ none →
    runBody (g+1) P s ls = runBody (f+1) P s ls := by
  intro P s ls h
  have hb := ih.body; have hl := ih.line
  cases ls with
  | nil => rw [runBody, runBody]
  | cons l ls =>
    rw [runBody] at h
    conv => lhs; rw [runBody]
    conv => rhs; rw [runBody]
    fuel_go h

theorem line_step {f g} (ih : Mono f g) : ∀ P s l, execLine (f+1) P s l ≠ none →
    execLine (g+1) P s l = execLine (f+1) P s l := by
  intro P s l h
  have ho := ih.op
  fuel_step execLine.eq_def h

theorem emit_step {f g} (ih : Mono f g) : ∀ P s fl impl arg st, emitImpl (f+1) P s fl impl arg st ≠ none →
    emitImpl (g+1) P s fl impl arg st = emitImpl (f+1) P s fl impl arg st := by
  intro P s fl impl arg st h
  have hs := ih.strat; have hl := ih.loop
  cases hacc : fl.isAcc <;>
  · rw [emitImpl.eq_def] at h
    conv => lhs; rw [emitImpl.eq_def]
    conv => rhs; rw [emitImpl.eq_def]
    simp only [hacc, Bool.false_eq_true, ↓reduceIte] at h ⊢
    fuel_go h

theorem loop_step {f g} (ih : Mono f g) : ∀ P s i cur m arg r, emitLoop (f+1) P s i cur m arg r ≠ none →
    emitLoop (g+1) P s i cur m arg r = emitLoop (f+1) P s i cur m arg r := by
  intro P s i cur m arg r h
  have hi := ih.invoke; have hl := ih.loop
  rw [emitLoop.eq_def] at h
  conv => lhs; rw [emitLoop.eq_def]
  conv => rhs; rw [emitLoop.eq_def]
  simp only [] at h ⊢
  split at h
  · fuel_go h
  · split at h
    · fuel_go h
    · split at h
      · fuel_go h
      · rename_i c _
        rcases hrep : c.slot.rep with _ | ⟨_ | _, _ | fn⟩ <;> simp only [hrep] at h ⊢ <;>
          cases hbl : c.slot.blocked <;> (try simp only [hbl, Bool.false_eq_true, ↓reduceIte] at h ⊢) <;> fuel_go h

theorem deref_step {f g} (ih : Mono f g) : ∀ P s i it arg, deref (f+1) P s i it arg ≠ none →
    deref (g+1) P s i it arg = deref (f+1) P s i it arg := by
  intro P s i it arg h
  have hi := ih.invoke
  rw [deref.eq_def] at h
  conv => lhs; rw [deref.eq_def]
  conv => rhs; rw [deref.eq_def]
  simp only [] at h ⊢
  split at h
  · fuel_go h
  · split at h
    · fuel_go h
    · rename_i c _
      rcases hrep : c.slot.rep with _ | ⟨_ | _, _ | fn⟩ <;> simp only [hrep] at h ⊢ <;> fuel_go h

theorem acc_step {f g} (ih : Mono f g) : ∀ P s i it m arg mode k r, accLoop (f+1) P s i it m arg mode k r ≠ none →
    accLoop (g+1) P s i it m arg mode k r = accLoop (f+1) P s i it m arg mode k r := by
  intro P s i it m arg mode k r h
  have hd := ih.deref; have ha := ih.acc
  fuel_step accLoop.eq_def h

theorem rev_step {f g} (ih : Mono f g) : ∀ P s i it first arg r, revLoop (f+1) P s i it first arg r ≠ none →
    revLoop (g+1) P s i it first arg r = revLoop (f+1) P s i it first arg r := by
  intro P s i it first arg r h
  have hd := ih.deref; have hr := ih.rev
  fuel_step revLoop.eq_def h

theorem walk_step {f g} (ih : Mono f g) : ∀ P s i it first m arg cs r, walkLoop (f+1) P s i it first m arg cs r ≠ none →
    walkLoop (g+1) P s i it first m arg cs r = walkLoop (f+1) P s i it first m arg cs r := by
  intro P s i it first m arg cs r h
  have hd := ih.deref; have hw := ih.walk
  cases cs with
  | nil => rw [walkLoop, walkLoop]
  | cons c cs =>
    rw [walkLoop] at h
    conv => lhs; rw [walkLoop]
    conv => rhs; rw [walkLoop]
    fuel_go h

theorem strat_step {f g} (ih : Mono f g) : ∀ P s i first m arg st, runStrat (f+1) P s i first m arg st ≠ none →
    runStrat (g+1) P s i first m arg st = runStrat (f+1) P s i first m arg st := by
  intro P s i first m arg st h
  have ha := ih.acc; have hr := ih.rev; have hw := ih.walk
  fuel_step runStrat.eq_def h

theorem op_step {f g} (ih : Mono f g) : ∀ P s o, execOp (f+1) P s o ≠ none →
    execOp (g+1) P s o = execOp (f+1) P s o := by
  intro P s o h
  have hi := ih.invoke; have he := ih.emit
  fuel_step execOp.eq_def h

theorem mono_zero (g : Nat) : Mono 0 g := by
  constructor
  · intro P s fn arg h; exact absurd (by rw [invokeFun.eq_def]) h
  · intro P s ls h; exact absurd (by rw [runBody.eq_def]) h
  · intro P s l h; exact absurd (by rw [execLine.eq_def]) h
  · intro P s fl impl arg st h; exact absurd (by rw [emitImpl.eq_def]) h
  · intro P s i cur m arg r h; exact absurd (by rw [emitLoop.eq_def]) h
  · intro P s i it arg h; exact absurd (by rw [deref.eq_def]) h
  · intro P s i it m arg mode k r h; exact absurd (by rw [accLoop.eq_def]) h
  · intro P s i it first arg r h; exact absurd (by rw [revLoop.eq_def]) h
  · intro P s i it first m arg cs r h; exact absurd (by rw [walkLoop.eq_def]) h
  · intro P s i first m arg st h; exact absurd (by rw [runStrat.eq_def]) h
  · intro P s o h; exact absurd (by rw [execOp.eq_def]) h

theorem mono_succ {f g : Nat} (ih : Mono f g) : Mono (f+1) (g+1) :=
  ⟨invoke_step ih, body_step ih, line_step ih, emit_step ih, loop_step ih, deref_step ih, acc_step ih,
   rev_step ih, walk_step ih, strat_step ih, op_step ih⟩

/-- fuel monotonicity of the whole mutual block -/
theorem mono : ∀ {f g : Nat}, f ≤ g → Mono f g
  | 0, g, _ => mono_zero g
  | f+1, 0, h => absurd h (by omega)
  | f+1, g+1, h => mono_succ (mono (Nat.le_of_succ_le_succ h))

/-- `some`-form of a `Mono` field -/
theorem of_ne_none {α} {a b : Option α} {r : α} (hm : a ≠ none → b = a) (h : a = some r) : b = some r := by
  rw [hm (by rw [h]; exact fun e => nomatch e), h]

/-! ## the user-facing statements: `X f … = some r → f ≤ g → X g … = some r` -/

theorem invokeFun_mono {f g P s fn arg r} (hle : f ≤ g) (h : invokeFun f P s fn arg = some r) :
    invokeFun g P s fn arg = some r := of_ne_none ((mono hle).invoke P s fn arg) h
theorem runBody_mono {f g P s ls r} (hle : f ≤ g) (h : runBody f P s ls = some r) :
    runBody g P s ls = some r := of_ne_none ((mono hle).body P s ls) h
theorem execLine_mono {f g P s l r} (hle : f ≤ g) (h : execLine f P s l = some r) :
    execLine g P s l = some r := of_ne_none ((mono hle).line P s l) h
theorem emitImpl_mono {f g P s fl impl arg st r} (hle : f ≤ g) (h : emitImpl f P s fl impl arg st = some r) :
    emitImpl g P s fl impl arg st = some r := of_ne_none ((mono hle).emit P s fl impl arg st) h
theorem emitLoop_mono {f g P s i cur m arg r0 r} (hle : f ≤ g) (h : emitLoop f P s i cur m arg r0 = some r) :
    emitLoop g P s i cur m arg r0 = some r := of_ne_none ((mono hle).loop P s i cur m arg r0) h
theorem deref_mono {f g P s i it arg r} (hle : f ≤ g) (h : deref f P s i it arg = some r) :
    deref g P s i it arg = some r := of_ne_none ((mono hle).deref P s i it arg) h
theorem accLoop_mono {f g P s i it m arg mode k r0 r} (hle : f ≤ g)
    (h : accLoop f P s i it m arg mode k r0 = some r) : accLoop g P s i it m arg mode k r0 = some r :=
  of_ne_none ((mono hle).acc P s i it m arg mode k r0) h
theorem revLoop_mono {f g P s i it first arg r0 r} (hle : f ≤ g) (h : revLoop f P s i it first arg r0 = some r) :
    revLoop g P s i it first arg r0 = some r := of_ne_none ((mono hle).rev P s i it first arg r0) h
theorem walkLoop_mono {f g P s i it first m arg cs r0 r} (hle : f ≤ g)
    (h : walkLoop f P s i it first m arg cs r0 = some r) : walkLoop g P s i it first m arg cs r0 = some r :=
  of_ne_none ((mono hle).walk P s i it first m arg cs r0) h
theorem runStrat_mono {f g P s i first m arg st r} (hle : f ≤ g) (h : runStrat f P s i first m arg st = some r) :
    runStrat g P s i first m arg st = some r := of_ne_none ((mono hle).strat P s i first m arg st) h
theorem execOp_mono {f g P s o r} (hle : f ≤ g) (h : execOp f P s o = some r) :
    execOp g P s o = some r := of_ne_none ((mono hle).op P s o) h

/-! ## `runTop`, `teardown` -/

theorem runTop_mono {f g : Nat} (hle : f ≤ g) (P : Prog) : ∀ (ls : List Line) (s r : St),
    runTop f P s ls = some r → runTop g P s ls = some r := by
  intro ls
  induction ls with
  | nil => intro s r h; simpa [runTop] using h
  | cons l ls ih =>
    intro s r h
    simp only [runTop] at h ⊢
    split at h
    · cases h
    · rename_i s1 o1 h1
      rw [execLine_mono hle h1]
      exact ih s1 r h

/-- the quiet sequence of operations used by `teardown` -/
def seqOps (f : Nat) (P : Prog) (s : Option St) (ops : List Op) : Option St :=
  ops.foldl (fun acc op => acc.bind (fun s => match execOp f P s op with
    | none => none
    | some (s, _) => some s)) s

theorem seqOps_none (f : Nat) (P : Prog) (ops : List Op) : seqOps f P none ops = none := by
  induction ops with
  | nil => rfl
  | cons o ops ih => simpa [seqOps, List.foldl] using ih

theorem seqOps_cons (f : Nat) (P : Prog) (s : St) (o : Op) (ops : List Op) :
    seqOps f P (some s) (o :: ops) =
      seqOps f P (match execOp f P s o with
        | none => none
        | some (s, _) => some s) ops := rfl

theorem seqOps_mono {f g : Nat} (hle : f ≤ g) (P : Prog) : ∀ (ops : List Op) (s : Option St) (r : St),
    seqOps f P s ops = some r → seqOps g P s ops = some r := by
  intro ops
  induction ops with
  | nil => intro s r h; exact h
  | cons o ops ih =>
    intro s r h
    cases s with
    | none => rw [seqOps_none] at h; cases h
    | some s =>
      rw [seqOps_cons] at h ⊢
      cases ho : execOp f P s o with
      | none => rw [ho, seqOps_none] at h; cases h
      | some p =>
        rw [execOp_mono hle ho]
        rw [ho] at h
        exact ih _ r h

theorem teardown_eq (f : Nat) (P : Prog) (s : St) : teardown f P s =
    match seqOps f P (some s) ((sortedKeys s.K).map Op.delK) with
    | none => none
    | some s =>
      match seqOps f P (some s) ((sortedKeys s.C).map Op.delC ++ (sortedKeys s.S).map Op.delS
                          ++ (sortedKeys s.G).map Op.clear) with
      | none => none
      | some s =>
        let s := (sortedKeys s.G).foldl (fun s g =>
          match aget s.G g with
          | none => s
          | some h =>
            let s := if h.fl.isTrackable then invalidateTrackable s h.trk else s
            let s := { s with G := adel s.G g }
            match h.impl with
            | some im => gcImpl s im
            | none => s) s
        seqOps f P (some s) ((sortedKeys s.T).map Op.delT) := rfl

theorem teardown_mono {f g : Nat} (hle : f ≤ g) (P : Prog) (s r : St)
    (h : teardown f P s = some r) : teardown g P s = some r := by
  rw [teardown_eq] at h ⊢
  split at h
  · cases h
  · rename_i s1 h1
    rw [seqOps_mono hle P _ _ _ h1]
    simp only [] at h ⊢
    split at h
    · cases h
    · rename_i s2 h2
      rw [seqOps_mono hle P _ _ _ h2]
      exact seqOps_mono hle P _ _ _ h

/-! ## the driver with the fuel as a parameter -/

/-- `Model.runProgram` with the fuel as a parameter (`Model.runProgram = runProgramWith defaultFuel`) -/
def runProgramWith (fuel : Nat) (lines : List String) : List String :=
  let P := parseProg lines
  match runTop fuel P {} P.top with
  | none => ["MODEL-FUEL"]
  | some s =>
    match teardown fuel P s with
    | none => ["MODEL-FUEL"]
    | some s =>
      let body := (s.trace.reverse.map renderEvent) ++ [s!"0 final live={liveTotal s}"]
      match s.err with
      | none => body
      | some e => body ++ [s!"MODEL-ERROR {e}"]

theorem runProgram_eq_with (lines : List String) : Model.runProgram lines = runProgramWith defaultFuel lines := rfl

/-- an output other than the fuel notice comes from terminated runs of `runTop` and `teardown` -/
theorem runProgramWith_some {fuel : Nat} {lines : List String} (h : runProgramWith fuel lines ≠ ["MODEL-FUEL"]) :
    ∃ s t, runTop fuel (parseProg lines) {} (parseProg lines).top = some s ∧
      teardown fuel (parseProg lines) s = some t := by
  unfold runProgramWith at h
  simp only [] at h
  cases h1 : runTop fuel (parseProg lines) {} (parseProg lines).top with
  | none => rw [h1] at h; exact absurd rfl h
  | some s =>
    rw [h1] at h
    simp only [] at h
    cases h2 : teardown fuel (parseProg lines) s with
    | none => rw [h2] at h; exact absurd rfl h
    | some t => exact ⟨s, t, rfl, h2⟩

theorem runProgramWith_mono {f g : Nat} (hle : f ≤ g) {lines : List String}
    (h : runProgramWith f lines ≠ ["MODEL-FUEL"]) : runProgramWith g lines = runProgramWith f lines := by
  obtain ⟨s, t, h1, h2⟩ := runProgramWith_some h
  unfold runProgramWith
  simp only []
  rw [h1, runTop_mono hle _ _ _ _ h1]
  simp only []
  rw [h2, teardown_mono hle _ _ _ h2]

end Sigc.Fuel
