import Sigc.Lemmas.SpecKSimB
/-!
# SpecK — the mutual induction on fuel, part C: the statements (`All f`) and the steps for `invokeFun`,
`runBody`, `execLine`, `execOp`.  The run of the first configuration with fuel `f` is matched by the run
of the second with fuel `f + 1`.
-/
namespace Sigc.SpecK
open Sigc.Model Sigc.Spec

/-- some signal object refers to the emitted list -/
def Ref (t : LSt) (impl : Option Nat) : Prop := ∀ i, impl = some i → t.G.any (fun p => p.2.impl = some i) = true

def SInvoke (f : Nat) : Prop :=
  ∀ (P : Prog) (ρ : IdRel) (t u : LSt) (fn fn' : Fun) (arg : Nat) (t' : LSt) (o : Outcome) (v : Nat),
    Q ρ t u → Settled t → FunR ρ fn fn' → cInvoke f P t fn arg = true →
    Spec.invokeFun f P t fn arg = some (t', o, v) →
    ∃ u', Spec.invokeFun (f+1) P u fn' arg = some (u', o, v) ∧ Good ρ t u t' u' ∧ Settled t'

def SBody (f : Nat) : Prop :=
  ∀ (P : Prog) (ρ : IdRel) (t u : LSt) (ls : List Line) (t' : LSt) (o : Outcome),
    Q ρ t u → Settled t → Quiet t → cBody f P t ls = true →
    Spec.runBody f P t ls = some (t', o) →
    ∃ u', Spec.runBody (f+1) P u ls = some (u', o) ∧ Good ρ t u t' u' ∧ Settled t'

def SLine (f : Nat) : Prop :=
  ∀ (P : Prog) (ρ : IdRel) (t u : LSt) (l : Line) (t' : LSt) (o : Outcome),
    Q ρ t u → Settled t → Quiet t → cLine f P t l = true →
    Spec.execLine f P t l = some (t', o) →
    ∃ u', Spec.execLine (f+1) P u l = some (u', o) ∧ Good ρ t u t' u' ∧ Settled t'

def SOp (f : Nat) : Prop :=
  ∀ (P : Prog) (ρ : IdRel) (t u : LSt) (op : Op) (t' : LSt) (e : Except Unit String),
    Q ρ t u → Settled t → Quiet t → cOp f P t op = true →
    Spec.execOp f P t op = some (t', e) →
    ∃ u', Spec.execOp (f+1) P u op = some (u', e) ∧ Good ρ t u t' u'

def SEmit (f : Nat) : Prop :=
  ∀ (P : Prog) (ρ : IdRel) (t u : LSt) (fl : Flavour) (impl impl' : Option Nat) (arg : Nat) (strat : Strat)
    (t' : LSt) (o : Outcome) (v : Nat),
    Q ρ t u → Settled t → OR ρ impl impl' → Ref t impl → cEmit f P t fl impl arg strat = true →
    Spec.emitSig f P t fl impl arg strat = some (t', o, v) →
    ∃ u', Spec.emitSig (f+1) P u fl impl' arg strat = some (u', o, v) ∧ Good ρ t u t' u' ∧ Settled t'

def STurns (f : Nat) : Prop :=
  ∀ (P : Prog) (ρ : IdRel) (t u : LSt) (i i' : Nat) (snap snap' : List Nat) (arg r : Nat)
    (t' : LSt) (o : Outcome) (v : Nat),
    Q ρ t u → Settled t → ρ i i' → F2 ρ snap snap' → cTurns f P t i snap arg r = true →
    Spec.turns f P t i snap arg r = some (t', o, v) →
    ∃ u', Spec.turns (f+1) P u i' snap' arg r = some (u', o, v) ∧ Good ρ t u t' u' ∧ Settled t'

def SDeref (f : Nat) : Prop :=
  ∀ (P : Prog) (ρ : IdRel) (t u : LSt) (i i' : Nat) (snap snap' : List Nat) (it : It) (arg : Nat)
    (t' : LSt) (o : Outcome) (it' : It),
    Q ρ t u → Settled t → ρ i i' → F2 ρ snap snap' → cDeref f P t i snap it arg = true →
    Spec.deref f P t i snap it arg = some (t', o, it') →
    ∃ u', Spec.deref (f+1) P u i' snap' it arg = some (u', o, it') ∧ Good ρ t u t' u' ∧ Settled t'

def SAcc (f : Nat) : Prop :=
  ∀ (P : Prog) (ρ : IdRel) (t u : LSt) (i i' : Nat) (snap snap' : List Nat) (it : It) (arg mode k r : Nat)
    (t' : LSt) (o : Outcome) (v : Nat),
    Q ρ t u → Settled t → ρ i i' → F2 ρ snap snap' → cAcc f P t i snap it arg mode k r = true →
    Spec.accLoop f P t i snap it arg mode k r = some (t', o, v) →
    ∃ u', Spec.accLoop (f+1) P u i' snap' it arg mode k r = some (u', o, v) ∧ Good ρ t u t' u' ∧ Settled t'

def SRev (f : Nat) : Prop :=
  ∀ (P : Prog) (ρ : IdRel) (t u : LSt) (i i' : Nat) (snap snap' : List Nat) (it : It) (arg r : Nat)
    (t' : LSt) (o : Outcome) (v : Nat),
    Q ρ t u → Settled t → ρ i i' → F2 ρ snap snap' → cRev f P t i snap it arg r = true →
    Spec.revLoop f P t i snap it arg r = some (t', o, v) →
    ∃ u', Spec.revLoop (f+1) P u i' snap' it arg r = some (u', o, v) ∧ Good ρ t u t' u' ∧ Settled t'

def SWalk (f : Nat) : Prop :=
  ∀ (P : Prog) (ρ : IdRel) (t u : LSt) (i i' : Nat) (snap snap' : List Nat) (it : It) (arg : Nat) (ops : List Char)
    (r : Nat) (t' : LSt) (o : Outcome) (v : Nat),
    Q ρ t u → Settled t → ρ i i' → F2 ρ snap snap' → cWalk f P t i snap it arg ops r = true →
    Spec.walkLoop f P t i snap it arg ops r = some (t', o, v) →
    ∃ u', Spec.walkLoop (f+1) P u i' snap' it arg ops r = some (u', o, v) ∧ Good ρ t u t' u' ∧ Settled t'

def SStrat (f : Nat) : Prop :=
  ∀ (P : Prog) (ρ : IdRel) (t u : LSt) (i i' : Nat) (snap snap' : List Nat) (arg : Nat) (strat : Strat)
    (t' : LSt) (o : Outcome) (v : Nat),
    Q ρ t u → Settled t → ρ i i' → F2 ρ snap snap' → cStrat f P t i snap arg strat = true →
    Spec.runStrat f P t i snap arg strat = some (t', o, v) →
    ∃ u', Spec.runStrat (f+1) P u i' snap' arg strat = some (u', o, v) ∧ Good ρ t u t' u' ∧ Settled t'

/-- all statements at fuel `f` -/
structure All (f : Nat) : Prop where
  invoke : SInvoke f
  body : SBody f
  line : SLine f
  op : SOp f
  emit : SEmit f
  turns : STurns f
  deref : SDeref f
  acc : SAcc f
  rev : SRev f
  walk : SWalk f
  strat : SStrat f

/-! ## `Settled` under updates that do not touch what the functors hold -/

theorem any_aset_congr {α : Type} (l : List (Nat × α)) (k : Nat) (v v0 : α) (p : Nat × α → Bool)
    (h0 : aget l k = some v0) (hp : p (k, v) = p (k, v0)) : (aset l k v).any p = l.any p := by
  induction l with
  | nil => simp [aget] at h0
  | cons q tl ih =>
    obtain ⟨k', v'⟩ := q
    by_cases e : k' = k
    · subst e
      simp only [aget, if_true, Option.some.injEq] at h0
      subst h0
      simp [aset, hp]
    · simp only [aget, e, if_false] at h0
      simp [aset, e, ih h0]

theorem Settled.setSig {t : LSt} (h : Settled t) {i : Nat} {g g2 : LSig} (hx : aget t.sigs i = some g)
    (hT : ∀ o, (g2.cells.any (fun c => c.slot.holdsT o) || g2.limbo.any (fun sl => sl.holdsT o))
      = (g.cells.any (fun c => c.slot.holdsT o) || g.limbo.any (fun sl => sl.holdsT o)))
    (hK : ∀ o, (g2.cells.any (fun c => c.slot.holdsK o) || g2.limbo.any (fun sl => sl.holdsK o))
      = (g.cells.any (fun c => c.slot.holdsK o) || g.limbo.any (fun sl => sl.holdsK o))) :
    Settled (Spec.setSig t i g2) := by
  refine h.congr rfl rfl rfl (fun o => ?_) (fun o => ?_)
  · unfold Spec.heldT Spec.setSig
    simp only
    rw [any_aset_congr _ _ _ _ _ hx (hT o)]
  · unfold Spec.heldK Spec.setSig
    simp only
    rw [any_aset_congr _ _ _ _ _ hx (hK o)]

theorem Settled.setS {t : LSt} (h : Settled t) {i : Nat} {v v2 : SlotVar} (hx : aget t.S i = some v)
    (hs : v2.slot = v.slot) : Settled { t with S := aset t.S i v2 } := by
  refine h.congr rfl rfl rfl (fun o => ?_) (fun o => ?_)
  · unfold Spec.heldT
    simp only
    rw [any_aset_congr _ _ _ _ _ hx (by simp [hs])]
  · unfold Spec.heldK
    simp only
    rw [any_aset_congr _ _ _ _ _ hx (by simp [hs])]

theorem Settled.fail {t : LSt} (h : Settled t) (m : String) : Settled (t.fail m) := by
  unfold LSt.fail
  cases t.err
  · exact h.congr rfl rfl rfl (fun _ => rfl) (fun _ => rfl)
  · exact h

/-! ## `invokeFun` -/

theorem invoke_owner_eq (f : Nat) (P : Prog) (s : LSt) (fid : Nat) (a k : List Nat) (arg : Nat) :
    Spec.invokeFun (f+1) P s (.owner fid a k) arg = Spec.invokeFun (f+1) P s (.leaf fid []) arg := by
  unfold Spec.invokeFun; rfl

theorem cInvoke_owner_eq (f : Nat) (P : Prog) (s : LSt) (fid : Nat) (a k : List Nat) (arg : Nat) :
    cInvoke (f+1) P s (.owner fid a k) arg = cInvoke (f+1) P s (.leaf fid []) arg := by
  unfold cInvoke; rfl

theorem invoke_leaf (f : Nat) (ih : All f) (P : Prog) (ρ : IdRel) (t u : LSt) (fid : Nat) (ts ts' : List Nat) (arg : Nat)
    (t' : LSt) (o : Outcome) (v : Nat) (hq : Q ρ t u) (hst : Settled t)
    (hc : cInvoke (f+1) P t (.leaf fid ts) arg = true)
    (hr : Spec.invokeFun (f+1) P t (.leaf fid ts) arg = some (t', o, v)) :
    ∃ u', Spec.invokeFun (f+1+1) P u (.leaf fid ts') arg = some (u', o, v) ∧ Good ρ t u t' u' ∧ Settled t' := by
  unfold Spec.invokeFun at hr ⊢
  unfold cInvoke at hc
  simp only at hr hc ⊢
  rw [hq.depth]
  have hl := hq.log (.call t.depth fid arg)
  cases hb : aget P.bodies fid with
  | none =>
    rw [hb] at hr
    simp only [Option.some.injEq, Prod.mk.injEq] at hr
    obtain ⟨rfl, rfl, rfl⟩ := hr
    exact ⟨_, rfl, ⟨ρ, hl, Step.of_eq rfl rfl, Fr.of_eq rfl rfl⟩, hst.congr rfl rfl rfl (fun _ => rfl) (fun _ => rfl)⟩
  | some body =>
    rw [hb] at hr hc
    simp only at hr hc ⊢
    have hl1 := hl.setDepth (t.depth + 1)
    have hd1' : (u.log (.call t.depth fid arg)).depth = t.depth := hq.depth
    rw [hd1']
    have hd1 : (t.log (.call t.depth fid arg)).depth = t.depth := rfl
    rw [hd1] at hr hc
    cases hrb : Spec.runBody f P { t.log (.call t.depth fid arg) with depth := t.depth + 1 } body with
    | none => rw [hrb] at hr; simp at hr
    | some res =>
      obtain ⟨t2, o2⟩ := res
      rw [hrb] at hr
      simp only [Option.some.injEq, Prod.mk.injEq] at hr
      obtain ⟨rfl, rfl, rfl⟩ := hr
      obtain ⟨u2, e2, ⟨ρ2, hq2, hs2, hf2⟩, hst2⟩ := ih.body P ρ _ _ body t2 o2 hl1
        (hst.congr rfl rfl rfl (fun _ => rfl) (fun _ => rfl)) (fun hd => by simp at hd) hc hrb
      rw [e2]
      refine ⟨_, rfl, ⟨ρ2, ?_, hs2.congr rfl rfl rfl rfl, ⟨?_, fun j => ?_, fun j => ?_⟩⟩,
        hst2.congr rfl rfl rfl (fun _ => rfl) (fun _ => rfl)⟩
      · have := hq2.setDepth (t2.depth - 1)
        rw [hq2.depth]; exact this
      · show t2.depth - 1 = t.depth
        rw [hf2.depth]; simp
      · exact (hf2.act j)
      · exact (hf2.mks j)

theorem invoke_succ (f : Nat) (ih : All f) : SInvoke (f+1) := by
  intro P ρ t u fn fn' arg t' o v hq hst hfn hc hr
  cases hfn with
  | leaf fid _ => exact invoke_leaf f ih P ρ t u fid _ _ arg t' o v hq hst hc hr
  | owner fid _ _ =>
    rw [invoke_owner_eq] at hr ⊢
    rw [cInvoke_owner_eq] at hc
    exact invoke_leaf f ih P ρ t u fid _ _ arg t' o v hq hst hc hr
  | nestNone b =>
    unfold Spec.invokeFun at hr ⊢
    simp only [Option.some.injEq, Prod.mk.injEq] at hr
    obtain ⟨rfl, rfl, rfl⟩ := hr
    exact ⟨_, rfl, Good.refl hq, hst⟩
  | nestSome b hff =>
    unfold Spec.invokeFun at hr ⊢
    unfold cInvoke at hc
    simp only at hr hc ⊢
    cases b with
    | true =>
      simp only [if_true, Option.some.injEq, Prod.mk.injEq] at hr
      obtain ⟨rfl, rfl, rfl⟩ := hr
      exact ⟨_, rfl, Good.refl hq, hst⟩
    | false =>
      simp only [Bool.false_eq_true, if_false] at hr hc ⊢
      exact ih.invoke P ρ t u _ _ arg t' o v hq hst hff hc hr
  | fwd ho _ =>
    unfold Spec.invokeFun at hr ⊢
    unfold cInvoke at hc
    simp only at hr hc ⊢
    have hh := handleByObj_sim hq ho
    cases hx : Spec.handleByObj t _ with
    | none =>
      rw [hx] at hh hr
      generalize Spec.handleByObj u _ = y at hh
      cases hh
      simp only [Option.some.injEq, Prod.mk.injEq] at hr
      obtain ⟨rfl, rfl, rfl⟩ := hr
      exact ⟨_, rfl, Good.of0 (Sim0.fail hq _ _), hst.fail _⟩
    | some x =>
      rw [hx] at hh hr hc
      generalize Spec.handleByObj u _ = y at hh
      cases hh with
      | @some _ x' hh =>
        obtain ⟨g, hd⟩ := x
        obtain ⟨g', hd'⟩ := x'
        simp only at hr hc hh ⊢
        rw [hh.fl]
        refine ih.emit P ρ t u hd.fl hd.impl hd'.impl arg .sum t' o v hq hst hh.impl ?_ hc hr
        intro i hi
        rw [List.any_eq_true]
        exact ⟨(g, hd), List.mem_of_find?_eq_some hx, by simp [hi]⟩

end Sigc.SpecK
