import Sigc.Model
import Sigc.Lemmas.Basic
import Sigc.Lemmas.Frames
/-!
# StepConn — `disconnectCell` as a pure function of the impl table; scoped-connection operations

`disconnectCell s cid` (= `slot_rep::disconnect()` on the rep of list cell `cid`) is characterised as
`applyDisc s cid (discI s.impls cid)`: a pure transformation `discI` of the impl table together with a
flag telling whether the cell was erased (then, and only then, every connection to it is nulled).
Everything holds for arbitrary states (no well-formedness assumed).
-/
namespace Sigc.StepConn
open Sigc.Model

/-- what `nullConns cid` does to one connection -/
def nullF (cid : Nat) (p : Option Nat) : Option Nat := if p = some cid then none else p

theorem nullConns_eq (s : St) (cid : Nat) :
    nullConns s cid = { s with C := amap s.C (nullF cid), K := amap s.K (nullF cid), ownedK := amap s.ownedK (nullF cid) } := rfl

@[simp] theorem nullConns_C (s : St) (cid : Nat) : (nullConns s cid).C = amap s.C (nullF cid) := rfl
@[simp] theorem nullConns_K (s : St) (cid : Nat) : (nullConns s cid).K = amap s.K (nullF cid) := rfl

/-- the cell after `slot_rep::disconnect()`: `call_ = nullptr`, parent record detached -/
def discCell (c : Cell) : Cell := { c with slot := c.slot.disconnectRep, linked := false }

/-- pure effect of `slot_rep::disconnect()` of cell `cid` on the impl table; the flag: was the cell erased -/
def discI (impls : List (Nat × Impl)) (cid : Nat) : List (Nat × Impl) × Bool :=
  match findCellImpl impls cid with
  | none => (impls, false)
  | some i =>
    match aget impls i with
    | none => (impls, false)
    | some im =>
      match im.cells.find? (·.id = cid) with
      | none => (impls, false)
      | some c =>
        let cells1 := im.cells.map (fun c => if c.id = cid then discCell c else c)
        if c.linked then
          if im.exec = 0 then (aset impls i { im with cells := cells1.filter (·.id ≠ cid) }, true)
          else (aset impls i { im with cells := cells1, deferred := true }, false)
        else (aset impls i { im with cells := cells1 }, false)

/-- install the result of `discI` -/
def applyDisc (s : St) (cid : Nat) (r : List (Nat × Impl) × Bool) : St :=
  if r.2 then nullConns { s with impls := r.1 } cid else { s with impls := r.1 }

theorem aset_aset_same {α} (l : List (Nat × α)) (k : Nat) (v w : α) : aset (aset l k v) k w = aset l k w := by
  induction l with
  | nil => simp [aset]
  | cons p t ih =>
    obtain ⟨k', v'⟩ := p
    by_cases h : k' = k
    · simp [aset, h]
    · simp [aset, h, ih]

theorem aset_self_of_aget {α} (l : List (Nat × α)) (k : Nat) (v : α) (h : aget l k = some v) : aset l k v = l := by
  induction l with
  | nil => simp [aget] at h
  | cons p t ih =>
    obtain ⟨k', v'⟩ := p
    by_cases hk : k' = k
    · simp [aget, hk] at h
      simp [aset, hk, h]
    · simp [aget, hk] at h
      simp [aset, hk, ih h]

/-- `disconnectCell` is `discI` on the impl table plus nulling of the connections iff the cell was erased -/
theorem disconnectCell_eq (s : St) (cid : Nat) : disconnectCell s cid = applyDisc s cid (discI s.impls cid) := by
  unfold disconnectCell getCell discI applyDisc
  cases hf : findCellImpl s.impls cid with
  | none => simp
  | some i =>
    simp only []
    cases hi : aget s.impls i with
    | none => simp
    | some im =>
      simp only []
      cases hc : im.cells.find? (·.id = cid) with
      | none => simp
      | some c =>
        simp only [Option.map_some, updCell, hi, setImpl]
        cases hl : c.linked with
        | false => simp [discCell]
        | true =>
          simp only [if_true, notifyParent, aget_aset_same]
          by_cases he : im.exec = 0
          · simp [he, eraseCell, setImpl, aset_aset_same, discCell]
          · simp [he, setImpl, aset_aset_same, discCell]

/-! ### what `disconnectCell` leaves alone -/

@[simp] theorem disconnectCell_T (s : St) (cid : Nat) : (disconnectCell s cid).T = s.T := by
  rw [disconnectCell_eq]; unfold applyDisc; split <;> rfl
@[simp] theorem disconnectCell_next (s : St) (cid : Nat) : (disconnectCell s cid).next = s.next := by
  rw [disconnectCell_eq]; unfold applyDisc; split <;> rfl
@[simp] theorem disconnectCell_trace (s : St) (cid : Nat) : (disconnectCell s cid).trace = s.trace := by
  rw [disconnectCell_eq]; unfold applyDisc; split <;> rfl
@[simp] theorem disconnectCell_depth (s : St) (cid : Nat) : (disconnectCell s cid).depth = s.depth := by
  rw [disconnectCell_eq]; unfold applyDisc; split <;> rfl
@[simp] theorem disconnectCell_steps (s : St) (cid : Nat) : (disconnectCell s cid).steps = s.steps := by
  rw [disconnectCell_eq]; unfold applyDisc; split <;> rfl
@[simp] theorem disconnectCell_err (s : St) (cid : Nat) : (disconnectCell s cid).err = s.err := by
  rw [disconnectCell_eq]; unfold applyDisc; split <;> rfl

theorem disconnectCell_impls (s : St) (cid : Nat) : (disconnectCell s cid).impls = (discI s.impls cid).1 := by
  rw [disconnectCell_eq]; unfold applyDisc; split <;> rfl

theorem disconnectCell_C (s : St) (cid : Nat) :
    (disconnectCell s cid).C = if (discI s.impls cid).2 then amap s.C (nullF cid) else s.C := by
  rw [disconnectCell_eq]; unfold applyDisc; split <;> rfl

theorem disconnectCell_K (s : St) (cid : Nat) :
    (disconnectCell s cid).K = if (discI s.impls cid).2 then amap s.K (nullF cid) else s.K := by
  rw [disconnectCell_eq]; unfold applyDisc; split <;> rfl

/-- the effect on the lists depends on the lists only -/
theorem disconnectCell_impls_congr (s t : St) (cid : Nat) (h : s.impls = t.impls) :
    (disconnectCell s cid).impls = (disconnectCell t cid).impls := by
  rw [disconnectCell_impls, disconnectCell_impls, h]

/-- `disconnectCell` commutes with a change of the scoped-connection table -/
theorem disconnectCell_setK (s : St) (k : List (Nat × Option Nat)) (cid : Nat) :
    disconnectCell { s with K := k } cid =
      { disconnectCell s cid with K := if (discI s.impls cid).2 then amap k (nullF cid) else k } := by
  rw [disconnectCell_eq, disconnectCell_eq]
  unfold applyDisc
  by_cases h : (discI s.impls cid).2 = true <;> simp [h, nullConns] <;> rfl

/-! ### the shape of `discI` -/

theorem any_id_of_map_ids (l l' : List Cell) (cid : Nat) (h : l'.map (·.id) = l.map (·.id)) :
    l'.any (fun c => decide (c.id = cid)) = l.any (fun c => decide (c.id = cid)) := by
  have e : ∀ l : List Cell, l.any (fun c => decide (c.id = cid)) = (l.map (·.id)).any (fun x => decide (x = cid)) := by
    intro l; simp [List.any_map, Function.comp_def]
  rw [e, e, h]

/-- replacing the impl under key `i` by one with the same cell ids does not change where cells are found -/
theorem findCellImpl_aset_ids (impls : List (Nat × Impl)) (i : Nat) (im im1 : Impl) (cid : Nat)
    (h : aget impls i = some im) (hids : im1.cells.map (·.id) = im.cells.map (·.id)) :
    findCellImpl (aset impls i im1) cid = findCellImpl impls cid := by
  induction impls with
  | nil => simp [aget] at h
  | cons p t ih =>
    obtain ⟨k, x⟩ := p
    by_cases hk : k = i
    · subst hk
      simp [aget] at h
      subst h
      simp only [aset, if_true, findCellImpl]
      rw [any_id_of_map_ids _ _ cid hids]
    · simp [aget, hk] at h
      simp only [aset, hk, if_false, findCellImpl]
      rw [ih h]

theorem map_discCell_ids (l : List Cell) (cid : Nat) :
    (l.map (fun c => if c.id = cid then discCell c else c)).map (·.id) = l.map (·.id) := by
  induction l with
  | nil => rfl
  | cons c t ih =>
    simp only [List.map_cons, ih]
    by_cases h : c.id = cid <;> simp [h, discCell]

/-- `discI` is the identity when no list holds the cell -/
theorem discI_absent (impls : List (Nat × Impl)) (cid : Nat) (h : findCellImpl impls cid = none) :
    discI impls cid = (impls, false) := by
  simp [discI, h]

theorem disconnectCell_absent (s : St) (cid : Nat) (h : getCell s cid = none) : disconnectCell s cid = s := by
  unfold disconnectCell; rw [h]

/-- keys other than the one holding the cell keep their impl -/
theorem discI_other (impls : List (Nat × Impl)) (cid i : Nat) (hf : findCellImpl impls cid = some i) (k : Nat) (hk : k ≠ i) :
    aget (discI impls cid).1 k = aget impls k := by
  unfold discI
  simp only [hf]
  split
  · rfl
  · split
    · rfl
    · split
      · split <;> simp [aget_aset_other _ _ _ _ hk]
      · simp [aget_aset_other _ _ _ _ hk]

/-- the impl holding the cell afterwards: the cell is erased (idle list), or marked for the deferred
    sweep (emission in progress), or — if its parent record was already gone — only invalid -/
theorem discI_at (impls : List (Nat × Impl)) (cid i : Nat) (im : Impl) (c : Cell)
    (hf : findCellImpl impls cid = some i) (hi : aget impls i = some im) (hc : im.cells.find? (·.id = cid) = some c) :
    let cells1 := im.cells.map (fun c => if c.id = cid then discCell c else c)
    aget (discI impls cid).1 i = some
      (if c.linked then
        (if im.exec = 0 then { im with cells := cells1.filter (·.id ≠ cid) } else { im with cells := cells1, deferred := true })
       else { im with cells := cells1 }) ∧
    (discI impls cid).2 = (c.linked && im.exec = 0) := by
  unfold discI
  simp only [hf, hi, hc]
  by_cases hl : c.linked = true
  · by_cases he : im.exec = 0 <;> simp [hl, he]
  · simp [hl]

/-! ### scoped-connection operations -/

/-- the operations on `scoped_connection` objects that are not queries / block -/
def isKOp : Op → Bool
  | .newK0 _ | .newK _ _ | .asgKC _ _ | .mvK _ _ | .masgK _ _ | .swapK _ _ | .relK _ _ | .discK _ | .delK _
  | .connectedKq _ | .blockedKq _ => true
  | _ => false

/-- the cell a scoped-connection operation disconnects in state `s`: the one held by the object that is
    destroyed (`delK`), assigned to (`asgKC`), moved into (`masgK`, not self) or explicitly disconnected
    (`discK`); every other operation disconnects nothing -/
def kDisconnects (s : St) : Op → Option Nat
  | .delK i => match aget s.K i with | some p => p | none => none
  | .discK i => match aget s.K i with | some p => p | none => none
  | .asgKC i c => match aget s.K i, aget s.C c with | some old, some _ => old | _, _ => none
  | .masgK j i => match aget s.K j, aget s.K i with | some old, some _ => if j = i then none else old | _, _ => none
  | _ => none

def discOpt (s : St) (p : Option Nat) : St :=
  match p with
  | some cid => disconnectCell s cid
  | none => s

theorem discOpt_impls (s : St) (p : Option Nat) :
    (discOpt s p).impls = match p with | some cid => (discI s.impls cid).1 | none => s.impls := by
  cases p <;> simp [discOpt, disconnectCell_impls]

/-- every scoped-connection operation changes the lists exactly by the `disconnect()` of the cell
    `kDisconnects` names, and not at all if it names none -/
theorem kop_impls (s s' : St) (r : String) (op : Op) (hop : isKOp op = true)
    (h : stepSimple s op = some (s', r)) :
    s'.impls = match kDisconnects s op with
               | some cid => (discI s.impls cid).1
               | none => s.impls := by
  cases op <;> simp only [isKOp] at hop <;> try (exact absurd hop (by decide))
  case newK0 i =>
    simp only [stepSimple] at h
    split at h <;> simp at h <;> obtain ⟨rfl, _⟩ := h <;> rfl
  case newK i c =>
    simp only [stepSimple] at h
    split at h
    · simp at h; obtain ⟨rfl, _⟩ := h; rfl
    · split at h <;> simp at h <;> obtain ⟨rfl, _⟩ := h <;> rfl
  case asgKC i c =>
    simp only [stepSimple, kDisconnects] at h ⊢
    split at h
    · rename_i old p hk hc
      simp only [hk, hc]
      split at h
      · simp at h; obtain ⟨rfl, _⟩ := h
        cases old <;> simp [disconnectCell_impls]
      · simp at h; obtain ⟨rfl, _⟩ := h
        cases old <;> simp [disconnectCell_impls]
    · rename_i hno
      simp at h; obtain ⟨rfl, _⟩ := h
      split
      · rename_i cid heq
        split at heq
        · rename_i old p hk hc
          exact absurd hc (hno _ _ hk)
        · cases heq
      · rfl
  case mvK j i =>
    simp only [stepSimple] at h
    split at h
    · simp at h; obtain ⟨rfl, _⟩ := h; rfl
    · split at h <;> simp at h <;> obtain ⟨rfl, _⟩ := h <;> rfl
  case masgK j i =>
    simp only [stepSimple, kDisconnects] at h ⊢
    split at h
    · rename_i old p hk hc
      simp only [hk, hc]
      by_cases hji : j = i
      · simp [hji] at h ⊢; obtain ⟨rfl, _⟩ := h; rfl
      · simp only [hji, if_false] at h ⊢
        split at h
        · simp at h; obtain ⟨rfl, _⟩ := h
          cases old <;> simp [disconnectCell_impls]
        · simp at h; obtain ⟨rfl, _⟩ := h
          cases old <;> simp [disconnectCell_impls]
    · rename_i hno
      simp at h; obtain ⟨rfl, _⟩ := h
      split
      · rename_i cid heq
        split at heq
        · rename_i old p hk hc
          exact absurd hc (hno _ _ hk)
        · cases heq
      · rfl
  case swapK i j =>
    simp only [stepSimple] at h
    split at h <;> simp at h <;> obtain ⟨rfl, _⟩ := h <;> rfl
  case relK c k =>
    simp only [stepSimple] at h
    split at h <;> simp [setConn] at h <;> obtain ⟨rfl, _⟩ := h <;> rfl
  case discK i =>
    simp only [stepSimple, kDisconnects] at h ⊢
    split at h
    · rename_i hk; simp at h; obtain ⟨rfl, _⟩ := h; simp [hk]
    · rename_i p hk; simp at h; obtain ⟨rfl, _⟩ := h
      cases p <;> simp [hk, disconnectCell_impls]
  case delK i =>
    simp only [stepSimple, kDisconnects] at h ⊢
    split at h
    · rename_i hk; simp at h; obtain ⟨rfl, _⟩ := h; simp [hk]
    · rename_i p hk; simp at h; obtain ⟨rfl, _⟩ := h
      cases p <;> simp [hk, disconnectCell_impls]
  case connectedKq i =>
    simp only [stepSimple] at h
    split at h <;> simp at h <;> obtain ⟨rfl, _⟩ := h <;> rfl
  case blockedKq i =>
    simp only [stepSimple] at h
    split at h <;> simp at h <;> obtain ⟨rfl, _⟩ := h <;> rfl

/-! ### connections after a `disconnect()` -/

theorem find_map_discCell (l : List Cell) (cid : Nat) :
    (l.map (fun c => if c.id = cid then discCell c else c)).find? (fun c => decide (c.id = cid))
      = (l.find? (fun c => decide (c.id = cid))).map discCell := by
  induction l with
  | nil => rfl
  | cons c t ih =>
    by_cases h : c.id = cid
    · simp [List.find?, h, discCell]
    · simp only [List.map_cons, h, if_false, List.find?, decide_false]
      exact ih

theorem discCell_empty (c : Cell) : (discCell c).slot.empty = true := by
  unfold discCell SlotB.disconnectRep SlotB.empty
  cases h : c.slot.rep <;> simp [h]

/-- after `disconnect()` of cell `cid`, a connection that pointed at it either was nulled (the cell is
    erased) or still points at the cell, which is now invalid: in both cases it reports "not connected" -/
theorem conn_after_disconnect (s : St) (cid c : Nat) (hc : aget s.C c = some (some cid)) :
    ∃ p', aget (disconnectCell s cid).C c = some p' ∧ connConnected (disconnectCell s cid) p' = false := by
  rw [disconnectCell_C]
  cases hg : getCell s cid with
  | none =>
    have hs : disconnectCell s cid = s := disconnectCell_absent s cid hg
    have h2 : (discI s.impls cid).2 = false := by
      have := disconnectCell_eq s cid
      unfold getCell at hg
      unfold discI
      cases hf : findCellImpl s.impls cid with
      | none => rfl
      | some i =>
        simp only [hf] at hg ⊢
        cases hi : aget s.impls i with
        | none => rfl
        | some im =>
          simp only [hi] at hg ⊢
          cases hx : im.cells.find? (·.id = cid) with
          | none => rfl
          | some x => simp [hx] at hg
    simp only [h2, hs]
    exact ⟨some cid, hc, by simp [connConnected, hg]⟩
  | some pr =>
    obtain ⟨i, cell⟩ := pr
    unfold getCell at hg
    cases hf : findCellImpl s.impls cid with
    | none => simp [hf] at hg
    | some i' =>
      simp only [hf] at hg
      cases hi : aget s.impls i' with
      | none => simp [hi] at hg
      | some im =>
        simp only [hi] at hg
        cases hx : im.cells.find? (·.id = cid) with
        | none => simp [hx] at hg
        | some x =>
          simp [hx] at hg
          obtain ⟨rfl, rfl⟩ := hg
          have hat := discI_at s.impls cid i' im x hf hi hx
          simp only at hat
          obtain ⟨hat1, hat2⟩ := hat
          by_cases her : (x.linked && decide (im.exec = 0)) = true
          · -- erased: the connection is nulled
            rw [hat2]
            simp only [her, if_true]
            refine ⟨none, ?_, rfl⟩
            rw [aget_amap, hc]
            simp [nullF]
          · rw [hat2]
            simp only [her]
            refine ⟨some cid, by simpa using hc, ?_⟩
            -- not erased: the cell is still there, invalid
            have hids : ∀ (d : Bool), ((if x.linked = true then
                (if im.exec = 0 then { im with cells := (im.cells.map (fun c => if c.id = cid then discCell c else c)).filter (·.id ≠ cid) }
                 else { im with cells := im.cells.map (fun c => if c.id = cid then discCell c else c), deferred := true })
               else { im with cells := im.cells.map (fun c => if c.id = cid then discCell c else c) }) : Impl).cells
                = im.cells.map (fun c => if c.id = cid then discCell c else c) := by
              intro _
              by_cases hl : x.linked = true
              · have he : ¬ im.exec = 0 := by
                  intro he; apply her; simp [hl, he]
                simp [hl, he]
              · simp [hl]
            have hcells := hids true
            generalize hnew : (if x.linked = true then
                (if im.exec = 0 then { im with cells := (im.cells.map (fun c => if c.id = cid then discCell c else c)).filter (·.id ≠ cid) }
                 else { im with cells := im.cells.map (fun c => if c.id = cid then discCell c else c), deferred := true })
               else { im with cells := im.cells.map (fun c => if c.id = cid then discCell c else c) } : Impl) = im1 at hat1 hcells
            -- the new table is `aset s.impls i' im1`
            have htab : (discI s.impls cid).1 = aset s.impls i' im1 := by
              unfold discI
              simp only [hf, hi, hx]
              rw [← hnew]
              by_cases hl : x.linked = true
              · have he : ¬ im.exec = 0 := by
                  intro he; apply her; simp [hl, he]
                simp [hl, he]
              · simp [hl]
            simp only [connConnected, getCell]
            rw [disconnectCell_impls, htab]
            have hids1 : im1.cells.map (·.id) = im.cells.map (·.id) := by
              rw [hcells]; exact map_discCell_ids _ _
            rw [findCellImpl_aset_ids s.impls i' im im1 cid hi hids1, hf]
            simp only [aget_aset_same, hcells, find_map_discCell, hx]
            simp [discCell_empty]

/-- the connection table after `discOpt`: untouched, or (the held cell was erased) nulled for that cell -/
theorem discOpt_C (s : St) (p : Option Nat) :
    (discOpt s p).C = s.C ∨ ∃ cid, p = some cid ∧ (discI s.impls cid).2 = true ∧ (discOpt s p).C = amap s.C (nullF cid) := by
  cases p with
  | none => left; rfl
  | some cid =>
    simp only [discOpt, disconnectCell_C]
    by_cases h : (discI s.impls cid).2 = true
    · right; exact ⟨cid, rfl, h, by simp [h]⟩
    · left; simp [h]

theorem discOpt_K (s : St) (p : Option Nat) :
    (discOpt s p).K = s.K ∨ ∃ cid, p = some cid ∧ (discI s.impls cid).2 = true ∧ (discOpt s p).K = amap s.K (nullF cid) := by
  cases p with
  | none => left; rfl
  | some cid =>
    simp only [discOpt, disconnectCell_K]
    by_cases h : (discI s.impls cid).2 = true
    · right; exact ⟨cid, rfl, h, by simp [h]⟩
    · left; simp [h]

/-- a table entry after `discOpt`: the same, or nulled because it referred to the erased cell -/
theorem discOpt_C_entry (s : St) (old : Option Nat) (c : Nat) (p : Option Nat) (hc : aget s.C c = some p) :
    ∃ p', aget (discOpt s old).C c = some p' ∧ (p' = p ∨ (p' = none ∧ p = old ∧ old ≠ none)) := by
  rcases discOpt_C s old with h | ⟨cid, rfl, _, h⟩
  · exact ⟨p, by rw [h]; exact hc, Or.inl rfl⟩
  · rw [h, aget_amap, hc]
    by_cases hp : p = some cid
    · exact ⟨none, by simp [nullF, hp], Or.inr ⟨rfl, hp, by simp⟩⟩
    · exact ⟨p, by simp [nullF, hp], Or.inl rfl⟩

theorem discOpt_K_entry (s : St) (old : Option Nat) (k : Nat) (p : Option Nat) (hk : aget s.K k = some p) :
    ∃ p', aget (discOpt s old).K k = some p' ∧ (p' = p ∨ (p' = none ∧ p = old ∧ old ≠ none)) := by
  rcases discOpt_K s old with h | ⟨cid, rfl, _, h⟩
  · exact ⟨p, by rw [h]; exact hk, Or.inl rfl⟩
  · rw [h, aget_amap, hk]
    by_cases hp : p = some cid
    · exact ⟨none, by simp [nullF, hp], Or.inr ⟨rfl, hp, by simp⟩⟩
    · exact ⟨p, by simp [nullF, hp], Or.inl rfl⟩

/-! ### `execOp` on the operations that run no user code -/

/-- the operations `execOp` delegates to `stepSimple` -/
def isSimpleOp : Op → Bool
  | .callS _ _ | .emit _ _ _ _ | .throw_ => false
  | _ => true

/-- for every fuel and program, `execOp` on such an operation is the mode rule of the language followed
    by `stepSimple` -/
theorem execOp_simple (f : Nat) (P : Prog) (s : St) (op : Op) (hop : isSimpleOp op = true) :
    execOp (f+1) P s op = match modeRule P s op with
      | some r => some (s, .ok r)
      | none =>
        match stepSimple s op with
        | some (s', r) => some (s', .ok r)
        | none => some (s, .ok "badop") := by
  cases op <;> simp only [isSimpleOp] at hop <;>
    first | exact absurd hop (by decide) | (rw [execOp] <;> first | rfl | (intros; contradiction) | (intro h; cases h))

/-- the mode rule concerns only `conn`, `mkS`, `setS`, `connfn` -/
theorem modeRule_none (P : Prog) (s : St) (op : Op)
    (hop : (match op with | .conn _ _ _ _ _ | .mkS _ _ _ | .setS _ _ | .connfn _ _ _ _ => false | _ => true) = true) :
    modeRule P s op = none := by
  cases op <;> first | rfl | simp at hop

theorem isSimpleOp_of_isKOp (op : Op) (h : isKOp op = true) : isSimpleOp op = true := by
  cases op <;> simp only [isKOp] at h <;> first | exact absurd h (by decide) | rfl

/-- scoped-connection operations are total -/
theorem kop_total (s : St) (op : Op) (hop : isKOp op = true) : ∃ s' r, stepSimple s op = some (s', r) := by
  cases op <;> simp only [isKOp] at hop <;> first | exact absurd hop (by decide) | skip
  all_goals
    simp only [stepSimple]
    repeat' split
    all_goals exact ⟨_, _, rfl⟩

theorem execOp_kop (f : Nat) (P : Prog) (s s' : St) (res : Except Unit String) (op : Op) (hop : isKOp op = true)
    (h : execOp (f+1) P s op = some (s', res)) : ∃ r, stepSimple s op = some (s', r) ∧ res = .ok r := by
  rw [execOp_simple f P s op (isSimpleOp_of_isKOp op hop)] at h
  have hm : modeRule P s op = none := by
    cases op <;> simp only [isKOp] at hop <;> first | exact absurd hop (by decide) | rfl
  rw [hm] at h
  obtain ⟨s1, r1, h1⟩ := kop_total s op hop
  rw [h1] at h
  simp at h
  obtain ⟨rfl, rfl⟩ := h
  exact ⟨r1, h1, rfl⟩

/-- a concrete non-trivial state: one list (impl 1) with two linked cells 5 and 6, a plain connection 0
    and a scoped connection 0 to cell 5 -/
def exStK : St :=
  { impls := [(1, { cells := [{ id := 5, slot := { rep := some { call := true, fn := some (.leaf 2 []) } }, linked := true },
                              { id := 6, slot := { rep := some { call := true, fn := some (.leaf 3 []) } }, linked := true }] })],
    C := [(0, some 5), (1, some 6)], K := [(0, some 5), (1, some 6)], next := 7 }

end Sigc.StepConn
