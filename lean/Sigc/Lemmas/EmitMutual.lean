import Sigc.Lemmas.EmitEpi
/-!
# Emit work package — the mutual block (`invokeFun`, `runBody`, `execLine`, `emitImpl`, `emitLoop`,
`deref`, `accLoop`, `revLoop`, `walkLoop`, `runStrat`, `execOp`) preserves `Inv` and every function of it
is a `Frame` step — by induction on fuel.
-/
namespace Sigc.Emit
open Sigc.Model

def InvokeOK (f : Nat) : Prop := ∀ P s fn arg s' o v, Inv s → FunOK s.G fn →
  invokeFun f P s fn arg = some (s', o, v) → Good0 s s'
def BodyOK (f : Nat) : Prop := ∀ P s ls s' o, Inv s → runBody f P s ls = some (s', o) → Good0 s s'
def LineOK (f : Nat) : Prop := ∀ P s l s' o, Inv s → execLine f P s l = some (s', o) → Good0 s s'
def EmitOK (f : Nat) : Prop := ∀ P s fl impl arg strat s' o v, Inv s →
  (∀ i, impl = some i → (aget s.impls i).isSome = true) →
  emitImpl f P s fl impl arg strat = some (s', o, v) → Good0 s s'
def LoopOK (f : Nat) : Prop := ∀ P s i cur m arg r B0 s' o v, Inv s → InBlk s i (B0 ++ [(m, true)]) →
  cur ∈ (B0 ++ [(m, true)]).map (·.1) → emitLoop f P s i cur m arg r = some (s', o, v) → Good0 s s'
def DerefOK (f : Nat) : Prop := ∀ P s i it arg B s' o it', Inv s → InBlk s i B → it.pos ∈ B.map (·.1) →
  deref f P s i it arg = some (s', o, it') → Good0 s s' ∧ it'.pos = it.pos
def AccOK (f : Nat) : Prop := ∀ P s i it m arg mode k r B0 s' o v, Inv s → InBlk s i (B0 ++ [(m, true)]) →
  it.pos ∈ (B0 ++ [(m, true)]).map (·.1) → accLoop f P s i it m arg mode k r = some (s', o, v) → Good0 s s'
def RevOK (f : Nat) : Prop := ∀ P s i it first arg r B rest s' o v, Inv s → InBlk s i B →
  B.map (·.1) = first :: rest → it.pos ∈ B.map (·.1) →
  revLoop f P s i it first arg r = some (s', o, v) → Good0 s s'
def WalkOK (f : Nat) : Prop := ∀ P s i it first m arg ops r B0 rest s' o v, Inv s →
  InBlk s i (B0 ++ [(m, true)]) → (B0 ++ [(m, true)]).map (·.1) = first :: rest →
  it.pos ∈ (B0 ++ [(m, true)]).map (·.1) →
  walkLoop f P s i it first m arg ops r = some (s', o, v) → Good0 s s'
def StratOK (f : Nat) : Prop := ∀ P s i first m arg strat B0 rest s' o v, Inv s →
  InBlk s i (B0 ++ [(m, true)]) → (B0 ++ [(m, true)]).map (·.1) = first :: rest →
  runStrat f P s i first m arg strat = some (s', o, v) → Good0 s s'
def OpOK (f : Nat) : Prop := ∀ P s op s' res, Inv s → execOp f P s op = some (s', res) → Good0 s s'

theorem handleByObj_some {s : St} {fn : Fun} (h : FunOK s.G fn) {o : Nat} {ts : List Nat}
    (ht : funTarget fn = some (o, ts)) : ∃ g hd, handleByObj s o = some (g, hd) ∧ (g, hd) ∈ s.G := by
  obtain ⟨g, hd, hg, ho, _⟩ := h o ts ht
  unfold handleByObj
  cases hf : s.G.find? (fun p => p.2.obj = o) with
  | none =>
    rw [List.find?_eq_none] at hf
    exact absurd (by simp [ho]) (hf (g, hd) (aget_some_mem hg))
  | some p => exact ⟨p.1, p.2, rfl, List.mem_of_find?_eq_some hf⟩

theorem invoke_ok (f : Nat) (hb : BodyOK f) (hi : InvokeOK f) (he : EmitOK f) : InvokeOK (f+1) := by
  intro P s fn arg s' o v hs hfn h
  have leafCase : ∀ fid, (match aget P.bodies fid with
      | none => some (s.log (.call s.depth fid arg), Outcome.ok, resultOf fid arg)
      | some body =>
        match runBody f P { (s.log (.call s.depth fid arg)) with depth := (s.log (.call s.depth fid arg)).depth + 1 } body with
        | none => none
        | some (s, o) => some ({ s with depth := s.depth - 1 }, o, resultOf fid arg)) = some (s', o, v) → Good0 s s' := by
    intro fid h
    split at h
    · simp at h; obtain ⟨h1, _, _⟩ := h; subst h1
      exact Good.of_core hs rfl rfl rfl rfl (Nat.le_refl _)
    · split at h
      · contradiction
      · rename_i s2 o2 hr
        simp at h; obtain ⟨h1, _, _⟩ := h; subst h1
        have g1 : Good0 s { (s.log (.call s.depth fid arg)) with depth := (s.log (.call s.depth fid arg)).depth + 1 } :=
          Good.of_core hs rfl rfl rfl rfl (Nat.le_refl _)
        have g2 := hb P _ _ _ _ g1.inv hr
        exact (g1.trans g2).congr rfl rfl rfl rfl (Nat.le_refl _)
  cases fn with
  | leaf fid ts => rw [invokeFun.eq_def] at h; exact leafCase fid h
  | owner fid a b => rw [invokeFun.eq_def] at h; exact leafCase fid h
  | nest blocked inner =>
    rw [invokeFun.eq_def] at h
    simp only at h
    cases inner with
    | none => simp at h; obtain ⟨h1, _, _⟩ := h; subst h1; exact Good.refl hs
    | some g =>
      simp only at h
      split at h
      · simp at h; obtain ⟨h1, _, _⟩ := h; subst h1; exact Good.refl hs
      · exact hi P s g arg s' o v hs (fun o ts ht => hfn o ts ht) h
  | fwd ob ts =>
    rw [invokeFun.eq_def] at h
    simp only at h
    obtain ⟨g, hd, hh, hmem⟩ := handleByObj_some hfn (o := ob) (ts := ts) rfl
    rw [hh] at h
    simp only at h
    exact he P s hd.fl hd.impl arg .sum s' o v hs (fun i hi => hs.himpl (g, hd) hmem i hi) h

theorem body_ok (f : Nat) (hl : LineOK f) (hb : BodyOK f) : BodyOK (f+1) := by
  intro P s ls s' o hs h
  cases ls with
  | nil => rw [runBody] at h; simp at h; obtain ⟨h1, _⟩ := h; subst h1; exact Good.refl hs
  | cons l ls =>
    rw [runBody] at h
    split at h
    · contradiction
    · rename_i s1 h1
      simp at h; obtain ⟨e1, _⟩ := h; subst e1
      exact hl P s l _ _ hs h1
    · rename_i s1 h1
      have g1 := hl P s l _ _ hs h1
      exact g1.trans (hb P s1 ls s' o g1.inv h)

theorem line_ok (f : Nat) (ho : OpOK f) : LineOK (f+1) := by
  intro P s l s' o hs h
  rw [execLine] at h
  have g0 : Good0 s { s with steps := s.steps + 1 } := Good.of_core hs rfl rfl rfl rfl (Nat.le_refl _)
  split at h
  · contradiction
  · rename_i s1 _ h1
    simp at h; obtain ⟨e1, _⟩ := h; subst e1
    have g1 := ho P _ _ _ _ g0.inv h1
    have g2 : Good0 s (s1.log (.res s1.depth l.text "exc")) := (g0.trans g1).congr rfl rfl rfl rfl (Nat.le_refl _)
    exact g2.andThen (fun h => good_collect h)
  · rename_i s1 r h1
    simp at h; obtain ⟨e1, _⟩ := h; subst e1
    have g1 := ho P _ _ _ _ g0.inv h1
    have g2 : Good0 s (s1.log (.res s1.depth l.text r)) := (g0.trans g1).congr rfl rfl rfl rfl (Nat.le_refl _)
    exact g2.andThen (fun h => good_collect h)


/-- the invocation of one cell (`if (!empty() && !blocked()) call`) -/
theorem cell_step_ok (f : Nat) (hi : InvokeOK f) {P : Prog} {s : St} (hs : Inv s) {i : Nat} {im : Impl}
    (him : aget s.impls i = some im) {c : Cell} (hc : c ∈ im.cells) (arg r : Nat) {s1 : St} {o : Outcome} {v : Nat}
    (h : (match c.slot.rep with
          | some { call := true, fn := some fn } =>
            if c.slot.blocked then some (s, Outcome.ok, r) else invokeFun f P s fn arg
          | _ => some (s, Outcome.ok, r)) = some (s1, o, v)) : Good0 s s1 := by
  split at h
  · rename_i fn hrep
    split at h
    · simp at h; obtain ⟨h1, _, _⟩ := h; subst h1; exact Good.refl hs
    · exact hi P s fn arg s1 o v hs (hs.fwdC i im him c hc _ fn hrep rfl) h
  · simp at h; obtain ⟨h1, _, _⟩ := h; subst h1; exact Good.refl hs

theorem loop_ok (f : Nat) (hi : InvokeOK f) (hl : LoopOK f) : LoopOK (f+1) := by
  intro P s i cur m arg r B0 s' o v hs hb hcur h
  rw [emitLoop] at h
  split at h
  · simp at h; obtain ⟨h1, _, _⟩ := h; subst h1; exact Good.refl hs
  · rename_i hcm
    obtain ⟨im, c, him, hfind⟩ := hb.find hcur
    rw [him] at h
    simp only [hfind] at h
    split at h
    · contradiction
    · rename_i s1 v1 hstep
      simp at h; obtain ⟨h1, _, _⟩ := h; subst h1
      exact cell_step_ok f hi hs him (find_mem hfind).1 arg r hstep
    · rename_i s1 v1 hstep
      have g1 := cell_step_ok f hi hs him (find_mem hfind).1 arg r hstep
      have hb1 := hb.frame g1.frame
      obtain ⟨im2, nxt, him2, hsucc, hnxt⟩ := hb1.succ g1.inv hcur hcm
      rw [him2] at h
      simp only [hsucc] at h
      exact g1.trans (hl P s1 i nxt m arg v1 B0 s' o v g1.inv hb1 hnxt h)


theorem deref_ok (f : Nat) (hi : InvokeOK f) : DerefOK (f+1) := by
  intro P s i it arg B s' o it' hs hb hpos h
  rw [deref] at h
  obtain ⟨im, c, him, hfind⟩ := hb.find hpos
  rw [him] at h
  simp only [hfind] at h
  split at h
  · rename_i fn hrep
    split at h
    · simp at h; obtain ⟨h1, _, h3⟩ := h; subst h1; subst h3; exact ⟨Good.refl hs, rfl⟩
    · split at h
      · contradiction
      · rename_i s1 v1 hinv
        simp at h; obtain ⟨h1, _, h3⟩ := h; subst h1; subst h3
        exact ⟨hi P s fn arg _ _ _ hs (hs.fwdC i im him c (find_mem hfind).1 _ fn hrep rfl) hinv, rfl⟩
      · rename_i s1 v1 hinv
        simp at h; obtain ⟨h1, _, h3⟩ := h; subst h1; subst h3
        exact ⟨hi P s fn arg _ _ _ hs (hs.fwdC i im him c (find_mem hfind).1 _ fn hrep rfl) hinv, rfl⟩
  · simp at h; obtain ⟨h1, _, h3⟩ := h; subst h1; subst h3; exact ⟨Good.refl hs, rfl⟩

/-- `++it` inside the block -/
theorem advance_ok (f : Nat) (ha : AccOK f) {P : Prog} {s : St} (hs : Inv s) {i m : Nat} {B0 : List (Nat × Bool)}
    (hb : InBlk s i (B0 ++ [(m, true)])) {it : IterBuf} (hpos : it.pos ∈ (B0 ++ [(m, true)]).map (·.1))
    (hpm : it.pos ≠ m) (arg mode k r : Nat) {s' : St} {o : Outcome} {v : Nat}
    (h : (match aget s.impls i with
      | none => some (s.fail "acc: impl destroyed", Outcome.ok, r)
      | some im =>
        match succId im.cells it.pos with
        | none => some (s.fail "acc: iterator invalidated", Outcome.ok, r)
        | some nxt => accLoop f P s i { it with pos := nxt, invoked := false } m arg mode k r) = some (s', o, v)) :
    Good0 s s' := by
  obtain ⟨im, nxt, him, hsucc, hnxt⟩ := hb.succ hs hpos hpm
  rw [him] at h
  simp only [hsucc] at h
  exact ha P s i _ m arg mode k r B0 s' o v hs hb hnxt h

theorem acc_ok (f : Nat) (hd : DerefOK f) (ha : AccOK f) : AccOK (f+1) := by
  intro P s i it m arg mode k r B0 s' o v hs hb hpos h
  rw [accLoop] at h
  split at h
  · simp at h; obtain ⟨h1, _, _⟩ := h; subst h1; exact Good.refl hs
  · rename_i hpm
    simp only at h
    split at h
    · exact advance_ok f ha hs hb hpos hpm arg mode k _ h
    · split at h
      · contradiction
      · rename_i s1 it1 hder
        simp at h; obtain ⟨h1, _, _⟩ := h; subst h1
        exact (hd P s i it arg _ _ _ _ hs hb hpos hder).1
      · rename_i s1 it1 hder
        obtain ⟨g1, hp1⟩ := hd P s i it arg _ _ _ _ hs hb hpos hder
        have hb1 := hb.frame g1.frame
        split at h
        · simp at h; obtain ⟨h1, _, _⟩ := h; subst h1; exact g1
        · have hposX : (if mode = 4 then it else it1).pos = it.pos := by split <;> simp [hp1]
          split at h
          · split at h
            · contradiction
            · rename_i s2 it2 hder2
              simp at h; obtain ⟨h1, _, _⟩ := h; subst h1
              exact g1.trans (hd P s1 i _ arg _ _ _ _ g1.inv hb1 (by rw [hposX]; exact hpos) hder2).1
            · rename_i s2 it2 hder2
              obtain ⟨g2, hp2⟩ := hd P s1 i _ arg _ _ _ _ g1.inv hb1 (by rw [hposX]; exact hpos) hder2
              have hb2 := hb1.frame g2.frame
              refine (g1.trans g2).trans (advance_ok f ha g2.inv hb2 (it := it2) ?_ ?_ arg mode k _ h)
              · rw [hp2, hposX]; exact hpos
              · rw [hp2, hposX]; exact hpm
          · refine g1.trans (advance_ok f ha g1.inv hb1 (it := if mode = 4 then it else it1) ?_ ?_ arg mode k _ h)
            · rw [hposX]; exact hpos
            · rw [hposX]; exact hpm


theorem rev_ok (f : Nat) (hd : DerefOK f) (hr : RevOK f) : RevOK (f+1) := by
  intro P s i it first arg r B rest s' o v hs hb hB hpos h
  rw [revLoop] at h
  split at h
  · simp at h; obtain ⟨h1, _, _⟩ := h; subst h1; exact Good.refl hs
  · rename_i hpf
    obtain ⟨im, prv, him, hpred, hprv⟩ := hb.pred hs hB hpos hpf
    rw [him] at h
    simp only [hpred] at h
    split at h
    · contradiction
    · rename_i s1 it1 hder
      simp at h; obtain ⟨h1, _, _⟩ := h; subst h1
      exact (hd P s i _ arg _ _ _ _ hs hb hprv hder).1
    · rename_i s1 it1 hder
      obtain ⟨g1, hp1⟩ := hd P s i _ arg _ _ _ _ hs hb hprv hder
      have hb1 := hb.frame g1.frame
      exact g1.trans (hr P s1 i it1 first arg _ B rest s' o v g1.inv hb1 hB (by rw [hp1]; exact hprv) h)

theorem walk_ok (f : Nat) (hd : DerefOK f) (hw : WalkOK f) : WalkOK (f+1) := by
  intro P s i it first m arg ops r B0 rest s' o v hs hb hB hpos h
  cases ops with
  | nil => rw [walkLoop] at h; simp at h; obtain ⟨h1, _, _⟩ := h; subst h1; exact Good.refl hs
  | cons c cs =>
    rw [walkLoop] at h
    split at h
    · -- 'd'
      split at h
      · exact hw P s i it first m arg cs r B0 rest s' o v hs hb hB hpos h
      · split at h
        · contradiction
        · rename_i s1 it1 hder
          simp at h; obtain ⟨h1, _, _⟩ := h; subst h1
          exact (hd P s i it arg _ _ _ _ hs hb hpos hder).1
        · rename_i s1 it1 hder
          obtain ⟨g1, hp1⟩ := hd P s i it arg _ _ _ _ hs hb hpos hder
          exact g1.trans (hw P s1 i it1 first m arg cs _ B0 rest s' o v g1.inv (hb.frame g1.frame) hB
            (by rw [hp1]; exact hpos) h)
    · split at h
      · -- 'c'
        split at h
        · exact hw P s i it first m arg cs r B0 rest s' o v hs hb hB hpos h
        · split at h
          · contradiction
          · rename_i s1 it1 hder
            simp at h; obtain ⟨h1, _, _⟩ := h; subst h1
            exact (hd P s i it arg _ _ _ _ hs hb hpos hder).1
          · rename_i s1 it1 hder
            obtain ⟨g1, hp1⟩ := hd P s i it arg _ _ _ _ hs hb hpos hder
            exact g1.trans (hw P s1 i it first m arg cs _ B0 rest s' o v g1.inv (hb.frame g1.frame) hB hpos h)
      · split at h
        · -- 'i'
          split at h
          · exact hw P s i it first m arg cs r B0 rest s' o v hs hb hB hpos h
          · rename_i hpm
            obtain ⟨im, nxt, him, hsucc, hnxt⟩ := hb.succ hs hpos hpm
            rw [him] at h
            simp only [hsucc] at h
            exact hw P s i _ first m arg cs r B0 rest s' o v hs hb hB hnxt h
        · split at h
          · -- 'x'
            split at h
            · exact hw P s i it first m arg cs r B0 rest s' o v hs hb hB hpos h
            · rename_i hpf
              obtain ⟨im, prv, him, hpred, hprv⟩ := hb.pred hs hB hpos hpf
              rw [him] at h
              simp only [hpred] at h
              exact hw P s i _ first m arg cs r B0 rest s' o v hs hb hB hprv h
          · exact hw P s i it first m arg cs r B0 rest s' o v hs hb hB hpos h

theorem strat_ok (f : Nat) (ha : AccOK f) (hr : RevOK f) (hw : WalkOK f) : StratOK (f+1) := by
  intro P s i first m arg strat B0 rest s' o v hs hb hB h
  have hfirst : first ∈ (B0 ++ [(m, true)]).map (·.1) := by rw [hB]; simp
  have hm : m ∈ (B0 ++ [(m, true)]).map (·.1) := by simp
  cases strat <;> rw [runStrat] at h
  case sum => exact ha P s i _ m arg 0 0 0 B0 s' o v hs hb hfirst h
  case stop k => exact ha P s i _ m arg 1 k 0 B0 s' o v hs hb hfirst h
  case twice => exact ha P s i _ m arg 2 0 0 B0 s' o v hs hb hfirst h
  case never => exact ha P s i _ m arg 3 0 0 B0 s' o v hs hb hfirst h
  case postinc => exact ha P s i _ m arg 4 0 0 B0 s' o v hs hb hfirst h
  case rev => exact hr P s i _ first arg 0 _ rest s' o v hs hb hB hm h
  case walk ops => exact hw P s i _ first m arg ops 0 B0 rest s' o v hs hb hB hfirst h


theorem InvX.setS {off} {s : St} (h : InvX off s) (i : Nat) (v : SlotVar) (hv : SlotOK s.G v.slot) :
    InvX off { s with S := aset s.S i v } := by
  refine ⟨h.keys, h.lt, h.ok, h.disj, h.himpl, ?_, h.fwdC, h.noerr, h.own⟩
  intro j w hw
  simp only [aget_aset] at hw
  split at hw
  · cases hw; exact hv
  · exact h.fwdS j w hw

/-- a direct call of slot variable `i`: `incall` is raised around a `Frame` step -/
theorem Frame.bracketS {s s1 : St} {i : Nat} {v v2 : SlotVar} (hv : aget s.S i = some v)
    (h01 : Frame { s with S := aset s.S i { v with incall := v.incall + 1 } } s1)
    (hv2 : aget s1.S i = some v2) :
    Frame s { s1 with S := aset s1.S i { v2 with incall := v2.incall - 1 } } := by
  have hin : v2.incall = v.incall + 1 := by
    have := h01.vars i
    rw [incallOf_of_aget hv2, incallOf_aset] at this
    simpa using this
  refine ⟨h01.next, h01.exec, h01.keep, ?_⟩
  intro j
  rw [incallOf_aset]
  by_cases e : j = i
  · subst e; simp only [if_true]; rw [incallOf_of_aget hv]; omega
  · simp only [e, if_false]
    have := h01.vars j
    rw [incallOf_aset] at this
    simpa [e] using this

theorem op_ok (f : Nat) (hi : InvokeOK f) (he : EmitOK f) : OpOK (f+1) := by
  intro P s op s' res hs h
  rw [execOp.eq_def] at h
  simp only at h
  split at h
  · -- callS
    rename_i i arg
    split at h
    · simp at h; obtain ⟨h1, _⟩ := h; subst h1; exact Good.refl hs
    · rename_i v hv
      split at h
      · simp at h; obtain ⟨h1, _⟩ := h; subst h1; exact Good.refl hs
      · split at h
        · simp at h; obtain ⟨h1, _⟩ := h; subst h1; exact Good.refl hs
        · split at h
          · rename_i fn hrep
            split at h
            · simp at h; obtain ⟨h1, _⟩ := h; subst h1; exact Good.refl hs
            · have hsl := hs.fwdS i v hv
              have h0 : Inv { s with S := aset s.S i { v with incall := v.incall + 1 } } :=
                hs.setS i _ hsl
              split at h
              · contradiction
              · rename_i s1 o r hinv
                have g1 := hi P _ fn arg s1 o r h0 (hsl _ fn hrep rfl) hinv
                have hpos : incallOf s1 i = v.incall + 1 := by
                  rw [g1.frame.vars i, incallOf_aset]; simp
                cases hv2 : aget s1.S i with
                | none => rw [incallOf_of_none hv2] at hpos; omega
                | some v2 =>
                  rw [hv2] at h
                  simp only at h
                  have hfin : Good0 s { s1 with S := aset s1.S i { v2 with incall := v2.incall - 1 } } :=
                    ⟨g1.inv.setS i _ (g1.inv.fwdS i v2 hv2), Frame.bracketS hv g1.frame hv2⟩
                  split at h
                  · simp at h; obtain ⟨h1, _⟩ := h; subst h1; exact hfin
                  · simp at h; obtain ⟨h1, _⟩ := h; subst h1; exact hfin
          · simp at h; obtain ⟨h1, _⟩ := h; subst h1; exact Good.refl hs
  · -- emit
    rename_i g arg strat try_
    split at h
    · simp at h; obtain ⟨h1, _⟩ := h; subst h1; exact Good.refl hs
    · rename_i hd hg
      split at h
      · simp at h; obtain ⟨h1, _⟩ := h; subst h1; exact Good.refl hs
      · split at h
        · simp at h; obtain ⟨h1, _⟩ := h; subst h1; exact Good.refl hs
        · have hh : ∀ k, hd.impl = some k → (aget s.impls k).isSome = true :=
            fun k hk => hs.himpl (g, hd) (aget_some_mem hg) k hk
          split at h
          · contradiction
          · rename_i s1 v1 hem
            have g1 := he P s hd.fl hd.impl arg strat s1 _ v1 hs hh hem
            split at h
            · simp at h; obtain ⟨h1, _⟩ := h; subst h1; exact g1
            · simp at h; obtain ⟨h1, _⟩ := h; subst h1; exact g1
          · rename_i s1 v1 hem
            have g1 := he P s hd.fl hd.impl arg strat s1 _ v1 hs hh hem
            simp at h; obtain ⟨h1, _⟩ := h; subst h1; exact g1
  · simp at h; obtain ⟨h1, _⟩ := h; subst h1; exact Good.refl hs
  · split at h
    · -- the mode rule refuses the operation: the state is unchanged
      simp at h; obtain ⟨h1, _⟩ := h; subst h1; exact Good.refl hs
    · split at h
      · rename_i s1 r hst
        simp at h; obtain ⟨h1, _⟩ := h; subst h1
        exact stepSimple_good hs hst
      · simp at h; obtain ⟨h1, _⟩ := h; subst h1; exact Good.refl hs


theorem mem_skel {im : Impl} {m : Nat} {b : Bool} (h : (m, b) ∈ skel im) :
    ∃ c ∈ im.cells, c.id = m ∧ c.slot.rep.isNone = b := by
  simp only [skel, List.mem_map] at h
  obtain ⟨c, hc, he⟩ := h
  simp at he
  exact ⟨c, hc, he.1, he.2⟩

theorem emit_ok (f : Nat) (hst : StratOK f) (hl : LoopOK f) : EmitOK (f+1) := by
  intro P s fl impl arg strat s' o v hs himpl h
  cases impl with
  | none => rw [emitImpl] at h; simp at h; obtain ⟨h1, _, _⟩ := h; subst h1; exact Good.refl hs
  | some i =>
    rw [emitImpl] at h
    cases hi : aget s.impls i with
    | none => have := himpl i rfl; rw [hi] at this; contradiction
    | some im =>
      rw [hi] at h
      simp only at h
      split at h
      · simp at h; obtain ⟨h1, _, _⟩ := h; subst h1; exact Good.refl hs
      · rw [show s.fresh = (s.next, { s with next := s.next + 1 }) from rfl] at h
        simp only at h
        have hok := hs.ok i im hi
        generalize hs1 : setImpl { s with next := s.next + 1 } i
          { im with exec := im.exec + 1, holders := im.holders + 1,
                    cells := im.cells ++ [{ id := s.next, slot := {}, linked := false }] } = s1 at h
        have hfresh : ∀ j jm, aget s.impls j = some jm → s.next ∉ cids jm := by
          intro j jm hj hk; have := (hs.lt j jm hj).2 _ hk; omega
        have hi1 : aget s1.impls i = some { im with exec := im.exec + 1, holders := im.holders + 1, cells := im.cells ++ [{ id := s.next, slot := {}, linked := false }] } := by
          subst hs1; simp [aget_setImpl]
        have h1 : Inv s1 := by
          subst hs1
          have h0 : Inv { s with next := s.next + 1 } := hs.congr rfl rfl rfl rfl (by simp)
          apply h0.setImpl (i := i) (im := im) hi
          · refine ⟨?_, by have := hok.eh; simp at this ⊢; omega, ?_, fun e => by simp at e, ?_, ?_⟩
            · simp only [cids, List.map_append, List.map_cons, List.map_nil]
              rw [List.nodup_append]
              refine ⟨hok.nodup, by simp, ?_⟩
              intro a ha b hb; simp at hb; subst hb; intro e; subst e; exact hfresh i im hi ha
            · have := hok.mkr
              simp only [markers, List.countP_append] at this ⊢
              simp; omega
            · intro c hc hl
              simp at hc
              rcases hc with hc | hc
              · exact hok.l c hc hl
              · subst hc; rfl
            · intro hd c hc hn
              simp at hc
              rcases hc with hc | hc
              · exact hok.d hd c hc hn
              · subst hc; simp at hn
          · intro k hk
            simp only [cids, List.map_append, List.map_cons, List.map_nil, List.mem_append, List.mem_singleton] at hk
            rcases hk with hk | hk
            · left; exact hk
            · right; subst hk; exact ⟨by simp, hfresh⟩
          · intro c hc
            simp at hc
            rcases hc with hc | hc
            · exact hs.fwdC i im hi c hc
            · subst hc; exact SlotOK.none _
        have hb1 : InBlk s1 i (skel im ++ [(s.next, true)]) := by
          refine ⟨_, hi1, by simp, [], [], ?_⟩
          simp [skel]
        have h01o : ∀ j, j ≠ i → aget s1.impls j = aget s.impls j := by
          intro j hj; subst hs1; simp [aget_setImpl, hj]
        have h01v : ∀ j, incallOf s1 j = incallOf s j := by intro j; subst hs1; rfl
        have h01n : s.next ≤ s1.next := by subst hs1; simp [setImpl]
        split at h
        · contradiction
        · rename_i s2 o2 v2 hr
          have g12 : Good0 s1 s2 := by
            cases hcells : im.cells with
            | nil =>
              have hB : (skel im ++ [(s.next, true)]).map (·.1) = s.next :: [] := by simp [skel, hcells]
              simp only [hcells] at hr
              split at hr
              · exact hst P s1 i s.next s.next arg (strat.forFlavour fl) (skel im) _ s2 o2 v2 h1 hb1 hB hr
              · exact hl P s1 i s.next s.next arg 0 (skel im) s2 o2 v2 h1 hb1 (by rw [hB]; simp) hr
            | cons c t =>
              have hB : (skel im ++ [(s.next, true)]).map (·.1) = c.id :: (t.map (·.id) ++ [s.next]) := by
                simp [skel, hcells, List.map_map, Function.comp_def]
              simp only [hcells] at hr
              split at hr
              · exact hst P s1 i c.id s.next arg (strat.forFlavour fl) (skel im) _ s2 o2 v2 h1 hb1 hB hr
              · exact hl P s1 i c.id s.next arg 0 (skel im) s2 o2 v2 h1 hb1 (by rw [hB]; simp) hr
          obtain ⟨im2, hi2, hx2, pre, post, hsk2⟩ := hb1.frame g12.frame
          have hex2 : im2.exec = im.exec + 1 := by
            have := g12.frame.exec i
            rw [execOf_pos hi2, execOf_pos hi1] at this; exact this
          have hmem : (s.next, true) ∈ skel im2 := by rw [hsk2]; simp
          obtain ⟨cm, hcm, hcmid, hcmn⟩ := mem_skel hmem
          have hany : im2.cells.any (·.id = s.next) = true :=
            any_of_mem_ids (List.mem_map.mpr ⟨cm, hcm, hcmid⟩)
          rw [hi2] at h
          simp only at h
          rw [if_pos hany] at h
          have hepi : some (collect (gcImpl (epilogue s2 i s.next) i), o2, v2) = some (s', o, v) := h
          simp at hepi
          obtain ⟨e1, _, _⟩ := hepi
          subst e1
          obtain ⟨ca, cb, cc, cd, ce⟩ := epilogue_core (m := s.next) hi2
          have hok2 := g12.inv.ok i im2 hi2
          have hepiok := epiImpl_ok (m := s.next) hok2 (by omega) ⟨cm, hcm, hcmid, hcmn⟩
          have h6 : Inv (epilogue s2 i s.next) := by
            have : Inv (setImpl s2 i (epiImpl im2 s.next)) := by
              apply g12.inv.setImpl hi2 hepiok
              · intro k hk
                obtain ⟨c, hc, rfl⟩ := List.mem_map.mp hk
                exact Or.inl (List.mem_map.mpr ⟨c, epiImpl_cells_sub im2 _ c hc, rfl⟩)
              · intro c hc; exact g12.inv.fwdC i im2 hi2 c (epiImpl_cells_sub im2 _ c hc)
            exact this.congr ca cb cc cd (by rw [ce]; exact Nat.le_refl _) (epilogue_ownedG _ _ _)
          have hfr : Frame s (epilogue s2 i s.next) := by
            refine Frame.bracket hi h01n h01o h01v g12.frame (by rw [ce]; exact Nat.le_refl _) ?_ ?_ ?_ ?_
            · intro j hj; rw [ca, aget_aset_other _ _ _ _ hj]
            · intro j; simp [incallOf, cc]
            · simp only [execOf, ca, aget_aset_same]
              rw [epiImpl_exec]; omega
            · intro hpos
              refine ⟨epiImpl im2 s.next, by rw [ca, aget_aset_same], pre, post, ?_⟩
              exact epiImpl_skel hok2.nodup (by omega) hsk2
          have g6 : Good0 s (epilogue s2 i s.next) := ⟨h6, hfr⟩
          exact (g6.andThen (fun h => Good.gcImpl h i)).andThen (fun h => good_collect h)


/-- all functions of the mutual block, at a given fuel -/
structure AllOK (f : Nat) : Prop where
  invoke : InvokeOK f
  body : BodyOK f
  line : LineOK f
  emit : EmitOK f
  loop : LoopOK f
  deref : DerefOK f
  acc : AccOK f
  rev : RevOK f
  walk : WalkOK f
  strat : StratOK f
  op : OpOK f

theorem all_ok : ∀ f, AllOK f := by
  intro f
  induction f with
  | zero =>
    refine ⟨?_, ?_, ?_, ?_, ?_, ?_, ?_, ?_, ?_, ?_, ?_⟩
    · intro P s fn arg s' o v _ _ h; simp [invokeFun] at h
    · intro P s ls s' o _ h; simp [runBody] at h
    · intro P s l s' o _ h; simp [execLine] at h
    · intro P s fl impl arg strat s' o v _ _ h; simp [emitImpl] at h
    · intro P s i cur m arg r B0 s' o v _ _ _ h; simp [emitLoop] at h
    · intro P s i it arg B s' o it' _ _ _ h; simp [deref] at h
    · intro P s i it m arg mode k r B0 s' o v _ _ _ h; simp [accLoop] at h
    · intro P s i it first arg r B rest s' o v _ _ _ _ h; simp [revLoop] at h
    · intro P s i it first m arg ops r B0 rest s' o v _ _ _ _ h; simp [walkLoop] at h
    · intro P s i first m arg strat B0 rest s' o v _ _ _ h; simp [runStrat] at h
    · intro P s op s' res _ h; simp [execOp] at h
  | succ f ih =>
    exact ⟨invoke_ok f ih.body ih.invoke ih.emit, body_ok f ih.line ih.body, line_ok f ih.op,
           emit_ok f ih.strat ih.loop, loop_ok f ih.invoke ih.loop, deref_ok f ih.invoke,
           acc_ok f ih.deref ih.acc, rev_ok f ih.deref ih.rev, walk_ok f ih.deref ih.walk,
           strat_ok f ih.acc ih.rev ih.walk, op_ok f ih.invoke ih.emit⟩

/-! ## top level -/

theorem inv_init : Inv ({} : St) := by
  refine ⟨by simp, ?_, ?_, ?_, ?_, ?_, ?_, rfl, fun p hp => by simp at hp⟩
  · intro i im h; simp [aget] at h
  · intro i im h; simp [aget] at h
  · intro i j im jm h; simp [aget] at h
  · intro p hp; simp at hp
  · intro i v h; simp [aget] at h
  · intro i im h; simp [aget] at h

theorem runTop_good (f : Nat) (P : Prog) (s : St) (ls : List Line) (s' : St) (hs : Inv s)
    (h : runTop f P s ls = some s') : Good0 s s' := by
  induction ls generalizing s with
  | nil => simp [runTop] at h; subst h; exact Good.refl hs
  | cons l ls ih =>
    simp only [runTop] at h
    split at h
    · contradiction
    · rename_i s1 o1 h1
      have g1 := (all_ok f).line P s l s1 o1 hs h1
      exact g1.trans (ih s1 g1.inv h)

end Sigc.Emit
