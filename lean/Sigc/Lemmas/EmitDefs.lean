import Sigc.Model
import Sigc.Run
import Sigc.Lemmas.Basic
/-!
# Emit work package — definitions: the invariant `Inv` over all of `St`, the relation `Frame`
(what any code may do to the impls that are currently emitting), and basic list / association-list
lemmas.  No property statements here.
-/
namespace Sigc.Emit
open Sigc.Model

/-! ## views of an impl -/

/-- the cell ids of an impl, in list order -/
def cids (im : Impl) : List Nat := im.cells.map (·.id)

/-- the skeleton of an impl: cell id and "is an end marker" (`rep = none`), in list order -/
def skel (im : Impl) : List (Nat × Bool) := im.cells.map (fun c => (c.id, c.slot.rep.isNone))

/-- number of end markers in the list -/
def markers (im : Impl) : Nat := im.cells.countP (fun c => c.slot.rep.isNone)

def execOf (s : St) (i : Nat) : Nat :=
  match aget s.impls i with
  | some im => im.exec
  | none => 0

def incallOf (s : St) (i : Nat) : Nat :=
  match aget s.S i with
  | some v => v.incall
  | none => 0

theorem cids_eq_skel (im : Impl) : cids im = (skel im).map (·.1) := by
  simp [cids, skel, List.map_map, Function.comp_def]

/-! ## forwarders -/

/-- the signal object a functor finally forwards to (a functor value is a chain of `nest`s) -/
def funTarget : Fun → Option (Nat × List Nat)
  | .leaf _ _ => none
  | .fwd o ts => some (o, ts)
  | .nest _ none => none
  | .nest _ (some f) => funTarget f
  | .owner _ _ _ => none

/-- a forwarder refers to a live signal object which is either pinned (`everFwd`, non-trackable) or
    tracked by the functor (trackable flavours) -/
def FunOK (G : List (Nat × Handle)) (fn : Fun) : Prop :=
  ∀ o ts, funTarget fn = some (o, ts) →
    ∃ g h, aget G g = some h ∧ h.obj = o ∧
      (if h.fl.isTrackable then h.trk ∈ ts else h.everFwd = true)

def SlotOK (G : List (Nat × Handle)) (sl : SlotB) : Prop :=
  ∀ r fn, sl.rep = some r → r.fn = some fn → FunOK G fn

/-- a signal object that is owned by a functor family (`ownG:`) is never pinned: if a forwarder was ever
    made of it, it is of a trackable flavour (so the forwarders track it and die with it) -/
def OwnOK (O : List (Nat × Nat)) (G : List (Nat × Handle)) : Prop :=
  ∀ p ∈ O, ∀ h, aget G p.2 = some h → h.everFwd = true → h.fl.isTrackable = true

/-! ## the invariant -/

/-- per-impl well-formedness; `k` is the number of `clear()`s in progress on it (0 at every
    operation boundary, 1 inside `clearImpl`) -/
structure ImplOK (k : Nat) (im : Impl) : Prop where
  nodup : (cids im).Nodup
  eh : im.exec = im.holders + k
  mkr : markers im + k = im.exec
  q1 : im.exec = 0 → im.deferred = false
  l : ∀ c ∈ im.cells, c.linked = false → c.slot.empty = true
  d : im.deferred = false → ∀ c ∈ im.cells, c.slot.rep.isNone = false → c.linked = true

structure InvX (off : Nat → Nat) (s : St) : Prop where
  keys : (s.impls.map (·.1)).Nodup
  lt : ∀ i im, aget s.impls i = some im → i < s.next ∧ ∀ k ∈ cids im, k < s.next
  ok : ∀ i im, aget s.impls i = some im → ImplOK (off i) im
  disj : ∀ i j im jm, aget s.impls i = some im → aget s.impls j = some jm → i ≠ j →
            ∀ k ∈ cids im, k ∉ cids jm
  himpl : ∀ p ∈ s.G, ∀ i, p.2.impl = some i → (aget s.impls i).isSome = true
  fwdS : ∀ i v, aget s.S i = some v → SlotOK s.G v.slot
  fwdC : ∀ i im, aget s.impls i = some im → ∀ c ∈ im.cells, SlotOK s.G c.slot
  noerr : s.err = none
  own : OwnOK s.ownedG s.G

/-- the invariant of every state between two steps of the interpreter -/
abbrev Inv (s : St) : Prop := InvX (fun _ => 0) s

/-- what a piece of code may do: emission counters are restored, an impl that is emitting keeps its
    cell sequence as a contiguous block (nothing of it is erased), slot variables that are being
    called survive -/
structure Frame (s s' : St) : Prop where
  next : s.next ≤ s'.next
  exec : ∀ i, execOf s' i = execOf s i
  keep : ∀ i im, aget s.impls i = some im → 0 < im.exec →
    ∃ im', aget s'.impls i = some im' ∧ ∃ pre post, skel im' = pre ++ skel im ++ post
  vars : ∀ i, incallOf s' i = incallOf s i

theorem Frame.refl (s : St) : Frame s s :=
  ⟨Nat.le_refl _, fun _ => rfl, fun _ im h _ => ⟨im, h, [], [], by simp⟩, fun _ => rfl⟩

theorem execOf_pos {s : St} {i : Nat} {im : Impl} (h : aget s.impls i = some im) : execOf s i = im.exec := by
  simp [execOf, h]

theorem Frame.trans {a b c : St} (h1 : Frame a b) (h2 : Frame b c) : Frame a c := by
  refine ⟨Nat.le_trans h1.next h2.next, fun i => (h2.exec i).trans (h1.exec i), ?_,
          fun i => (h2.vars i).trans (h1.vars i)⟩
  intro i im hi hx
  obtain ⟨im1, hi1, p1, q1, k1⟩ := h1.keep i im hi hx
  have hx1 : 0 < im1.exec := by
    have := h1.exec i
    rw [execOf_pos hi1, execOf_pos hi] at this
    omega
  obtain ⟨im2, hi2, p2, q2, k2⟩ := h2.keep i im1 hi1 hx1
  refine ⟨im2, hi2, p2 ++ p1, q1 ++ q2, ?_⟩
  rw [k2, k1]; simp

/-- `Frame` only reads `next`, `impls`, `S` -/
theorem Frame.of_eq {s s' : St} (hn : s.next ≤ s'.next) (hi : s'.impls = s.impls) (hS : s'.S = s.S) :
    Frame s s' := by
  refine ⟨hn, fun i => by simp [execOf, hi], ?_, fun i => by simp [incallOf, hS]⟩
  intro i im h _
  exact ⟨im, by rw [hi]; exact h, [], [], by simp⟩

/-! ## association lists -/

variable {α : Type}

theorem aget_some_mem {l : List (Nat × α)} {k : Nat} {v : α} (h : aget l k = some v) : (k, v) ∈ l := by
  induction l with
  | nil => simp [aget] at h
  | cons p t ih =>
    obtain ⟨k', v'⟩ := p
    by_cases e : k' = k
    · subst e; simp [aget] at h; subst h; simp
    · simp [aget, e] at h; exact List.mem_cons_of_mem _ (ih h)

theorem aget_of_mem_nodup {l : List (Nat × α)} (hn : (l.map (·.1)).Nodup) {k : Nat} {v : α}
    (h : (k, v) ∈ l) : aget l k = some v := by
  induction l with
  | nil => simp at h
  | cons p t ih =>
    obtain ⟨k', v'⟩ := p
    simp only [List.map_cons, List.nodup_cons] at hn
    rcases List.mem_cons.mp h with e | e
    · cases e; simp [aget]
    · have : k' ≠ k := by
        intro e'; subst e'
        exact hn.1 (List.mem_map.mpr ⟨(k', v), e, rfl⟩)
      simp [aget, this]; exact ih hn.2 e

theorem aget_none_of_not_mem_keys {l : List (Nat × α)} {k : Nat} (h : k ∉ l.map (·.1)) : aget l k = none := by
  induction l with
  | nil => rfl
  | cons p t ih =>
    obtain ⟨k', v'⟩ := p
    simp only [List.map_cons, List.mem_cons, not_or] at h
    simp [aget, Ne.symm h.1]; exact ih h.2

theorem mem_keys_of_aget {l : List (Nat × α)} {k : Nat} {v : α} (h : aget l k = some v) : k ∈ l.map (·.1) :=
  List.mem_map.mpr ⟨(k, v), aget_some_mem h, rfl⟩

theorem keys_aset (l : List (Nat × α)) (k : Nat) (v : α) :
    (aset l k v).map (·.1) = if k ∈ l.map (·.1) then l.map (·.1) else l.map (·.1) ++ [k] := by
  induction l with
  | nil => simp [aset]
  | cons p t ih =>
    obtain ⟨k', v'⟩ := p
    by_cases e : k' = k
    · subst e; simp [aset]
    · have e' : ¬ k = k' := fun h => e h.symm
      simp only [aset, e, if_false, List.map_cons, ih, List.mem_cons, e', false_or]
      split <;> simp

theorem keys_nodup_aset {l : List (Nat × α)} (h : (l.map (·.1)).Nodup) (k : Nat) (v : α) :
    ((aset l k v).map (·.1)).Nodup := by
  rw [keys_aset]
  split
  · exact h
  · rename_i hk
    rw [List.nodup_append]
    refine ⟨h, by simp, ?_⟩
    intro a ha b hb
    simp at hb; subst hb
    intro e; subst e; exact hk ha

theorem keys_adel_sublist (l : List (Nat × α)) (k : Nat) : ((adel l k).map (·.1)).Sublist (l.map (·.1)) := by
  unfold adel
  exact (List.filter_sublist).map _

theorem keys_nodup_adel {l : List (Nat × α)} (h : (l.map (·.1)).Nodup) (k : Nat) :
    ((adel l k).map (·.1)).Nodup :=
  List.Nodup.sublist (keys_adel_sublist l k) h

theorem mem_aset {l : List (Nat × α)} {k : Nat} {v : α} {p : Nat × α} (h : p ∈ aset l k v) :
    p ∈ l ∨ p = (k, v) := by
  induction l with
  | nil => simp [aset] at h; exact Or.inr h
  | cons q t ih =>
    obtain ⟨k', v'⟩ := q
    by_cases e : k' = k
    · simp [aset, e] at h
      rcases h with h | h
      · exact Or.inr h
      · exact Or.inl (List.mem_cons_of_mem _ h)
    · simp [aset, e] at h
      rcases h with h | h
      · exact Or.inl (by rw [h]; simp)
      · rcases ih h with h | h
        · exact Or.inl (List.mem_cons_of_mem _ h)
        · exact Or.inr h

theorem mem_adel {l : List (Nat × α)} {k : Nat} {p : Nat × α} (h : p ∈ adel l k) : p ∈ l ∧ p.1 ≠ k := by
  unfold adel at h
  simpa using h

theorem aget_aset (l : List (Nat × α)) (k k' : Nat) (v : α) :
    aget (aset l k v) k' = if k' = k then some v else aget l k' := by
  by_cases h : k' = k
  · subst h; simp
  · simp [h, aget_aset_other _ _ _ _ h]

theorem aget_adel (l : List (Nat × α)) (k k' : Nat) :
    aget (adel l k) k' = if k' = k then none else aget l k' := by
  by_cases h : k' = k
  · subst h; simp
  · simp [h, aget_adel_other _ _ _ h]

end Sigc.Emit
