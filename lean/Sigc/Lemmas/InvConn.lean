import Sigc.Lemmas.InvHandle
/-!
# `Ptrs`: a connection never dangles

every `weak_raw_ptr` held by a connection, a scoped connection or a scoped connection owned by a
functor is `none` or the id of a cell that exists in some impl — because `nullConns` runs at every
place a cell is erased.
-/
namespace Sigc.Inv
open Sigc.Model

/-- some impl has a cell with this id -/
def CellIn (impls : List (Nat × Impl)) (cid : Nat) : Prop :=
  ∃ i im, aget impls i = some im ∧ ∃ c ∈ im.cells, c.id = cid

def PtrVal (impls : List (Nat × Impl)) (p : Option Nat) : Prop := ∀ cid, p = some cid → CellIn impls cid

def PtrOK (impls : List (Nat × Impl)) (l : List (Nat × Option Nat)) : Prop := ∀ p ∈ l, PtrVal impls p.2

def PtrsI (impls : List (Nat × Impl)) (C K oK : List (Nat × Option Nat)) : Prop :=
  PtrOK impls C ∧ PtrOK impls K ∧ PtrOK impls oK

def Ptrs (s : St) : Prop := PtrsI s.impls s.C s.K s.ownedK

theorem Ptrs.init : Ptrs {} := by
  refine ⟨?_, ?_, ?_⟩ <;> intro p hp <;> cases hp

theorem getCell_ne_none_of_cellIn {s : St} (hw : WF s) {cid : Nat} (h : CellIn s.impls cid) :
    getCell s cid ≠ none :=
  (getCell_ne_none_iff hw.keys cid).2 h

theorem cellIn_of_getCell {s : St} {cid : Nat} (h : getCell s cid ≠ none) : CellIn s.impls cid := by
  cases hg : getCell s cid with
  | none => exact absurd hg h
  | some x =>
    obtain ⟨i, c⟩ := x
    obtain ⟨im, hi, _, hc, he⟩ := getCell_some hg
    exact ⟨i, im, hi, c, hc, he⟩

/-! ### how `CellIn` moves with the impls -/

theorem CellIn.aset {impls : List (Nat × Impl)} {cid i : Nat} {im' : Impl} (h : CellIn impls cid)
    (hk : ∀ im, aget impls i = some im → ∀ c ∈ im.cells, c.id = cid → ∃ c' ∈ im'.cells, c'.id = cid) :
    CellIn (Model.aset impls i im') cid := by
  obtain ⟨j, jm, hj, c, hc, he⟩ := h
  by_cases e : j = i
  · subst e
    obtain ⟨c', hc', he'⟩ := hk jm hj c hc he
    exact ⟨j, im', by simp, c', hc', he'⟩
  · exact ⟨j, jm, by rw [aget_aset_other _ _ _ _ e]; exact hj, c, hc, he⟩

theorem CellIn.adel {impls : List (Nat × Impl)} {cid i : Nat} (h : CellIn impls cid)
    (hk : ∀ im, aget impls i = some im → ∀ c ∈ im.cells, c.id ≠ cid) : CellIn (Model.adel impls i) cid := by
  obtain ⟨j, jm, hj, c, hc, he⟩ := h
  by_cases e : j = i
  · subst e; exact absurd he (hk jm hj c hc)
  · exact ⟨j, jm, by rw [aget_adel_other _ _ _ e]; exact hj, c, hc, he⟩

theorem PtrVal.none (impls : List (Nat × Impl)) : PtrVal impls none := fun _ h => by cases h

theorem PtrOK.get {impls : List (Nat × Impl)} {l : List (Nat × Option Nat)} (h : PtrOK impls l) {k : Nat}
    {p : Option Nat} (hk : aget l k = some p) : PtrVal impls p := h (k, p) (mem_of_aget hk)

theorem PtrOK.aset {impls : List (Nat × Impl)} {l : List (Nat × Option Nat)} (h : PtrOK impls l) (k : Nat)
    {p : Option Nat} (hp : PtrVal impls p) : PtrOK impls (Model.aset l k p) := by
  intro q hq
  rcases mem_aset hq with e | m
  · subst e; exact hp
  · exact h q m

theorem PtrOK.adel {impls : List (Nat × Impl)} {l : List (Nat × Option Nat)} (h : PtrOK impls l) (k : Nat) :
    PtrOK impls (Model.adel l k) := fun q hq => h q (mem_adel hq)

theorem PtrOK.filter {impls : List (Nat × Impl)} {l : List (Nat × Option Nat)} (h : PtrOK impls l)
    (f : Nat × Option Nat → Bool) : PtrOK impls (l.filter f) := fun q hq => h q (List.mem_filter.1 hq).1

theorem PtrOK.cons {impls : List (Nat × Impl)} {l : List (Nat × Option Nat)} (h : PtrOK impls l) (k : Nat)
    {p : Option Nat} (hp : PtrVal impls p) : PtrOK impls ((k, p) :: l) := by
  intro q hq
  cases hq with
  | head => exact hp
  | tail _ m => exact h q m

theorem PtrOK.impls {impls impls' : List (Nat × Impl)} {l : List (Nat × Option Nat)} (h : PtrOK impls l)
    (hm : ∀ cid, CellIn impls cid → CellIn impls' cid) : PtrOK impls' l :=
  fun q hq cid e => hm cid (h q hq cid e)

/-! ### nulling -/

def nullF (c : Nat) : Option Nat → Option Nat := fun p => if p = some c then none else p

def nullList (l : List (Nat × Option Nat)) (ids : List Nat) : List (Nat × Option Nat) :=
  ids.foldl (fun l c => amap l (nullF c)) l

theorem mem_amap {α : Type} {l : List (Nat × α)} {f : α → α} {q : Nat × α} (h : q ∈ amap l f) :
    ∃ p ∈ l, q = (p.1, f p.2) := by
  simp only [amap, List.mem_map] at h
  obtain ⟨p, hp, e⟩ := h
  exact ⟨p, hp, e.symm⟩

theorem mem_nullList {ids : List Nat} : ∀ {l : List (Nat × Option Nat)} {k cid : Nat},
    (k, some cid) ∈ nullList l ids → cid ∉ ids ∧ (k, some cid) ∈ l := by
  induction ids with
  | nil => intro l k cid h; exact ⟨by simp, h⟩
  | cons c cs ih =>
    intro l k cid h
    simp only [nullList, List.foldl_cons] at h
    obtain ⟨h1, h2⟩ := ih (l := amap l (nullF c)) h
    obtain ⟨p, hp, e⟩ := mem_amap h2
    simp only [Prod.mk.injEq, nullF] at e
    obtain ⟨e1, e2⟩ := e
    split at e2
    · cases e2
    · refine ⟨?_, ?_⟩
      · simp only [List.mem_cons, not_or]
        refine ⟨?_, h1⟩
        intro e3; subst e3
        rename_i hne
        exact hne e2.symm
      · have : p = (k, some cid) := by rw [e1, e2]
        rw [← this]; exact hp

theorem nullConnsList_ptrs (ids : List Nat) : ∀ (s : St),
    (nullConnsList s ids).C = nullList s.C ids ∧ (nullConnsList s ids).K = nullList s.K ids ∧
    (nullConnsList s ids).ownedK = nullList s.ownedK ids := by
  induction ids with
  | nil => intro s; exact ⟨rfl, rfl, rfl⟩
  | cons c cs ih =>
    intro s
    exact ih (nullConns s c)

/-- after nulling `ids`, pointers only have to be found among the cells not in `ids` -/
theorem PtrOK.nullList {impls impls' : List (Nat × Impl)} {l : List (Nat × Option Nat)} (h : PtrOK impls l)
    (ids : List Nat) (hm : ∀ cid, cid ∉ ids → CellIn impls cid → CellIn impls' cid) :
    PtrOK impls' (Inv.nullList l ids) := by
  intro q hq cid e
  obtain ⟨k, p⟩ := q
  simp only at e
  subst e
  obtain ⟨h1, h2⟩ := mem_nullList hq
  exact hm cid h1 (h (k, some cid) h2 cid rfl)

theorem PtrsI.nullConnsList {impls0 impls' : List (Nat × Impl)} (s0 : St)
    (h : PtrsI impls0 s0.C s0.K s0.ownedK) (ids : List Nat)
    (hm : ∀ cid, cid ∉ ids → CellIn impls0 cid → CellIn impls' cid) :
    PtrsI impls' (nullConnsList s0 ids).C (nullConnsList s0 ids).K (nullConnsList s0 ids).ownedK := by
  obtain ⟨e1, e2, e3⟩ := nullConnsList_ptrs ids s0
  rw [e1, e2, e3]
  exact ⟨h.1.nullList ids hm, h.2.1.nullList ids hm, h.2.2.nullList ids hm⟩

theorem PtrsI.impls {impls impls' : List (Nat × Impl)} {C K oK : List (Nat × Option Nat)} (h : PtrsI impls C K oK)
    (hm : ∀ cid, CellIn impls cid → CellIn impls' cid) : PtrsI impls' C K oK :=
  ⟨h.1.impls hm, h.2.1.impls hm, h.2.2.impls hm⟩

theorem Ptrs.prims : PrimsA Ptrs where
  upd s i im g e d _ h hi hg := by
    refine PtrsI.impls h (fun cid hc => hc.aset ?_)
    intro im0 hi0 c hc he
    rw [hi] at hi0; cases hi0
    exact ⟨g c, List.mem_map.2 ⟨c, hc, rfl⟩, by rw [(hg c).1]; exact he⟩
  filter s i im p d ids _ h hi hp := by
    show PtrsI (nullConnsList _ _).impls _ _ _
    rw [nullConnsList_impls]
    refine PtrsI.nullConnsList (impls0 := s.impls)
      (setImpl s i { im with cells := im.cells.filter p, deferred := d }) h ids ?_
    intro cid hn hc
    refine hc.aset ?_
    intro im0 hi0 c hc he
    rw [hi] at hi0; cases hi0
    refine ⟨c, List.mem_filter.2 ⟨hc, ?_⟩, he⟩
    cases hpc : p c with
    | true => rfl
    | false => exact absurd (he ▸ hp c hc hpc) hn
  delImpl s i im _ h hi _ _ := by
    show PtrsI (nullConnsList _ _).impls _ _ _
    rw [nullConnsList_impls]
    refine PtrsI.nullConnsList (impls0 := s.impls) { s with impls := adel s.impls i } h _ ?_
    intro cid hn hc
    refine hc.adel ?_
    intro im0 hi0 c hc he
    rw [hi] at hi0; cases hi0
    exact hn (he ▸ List.mem_map.2 ⟨c, hc, rfl⟩)
  invalS s t _ h := h

theorem Ptrs.fail {s : St} (m : String) (h : Ptrs s) : Ptrs (s.fail m) := by
  unfold St.fail; split <;> exact h

theorem CellIn.aset_fresh {impls : List (Nat × Impl)} {cid i : Nat} {im' : Impl} (h : CellIn impls cid)
    (hk : aget impls i = none) : CellIn (Model.aset impls i im') cid :=
  h.aset (fun im hi => by rw [hk] at hi; cases hi)

theorem Ptrs.ensureImpl {s s1 : St} {g i : Nat} (hw : WF s) (h : Ptrs s)
    (he : ensureImpl s g = some (s1, i)) : Ptrs s1 := by
  unfold Model.ensureImpl at he
  split at he
  · cases he
  · split at he
    · cases he; exact h
    · simp only [St.fresh, Option.some.injEq, Prod.mk.injEq] at he
      obtain ⟨rfl, rfl⟩ := he
      refine PtrsI.impls h (fun cid hc => hc.aset_fresh ?_)
      cases hn : aget s.impls s.next with
      | none => rfl
      | some im => exact absurd (hw.keyLt _ _ hn) (Nat.lt_irrefl _)

theorem Ptrs.mkFun {s s' : St} {v : Bool} {spec : FSpec} {fn : Fun} (h : Ptrs s)
    (hm : mkFun s v spec = .ok (fn, s')) : Ptrs s' := by
  cases spec <;> simp only [Model.mkFun] at hm
  all_goals (repeat' split at hm)
  all_goals (first | (cases hm; done) | skip)
  all_goals (simp only [Except.ok.injEq, Prod.mk.injEq] at hm; obtain ⟨_, rfl⟩ := hm)
  all_goals (first | exact h | skip)
  -- ownK
  exact ⟨h.1, h.2.1.adel _, h.2.2.cons _ (h.2.1.get ‹_›)⟩

/-- inserting a cell keeps every old cell -/
theorem cellIn_insertCell {s : St} {i : Nat} {first : Bool} {sl : SlotB} {cid : Nat} (h : CellIn s.impls cid) :
    CellIn (insertCell s i first sl).fst.impls cid := by
  unfold Model.insertCell
  simp only [St.fresh]
  split
  · unfold St.fail; split <;> exact h
  · refine h.aset ?_
    intro im0 hi0 c hc he
    rename_i im hi
    rw [hi] at hi0; cases hi0
    cases first
    · exact ⟨c, by simp [hc], he⟩
    · exact ⟨c, by simp [hc], he⟩

theorem insertCell_frame (s : St) (i : Nat) (first : Bool) (sl : SlotB) :
    (insertCell s i first sl).fst.C = s.C ∧ (insertCell s i first sl).fst.K = s.K ∧
    (insertCell s i first sl).fst.ownedK = s.ownedK ∧ (insertCell s i first sl).fst.G = s.G ∧
    (insertCell s i first sl).fst.S = s.S ∧ (insertCell s i first sl).fst.T = s.T ∧
    (insertCell s i first sl).fst.ownedT = s.ownedT ∧ (insertCell s i first sl).snd = s.next := by
  unfold Model.insertCell
  simp only [St.fresh]
  split
  · unfold St.fail; split <;> exact ⟨rfl, rfl, rfl, rfl, rfl, rfl, rfl, rfl⟩
  · exact ⟨rfl, rfl, rfl, rfl, rfl, rfl, rfl, rfl⟩

theorem cellIn_insertCell_new {s : St} {i : Nat} {first : Bool} {sl : SlotB}
    (hi : ∃ im, aget s.impls i = some im) :
    CellIn (insertCell s i first sl).fst.impls (insertCell s i first sl).snd := by
  obtain ⟨im, hi⟩ := hi
  unfold Model.insertCell
  simp only [St.fresh, hi]
  cases first
  · refine ⟨i, _, aget_aset_same _ _ _, ?_⟩
    exact ⟨_, List.mem_append_right _ List.mem_cons_self, rfl⟩
  · refine ⟨i, _, aget_aset_same _ _ _, ?_⟩
    exact ⟨_, List.mem_cons_self, rfl⟩

theorem Ptrs.insertCell {s : St} (i : Nat) (first : Bool) (sl : SlotB) (h : Ptrs s) :
    Ptrs (insertCell s i first sl).fst := by
  obtain ⟨e1, e2, e3, _⟩ := insertCell_frame s i first sl
  unfold Ptrs
  rw [e1, e2, e3]
  exact PtrsI.impls h (fun cid hc => cellIn_insertCell hc)

theorem Ptrs.emitPro {s : St} {i : Nat} {im : Impl} (h : Ptrs s) (hi : aget s.impls i = some im) :
    Ptrs (emitPro s i im) := by
  refine PtrsI.impls h (fun cid hc => hc.aset ?_)
  intro im0 hi0 c hc he
  rw [hi] at hi0; cases hi0
  exact ⟨c, by simp [hc], he⟩

theorem Ptrs.dropHolder {s : St} (i : Nat) (h : Ptrs s) : Ptrs (dropHolder s i) := by
  unfold Inv.dropHolder
  split
  · exact h
  · rename_i im hi
    refine PtrsI.impls h (fun cid hc => hc.aset ?_)
    intro im0 hi0 c hc he
    rw [hi] at hi0; cases hi0
    exact ⟨c, hc, he⟩

/-! simp-normal forms -/

theorem ptrs_invalidateTrackable {s : St} {t : Nat} (h : PtrsI s.impls s.C s.K s.ownedK) :
    PtrsI (invalidateTrackable s t).impls (invalidateTrackable s t).C (invalidateTrackable s t).K
      (invalidateTrackable s t).ownedK := Ptrs.prims.invalidateTrackable t h
theorem ptrs_gcImpl {s : St} {i : Nat} (h : PtrsI s.impls s.C s.K s.ownedK) :
    PtrsI (gcImpl s i).impls (gcImpl s i).C (gcImpl s i).K (gcImpl s i).ownedK := Ptrs.prims.gcImpl i h
theorem ptrs_disconnectCell {s : St} {i : Nat} (h : PtrsI s.impls s.C s.K s.ownedK) :
    PtrsI (disconnectCell s i).impls (disconnectCell s i).C (disconnectCell s i).K (disconnectCell s i).ownedK :=
  Ptrs.prims.disconnectCell i h
theorem ptrs_clearImpl {s : St} {i : Nat} (h : PtrsI s.impls s.C s.K s.ownedK) :
    PtrsI (clearImpl s i).impls (clearImpl s i).C (clearImpl s i).K (clearImpl s i).ownedK :=
  Ptrs.prims.clearImpl i h
theorem ptrs_connBlock {s : St} {p : Option Nat} {b : Bool} (h : PtrsI s.impls s.C s.K s.ownedK) :
    PtrsI (connBlock s p b).impls (connBlock s p b).C (connBlock s p b).K (connBlock s p b).ownedK :=
  Ptrs.prims.connBlock p b h
theorem ptrs_blockAll {s : St} {i : Nat} {x : Impl} {b : Bool} (hi : aget s.impls i = some x)
    (h : PtrsI s.impls s.C s.K s.ownedK) :
    PtrsI (aset s.impls i { x with cells := x.cells.map (fun c => { c with slot := { c.slot with blocked := b } }) })
      s.C s.K s.ownedK :=
  Ptrs.prims.blockAll b h hi
theorem ptrs_aset_C {impls : List (Nat × Impl)} {C K oK : List (Nat × Option Nat)} {k : Nat} {p : Option Nat}
    (hp : PtrVal impls p) (h : PtrsI impls C K oK) : PtrsI impls (aset C k p) K oK :=
  ⟨h.1.aset k hp, h.2.1, h.2.2⟩
theorem ptrs_aset_K {impls : List (Nat × Impl)} {C K oK : List (Nat × Option Nat)} {k : Nat} {p : Option Nat}
    (hp : PtrVal impls p) (h : PtrsI impls C K oK) : PtrsI impls C (aset K k p) oK :=
  ⟨h.1, h.2.1.aset k hp, h.2.2⟩
theorem ptrs_adel_C {impls : List (Nat × Impl)} {C K oK : List (Nat × Option Nat)} {k : Nat}
    (h : PtrsI impls C K oK) : PtrsI impls (adel C k) K oK := ⟨h.1.adel k, h.2.1, h.2.2⟩
theorem ptrs_adel_K {impls : List (Nat × Impl)} {C K oK : List (Nat × Option Nat)} {k : Nat}
    (h : PtrsI impls C K oK) : PtrsI impls C (adel K k) oK := ⟨h.1, h.2.1.adel k, h.2.2⟩
theorem ptrs_insert_conn {s : St} {i : Nat} {first : Bool} {sl : SlotB} {k : Nat}
    (hi : ∃ im, aget s.impls i = some im) (h : PtrsI s.impls s.C s.K s.ownedK) :
    PtrsI (insertCell s i first sl).fst.impls
      (aset (insertCell s i first sl).fst.C k (some (insertCell s i first sl).snd))
      (insertCell s i first sl).fst.K (insertCell s i first sl).fst.ownedK :=
  ptrs_aset_C (fun cid e => by cases e; exact cellIn_insertCell_new hi) (Ptrs.insertCell i first sl h)

theorem ptrs_aset_K_of_C {impls : List (Nat × Impl)} {C K oK : List (Nat × Option Nat)} {k c : Nat}
    {p : Option Nat} (h : PtrsI impls C K oK) (hc : aget C c = some p) : PtrsI impls C (aset K k p) oK :=
  ptrs_aset_K (h.1.get hc) h
theorem ptrs_aset_K_of_K {impls : List (Nat × Impl)} {C K oK : List (Nat × Option Nat)} {k j c : Nat}
    {p : Option Nat} (h : PtrsI impls C K oK) (hc : aget K c = some p) :
    PtrsI impls C (aset (aset K k none) j p) oK :=
  ptrs_aset_K (h.2.1.get hc) (ptrs_aset_K (PtrVal.none _) h)
theorem ptrs_swap_K {impls : List (Nat × Impl)} {C K oK : List (Nat × Option Nat)} {i j : Nat} {a b : Option Nat}
    (h : PtrsI impls C K oK) (ha : aget K i = some a) (hb : aget K j = some b) :
    PtrsI impls C (aset (aset K i b) j a) oK :=
  ptrs_aset_K (h.2.1.get ha) (ptrs_aset_K (h.2.1.get hb) h)

set_option maxHeartbeats 400000 in
theorem Ptrs_simple (s : St) (op : Op) (s' : St) (r : String) (hW : WF s) (hH : HOK s) (hI : Ptrs s)
    (h : stepSimple s op = some (s', r)) : Ptrs s' := by
  cases op <;> simp only [stepSimple] at h
  all_goals (repeat' split at h)
  all_goals (first | (cases h; done) | skip)
  all_goals (simp only [Option.some.injEq, Prod.mk.injEq] at h; obtain ⟨rfl, _⟩ := h)
  all_goals (first | exact hI | skip)
  all_goals (
    try (have h1 := Ptrs.mkFun hI ‹_›)
    try (have hW1 := WF.mkFun hW ‹_›)
    try (have hH1 := HOK.mkFun hH ‹_›)
    try (have h2 := Ptrs.ensureImpl hW hI ‹_›)
    try (have hE := HOK.ensureImpl hH ‹_›; have h2' := hE.2)
    try (have h3 := Ptrs.ensureImpl ‹WF _› ‹Ptrs _› ‹_›)
    try (have hE3 := HOK.ensureImpl ‹HOK _› ‹_›; have h3' := hE3.2)
    try (have hc1 := PtrOK.get hI.1 ‹aget s.C _ = some _›)
    try (have hk1 := PtrOK.get hI.2.1 ‹aget s.K _ = some _›)
    simp only [Ptrs] at *
    first
      | done
      | simp (maxDischargeDepth := 8) only [St.fresh, setConn, setImpl,
          ptrs_invalidateTrackable, ptrs_gcImpl, ptrs_disconnectCell, ptrs_clearImpl, ptrs_connBlock, ptrs_blockAll,
          ptrs_aset_C, ptrs_aset_K, ptrs_adel_C, ptrs_adel_K, ptrs_insert_conn, PtrVal.none, *]
      | exact ptrs_aset_K_of_C (ptrs_disconnectCell hI) ‹_›
      | exact ptrs_aset_K_of_K (ptrs_disconnectCell hI) ‹_›
      | exact ptrs_swap_K hI ‹_› ‹_›)

theorem Ptrs_forceDelG (s : St) (g : Nat) (hI : Ptrs s) : Ptrs (forceDelG s g) := by
  unfold forceDelG
  split
  · exact hI
  · simp only []
    split <;> split <;>
    · simp only [Ptrs] at *
      first | done | simp (maxDischargeDepth := 8) only [ptrs_invalidateTrackable, ptrs_gcImpl, *]

theorem Ptrs.collect (s : St) (hI : Ptrs s) : Ptrs (collect s) :=
  Ptrs.prims.collect (fun _ _ h => h) (fun _ f h => ⟨h.1, h.2.1, h.2.2.filter f⟩)
    (dropG_of (fun _ _ h => h) Ptrs_forceDelG) hI

/-- the basic invariants together -/
def Base (s : St) : Prop := WF s ∧ HOK s

theorem Base.stable : Stable Base := StableRel.and WF.stable HOK.stable.weaken

theorem Ptrs.stableRel : StableRel Base Ptrs where
  log _ _ _ h := h
  fail s m _ h := Ptrs.fail m h
  depth _ _ _ h := h
  steps _ _ _ h := h
  incall _ _ _ _ _ h _ := h
  simple s op s' r hJ h hs := Ptrs_simple s op s' r hJ.1 hJ.2 h hs
  collect s _ h := Ptrs.collect s h
  pro _ _ _ _ h hi := Ptrs.emitPro h hi
  erase _ i m _ h := Ptrs.prims.eraseCell i m h
  unref _ i _ h := Ptrs.prims.unrefExec i h
  drop _ i _ h := Ptrs.dropHolder i h
  gc _ i _ h := Ptrs.prims.gcImpl i h
  forceDel s g _ h := Ptrs_forceDelG s g h

/-- identities, handles and pointers: the link invariant -/
def Links (s : St) : Prop := Base s ∧ Ptrs s

theorem Links.stable : Stable Links := StableRel.and Base.stable Ptrs.stableRel

theorem Links.init : Links {} := ⟨⟨WF.init, HOK.init⟩, Ptrs.init⟩

theorem Links.reachable (f : Nat) (P : Prog) (s : St) (h : runTop f P {} P.top = some s) : Links s :=
  Links.stable.runTop Links.init f P s h

end Sigc.Inv
