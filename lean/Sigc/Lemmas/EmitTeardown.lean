import Sigc.Lemmas.EmitMutual
/-!
# Emit work package — the driver's `teardown` (destroy everything the program left alive) never sets
the model error: its `execOp` part preserves `Inv`, its hand-written part (deleting also the pinned
signal objects) and the final `delT`s only use transformers that never touch `err`.
-/
namespace Sigc.Emit
open Sigc.Model

theorem touchCell_err (hf : SlotB → SlotB) (s : St) (cid : Nat) : (touchCell hf s cid).err = s.err := by
  unfold touchCell
  split
  · rfl
  · rename_i i c _
    have hu : ∀ (s : St) f, (updCell s i cid f).err = s.err := by
      intro s f; unfold updCell; split <;> rfl
    have hn : ∀ (s : St), (notifyParent s i cid).err = s.err := by
      intro s; unfold notifyParent; split
      · rfl
      · split
        · unfold eraseCell; split <;> rfl
        · rfl
    simp only
    split
    · rw [hn, hu]
    · rw [hu]

theorem invalidateTrackable_err (s : St) (t : Nat) : (invalidateTrackable s t).err = s.err := by
  unfold invalidateTrackable
  simp only
  generalize (List.foldr _ _ _ : List Nat) = vs
  generalize hs0 : ({ s with S := _ } : St) = s0
  have h0 : s0.err = s.err := by subst hs0; rfl
  rw [← h0]
  clear h0 hs0
  induction vs generalizing s0 with
  | nil => rfl
  | cons v vs ih =>
    simp only [List.foldl_cons]
    rw [ih, invalidateCell_eq, touchCell_err]

theorem gcImpl_err (s : St) (i : Nat) : (gcImpl s i).err = s.err := by
  unfold gcImpl
  split
  · rfl
  · split
    · exact (nullConnsList_core _ _).2.2.2.1
    · rfl

theorem foldl_bind_none {α β : Type} (F : β → α → Option α) (l : List β) :
    l.foldl (fun acc b => acc.bind (F b)) none = none := by
  induction l with
  | nil => rfl
  | cons b l ih => simpa using ih

/-- one operation of `teardown`: run it, forget the result -/
def quietOp (f : Nat) (P : Prog) (op : Op) (s : St) : Option St :=
  match execOp f P s op with
  | none => none
  | some (s, _) => some s

/-- the `execOp` sequences of `teardown` -/
theorem seq_good (f : Nat) (P : Prog) (ops : List Op) (s s' : St) (hs : Inv s)
    (h : ops.foldl (fun acc op => acc.bind (quietOp f P op)) (some s) = some s') : Good0 s s' := by
  induction ops generalizing s with
  | nil => simp at h; subst h; exact Good.refl hs
  | cons op ops ih =>
    simp only [List.foldl_cons, Option.bind_some] at h
    cases hx : quietOp f P op s with
    | none => rw [hx, foldl_bind_none] at h; contradiction
    | some s1 =>
      rw [hx] at h
      unfold quietOp at hx
      split at hx
      · contradiction
      · rename_i s1' r hx'
        simp at hx; subst hx
        have g1 := (all_ok f).op P s op s1' r hs hx'
        exact g1.trans (ih s1' g1.inv h)

/-- a `delT` operation never touches `err` -/
theorem execOp_delT_err (f : Nat) (P : Prog) (s s' : St) (t : Nat) (r : Except Unit String)
    (h : execOp f P s (.delT t) = some (s', r)) : s'.err = s.err := by
  cases f with
  | zero => simp [execOp] at h
  | succ f =>
    rw [execOp.eq_def] at h
    simp only [stepSimple, modeRule] at h
    split at h
    · rename_i hst
      split at hst
      · simp at hst h; obtain ⟨rfl, _⟩ := hst; obtain ⟨rfl, _⟩ := h; rfl
      · simp at hst h; obtain ⟨rfl, _⟩ := hst; obtain ⟨rfl, _⟩ := h
        rw [invalidateTrackable_err]
    · simp at h; obtain ⟨rfl, _⟩ := h; rfl

theorem seq_delT_err (f : Nat) (P : Prog) (ts : List Nat) (s s' : St)
    (h : (ts.map Op.delT).foldl (fun acc op => acc.bind (quietOp f P op)) (some s) = some s') :
    s'.err = s.err := by
  induction ts generalizing s with
  | nil => simp at h; subst h; rfl
  | cons t ts ih =>
    simp only [List.map_cons, List.foldl_cons, Option.bind_some] at h
    cases hx : quietOp f P (.delT t) s with
    | none => rw [hx, foldl_bind_none] at h; contradiction
    | some s1 =>
      rw [hx] at h
      unfold quietOp at hx
      split at hx
      · contradiction
      · rename_i s1' r hx'
        simp at hx; subst hx
        rw [ih s1' h, execOp_delT_err f P s s1' t r hx']

/-- **the driver's teardown never sets the model error** -/
theorem teardown_err (f : Nat) (P : Prog) (s s' : St) (hs : Inv s) (h : teardown f P s = some s') :
    s'.err = none := by
  unfold teardown at h
  simp only at h
  change (match ((sortedKeys s.K).map Op.delK).foldl (fun acc op => acc.bind (quietOp f P op)) (some s) with
    | none => none
    | some s =>
      match ((sortedKeys s.C).map Op.delC ++ (sortedKeys s.S).map Op.delS
                          ++ (sortedKeys s.G).map Op.clear).foldl (fun acc op => acc.bind (quietOp f P op)) (some s) with
      | none => none
      | some s =>
        ((sortedKeys (List.foldl (fun s g =>
          match aget s.G g with
          | none => s
          | some h =>
            let s := if h.fl.isTrackable then invalidateTrackable s h.trk else s
            let s := { s with G := adel s.G g }
            match h.impl with
            | some im => gcImpl s im
            | none => s) s (sortedKeys s.G)).T).map Op.delT).foldl (fun acc op => acc.bind (quietOp f P op))
          (some (List.foldl (fun s g =>
          match aget s.G g with
          | none => s
          | some h =>
            let s := if h.fl.isTrackable then invalidateTrackable s h.trk else s
            let s := { s with G := adel s.G g }
            match h.impl with
            | some im => gcImpl s im
            | none => s) s (sortedKeys s.G)))) = some s' at h
  split at h
  · contradiction
  · rename_i s1 h1
    have g1 := seq_good f P _ s s1 hs h1
    split at h
    · contradiction
    · rename_i s2 h2
      have g2 := seq_good f P _ s1 s2 g1.inv h2
      have herr : ∀ (gs : List Nat) (s0 : St), (gs.foldl (fun s g =>
          match aget s.G g with
          | none => s
          | some h =>
            let s := if h.fl.isTrackable then invalidateTrackable s h.trk else s
            let s := { s with G := adel s.G g }
            match h.impl with
            | some im => gcImpl s im
            | none => s) s0).err = s0.err := by
        intro gs
        induction gs with
        | nil => intro s0; rfl
        | cons g gs ih =>
          intro s0
          simp only [List.foldl_cons]
          rw [ih]
          split
          · rfl
          · rename_i hd _
            have e1 : ∀ (x : St), ({ x with G := adel x.G g } : St).err = x.err := fun _ => rfl
            have e2 : (if hd.fl.isTrackable = true then invalidateTrackable s0 hd.trk else s0).err = s0.err := by
              split
              · exact invalidateTrackable_err _ _
              · rfl
            split
            · rw [gcImpl_err]; exact e2
            · exact e2
      rw [seq_delT_err f P _ _ s' h, herr]
      exact g2.inv.noerr

end Sigc.Emit
