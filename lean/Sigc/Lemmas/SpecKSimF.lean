import Sigc.Lemmas.SpecKSimE
/-!
# SpecK — the mutual induction on fuel, part F: the step for `emitSig` (prologue, the `k2` shortcut,
epilogue with the deferred sweep).
-/
namespace Sigc.SpecK
open Sigc.Model Sigc.Spec

/-! ## unfolding `emitSig` and its instrumented version -/

/-- the state after the prologue of an emission of list `i` (= `g`) -/
def proState (s : LSt) (i : Nat) (g : LSig) (b : Bool) : LSt :=
  setSig { s with next := s.next + 1 } i
    { g with active := g.active + 1,
             cells := if b then g.cells ++ [{ id := s.next, slot := {}, marker := true }] else g.cells }

/-- the snapshot of an emission -/
def snapOf (g : LSig) (b : Bool) (fl : Flavour) : List Nat :=
  (g.cells.filter (fun c => (b && fl.isAcc) || (!c.marker && !c.zombie))).map (·.id)

theorem emitSig_some (f : Nat) (P : Prog) (s : LSt) (fl : Flavour) (i arg : Nat) (strat : Strat) (g : LSig)
    (hx : aget s.sigs i = some g) (b : Bool) (hk : s.k2 = b) :
    Spec.emitSig (f+1) P s fl (some i) arg strat =
      if (b && !fl.isAcc && g.cells.isEmpty) = true then some (s, .ok, 0) else
      match (if fl.isAcc = true then Spec.runStrat f P (proState s i g b) i (snapOf g b fl) arg (strat.forFlavour fl)
             else Spec.turns f P (proState s i g b) i (snapOf g b fl) arg 0) with
      | none => none
      | some (s3, o, v) =>
        match aget s3.sigs i with
        | none => some (s3.fail "emit: list died during its emission", o, v)
        | some g2 => some (Spec.collect (gcSig (setSig s3 i (epi g2 s.next)) i), o, v) := by
  subst hk
  unfold Spec.emitSig
  simp only [hx, LSt.fresh]
  rfl

theorem cEmit_some (f : Nat) (P : Prog) (s : LSt) (fl : Flavour) (i arg : Nat) (strat : Strat) (g : LSig)
    (hx : aget s.sigs i = some g) (b : Bool) (hk : s.k2 = b) :
    cEmit (f+1) P s fl (some i) arg strat =
      ((!fl.isAcc || g.active == 0) &&
      if (b && !fl.isAcc && g.cells.isEmpty) = true then true else
      ((if fl.isAcc = true then cStrat f P (proState s i g b) i (snapOf g b fl) arg (strat.forFlavour fl)
        else cTurns f P (proState s i g b) i (snapOf g b fl) arg 0) &&
      match (if fl.isAcc = true then Spec.runStrat f P (proState s i g b) i (snapOf g b fl) arg (strat.forFlavour fl)
             else Spec.turns f P (proState s i g b) i (snapOf g b fl) arg 0) with
      | none => true
      | some (s3, _, _) =>
        match aget s3.sigs i with
        | none => true
        | some g2 => sweepClear g2 s.next)) := by
  subst hk
  unfold cEmit clearEmit
  simp only [hx, LSt.fresh]
  rfl

/-! ## small facts -/

theorem aset_aset {α : Type} (l : List (Nat × α)) (k : Nat) (a b : α) : aset (aset l k a) k b = aset l k b := by
  induction l with
  | nil => simp [aset]
  | cons p tl ih =>
    obtain ⟨k', v'⟩ := p
    by_cases e : k' = k
    · simp [aset, e]
    · simp [aset, e, ih]

theorem gcSig_ref {s : LSt} {i : Nat} (h : s.G.any (fun p => p.2.impl = some i) = true) : gcSig s i = s := by
  unfold gcSig
  cases aget s.sigs i with
  | none => rfl
  | some g => simp [h]

section
variable {ρ : IdRel} {t u : LSt}

theorem F2.nil_left {α β : Type} {r : α → β → Prop} {m : List β} (h : F2 r [] m) : m = [] := by
  cases h; rfl

theorem epi_empty (g' : LSig) (m' : Nat) (he' : g'.cells = []) (hd : g'.dirty = false) :
    epi { g' with active := g'.active + 1, cells := g'.cells } m'
      = { g' with cells := [], limbo := if g'.active = 0 then [] else g'.limbo } := by
  by_cases ha : g'.active = 0
  · unfold epi
    simp [he', hd, ha]
  · unfold epi
    simp [he', hd, ha]

/-- the second configuration's emission of an empty list leaves the list as it was -/
theorem epi_empty_sim {g g' : LSig} (hg : SigR ρ g g') (he : g.cells = []) (m' : Nat) :
    SigR ρ g (epi { g' with active := g'.active + 1, cells := g'.cells } m') := by
  have he' : g'.cells = [] := by
    have := hg.cells
    rw [he] at this
    exact this.nil_left
  rw [epi_empty g' m' he' hg.dirty]
  refine ⟨by rw [he]; exact .nil, hg.active, hg.dirty, hg.limbo, ?_, ?_, ?_⟩
  · intro c hc; rw [he] at hc; simp at hc
  · intro sl hsl f' hf'
    simp only at hsl
    split at hsl
    · simp at hsl
    · obtain ⟨c, hc, _⟩ := hg.hold2 sl hsl f' hf'
      rw [he] at hc; simp at hc
  · intro c hc; rw [he] at hc; simp at hc

theorem Q.any_impl (h : Q ρ t u) {i i' : Nat} (hi : ρ i i') :
    u.G.any (fun p => decide (p.2.impl = some i')) = t.G.any (fun p => decide (p.2.impl = some i)) :=
  (AR.any h.G _ _ (fun _ a b hr => (hr.impl.eq_some h.pb hi).symm)).symm

theorem any_append_single {α : Type} (l : List α) (a : α) (p : α → Bool) : (l ++ [a]).any p = (l.any p || p a) := by
  simp [List.any_append]

end

/-! ## the step -/

theorem emit_succ (f : Nat) (ih : All f) : SEmit (f+1) := by
  intro P ρ t u fl impl impl' arg strat t' o v hq hst himp href hc hr
  cases himp with
  | none =>
    unfold Spec.emitSig at hr ⊢
    simp only [Option.some.injEq, Prod.mk.injEq] at hr
    obtain ⟨rfl, rfl, rfl⟩ := hr
    exact ⟨_, rfl, Good.refl hq, hst⟩
  | @some i i' hi =>
    have hgg := hq.sig_get hi
    cases hx : aget t.sigs i with
    | none =>
      rw [hx] at hgg
      generalize hy : aget u.sigs i' = y at hgg
      cases hgg
      unfold Spec.emitSig at hr ⊢
      simp only [hx, hy, Option.some.injEq, Prod.mk.injEq] at hr ⊢
      obtain ⟨rfl, rfl, rfl⟩ := hr
      exact ⟨_, ⟨rfl, rfl, rfl⟩, Good.of0 (Sim0.fail hq _ _), hst.fail _⟩
    | some g =>
      rw [hx] at hgg
      generalize hy : aget u.sigs i' = y at hgg
      cases hgg with
      | @some _ g' hg =>
        have hv := (hq.sig_inv hx).2
        rw [emitSig_some f P t fl i arg strat g hx true hq.k2] at hr
        rw [cEmit_some f P t fl i arg strat g hx true hq.k2] at hc
        rw [emitSig_some (f+1) P u fl i' arg strat g' hy false hq.k2']
        simp only [Bool.false_and, Bool.false_eq_true, if_false]
        simp only [Bool.true_and] at hr hc
        obtain ⟨hk2, hc⟩ := (Bool.and_eq_true _ _).mp hc
        by_cases hsc : (!fl.isAcc && g.cells.isEmpty) = true
        · -- the `k2` shortcut of the first configuration
          rw [if_pos hsc] at hr
          simp only [Option.some.injEq, Prod.mk.injEq] at hr
          obtain ⟨rfl, rfl, rfl⟩ := hr
          simp only [Bool.and_eq_true, Bool.not_eq_true', List.isEmpty_iff] at hsc
          obtain ⟨hna, he⟩ := hsc
          have he' : g'.cells = [] := by
            have := hg.cells
            rw [he] at this
            exact this.nil_left
          have hsnap : snapOf g' false fl = [] := by unfold snapOf; rw [he']; rfl
          rw [hna, hsnap]
          simp only [Bool.false_eq_true, if_false]
          unfold Spec.turns
          simp only
          have hps : aget (proState u i' g' false).sigs i' = some { g' with active := g'.active + 1, cells := g'.cells } := by
            unfold proState setSig
            simp
          rw [hps]
          simp only
          -- the second configuration's final state is `u` with one id burnt and the same list
          have hU : setSig (proState u i' g' false) i' (epi { g' with active := g'.active + 1, cells := g'.cells } u.next)
              = setSig { u with next := u.next + 1 } i' (epi { g' with active := g'.active + 1, cells := g'.cells } u.next) := by
            unfold proState setSig
            simp only [aset_aset]
          rw [hU]
          have hq1 : Q ρ t (setSig { u with next := u.next + 1 } i'
              (epi { g' with active := g'.active + 1, cells := g'.cells } u.next)) :=
            hq.burnU.setSigU hi hx (epi_empty_sim hg he _)
          have hrf : (setSig { u with next := u.next + 1 } i'
              (epi { g' with active := g'.active + 1, cells := g'.cells } u.next)).G.any
                (fun p => p.2.impl = some i') = true := by
            have := hq.any_impl hi
            rw [href i rfl] at this
            exact this
          rw [gcSig_ref hrf]
          have hcs : Settled (setSig { u with next := u.next + 1 } i'
              (epi { g' with active := g'.active + 1, cells := g'.cells } u.next)) := by
            rcases collectStep_sim hq1 with ⟨_, e2⟩ | ⟨t'', u'', e1, _, _⟩
            · exact e2
            · rw [hst] at e1; cases e1
          unfold Spec.collect
          rw [collectN_of_settled hcs]
          exact ⟨_, rfl, ⟨ρ, hq1, Step.of_le (Nat.le_refl _) (Nat.le_succ _), Fr.refl _⟩, hst⟩
        · -- prologue, turns, epilogue on both sides
          rw [if_neg hsc] at hr hc
          obtain ⟨hc1, hc2⟩ := (Bool.and_eq_true _ _).mp hc
          -- the snapshots
          have hsnapK : snapOf g true fl = (g.cells.filter live).map (·.id) := by
            unfold snapOf
            congr 1
            cases hacc : fl.isAcc
            · apply List.filter_congr
              intro c _; simp [live]
            · rw [hacc] at hk2
              simp only [Bool.not_true, Bool.false_or, beq_iff_eq] at hk2
              rw [filter_live_idle hv hk2]
              apply List.filter_eq_self.mpr
              intro c _; simp
          have hsnapP : snapOf g' false fl = g'.cells.map (·.id) := by
            unfold snapOf
            congr 1
            apply List.filter_eq_self.mpr
            intro c' hc'
            obtain ⟨a, _, hr'⟩ := hg.cells.mem_right hc'
            simp [hr'.marker, hr'.zombie]
          have hsn : F2 ρ (snapOf g true fl) (snapOf g' false fl) := by
            rw [hsnapK, hsnapP]
            exact F2.map hg.cells _ _ (fun a b _ _ hab => hab.id)
          -- the prologue
          have hq2 : Q ρ (proState t i g true) (proState u i' g' false) := by
            unfold proState
            simp only [if_true, Bool.false_eq_true, if_false]
            exact prologue_sim hq hi hx hg
          have hst2 : Settled (proState t i g true) := by
            unfold proState
            simp only [if_true]
            refine Settled.setSig (t := { t with next := t.next + 1 }) (hst.congr rfl rfl rfl (fun _ => rfl) (fun _ => rfl))
              hx (fun o => ?_) (fun o => ?_)
            · simp only [any_append_single]
              simp [SlotB.holdsT]
            · simp only [any_append_single]
              simp [SlotB.holdsK]
          have hact2 : ∀ j, act (proState t i g true) j = if j = i then g.active + 1 else act t j := by
            intro j
            unfold proState
            rw [act_setSig]
            split
            · rfl
            · rfl
          have hmks2 : ∀ j, mks (proState t i g true) j
              = if j = i then (g.cells.filter (·.marker)).map (·.id) ++ [t.next] else mks t j := by
            intro j
            unfold proState
            rw [mks_setSig]
            split
            · simp [List.filter_append]
            · rfl
          -- the turns
          have inner : ∃ t3 o3 v3, (if fl.isAcc = true then Spec.runStrat f P (proState t i g true) i (snapOf g true fl) arg (strat.forFlavour fl)
                else Spec.turns f P (proState t i g true) i (snapOf g true fl) arg 0) = some (t3, o3, v3) := by
            cases hin : (if fl.isAcc = true then Spec.runStrat f P (proState t i g true) i (snapOf g true fl) arg (strat.forFlavour fl)
                else Spec.turns f P (proState t i g true) i (snapOf g true fl) arg 0) with
            | none => rw [hin] at hr; simp at hr
            | some res => exact ⟨res.1, res.2.1, res.2.2, rfl⟩
          obtain ⟨t3, o3, v3, hin⟩ := inner
          rw [hin] at hr hc2
          have sim3 : ∃ u3, (if fl.isAcc = true then Spec.runStrat (f+1) P (proState u i' g' false) i' (snapOf g' false fl) arg (strat.forFlavour fl)
                else Spec.turns (f+1) P (proState u i' g' false) i' (snapOf g' false fl) arg 0) = some (u3, o3, v3) ∧
              Good ρ (proState t i g true) (proState u i' g' false) t3 u3 ∧ Settled t3 := by
            cases hacc : fl.isAcc
            · rw [hacc] at hin hc1
              simp only [Bool.false_eq_true, if_false] at hin hc1 ⊢
              exact ih.turns P ρ _ _ i i' _ _ arg 0 t3 o3 v3 hq2 hst2 hi hsn hc1 hin
            · rw [hacc] at hin hc1
              simp only [if_true] at hin hc1 ⊢
              exact ih.strat P ρ _ _ i i' _ _ arg (strat.forFlavour fl) t3 o3 v3 hq2 hst2 hi hsn hc1 hin
          obtain ⟨u3, e3, ⟨ρ3, hq3, hs3, hf3⟩, hst3⟩ := sim3
          rw [e3]
          simp only at hr hc2 ⊢
          have hi3 := hs3.sub _ _ hi
          have hgg3 := hq3.sig_get hi3
          cases hx3 : aget t3.sigs i with
          | none =>
            rw [hx3] at hgg3 hr
            generalize hy3 : aget u3.sigs i' = y at hgg3
            cases hgg3
            simp only [Option.some.injEq, Prod.mk.injEq] at hr ⊢
            obtain ⟨rfl, rfl, rfl⟩ := hr
            have hfl := Sim0.fail hq3 "emit: list died during its emission" "emit: list died during its emission"
            refine ⟨_, ⟨rfl, rfl, rfl⟩, ⟨ρ3, hfl.q, ?_, ?_⟩, hst3.fail _⟩
            · refine ⟨hs3.sub, fun a b hab => ?_, ?_, ?_⟩
              · rcases hs3.new a b hab with h1 | ⟨h1, h2⟩
                · exact Or.inl h1
                · refine Or.inr ⟨?_, ?_⟩
                  · have : (proState t i g true).next = t.next + 1 := rfl
                    omega
                  · have : (proState u i' g' false).next = u.next + 1 := rfl
                    omega
              · have := hs3.nk
                have h2 : (proState t i g true).next = t.next + 1 := rfl
                rw [fail_next]; omega
              · have := hs3.np
                have h2 : (proState u i' g' false).next = u.next + 1 := rfl
                rw [fail_next]; omega
            · -- the list has died: it was idle, contradiction with the running emission
              exfalso
              have := hf3.act i
              rw [hact2] at this
              simp only [act, hx3, if_true] at this
              omega
          | some g2 =>
            rw [hx3] at hgg3 hr hc2
            generalize hy3 : aget u3.sigs i' = y at hgg3
            cases hgg3 with
            | @some _ g2' hg2 =>
              simp only [Option.some.injEq, Prod.mk.injEq] at hr hc2 ⊢
              obtain ⟨rfl, rfl, rfl⟩ := hr
              have hv2 := (hq3.sig_inv hx3).2
              -- frame facts about the list during the turns
              have hact3 : g2.active = g.active + 1 := by
                have := hf3.act i
                rw [hact2] at this
                simpa [act, hx3] using this
              have hmks3 : (g2.cells.filter (·.marker)).map (·.id) = (g.cells.filter (·.marker)).map (·.id) ++ [t.next] := by
                have := hf3.mks i
                rw [hmks2] at this
                simpa [mks, hx3] using this
              have hm : ∀ b, ¬ ρ3 t.next b := by
                intro b hab
                rcases hs3.new _ _ hab with h1 | ⟨h1, _⟩
                · have := (hq.pb.lt h1).1; omega
                · have : (proState t i g true).next = t.next + 1 := rfl
                  omega
              have hm' : ∀ a, ¬ ρ3 a u.next := by
                intro a hab
                rcases hs3.new _ _ hab with h1 | ⟨_, h1⟩
                · have := (hq.pb.lt h1).2; omega
                · have : (proState u i' g' false).next = u.next + 1 := rfl
                  omega
              have hmk : g2.active = 1 → ∀ c ∈ g2.cells, c.marker = true → c.id = t.next := by
                intro h1 c hc' hmm
                have hg0 : g.active = 0 := by omega
                have hnil : g.cells.filter (·.marker) = [] := by
                  rw [List.filter_eq_nil_iff]
                  intro c0 hc0
                  have := hv.idle hg0 c0 hc0
                  unfold live at this
                  cases hm0 : c0.marker <;> simp_all
                rw [hnil] at hmks3
                have hmem : c.id ∈ (g2.cells.filter (·.marker)).map (·.id) :=
                  List.mem_map_of_mem (List.mem_filter.mpr ⟨hc', hmm⟩)
                rw [hmks3] at hmem
                simpa using hmem
              have hmc : ∀ c ∈ g2.cells, c.id = t.next → c.marker = true := by
                intro c hc' hid
                have hmem : t.next ∈ (g2.cells.filter (·.marker)).map (·.id) := by rw [hmks3]; simp
                obtain ⟨c0, hc0, e0⟩ := List.mem_map.mp hmem
                obtain ⟨hc0, hm0⟩ := List.mem_filter.mp hc0
                have := nodup_id_eq hv2.nodup hc' hc0 (by rw [hid, e0])
                rw [this]; exact hm0
              obtain ⟨hr4, hv4, ha4, hm4⟩ := epi_sim hq3.pb hg2 hv2 hm hm' (by omega) hmk hmc hc2
              have hq4 := hq3.setSig hi3 hr4 hv4
              have h5 := gcSig_sim hq4 hi3
              have h6 := collect_sim h5.q
              refine ⟨_, ⟨rfl, rfl, rfl⟩, ⟨ρ3, h6.q, ?_, ?_⟩, collect_settled _⟩
              · refine ⟨hs3.sub, fun a b hab => ?_, ?_, ?_⟩
                · rcases hs3.new a b hab with h1 | ⟨h1, h2⟩
                  · exact Or.inl h1
                  · refine Or.inr ⟨?_, ?_⟩
                    · have : (proState t i g true).next = t.next + 1 := rfl
                      omega
                    · have : (proState u i' g' false).next = u.next + 1 := rfl
                      omega
                · have := hs3.nk
                  have h2 : (proState t i g true).next = t.next + 1 := rfl
                  have h3 : (Spec.collect (gcSig (setSig t3 i (epi g2 t.next)) i)).next = t3.next :=
                    h6.nk.trans h5.nk
                  omega
                · have := hs3.np
                  have h2 : (proState u i' g' false).next = u.next + 1 := rfl
                  have h3 : (Spec.collect (gcSig (setSig u3 i' (epi g2' u.next)) i')).next = u3.next :=
                    h6.np.trans h5.np
                  omega
              · -- the frame of the whole emission
                have hfr4 : Fr t (setSig t3 i (epi g2 t.next)) := by
                  refine ⟨hf3.depth, fun j => ?_, fun j => ?_⟩
                  · rw [act_setSig]
                    by_cases e : j = i
                    · subst e
                      simp only [if_true, ha4, hact3, act, hx]
                      omega
                    · rw [if_neg e, hf3.act j, hact2, if_neg e]
                  · rw [mks_setSig]
                    by_cases e : j = i
                    · subst e
                      simp only [if_true, hm4, hmks3, mks, hx]
                      rw [List.filter_append]
                      have h1 : ((g.cells.filter (·.marker)).map (·.id)).filter (· ≠ t.next)
                          = (g.cells.filter (·.marker)).map (·.id) := by
                        apply List.filter_eq_self.mpr
                        intro x hx'
                        obtain ⟨c, hc', e⟩ := List.mem_map.mp hx'
                        have := hv.lt c (List.mem_filter.mp hc').1
                        simp only [ne_eq, decide_not, Bool.not_eq_eq_eq_not, Bool.not_true, decide_eq_false_iff_not]
                        omega
                      rw [h1]; simp
                    · rw [if_neg e, hf3.mks j, hmks2, if_neg e]
                exact (hfr4.trans h5.fr).trans h6.fr

end Sigc.SpecK
