import Sigc.Lemmas.RefineExtraA
/-!
# Refine work package — `Keeps`, part B: every operation without user code (`stepSimple`)
-/
namespace Sigc.Refine
open Sigc.Model

@[simp] theorem nx_fail (s : St) (m : String) : (s.fail m).next = s.next := (prim_fail s m).next
@[simp] theorem nx_setImpl (s : St) (i : Nat) (im : Impl) : (setImpl s i im).next = s.next := rfl
@[simp] theorem nx_setConn (s : St) (k : Nat) (p : Option Nat) : (setConn s k p).next = s.next := rfl
@[simp] theorem nx_gcImpl (s : St) (i : Nat) : (gcImpl s i).next = s.next := (prim_gcImpl s i).next
@[simp] theorem nx_disconnectCell (s : St) (c : Nat) : (disconnectCell s c).next = s.next :=
  (prim_disconnectCell s c).next
@[simp] theorem nx_invalidateTrackable (s : St) (t : Nat) : (invalidateTrackable s t).next = s.next :=
  (prim_invalidateTrackable s t).next
@[simp] theorem nx_clearImpl (s : St) (i : Nat) : (clearImpl s i).next = s.next := (prim_clearImpl s i).next
@[simp] theorem nx_connBlock (s : St) (p : Option Nat) (b : Bool) : (connBlock s p b).next = s.next :=
  (prim_connBlock s p b).next

/-- the allocation counter never decreases -/
theorem stepSimple_next {s s' : St} {op : Op} {r : String} (h : Model.stepSimple s op = some (s', r)) :
    s.next ≤ s'.next := by
  cases op <;> simp only [Model.stepSimple] at h
  all_goals (repeat' (split at h))
  all_goals (first
    | (simp at h; done)
    | (simp only [Option.some.injEq, Prod.mk.injEq] at h; obtain ⟨rfl, _⟩ := h
       first | (simp [St.fresh, insertCell_next]; done) | (simp [St.fresh, insertCell_next]; omega))
    | (have e1 := (mkFun_parts ‹mkFun _ _ _ = Except.ok _›).2.1
       have e2 := (ensureImpl_parts ‹ensureImpl _ _ = some _›).2.1
       simp only [Option.some.injEq, Prod.mk.injEq] at h; obtain ⟨rfl, _⟩ := h
       simp [insertCell_next]; omega)
    | (have e2 := (ensureImpl_parts ‹ensureImpl _ _ = some _›).2.1
       simp only [Option.some.injEq, Prod.mk.injEq] at h; obtain ⟨rfl, _⟩ := h
       simp [St.fresh, insertCell_next]; omega)
    | (have e1 := (mkFun_parts ‹mkFun _ _ _ = Except.ok _›).2.1
       simp only [Option.some.injEq, Prod.mk.injEq] at h; obtain ⟨rfl, _⟩ := h
       simp; omega))

/-- peel the primitives off the final state of a `stepSimple` case -/
macro "cf_loop" : tactic => `(tactic| repeat (first
  | exact CF.refl _ _
  | assumption
  | refine CF.sub ?_ (prim_invalidateTrackable _ _).sub
  | refine CF.sub ?_ (prim_gcImpl _ _).sub
  | refine CF.sub ?_ (prim_disconnectCell _ _).sub
  | refine CF.sub ?_ (prim_clearImpl _ _).sub
  | refine CF.sub ?_ (prim_connBlock _ _ _).sub
  | refine insertCell_cf _ _ _ _ (by first | omega | (dsimp only; omega) | (simp; omega)) ?_
  | dsimp only [setConn, St.fresh]))

/-- linked cells of the final state are linked cells of the initial state or freshly allocated -/
theorem stepSimple_cf {s s' : St} {op : Op} {r : String} (h : Model.stepSimple s op = some (s', r)) :
    CF s.next s.impls s'.impls := by
  cases op
  case blockG g b =>
    simp only [Model.stepSimple] at h
    repeat' (split at h)
    all_goals (simp only [Option.some.injEq, Prod.mk.injEq] at h; obtain ⟨rfl, _⟩ := h)
    all_goals (first | exact CF.refl _ _ | skip)
    refine CF.of_sub (prim_setImpl_of ‹aget s.impls _ = some _› _ ?_).sub
    intro c' hc' hl
    simp only [List.mem_map] at hc'
    obtain ⟨c, hc, rfl⟩ := hc'
    exact ⟨c, hc, rfl, hl⟩
  all_goals simp only [Model.stepSimple] at h
  all_goals (repeat' (split at h))
  all_goals (first
    | (simp at h; done)
    | (have e1 := mkFun_parts ‹mkFun _ _ _ = Except.ok _›
       have e2 := ensureImpl_parts ‹ensureImpl _ _ = some _›
       have e3 := CF.of_sub (n := s.next) ((Sub.of_eq e1.2.2).trans e2.2.2)
       have e4 := e1.2.1
       have e5 := e2.2.1
       simp only [Option.some.injEq, Prod.mk.injEq] at h; obtain ⟨rfl, _⟩ := h
       cf_loop; done)
    | (have e2 := ensureImpl_parts ‹ensureImpl _ _ = some _›
       have e3 := CF.of_sub (n := s.next) e2.2.2
       have e5 := e2.2.1
       simp only [Option.some.injEq, Prod.mk.injEq] at h; obtain ⟨rfl, _⟩ := h
       cf_loop; done)
    | (have e1 := mkFun_parts ‹mkFun _ _ _ = Except.ok _›
       have e3 := CF.of_sub (n := s.next) (Sub.of_eq e1.2.2)
       simp only [Option.some.injEq, Prod.mk.injEq] at h; obtain ⟨rfl, _⟩ := h
       cf_loop; done)
    | (simp only [Option.some.injEq, Prod.mk.injEq] at h; obtain ⟨rfl, _⟩ := h; cf_loop; done))

theorem stepSimple_keeps {s s' : St} {op : Op} {r : String} (h : Model.stepSimple s op = some (s', r)) :
    Keeps s s' :=
  Keeps.of_cf (StepIter.stepSimple_td s s' op r h).2 (stepSimple_next h) (stepSimple_cf h)

end Sigc.Refine
