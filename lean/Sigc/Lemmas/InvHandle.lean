import Sigc.Lemmas.InvWF
/-!
# `HOK`: a signal object never refers to a destroyed `signal_impl`

every handle in `s.G` with `impl = some i` has `aget s.impls i ≠ none` (the `shared_ptr` is never
dangling: `gcImpl` removes an impl only when no handle refers to it).
-/
namespace Sigc.Inv
open Sigc.Model

def HOKI (impls : List (Nat × Impl)) (G : List (Nat × Handle)) : Prop :=
  ∀ p ∈ G, ∀ i, p.2.impl = some i → ∃ im, aget impls i = some im

def HOK (s : St) : Prop := HOKI s.impls s.G

theorem HOK.init : HOK {} := by intro p hp; cases hp

theorem mem_aset {α : Type} {l : List (Nat × α)} {k : Nat} {v : α} {p : Nat × α} (h : p ∈ aset l k v) :
    p = (k, v) ∨ p ∈ l := by
  induction l with
  | nil => simp [aset] at h; exact Or.inl h
  | cons q t ih =>
    obtain ⟨k', v'⟩ := q
    simp only [aset] at h
    split at h
    · cases h with
      | head => exact Or.inl rfl
      | tail _ ht => exact Or.inr (List.mem_cons_of_mem _ ht)
    · cases h with
      | head => exact Or.inr List.mem_cons_self
      | tail _ ht =>
        rcases ih ht with e | m
        · exact Or.inl e
        · exact Or.inr (List.mem_cons_of_mem _ m)

theorem mem_adel {α : Type} {l : List (Nat × α)} {k : Nat} {p : Nat × α} (h : p ∈ adel l k) : p ∈ l :=
  (List.mem_filter.1 h).1

theorem HOKI.get {impls : List (Nat × Impl)} {G : List (Nat × Handle)} (h : HOKI impls G) {g : Nat} {hd : Handle}
    (hg : aget G g = some hd) {i : Nat} (hi : hd.impl = some i) : ∃ im, aget impls i = some im :=
  h (g, hd) (mem_of_aget hg) i hi

/-- impls change but every old key keeps a value -/
theorem HOKI.impls_mono {impls impls' : List (Nat × Impl)} {G : List (Nat × Handle)} (h : HOKI impls G)
    (hm : ∀ i im, aget impls i = some im → ∃ im', aget impls' i = some im') : HOKI impls' G := by
  intro p hp i hi
  obtain ⟨im, him⟩ := h p hp i hi
  exact hm i im him

theorem HOKI.aset_impls {impls : List (Nat × Impl)} {G : List (Nat × Handle)} (h : HOKI impls G) (i : Nat)
    (im' : Impl) : HOKI (aset impls i im') G :=
  h.impls_mono (fun j jm hj => by
    rw [aget_aset]; split
    · exact ⟨_, rfl⟩
    · exact ⟨jm, hj⟩)

theorem HOKI.aset_G {impls : List (Nat × Impl)} {G : List (Nat × Handle)} (h : HOKI impls G) (g : Nat)
    (hd : Handle) (hh : ∀ i, hd.impl = some i → ∃ im, aget impls i = some im) : HOKI impls (aset G g hd) := by
  intro p hp i hi
  rcases mem_aset hp with e | m
  · subst e; exact hh i hi
  · exact h p m i hi

theorem HOKI.adel_G {impls : List (Nat × Impl)} {G : List (Nat × Handle)} (h : HOKI impls G) (g : Nat) :
    HOKI impls (adel G g) := fun p hp => h p (mem_adel hp)

theorem HOK.prims : PrimsA HOK where
  upd s i im g e d _ h _ _ := HOKI.aset_impls h _ _
  filter s i im p d ids _ h _ _ := by
    show HOKI (nullConnsList _ _).impls (nullConnsList _ _).G
    simp only [nullConnsList_impls, nullConnsList_G]
    exact HOKI.aset_impls h _ _
  delImpl s i im _ h _ _ hg := by
    show HOKI (nullConnsList _ _).impls (nullConnsList _ _).G
    simp only [nullConnsList_impls, nullConnsList_G]
    intro p hp j hj
    obtain ⟨jm, hjm⟩ := h p hp j hj
    refine ⟨jm, ?_⟩
    rw [aget_adel]
    split
    · rename_i e
      subst e
      have : (s.G.any fun p => decide (p.2.impl = some j)) = true :=
        List.any_eq_true.2 ⟨p, hp, by simpa using hj⟩
      rw [this] at hg; cases hg
    · exact hjm
  invalS s t _ h := h

theorem HOK.fail {s : St} (m : String) (h : HOK s) : HOK (s.fail m) := by
  unfold St.fail; split <;> exact h

theorem HOK.ensureImpl {s s1 : St} {g i : Nat} (h : HOK s) (he : ensureImpl s g = some (s1, i)) :
    HOK s1 ∧ ∃ im, aget s1.impls i = some im := by
  unfold Model.ensureImpl at he
  split at he
  · cases he
  · rename_i hd hg
    split at he
    · rename_i j hj
      cases he
      exact ⟨h, h.get hg hj⟩
    · simp only [St.fresh, Option.some.injEq, Prod.mk.injEq] at he
      obtain ⟨rfl, rfl⟩ := he
      refine ⟨?_, ⟨{}, by simp⟩⟩
      refine HOKI.aset_G (HOKI.aset_impls h _ _) _ _ ?_
      intro i hi
      simp only [Option.some.injEq] at hi
      subst hi
      exact ⟨{}, by simp⟩

theorem mkFun_G {s s' : St} {v : Bool} {spec : FSpec} {fn : Fun} (h : mkFun s v spec = .ok (fn, s')) :
    s'.G = s.G ∨ ∃ g hd, aget s.G g = some hd ∧ s'.G = aset s.G g { hd with everFwd := true } := by
  cases spec <;> simp only [mkFun] at h
  all_goals (repeat' split at h)
  all_goals (first | (cases h; done) | skip)
  all_goals (simp only [Except.ok.injEq, Prod.mk.injEq] at h; obtain ⟨_, rfl⟩ := h)
  all_goals (first | exact Or.inl rfl | skip)
  all_goals exact Or.inr ⟨_, _, ‹aget s.G _ = some _›, rfl⟩

theorem HOK.mkFun {s s' : St} {v : Bool} {spec : FSpec} {fn : Fun} (h : HOK s)
    (hm : mkFun s v spec = .ok (fn, s')) : HOK s' := by
  obtain ⟨h1, _⟩ := mkFun_frame hm
  unfold HOK
  rw [h1]
  rcases mkFun_G hm with e | ⟨g, hd, hg, e⟩
  · rw [e]; exact h
  · rw [e]
    exact HOKI.aset_G h _ _ (fun i hi => h.get hg hi)

theorem HOK.insertCell {s : St} (i : Nat) (first : Bool) (sl : SlotB) (h : HOK s) :
    HOK (insertCell s i first sl).fst := by
  unfold Model.insertCell
  simp only [St.fresh]
  split
  · exact HOK.fail _ h
  · exact HOKI.aset_impls h _ _

theorem HOK.emitPro {s : St} {i : Nat} {im : Impl} (h : HOK s) : HOK (emitPro s i im) :=
  HOKI.aset_impls h _ _

theorem HOK.dropHolder {s : St} (i : Nat) (h : HOK s) : HOK (dropHolder s i) := by
  unfold Inv.dropHolder
  split
  · exact h
  · exact HOKI.aset_impls h _ _

theorem hoki_invalidateTrackable {s : St} {t : Nat} (h : HOKI s.impls s.G) :
    HOKI (invalidateTrackable s t).impls (invalidateTrackable s t).G := HOK.prims.invalidateTrackable t h
theorem hoki_gcImpl {s : St} {i : Nat} (h : HOKI s.impls s.G) :
    HOKI (gcImpl s i).impls (gcImpl s i).G := HOK.prims.gcImpl i h
theorem hoki_disconnectCell {s : St} {i : Nat} (h : HOKI s.impls s.G) :
    HOKI (disconnectCell s i).impls (disconnectCell s i).G := HOK.prims.disconnectCell i h
theorem hoki_clearImpl {s : St} {i : Nat} (h : HOKI s.impls s.G) :
    HOKI (clearImpl s i).impls (clearImpl s i).G := HOK.prims.clearImpl i h
theorem hoki_connBlock {s : St} {p : Option Nat} {b : Bool} (h : HOKI s.impls s.G) :
    HOKI (connBlock s p b).impls (connBlock s p b).G := HOK.prims.connBlock p b h
theorem hoki_insertCell {s : St} {i : Nat} {first : Bool} {sl : SlotB} (h : HOKI s.impls s.G) :
    HOKI (insertCell s i first sl).fst.impls (insertCell s i first sl).fst.G := HOK.insertCell i first sl h
theorem hoki_aset_impls {impls : List (Nat × Impl)} {G : List (Nat × Handle)} {i : Nat} {im' : Impl}
    (h : HOKI impls G) : HOKI (aset impls i im') G := h.aset_impls i im'
theorem hoki_adel_G {impls : List (Nat × Impl)} {G : List (Nat × Handle)} {g : Nat}
    (h : HOKI impls G) : HOKI impls (adel G g) := h.adel_G g
theorem hoki_aset_G {impls : List (Nat × Impl)} {G : List (Nat × Handle)} {g : Nat} {hd : Handle}
    (hh : ∀ i, hd.impl = some i → ∃ im, aget impls i = some im) (h : HOKI impls G) :
    HOKI impls (aset G g hd) := h.aset_G g hd hh

def ImplLive (impls : List (Nat × Impl)) (o : Option Nat) : Prop :=
  ∀ i, o = some i → ∃ im, aget impls i = some im
theorem HOKI.live {impls : List (Nat × Impl)} {G : List (Nat × Handle)} (h : HOKI impls G) {g : Nat} {hd : Handle}
    (hg : aget G g = some hd) : ImplLive impls hd.impl := fun _ hi => h.get hg hi
theorem implLive_none (impls : List (Nat × Impl)) : ImplLive impls none := fun _ h => by cases h
theorem implLive_some {impls : List (Nat × Impl)} {i : Nat} (h : ∃ im, aget impls i = some im) :
    ImplLive impls (some i) :=
  fun _ hj => by cases hj; exact h
theorem hoki_aset_G' {impls : List (Nat × Impl)} {G : List (Nat × Handle)} {g : Nat} {hd : Handle}
    (hh : ImplLive impls hd.impl) (h : HOKI impls G) :
    HOKI impls (aset G g hd) := h.aset_G g hd hh

set_option maxHeartbeats 400000 in
theorem HOK_simple (s : St) (op : Op) (s' : St) (r : String) (hI : HOK s)
    (h : stepSimple s op = some (s', r)) : HOK s' := by
  cases op <;> simp only [stepSimple] at h
  all_goals (repeat' split at h)
  all_goals (first | (cases h; done) | skip)
  all_goals (simp only [Option.some.injEq, Prod.mk.injEq] at h; obtain ⟨rfl, _⟩ := h)
  all_goals (first | exact hI | skip)
  all_goals (
    try (have h1 := HOK.mkFun hI ‹_›)
    try (have hE := HOK.ensureImpl hI ‹_›; have h2 := hE.1; have h2' := hE.2)
    try (have hE3 := HOK.ensureImpl ‹HOK _› ‹_›; have h3 := hE3.1; have h3' := hE3.2)
    try (have hg1 := HOKI.live hI ‹aget s.G _ = some _›)
    simp only [HOK] at *
    first | done | simp (maxDischargeDepth := 8) only [St.fresh, setConn, setImpl,
      hoki_invalidateTrackable, hoki_gcImpl, hoki_disconnectCell, hoki_clearImpl, hoki_connBlock, hoki_insertCell,
      hoki_aset_impls, hoki_adel_G, hoki_aset_G', implLive_none, implLive_some, *])

theorem HOK_forceDelG (s : St) (g : Nat) (hI : HOK s) : HOK (forceDelG s g) := by
  unfold forceDelG
  split
  · exact hI
  · simp only []
    split <;> split <;>
    · simp only [HOK] at *
      first | done | simp (maxDischargeDepth := 8) only [hoki_invalidateTrackable, hoki_gcImpl, hoki_adel_G, *]

theorem HOK.collect (s : St) (hI : HOK s) : HOK (collect s) :=
  HOK.prims.collect (fun _ _ h => h) (fun _ _ h => h) (dropG_of (fun _ _ h => h) HOK_forceDelG) hI

theorem HOK.stable : Stable HOK where
  log _ _ _ h := h
  fail s m _ h := HOK.fail m h
  depth _ _ _ h := h
  steps _ _ _ h := h
  incall _ _ _ _ _ h _ := h
  simple s op s' r _ h hs := HOK_simple s op s' r h hs
  collect s _ h := HOK.collect s h
  pro _ _ _ _ h _ := HOK.emitPro h
  erase _ i m _ h := HOK.prims.eraseCell i m h
  unref _ i _ h := HOK.prims.unrefExec i h
  drop _ i _ h := HOK.dropHolder i h
  gc _ i _ h := HOK.prims.gcImpl i h
  forceDel s g _ h := HOK_forceDelG s g h

theorem HOK.reachable (f : Nat) (P : Prog) (s : St) (h : runTop f P {} P.top = some s) : HOK s :=
  HOK.stable.runTop HOK.init f P s h

end Sigc.Inv
