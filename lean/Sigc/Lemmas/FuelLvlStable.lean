import Sigc.Lemmas.FuelLvlSimple
import Sigc.Lemmas.FuelTermB
/-!
# Fuel work package — the level invariant is preserved by every function of the model (`LvlStable`),
hence every program terminates
-/
namespace Sigc.Fuel
open Sigc.Model

theorem JK.callPro {k : Option (Nat × Nat)} {s : St} {i : Nat} {v : SlotVar} (hJ : JK k s) (hv : aget s.S i = some v) :
    JK k (Sigc.Inv.callPro s i v) :=
  JK.sub (sub_setS (Sub.refl s) _ _ (src_same hv (Int.le_refl _) rfl)) hJ

theorem JK.callEpi {k : Option (Nat × Nat)} {s : St} (i : Nat) (hJ : JK k s) : JK k (Sigc.Inv.callEpi s i) := by
  unfold Sigc.Inv.callEpi
  split
  · rename_i v2 hv2
    exact JK.sub (sub_setS (Sub.refl s) _ _ (src_same hv2 (Int.le_refl _) rfl)) hJ
  · exact JK.sub (sub_fail (Sub.refl s) _) hJ

/-- **the level invariant is stable** -/
theorem lvlStable : LvlStable where
  core :=
    { log := fun _ s e hJ => JK.sub (sub_log (Sub.refl s) e) hJ
      fail := fun _ s m hJ => JK.sub (sub_fail (Sub.refl s) m) hJ
      depth := fun _ s _ hJ => JK.sub ((Sub.refl s).congr rfl rfl rfl rfl) hJ
      steps := fun _ s _ hJ => JK.sub ((Sub.refl s).congr rfl rfl rfl rfl) hJ
      call := fun k _ i _ hJ hv => ⟨k, hJ.callPro hv, fun _ h2 => h2.callEpi i⟩
      simple := fun k s op s' r hJ h => JK_simple k s op s' r hJ h
      collect := fun _ s hJ => JK.sub (sub_collect (Sub.refl s)) hJ
      emit := fun k s i _ hJ hi => ⟨k, JK.sub (sub_emitPro (Sub.refl s) hi) hJ,
        fun s2 h2 => JK.sub (sub_emitEpi (Sub.refl s2) i s.next) h2⟩ }
  pro := fun _ s _ _ hJ hi => JK.sub (sub_emitPro (Sub.refl s) hi) hJ
  callPro := fun _ _ _ _ hJ hv => hJ.callPro hv

/-- **every program terminates**: some fuel suffices for `runTop` -/
theorem runTop_terminates (P : Prog) : ∃ fuel s, runTop fuel P {} P.top = some s :=
  terminates_of_lvl lvlStable P

/-- a program with forwarders: signal 2 forwards to signal 1 (`make_slot()`), whose slot body re-emits signal 2 and
    calls a slot variable that forwards to signal 2; the attempt to make signal 1 forward to signal 2 is refused -/
def exFwd : Prog :=
  { bodies := [(1, [⟨"emit 2 1", .emit 2 1 .sum false⟩, ⟨"callS 1 2", .callS 1 2⟩])],
    top := [⟨"newG 1 V", .newG 1 (some .V)⟩, ⟨"newG 2 V", .newG 2 (some .V)⟩,
            ⟨"connfn 1 2 fwd 1", .connfn 1 2 (.fwd 1) false⟩, ⟨"connfn 2 1 fn 1", .connfn 2 1 (.fn 1) false⟩,
            ⟨"mkS 1 V fwd 2", .mkS 1 "V" (.fwd 2)⟩, ⟨"connfn 3 1 fwd 2", .connfn 3 1 (.fwd 2) false⟩,
            ⟨"emit 2 0", .emit 2 0 .rev false⟩] }


end Sigc.Fuel
