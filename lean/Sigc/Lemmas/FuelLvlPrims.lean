import Sigc.Lemmas.FuelLvlDefs
/-!
# Fuel work package — the level invariant: the destructive steps of the model are `Sub` steps

`Sub a` is preserved by the four primitive updates of `Sigc.Inv.Prims` (`sub_prims`), hence by every library
cascade built from them, by `collect`, by the prologue and the epilogue of an emission and of a direct slot call.
-/
namespace Sigc.Fuel
open Sigc.Model

theorem fnOf_of_slotLe {a b : SlotB} (h : Sigc.Inv.SlotLe a b) : fnOf a = none ∨ fnOf a = fnOf b := by
  rcases h with h | h | h
  · right; simp only [fnOf, h]
  · right
    simp only [fnOf, h, SlotB.disconnectRep]
    cases hb : b.rep <;> simp [hb]
  · left
    simp only [fnOf, h, SlotB.invalidate]
    cases hb : b.rep <;> simp [hb]

/-- only the slot lists change -/
theorem Sub.of_impls {s s' : St} (hn : s.next ≤ s'.next) (hG : s'.G = s.G) (hS : s'.S = s.S)
    (hI : ∀ i im', aget s'.impls i = some im' → ∃ im, aget s.impls i = some im ∧
      ∀ c' ∈ im'.cells, fnOf c'.slot = none ∨ ∃ c ∈ im.cells, fnOf c'.slot = fnOf c.slot) : Sub s s' :=
  ⟨hn, fun q hq => Or.inl ⟨q, hG ▸ hq, rfl, rfl⟩, fun q hq => Or.inr ⟨q, hG ▸ hq, rfl, rfl⟩,
   fun i v h => Or.inr ⟨i, v, hS ▸ h, Int.le_refl _, rfl⟩, hI⟩

/-- replacing the cells of an existing slot list by cells whose functors were there before -/
theorem Sub.setImpl {s : St} {i : Nat} {im im' : Impl} (hi : aget s.impls i = some im)
    (hc : ∀ c' ∈ im'.cells, fnOf c'.slot = none ∨ ∃ c ∈ im.cells, fnOf c'.slot = fnOf c.slot) :
    Sub s (setImpl s i im') := by
  refine Sub.of_impls (Nat.le_refl _) rfl rfl ?_
  intro j jm hj
  simp only [Sigc.Inv.setImpl_impls, Sigc.Inv.aget_aset] at hj
  split at hj
  · rename_i e; subst e; cases hj; exact ⟨im, hi, hc⟩
  · exact ⟨jm, hj, fun c hc => Or.inr ⟨c, hc, rfl⟩⟩

theorem sub_prims (a : St) : Sigc.Inv.PrimsA (Sub a) where
  upd s i im g e d _ h hi hg := by
    refine h.trans (Sub.setImpl hi ?_)
    intro c' hc'
    simp only [List.mem_map] at hc'
    obtain ⟨c, hc, rfl⟩ := hc'
    rcases fnOf_of_slotLe (hg c).2 with e | e
    · exact Or.inl e
    · exact Or.inr ⟨c, hc, e⟩
  filter s i im p d ids _ h hi _ := by
    refine (h.trans (Sub.setImpl (im' := { im with cells := im.cells.filter p, deferred := d }) hi ?_)).congr
      (by simp) (by simp) (by simp) (by simp)
    intro c' hc'
    exact Or.inr ⟨c', (List.mem_filter.mp hc').1, rfl⟩
  delImpl s i im _ h _ _ _ := by
    have h2 : Sub s { s with impls := adel s.impls i } := ?_
    · exact (h.trans h2).congr (by simp) (by simp) (by simp) (by simp)
    refine Sub.of_impls (Nat.le_refl _) rfl rfl ?_
    intro j jm hj
    simp only [Sigc.Inv.aget_adel] at hj
    split at hj
    · cases hj
    · exact ⟨jm, hj, fun c hc => Or.inr ⟨c, hc, rfl⟩⟩
  invalS s t _ h := by
    refine h.trans ⟨Nat.le_refl _, fun q hq => Or.inl ⟨q, hq, rfl, rfl⟩, fun q hq => Or.inr ⟨q, hq, rfl, rfl⟩, ?_,
      fun j jm hj => ⟨jm, hj, fun c hc => Or.inr ⟨c, hc, rfl⟩⟩⟩
    intro j v' hv'
    simp only [aget_amap] at hv'
    cases hv : aget s.S j with
    | none => rw [hv] at hv'; cases hv'
    | some v =>
      rw [hv] at hv'
      simp only [Option.map_some, Option.some.injEq] at hv'
      subst hv'
      split
      · left
        simp only [fnOf, SlotB.invalidate]
        cases hb : v.slot.rep <;> simp [hb]
      · exact Or.inr ⟨j, v, hv, Int.le_refl _, rfl⟩

/-! ## the derived steps -/

section
variable {a x : St}

theorem sub_lit (h : Sub a x) {t : List (Nat × Nat)} {c k : List (Nat × Option Nat)} {oT : List Nat}
    {oK : List (Nat × Option Nat)} {oG : List (Nat × Nat)} {d st : Nat} {tr : List Event} {e : Option String} :
    Sub a { T := t, S := x.S, G := x.G, C := c, K := k, impls := x.impls, ownedT := oT, ownedK := oK, ownedG := oG,
            next := x.next, depth := d, steps := st, trace := tr, err := e } :=
  h.congr rfl rfl rfl rfl

theorem sub_next (h : Sub a x) {n : Nat} (hn : x.next ≤ n) : Sub a { x with next := n } :=
  h.trans ⟨hn, fun q hq => Or.inl ⟨q, hq, rfl, rfl⟩, fun q hq => Or.inr ⟨q, hq, rfl, rfl⟩,
    fun i v h => Or.inr ⟨i, v, h, Int.le_refl _, rfl⟩, fun _ im h => ⟨im, h, fun c hc => Or.inr ⟨c, hc, rfl⟩⟩⟩

theorem sub_log (h : Sub a x) (e : Event) : Sub a (x.log e) := h.congr rfl rfl rfl rfl
theorem sub_fail (h : Sub a x) (m : String) : Sub a (x.fail m) := by
  unfold St.fail; split
  · exact h.congr rfl rfl rfl rfl
  · exact h
theorem sub_setConn (h : Sub a x) (k : Nat) (p : Option Nat) : Sub a (setConn x k p) := h.congr rfl rfl rfl rfl
theorem sub_eraseCell (h : Sub a x) (i c : Nat) : Sub a (eraseCell x i c) := (sub_prims a).eraseCell i c h
theorem sub_unrefExec (h : Sub a x) (i : Nat) : Sub a (unrefExec x i) := (sub_prims a).unrefExec i h
theorem sub_gcImpl (h : Sub a x) (i : Nat) : Sub a (gcImpl x i) := (sub_prims a).gcImpl i h
theorem sub_disconnectCell (h : Sub a x) (c : Nat) : Sub a (disconnectCell x c) := (sub_prims a).disconnectCell c h
theorem sub_invalidateTrackable (h : Sub a x) (t : Nat) : Sub a (invalidateTrackable x t) :=
  (sub_prims a).invalidateTrackable t h
theorem sub_clearImpl (h : Sub a x) (i : Nat) : Sub a (clearImpl x i) := (sub_prims a).clearImpl i h
theorem sub_connBlock (h : Sub a x) (p : Option Nat) (b : Bool) : Sub a (connBlock x p b) :=
  (sub_prims a).connBlock p b h
theorem sub_blockAll (h : Sub a x) {i : Nat} {im : Impl} (b : Bool) (hi : aget x.impls i = some im) :
    Sub a (setImpl x i { im with cells := im.cells.map (fun c => { c with slot := { c.slot with blocked := b } }) }) :=
  (sub_prims a).blockAll b h hi

/-- signal objects disappear -/
theorem sub_delG (h : Sub a x) (g : Nat) : Sub a { x with G := adel x.G g } :=
  h.trans ⟨Nat.le_refl _, fun q hq => Or.inl ⟨q, Sigc.Inv.mem_adel hq, rfl, rfl⟩,
    fun q hq => Or.inr ⟨q, Sigc.Inv.mem_adel hq, rfl, rfl⟩,
    fun i v h => Or.inr ⟨i, v, h, Int.le_refl _, rfl⟩, fun _ im h => ⟨im, h, fun c hc => Or.inr ⟨c, hc, rfl⟩⟩⟩

theorem sub_forceDelG (h : Sub a x) (g : Nat) : Sub a (Sigc.Inv.forceDelG x g) := by
  unfold Sigc.Inv.forceDelG
  split
  · exact h
  · simp only []
    split <;> split <;>
      first
      | exact sub_gcImpl (sub_delG (sub_invalidateTrackable h _) g) _
      | exact sub_delG (sub_invalidateTrackable h _) g
      | exact sub_gcImpl (sub_delG h g) _
      | exact sub_delG h g

theorem sub_collect (h : Sub a x) : Sub a (collect x) :=
  (sub_prims a).collect (fun _ _ h => h.congr rfl rfl rfl rfl) (fun _ _ h => h.congr rfl rfl rfl rfl)
    (Sigc.Inv.dropG_of (fun _ _ h => h.congr rfl rfl rfl rfl) (fun _ g h => sub_forceDelG h g)) h

theorem sub_dropHolder (h : Sub a x) (i : Nat) : Sub a (Sigc.Inv.dropHolder x i) := by
  unfold Sigc.Inv.dropHolder
  split
  · exact h
  · rename_i im hi
    exact h.trans (Sub.setImpl hi (fun c hc => Or.inr ⟨c, hc, rfl⟩))

theorem sub_emitEpi (h : Sub a x) (i m : Nat) : Sub a (Sigc.Inv.emitEpi x i m) := by
  unfold Sigc.Inv.emitEpi
  split
  · exact sub_fail h _
  · refine sub_collect (sub_gcImpl (sub_dropHolder (sub_unrefExec ?_ _) _) _)
    split
    · exact sub_eraseCell h _ _
    · exact sub_fail h _

theorem sub_emitPro (h : Sub a x) {i : Nat} {im : Impl} (hi : aget x.impls i = some im) :
    Sub a (Sigc.Inv.emitPro x i im) := by
  refine h.trans ((sub_next (Sub.refl x) (Nat.le_succ _)).trans (Sub.setImpl (s := x.fresh.2) hi ?_))
  intro c' hc'
  simp only [List.mem_append, List.mem_singleton] at hc'
  rcases hc' with hc' | rfl
  · exact Or.inr ⟨c', hc', rfl⟩
  · exact Or.inl rfl

/-- the functor and the taint of a slot variable stay (or the functor goes) -/
theorem sub_setS (h : Sub a x) (i : Nat) (v' : SlotVar)
    (hv : fnOf v'.slot = none ∨ ∃ j v, aget x.S j = some v ∧ v.taint ≤ v'.taint ∧ fnOf v'.slot = fnOf v.slot) :
    Sub a { x with S := aset x.S i v' } := by
  refine h.trans ⟨Nat.le_refl _, fun q hq => Or.inl ⟨q, hq, rfl, rfl⟩, fun q hq => Or.inr ⟨q, hq, rfl, rfl⟩, ?_,
    fun _ im h => ⟨im, h, fun c hc => Or.inr ⟨c, hc, rfl⟩⟩⟩
  intro j w hw
  simp only [Sigc.Inv.aget_aset] at hw
  split at hw
  · cases hw; exact hv
  · exact Or.inr ⟨j, w, hw, Int.le_refl _, rfl⟩

theorem sub_delS (h : Sub a x) (i : Nat) : Sub a { x with S := adel x.S i } := by
  refine h.trans ⟨Nat.le_refl _, fun q hq => Or.inl ⟨q, hq, rfl, rfl⟩, fun q hq => Or.inr ⟨q, hq, rfl, rfl⟩, ?_,
    fun _ im h => ⟨im, h, fun c hc => Or.inr ⟨c, hc, rfl⟩⟩⟩
  intro j w hw
  simp only [Sigc.Inv.aget_adel] at hw
  split at hw
  · cases hw
  · exact Or.inr ⟨j, w, hw, Int.le_refl _, rfl⟩

end

end Sigc.Fuel
