import Sigc.Lemmas.InvConn
/-!
# `Dead cid`: validity of a cell is monotone

once the id `cid` has been allocated and no cell with this id is valid (`!empty()`), this stays so for
ever: no function of the model turns `call_` from false to true for an existing cell, ids are never
reused, and an erased cell never comes back.
-/
namespace Sigc.Inv
open Sigc.Model

def DeadI (cid : Nat) (impls : List (Nat × Impl)) (next : Nat) : Prop :=
  cid < next ∧ ∀ i im c, aget impls i = some im → c ∈ im.cells → c.id = cid → c.slot.empty = true

def Dead (cid : Nat) (s : St) : Prop := DeadI cid s.impls s.next

theorem SlotLe.empty {a b : SlotB} (h : SlotLe a b) (hb : b.empty = true) : a.empty = true := by
  unfold SlotB.empty at *
  rcases h with e | e | e
  · rw [e]; exact hb
  · rw [e]; unfold SlotB.disconnectRep; cases hr : b.rep <;> simp [hr]
  · rw [e]; unfold SlotB.invalidate; cases hr : b.rep <;> simp [hr]

theorem DeadI.mono {cid : Nat} {impls : List (Nat × Impl)} {n n' : Nat} (h : DeadI cid impls n) (hn : n ≤ n') :
    DeadI cid impls n' := ⟨Nat.lt_of_lt_of_le h.1 hn, h.2⟩

/-- replacing the cells of impl `i`: every new cell with id `cid` must be empty -/
theorem DeadI.aset {cid : Nat} {impls : List (Nat × Impl)} {n n' : Nat} (h : DeadI cid impls n) {i : Nat}
    {im' : Impl} (hn : n ≤ n') (hc : ∀ c ∈ im'.cells, c.id = cid → c.slot.empty = true) :
    DeadI cid (Model.aset impls i im') n' := by
  refine ⟨Nat.lt_of_lt_of_le h.1 hn, ?_⟩
  intro j jm c hj hcm he
  rw [aget_aset] at hj
  split at hj
  · cases hj; exact hc c hcm he
  · exact h.2 j jm c hj hcm he

theorem DeadI.adel {cid : Nat} {impls : List (Nat × Impl)} {n : Nat} (h : DeadI cid impls n) (i : Nat) :
    DeadI cid (Model.adel impls i) n := by
  refine ⟨h.1, ?_⟩
  intro j jm c hj hcm he
  rw [aget_adel] at hj
  split at hj
  · cases hj
  · exact h.2 j jm c hj hcm he

theorem Dead.prims (cid : Nat) : PrimsA (Dead cid) where
  upd s i im g e d _ h hi hg := by
    refine DeadI.aset h (Nat.le_refl _) ?_
    intro c' hc' he
    obtain ⟨c, hc, rfl⟩ := List.mem_map.1 hc'
    exact (hg c).2.empty (h.2 i im c hi hc ((hg c).1 ▸ he))
  filter s i im p d ids _ h hi _ := by
    show DeadI cid (nullConnsList _ _).impls (nullConnsList _ _).next
    simp only [nullConnsList_impls, nullConnsList_next]
    refine DeadI.aset h (Nat.le_refl _) ?_
    intro c hc he
    exact h.2 i im c hi (List.mem_filter.1 hc).1 he
  delImpl s i im _ h _ _ _ := by
    show DeadI cid (nullConnsList _ _).impls (nullConnsList _ _).next
    simp only [nullConnsList_impls, nullConnsList_next]
    exact DeadI.adel h i
  invalS s t _ h := h

theorem Dead.fail {cid : Nat} {s : St} (m : String) (h : Dead cid s) : Dead cid (s.fail m) := by
  unfold St.fail; split <;> exact h

theorem Dead.mkFun {cid : Nat} {s s' : St} {v : Bool} {spec : FSpec} {fn : Fun} (h : Dead cid s)
    (hm : mkFun s v spec = .ok (fn, s')) : Dead cid s' := by
  obtain ⟨h1, h2, _⟩ := mkFun_frame hm
  unfold Dead; rw [h1]; exact DeadI.mono h h2

theorem Dead.ensureImpl {cid : Nat} {s s1 : St} {g i : Nat} (h : Dead cid s)
    (he : ensureImpl s g = some (s1, i)) : Dead cid s1 := by
  unfold Model.ensureImpl at he
  split at he
  · cases he
  · split at he
    · cases he; exact h
    · simp only [St.fresh, Option.some.injEq, Prod.mk.injEq] at he
      obtain ⟨rfl, rfl⟩ := he
      exact DeadI.aset h (Nat.le_succ _) (fun c hc => by cases hc)

theorem Dead.insertCell {cid : Nat} {s : St} (i : Nat) (first : Bool) (sl : SlotB) (h : Dead cid s) :
    Dead cid (insertCell s i first sl).fst := by
  unfold Model.insertCell
  simp only [St.fresh]
  split
  · exact Dead.fail _ (DeadI.mono h (Nat.le_succ _))
  · rename_i im hi
    refine DeadI.aset h (Nat.le_succ _) ?_
    have hne : s.next ≠ cid := Nat.ne_of_gt h.1
    intro c hc he
    cases first
    · simp only [Bool.false_eq_true, if_false, List.mem_append, List.mem_cons, List.not_mem_nil, or_false] at hc
      rcases hc with hc | hc
      · exact h.2 i im c hi hc he
      · subst hc; exact absurd he hne
    · simp only [if_true, List.mem_cons] at hc
      rcases hc with hc | hc
      · subst hc; exact absurd he hne
      · exact h.2 i im c hi hc he

theorem Dead.emitPro {cid : Nat} {s : St} {i : Nat} {im : Impl} (h : Dead cid s) (hi : aget s.impls i = some im) :
    Dead cid (emitPro s i im) := by
  refine DeadI.aset h (Nat.le_succ _) ?_
  intro c hc he
  simp only [List.mem_append, List.mem_cons, List.not_mem_nil, or_false] at hc
  rcases hc with hc | hc
  · exact h.2 i im c hi hc he
  · subst hc; rfl

theorem Dead.dropHolder {cid : Nat} {s : St} (i : Nat) (h : Dead cid s) : Dead cid (dropHolder s i) := by
  unfold Inv.dropHolder
  split
  · exact h
  · rename_i im hi
    exact DeadI.aset h (Nat.le_refl _) (fun c hc he => h.2 i im c hi hc he)

theorem dead_succ {cid : Nat} {impls : List (Nat × Impl)} {n : Nat} (h : DeadI cid impls n) :
    DeadI cid impls (n+1) := h.mono (Nat.le_succ _)
theorem dead_invalidateTrackable {cid : Nat} {s : St} {t : Nat} (h : DeadI cid s.impls s.next) :
    DeadI cid (invalidateTrackable s t).impls (invalidateTrackable s t).next :=
  (Dead.prims cid).invalidateTrackable t h
theorem dead_gcImpl {cid : Nat} {s : St} {i : Nat} (h : DeadI cid s.impls s.next) :
    DeadI cid (gcImpl s i).impls (gcImpl s i).next := (Dead.prims cid).gcImpl i h
theorem dead_disconnectCell {cid : Nat} {s : St} {i : Nat} (h : DeadI cid s.impls s.next) :
    DeadI cid (disconnectCell s i).impls (disconnectCell s i).next := (Dead.prims cid).disconnectCell i h
theorem dead_clearImpl {cid : Nat} {s : St} {i : Nat} (h : DeadI cid s.impls s.next) :
    DeadI cid (clearImpl s i).impls (clearImpl s i).next := (Dead.prims cid).clearImpl i h
theorem dead_connBlock {cid : Nat} {s : St} {p : Option Nat} {b : Bool} (h : DeadI cid s.impls s.next) :
    DeadI cid (connBlock s p b).impls (connBlock s p b).next := (Dead.prims cid).connBlock p b h
theorem dead_insertCell {cid : Nat} {s : St} {i : Nat} {first : Bool} {sl : SlotB} (h : DeadI cid s.impls s.next) :
    DeadI cid (insertCell s i first sl).fst.impls (insertCell s i first sl).fst.next :=
  Dead.insertCell i first sl h
theorem dead_blockAll {cid : Nat} {s : St} {i : Nat} {x : Impl} {b : Bool} (hi : aget s.impls i = some x)
    (h : DeadI cid s.impls s.next) :
    DeadI cid
      (aset s.impls i { x with cells := x.cells.map (fun c => { c with slot := { c.slot with blocked := b } }) })
      s.next :=
  (Dead.prims cid).blockAll b h hi

set_option maxHeartbeats 400000 in
theorem Dead_simple (cid : Nat) (s : St) (op : Op) (s' : St) (r : String) (hI : Dead cid s)
    (h : stepSimple s op = some (s', r)) : Dead cid s' := by
  cases op <;> simp only [stepSimple] at h
  all_goals (repeat' split at h)
  all_goals (first | (cases h; done) | skip)
  all_goals (simp only [Option.some.injEq, Prod.mk.injEq] at h; obtain ⟨rfl, _⟩ := h)
  all_goals (first | exact hI | skip)
  all_goals (
    try (have h1 := Dead.mkFun hI ‹_›)
    try (have h2 := Dead.ensureImpl hI ‹_›)
    try (have h3 := Dead.ensureImpl ‹Dead _ _› ‹_›)
    simp only [Dead] at *
    first | done | simp (maxDischargeDepth := 8) only [St.fresh, setConn, setImpl, dead_succ,
      dead_invalidateTrackable, dead_gcImpl, dead_disconnectCell, dead_clearImpl, dead_connBlock, dead_insertCell,
      dead_blockAll, *])

theorem Dead_forceDelG (cid : Nat) (s : St) (g : Nat) (hI : Dead cid s) : Dead cid (forceDelG s g) := by
  unfold forceDelG
  split
  · exact hI
  · simp only []
    split <;> split <;>
    · simp only [Dead] at *
      first | done | simp (maxDischargeDepth := 8) only [dead_invalidateTrackable, dead_gcImpl, *]

theorem Dead.stable (cid : Nat) : Stable (Dead cid) where
  log _ _ _ h := h
  fail s m _ h := Dead.fail m h
  depth _ _ _ h := h
  steps _ _ _ h := h
  incall _ _ _ _ _ h _ := h
  simple s op s' r _ h hs := Dead_simple cid s op s' r h hs
  collect s _ h := (Dead.prims cid).collect (fun _ _ h => h) (fun _ _ h => h)
    (dropG_of (fun _ _ h => h) (Dead_forceDelG cid)) h
  pro _ _ _ _ h hi := Dead.emitPro h hi
  erase _ i m _ h := (Dead.prims cid).eraseCell i m h
  unref _ i _ h := (Dead.prims cid).unrefExec i h
  drop _ i _ h := Dead.dropHolder i h
  gc _ i _ h := (Dead.prims cid).gcImpl i h
  forceDel s g _ h := Dead_forceDelG cid s g h

/-! ### `Dead` and `connConnected` -/

theorem eq_of_mem_nodup_ids {cs : List Cell} (hn : (cs.map (·.id)).Nodup) {a b : Cell} (ha : a ∈ cs) (hb : b ∈ cs)
    (he : a.id = b.id) : a = b := by
  induction cs with
  | nil => cases ha
  | cons c t ih =>
    simp only [List.map_cons, List.nodup_cons] at hn
    cases ha with
    | head =>
      cases hb with
      | head => rfl
      | tail _ hb => exact absurd (List.mem_map.2 ⟨b, hb, he.symm⟩) hn.1
    | tail _ ha =>
      cases hb with
      | head => exact absurd (List.mem_map.2 ⟨a, ha, he⟩) hn.1
      | tail _ hb => exact ih hn.2 ha hb

/-- in a well-formed state the lookup of a cell's id finds exactly that cell -/
theorem getCell_of_mem {s : St} (hw : WF s) {i : Nat} {im : Impl} {c : Cell} (hi : aget s.impls i = some im)
    (hc : c ∈ im.cells) : getCell s c.id = some (i, c) := by
  have hne : getCell s c.id ≠ none := (getCell_ne_none_iff hw.keys c.id).2 ⟨i, im, hi, c, hc, rfl⟩
  cases hg : getCell s c.id with
  | none => exact absurd hg hne
  | some x =>
    obtain ⟨j, d⟩ := x
    obtain ⟨jm, hj, _, hd, hde⟩ := getCell_some hg
    have e : i = j := hw.cellU i j im jm c d hi hj hc hd hde.symm
    subst e
    rw [hi] at hj; cases hj
    rw [eq_of_mem_nodup_ids (hw.cellN i im hi) hd hc hde]

theorem dead_iff_not_connected {s : St} (hw : WF s) {cid : Nat} (hlt : cid < s.next) :
    Dead cid s ↔ connConnected s (some cid) = false := by
  constructor
  · intro h
    unfold connConnected
    simp only []
    split
    · rfl
    · rename_i i c hg
      obtain ⟨im, hi, _, hc, he⟩ := getCell_some hg
      simp [h.2 i im c hi hc he]
  · intro h
    refine ⟨hlt, ?_⟩
    intro i im c hi hc he
    have hg := getCell_of_mem hw hi hc
    rw [he] at hg
    unfold connConnected at h
    simp only [hg, Bool.not_eq_false'] at h
    exact h

end Sigc.Inv
