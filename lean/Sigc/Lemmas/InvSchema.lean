import Sigc.Model
import Sigc.Run
import Sigc.Lemmas.Basic
/-!
# Generic preservation schema for the mutual block of `Sigc.Model`

`StableK I` collects the primitive facts needed for a (family of) state predicate(s) `I k : St → Prop`
to be preserved by every function of the mutual block; `preserved` proves, by one mutual induction
on fuel, that then every function preserves it.  `Stable I` is the unary special case stated with the
primitive steps of the emission epilogue.

`StableKCore` / `StableCore` are the same schemas without the `forceDel` field (the harness teardown's
unconditional destruction of signal objects): they are what the interpreter proper (`runTop`) needs, and
are the right schema for invariants that the teardown deliberately breaks (e.g. "every functor-owned
signal object is still named": the teardown destroys the named objects without asking the owners).
`collect` is a field of the schema; it is derived from the three branches of `collectStep`
(`invalidateTrackable`, `disconnectCell`, `dropHandle`) by `collect_preserved` /
`PrimsA.collect` (`Sigc.Lemmas.InvPrims`); `dropHandle` is definitionally `forceDelG`.
-/
namespace Sigc.Inv
open Sigc.Model

/-- prologue of `emitImpl`: fresh marker id, `signal_impl_holder`, `temp_slot_list` -/
def emitPro (s : St) (i : Nat) (im : Impl) : St :=
  setImpl (s.fresh.2) i { im with exec := im.exec + 1, holders := im.holders + 1,
                                   cells := im.cells ++ [{ id := s.next, slot := {}, linked := false }] }

/-- `holders - 1` (`~signal_impl_holder` before the `shared_ptr` release) -/
def dropHolder (s : St) (i : Nat) : St :=
  match aget s.impls i with
  | none => s
  | some im3 => setImpl s i { im3 with holders := im3.holders - 1 }

/-- epilogue of `emitImpl`: `~temp_slot_list`, `~signal_impl_holder` -/
def emitEpi (s : St) (i m : Nat) : St :=
  match aget s.impls i with
  | none => s.fail "emit: impl destroyed during emission"
  | some im2 =>
    collect (gcImpl (dropHolder (unrefExec
      (if im2.cells.any (·.id = m) then eraseCell s i m else s.fail "emit: end marker missing") i) i) i)

theorem emitImpl_succ (f : Nat) (P : Prog) (s : St) (fl : Flavour) (i arg : Nat) (strat : Strat) :
    emitImpl (f+1) P s fl (some i) arg strat =
      match aget s.impls i with
      | none => some (s.fail "emit: dangling impl", .ok, 0)
      | some im =>
        if !fl.isAcc && im.cells.isEmpty then some (s, .ok, 0) else
        let first := match im.cells with
          | [] => s.next
          | c :: _ => c.id
        match (if fl.isAcc then runStrat f P (emitPro s i im) i first s.next arg (strat.forFlavour fl)
               else emitLoop f P (emitPro s i im) i first s.next arg 0) with
        | none => none
        | some (s2, o, v) => some (emitEpi s2 i s.next, o, v) := by
  rw [emitImpl]
  cases h : aget s.impls i with
  | none => rfl
  | some im =>
    simp only []
    split
    · rfl
    · simp only [St.fresh, emitPro]
      generalize (if fl.isAcc = true then _ else _ : Option (St × Outcome × Nat)) = r
      cases r with
      | none => rfl
      | some x =>
        obtain ⟨s2, o, v⟩ := x
        simp only [emitEpi, dropHolder]
        cases h2 : aget s2.impls i <;> rfl


/-- what `teardown` does to a signal object: `delG` without the `pinned` refusal -/
def forceDelG (s : St) (g : Nat) : St :=
  match aget s.G g with
  | none => s
  | some h =>
    let s := if h.fl.isTrackable then invalidateTrackable s h.trk else s
    let s := { s with G := adel s.G g }
    match h.impl with
    | some im => gcImpl s im
    | none => s

def tdQuiet (f : Nat) (P : Prog) (s : St) (op : Op) : Option St :=
  match execOp f P s op with
  | none => none
  | some (s, _) => some s

def tdSeq (f : Nat) (P : Prog) (s : Option St) (ops : List Op) : Option St :=
  ops.foldl (fun acc op => acc.bind (fun s => tdQuiet f P s op)) s

theorem teardown_eq (f : Nat) (P : Prog) (s : St) :
    teardown f P s =
      match tdSeq f P (some s) ((sortedKeys s.K).map Op.delK) with
      | none => none
      | some s =>
        match tdSeq f P (some s) ((sortedKeys s.C).map Op.delC ++ (sortedKeys s.S).map Op.delS
                          ++ (sortedKeys s.G).map Op.clear) with
        | none => none
        | some s =>
          let s := (sortedKeys s.G).foldl forceDelG s
          tdSeq f P (some s) ((sortedKeys s.T).map Op.delT) := rfl

theorem tdSeq_none (f : Nat) (P : Prog) (ops : List Op) : tdSeq f P none ops = none := by
  induction ops with
  | nil => rfl
  | cons o os ih => simpa [tdSeq] using ih

theorem tdSeq_cons (f : Nat) (P : Prog) (s : St) (o : Op) (os : List Op) :
    tdSeq f P (some s) (o :: os) = tdSeq f P (tdQuiet f P s o) os := by
  simp [tdSeq]

/-- prologue of a direct slot invocation `callS i`: one more invocation of the variable in progress -/
def callPro (s : St) (i : Nat) (v : SlotVar) : St :=
  { s with S := aset s.S i { v with incall := v.incall + 1 } }

/-- epilogue of `callS i` -/
def callEpi (s : St) (i : Nat) : St :=
  match aget s.S i with
  | some v2 => { s with S := aset s.S i { v2 with incall := v2.incall - 1 } }
  | none => s.fail "callS: slot variable destroyed during its own call"

theorem collectN_preserved {I : St → Prop} (hstep : ∀ s s', I s → collectStep s = some s' → I s') :
    ∀ n s, I s → I (collectN n s) := by
  intro n
  induction n with
  | zero => intro s h; exact h
  | succ n ih =>
    intro s h
    simp only [collectN]
    split
    · rename_i s' hs; exact ih _ (hstep _ _ h hs)
    · exact h

/-- `collect` preserves whatever each `collectStep` preserves -/
theorem collect_preserved {I : St → Prop} (hstep : ∀ s s', I s → collectStep s = some s' → I s')
    (s : St) (h : I s) : I (collect s) :=
  collectN_preserved hstep _ s h

/-- the primitive preservation facts for a family of predicates `I k`, as far as the interpreter proper
    (everything but the harness teardown) is concerned; the emission prologue may change the index (`k'`),
    the epilogue must bring it back -/
structure StableKCore {κ : Type} (I : κ → St → Prop) : Prop where
  log : ∀ k s e, I k s → I k (s.log e)
  fail : ∀ k s m, I k s → I k (s.fail m)
  depth : ∀ k (s : St) d, I k s → I k { s with depth := d }
  steps : ∀ k (s : St) n, I k s → I k { s with steps := n }
  call : ∀ k (s : St) i (v : SlotVar), I k s → aget s.S i = some v →
    ∃ k', I k' (callPro s i v) ∧ ∀ s2, I k' s2 → I k (callEpi s2 i)
  simple : ∀ k s op s' r, I k s → stepSimple s op = some (s', r) → I k s'
  collect : ∀ k s, I k s → I k (collect s)
  emit : ∀ k s i im, I k s → aget s.impls i = some im →
    ∃ k', I k' (emitPro s i im) ∧ ∀ s2, I k' s2 → I k (emitEpi s2 i s.next)

/-- the primitive preservation facts for a family of predicates `I k`; the emission prologue may
    change the index (`k'`), the epilogue must bring it back -/
structure StableK {κ : Type} (I : κ → St → Prop) : Prop where
  log : ∀ k s e, I k s → I k (s.log e)
  fail : ∀ k s m, I k s → I k (s.fail m)
  depth : ∀ k (s : St) d, I k s → I k { s with depth := d }
  steps : ∀ k (s : St) n, I k s → I k { s with steps := n }
  call : ∀ k (s : St) i (v : SlotVar), I k s → aget s.S i = some v →
    ∃ k', I k' (callPro s i v) ∧ ∀ s2, I k' s2 → I k (callEpi s2 i)
  simple : ∀ k s op s' r, I k s → stepSimple s op = some (s', r) → I k s'
  collect : ∀ k s, I k s → I k (collect s)
  emit : ∀ k s i im, I k s → aget s.impls i = some im →
    ∃ k', I k' (emitPro s i im) ∧ ∀ s2, I k' s2 → I k (emitEpi s2 i s.next)
  forceDel : ∀ k s g, I k s → I k (forceDelG s g)

theorem StableK.core {κ : Type} {I : κ → St → Prop} (h : StableK I) : StableKCore I :=
  ⟨h.log, h.fail, h.depth, h.steps, h.call, h.simple, h.collect, h.emit⟩

section
variable {κ : Type} {I : κ → St → Prop}

def PresAll (I : κ → St → Prop) (f : Nat) : Prop :=
  (∀ k P s fn arg r, I k s → invokeFun f P s fn arg = some r → I k r.1) ∧
  (∀ k P s b r, I k s → runBody f P s b = some r → I k r.1) ∧
  (∀ k P s l r, I k s → execLine f P s l = some r → I k r.1) ∧
  (∀ k P s fl impl arg strat r, I k s → emitImpl f P s fl impl arg strat = some r → I k r.1) ∧
  (∀ k P s i cur m arg v r, I k s → emitLoop f P s i cur m arg v = some r → I k r.1) ∧
  (∀ k P s i it arg r, I k s → deref f P s i it arg = some r → I k r.1) ∧
  (∀ k P s i it m arg mode kk v r, I k s → accLoop f P s i it m arg mode kk v = some r → I k r.1) ∧
  (∀ k P s i it first arg v r, I k s → revLoop f P s i it first arg v = some r → I k r.1) ∧
  (∀ k P s i it first m arg cs v r, I k s → walkLoop f P s i it first m arg cs v = some r → I k r.1) ∧
  (∀ k P s i first m arg strat r, I k s → runStrat f P s i first m arg strat = some r → I k r.1) ∧
  (∀ k P s op r, I k s → execOp f P s op = some r → I k r.1)

theorem invokeFun_step (hS : StableKCore I) {f : Nat} (ih : PresAll I f) :
    ∀ k P s fn arg r, I k s → invokeFun (f+1) P s fn arg = some r → I k r.1 := by
  obtain ⟨ihInvoke, ihBody, ihLine, ihEmit, ihLoop, ihDeref, ihAcc, ihRev, ihWalk, ihStrat, ihOp⟩ := ih
  intro k P s fn arg r hI h
  cases fn with
  | leaf fid ts =>
    rw [invokeFun] at h
    split at h
    · cases h; exact hS.log _ _ _ hI
    · split at h
      · cases h
      · rename_i heq
        cases h
        exact hS.depth _ _ _ (ihBody _ _ _ _ _ (hS.depth _ _ _ (hS.log _ _ _ hI)) heq)
  | nest b inner =>
    cases inner with
    | none => rw [invokeFun] at h; cases h; exact hI
    | some g =>
      rw [invokeFun] at h
      split at h
      · cases h; exact hI
      · exact ihInvoke _ _ _ _ _ _ hI h
  | fwd o ts =>
    rw [invokeFun] at h
    split at h
    · cases h; exact hS.fail _ _ _ hI
    · exact ihEmit _ _ _ _ _ _ _ _ hI h
  | owner fid ts ks =>
    rw [invokeFun] at h
    split at h
    · cases h; exact hS.log _ _ _ hI
    · split at h
      · cases h
      · rename_i heq
        cases h
        exact hS.depth _ _ _ (ihBody _ _ _ _ _ (hS.depth _ _ _ (hS.log _ _ _ hI)) heq)

theorem runBody_step (_hS : StableKCore I) {f : Nat} (ih : PresAll I f) :
    ∀ k P s b r, I k s → runBody (f+1) P s b = some r → I k r.1 := by
  obtain ⟨ihInvoke, ihBody, ihLine, ihEmit, ihLoop, ihDeref, ihAcc, ihRev, ihWalk, ihStrat, ihOp⟩ := ih
  intro k P s b r hI h
  cases b with
  | nil => rw [runBody] at h; cases h; exact hI
  | cons l ls =>
    rw [runBody] at h
    split at h
    · cases h
    · rename_i heq; cases h; exact ihLine _ _ _ _ _ hI heq
    · rename_i heq; exact ihBody _ _ _ _ _ (ihLine _ _ _ _ _ hI heq) h

theorem execLine_step (hS : StableKCore I) {f : Nat} (ih : PresAll I f) :
    ∀ k P s l r, I k s → execLine (f+1) P s l = some r → I k r.1 := by
  obtain ⟨ihInvoke, ihBody, ihLine, ihEmit, ihLoop, ihDeref, ihAcc, ihRev, ihWalk, ihStrat, ihOp⟩ := ih
  intro k P s l r hI h
  rw [execLine] at h
  split at h
  · cases h
  · rename_i heq; cases h; exact hS.collect _ _ (hS.log _ _ _ (ihOp _ _ _ _ _ (hS.steps _ _ _ hI) heq))
  · rename_i heq; cases h; exact hS.collect _ _ (hS.log _ _ _ (ihOp _ _ _ _ _ (hS.steps _ _ _ hI) heq))

theorem emitImpl_step (hS : StableKCore I) {f : Nat} (ih : PresAll I f) :
    ∀ k P s fl impl arg strat r, I k s → emitImpl (f+1) P s fl impl arg strat = some r → I k r.1 := by
  obtain ⟨ihInvoke, ihBody, ihLine, ihEmit, ihLoop, ihDeref, ihAcc, ihRev, ihWalk, ihStrat, ihOp⟩ := ih
  intro k P s fl impl arg strat r hI h
  cases impl with
  | none => rw [emitImpl] at h; cases h; exact hI
  | some i =>
    rw [emitImpl_succ] at h
    split at h
    · cases h; exact hS.fail _ _ _ hI
    · rename_i im him
      split at h
      · cases h; exact hI
      · obtain ⟨k', hpro, hepi⟩ := hS.emit k s i im hI him
        simp only [] at h
        split at h
        · cases h
        · rename_i s2 o v heq
          cases h
          apply hepi
          split at heq
          · exact ihStrat _ _ _ _ _ _ _ _ _ hpro heq
          · exact ihLoop _ _ _ _ _ _ _ _ _ hpro heq

theorem emitLoop_step (hS : StableKCore I) {f : Nat} (ih : PresAll I f) :
    ∀ k P s i cur m arg v r, I k s → emitLoop (f+1) P s i cur m arg v = some r → I k r.1 := by
  obtain ⟨ihInvoke, ihBody, ihLine, ihEmit, ihLoop, ihDeref, ihAcc, ihRev, ihWalk, ihStrat, ihOp⟩ := ih
  intro k P s i cur m arg v r hI h
  rw [emitLoop] at h
  split at h
  · cases h; exact hI
  split at h
  · cases h; exact hS.fail _ _ _ hI
  split at h
  · cases h; exact hS.fail _ _ _ hI
  rename_i im him c hc
  -- the step
  have hstep : ∀ st, (match c.slot.rep with
          | some { call := true, fn := some fn } =>
            if c.slot.blocked then some (s, Outcome.ok, v) else invokeFun f P s fn arg
          | _ => some (s, Outcome.ok, v)) = some st → I k st.1 := by
    intro st hst
    split at hst
    · split at hst
      · cases hst; exact hI
      · exact ihInvoke _ _ _ _ _ _ hI hst
    · cases hst; exact hI
  simp only [] at h
  split at h
  · cases h
  · rename_i heq; cases h; exact hstep _ heq
  · rename_i s1 v1 heq
    have h1 : I k s1 := hstep _ heq
    split at h
    · cases h; exact hS.fail _ _ _ h1
    split at h
    · cases h; exact hS.fail _ _ _ h1
    · exact ihLoop _ _ _ _ _ _ _ _ _ h1 h

theorem deref_step (hS : StableKCore I) {f : Nat} (ih : PresAll I f) :
    ∀ k P s i it arg r, I k s → deref (f+1) P s i it arg = some r → I k r.1 := by
  obtain ⟨ihInvoke, ihBody, ihLine, ihEmit, ihLoop, ihDeref, ihAcc, ihRev, ihWalk, ihStrat, ihOp⟩ := ih
  intro k P s i it arg r hI h
  rw [deref] at h
  split at h
  · cases h; exact hS.fail _ _ _ hI
  split at h
  · cases h; exact hS.fail _ _ _ hI
  split at h
  · split at h
    · cases h; exact hI
    split at h
    · cases h
    · rename_i heq; cases h; exact ihInvoke _ _ _ _ _ _ hI heq
    · rename_i heq; cases h; exact ihInvoke _ _ _ _ _ _ hI heq
  · cases h; exact hI

theorem accLoop_step (hS : StableKCore I) {f : Nat} (ih : PresAll I f) :
    ∀ k P s i it m arg mode kk v r, I k s → accLoop (f+1) P s i it m arg mode kk v = some r → I k r.1 := by
  obtain ⟨ihInvoke, ihBody, ihLine, ihEmit, ihLoop, ihDeref, ihAcc, ihRev, ihWalk, ihStrat, ihOp⟩ := ih
  intro k P s i it m arg mode kk v r hI h
  rw [accLoop] at h
  split at h
  · cases h; exact hI
  have hadv : ∀ (s : St) (it : IterBuf) (r : Nat) st, I k s →
      (match aget s.impls i with
        | none => some (s.fail "acc: impl destroyed", Outcome.ok, r)
        | some im =>
          match succId im.cells it.pos with
          | none => some (s.fail "acc: iterator invalidated", Outcome.ok, r)
          | some nxt => accLoop f P s i { pos := nxt, buf := it.buf } m arg mode kk r) = some st → I k st.1 := by
    intro s it r st hI h
    split at h
    · cases h; exact hS.fail _ _ _ hI
    split at h
    · cases h; exact hS.fail _ _ _ hI
    · exact ihAcc _ _ _ _ _ _ _ _ _ _ _ hI h
  simp only [] at h
  split at h
  · exact hadv _ _ _ _ hI h
  split at h
  · cases h
  · rename_i heq; cases h; exact ihDeref _ _ _ _ _ _ _ hI heq
  · rename_i s1 it1 heq
    have h1 : I k s1 := ihDeref _ _ _ _ _ _ _ hI heq
    split at h
    · cases h; exact h1
    split at h
    · split at h
      · cases h
      · rename_i heq2; cases h; exact ihDeref _ _ _ _ _ _ _ h1 heq2
      · rename_i heq2; exact hadv _ _ _ _ (ihDeref _ _ _ _ _ _ _ h1 heq2) h
    · exact hadv _ _ _ _ h1 h

theorem revLoop_step (hS : StableKCore I) {f : Nat} (ih : PresAll I f) :
    ∀ k P s i it first arg v r, I k s → revLoop (f+1) P s i it first arg v = some r → I k r.1 := by
  obtain ⟨ihInvoke, ihBody, ihLine, ihEmit, ihLoop, ihDeref, ihAcc, ihRev, ihWalk, ihStrat, ihOp⟩ := ih
  intro k P s i it first arg v r hI h
  rw [revLoop] at h
  split at h
  · cases h; exact hI
  split at h
  · cases h; exact hS.fail _ _ _ hI
  split at h
  · cases h; exact hS.fail _ _ _ hI
  simp only [] at h
  split at h
  · cases h
  · rename_i heq; cases h; exact ihDeref _ _ _ _ _ _ _ hI heq
  · rename_i heq; exact ihRev _ _ _ _ _ _ _ _ _ (ihDeref _ _ _ _ _ _ _ hI heq) h

theorem walkLoop_step (hS : StableKCore I) {f : Nat} (ih : PresAll I f) :
    ∀ k P s i it first m arg cs v r, I k s → walkLoop (f+1) P s i it first m arg cs v = some r → I k r.1 := by
  obtain ⟨ihInvoke, ihBody, ihLine, ihEmit, ihLoop, ihDeref, ihAcc, ihRev, ihWalk, ihStrat, ihOp⟩ := ih
  intro k P s i it first m arg cs v r hI h
  cases cs with
  | nil => rw [walkLoop] at h; cases h; exact hI
  | cons c cs =>
    rw [walkLoop] at h
    split at h
    · split at h
      · exact ihWalk _ _ _ _ _ _ _ _ _ _ _ hI h
      split at h
      · cases h
      · rename_i heq; cases h; exact ihDeref _ _ _ _ _ _ _ hI heq
      · rename_i heq; exact ihWalk _ _ _ _ _ _ _ _ _ _ _ (ihDeref _ _ _ _ _ _ _ hI heq) h
    split at h
    · split at h
      · exact ihWalk _ _ _ _ _ _ _ _ _ _ _ hI h
      split at h
      · cases h
      · rename_i heq; cases h; exact ihDeref _ _ _ _ _ _ _ hI heq
      · rename_i heq; exact ihWalk _ _ _ _ _ _ _ _ _ _ _ (ihDeref _ _ _ _ _ _ _ hI heq) h
    split at h
    · split at h
      · exact ihWalk _ _ _ _ _ _ _ _ _ _ _ hI h
      split at h
      · cases h; exact hS.fail _ _ _ hI
      split at h
      · cases h; exact hS.fail _ _ _ hI
      · exact ihWalk _ _ _ _ _ _ _ _ _ _ _ hI h
    split at h
    · split at h
      · exact ihWalk _ _ _ _ _ _ _ _ _ _ _ hI h
      split at h
      · cases h; exact hS.fail _ _ _ hI
      split at h
      · cases h; exact hS.fail _ _ _ hI
      · exact ihWalk _ _ _ _ _ _ _ _ _ _ _ hI h
    · exact ihWalk _ _ _ _ _ _ _ _ _ _ _ hI h

theorem runStrat_step (_hS : StableKCore I) {f : Nat} (ih : PresAll I f) :
    ∀ k P s i first m arg strat r, I k s → runStrat (f+1) P s i first m arg strat = some r → I k r.1 := by
  obtain ⟨ihInvoke, ihBody, ihLine, ihEmit, ihLoop, ihDeref, ihAcc, ihRev, ihWalk, ihStrat, ihOp⟩ := ih
  intro k P s i first m arg strat r hI h
  cases strat <;> rw [runStrat] at h
  · exact ihAcc _ _ _ _ _ _ _ _ _ _ _ hI h
  · exact ihAcc _ _ _ _ _ _ _ _ _ _ _ hI h
  · exact ihAcc _ _ _ _ _ _ _ _ _ _ _ hI h
  · exact ihRev _ _ _ _ _ _ _ _ _ hI h
  · exact ihAcc _ _ _ _ _ _ _ _ _ _ _ hI h
  · exact ihAcc _ _ _ _ _ _ _ _ _ _ _ hI h
  · exact ihWalk _ _ _ _ _ _ _ _ _ _ _ hI h

theorem execOp_step (hS : StableKCore I) {f : Nat} (ih : PresAll I f) :
    ∀ k P s op r, I k s → execOp (f+1) P s op = some r → I k r.1 := by
  obtain ⟨ihInvoke, ihBody, ihLine, ihEmit, ihLoop, ihDeref, ihAcc, ihRev, ihWalk, ihStrat, ihOp⟩ := ih
  intro k P s op r hI h
  rw [execOp.eq_def] at h
  simp only [] at h
  split at h
  · -- callS
    rename_i ci carg
    split at h
    · cases h; exact hI
    rename_i v hv
    split at h
    · cases h; exact hI
    split at h
    · cases h; exact hI
    split at h
    · split at h
      · cases h; exact hI
      split at h
      · cases h
      · rename_i s1 o r1 heq
        obtain ⟨k', hpro, hepi⟩ := hS.call k s ci v hI hv
        have h1 : I k' s1 := ihInvoke _ _ _ _ _ _ hpro heq
        have h2 : I k (callEpi s1 ci) := hepi s1 h1
        split at h <;> (cases h; exact h2)
    · cases h; exact hI
  · -- emit
    split at h
    · cases h; exact hI
    split at h
    · cases h; exact hI
    split at h
    · cases h; exact hI
    split at h
    · cases h
    · rename_i heq
      have h1 := ihEmit _ _ _ _ _ _ _ _ hI heq
      split at h <;> (cases h; exact h1)
    · rename_i heq
      cases h; exact ihEmit _ _ _ _ _ _ _ _ hI heq
  · cases h; exact hI
  · split at h
    · cases h; exact hI
    · split at h
      · rename_i heq; cases h; exact hS.simple _ _ _ _ _ hI heq
      · cases h; exact hI

theorem presAll_zero : PresAll I 0 := by
  refine ⟨?_, ?_, ?_, ?_, ?_, ?_, ?_, ?_, ?_, ?_, ?_⟩
  · intro k P s fn arg r _ h; rw [invokeFun] at h; cases h
  · intro k P s b r _ h; rw [runBody] at h; cases h
  · intro k P s l r _ h; rw [execLine] at h; cases h
  · intro k P s fl impl arg strat r _ h; rw [emitImpl] at h; cases h
  · intro k P s i cur m arg v r _ h; rw [emitLoop] at h; cases h
  · intro k P s i it arg r _ h; rw [deref] at h; cases h
  · intro k P s i it m arg mode kk v r _ h; rw [accLoop] at h; cases h
  · intro k P s i it first arg v r _ h; rw [revLoop] at h; cases h
  · intro k P s i it first m arg cs v r _ h; rw [walkLoop] at h; cases h
  · intro k P s i first m arg strat r _ h; rw [runStrat] at h; cases h
  · intro k P s op r _ h; rw [execOp] at h; cases h

/-- **the schema**: a stable family is preserved by every function of the mutual block, for every
    fuel, whenever the function returns -/
theorem preservedCore (hS : StableKCore I) : ∀ f, PresAll I f := by
  intro f
  induction f with
  | zero => exact presAll_zero
  | succ f ih =>
    exact ⟨invokeFun_step hS ih, runBody_step hS ih, execLine_step hS ih, emitImpl_step hS ih,
      emitLoop_step hS ih, deref_step hS ih, accLoop_step hS ih, revLoop_step hS ih,
      walkLoop_step hS ih, runStrat_step hS ih, execOp_step hS ih⟩

theorem preserved (hS : StableK I) : ∀ f, PresAll I f := preservedCore hS.core

theorem execLine_preservedCore (hS : StableKCore I) {f k P s l r} (hI : I k s) (h : execLine f P s l = some r) :
    I k r.1 := (preservedCore hS f).2.2.1 _ _ _ _ _ hI h

theorem execOp_preservedCore (hS : StableKCore I) {f k P s op r} (hI : I k s) (h : execOp f P s op = some r) :
    I k r.1 := (preservedCore hS f).2.2.2.2.2.2.2.2.2.2 _ _ _ _ _ hI h

theorem emitImpl_preservedCore (hS : StableKCore I) {f k P s fl impl arg strat r} (hI : I k s)
    (h : emitImpl f P s fl impl arg strat = some r) : I k r.1 :=
  (preservedCore hS f).2.2.2.1 _ _ _ _ _ _ _ _ hI h

theorem invokeFun_preservedCore (hS : StableKCore I) {f k P s fn arg r} (hI : I k s)
    (h : invokeFun f P s fn arg = some r) : I k r.1 :=
  (preservedCore hS f).1 _ _ _ _ _ _ hI h

theorem execLine_preserved (hS : StableK I) {f k P s l r} (hI : I k s) (h : execLine f P s l = some r) :
    I k r.1 := execLine_preservedCore hS.core hI h

theorem execOp_preserved (hS : StableK I) {f k P s op r} (hI : I k s) (h : execOp f P s op = some r) :
    I k r.1 := execOp_preservedCore hS.core hI h

theorem emitImpl_preserved (hS : StableK I) {f k P s fl impl arg strat r} (hI : I k s)
    (h : emitImpl f P s fl impl arg strat = some r) : I k r.1 :=
  emitImpl_preservedCore hS.core hI h

theorem invokeFun_preserved (hS : StableK I) {f k P s fn arg r} (hI : I k s)
    (h : invokeFun f P s fn arg = some r) : I k r.1 :=
  invokeFun_preservedCore hS.core hI h

/-- lifted to the top-level runner -/
theorem runTop_preservedCore (hS : StableKCore I) (f : Nat) (k : κ) (P : Prog) :
    ∀ (ls : List Line) (s s' : St), I k s → runTop f P s ls = some s' → I k s' := by
  intro ls
  induction ls with
  | nil => intro s s' hI h; simp only [runTop] at h; cases h; exact hI
  | cons l ls ih =>
    intro s s' hI h
    simp only [runTop] at h
    split at h
    · cases h
    · rename_i heq
      exact ih _ _ (execLine_preservedCore hS hI heq) h

theorem runTop_preserved (hS : StableK I) (f : Nat) (k : κ) (P : Prog) :
    ∀ (ls : List Line) (s s' : St), I k s → runTop f P s ls = some s' → I k s' :=
  runTop_preservedCore hS.core f k P

theorem tdSeq_preserved (hS : StableK I) (f : Nat) (k : κ) (P : Prog) :
    ∀ (ops : List Op) (s s' : St), I k s → tdSeq f P (some s) ops = some s' → I k s' := by
  intro ops
  induction ops with
  | nil => intro s s' hI h; simp only [tdSeq, List.foldl] at h; cases h; exact hI
  | cons o os ih =>
    intro s s' hI h
    rw [tdSeq_cons] at h
    cases hq : tdQuiet f P s o with
    | none => rw [hq, tdSeq_none] at h; cases h
    | some s1 =>
      rw [hq] at h
      refine ih _ _ ?_ h
      simp only [tdQuiet] at hq
      split at hq
      · cases hq
      · rename_i heq; cases hq; exact execOp_preserved hS hI heq

theorem foldl_forceDelG_preserved (hS : StableK I) (k : κ) :
    ∀ (gs : List Nat) (s : St), I k s → I k (gs.foldl forceDelG s) := by
  intro gs
  induction gs with
  | nil => intro s h; exact h
  | cons g gs ih => intro s h; exact ih _ (hS.forceDel _ _ _ h)

/-- lifted to the harness teardown -/
theorem teardown_preserved (hS : StableK I) (f : Nat) (k : κ) (P : Prog) (s s' : St)
    (hI : I k s) (h : teardown f P s = some s') : I k s' := by
  rw [teardown_eq] at h
  split at h
  · cases h
  · rename_i s1 h1
    have i1 := tdSeq_preserved hS f k P _ _ _ hI h1
    split at h
    · cases h
    · rename_i s2 h2
      have i2 := tdSeq_preserved hS f k P _ _ _ i1 h2
      exact tdSeq_preserved hS f k P _ _ _ (foldl_forceDelG_preserved hS k _ _ i2) h

end

/-! ## the unary schema, relative to an already established invariant `J` -/

/-- primitive preservation facts for a unary predicate `I`, each under the extra hypothesis that the
    state satisfies `J` -/
structure StableRel (J I : St → Prop) : Prop where
  log : ∀ s e, J s → I s → I (s.log e)
  fail : ∀ s m, J s → I s → I (s.fail m)
  depth : ∀ (s : St) d, J s → I s → I { s with depth := d }
  steps : ∀ (s : St) n, J s → I s → I { s with steps := n }
  incall : ∀ (s : St) i (v : SlotVar) n, J s → I s → aget s.S i = some v →
    I { s with S := aset s.S i { v with incall := n } }
  simple : ∀ s op s' r, J s → I s → stepSimple s op = some (s', r) → I s'
  collect : ∀ s, J s → I s → I (collect s)
  pro : ∀ s i im, J s → I s → aget s.impls i = some im → I (emitPro s i im)
  erase : ∀ s i m, J s → I s → I (eraseCell s i m)
  unref : ∀ s i, J s → I s → I (unrefExec s i)
  drop : ∀ s i, J s → I s → I (dropHolder s i)
  gc : ∀ s i, J s → I s → I (gcImpl s i)
  forceDel : ∀ s g, J s → I s → I (forceDelG s g)

/-- the unary schema -/
abbrev Stable (I : St → Prop) : Prop := StableRel (fun _ => True) I

theorem Stable.weaken {J I : St → Prop} (h : Stable I) : StableRel J I where
  log s e _ hI := h.log s e trivial hI
  fail s m _ hI := h.fail s m trivial hI
  depth s d _ hI := h.depth s d trivial hI
  steps s n _ hI := h.steps s n trivial hI
  incall s i v n _ hI hv := h.incall s i v n trivial hI hv
  simple s op s' r _ hI hs := h.simple s op s' r trivial hI hs
  collect s _ hI := h.collect s trivial hI
  pro s i im _ hI hi := h.pro s i im trivial hI hi
  erase s i m _ hI := h.erase s i m trivial hI
  unref s i _ hI := h.unref s i trivial hI
  drop s i _ hI := h.drop s i trivial hI
  gc s i _ hI := h.gc s i trivial hI
  forceDel s g _ hI := h.forceDel s g trivial hI

theorem StableRel.and {J I : St → Prop} (hJ : Stable J) (hI : StableRel J I) :
    Stable (fun s => J s ∧ I s) where
  log s e _ h := ⟨hJ.log s e trivial h.1, hI.log s e h.1 h.2⟩
  fail s m _ h := ⟨hJ.fail s m trivial h.1, hI.fail s m h.1 h.2⟩
  depth s d _ h := ⟨hJ.depth s d trivial h.1, hI.depth s d h.1 h.2⟩
  steps s n _ h := ⟨hJ.steps s n trivial h.1, hI.steps s n h.1 h.2⟩
  incall s i v n _ h hv := ⟨hJ.incall s i v n trivial h.1 hv, hI.incall s i v n h.1 h.2 hv⟩
  simple s op s' r _ h hs := ⟨hJ.simple s op s' r trivial h.1 hs, hI.simple s op s' r h.1 h.2 hs⟩
  collect s _ h := ⟨hJ.collect s trivial h.1, hI.collect s h.1 h.2⟩
  pro s i im _ h hi := ⟨hJ.pro s i im trivial h.1 hi, hI.pro s i im h.1 h.2 hi⟩
  erase s i m _ h := ⟨hJ.erase s i m trivial h.1, hI.erase s i m h.1 h.2⟩
  unref s i _ h := ⟨hJ.unref s i trivial h.1, hI.unref s i h.1 h.2⟩
  drop s i _ h := ⟨hJ.drop s i trivial h.1, hI.drop s i h.1 h.2⟩
  gc s i _ h := ⟨hJ.gc s i trivial h.1, hI.gc s i h.1 h.2⟩
  forceDel s g _ h := ⟨hJ.forceDel s g trivial h.1, hI.forceDel s g h.1 h.2⟩

theorem Stable.emitEpi {I : St → Prop} (h : Stable I) (s : St) (i m : Nat) (hI : I s) : I (emitEpi s i m) := by
  unfold Inv.emitEpi
  split
  · exact h.fail _ _ trivial hI
  · apply h.collect _ trivial
    apply h.gc _ _ trivial
    apply h.drop _ _ trivial
    apply h.unref _ _ trivial
    split
    · exact h.erase _ _ _ trivial hI
    · exact h.fail _ _ trivial hI

theorem Stable.toK {I : St → Prop} (h : Stable I) : StableK (fun (_ : Unit) => I) where
  log _ s e hI := h.log s e trivial hI
  fail _ s m hI := h.fail s m trivial hI
  depth _ s d hI := h.depth s d trivial hI
  steps _ s n hI := h.steps s n trivial hI
  call _ s i v hI hv := ⟨(), h.incall s i v _ trivial hI hv, fun s2 h2 => by
    unfold callEpi
    split
    · rename_i hv2; exact h.incall s2 i _ _ trivial h2 hv2
    · exact h.fail _ _ trivial h2⟩
  simple _ s op s' r hI hs := h.simple s op s' r trivial hI hs
  collect _ s hI := h.collect s trivial hI
  emit _ s i im hI hi := ⟨(), h.pro s i im trivial hI hi, fun s2 h2 => h.emitEpi s2 i s.next h2⟩
  forceDel _ s g hI := h.forceDel s g trivial hI

/-- the indexed schema relative to an established unary invariant `J` -/
structure StableKRel {κ : Type} (J : St → Prop) (I : κ → St → Prop) : Prop where
  log : ∀ k s e, J s → I k s → I k (s.log e)
  fail : ∀ k s m, J s → I k s → I k (s.fail m)
  depth : ∀ k (s : St) d, J s → I k s → I k { s with depth := d }
  steps : ∀ k (s : St) n, J s → I k s → I k { s with steps := n }
  call : ∀ k (s : St) i (v : SlotVar), J s → I k s → aget s.S i = some v →
    ∃ k', I k' (callPro s i v) ∧ ∀ s2, J s2 → I k' s2 → I k (callEpi s2 i)
  simple : ∀ k s op s' r, J s → I k s → stepSimple s op = some (s', r) → I k s'
  collect : ∀ k s, J s → I k s → I k (collect s)
  emit : ∀ k s i im, J s → I k s → aget s.impls i = some im →
    ∃ k', I k' (emitPro s i im) ∧ ∀ s2, J s2 → I k' s2 → I k (emitEpi s2 i s.next)
  forceDel : ∀ k s g, J s → I k s → I k (forceDelG s g)

theorem StableKRel.and {κ : Type} {J : St → Prop} {I : κ → St → Prop} (hJ : Stable J) (hI : StableKRel J I) :
    StableK (fun k s => J s ∧ I k s) where
  log k s e h := ⟨hJ.log s e trivial h.1, hI.log k s e h.1 h.2⟩
  fail k s m h := ⟨hJ.fail s m trivial h.1, hI.fail k s m h.1 h.2⟩
  depth k s d h := ⟨hJ.depth s d trivial h.1, hI.depth k s d h.1 h.2⟩
  steps k s n h := ⟨hJ.steps s n trivial h.1, hI.steps k s n h.1 h.2⟩
  call k s i v h hv := by
    obtain ⟨k', hp, he⟩ := hI.call k s i v h.1 h.2 hv
    refine ⟨k', ⟨hJ.incall s i v _ trivial h.1 hv, hp⟩, fun s2 h2 => ⟨?_, he s2 h2.1 h2.2⟩⟩
    unfold callEpi
    split
    · rename_i hv2; exact hJ.incall s2 i _ _ trivial h2.1 hv2
    · exact hJ.fail _ _ trivial h2.1
  simple k s op s' r h hs := ⟨hJ.simple s op s' r trivial h.1 hs, hI.simple k s op s' r h.1 h.2 hs⟩
  collect k s h := ⟨hJ.collect s trivial h.1, hI.collect k s h.1 h.2⟩
  emit k s i im h hi := by
    obtain ⟨k', hp, he⟩ := hI.emit k s i im h.1 h.2 hi
    exact ⟨k', ⟨hJ.pro s i im trivial h.1 hi, hp⟩,
      fun s2 h2 => ⟨hJ.emitEpi s2 i s.next h2.1, he s2 h2.1 h2.2⟩⟩
  forceDel k s g h := ⟨hJ.forceDel s g trivial h.1, hI.forceDel k s g h.1 h.2⟩

/-- every terminating run of every program ends in a state satisfying a stable predicate that holds
    initially -/
theorem Stable.runTop {I : St → Prop} (h : Stable I) (h0 : I {}) (f : Nat) (P : Prog) (s : St)
    (hr : runTop f P {} P.top = some s) : I s :=
  runTop_preserved h.toK f () P _ _ _ h0 hr

theorem Stable.runTop_from {I : St → Prop} (h : Stable I) (f : Nat) (P : Prog) (ls : List Line) (s s' : St)
    (hs : I s) (hr : Model.runTop f P s ls = some s') : I s' :=
  runTop_preserved h.toK f () P _ _ _ hs hr

theorem Stable.teardown {I : St → Prop} (h : Stable I) (f : Nat) (P : Prog) (s s' : St)
    (hs : I s) (hr : Model.teardown f P s = some s') : I s' :=
  teardown_preserved h.toK f () P _ _ hs hr

theorem Stable.execOp {I : St → Prop} (h : Stable I) {f P s op r}
    (hs : I s) (hr : Model.execOp f P s op = some r) : I r.1 :=
  execOp_preserved h.toK (k := ()) hs hr

theorem Stable.execLine {I : St → Prop} (h : Stable I) {f P s l r}
    (hs : I s) (hr : Model.execLine f P s l = some r) : I r.1 :=
  execLine_preserved h.toK (k := ()) hs hr

theorem Stable.emitImpl {I : St → Prop} (h : Stable I) {f P s fl impl arg strat r}
    (hs : I s) (hr : Model.emitImpl f P s fl impl arg strat = some r) : I r.1 :=
  emitImpl_preserved h.toK (k := ()) hs hr

theorem Stable.invokeFun {I : St → Prop} (h : Stable I) {f P s fn arg r}
    (hs : I s) (hr : Model.invokeFun f P s fn arg = some r) : I r.1 :=
  invokeFun_preserved h.toK (k := ()) hs hr

/-! ## the unary schema without the harness teardown

For invariants that hold in every state of every run of the interpreter (`runTop`) but that the harness
teardown breaks on purpose (it destroys every signal object, also the functor-owned ones). -/

/-- `StableRel` without `forceDel` -/
structure StableRelCore (J I : St → Prop) : Prop where
  log : ∀ s e, J s → I s → I (s.log e)
  fail : ∀ s m, J s → I s → I (s.fail m)
  depth : ∀ (s : St) d, J s → I s → I { s with depth := d }
  steps : ∀ (s : St) n, J s → I s → I { s with steps := n }
  incall : ∀ (s : St) i (v : SlotVar) n, J s → I s → aget s.S i = some v →
    I { s with S := aset s.S i { v with incall := n } }
  simple : ∀ s op s' r, J s → I s → stepSimple s op = some (s', r) → I s'
  collect : ∀ s, J s → I s → I (collect s)
  pro : ∀ s i im, J s → I s → aget s.impls i = some im → I (emitPro s i im)
  erase : ∀ s i m, J s → I s → I (eraseCell s i m)
  unref : ∀ s i, J s → I s → I (unrefExec s i)
  drop : ∀ s i, J s → I s → I (dropHolder s i)
  gc : ∀ s i, J s → I s → I (gcImpl s i)

abbrev StableCore (I : St → Prop) : Prop := StableRelCore (fun _ => True) I

theorem StableRel.core {J I : St → Prop} (h : StableRel J I) : StableRelCore J I :=
  ⟨h.log, h.fail, h.depth, h.steps, h.incall, h.simple, h.collect, h.pro, h.erase, h.unref, h.drop, h.gc⟩

theorem StableCore.weaken {J I : St → Prop} (h : StableCore I) : StableRelCore J I where
  log s e _ hI := h.log s e trivial hI
  fail s m _ hI := h.fail s m trivial hI
  depth s d _ hI := h.depth s d trivial hI
  steps s n _ hI := h.steps s n trivial hI
  incall s i v n _ hI hv := h.incall s i v n trivial hI hv
  simple s op s' r _ hI hs := h.simple s op s' r trivial hI hs
  collect s _ hI := h.collect s trivial hI
  pro s i im _ hI hi := h.pro s i im trivial hI hi
  erase s i m _ hI := h.erase s i m trivial hI
  unref s i _ hI := h.unref s i trivial hI
  drop s i _ hI := h.drop s i trivial hI
  gc s i _ hI := h.gc s i trivial hI

theorem StableRelCore.and {J I : St → Prop} (hJ : StableCore J) (hI : StableRelCore J I) :
    StableCore (fun s => J s ∧ I s) where
  log s e _ h := ⟨hJ.log s e trivial h.1, hI.log s e h.1 h.2⟩
  fail s m _ h := ⟨hJ.fail s m trivial h.1, hI.fail s m h.1 h.2⟩
  depth s d _ h := ⟨hJ.depth s d trivial h.1, hI.depth s d h.1 h.2⟩
  steps s n _ h := ⟨hJ.steps s n trivial h.1, hI.steps s n h.1 h.2⟩
  incall s i v n _ h hv := ⟨hJ.incall s i v n trivial h.1 hv, hI.incall s i v n h.1 h.2 hv⟩
  simple s op s' r _ h hs := ⟨hJ.simple s op s' r trivial h.1 hs, hI.simple s op s' r h.1 h.2 hs⟩
  collect s _ h := ⟨hJ.collect s trivial h.1, hI.collect s h.1 h.2⟩
  pro s i im _ h hi := ⟨hJ.pro s i im trivial h.1 hi, hI.pro s i im h.1 h.2 hi⟩
  erase s i m _ h := ⟨hJ.erase s i m trivial h.1, hI.erase s i m h.1 h.2⟩
  unref s i _ h := ⟨hJ.unref s i trivial h.1, hI.unref s i h.1 h.2⟩
  drop s i _ h := ⟨hJ.drop s i trivial h.1, hI.drop s i h.1 h.2⟩
  gc s i _ h := ⟨hJ.gc s i trivial h.1, hI.gc s i h.1 h.2⟩

theorem StableCore.emitEpi {I : St → Prop} (h : StableCore I) (s : St) (i m : Nat) (hI : I s) :
    I (emitEpi s i m) := by
  unfold Inv.emitEpi
  split
  · exact h.fail _ _ trivial hI
  · apply h.collect _ trivial
    apply h.gc _ _ trivial
    apply h.drop _ _ trivial
    apply h.unref _ _ trivial
    split
    · exact h.erase _ _ _ trivial hI
    · exact h.fail _ _ trivial hI

theorem StableCore.toK {I : St → Prop} (h : StableCore I) : StableKCore (fun (_ : Unit) => I) where
  log _ s e hI := h.log s e trivial hI
  fail _ s m hI := h.fail s m trivial hI
  depth _ s d hI := h.depth s d trivial hI
  steps _ s n hI := h.steps s n trivial hI
  call _ s i v hI hv := ⟨(), h.incall s i v _ trivial hI hv, fun s2 h2 => by
    unfold callEpi
    split
    · rename_i hv2; exact h.incall s2 i _ _ trivial h2 hv2
    · exact h.fail _ _ trivial h2⟩
  simple _ s op s' r hI hs := h.simple s op s' r trivial hI hs
  collect _ s hI := h.collect s trivial hI
  emit _ s i im hI hi := ⟨(), h.pro s i im trivial hI hi, fun s2 h2 => h.emitEpi s2 i s.next h2⟩

/-- every terminating run of every program ends in a state satisfying a predicate that holds initially
    and is stable under the interpreter -/
theorem StableCore.runTop {I : St → Prop} (h : StableCore I) (h0 : I {}) (f : Nat) (P : Prog) (s : St)
    (hr : runTop f P {} P.top = some s) : I s :=
  runTop_preservedCore h.toK f () P _ _ _ h0 hr

theorem StableCore.runTop_from {I : St → Prop} (h : StableCore I) (f : Nat) (P : Prog) (ls : List Line)
    (s s' : St) (hs : I s) (hr : Model.runTop f P s ls = some s') : I s' :=
  runTop_preservedCore h.toK f () P _ _ _ hs hr

theorem StableCore.execOp {I : St → Prop} (h : StableCore I) {f P s op r}
    (hs : I s) (hr : Model.execOp f P s op = some r) : I r.1 :=
  execOp_preservedCore h.toK (k := ()) hs hr

theorem StableCore.execLine {I : St → Prop} (h : StableCore I) {f P s l r}
    (hs : I s) (hr : Model.execLine f P s l = some r) : I r.1 :=
  execLine_preservedCore h.toK (k := ()) hs hr

theorem StableCore.emitImpl {I : St → Prop} (h : StableCore I) {f P s fl impl arg strat r}
    (hs : I s) (hr : Model.emitImpl f P s fl impl arg strat = some r) : I r.1 :=
  emitImpl_preservedCore h.toK (k := ()) hs hr

theorem StableCore.invokeFun {I : St → Prop} (h : StableCore I) {f P s fn arg r}
    (hs : I s) (hr : Model.invokeFun f P s fn arg = some r) : I r.1 :=
  invokeFun_preservedCore h.toK (k := ()) hs hr

end Sigc.Inv
