import Sigc.Lemmas.SpecKDefs
import Sigc.Lemmas.Basic
/-!
# SpecK — generic lemmas about the relations of `SpecKDefs` (lists, options, association lists, id
relations) and about related functor / slot values.
-/
namespace Sigc.SpecK
open Sigc.Model Sigc.Spec

/-! ## `F2` -/

section F2
variable {α β : Type} {r : α → β → Prop}

theorem F2.imp {r' : α → β → Prop} {l : List α} {m : List β} (h : F2 r l m)
    (hi : ∀ a b, a ∈ l → b ∈ m → r a b → r' a b) : F2 r' l m := by
  induction h with
  | nil => exact .nil
  | cons hab _ ih =>
    exact .cons (hi _ _ (by simp) (by simp) hab)
      (ih (fun a b ha hb => hi a b (List.mem_cons_of_mem _ ha) (List.mem_cons_of_mem _ hb)))

theorem F2.mono {r' : α → β → Prop} {l : List α} {m : List β} (h : F2 r l m)
    (hi : ∀ a b, r a b → r' a b) : F2 r' l m := h.imp (fun a b _ _ => hi a b)

theorem F2.length {l : List α} {m : List β} (h : F2 r l m) : l.length = m.length := by
  induction h with
  | nil => rfl
  | cons _ _ ih => simp [ih]

theorem F2.append {l l' : List α} {m m' : List β} (h : F2 r l m) (h' : F2 r l' m') : F2 r (l ++ l') (m ++ m') := by
  induction h with
  | nil => exact h'
  | cons hab _ ih => exact .cons hab ih

theorem F2.single {a : α} {b : β} (h : r a b) : F2 r [a] [b] := .cons h .nil

theorem F2.map {γ δ : Type} {r' : γ → δ → Prop} {l : List α} {m : List β} (h : F2 r l m) (f : α → γ) (g : β → δ)
    (hfg : ∀ a b, a ∈ l → b ∈ m → r a b → r' (f a) (g b)) : F2 r' (l.map f) (m.map g) := by
  induction h with
  | nil => exact .nil
  | cons hab _ ih =>
    exact .cons (hfg _ _ (by simp) (by simp) hab)
      (ih (fun a b ha hb => hfg a b (List.mem_cons_of_mem _ ha) (List.mem_cons_of_mem _ hb)))

theorem F2.filter {l : List α} {m : List β} (h : F2 r l m) (p : α → Bool) (q : β → Bool)
    (hpq : ∀ a b, a ∈ l → b ∈ m → r a b → p a = q b) : F2 r (l.filter p) (m.filter q) := by
  induction h with
  | nil => exact .nil
  | @cons a b l m hab _ ih =>
    have e := hpq a b (by simp) (by simp) hab
    have ih' := ih (fun a b ha hb => hpq a b (List.mem_cons_of_mem _ ha) (List.mem_cons_of_mem _ hb))
    cases hq : q b with
    | true => rw [hq] at e; simp only [List.filter, e, hq]; exact .cons hab ih'
    | false => rw [hq] at e; simp only [List.filter, e, hq]; exact ih'

theorem F2.any {l : List α} {m : List β} (h : F2 r l m) (p : α → Bool) (q : β → Bool)
    (hpq : ∀ a b, a ∈ l → b ∈ m → r a b → p a = q b) : l.any p = m.any q := by
  induction h with
  | nil => rfl
  | @cons a b l m hab _ ih =>
    simp only [List.any_cons]
    rw [hpq a b (by simp) (by simp) hab,
      ih (fun a b ha hb => hpq a b (List.mem_cons_of_mem _ ha) (List.mem_cons_of_mem _ hb))]

theorem F2.all {l : List α} {m : List β} (h : F2 r l m) (p : α → Bool) (q : β → Bool)
    (hpq : ∀ a b, a ∈ l → b ∈ m → r a b → p a = q b) : l.all p = m.all q := by
  induction h with
  | nil => rfl
  | @cons a b l m hab _ ih =>
    simp only [List.all_cons]
    rw [hpq a b (by simp) (by simp) hab,
      ih (fun a b ha hb => hpq a b (List.mem_cons_of_mem _ ha) (List.mem_cons_of_mem _ hb))]

theorem F2.mem_left {l : List α} {m : List β} (h : F2 r l m) {a : α} (ha : a ∈ l) : ∃ b ∈ m, r a b := by
  induction h with
  | nil => simp at ha
  | cons hab _ ih =>
    rcases List.mem_cons.mp ha with e | e
    · subst e; exact ⟨_, by simp, hab⟩
    · obtain ⟨b, hb, hr⟩ := ih e; exact ⟨b, List.mem_cons_of_mem _ hb, hr⟩

theorem F2.mem_right {l : List α} {m : List β} (h : F2 r l m) {b : β} (hb : b ∈ m) : ∃ a ∈ l, r a b := by
  induction h with
  | nil => simp at hb
  | cons hab _ ih =>
    rcases List.mem_cons.mp hb with e | e
    · subst e; exact ⟨_, by simp, hab⟩
    · obtain ⟨a, ha, hr⟩ := ih e; exact ⟨a, List.mem_cons_of_mem _ ha, hr⟩

theorem F2.map_eq {γ : Type} {l : List α} {m : List β} (h : F2 r l m) (f : α → γ) (g : β → γ)
    (hfg : ∀ a b, a ∈ l → b ∈ m → r a b → f a = g b) : l.map f = m.map g := by
  induction h with
  | nil => rfl
  | cons hab _ ih =>
    simp only [List.map_cons]
    rw [hfg _ _ (by simp) (by simp) hab,
      ih (fun a b ha hb => hfg a b (List.mem_cons_of_mem _ ha) (List.mem_cons_of_mem _ hb))]

theorem F2.find {l : List α} {m : List β} (h : F2 r l m) (p : α → Bool) (q : β → Bool)
    (hpq : ∀ a b, a ∈ l → b ∈ m → r a b → p a = q b) : OR r (l.find? p) (m.find? q) := by
  induction h with
  | nil => exact .none
  | @cons a b l m hab _ ih =>
    have e := hpq a b (by simp) (by simp) hab
    cases hq : q b with
    | true =>
      rw [hq] at e
      simp only [List.find?, e, hq]; exact .some hab
    | false =>
      rw [hq] at e
      simp only [List.find?, e, hq]
      exact ih (fun a b ha hb => hpq a b (List.mem_cons_of_mem _ ha) (List.mem_cons_of_mem _ hb))

theorem F2.get? {l : List α} {m : List β} (h : F2 r l m) (k : Nat) : OR r l[k]? m[k]? := by
  induction h generalizing k with
  | nil => simp; exact .none
  | cons hab _ ih =>
    cases k with
    | zero => simp; exact .some hab
    | succ k => simp; exact ih k

theorem F2.isEmpty {l : List α} {m : List β} (h : F2 r l m) : l.isEmpty = m.isEmpty := by
  cases h <;> rfl

theorem F2.sum_eq {l : List α} {m : List β} (h : F2 r l m) (f : α → Nat) (g : β → Nat)
    (hfg : ∀ a b, a ∈ l → b ∈ m → r a b → f a = g b) : (l.map f).sum = (m.map g).sum := by
  rw [h.map_eq f g hfg]

end F2

/-! ## `OR` -/

theorem OR.imp {α β : Type} {r r' : α → β → Prop} {a : Option α} {b : Option β} (h : OR r a b)
    (hi : ∀ x y, r x y → r' x y) : OR r' a b := by
  cases h with
  | none => exact .none
  | some h => exact .some (hi _ _ h)

theorem OR.isSome {α β : Type} {r : α → β → Prop} {a : Option α} {b : Option β} (h : OR r a b) :
    a.isSome = b.isSome := by cases h <;> rfl

theorem OR.isNone {α β : Type} {r : α → β → Prop} {a : Option α} {b : Option β} (h : OR r a b) :
    a.isNone = b.isNone := by cases h <;> rfl

/-! ## `PB` -/

theorem PB.eq_iff {ρ : IdRel} {n n' : Nat} (h : PB ρ n n') {a a' b b' : Nat} (h1 : ρ a b) (h2 : ρ a' b') :
    a = a' ↔ b = b' :=
  ⟨fun e => by subst e; exact h.fn h1 h2, fun e => by subst e; exact h.inj h1 h2⟩

theorem PB.beq {ρ : IdRel} {n n' : Nat} (h : PB ρ n n') {a a' b b' : Nat} (h1 : ρ a b) (h2 : ρ a' b') :
    (a == a') = (b == b') := by
  have := h.eq_iff h1 h2
  rw [Bool.eq_iff_iff, beq_iff_eq, beq_iff_eq]; exact this

theorem PB.dec {ρ : IdRel} {n n' : Nat} (h : PB ρ n n') {a a' b b' : Nat} (h1 : ρ a b) (h2 : ρ a' b') :
    decide (a = a') = decide (b = b') := by
  have := h.eq_iff h1 h2
  rw [Bool.eq_iff_iff, decide_eq_true_iff, decide_eq_true_iff]; exact this

theorem PB.ext {ρ : IdRel} {n n' : Nat} (h : PB ρ n n') : PB (ext ρ n n') (n+1) (n'+1) := by
  refine ⟨?_, ?_, ?_⟩
  · intro a b b' h1 h2
    rcases h1 with h1 | ⟨rfl, rfl⟩ <;> rcases h2 with h2 | ⟨e, rfl⟩
    · exact h.fn h1 h2
    · have := (h.lt h1).1; omega
    · have := (h.lt h2).1; omega
    · rfl
  · intro a a' b h1 h2
    rcases h1 with h1 | ⟨rfl, rfl⟩ <;> rcases h2 with h2 | ⟨rfl, e⟩
    · exact h.inj h1 h2
    · have := (h.lt h1).2; omega
    · have := (h.lt h2).2; omega
    · rfl
  · intro a b h1
    rcases h1 with h1 | ⟨rfl, rfl⟩
    · have := h.lt h1; omega
    · omega

theorem PB.mono {ρ : IdRel} {n n' m m' : Nat} (h : PB ρ n n') (h1 : n ≤ m) (h2 : n' ≤ m') : PB ρ m m' :=
  ⟨h.fn, h.inj, fun hab => by have := h.lt hab; omega⟩

theorem ext_sub (ρ : IdRel) (a b : Nat) : ∀ x y, ρ x y → ext ρ a b x y := fun _ _ h => Or.inl h

theorem ext_new (ρ : IdRel) (a b : Nat) : ext ρ a b a b := Or.inr ⟨rfl, rfl⟩

/-- membership in related id lists -/
theorem F2.contains {ρ : IdRel} {n n' : Nat} (hp : PB ρ n n') {l m : List Nat} (h : F2 ρ l m) {a b : Nat}
    (hab : ρ a b) : l.contains a = m.contains b := by
  induction h with
  | nil => rfl
  | @cons x y l m hxy _ ih =>
    simp only [List.contains_cons]
    rw [ih, hp.beq hab hxy]

/-! ## `AR` -/

section AR
variable {α β : Type} {r : α → β → Prop}

theorem AR.keys {l : List (Nat × α)} {m : List (Nat × β)} (h : AR r l m) : l.map (·.1) = m.map (·.1) :=
  F2.map_eq h _ _ (fun _ _ _ _ hr => hr.1)

theorem AR.imp {r' : α → β → Prop} {l : List (Nat × α)} {m : List (Nat × β)} (h : AR r l m)
    (hi : ∀ a b, r a b → r' a b) : AR r' l m :=
  F2.imp h (fun p q _ _ hr => ⟨hr.1, hi p.2 q.2 hr.2⟩)

theorem AR.get {l : List (Nat × α)} {m : List (Nat × β)} (h : AR r l m) (k : Nat) :
    OR r (aget l k) (aget m k) := by
  induction h with
  | nil => exact .none
  | @cons p q l m hab _ ih =>
    obtain ⟨k1, a⟩ := p
    obtain ⟨k2, b⟩ := q
    obtain ⟨e, hr⟩ := hab
    simp only at e hr
    subst e
    by_cases hk : k1 = k
    · simp only [Model.aget, hk, if_true]; exact .some hr
    · simp only [Model.aget, hk, if_false]; exact ih

theorem AR.set {l : List (Nat × α)} {m : List (Nat × β)} (h : AR r l m) (k : Nat) {a : α} {b : β} (hab : r a b) :
    AR r (aset l k a) (aset m k b) := by
  induction h with
  | nil => exact F2.cons ⟨rfl, hab⟩ .nil
  | @cons p q l m hpq hlm ih =>
    obtain ⟨k1, a1⟩ := p
    obtain ⟨k2, b1⟩ := q
    obtain ⟨e, hr⟩ := hpq
    simp only at e hr
    subst e
    by_cases hk : k1 = k
    · simp only [Model.aset, hk, if_true]; exact F2.cons ⟨rfl, hab⟩ hlm
    · simp only [Model.aset, hk, if_false]; exact F2.cons ⟨rfl, hr⟩ ih

theorem AR.del {l : List (Nat × α)} {m : List (Nat × β)} (h : AR r l m) (k : Nat) :
    AR r (adel l k) (adel m k) := by
  unfold Model.adel
  exact F2.filter h _ _ (fun p q _ _ hr => by simp [hr.1])

theorem AR.map {l : List (Nat × α)} {m : List (Nat × β)} (h : AR r l m) {r' : α → β → Prop} (f : α → α) (g : β → β)
    (hfg : ∀ a b, r a b → r' (f a) (g b)) : AR r' (amap l f) (amap m g) := by
  unfold Model.amap
  exact F2.map h _ _ (fun p q _ _ hr => ⟨hr.1, hfg p.2 q.2 hr.2⟩)

theorem AR.any {l : List (Nat × α)} {m : List (Nat × β)} (h : AR r l m) (p : Nat × α → Bool) (q : Nat × β → Bool)
    (hpq : ∀ k a b, r a b → p (k, a) = q (k, b)) : l.any p = m.any q :=
  F2.any h p q (fun x y _ _ hr => by
    obtain ⟨k, a⟩ := x
    obtain ⟨k', b⟩ := y
    obtain ⟨e, hr⟩ := hr
    simp only at e hr; subst e
    exact hpq k a b hr)

end AR

/-! ## `KR` -/

section KR
variable {α β : Type} {r : α → β → Prop} {ρ : IdRel} {n n' : Nat}

theorem KR.imp {ρ' : IdRel} {r' : α → β → Prop} {l : List (Nat × α)} {m : List (Nat × β)} (h : KR ρ r l m)
    (hρ : ∀ a b, ρ a b → ρ' a b) (hi : ∀ a b, r a b → r' a b) : KR ρ' r' l m :=
  F2.imp h (fun p q _ _ hr => ⟨hρ _ _ hr.1, hi p.2 q.2 hr.2⟩)

theorem KR.get (hp : PB ρ n n') {l : List (Nat × α)} {m : List (Nat × β)} (h : KR ρ r l m) {k k' : Nat}
    (hk : ρ k k') : OR r (aget l k) (aget m k') := by
  induction h with
  | nil => exact .none
  | @cons p q l m hab _ ih =>
    obtain ⟨k1, a⟩ := p
    obtain ⟨k2, b⟩ := q
    obtain ⟨e, hr⟩ := hab
    simp only at e hr
    have := hp.eq_iff e hk
    by_cases hk1 : k1 = k
    · simp only [Model.aget, hk1, this.mp hk1, if_true]; exact .some hr
    · have hk2 : ¬ k2 = k' := fun x => hk1 (this.mpr x)
      simp only [Model.aget, hk1, hk2, if_false]; exact ih

theorem KR.set (hp : PB ρ n n') {l : List (Nat × α)} {m : List (Nat × β)} (h : KR ρ r l m) {k k' : Nat}
    (hk : ρ k k') {a : α} {b : β} (hab : r a b) : KR ρ r (aset l k a) (aset m k' b) := by
  induction h with
  | nil => exact F2.cons ⟨hk, hab⟩ .nil
  | @cons p q l m hpq hlm ih =>
    obtain ⟨k1, a1⟩ := p
    obtain ⟨k2, b1⟩ := q
    obtain ⟨e, hr⟩ := hpq
    simp only at e hr
    have := hp.eq_iff e hk
    by_cases hk1 : k1 = k
    · simp only [Model.aset, hk1, this.mp hk1, if_true]; exact F2.cons ⟨hk, hab⟩ hlm
    · have hk2 : ¬ k2 = k' := fun x => hk1 (this.mpr x)
      simp only [Model.aset, hk1, hk2, if_false]; exact F2.cons ⟨e, hr⟩ ih

theorem KR.del (hp : PB ρ n n') {l : List (Nat × α)} {m : List (Nat × β)} (h : KR ρ r l m) {k k' : Nat}
    (hk : ρ k k') : KR ρ r (adel l k) (adel m k') := by
  unfold Model.adel
  refine F2.filter h _ _ (fun p q _ _ hr => ?_)
  have := hp.eq_iff hr.1 hk
  by_cases e : p.1 = k
  · simp [e, this.mp e]
  · have e' : ¬ q.1 = k' := fun x => e (this.mpr x)
    simp [e, e']

theorem KR.map {l : List (Nat × α)} {m : List (Nat × β)} (h : KR ρ r l m) {r' : α → β → Prop} (f : α → α) (g : β → β)
    (hfg : ∀ a b, r a b → r' (f a) (g b)) : KR ρ r' (amap l f) (amap m g) := by
  unfold Model.amap
  exact F2.map h _ _ (fun p q _ _ hr => ⟨hr.1, hfg p.2 q.2 hr.2⟩)

end KR

/-! ## association lists: membership -/

theorem aget_mem {α : Type} {l : List (Nat × α)} {k : Nat} {v : α} (h : aget l k = some v) : (k, v) ∈ l := by
  induction l with
  | nil => simp [aget] at h
  | cons p t ih =>
    obtain ⟨k', v'⟩ := p
    by_cases e : k' = k
    · simp only [aget, e, if_true] at h; cases h; subst e; simp
    · simp only [aget, e, if_false] at h; exact List.mem_cons_of_mem _ (ih h)

theorem aget_of_mem {α : Type} {l : List (Nat × α)} (hn : (l.map (·.1)).Nodup) {p : Nat × α} (h : p ∈ l) :
    aget l p.1 = some p.2 := by
  induction l with
  | nil => simp at h
  | cons q t ih =>
    obtain ⟨k', v'⟩ := q
    simp only [List.map_cons, List.nodup_cons] at hn
    rcases List.mem_cons.mp h with e | e
    · subst e; simp [aget]
    · have : k' ≠ p.1 := fun x => hn.1 (by rw [x]; exact List.mem_map_of_mem e)
      simp only [aget, this, if_false]; exact ih hn.2 e

theorem mem_aset {α : Type} {l : List (Nat × α)} {k : Nat} {v : α} {p : Nat × α} (h : p ∈ aset l k v) :
    p = (k, v) ∨ p ∈ l := by
  induction l with
  | nil => simp [aset] at h; exact Or.inl h
  | cons q t ih =>
    obtain ⟨k', v'⟩ := q
    by_cases e : k' = k
    · simp only [aset, e, if_true] at h
      rcases List.mem_cons.mp h with h | h
      · exact Or.inl h
      · exact Or.inr (List.mem_cons_of_mem _ h)
    · simp only [aset, e, if_false] at h
      rcases List.mem_cons.mp h with h | h
      · exact Or.inr (by rw [h]; simp)
      · rcases ih h with h | h
        · exact Or.inl h
        · exact Or.inr (List.mem_cons_of_mem _ h)

theorem aset_keys_nodup {α : Type} {l : List (Nat × α)} (h : (l.map (·.1)).Nodup) (k : Nat) (v : α) :
    ((aset l k v).map (·.1)).Nodup := by
  induction l with
  | nil => simp [aset]
  | cons q t ih =>
    obtain ⟨k', v'⟩ := q
    simp only [List.map_cons, List.nodup_cons] at h
    by_cases e : k' = k
    · subst e
      simp only [aset, if_true, List.map_cons, List.nodup_cons]
      exact h
    · simp only [aset, e, if_false, List.map_cons, List.nodup_cons]
      refine ⟨fun hm => ?_, ih h.2⟩
      obtain ⟨x, hx, ex⟩ := List.mem_map.mp hm
      rcases mem_aset hx with hx | hx
      · subst hx; exact e ex.symm
      · exact h.1 (by rw [← ex]; exact List.mem_map_of_mem hx)

theorem adel_keys_nodup {α : Type} {l : List (Nat × α)} (h : (l.map (·.1)).Nodup) (k : Nat) :
    ((adel l k).map (·.1)).Nodup := by
  unfold adel
  induction l with
  | nil => simp
  | cons q t ih =>
    simp only [List.map_cons, List.nodup_cons] at h
    simp only [List.filter]
    split
    · simp only [List.map_cons, List.nodup_cons]
      refine ⟨fun hm => h.1 ?_, ih h.2⟩
      obtain ⟨x, hx, e⟩ := List.mem_map.mp hm
      rw [← e]; exact List.mem_map_of_mem (List.mem_filter.mp hx).1
    · exact ih h.2

theorem amap_keys {α : Type} (l : List (Nat × α)) (f : α → α) : (amap l f).map (·.1) = l.map (·.1) := by
  simp [amap]

theorem mem_adel {α : Type} {l : List (Nat × α)} {k : Nat} {p : Nat × α} (h : p ∈ adel l k) : p ∈ l ∧ p.1 ≠ k := by
  unfold adel at h
  have := List.mem_filter.mp h
  exact ⟨this.1, by simpa using this.2⟩

theorem mem_amap {α : Type} {l : List (Nat × α)} {f : α → α} {p : Nat × α} (h : p ∈ amap l f) :
    ∃ q ∈ l, p = (q.1, f q.2) := by
  unfold amap at h
  obtain ⟨q, hq, e⟩ := List.mem_map.mp h
  exact ⟨q, hq, e.symm⟩

/-! ## related functors and slots -/

section vals
variable {ρ ρ' : IdRel}

theorem FunR.mono {f f' : Fun} (h : FunR ρ f f') (hs : ∀ a b, ρ a b → ρ' a b) : FunR ρ' f f' := by
  induction h with
  | leaf fid h => exact .leaf fid (h.mono hs)
  | fwd h1 h2 => exact .fwd (hs _ _ h1) (h2.mono hs)
  | nestNone b => exact .nestNone b
  | nestSome b _ ih => exact .nestSome b ih
  | owner fid h1 h2 => exact .owner fid (h1.mono hs) (h2.mono hs)

theorem RepR.mono {r r' : Rep} (h : RepR ρ r r') (hs : ∀ a b, ρ a b → ρ' a b) : RepR ρ' r r' :=
  ⟨h.call, h.fn.imp (fun _ _ x => x.mono hs)⟩

theorem SlotR.mono {a b : SlotB} (h : SlotR ρ a b) (hs : ∀ a b, ρ a b → ρ' a b) : SlotR ρ' a b :=
  ⟨h.blocked, h.rep.imp (fun _ _ x => x.mono hs)⟩

theorem VarR.mono {a b : SlotVar} (h : VarR ρ a b) (hs : ∀ a b, ρ a b → ρ' a b) : VarR ρ' a b :=
  ⟨h.isVoid, h.slot.mono hs, h.incall, h.taint⟩

theorem HandR.mono {a b : Handle} (h : HandR ρ a b) (hs : ∀ a b, ρ a b → ρ' a b) : HandR ρ' a b :=
  ⟨hs _ _ h.obj, h.fl, h.impl.imp hs, hs _ _ h.trk, h.lvl, h.everFwd⟩

theorem CellR.mono {a b : LCell} (h : CellR ρ a b) (hs : ∀ a b, ρ a b → ρ' a b) : CellR ρ' a b :=
  ⟨hs _ _ h.id, h.slot.mono hs, h.marker, h.zombie⟩

theorem FunR.tracks {f f' : Fun} (h : FunR ρ f f') : F2 ρ f.tracks f'.tracks := by
  induction h with
  | leaf fid h => exact h
  | fwd _ h2 => exact h2
  | nestNone b => exact .nil
  | nestSome b _ ih => exact ih
  | owner fid _ _ => exact .nil

theorem FunR.ownsT {f f' : Fun} (h : FunR ρ f f') : F2 ρ f.ownsT f'.ownsT := by
  induction h with
  | leaf fid h => exact .nil
  | fwd _ h2 => exact .nil
  | nestNone b => exact .nil
  | nestSome b _ ih => exact ih
  | owner fid h1 _ => exact h1

theorem FunR.ownsK {f f' : Fun} (h : FunR ρ f f') : F2 ρ f.ownsK f'.ownsK := by
  induction h with
  | leaf fid h => exact .nil
  | fwd _ h2 => exact .nil
  | nestNone b => exact .nil
  | nestSome b _ ih => exact ih
  | owner fid _ h2 => exact h2

theorem FunR.count {f f' : Fun} (h : FunR ρ f f') (fid : Nat) : f'.count fid = f.count fid := by
  induction h with
  | leaf fid h => rfl
  | fwd _ h2 => rfl
  | nestNone b => rfl
  | nestSome b _ ih => exact ih
  | owner fid _ h2 => rfl

theorem FunR.countAll {f f' : Fun} (h : FunR ρ f f') : f'.countAll = f.countAll := by
  induction h with
  | leaf fid h => rfl
  | fwd _ h2 => rfl
  | nestNone b => rfl
  | nestSome b _ ih => exact ih
  | owner fid _ h2 => rfl

theorem SlotR.repIsSome {a b : SlotB} (h : SlotR ρ a b) : b.rep.isSome = a.rep.isSome := by
  obtain ⟨ba, ra⟩ := a
  obtain ⟨bb, rb⟩ := b
  obtain ⟨_, hr⟩ := h
  simp only at hr
  cases hr with
  | none => rfl
  | some hr => rfl

theorem SlotR.empty {a b : SlotB} (h : SlotR ρ a b) : b.empty = a.empty := by
  obtain ⟨ba, ra⟩ := a
  obtain ⟨bb, rb⟩ := b
  obtain ⟨_, hr⟩ := h
  simp only at hr
  unfold SlotB.empty
  cases hr with
  | none => rfl
  | some hr => simp [hr.call]

theorem SlotR.copy {a b : SlotB} (h : SlotR ρ a b) : SlotR ρ a.copy b.copy := by
  obtain ⟨ba, ra⟩ := a
  obtain ⟨bb, rb⟩ := b
  obtain ⟨hb, hr⟩ := h
  simp only at hb hr
  unfold SlotB.copy
  cases hr with
  | none => exact ⟨hb, .none⟩
  | @some r r' hr =>
    simp only [hr.call]
    cases r.call with
    | true => exact ⟨hb, .some ⟨rfl, hr.fn⟩⟩
    | false => exact ⟨rfl, .none⟩

theorem SlotR.move1 {a b : SlotB} (h : SlotR ρ a b) : SlotR ρ a.move.1 b.move.1 := by
  obtain ⟨ba, ra⟩ := a
  obtain ⟨bb, rb⟩ := b
  obtain ⟨hb, hr⟩ := h
  simp only at hb hr
  unfold SlotB.move
  cases hr with
  | none => exact ⟨hb, .none⟩
  | some hr => exact ⟨hb, .some hr⟩

theorem SlotR.move2 {a b : SlotB} (h : SlotR ρ a b) : SlotR ρ a.move.2 b.move.2 := by
  obtain ⟨ba, ra⟩ := a
  obtain ⟨bb, rb⟩ := b
  obtain ⟨hb, hr⟩ := h
  simp only at hb hr
  unfold SlotB.move
  cases hr with
  | none => exact ⟨hb, .none⟩
  | some hr => exact ⟨rfl, .none⟩

theorem SlotR.disconnectRep {a b : SlotB} (h : SlotR ρ a b) : SlotR ρ a.disconnectRep b.disconnectRep := by
  obtain ⟨ba, ra⟩ := a
  obtain ⟨bb, rb⟩ := b
  obtain ⟨hb, hr⟩ := h
  simp only at hb hr
  unfold SlotB.disconnectRep
  cases hr with
  | none => exact ⟨hb, .none⟩
  | some hr => exact ⟨hb, .some ⟨rfl, hr.fn⟩⟩

theorem SlotR.invalidate {a b : SlotB} (h : SlotR ρ a b) : SlotR ρ a.invalidate b.invalidate := by
  obtain ⟨ba, ra⟩ := a
  obtain ⟨bb, rb⟩ := b
  obtain ⟨hb, hr⟩ := h
  simp only at hb hr
  unfold SlotB.invalidate
  cases hr with
  | none => exact ⟨hb, .none⟩
  | some hr => exact ⟨hb, .some ⟨rfl, .none⟩⟩

theorem SlotR.setBlocked {a b : SlotB} (h : SlotR ρ a b) (x : Bool) :
    SlotR ρ { a with blocked := x } { b with blocked := x } := ⟨rfl, h.rep⟩

theorem SlotR.fnOf {a b : SlotB} (h : SlotR ρ a b) : OR (FunR ρ) (SlotB.fnOf a) (SlotB.fnOf b) := by
  obtain ⟨ba, ra⟩ := a
  obtain ⟨bb, rb⟩ := b
  obtain ⟨_, hr⟩ := h
  simp only at hr
  unfold SlotB.fnOf
  cases hr with
  | none => exact .none
  | some hr => exact hr.fn

theorem tracksObj_eq (s : SlotB) (t : Nat) :
    s.tracksObj t = match SlotB.fnOf s with | some f => f.tracks.contains t | none => false := by
  unfold SlotB.tracksObj SlotB.fnOf
  cases s.rep with
  | none => rfl
  | some r => obtain ⟨c, fn⟩ := r; cases fn <;> rfl

theorem holdsT_eq (s : SlotB) (t : Nat) :
    s.holdsT t = match SlotB.fnOf s with | some f => f.ownsT.contains t | none => false := by
  unfold SlotB.holdsT SlotB.fnOf
  cases s.rep with
  | none => rfl
  | some r => obtain ⟨c, fn⟩ := r; cases fn <;> rfl

theorem holdsK_eq (s : SlotB) (t : Nat) :
    s.holdsK t = match SlotB.fnOf s with | some f => f.ownsK.contains t | none => false := by
  unfold SlotB.holdsK SlotB.fnOf
  cases s.rep with
  | none => rfl
  | some r => obtain ⟨c, fn⟩ := r; cases fn <;> rfl

theorem live_eq (s : SlotB) (fid : Nat) :
    s.live fid = match SlotB.fnOf s with | some f => f.count fid | none => 0 := by
  unfold SlotB.live SlotB.fnOf
  cases s.rep with
  | none => rfl
  | some r => obtain ⟨c, fn⟩ := r; cases fn <;> rfl

theorem liveAll_eq (s : SlotB) :
    s.liveAll = match SlotB.fnOf s with | some f => f.countAll | none => 0 := by
  unfold SlotB.liveAll SlotB.fnOf
  cases s.rep with
  | none => rfl
  | some r => obtain ⟨c, fn⟩ := r; cases fn <;> rfl

variable {n n' : Nat}

theorem SlotR.tracksObj (hp : PB ρ n n') {a b : SlotB} (h : SlotR ρ a b) {o o' : Nat} (ho : ρ o o') :
    b.tracksObj o' = a.tracksObj o := by
  rw [tracksObj_eq, tracksObj_eq]
  have hf := h.fnOf
  generalize SlotB.fnOf a = x at hf
  generalize SlotB.fnOf b = y at hf
  cases hf with
  | none => rfl
  | some hf => exact (F2.contains hp hf.tracks ho).symm

theorem SlotR.holdsT (hp : PB ρ n n') {a b : SlotB} (h : SlotR ρ a b) {o o' : Nat} (ho : ρ o o') :
    b.holdsT o' = a.holdsT o := by
  rw [holdsT_eq, holdsT_eq]
  have hf := h.fnOf
  generalize SlotB.fnOf a = x at hf
  generalize SlotB.fnOf b = y at hf
  cases hf with
  | none => rfl
  | some hf => exact (F2.contains hp hf.ownsT ho).symm

theorem SlotR.holdsK (hp : PB ρ n n') {a b : SlotB} (h : SlotR ρ a b) {o o' : Nat} (ho : ρ o o') :
    b.holdsK o' = a.holdsK o := by
  rw [holdsK_eq, holdsK_eq]
  have hf := h.fnOf
  generalize SlotB.fnOf a = x at hf
  generalize SlotB.fnOf b = y at hf
  cases hf with
  | none => rfl
  | some hf => exact (F2.contains hp hf.ownsK ho).symm

theorem SlotR.live {a b : SlotB} (h : SlotR ρ a b) (fid : Nat) : b.live fid = a.live fid := by
  rw [live_eq, live_eq]
  have hf := h.fnOf
  generalize SlotB.fnOf a = x at hf
  generalize SlotB.fnOf b = y at hf
  cases hf with
  | none => rfl
  | some hf => exact hf.count fid

theorem SlotR.liveAll {a b : SlotB} (h : SlotR ρ a b) : b.liveAll = a.liveAll := by
  rw [liveAll_eq, liveAll_eq]
  have hf := h.fnOf
  generalize SlotB.fnOf a = x at hf
  generalize SlotB.fnOf b = y at hf
  cases hf with
  | none => rfl
  | some hf => exact hf.countAll

/-- the functor a slot value would be invoked with (valid and unblocked) -/
def SlotB.callFn (s : SlotB) : Option Fun :=
  match s with
  | { blocked := false, rep := some { call := true, fn := some fn } } => some fn
  | _ => none

theorem SlotR.callFn {a b : SlotB} (h : SlotR ρ a b) : OR (FunR ρ) (SlotB.callFn a) (SlotB.callFn b) := by
  obtain ⟨ba, ra⟩ := a
  obtain ⟨bb, rb⟩ := b
  obtain ⟨hb, hr⟩ := h
  simp only at hb hr
  subst hb
  cases hr with
  | none => cases bb <;> exact .none
  | @some r r' hr =>
    obtain ⟨c, fn⟩ := r
    obtain ⟨c', fn'⟩ := r'
    obtain ⟨hc, hf⟩ := hr
    simp only at hc hf
    subst hc
    cases bb <;> cases c' <;> cases hf <;> first | exact .none | (rename_i x; exact .some x)

theorem callFn_empty {a : SlotB} (h : a.empty = true) : SlotB.callFn a = none := by
  obtain ⟨ba, ra⟩ := a
  cases ra with
  | none => cases ba <;> rfl
  | some r =>
    obtain ⟨c, fn⟩ := r
    simp [SlotB.empty] at h
    subst h
    cases ba <;> rfl

end vals

end Sigc.SpecK
