import Sigc.Lemmas.EmitStepC
/-!
# Emit work package — `stepSimple` preserves `Inv` and is a `Frame` step, part D: destroying a signal
object, connect, clear, block; the summary theorem `stepSimple_good`.
-/
namespace Sigc.Emit
open Sigc.Model

/-! ## `delG` -/

theorem FunOK.adel {G : List (Nat × Handle)} {fn : Fun} (h : FunOK G fn) {i : Nat} {hd : Handle}
    (hi : aget G i = some hd) (hpin : ¬ (hd.everFwd = true ∧ hd.fl.isTrackable = false))
    (htr : hd.fl.isTrackable = true → hd.trk ∉ fn.tracks) : FunOK (adel G i) fn := by
  intro o ts ht
  obtain ⟨g, h', hg, ho, hflag⟩ := h o ts ht
  by_cases e : g = i
  · subst e
    rw [hi] at hg; cases hg
    exfalso
    cases htk : hd.fl.isTrackable with
    | true =>
      simp [htk] at hflag
      have := target_tracks fn o ts ht
      exact htr htk (by rw [this]; exact hflag)
    | false =>
      simp [htk] at hflag
      exact hpin ⟨hflag, htk⟩
  · exact ⟨g, h', by rw [aget_adel_other _ _ _ e]; exact hg, ho, hflag⟩

theorem SlotOK.adel {G : List (Nat × Handle)} {sl : SlotB} (h : SlotOK G sl) {i : Nat} {hd : Handle}
    (hi : aget G i = some hd) (hpin : ¬ (hd.everFwd = true ∧ hd.fl.isTrackable = false))
    (htr : hd.fl.isTrackable = true → sl.tracksObj hd.trk = false) : SlotOK (adel G i) sl := by
  intro r fn h1 h2
  apply (h r fn h1 h2).adel hi hpin
  intro htk hmem
  have := htr htk
  obtain ⟨c, f⟩ := r
  simp at h2; subst h2
  simp [SlotB.tracksObj, h1] at this
  exact this hmem

theorem OwnOK.adel {O : List (Nat × Nat)} {G : List (Nat × Handle)} (h : OwnOK O G) (i : Nat) :
    OwnOK O (Sigc.Model.adel G i) := by
  intro p hp hd hg he
  rw [aget_adel] at hg
  split at hg
  · contradiction
  · exact h p hp hd hg he

/-- the common part of `delG` and `dropHandle`: `~trackable` (trackable flavours), the name is released,
    then the impl dies if this was its last handle and it is not emitting -/
theorem good_dropTail {s : St} (h : Inv s) {i : Nat} {hd : Handle} (hg : aget s.G i = some hd)
    (hpin' : ¬ (hd.everFwd = true ∧ hd.fl.isTrackable = false)) :
    Good0 s (match hd.impl with
      | some im => gcImpl { (if hd.fl.isTrackable = true then invalidateTrackable s hd.trk else s) with
          G := Sigc.Model.adel (if hd.fl.isTrackable = true then invalidateTrackable s hd.trk else s).G i } im
      | none => { (if hd.fl.isTrackable = true then invalidateTrackable s hd.trk else s) with
          G := Sigc.Model.adel (if hd.fl.isTrackable = true then invalidateTrackable s hd.trk else s).G i }) := by
  generalize hs1 : (if hd.fl.isTrackable = true then invalidateTrackable s hd.trk else s) = s1
  have g1 : Good0 s s1 := by
    subst hs1; split
    · exact good_invalidateTrackable h _
    · exact Good.refl h
  have hG1 : s1.G = s.G := by
    subst hs1; split
    · exact invalidateTrackable_G _ _
    · rfl
  have hnt : hd.fl.isTrackable = true →
      (∀ j v, aget s1.S j = some v → v.slot.tracksObj hd.trk = false) ∧
      (∀ j im, aget s1.impls j = some im → ∀ c ∈ im.cells, c.slot.tracksObj hd.trk = false) := by
    intro htk; subst hs1; simp only [htk, if_true]
    exact noTrack_invalidateTrackable h _
  have hg1 : aget s1.G i = some hd := by rw [hG1]; exact hg
  have g2 : Good0 s1 { s1 with G := Sigc.Model.adel s1.G i } := by
    have i1 := g1.inv
    refine ⟨⟨i1.keys, i1.lt, i1.ok, i1.disj, ?_, ?_, ?_, i1.noerr, i1.own.adel i⟩, Frame.of_eq (Nat.le_refl _) rfl rfl⟩
    · intro p hp k hk; exact i1.himpl p (mem_adel hp).1 k hk
    · intro j v hv
      exact (i1.fwdS j v hv).adel hg1 hpin' (fun htk => (hnt htk).1 j v hv)
    · intro j im hj c hc
      exact (i1.fwdC j im hj c hc).adel hg1 hpin' (fun htk => (hnt htk).2 j im hj c hc)
  cases hd.impl with
  | none => exact g1.trans g2
  | some im => exact (g1.trans g2).andThen (fun h => Good.gcImpl h im)

theorem step_delG {s s' : St} {r : String} (i : Nat) (h : Inv s)
    (hs : stepSimple s (.delG i) = some (s', r)) : Good0 s s' := by
  simp only [stepSimple] at hs
  split at hs
  · core_branch h hs
  · rename_i hd hg
    split at hs
    · core_branch h hs
    · rename_i hpin
      split at hs
      · core_branch h hs
      · simp at hs; obtain ⟨h1, h2⟩ := hs; subst h1; subst h2
        have hpin' : ¬ (hd.everFwd = true ∧ hd.fl.isTrackable = false) := by
          simpa using hpin
        exact good_dropTail h hg hpin'

/-- `dropHandle`: the destruction of a signal object that is not pinned -/
theorem good_dropHandle {s : St} (h : Inv s) (g : Nat)
    (hpin : ∀ hd, aget s.G g = some hd → hd.everFwd = true → hd.fl.isTrackable = true) :
    Good0 s (dropHandle s g) := by
  unfold dropHandle
  cases hg : aget s.G g with
  | none => exact Good.refl h
  | some hd =>
    simp only
    have hpin' : ¬ (hd.everFwd = true ∧ hd.fl.isTrackable = false) := by
      intro ⟨a, b⟩; have := hpin hd hg a; rw [b] at this; contradiction
    exact good_dropTail h hg hpin'

/-- `delG`, when it does not refuse, is `dropHandle` -/
theorem delG_eq_dropHandle {s : St} {g : Nat} {hd : Handle} (hg : aget s.G g = some hd)
    (hp : (hd.everFwd && !hd.fl.isTrackable) = false) (ho : s.ownedG.any (fun p => p.2 = g) = false) :
    stepSimple s (.delG g) = some (dropHandle s g, "ok") := by
  simp only [stepSimple, dropHandle, hg, hp, ho, Bool.false_eq_true, if_false]

/-! ## connect -/

theorem step_conn {s s' : St} {r : String} (k g sv : Nat) (first mv : Bool) (h : Inv s)
    (hs : stepSimple s (.conn k g sv first mv) = some (s', r)) : Good0 s s' := by
  simp only [stepSimple, setConn] at hs
  split at hs
  · rename_i hd v hg hv
    split at hs
    · core_branch h hs
    · split at hs
      · core_branch h hs
      · split at hs
        · core_branch h hs
        · rename_i hbusy
          split at hs
          · core_branch h hs
          · rename_i s1 im he
            obtain ⟨g1, him, hS1, hgs, _⟩ := ensureImpl_good h he
            have hv1 : aget s1.S sv = some v := by rw [hS1]; exact hv
            have hok1 : SlotOK s1.G v.slot := g1.inv.fwdS sv v hv1
            simp at hs; obtain ⟨h1, h2⟩ := hs; subst h1; subst h2
            cases mv with
            | false =>
              simp only [Bool.false_eq_true, if_false]
              obtain ⟨g2, _⟩ := insertCell_good g1.inv him first v.slot.copy hok1.copy
              exact (g1.trans g2).congr rfl rfl rfl rfl (Nat.le_refl _)
            | true =>
              simp only [if_true]
              have g2 : Good0 s1 { s1 with S := aset s1.S sv { v with slot := v.slot.move.2 } } :=
                Good.setS g1.inv _ _ hok1.move2 (by rw [incallOf_of_aget hv1])
              obtain ⟨g3, _⟩ := insertCell_good g2.inv (i := im) him first v.slot.move.1 hok1.move1
              exact ((g1.trans g2).trans g3).congr rfl rfl rfl rfl (Nat.le_refl _)
  · core_branch h hs

theorem step_connfn {s s' : St} {r : String} (k g : Nat) (spec : FSpec) (first : Bool) (h : Inv s)
    (hs : stepSimple s (.connfn k g spec first) = some (s', r)) : Good0 s s' := by
  simp only [stepSimple, setConn] at hs
  split at hs
  · core_branch h hs
  · rename_i hd hg
    split at hs
    · core_branch h hs
    · rename_i fn s1 hm
      obtain ⟨g1, hf, _⟩ := mkFun_good h hm
      split at hs
      · simp at hs; obtain ⟨h1, h2⟩ := hs; subst h1; subst h2; exact g1
      · split at hs
        · core_branch h hs
        · rename_i s2 im he
          obtain ⟨g2, him, _, hgs, _⟩ := ensureImpl_good g1.inv he
          simp at hs; obtain ⟨h1, h2⟩ := hs; subst h1; subst h2
          obtain ⟨g3, _⟩ := insertCell_good g2.inv him first
            { blocked := false, rep := some { call := true, fn := some fn } }
            (SlotOK.mk_valid (hf.mono hgs.le) _)
          exact ((g1.trans g2).trans g3).congr rfl rfl rfl rfl (Nat.le_refl _)

theorem step_clear {s s' : St} {r : String} (g : Nat) (h : Inv s)
    (hs : stepSimple s (.clear g) = some (s', r)) : Good0 s s' := by
  simp only [stepSimple] at hs
  split at hs
  · core_branch h hs
  · simp at hs; obtain ⟨h1, h2⟩ := hs; subst h1; subst h2
    split
    · exact good_clearImpl h _
    · exact Good.refl h

theorem step_blockG {s s' : St} {r : String} (g : Nat) (b : Bool) (h : Inv s)
    (hs : stepSimple s (.blockG g b) = some (s', r)) : Good0 s s' := by
  simp only [stepSimple] at hs
  split at hs
  · core_branch h hs
  · split at hs
    · core_branch h hs
    · rename_i im _
      split at hs
      · core_branch h hs
      · rename_i x hx
        simp at hs; obtain ⟨h1, h2⟩ := hs; subst h1; subst h2
        have hok := h.ok im x hx
        let f : Cell → Cell := fun c => { c with slot := { c.slot with blocked := b } }
        apply Good.setImpl h hx (im' := { x with cells := x.cells.map f, deferred := x.deferred })
        · apply hok.map f _ (fun _ => rfl) (fun _ => rfl)
          · intro c hc hl; have := hok.l c hc hl
            simpa [SlotB.empty] using this
          · intro hd; exact ⟨hd, fun c _ hl => hl⟩
          · exact hok.q1
        · intro k hk; left; simpa [cids, cids_map _ f (fun _ => rfl)] using hk
        · intro c hc
          obtain ⟨c0, hc0, rfl⟩ := List.mem_map.mp hc
          exact (h.fwdC im x hx c0 hc0).setBlocked b
        · rfl
        · intro _; exact ⟨[], [], by simp [skel_map x f (fun _ => rfl) (fun _ => rfl)]⟩


/-! ## summary -/

/-- every operation that runs no user code preserves the invariant and is a `Frame` step -/
theorem stepSimple_good {s s' : St} {op : Op} {r : String} (h : Inv s)
    (hs : stepSimple s op = some (s', r)) : Good0 s s' := by
  cases op with
  | newT t => exact step_newT t h hs
  | delT t => exact step_delT t h hs
  | notifyT t => exact step_notifyT t h hs
  | cpT j i => exact step_cpT j i h hs
  | mvT j i => exact step_mvT j i h hs
  | asgT j i => exact step_asgT j i h hs
  | masgT j i => exact step_masgT j i h hs
  | mkS i ty f => exact step_mkS i ty f h hs
  | mkS0 i ty => exact step_mkS0 i ty h hs
  | cpS j i => exact step_cpS j i h hs
  | mvS j i => exact step_mvS j i h hs
  | asgS j i => exact step_asgS j i h hs
  | masgS j i => exact step_masgS j i h hs
  | setS i f => exact step_setS i f h hs
  | delS i => exact step_delS i h hs
  | discS i => exact step_discS i h hs
  | blockS i b => exact step_blockS i b h hs
  | blockedSq i => exact step_blockedSq i h hs
  | emptySq i => exact step_emptySq i h hs
  | boolSq i => exact step_boolSq i h hs
  | callS i arg => simp [stepSimple] at hs
  | newG i fl => exact step_newG i fl h hs
  | cpG j i => exact step_cpG j i h hs
  | mvG j i => exact step_mvG j i h hs
  | asgG j i => exact step_asgG j i h hs
  | masgG j i => exact step_masgG j i h hs
  | delG i => exact step_delG i h hs
  | conn k g sv first mv => exact step_conn k g sv first mv h hs
  | connfn k g f first => exact step_connfn k g f first h hs
  | emit g arg strat try_ => simp [stepSimple] at hs
  | throw_ => simp [stepSimple] at hs
  | clear g => exact step_clear g h hs
  | sizeq g => exact step_sizeq g h hs
  | emptyGq g => exact step_emptyGq g h hs
  | blockedGq g => exact step_blockedGq g h hs
  | blockG g b => exact step_blockG g b h hs
  | newC i => exact step_newC i h hs
  | cpC j i => exact step_cpC j i h hs
  | asgC j i => exact step_asgC j i h hs
  | delC i => exact step_delC i h hs
  | disc i => exact step_disc i h hs
  | connectedq i => exact step_connectedq i h hs
  | emptyCq i => exact step_emptyCq i h hs
  | blockedCq i => exact step_blockedCq i h hs
  | blockC i b => exact step_blockC i b h hs
  | newK0 i => exact step_newK0 i h hs
  | newK i c => exact step_newK i c h hs
  | asgKC i c => exact step_asgKC i c h hs
  | mvK j i => exact step_mvK j i h hs
  | masgK j i => exact step_masgK j i h hs
  | swapK i j => exact step_swapK i j h hs
  | relK c k => exact step_relK c k h hs
  | discK i => exact step_discK i h hs
  | delK i => exact step_delK i h hs
  | connectedKq i => exact step_connectedKq i h hs
  | blockedKq i => exact step_blockedKq i h hs
  | blockK i b => exact step_blockK i b h hs
  | liveq fid => exact (step_misc h).1 fid hs
  | mark => exact (step_misc h).2.1 hs
  | allocsq => exact (step_misc h).2.2.1 hs
  | bad => exact (step_misc h).2.2.2 hs

end Sigc.Emit
