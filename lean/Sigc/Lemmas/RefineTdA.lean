import Sigc.Lemmas.RefineTdF
import Sigc.Lemmas.InvLive
/-!
# Refine work package — the driver's `teardown` is simulated (part A: the pieces)

`teardown` = `delK*`, then `delC* ++ delS* ++ clear*` (all through `execOp`, i.e. without `collect`), then the
forced destruction of every signal object (`dropHandle`, also of pinned / functor-owned ones), then `delT*`.
The `execOp` parts are simulated by `OpE` (`all_simE`, files `RefineTdC`–`RefineTdF`: the simulation that also tracks
the specification's error flag); the forced destruction by `R_dropHandle`, whose
hypothesis `Emit.Inv` survives the destruction of a pinned signal object because at that point no functor is
left (`NoFn`: no slot variable, no cell).
-/
namespace Sigc.Refine
open Sigc.Model

namespace Td

/-! ## no emission in progress -/

/-- no emission in progress (at any depth) -/
def Calm (s : St) : Prop := ∀ i, Emit.execOf s i = 0

theorem Calm.quiet {s : St} (h : Calm s) : Quiet s := fun _ => h

theorem Calm.step {s s' : St} (h : Calm s) (hf : Emit.Frame s s') : Calm s' := fun i => by
  rw [hf.exec i]; exact h i

theorem calm_of_quiet {s : St} (hq : Quiet s) (hd : s.depth = 0) : Calm s := hq hd

/-! ## the specification's teardown -/

def sQuiet (f : Nat) (P : Prog) (t : Spec.LSt) (op : Op) : Option Spec.LSt :=
  match Spec.execOp f P t op with
  | none => none
  | some (t, _) => some t

def sSeq (f : Nat) (P : Prog) (t : Option Spec.LSt) (ops : List Op) : Option Spec.LSt :=
  ops.foldl (fun acc op => acc.bind (fun t => sQuiet f P t op)) t

theorem spec_teardown_eq (f : Nat) (P : Prog) (t : Spec.LSt) :
    Spec.teardown f P t =
      match sSeq f P (some t) ((sortedKeys t.K).map Op.delK) with
      | none => none
      | some t =>
        match sSeq f P (some t) ((sortedKeys t.C).map Op.delC ++ (sortedKeys t.S).map Op.delS
                          ++ (sortedKeys t.G).map Op.clear) with
        | none => none
        | some t =>
          let t := (sortedKeys t.G).foldl Spec.dropHandle t
          sSeq f P (some t) ((sortedKeys t.T).map Op.delT) := rfl

theorem sSeq_none (f : Nat) (P : Prog) (ops : List Op) : sSeq f P none ops = none := by
  induction ops with
  | nil => rfl
  | cons o os ih => simpa [sSeq] using ih

theorem sSeq_cons (f : Nat) (P : Prog) (t : Spec.LSt) (o : Op) (os : List Op) :
    sSeq f P (some t) (o :: os) = sSeq f P (sQuiet f P t o) os := by
  simp [sSeq]

theorem sSeq_append (f : Nat) (P : Prog) (t : Option Spec.LSt) (a b : List Op) :
    sSeq f P t (a ++ b) = sSeq f P (sSeq f P t a) b := by
  simp [sSeq, List.foldl_append]

/-! ## the bundle carried through the teardown -/

structure Bun (e : Option String) (s : St) (t : Spec.LSt) : Prop where
  inv : Emit.Inv s
  rel : R s t
  err : t.err = e
  calm : Calm s
  td : Inv.TdInv s

/-- one `execOp` of the teardown -/
theorem op_step (f : Nat) (P : Prog) {e : Option String} {s : St} {t : Spec.LSt} {op : Op}
    {r : St × Except Unit String} (h : Bun e s t) (hx : execOp f P s op = some r) :
    ∃ t1 r1, Spec.execOp f P t op = some (t1, r1) ∧ Bun e r.1 t1 := by
  obtain ⟨s1, res⟩ := r
  obtain ⟨t1, r1, ht, hR1, _⟩ :=
    (all_simE f).op e P s t op s1 res h.inv ⟨h.rel, h.err⟩ h.calm.quiet hx f (Nat.le_refl _)
  have g1 := (Emit.all_ok f).op P s op s1 res h.inv hx
  exact ⟨t1, r1, ht, g1.inv, hR1.r, hR1.err, h.calm.step g1.frame, h.td.execOp hx⟩

/-- a sequence of `execOp`s of the teardown -/
theorem seq_step (f : Nat) (P : Prog) {e : Option String} : ∀ (ops : List Op) (s : St) (t : Spec.LSt) (s' : St),
    Bun e s t → Inv.tdSeq f P (some s) ops = some s' → ∃ t', sSeq f P (some t) ops = some t' ∧ Bun e s' t' := by
  intro ops
  induction ops with
  | nil =>
    intro s t s' hb h
    simp only [Inv.tdSeq, List.foldl_nil, Option.some.injEq] at h
    subst h
    exact ⟨t, rfl, hb⟩
  | cons op ops ih =>
    intro s t s' hb h
    rw [Inv.tdSeq_cons] at h
    cases hq : Inv.tdQuiet f P s op with
    | none => rw [hq, Inv.tdSeq_none] at h; cases h
    | some s1 =>
      rw [hq] at h
      simp only [Inv.tdQuiet] at hq
      split at hq
      · cases hq
      · rename_i r heq
        simp only [Option.some.injEq] at hq; subst hq
        obtain ⟨t1, r1, ht1, hb1⟩ := op_step f P hb heq
        obtain ⟨t', ht', hb'⟩ := ih _ t1 s' hb1 h
        refine ⟨t', ?_, hb'⟩
        rw [sSeq_cons]
        simp only [sQuiet, ht1]
        exact ht'

/-! ## no functor left -/

/-- list `i` (if it exists) has no cell -/
def Emp (i : Nat) (s : St) : Prop := ∀ im, aget s.impls i = some im → im.cells = []

/-- no slot variable, no cell: no functor is left in the state -/
def NoFn (s : St) : Prop := s.S = [] ∧ ∀ i, Emp i s

theorem emp_prims (i : Nat) : Inv.PrimsA (Emp i) where
  upd s j im g e d _ h hj _ := by
    intro x hx
    rw [Emit.aget_setImpl] at hx
    split at hx
    · rename_i e; subst e; cases hx
      simp [h im hj]
    · exact h x hx
  filter s j im p d ids _ h hj _ := by
    intro x hx
    rw [(Emit.nullConnsList_core _ _).1, Emit.aget_setImpl] at hx
    split at hx
    · rename_i e; subst e; cases hx
      simp [h im hj]
    · exact h x hx
  delImpl s j im _ h _ _ _ := by
    intro x hx
    rw [(Emit.nullConnsList_core _ _).1] at hx
    simp only [Emit.aget_adel] at hx
    split at hx
    · cases hx
    · exact h x hx
  invalS s t _ h := h

theorem noS_prims : Inv.PrimsA (fun s => s.S = []) where
  upd s j im g e d _ h _ _ := h
  filter s j im p d ids _ h _ _ := by
    rw [(Emit.nullConnsList_core _ _).2.2.1]; exact h
  delImpl s j im _ h _ _ _ := by
    rw [(Emit.nullConnsList_core _ _).2.2.1]; exact h
  invalS s t _ h := by
    simp [h, amap]

theorem gconst_prims (G0 : List (Nat × Handle)) : Inv.PrimsA (fun s => s.G = G0) where
  upd s j im g e d _ h _ _ := h
  filter s j im p d ids _ h _ _ := by
    rw [(Emit.nullConnsList_core _ _).2.1]; exact h
  delImpl s j im _ h _ _ _ := by
    rw [(Emit.nullConnsList_core _ _).2.1]; exact h
  invalS s t _ h := h

/-- `clear()` of a list that is not being emitted erases every cell -/
theorem emp_clearImpl {s : St} {i : Nat} (hx : ∀ im, aget s.impls i = some im → im.exec = 0) :
    Emp i (clearImpl s i) := by
  unfold Model.clearImpl
  split
  · rename_i hn
    intro x hx'; rw [hn] at hx'; cases hx'
  · rename_i im hi
    have h0 := hx im hi
    simp only []
    split
    · rename_i hn
      intro x hx'; rw [hn] at hx'; cases hx'
    · rename_i im2 hi2
      apply (emp_prims i).unrefExec
      rw [if_neg (by omega)]
      intro x hx'
      rw [(Emit.nullConnsList_core _ _).1, Emit.aget_setImpl, if_pos rfl] at hx'
      cases hx'
      rfl

/-- one `clear g` of the teardown -/
theorem clear_op {f : Nat} {P : Prog} {s : St} {g : Nat} {r : St × Except Unit String} (hc : Calm s)
    (h : execOp f P s (.clear g) = some r) :
    r.1.G = s.G ∧ (∀ i, Emp i s → Emp i r.1) ∧
    (∀ hd i, aget s.G g = some hd → hd.impl = some i → Emp i r.1) := by
  rcases Inv.execOp_simple_of g (by simp) h with ⟨r0, hs⟩ | ⟨hs, _⟩
  · simp only [stepSimple] at hs
    split at hs
    · rename_i hn
      simp only [Option.some.injEq, Prod.mk.injEq] at hs
      rw [← hs.1]
      exact ⟨rfl, fun _ h => h, fun hd i hg _ => by rw [hn] at hg; cases hg⟩
    · rename_i hd0 hg0
      simp only [Option.some.injEq, Prod.mk.injEq] at hs
      rw [← hs.1]
      cases him : hd0.impl with
      | none =>
        exact ⟨rfl, fun _ h => h, fun hd i hg hi => by rw [hg0] at hg; cases hg; rw [him] at hi; cases hi⟩
      | some im =>
        simp only
        refine ⟨(gconst_prims s.G).clearImpl im rfl, fun i h => (emp_prims i).clearImpl im h, ?_⟩
        intro hd i hg hi
        rw [hg0] at hg; cases hg
        rw [him] at hi; cases hi
        apply emp_clearImpl
        intro x hx
        have := hc im
        rw [Emit.execOf_pos hx] at this
        exact this
  · simp [stepSimple] at hs
    split at hs <;> cases hs

/-- the `clear` phase: every list referred to by one of the cleared signal objects ends without cells -/
theorem clear_phase (f : Nat) (P : Prog) : ∀ (gs : List Nat) (s s' : St), Emit.Inv s → Calm s →
    Inv.tdSeq f P (some s) (gs.map Op.clear) = some s' →
    s'.G = s.G ∧ (∀ i, Emp i s → Emp i s') ∧
    (∀ g ∈ gs, ∀ hd i, aget s.G g = some hd → hd.impl = some i → Emp i s') := by
  intro gs
  induction gs with
  | nil =>
    intro s s' _ _ h
    simp only [List.map_nil, Inv.tdSeq, List.foldl_nil, Option.some.injEq] at h
    subst h
    exact ⟨rfl, fun _ h => h, fun g hg => by simp at hg⟩
  | cons g gs ih =>
    intro s s' hs hc h
    rw [List.map_cons, Inv.tdSeq_cons] at h
    cases hq : Inv.tdQuiet f P s (.clear g) with
    | none => rw [hq, Inv.tdSeq_none] at h; cases h
    | some s1 =>
      rw [hq] at h
      simp only [Inv.tdQuiet] at hq
      split at hq
      · cases hq
      · rename_i r1 r2 heq
        simp only [Option.some.injEq] at hq; subst hq
        have g1 := (Emit.all_ok f).op P s _ r1 r2 hs heq
        obtain ⟨a1, a2, a3⟩ := clear_op hc heq
        obtain ⟨b1, b2, b3⟩ := ih r1 s' g1.inv (hc.step g1.frame) h
        simp only at a1 a2 a3 b1 b2 b3
        refine ⟨b1.trans a1, fun i h => b2 i (a2 i h), ?_⟩
        intro g' hg' hd i hg hi
        rcases List.mem_cons.mp hg' with e | e
        · subst e
          exact b2 i (a3 hd i hg hi)
        · exact b3 g' e hd i (by rw [a1]; exact hg) hi

/-! ## the forced destruction of a signal object -/

/-- with no functor left, destroying a signal object — also a pinned one — keeps the invariant -/
theorem good_forceDrop {s : St} (h : Emit.Inv s) (hn : NoFn s) (g : Nat) :
    Emit.Good0 s (dropHandle s g) ∧ NoFn (dropHandle s g) := by
  unfold Model.dropHandle
  cases hg : aget s.G g with
  | none => exact ⟨Emit.Good.refl h, hn⟩
  | some hd =>
    simp only
    generalize hs1 : (if hd.fl.isTrackable = true then invalidateTrackable s hd.trk else s) = s1
    have g1 : Emit.Good0 s s1 := by
      subst hs1; split
      · exact Emit.good_invalidateTrackable h _
      · exact Emit.Good.refl h
    have hn1 : NoFn s1 := by
      subst hs1; split
      · exact ⟨noS_prims.invalidateTrackable _ hn.1, fun i => (emp_prims i).invalidateTrackable _ (hn.2 i)⟩
      · exact hn
    have i1 := g1.inv
    have g2 : Emit.Good0 s1 { s1 with G := Sigc.Model.adel s1.G g } := by
      refine ⟨⟨i1.keys, i1.lt, i1.ok, i1.disj, ?_, ?_, ?_, i1.noerr, i1.own.adel g⟩,
        Emit.Frame.of_eq (Nat.le_refl _) rfl rfl⟩
      · intro p hp k hk; exact i1.himpl p (Emit.mem_adel hp).1 k hk
      · intro j v hv
        have hv' : aget s1.S j = some v := hv
        rw [hn1.1] at hv'; simp [aget] at hv'
      · intro j im hj c hc
        have hj' : aget s1.impls j = some im := hj
        rw [hn1.2 j im hj'] at hc; simp at hc
    have hn2 : NoFn { s1 with G := Sigc.Model.adel s1.G g } := hn1
    cases hd.impl with
    | none => exact ⟨g1.trans g2, hn2⟩
    | some im =>
      exact ⟨(g1.trans g2).andThen (fun h => Emit.Good.gcImpl h im),
        noS_prims.gcImpl im hn2.1, fun i => (emp_prims i).gcImpl im (hn2.2 i)⟩

/-- the forced destruction of all signal objects -/
theorem force_sim {e : Option String} : ∀ (gs : List Nat) (s : St) (t : Spec.LSt), Bun e s t → NoFn s →
    Bun e (gs.foldl Inv.forceDelG s) (gs.foldl Spec.dropHandle t) ∧ NoFn (gs.foldl Inv.forceDelG s) := by
  intro gs
  induction gs with
  | nil => intro s t hb hn; exact ⟨hb, hn⟩
  | cons g gs ih =>
    intro s t hb hn
    simp only [List.foldl_cons]
    obtain ⟨g1, hn1⟩ := good_forceDrop hb.inv hn g
    have hR1 := R_dropHandle hb.inv hb.rel g
    exact ih _ _ ⟨g1.inv, hR1, (SErr.dropHandle_err t g).trans hb.err, hb.calm.step g1.frame, hb.td.forceDelG g⟩ hn1

/-! ## the names walked over agree -/

theorem sortedKeys_AR {α β : Type} {r : α → β → Prop} {l : List (Nat × α)} {m : List (Nat × β)} (h : AR r l m) :
    sortedKeys m = sortedKeys l := by
  unfold sortedKeys
  rw [h.keys]

end Td

end Sigc.Refine
