import Sigc.Lemmas.RefinePrimC
import Sigc.Lemmas.RefineStepB
/-!
# Refine work package — simulation of the operations without user code, part D:
`clear`, `blockG`, the queries on signals (`sizeq`, `emptyGq`, `blockedGq`), the queries and `block()` through
connections / scoped connections, and `liveq`.
-/
set_option linter.unusedSimpArgs false
namespace Sigc.Refine
open Sigc.Model

/-- the model never refuses these operations -/
local macro "none_case" : tactic =>
  `(tactic| (intro h; simp only [Model.stepSimple] at h; repeat' (first | (simp at h; done) | split at h)))

/-- close a leaf: `h : some (a, b) = some (s', r)`, the goal's specification side is reduced to `some _` -/
local macro "leaf" h:ident hR:term : tactic =>
  `(tactic| (cases $h:ident; exact ⟨_, _, rfl, $hR, .refl _⟩))

/-- related lists are both empty or both non-empty -/
theorem F2.isEmpty {α β : Type} {r : α → β → Prop} {l : List α} {m : List β} (h : F2 r l m) :
    l.isEmpty = m.isEmpty := by
  cases h <;> rfl

/-! ### signals -/

theorem step_clear (g : Nat) : StepSim (.clear g) := by
  intro s t hs hR hq
  refine ⟨?_, by none_case⟩
  intro s' r h
  simp only [Model.stepSimple] at h
  simp only [Spec.stepSimple, hR.G, hR.k1, hR.k2]
  cases hg : aget s.G g with
  | none => simp only [hg] at h ⊢; leaf h hR
  | some hd =>
    simp only [hg] at h ⊢
    cases him : hd.impl with
    | none => simp only [him] at h ⊢; leaf h hR
    | some im =>
      simp only [him] at h ⊢
      rcases hR.sigs.get im with ⟨h1, h2⟩ | ⟨x, y, h1, h2, hr⟩
      · simp only [h2]
        have : clearImpl s im = s := by unfold Model.clearImpl; simp only [h1]
        rw [this] at h
        leaf h hR
      · simp only [h2]
        leaf h (R_clear hs hR h1 h2)

theorem step_sizeq (g : Nat) : StepSim (.sizeq g) := by
  intro s t hs hR hq
  refine ⟨?_, by none_case⟩
  intro s' r h
  simp only [Model.stepSimple] at h
  simp only [Spec.stepSimple, hR.G]
  cases hg : aget s.G g with
  | none => simp only [hg] at h ⊢; leaf h hR
  | some hd =>
    simp only [hg] at h ⊢
    cases him : hd.impl with
    | none => simp only [him] at h ⊢; leaf h hR
    | some im =>
      simp only [him] at h ⊢
      rcases hR.sigs.get im with ⟨h1, h2⟩ | ⟨x, y, h1, h2, hr⟩
      · simp only [h1] at h; simp only [h2]; leaf h hR
      · simp only [h1] at h; simp only [h2]
        cases h
        refine ⟨_, _, rfl, hR, ?_⟩
        by_cases ha : y.active > 0
        · simp only [ha, if_true]; exact Or.inr rfl
        · simp only [ha, if_false]
          left
          simp only [Option.map_some, Option.getD_some, hr.cells.length]

theorem step_emptyGq (g : Nat) : StepSim (.emptyGq g) := by
  intro s t hs hR hq
  refine ⟨?_, by none_case⟩
  intro s' r h
  simp only [Model.stepSimple] at h
  simp only [Spec.stepSimple, hR.G]
  cases hg : aget s.G g with
  | none => simp only [hg] at h ⊢; leaf h hR
  | some hd =>
    simp only [hg] at h ⊢
    cases him : hd.impl with
    | none => simp only [him] at h ⊢; leaf h hR
    | some im =>
      simp only [him] at h ⊢
      rcases hR.sigs.get im with ⟨h1, h2⟩ | ⟨x, y, h1, h2, hr⟩
      · simp only [h1] at h; simp only [h2]; leaf h hR
      · simp only [h1] at h; simp only [h2]
        cases h
        refine ⟨_, _, rfl, hR, ?_⟩
        by_cases ha : y.active > 0
        · simp only [ha, if_true]; exact Or.inr rfl
        · simp only [ha, if_false]
          left
          have : y.cells.isEmpty = x.cells.isEmpty := (F2.isEmpty hr.cells).symm
          simp only [Option.map_some, Option.getD_some, this]

theorem step_blockedGq (g : Nat) : StepSim (.blockedGq g) := by
  intro s t hs hR hq
  refine ⟨?_, by none_case⟩
  intro s' r h
  simp only [Model.stepSimple] at h
  simp only [Spec.stepSimple, hR.G]
  cases hg : aget s.G g with
  | none => simp only [hg] at h ⊢; leaf h hR
  | some hd =>
    simp only [hg] at h ⊢
    cases him : hd.impl with
    | none => simp only [him] at h ⊢; leaf h hR
    | some im =>
      simp only [him] at h ⊢
      rcases hR.sigs.get im with ⟨h1, h2⟩ | ⟨x, y, h1, h2, hr⟩
      · simp only [h1] at h; simp only [h2]; leaf h hR
      · simp only [h1] at h; simp only [h2]
        cases h
        refine ⟨_, _, rfl, hR, ?_⟩
        by_cases ha : y.active > 0
        · simp only [ha, if_true]; exact Or.inr rfl
        · simp only [ha, if_false]
          left
          have ha0 : y.active = 0 := by omega
          have hqz := hr.quiet (hs.ok im x h1) ha0
          have : x.cells.all (·.slot.blocked) = y.cells.all (·.slot.blocked) :=
            F2.all hr.cells _ _ (fun c d _ hd hcd => by rw [hcd.slot (hqz d hd).1])
          simp only [Option.map_some, Option.getD_some, this]

theorem step_blockG (g : Nat) (b : Bool) : StepSim (.blockG g b) := by
  intro s t hs hR hq
  refine ⟨?_, by none_case⟩
  intro s' r h
  simp only [Model.stepSimple] at h
  simp only [Spec.stepSimple, hR.G]
  cases hg : aget s.G g with
  | none => simp only [hg] at h ⊢; leaf h hR
  | some hd =>
    simp only [hg] at h ⊢
    cases him : hd.impl with
    | none => simp only [him] at h ⊢; leaf h hR
    | some im =>
      simp only [him] at h ⊢
      rcases hR.sigs.get im with ⟨h1, h2⟩ | ⟨x, y, h1, h2, hr⟩
      · simp only [h1] at h; simp only [h2]; leaf h hR
      · simp only [h1] at h; simp only [h2]
        cases h
        refine ⟨_, _, rfl, ?_, .refl _⟩
        have hcells : F2 CellR (x.cells.map (fun c => { c with slot := { c.slot with blocked := b } }))
            (y.cells.map (fun c => { c with slot := { c.slot with blocked := b } })) := by
          apply hr.cells.map
          intro c d _ _ hcd
          refine ⟨hcd.id, hcd.marker, hcd.zombie, fun hz => ?_, fun hz => ?_, hcd.lrep⟩
          · show ({ d.slot with blocked := b } : SlotB) = { c.slot with blocked := b }
            rw [hcd.slot hz]
          · obtain ⟨e1, e2⟩ := hcd.zslot hz
            exact ⟨e1, ((sameHold_blocked _ _).trans e2).trans (sameHold_blocked _ _).symm⟩
        have hle : SigsLe t.sigs t.next (aset t.sigs im
            { y with cells := y.cells.map (fun c => { c with slot := { c.slot with blocked := b } }) }) := by
          apply SigsLe.aset_sub h2
          intro c' hc' _
          obtain ⟨c0, hc0, rfl⟩ := List.mem_map.mp hc'
          exact ⟨c0, hc0, rfl⟩
        exact ⟨hR.T, hR.S, hR.G, ptrs_mono (Nat.le_refl _) hle hR.C, ptrs_mono (Nat.le_refl _) hle hR.K,
          hR.sigs.set im ⟨hcells, hr.active, hr.dirty, hr.limbo⟩, hR.ownedT, ptrs_mono (Nat.le_refl _) hle hR.ownedK, hR.ownedG,
          hR.next, hR.depth, hR.steps, hR.trace, hR.k1, hR.k2⟩

/-! ### queries and `block()` through connections -/

theorem step_connectedq (i : Nat) : StepSim (.connectedq i) := by
  intro s t hs hR hq
  refine ⟨?_, by none_case⟩
  intro s' r h
  simp only [Model.stepSimple] at h
  simp only [Spec.stepSimple]
  rcases hR.C.get i with ⟨h1, h2⟩ | ⟨a, b, h1, h2, hr⟩
  · simp only [h1] at h; simp only [h2]; leaf h hR
  · simp only [h1] at h; simp only [h2, connConnected_sim hs hR hr]; leaf h hR

theorem step_emptyCq (i : Nat) : StepSim (.emptyCq i) := by
  intro s t hs hR hq
  refine ⟨?_, by none_case⟩
  intro s' r h
  simp only [Model.stepSimple] at h
  simp only [Spec.stepSimple]
  rcases hR.C.get i with ⟨h1, h2⟩ | ⟨a, b, h1, h2, hr⟩
  · simp only [h1] at h; simp only [h2]; leaf h hR
  · simp only [h1] at h; simp only [h2, connConnected_sim hs hR hr]; leaf h hR

theorem step_blockedCq (i : Nat) : StepSim (.blockedCq i) := by
  intro s t hs hR hq
  refine ⟨?_, by none_case⟩
  intro s' r h
  simp only [Model.stepSimple] at h
  simp only [Spec.stepSimple]
  rcases hR.C.get i with ⟨h1, h2⟩ | ⟨a, b, h1, h2, hr⟩
  · simp only [h1] at h; simp only [h2]; leaf h hR
  · simp only [h1] at h; simp only [h2]
    cases h
    exact ⟨_, _, rfl, hR, connBlocked_sim hs hR hr⟩

theorem step_blockC (i : Nat) (b : Bool) : StepSim (.blockC i b) := by
  intro s t hs hR hq
  refine ⟨?_, by none_case⟩
  intro s' r h
  simp only [Model.stepSimple] at h
  simp only [Spec.stepSimple]
  rcases hR.C.get i with ⟨h1, h2⟩ | ⟨a, b', h1, h2, hr⟩
  · simp only [h1] at h; simp only [h2]; leaf h hR
  · simp only [h1] at h; simp only [h2]
    cases h
    exact ⟨_, _, rfl, R_connBlock hs hR hr b, connBlocked_sim hs hR hr⟩

theorem step_connectedKq (i : Nat) : StepSim (.connectedKq i) := by
  intro s t hs hR hq
  refine ⟨?_, by none_case⟩
  intro s' r h
  simp only [Model.stepSimple] at h
  simp only [Spec.stepSimple]
  rcases hR.K.get i with ⟨h1, h2⟩ | ⟨a, b, h1, h2, hr⟩
  · simp only [h1] at h; simp only [h2]; leaf h hR
  · simp only [h1] at h; simp only [h2, connConnected_sim hs hR hr]; leaf h hR

theorem step_blockedKq (i : Nat) : StepSim (.blockedKq i) := by
  intro s t hs hR hq
  refine ⟨?_, by none_case⟩
  intro s' r h
  simp only [Model.stepSimple] at h
  simp only [Spec.stepSimple]
  rcases hR.K.get i with ⟨h1, h2⟩ | ⟨a, b, h1, h2, hr⟩
  · simp only [h1] at h; simp only [h2]; leaf h hR
  · simp only [h1] at h; simp only [h2]
    cases h
    exact ⟨_, _, rfl, hR, connBlocked_sim hs hR hr⟩

theorem step_blockK (i : Nat) (b : Bool) : StepSim (.blockK i b) := by
  intro s t hs hR hq
  refine ⟨?_, by none_case⟩
  intro s' r h
  simp only [Model.stepSimple] at h
  simp only [Spec.stepSimple]
  rcases hR.K.get i with ⟨h1, h2⟩ | ⟨a, b', h1, h2, hr⟩
  · simp only [h1] at h; simp only [h2]; leaf h hR
  · simp only [h1] at h; simp only [h2]
    cases h
    exact ⟨_, _, rfl, R_connBlock hs hR hr b, connBlocked_sim hs hR hr⟩

/-! ### accounting -/

theorem step_liveq (fid : Nat) : StepSim (.liveq fid) := by
  intro s t hs hR hq
  refine ⟨?_, by none_case⟩
  intro s' r h
  simp only [Model.stepSimple] at h
  simp only [Spec.stepSimple, hR.depth]
  cases h
  refine ⟨_, _, rfl, hR, ?_⟩
  by_cases hd : s.depth > 0
  · simp only [hd, if_true]; exact Or.inr rfl
  · simp only [hd, if_false]
    have hd0 : s.depth = 0 := by omega
    rw [liveCount_sim hs hR (hq hd0) fid]
    exact Or.inl rfl

end Sigc.Refine
