import Sigc.Lemmas.SpecPDefs
/-!
# SpecPWF — well-formedness of the states of `S` and the step relation preserved by every function

`WF s`: list keys and entry ids are below `s.next`, the ids of a list are pairwise distinct, without `k2`
no entry is a marker or a zombie, without `k1` no list is dirty.
`Step s s'`: `next` does not decrease, the flags `k1/k2` are kept, and from a well-formed `s`: `s'` is
well-formed, every list has the same number of emissions in progress (`actOf`, 0 for an absent list), and
every entry id of `s'` below `s.next` was an entry id of `s` (ids are never reused).
-/
namespace Sigc.SpecP
open Sigc.Spec
open Sigc.Model (aget aset adel amap Prog Line Op FSpec Fun SlotB SlotVar Rep Handle Flavour Strat Outcome Event
  aget_nil aget_aset_same aget_aset_other aget_amap aget_adel_same aget_adel_other)

/-- emissions of list `i` in progress (0 if there is no such list) -/
def actL (sigs : List (Nat × LSig)) (i : Nat) : Nat :=
  match aget sigs i with
  | some g => g.active
  | none => 0

def actOf (s : LSt) (i : Nat) : Nat := actL s.sigs i

/-- `n` is the id of an entry of some list -/
def idsL (sigs : List (Nat × LSig)) (n : Nat) : Prop :=
  ∃ i g c, aget sigs i = some g ∧ c ∈ g.cells ∧ c.id = n

structure WFSig (k1 k2 : Bool) (nx : Nat) (g : LSig) : Prop where
  lt : ∀ c ∈ g.cells, c.id < nx
  nodup : (g.cells.map (·.id)).Nodup
  pure : k2 = false → ∀ c ∈ g.cells, c.marker = false ∧ c.zombie = false
  clean : k1 = false → g.dirty = false

def WFL (k1 k2 : Bool) (nx : Nat) (sigs : List (Nat × LSig)) : Prop :=
  ∀ i g, aget sigs i = some g → i < nx ∧ WFSig k1 k2 nx g

def WF (s : LSt) : Prop := WFL s.k1 s.k2 s.next s.sigs

def Step (s s' : LSt) : Prop :=
  s.next ≤ s'.next ∧ s'.k1 = s.k1 ∧ s'.k2 = s.k2 ∧
  (WF s → WF s' ∧ (∀ i, actOf s' i = actOf s i) ∧ (∀ n, n < s.next → idsL s'.sigs n → idsL s.sigs n))

theorem WF_init (k1 k2 : Bool) : WF { k1 := k1, k2 := k2 } := by
  intro i g h
  simp [aget] at h

/-! ## lists -/

theorem WFSig.mono {k1 k2 : Bool} {nx nx' : Nat} {g : LSig} (h : WFSig k1 k2 nx g) (hn : nx ≤ nx') :
    WFSig k1 k2 nx' g :=
  ⟨fun c hc => Nat.lt_of_lt_of_le (h.lt c hc) hn, h.nodup, h.pure, h.clean⟩

theorem WFSig.empty (k1 k2 : Bool) (nx : Nat) : WFSig k1 k2 nx {} :=
  ⟨by simp, by simp, by simp, fun _ => rfl⟩

theorem nodup_map_filter {α β} (f : α → β) (p : α → Bool) (l : List α) (h : (l.map f).Nodup) :
    ((l.filter p).map f).Nodup :=
  ((List.filter_sublist (p := p) (l := l)).map f).nodup h

/-- a sub-list (same or fewer entries, ids kept) with the same flags stays well-formed -/
theorem WFSig.filter {k1 k2 : Bool} {nx : Nat} {g : LSig} (h : WFSig k1 k2 nx g) (p : LCell → Bool) (a : Nat)
    (d : Bool) (l : List SlotB) (hd : k1 = false → d = false) :
    WFSig k1 k2 nx { cells := g.cells.filter p, active := a, dirty := d, limbo := l } :=
  ⟨fun c hc => h.lt c (List.mem_filter.1 hc).1, nodup_map_filter _ _ _ h.nodup,
   fun hk c hc => h.pure hk c (List.mem_filter.1 hc).1, hd⟩

/-- changing entries without touching id / marker / zombie keeps a list well-formed -/
theorem WFSig.map {k1 k2 : Bool} {nx : Nat} {g : LSig} (h : WFSig k1 k2 nx g) (f : LCell → LCell) (a : Nat)
    (d : Bool) (l : List SlotB) (hd : k1 = false → d = false)
    (hf : ∀ c, (f c).id = c.id) (hm : k2 = false → ∀ c, (f c).marker = c.marker ∧ (f c).zombie = c.zombie) :
    WFSig k1 k2 nx { cells := g.cells.map f, active := a, dirty := d, limbo := l } := by
  refine ⟨?_, ?_, ?_, hd⟩
  · intro c hc
    simp only [List.mem_map] at hc
    obtain ⟨c0, hc0, rfl⟩ := hc
    rw [hf]; exact h.lt c0 hc0
  · simp only [List.map_map]
    have : ((fun c : LCell => c.id) ∘ f) = (fun c => c.id) := by funext c; simp [hf]
    rw [this]; exact h.nodup
  · intro hk c hc
    simp only [List.mem_map] at hc
    obtain ⟨c0, hc0, rfl⟩ := hc
    rw [(hm hk c0).1, (hm hk c0).2]; exact h.pure hk c0 hc0

theorem ids_filter_sub (p : LCell → Bool) (cs : List LCell) (c : LCell) (h : c ∈ cs.filter p) : c ∈ cs :=
  (List.mem_filter.1 h).1

theorem WFSig.remove {k1 k2 : Bool} {nx : Nat} {g : LSig} (h : WFSig k1 k2 nx g) (d : Bool) (p : LCell → Bool) :
    WFSig k1 k2 nx (g.remove k1 k2 d p) := by
  unfold LSig.remove
  have hd : k1 = false → (g.dirty || (k1 && decide (g.active > 0) &&
      g.cells.any (fun c => p c && !c.zombie && !c.marker))) = false := by
    intro hk; simp [hk, h.clean hk]
  by_cases hb : (k2 && decide (g.active > 0)) = true
  · simp only [hb, if_true]
    refine WFSig.map h _ _ _ _ hd ?_ ?_
    · intro c; split <;> rfl
    · intro hk; simp [hk] at hb
  · simp only [hb]
    exact WFSig.filter h _ _ _ _ hd

theorem remove_active (g : LSig) (k1 k2 d : Bool) (p : LCell → Bool) : (g.remove k1 k2 d p).active = g.active := rfl

theorem remove_ids (g : LSig) (k1 k2 d : Bool) (p : LCell → Bool) (c : LCell) (hc : c ∈ (g.remove k1 k2 d p).cells) :
    ∃ c0 ∈ g.cells, c0.id = c.id := by
  unfold LSig.remove at hc
  simp only at hc
  split at hc
  · simp only [List.mem_map] at hc
    obtain ⟨c0, hc0, rfl⟩ := hc
    refine ⟨c0, hc0, ?_⟩
    split <;> rfl
  · exact ⟨c, (List.mem_filter.1 hc).1, rfl⟩

theorem closeSig_ids (m : Nat) (g : LSig) (c : LCell) (hc : c ∈ (closeSig m g).cells) : c ∈ g.cells := by
  unfold closeSig at hc
  simp only at hc
  split at hc <;> split at hc <;> simp only [List.mem_filter] at hc <;> first | exact hc.1.1.1 | exact hc.1.1 | exact hc.1

theorem WFSig.closeSig {k1 k2 : Bool} {nx : Nat} {g : LSig} (h : WFSig k1 k2 nx g) (m : Nat) :
    WFSig k1 k2 nx (closeSig m g) := by
  have h1 := WFSig.filter h (fun c => decide (c.id ≠ m)) (g.active - 1) g.dirty g.limbo h.clean
  unfold Sigc.SpecP.closeSig
  simp only
  split
  · have h2 := WFSig.filter h1 (fun c => !c.zombie) (g.active - 1) g.dirty [] h.clean
    split
    · exact WFSig.filter h2 (fun c => !c.slot.empty) _ false _ (fun _ => rfl)
    · exact h2
  · split
    · exact WFSig.filter h1 (fun c => !c.slot.empty) _ false _ (fun _ => rfl)
    · exact h1

/-! ## association lists of lists -/

theorem actL_aset (sigs : List (Nat × LSig)) (i j : Nat) (g : LSig) :
    actL (aset sigs i g) j = if j = i then g.active else actL sigs j := by
  unfold actL
  by_cases h : j = i
  · subst h; simp
  · simp [h, aget_aset_other _ _ _ _ h]

theorem actL_amap (sigs : List (Nat × LSig)) (f : LSig → LSig) (hf : ∀ g, (f g).active = g.active) (j : Nat) :
    actL (amap sigs f) j = actL sigs j := by
  unfold actL
  rw [aget_amap]
  cases aget sigs j <;> simp [hf]

theorem actL_adel (sigs : List (Nat × LSig)) (i j : Nat) (h : actL sigs i = 0) :
    actL (adel sigs i) j = actL sigs j := by
  by_cases hj : j = i
  · subst hj
    rw [h]; simp [actL]
  · simp [actL, aget_adel_other _ _ _ hj]

/-! ## steps -/

theorem Step.refl (s : LSt) : Step s s :=
  ⟨Nat.le_refl _, rfl, rfl, fun h => ⟨h, fun _ => rfl, fun _ _ h => h⟩⟩

theorem Step.trans {s s' s'' : LSt} (h1 : Step s s') (h2 : Step s' s'') : Step s s'' := by
  obtain ⟨n1, a1, b1, c1⟩ := h1
  obtain ⟨n2, a2, b2, c2⟩ := h2
  refine ⟨Nat.le_trans n1 n2, a2.trans a1, b2.trans b1, fun hw => ?_⟩
  obtain ⟨w1, e1, o1⟩ := c1 hw
  obtain ⟨w2, e2, o2⟩ := c2 w1
  exact ⟨w2, fun i => (e2 i).trans (e1 i), fun n hn hi => o1 n hn (o2 n (Nat.lt_of_lt_of_le hn n1) hi)⟩

theorem WFL.mono {k1 k2 : Bool} {nx nx' : Nat} {sigs : List (Nat × LSig)} (h : WFL k1 k2 nx sigs) (hn : nx ≤ nx') :
    WFL k1 k2 nx' sigs :=
  fun i g hg => ⟨Nat.lt_of_lt_of_le (h i g hg).1 hn, (h i g hg).2.mono hn⟩

/-- a step that does not touch the lists -/
theorem step_frame {s s' : LSt} (hs : s'.sigs = s.sigs) (hn : s.next ≤ s'.next) (h1 : s'.k1 = s.k1) (h2 : s'.k2 = s.k2) :
    Step s s' := by
  refine ⟨hn, h1, h2, fun hw => ⟨?_, ?_, ?_⟩⟩
  · unfold WF; rw [hs, h1, h2]; exact WFL.mono hw hn
  · intro i; unfold actOf; rw [hs]
  · intro n _ h; rw [hs] at h; exact h

/-- every list is transformed by a function that keeps `active`, well-formedness and does not invent ids -/
theorem step_amap {s s' : LSt} (f : LSig → LSig) (hs : s'.sigs = amap s.sigs f) (hn : s.next ≤ s'.next)
    (h1 : s'.k1 = s.k1) (h2 : s'.k2 = s.k2) (ha : ∀ g, (f g).active = g.active)
    (hw : ∀ g nx, WFSig s.k1 s.k2 nx g → WFSig s.k1 s.k2 nx (f g))
    (hi : ∀ g c, c ∈ (f g).cells → ∃ c0 ∈ g.cells, c0.id = c.id) : Step s s' := by
  refine ⟨hn, h1, h2, fun hwf => ⟨?_, ?_, ?_⟩⟩
  · unfold WF; rw [hs, h1, h2]
    intro i g hg
    rw [aget_amap] at hg
    cases hg0 : aget s.sigs i with
    | none => simp [hg0] at hg
    | some g0 =>
      simp only [hg0, Option.map_some, Option.some.injEq] at hg
      subst hg
      exact ⟨Nat.lt_of_lt_of_le (hwf i g0 hg0).1 hn, hw g0 _ ((hwf i g0 hg0).2.mono hn)⟩
  · intro i; unfold actOf; rw [hs]; exact actL_amap _ _ ha i
  · intro n _ h
    rw [hs] at h
    obtain ⟨i, g, c, hg, hc, rfl⟩ := h
    rw [aget_amap] at hg
    cases hg0 : aget s.sigs i with
    | none => simp [hg0] at hg
    | some g0 =>
      simp only [hg0, Option.map_some, Option.some.injEq] at hg
      subst hg
      obtain ⟨c0, hc0, he⟩ := hi g0 c hc
      exact ⟨i, g0, c0, hg0, hc0, he⟩

/-- one existing list is replaced by one with the same `active`, well-formed, with no invented ids -/
theorem step_aset {s s' : LSt} (i : Nat) (g g' : LSig) (hg : aget s.sigs i = some g) (hs : s'.sigs = aset s.sigs i g')
    (hn : s.next ≤ s'.next) (h1 : s'.k1 = s.k1) (h2 : s'.k2 = s.k2) (ha : g'.active = g.active)
    (hw : ∀ nx, WFSig s.k1 s.k2 nx g → WFSig s.k1 s.k2 nx g')
    (hi : ∀ c, c ∈ g'.cells → ∃ c0 ∈ g.cells, c0.id = c.id) : Step s s' := by
  refine ⟨hn, h1, h2, fun hwf => ⟨?_, ?_, ?_⟩⟩
  · unfold WF; rw [hs, h1, h2]
    intro j x hx
    by_cases hj : j = i
    · subst hj
      rw [aget_aset_same] at hx
      cases hx
      exact ⟨Nat.lt_of_lt_of_le (hwf j g hg).1 hn, hw _ ((hwf j g hg).2.mono hn)⟩
    · rw [aget_aset_other _ _ _ _ hj] at hx
      exact ⟨Nat.lt_of_lt_of_le (hwf j x hx).1 hn, (hwf j x hx).2.mono hn⟩
  · intro j; unfold actOf; rw [hs, actL_aset]
    by_cases hj : j = i
    · subst hj; simp [actL, hg, ha]
    · simp [hj]
  · intro n _ h
    rw [hs] at h
    obtain ⟨j, x, c, hx, hc, rfl⟩ := h
    by_cases hj : j = i
    · subst hj
      rw [aget_aset_same] at hx
      cases hx
      obtain ⟨c0, hc0, he⟩ := hi c hc
      exact ⟨j, g, c0, hg, hc0, he⟩
    · rw [aget_aset_other _ _ _ _ hj] at hx
      exact ⟨j, x, c, hx, hc, rfl⟩

theorem step_setSig_remove (s : LSt) (i : Nat) (g : LSig) (d : Bool) (p : LCell → Bool) (hg : aget s.sigs i = some g) :
    Step s (setSig s i (g.remove s.k1 s.k2 d p)) :=
  step_aset i g _ hg rfl (Nat.le_refl _) rfl rfl rfl (fun _ h => h.remove d p) (fun c hc => remove_ids g _ _ d p c hc)

theorem step_removeCell (s : LSt) (cid : Nat) : Step s (removeCell s cid) := by
  unfold removeCell
  split
  · exact Step.refl s
  · split
    · exact Step.refl s
    · rename_i i _ g hg
      exact step_setSig_remove s _ g false _ hg

theorem step_disconnect (s : LSt) (p : Option Nat) :
    Step s (match p with | some cid => removeCell s cid | none => s) := by
  cases p with
  | none => exact Step.refl s
  | some cid => exact step_removeCell s cid

theorem step_invalidate (s : LSt) (t : Nat) : Step s (invalidateTrackable s t) :=
  step_amap (fun g => g.remove s.k1 s.k2 true (fun c => c.slot.tracksObj t)) rfl (Nat.le_refl _) rfl rfl
    (fun _ => rfl) (fun _ _ h => h.remove true _) (fun g c hc => remove_ids g _ _ true _ c hc)

theorem step_updCell (s : LSt) (cid : Nat) (f : LCell → LCell) (hf : ∀ c, (f c).id = c.id)
    (hm : ∀ c, (f c).marker = c.marker ∧ (f c).zombie = c.zombie) : Step s (updCell s cid f) := by
  unfold updCell
  split
  · exact Step.refl s
  · split
    · exact Step.refl s
    · rename_i i _ g hg
      refine step_aset _ g _ hg rfl (Nat.le_refl _) rfl rfl rfl ?_ ?_
      · intro nx h
        refine WFSig.map h _ _ _ _ h.clean ?_ ?_
        · intro c; split <;> simp [hf]
        · intro _ c; split <;> simp [hm]
      · intro c hc
        simp only [List.mem_map] at hc
        obtain ⟨c0, hc0, rfl⟩ := hc
        refine ⟨c0, hc0, ?_⟩
        split <;> simp [hf]

theorem step_gcSig (s : LSt) (i : Nat) : Step s (gcSig s i) := by
  unfold gcSig
  split
  · exact Step.refl s
  · rename_i g hg
    split
    · rename_i hc
      simp only [Bool.and_eq_true, decide_eq_true_eq] at hc
      refine ⟨Nat.le_refl _, rfl, rfl, fun hwf => ⟨?_, ?_, ?_⟩⟩
      · intro j x hx
        by_cases hj : j = i
        · subst hj; simp at hx
        · simp only [aget_adel_other _ _ _ hj] at hx
          exact hwf j x hx
      · intro j
        exact actL_adel _ _ _ (by simp [actL, hg, hc.1])
      · intro n _ h
        obtain ⟨j, x, c, hx, hc', rfl⟩ := h
        by_cases hj : j = i
        · subst hj; simp at hx
        · simp only [aget_adel_other _ _ _ hj] at hx
          exact ⟨j, x, c, hx, hc', rfl⟩
    · exact Step.refl s

/-- a new, empty list under the key `s.next` -/
theorem step_newSig (s s' : LSt) (hs : s'.sigs = aset s.sigs s.next {}) (hn : s'.next = s.next + 1)
    (h1 : s'.k1 = s.k1) (h2 : s'.k2 = s.k2) : Step s s' := by
  refine ⟨by omega, h1, h2, fun hwf => ⟨?_, ?_, ?_⟩⟩
  · unfold WF; rw [hs, h1, h2, hn]
    intro j x hx
    by_cases hj : j = s.next
    · subst hj
      rw [aget_aset_same] at hx
      cases hx
      exact ⟨Nat.lt_succ_self _, WFSig.empty _ _ _⟩
    · rw [aget_aset_other _ _ _ _ hj] at hx
      exact ⟨Nat.lt_succ_of_lt (hwf j x hx).1, (hwf j x hx).2.mono (Nat.le_succ _)⟩
  · intro j; unfold actOf; rw [hs, actL_aset]
    by_cases hj : j = s.next
    · subst hj
      cases hx : aget s.sigs s.next with
      | none => simp [actL, hx]
      | some x => exact absurd (hwf _ x hx).1 (Nat.lt_irrefl _)
    · simp [hj]
  · intro n _ h
    rw [hs] at h
    obtain ⟨j, x, c, hx, hc, rfl⟩ := h
    by_cases hj : j = s.next
    · subst hj
      rw [aget_aset_same] at hx
      cases hx
      simp at hc
    · rw [aget_aset_other _ _ _ _ hj] at hx
      exact ⟨j, x, c, hx, hc, rfl⟩

theorem step_ensureSig (s s1 : LSt) (g im : Nat) (h : ensureSig s g = some (s1, im)) : Step s s1 := by
  unfold ensureSig at h
  split at h
  · simp at h
  · split at h
    · simp only [Option.some.injEq, Prod.mk.injEq] at h
      rw [← h.1]; exact Step.refl s
    · simp only [LSt.fresh, Option.some.injEq, Prod.mk.injEq] at h
      rw [← h.1]
      exact step_newSig s _ rfl rfl rfl rfl

/-- `insertCell`: one new entry with the id `s.next` -/
theorem step_insertCell (s : LSt) (i : Nat) (first : Bool) (sl : SlotB) : Step s (insertCell s i first sl).1 := by
  unfold insertCell
  simp only [LSt.fresh]
  split
  · refine step_frame ?_ ?_ ?_ ?_ <;> simp only [LSt.fail] <;> split <;> simp
  · rename_i g hg
    have hg' : aget s.sigs i = some g := hg
    refine ⟨Nat.le_succ _, rfl, rfl, fun hwf => ⟨?_, ?_, ?_⟩⟩
    · intro j x hx
      simp only [setSig] at hx
      by_cases hj : j = i
      · subst hj
        rw [aget_aset_same] at hx
        cases hx
        have hw := (hwf j g hg').2
        refine ⟨Nat.lt_succ_of_lt (hwf j g hg').1, ?_, ?_, ?_, hw.clean⟩
        · intro c hc
          split at hc
          · simp only [List.mem_cons] at hc
            rcases hc with rfl | hc
            · exact Nat.lt_succ_self _
            · exact Nat.lt_succ_of_lt (hw.lt c hc)
          · simp only [List.mem_append, List.mem_singleton] at hc
            rcases hc with hc | rfl
            · exact Nat.lt_succ_of_lt (hw.lt c hc)
            · exact Nat.lt_succ_self _
        · have hnot : s.next ∉ g.cells.map (·.id) := by
            intro hm
            simp only [List.mem_map] at hm
            obtain ⟨c, hc, he⟩ := hm
            have := hw.lt c hc
            omega
          split
          · simp only [List.map_cons, List.nodup_cons]
            exact ⟨hnot, hw.nodup⟩
          · simp only [List.map_append, List.map_cons, List.map_nil]
            rw [List.nodup_append]
            refine ⟨hw.nodup, by simp, ?_⟩
            intro a ha b hb
            simp only [List.mem_singleton] at hb
            subst hb
            intro e; subst e; exact hnot ha
        · intro hk c hc
          split at hc
          · simp only [List.mem_cons] at hc
            rcases hc with rfl | hc
            · exact ⟨rfl, rfl⟩
            · exact hw.pure hk c hc
          · simp only [List.mem_append, List.mem_singleton] at hc
            rcases hc with hc | rfl
            · exact hw.pure hk c hc
            · exact ⟨rfl, rfl⟩
      · rw [aget_aset_other _ _ _ _ hj] at hx
        exact ⟨Nat.lt_succ_of_lt (hwf j x hx).1, (hwf j x hx).2.mono (Nat.le_succ _)⟩
    · intro j
      simp only [actOf, setSig, actL_aset]
      by_cases hj : j = i
      · subst hj; simp [actL, hg']
      · simp [hj]
    · intro n hn h
      obtain ⟨j, x, c, hx, hc, rfl⟩ := h
      simp only [setSig] at hx
      by_cases hj : j = i
      · subst hj
        rw [aget_aset_same] at hx
        cases hx
        simp only at hc
        split at hc
        · simp only [List.mem_cons] at hc
          rcases hc with rfl | hc
          · simp at hn
          · exact ⟨j, g, c, hg', hc, rfl⟩
        · simp only [List.mem_append, List.mem_singleton] at hc
          rcases hc with hc | rfl
          · exact ⟨j, g, c, hg', hc, rfl⟩
          · simp at hn
      · rw [aget_aset_other _ _ _ _ hj] at hx
        exact ⟨j, x, c, hx, hc, rfl⟩

/-! ## `collect` -/

/-- the destruction of the signal object named `g` (what `delG` does when it does not refuse, and what `collect`
    does to a functor-owned signal object nobody holds any more) -/
theorem step_dropHandle (s : LSt) (g : Nat) : Step s (dropHandle s g) := by
  unfold dropHandle
  split
  · exact Step.refl s
  · rename_i h _
    have h1 : Step s (if h.fl.isTrackable then invalidateTrackable s h.trk else s) := by
      split
      · exact step_invalidate _ _
      · exact Step.refl s
    refine Step.trans h1 ?_
    generalize (if h.fl.isTrackable then invalidateTrackable s h.trk else s) = s1
    refine Step.trans (step_frame (s' := { s1 with G := adel s1.G g }) rfl (Nat.le_refl _) rfl rfl) ?_
    cases h.impl with
    | some im => exact step_gcSig _ _
    | none => exact Step.refl _

theorem step_collectStep (s s' : LSt) (h : collectStep s = some s') : Step s s' := by
  unfold collectStep at h
  split at h
  · simp only [Option.some.injEq] at h
    rw [← h]
    exact Step.trans (step_frame rfl (Nat.le_refl _) rfl rfl) (step_invalidate _ _)
  · split at h
    · rename_i k p _
      simp only [Option.some.injEq] at h
      rw [← h]
      exact Step.trans (step_frame rfl (Nat.le_refl _) rfl rfl)
        (step_disconnect { s with ownedK := s.ownedK.filter (fun q => q.1 ≠ k) } p)
    · split at h
      · rename_i k g _
        simp only [Option.some.injEq] at h
        rw [← h]
        exact Step.trans (step_frame rfl (Nat.le_refl _) rfl rfl)
          (step_dropHandle { s with ownedG := s.ownedG.filter (fun q => q.1 ≠ k) } g)
      · simp at h

theorem step_collectN (n : Nat) : ∀ s, Step s (collectN n s) := by
  induction n with
  | zero => intro s; exact Step.refl s
  | succ n ih =>
    intro s
    unfold collectN
    split
    · rename_i s' h
      exact Step.trans (step_collectStep s s' h) (ih s')
    · exact Step.refl s

theorem step_collect (s : LSt) : Step s (Spec.collect s) := step_collectN _ s

theorem step_log (s : LSt) (e : Event) : Step s (s.log e) := step_frame rfl (Nat.le_refl _) rfl rfl

theorem step_fail (s : LSt) (m : String) : Step s (s.fail m) := by
  refine step_frame ?_ ?_ ?_ ?_ <;> simp only [LSt.fail] <;> split <;> simp

end Sigc.SpecP
