import Sigc.Lemmas.InvBal2
/-!
# `Inc`: `incall` counts the running direct invocations of a slot variable

ghost index `c i` = number of `callS i` frames in progress; at top level `c = 0`, so no slot variable is
`busy` at a quiescent point.
-/
namespace Sigc.Inv
open Sigc.Model

def IncI (c : Nat → Nat) (S : List (Nat × SlotVar)) : Prop :=
  (∀ i v, aget S i = some v → v.incall = c i) ∧ (∀ i, aget S i = none → c i = 0)

def Inc (c : Nat → Nat) (s : St) : Prop := IncI c s.S

theorem Inc.init : Inc (fun _ => 0) {} := ⟨fun i v h => by simp [aget] at h, fun _ _ => rfl⟩

theorem IncI.aset {c : Nat → Nat} {S : List (Nat × SlotVar)} (h : IncI c S) {i : Nat} {v' : SlotVar}
    (hv : v'.incall = c i) : IncI c (Model.aset S i v') := by
  refine ⟨?_, ?_⟩
  · intro j v hj
    rw [aget_aset] at hj
    split at hj
    · rename_i e; subst e; cases hj; exact hv
    · exact h.1 j v hj
  · intro j hj
    rw [aget_aset] at hj
    split at hj
    · cases hj
    · exact h.2 j hj

theorem IncI.aset_of {c : Nat → Nat} {S : List (Nat × SlotVar)} (h : IncI c S) {i : Nat} {v v' : SlotVar}
    (hi : aget S i = some v) (hv : v'.incall = v.incall) : IncI c (Model.aset S i v') :=
  h.aset (hv.trans (h.1 i v hi))

theorem IncI.aset_aset_of {c : Nat → Nat} {S : List (Nat × SlotVar)} (h : IncI c S) {i j : Nat}
    {v v' d d' : SlotVar} (hi : aget S i = some v) (hj : aget S j = some d) (e1 : v'.incall = v.incall)
    (e2 : d'.incall = d.incall) : IncI c (Model.aset (Model.aset S i v') j d') :=
  (h.aset_of hi e1).aset (e2.trans (h.1 j d hj))

theorem IncI.aset_new {c : Nat → Nat} {S : List (Nat × SlotVar)} (h : IncI c S) {i : Nat} {v' : SlotVar}
    (hi : aget S i = none) (hv : v'.incall = 0) : IncI c (Model.aset S i v') :=
  h.aset (hv.trans (h.2 i hi).symm)

theorem IncI.adel {c : Nat → Nat} {S : List (Nat × SlotVar)} (h : IncI c S) {i : Nat} (hc : c i = 0) :
    IncI c (Model.adel S i) := by
  refine ⟨?_, ?_⟩
  · intro j v hj
    rw [aget_adel] at hj
    split at hj
    · cases hj
    · exact h.1 j v hj
  · intro j hj
    rw [aget_adel] at hj
    split at hj
    · rename_i e; rw [e]; exact hc
    · exact h.2 j hj

theorem IncI.amap {c : Nat → Nat} {S : List (Nat × SlotVar)} (h : IncI c S) (f : SlotVar → SlotVar)
    (hf : ∀ v, (f v).incall = v.incall) : IncI c (Model.amap S f) := by
  refine ⟨?_, ?_⟩
  · intro j v hj
    rw [aget_amap] at hj
    cases hg : aget S j with
    | none => rw [hg] at hj; cases hj
    | some v0 =>
      rw [hg] at hj
      simp only [Option.map_some, Option.some.injEq] at hj
      subst hj
      exact (hf v0).trans (h.1 j v0 hg)
  · intro j hj
    rw [aget_amap] at hj
    cases hg : aget S j with
    | none => exact h.2 j hg
    | some v0 => rw [hg] at hj; cases hj

theorem Inc.prims (c : Nat → Nat) : PrimsA (Inc c) where
  upd _ _ _ _ _ _ _ h _ _ := h
  filter s i im p d ids _ h _ _ := by
    show IncI c (nullConnsList _ _).S
    rw [nullConnsList_S]; exact h
  delImpl s i im _ h _ _ _ := by
    show IncI c (nullConnsList _ _).S
    rw [nullConnsList_S]; exact h
  invalS s t _ h := by
    exact IncI.amap (S := s.S) h
      (fun v => if v.slot.tracksObj t then { v with slot := v.slot.invalidate } else v)
      (fun v => by
        show (if v.slot.tracksObj t then { v with slot := v.slot.invalidate } else v).incall = v.incall
        split <;> rfl)

theorem Inc.fail {c : Nat → Nat} {s : St} (m : String) (h : Inc c s) : Inc c (s.fail m) := by
  unfold St.fail; split <;> exact h

theorem ensureImpl_S {s s1 : St} {g i : Nat} (he : ensureImpl s g = some (s1, i)) : s1.S = s.S :=
  (ensureImpl_frame he).2.1

theorem inci_invalidateTrackable {c : Nat → Nat} {s : St} {t : Nat} (h : IncI c s.S) :
    IncI c (invalidateTrackable s t).S := (Inc.prims c).invalidateTrackable t h
theorem inci_gcImpl {c : Nat → Nat} {s : St} {i : Nat} (h : IncI c s.S) : IncI c (gcImpl s i).S :=
  (Inc.prims c).gcImpl i h
theorem inci_disconnectCell {c : Nat → Nat} {s : St} {i : Nat} (h : IncI c s.S) : IncI c (disconnectCell s i).S :=
  (Inc.prims c).disconnectCell i h
theorem inci_clearImpl {c : Nat → Nat} {s : St} {i : Nat} (h : IncI c s.S) : IncI c (clearImpl s i).S :=
  (Inc.prims c).clearImpl i h
theorem inci_connBlock {c : Nat → Nat} {s : St} {p : Option Nat} {b : Bool} (h : IncI c s.S) :
    IncI c (connBlock s p b).S := (Inc.prims c).connBlock p b h
theorem inci_insertCell {c : Nat → Nat} {s : St} {i : Nat} {first : Bool} {sl : SlotB} (h : IncI c s.S) :
    IncI c (insertCell s i first sl).fst.S := by
  rw [(insertCell_frame s i first sl).2.2.2.2.1]; exact h

set_option maxHeartbeats 400000 in
theorem Inc_simple (c : Nat → Nat) (s : St) (op : Op) (s' : St) (r : String) (hI : Inc c s)
    (h : stepSimple s op = some (s', r)) : Inc c s' := by
  cases op <;> simp only [stepSimple] at h
  all_goals (repeat' split at h)
  all_goals (first | (cases h; done) | skip)
  all_goals (simp only [Option.some.injEq, Prod.mk.injEq] at h; obtain ⟨rfl, _⟩ := h)
  all_goals (first | exact hI | skip)
  all_goals (
    try (have e1 := (mkFun_frame ‹_›).2.2.1)
    try (have e2 := ensureImpl_S ‹_›)
    simp only [Inc] at *
    try simp (maxDischargeDepth := 8) only [St.fresh, setConn,
          inci_invalidateTrackable, inci_gcImpl, inci_disconnectCell, inci_clearImpl, inci_connBlock,
          inci_insertCell, *]
    first
      | done
      | exact IncI.aset_of hI (by assumption) (by rfl)
      | exact IncI.aset_new hI (by assumption) (by rfl)
      | exact IncI.aset_aset_of hI (by assumption) (by assumption) (by rfl) (by rfl)
      | exact inci_insertCell (IncI.aset_of hI (by assumption) (by rfl))
      | exact IncI.aset_new (IncI.aset_of hI (by assumption) (by rfl))
          (by rw [aget_aset_other _ _ _ _ (ne_of_aget ‹aget s.S _ = some _› ‹aget s.S _ = none›)]; assumption)
          (by rfl)
      | exact IncI.adel hI (by have := hI.1 _ _ ‹aget s.S _ = some _›; omega))

theorem Inc_forceDelG (c : Nat → Nat) (s : St) (g : Nat) (h : Inc c s) : Inc c (forceDelG s g) := by
  unfold forceDelG
  split
  · exact h
  · simp only []
    split <;> split <;>
      first
      | exact (Inc.prims c).gcImpl _ ((Inc.prims c).invalidateTrackable _ h)
      | exact (Inc.prims c).invalidateTrackable _ h
      | exact (Inc.prims c).gcImpl _ h
      | exact h

theorem Inc.coll {c : Nat → Nat} (s : St) (h : Inc c s) : Inc c (collect s) :=
  (Inc.prims c).collect (fun _ _ x => x) (fun _ _ x => x) (dropG_of (fun _ _ x => x) (Inc_forceDelG c)) h

theorem Inc.epi {c : Nat → Nat} (s : St) (i m : Nat) (h : Inc c s) : Inc c (emitEpi s i m) := by
  unfold emitEpi
  split
  · exact Inc.fail _ h
  · apply Inc.coll
    apply (Inc.prims c).gcImpl
    have hd : ∀ s : St, Inc c s → Inc c (dropHolder s i) := by
      intro s hs; unfold dropHolder; split <;> exact hs
    apply hd
    apply (Inc.prims c).unrefExec
    split
    · exact (Inc.prims c).eraseCell _ _ h
    · exact Inc.fail _ h

theorem Inc.callPro {c : Nat → Nat} {s : St} {i : Nat} {v : SlotVar} (h : Inc c s) (hv : aget s.S i = some v) :
    Inc (bump c i) (callPro s i v) := by
  refine ⟨?_, ?_⟩
  · intro j w hj
    simp only [Inv.callPro] at hj
    rw [aget_aset] at hj
    split at hj
    · rename_i e; subst e; cases hj
      simp [bump, h.1 j v hv]
    · rename_i e
      simp [bump, e, h.1 j w hj]
  · intro j hj
    simp only [Inv.callPro] at hj
    rw [aget_aset] at hj
    split at hj
    · cases hj
    · rename_i e
      simp [bump, e, h.2 j hj]

theorem Inc.callEpi {c : Nat → Nat} {s : St} {i : Nat} (h : Inc (bump c i) s) : Inc c (callEpi s i) := by
  unfold Inv.callEpi
  split
  · rename_i v2 hv2
    have h2 := h.1 i v2 hv2
    simp only [bump, if_true] at h2
    refine ⟨?_, ?_⟩
    · intro j w hj
      simp only at hj
      rw [aget_aset] at hj
      split at hj
      · rename_i e; subst e; cases hj
        simp only; omega
      · rename_i e
        have := h.1 j w hj
        simpa [bump, e] using this
    · intro j hj
      simp only at hj
      rw [aget_aset] at hj
      split at hj
      · cases hj
      · rename_i e
        have := h.2 j hj
        simpa [bump, e] using this
  · rename_i hn
    have := h.2 i hn
    simp [bump] at this

/-- `Inc` is a stable family: `callS i` moves from index `c` to `bump c i` and back -/
theorem Inc.stableK : StableKRel (fun _ => True) Inc where
  log _ _ _ _ h := h
  fail _ s m _ h := Inc.fail m h
  depth _ _ _ _ h := h
  steps _ _ _ _ h := h
  call k s i v _ h hv := ⟨bump k i, Inc.callPro h hv, fun _ _ h2 => Inc.callEpi h2⟩
  simple k s op s' r _ h hs := Inc_simple k s op s' r h hs
  collect _ s _ h := Inc.coll s h
  emit k s i im _ h _ := ⟨k, h, fun s2 _ h2 => Inc.epi s2 i _ h2⟩
  forceDel k s g _ h := Inc_forceDelG k s g h

theorem trueStable : Stable (fun _ : St => True) where
  log _ _ _ _ := trivial
  fail _ _ _ _ := trivial
  depth _ _ _ _ := trivial
  steps _ _ _ _ := trivial
  incall _ _ _ _ _ _ _ := trivial
  simple _ _ _ _ _ _ _ := trivial
  collect _ _ _ := trivial
  pro _ _ _ _ _ _ := trivial
  erase _ _ _ _ _ := trivial
  unref _ _ _ _ := trivial
  drop _ _ _ _ := trivial
  gc _ _ _ _ := trivial
  forceDel _ _ _ _ := trivial

theorem Inc.stable : StableK (fun c s => True ∧ Inc c s) := StableKRel.and trueStable Inc.stableK

/-- at top level no direct invocation is running: every slot variable has `incall = 0` -/
theorem Inc.reachable (f : Nat) (P : Prog) (s : St) (h : runTop f P {} P.top = some s) :
    Inc (fun _ => 0) s :=
  (runTop_preserved Inc.stable f (fun _ => 0) P _ _ _ ⟨trivial, Inc.init⟩ h).2

theorem Inc.execOp {c : Nat → Nat} {f : Nat} {P : Prog} {s : St} {op : Op} {r : St × Except Unit String}
    (h : Inc c s) (hr : Model.execOp f P s op = some r) : Inc c r.1 :=
  (execOp_preserved Inc.stable (k := c) ⟨trivial, h⟩ hr).2

end Sigc.Inv
