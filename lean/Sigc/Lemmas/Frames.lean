import Sigc.Model
import Sigc.Lemmas.Basic
/-! which components the cell/impl primitives of `Sigc.Model` leave untouched (frame lemmas) -/
namespace Sigc.Model

@[simp] theorem setImpl_S (s : St) (i : Nat) (im : Impl) : (setImpl s i im).S = s.S := rfl
@[simp] theorem setImpl_T (s : St) (i : Nat) (im : Impl) : (setImpl s i im).T = s.T := rfl
@[simp] theorem setImpl_G (s : St) (i : Nat) (im : Impl) : (setImpl s i im).G = s.G := rfl
@[simp] theorem setImpl_C (s : St) (i : Nat) (im : Impl) : (setImpl s i im).C = s.C := rfl
@[simp] theorem setImpl_K (s : St) (i : Nat) (im : Impl) : (setImpl s i im).K = s.K := rfl
@[simp] theorem setImpl_impls (s : St) (i : Nat) (im : Impl) : (setImpl s i im).impls = aset s.impls i im := rfl

@[simp] theorem nullConns_S (s : St) (c : Nat) : (nullConns s c).S = s.S := rfl
@[simp] theorem nullConns_T (s : St) (c : Nat) : (nullConns s c).T = s.T := rfl
@[simp] theorem nullConns_G (s : St) (c : Nat) : (nullConns s c).G = s.G := rfl
@[simp] theorem nullConns_impls (s : St) (c : Nat) : (nullConns s c).impls = s.impls := rfl

theorem nullConnsList_S (cs : List Nat) (s : St) : (nullConnsList s cs).S = s.S := by
  induction cs generalizing s with
  | nil => rfl
  | cons c t ih => simp [nullConnsList, List.foldl] at ih ⊢; rw [ih]; rfl

theorem nullConnsList_impls (cs : List Nat) (s : St) : (nullConnsList s cs).impls = s.impls := by
  induction cs generalizing s with
  | nil => rfl
  | cons c t ih => simp [nullConnsList, List.foldl] at ih ⊢; rw [ih]; rfl

theorem nullConnsList_G (cs : List Nat) (s : St) : (nullConnsList s cs).G = s.G := by
  induction cs generalizing s with
  | nil => rfl
  | cons c t ih => simp [nullConnsList, List.foldl] at ih ⊢; rw [ih]; rfl

@[simp] theorem updCell_S (s : St) (i c : Nat) (f : Cell → Cell) : (updCell s i c f).S = s.S := by
  unfold updCell; split <;> rfl

@[simp] theorem eraseCell_S (s : St) (i c : Nat) : (eraseCell s i c).S = s.S := by
  unfold eraseCell; split <;> rfl

@[simp] theorem notifyParent_S (s : St) (i c : Nat) : (notifyParent s i c).S = s.S := by
  unfold notifyParent
  split
  · rfl
  · split <;> simp

@[simp] theorem invalidateCell_S (s : St) (c : Nat) : (invalidateCell s c).S = s.S := by
  unfold invalidateCell
  split
  · rfl
  · split <;> simp

@[simp] theorem disconnectCell_S (s : St) (c : Nat) : (disconnectCell s c).S = s.S := by
  unfold disconnectCell
  split
  · rfl
  · split <;> simp

theorem foldl_invalidateCell_S (cs : List Nat) (s : St) : (cs.foldl invalidateCell s).S = s.S := by
  induction cs generalizing s with
  | nil => rfl
  | cons c t ih => simp [List.foldl, ih]

@[simp] theorem updCell_G (s : St) (i c : Nat) (f : Cell → Cell) : (updCell s i c f).G = s.G := by
  unfold updCell; split <;> rfl

@[simp] theorem eraseCell_G (s : St) (i c : Nat) : (eraseCell s i c).G = s.G := by
  unfold eraseCell; split <;> rfl

@[simp] theorem notifyParent_G (s : St) (i c : Nat) : (notifyParent s i c).G = s.G := by
  unfold notifyParent
  split
  · rfl
  · split <;> simp

@[simp] theorem invalidateCell_G (s : St) (c : Nat) : (invalidateCell s c).G = s.G := by
  unfold invalidateCell
  split
  · rfl
  · split <;> simp

@[simp] theorem disconnectCell_G (s : St) (c : Nat) : (disconnectCell s c).G = s.G := by
  unfold disconnectCell
  split
  · rfl
  · split <;> simp

theorem foldl_invalidateCell_G (cs : List Nat) (s : St) : (cs.foldl invalidateCell s).G = s.G := by
  induction cs generalizing s with
  | nil => rfl
  | cons c t ih => simp [List.foldl, ih]

@[simp] theorem invalidateTrackable_G (s : St) (t : Nat) : (invalidateTrackable s t).G = s.G := by
  unfold invalidateTrackable
  simp [foldl_invalidateCell_G]

@[simp] theorem gcImpl_S (s : St) (i : Nat) : (gcImpl s i).S = s.S := by
  unfold gcImpl
  split
  · rfl
  · split
    · simp [nullConnsList_S]
    · rfl

@[simp] theorem gcImpl_G (s : St) (i : Nat) : (gcImpl s i).G = s.G := by
  unfold gcImpl
  split
  · rfl
  · split
    · simp [nullConnsList_G]
    · rfl

end Sigc.Model
