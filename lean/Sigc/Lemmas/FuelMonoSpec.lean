import Sigc.Spec
import Sigc.Lemmas.FuelMono
/-!
# Fuel work package — fuel monotonicity of the specification `S`

Every function of the mutual block of `Sigc.Spec` (and `Spec.runTop`, `Spec.teardown`): a result obtained
with fuel `f` is obtained, unchanged, with every fuel `f' ≥ f`.
-/
namespace Sigc.Fuel.S
open Sigc.Model Sigc.Spec

/-- all functions of the mutual block: a result at fuel `f` is the result at fuel `g` -/
structure Mono (f g : Nat) : Prop where
  invoke : ∀ P s fn arg, Spec.invokeFun f P s fn arg ≠ none → Spec.invokeFun g P s fn arg = Spec.invokeFun f P s fn arg
  body : ∀ P s ls, Spec.runBody f P s ls ≠ none → Spec.runBody g P s ls = Spec.runBody f P s ls
  line : ∀ P s l, Spec.execLine f P s l ≠ none → Spec.execLine g P s l = Spec.execLine f P s l
  emit : ∀ P s fl impl arg st, emitSig f P s fl impl arg st ≠ none →
    emitSig g P s fl impl arg st = emitSig f P s fl impl arg st
  turns : ∀ P s i snap arg r, turns f P s i snap arg r ≠ none →
    turns g P s i snap arg r = turns f P s i snap arg r
  deref : ∀ P s i snap it arg, Spec.deref f P s i snap it arg ≠ none →
    Spec.deref g P s i snap it arg = Spec.deref f P s i snap it arg
  acc : ∀ P s i snap it arg mode k r, Spec.accLoop f P s i snap it arg mode k r ≠ none →
    Spec.accLoop g P s i snap it arg mode k r = Spec.accLoop f P s i snap it arg mode k r
  rev : ∀ P s i snap it arg r, Spec.revLoop f P s i snap it arg r ≠ none →
    Spec.revLoop g P s i snap it arg r = Spec.revLoop f P s i snap it arg r
  walk : ∀ P s i snap it arg cs r, Spec.walkLoop f P s i snap it arg cs r ≠ none →
    Spec.walkLoop g P s i snap it arg cs r = Spec.walkLoop f P s i snap it arg cs r
  strat : ∀ P s i snap arg st, Spec.runStrat f P s i snap arg st ≠ none →
    Spec.runStrat g P s i snap arg st = Spec.runStrat f P s i snap arg st
  op : ∀ P s o, Spec.execOp f P s o ≠ none → Spec.execOp g P s o = Spec.execOp f P s o

theorem invoke_step {f g} (ih : Mono f g) : ∀ P s fn arg, Spec.invokeFun (f+1) P s fn arg ≠ none →
    Spec.invokeFun (g+1) P s fn arg = Spec.invokeFun (f+1) P s fn arg := by
  intro P s fn arg h
  have hb := ih.body; have hi := ih.invoke; have he := ih.emit
  fuel_step Spec.invokeFun.eq_def h

theorem body_step {f g} (ih : Mono f g) : ∀ P s ls, Spec.runBody (f+1) P s ls ≠ none →
    Spec.runBody (g+1) P s ls = Spec.runBody (f+1) P s ls := by
  intro P s ls h
  have hb := ih.body; have hl := ih.line
  cases ls with
  | nil => rw [Spec.runBody, Spec.runBody]
  | cons l ls =>
    rw [Spec.runBody] at h
    conv => lhs; rw [Spec.runBody]
    conv => rhs; rw [Spec.runBody]
    fuel_go h

theorem line_step {f g} (ih : Mono f g) : ∀ P s l, Spec.execLine (f+1) P s l ≠ none →
    Spec.execLine (g+1) P s l = Spec.execLine (f+1) P s l := by
  intro P s l h
  have ho := ih.op
  fuel_step Spec.execLine.eq_def h

theorem emit_step {f g} (ih : Mono f g) : ∀ P s fl impl arg st, emitSig (f+1) P s fl impl arg st ≠ none →
    emitSig (g+1) P s fl impl arg st = emitSig (f+1) P s fl impl arg st := by
  intro P s fl impl arg st h
  have hs := ih.strat; have hl := ih.turns
  cases hacc : fl.isAcc <;>
  · rw [emitSig.eq_def] at h
    conv => lhs; rw [emitSig.eq_def]
    conv => rhs; rw [emitSig.eq_def]
    simp only [hacc, Bool.false_eq_true, ↓reduceIte] at h ⊢
    fuel_go h

theorem turns_step {f g} (ih : Mono f g) : ∀ P s i snap arg r, turns (f+1) P s i snap arg r ≠ none →
    turns (g+1) P s i snap arg r = turns (f+1) P s i snap arg r := by
  intro P s i snap arg r h
  have hi := ih.invoke; have hl := ih.turns
  cases snap with
  | nil => rw [turns, turns]
  | cons cid rest =>
    rw [turns] at h
    conv => lhs; rw [turns]
    conv => rhs; rw [turns]
    try simp only [] at h ⊢
    generalize (aget s.sigs i).bind (fun g => g.cells.find? (·.id = cid)) = cell at h ⊢
    rcases cell with _ | ⟨id, ⟨_ | _, _ | ⟨_ | _, _ | fn⟩⟩, mk, zb⟩ <;> simp only [] at h ⊢ <;> fuel_go h

theorem deref_step {f g} (ih : Mono f g) : ∀ P s i snap it arg, Spec.deref (f+1) P s i snap it arg ≠ none →
    Spec.deref (g+1) P s i snap it arg = Spec.deref (f+1) P s i snap it arg := by
  intro P s i snap it arg h
  have hi := ih.invoke
  rw [Spec.deref.eq_def] at h
  conv => lhs; rw [Spec.deref.eq_def]
  conv => rhs; rw [Spec.deref.eq_def]
  simp only [] at h ⊢
  split at h
  · fuel_go h
  · rename_i cid _
    generalize (aget s.sigs i).bind (fun g => g.cells.find? (·.id = cid)) = cell at h ⊢
    rcases cell with _ | ⟨id, ⟨_ | _, _ | ⟨_ | _, _ | fn⟩⟩, mk, zb⟩ <;> simp only [] at h ⊢ <;> fuel_go h

theorem acc_step {f g} (ih : Mono f g) : ∀ P s i snap it arg mode k r, Spec.accLoop (f+1) P s i snap it arg mode k r ≠ none →
    Spec.accLoop (g+1) P s i snap it arg mode k r = Spec.accLoop (f+1) P s i snap it arg mode k r := by
  intro P s i snap it arg mode k r h
  have hd := ih.deref; have ha := ih.acc
  fuel_step Spec.accLoop.eq_def h

theorem rev_step {f g} (ih : Mono f g) : ∀ P s i snap it arg r, Spec.revLoop (f+1) P s i snap it arg r ≠ none →
    Spec.revLoop (g+1) P s i snap it arg r = Spec.revLoop (f+1) P s i snap it arg r := by
  intro P s i snap it arg r h
  have hd := ih.deref; have hr := ih.rev
  fuel_step Spec.revLoop.eq_def h

theorem walk_step {f g} (ih : Mono f g) : ∀ P s i snap it arg cs r, Spec.walkLoop (f+1) P s i snap it arg cs r ≠ none →
    Spec.walkLoop (g+1) P s i snap it arg cs r = Spec.walkLoop (f+1) P s i snap it arg cs r := by
  intro P s i snap it arg cs r h
  have hd := ih.deref; have hw := ih.walk
  cases cs with
  | nil => rw [Spec.walkLoop, Spec.walkLoop]
  | cons c cs =>
    rw [Spec.walkLoop] at h
    conv => lhs; rw [Spec.walkLoop]
    conv => rhs; rw [Spec.walkLoop]
    try simp only [] at h ⊢
    fuel_go h

theorem strat_step {f g} (ih : Mono f g) : ∀ P s i snap arg st, Spec.runStrat (f+1) P s i snap arg st ≠ none →
    Spec.runStrat (g+1) P s i snap arg st = Spec.runStrat (f+1) P s i snap arg st := by
  intro P s i snap arg st h
  have ha := ih.acc; have hr := ih.rev; have hw := ih.walk
  fuel_step Spec.runStrat.eq_def h

theorem op_step {f g} (ih : Mono f g) : ∀ P s o, Spec.execOp (f+1) P s o ≠ none →
    Spec.execOp (g+1) P s o = Spec.execOp (f+1) P s o := by
  intro P s o h
  have hi := ih.invoke; have he := ih.emit
  fuel_step Spec.execOp.eq_def h

theorem mono_zero (g : Nat) : Mono 0 g := by
  constructor
  · intro P s fn arg h; exact absurd (by rw [Spec.invokeFun.eq_def]) h
  · intro P s ls h; exact absurd (by rw [Spec.runBody.eq_def]) h
  · intro P s l h; exact absurd (by rw [Spec.execLine.eq_def]) h
  · intro P s fl impl arg st h; exact absurd (by rw [emitSig.eq_def]) h
  · intro P s i snap arg r h; exact absurd (by rw [turns.eq_def]) h
  · intro P s i snap it arg h; exact absurd (by rw [Spec.deref.eq_def]) h
  · intro P s i snap it arg mode k r h; exact absurd (by rw [Spec.accLoop.eq_def]) h
  · intro P s i snap it arg r h; exact absurd (by rw [Spec.revLoop.eq_def]) h
  · intro P s i snap it arg cs r h; exact absurd (by rw [Spec.walkLoop.eq_def]) h
  · intro P s i snap arg st h; exact absurd (by rw [Spec.runStrat.eq_def]) h
  · intro P s o h; exact absurd (by rw [Spec.execOp.eq_def]) h

theorem mono_succ {f g : Nat} (ih : Mono f g) : Mono (f+1) (g+1) :=
  ⟨invoke_step ih, body_step ih, line_step ih, emit_step ih, turns_step ih, deref_step ih, acc_step ih,
   rev_step ih, walk_step ih, strat_step ih, op_step ih⟩

/-- fuel monotonicity of the whole mutual block of the specification -/
theorem mono : ∀ {f g : Nat}, f ≤ g → Mono f g
  | 0, g, _ => mono_zero g
  | f+1, 0, h => absurd h (by omega)
  | f+1, g+1, h => mono_succ (mono (Nat.le_of_succ_le_succ h))

/-! ## the user-facing statements -/

theorem invokeFun_mono {f g P s fn arg r} (hle : f ≤ g) (h : Spec.invokeFun f P s fn arg = some r) :
    Spec.invokeFun g P s fn arg = some r := of_ne_none ((mono hle).invoke P s fn arg) h
theorem runBody_mono {f g P s ls r} (hle : f ≤ g) (h : Spec.runBody f P s ls = some r) :
    Spec.runBody g P s ls = some r := of_ne_none ((mono hle).body P s ls) h
theorem execLine_mono {f g P s l r} (hle : f ≤ g) (h : Spec.execLine f P s l = some r) :
    Spec.execLine g P s l = some r := of_ne_none ((mono hle).line P s l) h
theorem emitSig_mono {f g P s fl impl arg st r} (hle : f ≤ g) (h : emitSig f P s fl impl arg st = some r) :
    emitSig g P s fl impl arg st = some r := of_ne_none ((mono hle).emit P s fl impl arg st) h
theorem turns_mono {f g P s i snap arg r0 r} (hle : f ≤ g) (h : turns f P s i snap arg r0 = some r) :
    turns g P s i snap arg r0 = some r := of_ne_none ((mono hle).turns P s i snap arg r0) h
theorem deref_mono {f g P s i snap it arg r} (hle : f ≤ g) (h : Spec.deref f P s i snap it arg = some r) :
    Spec.deref g P s i snap it arg = some r := of_ne_none ((mono hle).deref P s i snap it arg) h
theorem accLoop_mono {f g P s i snap it arg mode k r0 r} (hle : f ≤ g)
    (h : Spec.accLoop f P s i snap it arg mode k r0 = some r) : Spec.accLoop g P s i snap it arg mode k r0 = some r :=
  of_ne_none ((mono hle).acc P s i snap it arg mode k r0) h
theorem revLoop_mono {f g P s i snap it arg r0 r} (hle : f ≤ g) (h : Spec.revLoop f P s i snap it arg r0 = some r) :
    Spec.revLoop g P s i snap it arg r0 = some r := of_ne_none ((mono hle).rev P s i snap it arg r0) h
theorem walkLoop_mono {f g P s i snap it arg cs r0 r} (hle : f ≤ g)
    (h : Spec.walkLoop f P s i snap it arg cs r0 = some r) : Spec.walkLoop g P s i snap it arg cs r0 = some r :=
  of_ne_none ((mono hle).walk P s i snap it arg cs r0) h
theorem runStrat_mono {f g P s i snap arg st r} (hle : f ≤ g) (h : Spec.runStrat f P s i snap arg st = some r) :
    Spec.runStrat g P s i snap arg st = some r := of_ne_none ((mono hle).strat P s i snap arg st) h
theorem execOp_mono {f g P s o r} (hle : f ≤ g) (h : Spec.execOp f P s o = some r) :
    Spec.execOp g P s o = some r := of_ne_none ((mono hle).op P s o) h

/-! ## `Spec.runTop`, `Spec.teardown` -/

theorem runTop_mono {f g : Nat} (hle : f ≤ g) (P : Prog) : ∀ (ls : List Line) (s r : LSt),
    Spec.runTop f P s ls = some r → Spec.runTop g P s ls = some r := by
  intro ls
  induction ls with
  | nil => intro s r h; simpa [Spec.runTop] using h
  | cons l ls ih =>
    intro s r h
    simp only [Spec.runTop] at h ⊢
    split at h
    · cases h
    · rename_i s1 o1 h1
      rw [execLine_mono hle h1]
      exact ih s1 r h

/-- the quiet sequence of operations used by `Spec.teardown` -/
def seqOps (f : Nat) (P : Prog) (s : Option LSt) (ops : List Op) : Option LSt :=
  ops.foldl (fun acc op => acc.bind (fun s => match Spec.execOp f P s op with
    | none => none
    | some (s, _) => some s)) s

theorem seqOps_none (f : Nat) (P : Prog) (ops : List Op) : seqOps f P none ops = none := by
  induction ops with
  | nil => rfl
  | cons o ops ih => simpa [seqOps, List.foldl] using ih

theorem seqOps_cons (f : Nat) (P : Prog) (s : LSt) (o : Op) (ops : List Op) :
    seqOps f P (some s) (o :: ops) =
      seqOps f P (match Spec.execOp f P s o with
        | none => none
        | some (s, _) => some s) ops := rfl

theorem seqOps_mono {f g : Nat} (hle : f ≤ g) (P : Prog) : ∀ (ops : List Op) (s : Option LSt) (r : LSt),
    seqOps f P s ops = some r → seqOps g P s ops = some r := by
  intro ops
  induction ops with
  | nil => intro s r h; exact h
  | cons o ops ih =>
    intro s r h
    cases s with
    | none => rw [seqOps_none] at h; cases h
    | some s =>
      rw [seqOps_cons] at h ⊢
      cases ho : Spec.execOp f P s o with
      | none => rw [ho, seqOps_none] at h; cases h
      | some p =>
        rw [execOp_mono hle ho]
        rw [ho] at h
        exact ih _ r h

theorem teardown_eq (f : Nat) (P : Prog) (s : LSt) : Spec.teardown f P s =
    match seqOps f P (some s) ((sortedKeys s.K).map Op.delK) with
    | none => none
    | some s =>
      match seqOps f P (some s) ((sortedKeys s.C).map Op.delC ++ (sortedKeys s.S).map Op.delS
                          ++ (sortedKeys s.G).map Op.clear) with
      | none => none
      | some s =>
        let s := (sortedKeys s.G).foldl (fun s g =>
          match aget s.G g with
          | none => s
          | some h =>
            let s := if h.fl.isTrackable then Spec.invalidateTrackable s h.trk else s
            let s := { s with G := adel s.G g }
            match h.impl with
            | some im => gcSig s im
            | none => s) s
        seqOps f P (some s) ((sortedKeys s.T).map Op.delT) := rfl

theorem teardown_mono {f g : Nat} (hle : f ≤ g) (P : Prog) (s r : LSt)
    (h : Spec.teardown f P s = some r) : Spec.teardown g P s = some r := by
  rw [teardown_eq] at h ⊢
  split at h
  · cases h
  · rename_i s1 h1
    rw [seqOps_mono hle P _ _ _ h1]
    simp only [] at h ⊢
    split at h
    · cases h
    · rename_i s2 h2
      rw [seqOps_mono hle P _ _ _ h2]
      exact seqOps_mono hle P _ _ _ h

/-! ## the driver with the fuel as a parameter -/

/-- `Spec.runProgram` with the fuel as a parameter (`Spec.runProgram k1 k2 = runProgramWith defaultFuel k1 k2`) -/
def runProgramWith (fuel : Nat) (k1 k2 : Bool) (lines : List String) : List String :=
  let P := parseProg lines
  match Spec.runTop fuel P { k1 := k1, k2 := k2 } P.top with
  | none => ["SPEC-FUEL"]
  | some s =>
    match Spec.teardown fuel P s with
    | none => ["SPEC-FUEL"]
    | some s =>
      let body := (s.trace.reverse.map renderEvent) ++ [s!"0 final live={Spec.liveTotal s}"]
      match s.err with
      | none => body
      | some e => body ++ [s!"SPEC-ERROR {e}"]

theorem runProgram_eq_with (k1 k2 : Bool) (lines : List String) :
    Spec.runProgram k1 k2 lines = runProgramWith defaultFuel k1 k2 lines := rfl

theorem runProgramWith_some {fuel : Nat} {k1 k2 : Bool} {lines : List String}
    (h : runProgramWith fuel k1 k2 lines ≠ ["SPEC-FUEL"]) :
    ∃ s t, Spec.runTop fuel (parseProg lines) { k1 := k1, k2 := k2 } (parseProg lines).top = some s ∧
      Spec.teardown fuel (parseProg lines) s = some t := by
  unfold runProgramWith at h
  simp only [] at h
  cases h1 : Spec.runTop fuel (parseProg lines) { k1 := k1, k2 := k2 } (parseProg lines).top with
  | none => rw [h1] at h; exact absurd rfl h
  | some s =>
    rw [h1] at h
    simp only [] at h
    cases h2 : Spec.teardown fuel (parseProg lines) s with
    | none => rw [h2] at h; exact absurd rfl h
    | some t => exact ⟨s, t, rfl, h2⟩

theorem runProgramWith_mono {f g : Nat} (hle : f ≤ g) {k1 k2 : Bool} {lines : List String}
    (h : runProgramWith f k1 k2 lines ≠ ["SPEC-FUEL"]) :
    runProgramWith g k1 k2 lines = runProgramWith f k1 k2 lines := by
  obtain ⟨s, t, h1, h2⟩ := runProgramWith_some h
  unfold runProgramWith
  simp only []
  rw [h1, runTop_mono hle _ _ _ _ h1]
  simp only []
  rw [h2, teardown_mono hle _ _ _ h2]

end Sigc.Fuel.S
