import Sigc.Lemmas.InvTracks
/-! `TL` is preserved by every operation (relative to `WF`) -/
namespace Sigc.Inv
open Sigc.Model

theorem TLI.monoL {T T' : List (Nat × Nat)} {G G' : List (Nat × Handle)} {oT oT' : List Nat}
    {S : List (Nat × SlotVar)} {impls : List (Nat × Impl)} (h : TLI T G oT S impls)
    (hm : ∀ o, LiveObj T G oT o → LiveObj T' G' oT' o) : TLI T' G' oT' S impls := TrackedIn.mono h hm

theorem TL.fail {s : St} (m : String) (h : TL s) : TL (s.fail m) := by
  unfold St.fail; split <;> exact h

theorem nest_tracks_le (sl : SlotB) (o : Nat)
    (h : o ∈ (Fun.nest sl.copy.blocked (match sl.copy.rep with | some r => r.fn | none => none)).tracks) :
    sl.tracksObj o = true := by
  apply tracksObj_copy_le
  unfold SlotB.tracksObj
  cases hr : sl.copy.rep with
  | none => simp [hr, Fun.tracks] at h
  | some r =>
    obtain ⟨c, f⟩ := r
    cases f with
    | none => simp [hr, Fun.tracks] at h
    | some f =>
      simp only [hr, Fun.tracks] at h
      simpa using h

theorem TL.mkFun {s s' : St} {v : Bool} {spec : FSpec} {fn : Fun} (h : TL s)
    (hm : mkFun s v spec = .ok (fn, s')) : TL s' ∧ ∀ o ∈ fn.tracks, LiveObj s'.T s'.G s'.ownedT o := by
  have fin : ∀ {x : Fun × St}, (Except.ok x : Except String (Fun × St)) = .ok (fn, s') → x.1 = fn ∧ x.2 = s' := by
    intro x e; cases e; exact ⟨rfl, rfl⟩
  cases spec with
  | fn fid =>
    simp only [Model.mkFun] at hm
    obtain ⟨rfl, rfl⟩ := fin hm
    exact ⟨h, fun o ho => by cases ho⟩
  | mem fid t =>
    simp only [Model.mkFun] at hm
    split at hm
    · cases hm
    · rename_i o ht
      obtain ⟨rfl, rfl⟩ := fin hm
      refine ⟨h, fun o' ho => ?_⟩
      simp only [Fun.tracks, List.mem_singleton] at ho
      subst ho; exact Or.inl ⟨t, ht⟩
  | bref fid t =>
    simp only [Model.mkFun] at hm
    split at hm
    · cases hm
    · rename_i o ht
      obtain ⟨rfl, rfl⟩ := fin hm
      refine ⟨h, fun o' ho => ?_⟩
      simp only [Fun.tracks, List.mem_singleton] at ho
      subst ho; exact Or.inl ⟨t, ht⟩
  | trk fid t1 t2 =>
    simp only [Model.mkFun] at hm
    split at hm
    · cases hm
    · rename_i o1 ht1
      split at hm
      · obtain ⟨rfl, rfl⟩ := fin hm
        refine ⟨h, fun o' ho => ?_⟩
        simp only [Fun.tracks, List.mem_singleton] at ho
        subst ho; exact Or.inl ⟨t1, ht1⟩
      · rename_i t2'
        split at hm
        · cases hm
        · rename_i o2 ht2
          obtain ⟨rfl, rfl⟩ := fin hm
          refine ⟨h, fun o' ho => ?_⟩
          simp only [Fun.tracks, List.mem_cons, List.not_mem_nil, or_false] at ho
          rcases ho with rfl | rfl
          · exact Or.inl ⟨t1, ht1⟩
          · exact Or.inl ⟨t2', ht2⟩
  | nest sv =>
    simp only [Model.mkFun] at hm
    split at hm
    · cases hm
    · rename_i vv hv
      split at hm
      · cases hm
      · obtain ⟨rfl, rfl⟩ := fin hm
        refine ⟨h, fun o ho => ?_⟩
        exact TrackedIn.getS h hv o (nest_tracks_le _ o ho)
  | fwd g =>
    simp only [Model.mkFun] at hm
    split at hm
    · cases hm
    · rename_i hd hg
      split at hm
      · cases hm
      split at hm
      · cases hm
      · obtain ⟨rfl, rfl⟩ := fin hm
        have hmono : ∀ o, LiveObj s.T s.G s.ownedT o →
            LiveObj s.T (aset s.G g { hd with everFwd := true }) s.ownedT o :=
          fun o ho => liveObj_aset_G (fun h0 e => by rw [hg] at e; cases e; exact ⟨rfl, rfl⟩) ho
        refine ⟨TLI.monoL h hmono, fun o ho => ?_⟩
        simp only [Fun.tracks] at ho
        split at ho
        · rename_i htr
          simp only [List.mem_singleton] at ho
          subst ho
          exact Or.inr (Or.inl ⟨g, _, aget_aset_same _ _ _, htr, rfl⟩)
        · cases ho
  | ownT fid t =>
    simp only [Model.mkFun] at hm
    split at hm
    · cases hm
    · rename_i o ht
      obtain ⟨rfl, rfl⟩ := fin hm
      refine ⟨TLI.monoL h ?_, fun o ho => by cases ho⟩
      intro o' ho'
      by_cases e : o' = o
      · subst e; exact Or.inr (Or.inr List.mem_cons_self)
      · rcases liveObj_adel_T ht ho' e with a | a | a
        · exact Or.inl a
        · exact Or.inr (Or.inl a)
        · exact Or.inr (Or.inr (List.mem_cons_of_mem _ a))
  | ownK fid k =>
    simp only [Model.mkFun] at hm
    split at hm
    · cases hm
    · obtain ⟨rfl, rfl⟩ := fin hm
      exact ⟨h, fun o ho => by cases ho⟩
  | ownG fid g =>
    simp only [Model.mkFun] at hm
    split at hm
    · cases hm
    · split at hm
      · cases hm
      split at hm
      · cases hm
      · obtain ⟨rfl, rfl⟩ := fin hm
        exact ⟨h, fun o ho => by cases ho⟩
  | bad => simp only [Model.mkFun] at hm; cases hm

theorem TL.ensureImpl {s s1 : St} {g i : Nat} (h : TL s) (he : ensureImpl s g = some (s1, i)) : TL s1 := by
  unfold Model.ensureImpl at he
  split at he
  · cases he
  · rename_i hd hg
    split at he
    · cases he; exact h
    · simp only [St.fresh, Option.some.injEq, Prod.mk.injEq] at he
      obtain ⟨rfl, rfl⟩ := he
      refine TrackedIn.asetI (TLI.monoL h ?_) _ (fun c hc => by cases hc)
      intro o ho
      exact liveObj_aset_G (fun h0 e => by rw [hg] at e; cases e; exact ⟨rfl, rfl⟩) ho

theorem TL.insertCell {s : St} (i : Nat) (first : Bool) {sl : SlotB}
    (hs : SlotTracks (LiveObj s.T s.G s.ownedT) sl) (h : TL s) : TL (insertCell s i first sl).fst := by
  unfold Model.insertCell
  simp only [St.fresh]
  split
  · exact TL.fail _ h
  · rename_i im hi
    refine TrackedIn.asetI h i ?_
    have hnew : SlotTracks (LiveObj s.T s.G s.ownedT)
        (match sl.rep with
          | none => { sl with rep := some { call := false, fn := none } }
          | some _ => sl) := by
      split
      · exact fun o ho => by rw [tracksObj_nofn rfl] at ho; cases ho
      · exact hs
    intro c hc
    cases first
    · simp only [Bool.false_eq_true, if_false, List.mem_append, List.mem_cons, List.not_mem_nil, or_false] at hc
      rcases hc with hc | hc
      · exact TrackedIn.getI h hi c hc
      · subst hc; exact hnew
    · simp only [if_true, List.mem_cons] at hc
      rcases hc with hc | hc
      · subst hc; exact hnew
      · exact TrackedIn.getI h hi c hc

theorem TL.emitPro {s : St} {i : Nat} {im : Impl} (h : TL s) (hi : aget s.impls i = some im) :
    TL (emitPro s i im) := by
  refine TrackedIn.asetI h i ?_
  intro c hc
  simp only [List.mem_append, List.mem_cons, List.not_mem_nil, or_false] at hc
  rcases hc with hc | hc
  · exact TrackedIn.getI h hi c hc
  · subst hc; exact SlotTracks.norep rfl

theorem TL.dropHolder {s : St} (i : Nat) (h : TL s) : TL (dropHolder s i) := by
  unfold Inv.dropHolder
  split
  · exact h
  · rename_i im hi
    exact TrackedIn.asetI h i (fun c hc => TrackedIn.getI h hi c hc)

end Sigc.Inv
