import Sigc.Lemmas.RefineStepC
import Sigc.Lemmas.RefineStepD
/-!
# Refine work package — stage 1: every operation that runs no user code is simulated
-/
namespace Sigc.Refine
open Sigc.Model

theorem stepSim_none {op : Op} (hm : ∀ s, Model.stepSimple s op = none) (hsp : ∀ t, Spec.stepSimple t op = none) :
    StepSim op := by
  intro s t _ _ _
  refine ⟨?_, fun _ => hsp t⟩
  intro s' r h
  rw [hm s] at h; contradiction

/-- `stepSimple` of the model is simulated by `stepSimple` of the specification, for every operation -/
theorem stepSim_all (op : Op) : StepSim op := by
  cases op with
  | newT t => exact step_newT t
  | delT t => exact step_delT t
  | notifyT t => exact step_notifyT t
  | cpT j i => exact step_cpT j i
  | mvT j i => exact step_mvT j i
  | asgT j i => exact step_asgT j i
  | masgT j i => exact step_masgT j i
  | mkS i ty f => exact step_mkS i ty f
  | mkS0 i ty => exact step_mkS0 i ty
  | cpS j i => exact step_cpS j i
  | mvS j i => exact step_mvS j i
  | asgS j i => exact step_asgS j i
  | masgS j i => exact step_masgS j i
  | setS i f => exact step_setS i f
  | delS i => exact step_delS i
  | discS i => exact step_discS i
  | blockS i b => exact step_blockS i b
  | blockedSq i => exact step_blockedSq i
  | emptySq i => exact step_emptySq i
  | boolSq i => exact step_boolSq i
  | callS i arg => exact stepSim_none (fun _ => rfl) (fun _ => rfl)
  | newG i fl => exact step_newG i fl
  | cpG j i => exact step_cpG j i
  | mvG j i => exact step_mvG j i
  | asgG j i => exact step_asgG j i
  | masgG j i => exact step_masgG j i
  | delG i => exact step_delG i
  | conn k g s first mv => exact step_conn k g s first mv
  | connfn k g f first => exact step_connfn k g f first
  | emit g arg strat try_ => exact stepSim_none (fun _ => rfl) (fun _ => rfl)
  | throw_ => exact stepSim_none (fun _ => rfl) (fun _ => rfl)
  | clear g => exact step_clear g
  | sizeq g => exact step_sizeq g
  | emptyGq g => exact step_emptyGq g
  | blockedGq g => exact step_blockedGq g
  | blockG g b => exact step_blockG g b
  | newC i => exact step_newC i
  | cpC j i => exact step_cpC j i
  | asgC j i => exact step_asgC j i
  | delC i => exact step_delC i
  | disc i => exact step_disc i
  | connectedq i => exact step_connectedq i
  | emptyCq i => exact step_emptyCq i
  | blockedCq i => exact step_blockedCq i
  | blockC i b => exact step_blockC i b
  | newK0 i => exact step_newK0 i
  | newK i c => exact step_newK i c
  | asgKC i c => exact step_asgKC i c
  | mvK j i => exact step_mvK j i
  | masgK j i => exact step_masgK j i
  | swapK i j => exact step_swapK i j
  | relK c k => exact step_relK c k
  | discK i => exact step_discK i
  | delK i => exact step_delK i
  | connectedKq i => exact step_connectedKq i
  | blockedKq i => exact step_blockedKq i
  | blockK i b => exact step_blockK i b
  | liveq fid => exact step_liveq fid
  | mark => exact step_mark
  | allocsq => exact step_allocsq
  | bad => exact step_bad

end Sigc.Refine
