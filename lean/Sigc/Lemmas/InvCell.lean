import Sigc.Lemmas.InvDisc
/-!
`disconnectCell` and `invalidateCell` are the same cascade with a different slot update; what the
cascade does to the cell lists, generically
-/
namespace Sigc.Inv
open Sigc.Model

/-- `slot_rep::disconnect()` / `notify_slot_rep_invalidated` on cell `cid` with slot update `F` -/
def genCell (F : SlotB → SlotB) (s : St) (cid : Nat) : St :=
  match getCell s cid with
  | none => s
  | some (i, c) =>
    let s := updCell s i cid (fun c => { c with slot := F c.slot, linked := false })
    if c.linked then notifyParent s i cid else s

theorem disconnectCell_eq : disconnectCell = genCell SlotB.disconnectRep := rfl
theorem invalidateCell_eq : invalidateCell = genCell SlotB.invalidate := rfl

def genC (F : SlotB → SlotB) (c : Cell) : Cell := { c with slot := F c.slot, linked := false }

def mapG (F : SlotB → SlotB) (cid : Nat) (cs : List Cell) : List Cell :=
  cs.map (fun c => if c.id = cid then genC F c else c)

theorem updCell_genC {F : SlotB → SlotB} {s : St} {i cid : Nat} {im : Impl} (hi : aget s.impls i = some im) :
    updCell s i cid (fun c => { c with slot := F c.slot, linked := false }) =
      setImpl s i { im with cells := mapG F cid im.cells } := by
  simp only [updCell, hi, mapG, genC]

theorem mapG_filter (F : SlotB → SlotB) (cid : Nat) (cs : List Cell) :
    (mapG F cid cs).filter (fun c => decide (c.id ≠ cid)) = cs.filter (fun c => decide (c.id ≠ cid)) := by
  induction cs with
  | nil => rfl
  | cons c t ih =>
    show List.filter _ ((if c.id = cid then genC F c else c) :: mapG F cid t) = _
    by_cases h : c.id = cid
    · have h' : (genC F c).id = cid := h
      rw [if_pos h, List.filter_cons_of_neg (by simp [h']), List.filter_cons_of_neg (by simp [h])]
      exact ih
    · rw [if_neg h, List.filter_cons_of_pos (by simp [h]), List.filter_cons_of_pos (by simp [h]), ih]

/-- the cascade on cell `cid` leaves every other cell of every impl exactly as it was -/
theorem genCell_others (F : SlotB → SlotB) (s : St) (cid : Nat) (j : Nat) :
    (aget (genCell F s cid).impls j).map (fun im => im.cells.filter (fun c => decide (c.id ≠ cid))) =
    (aget s.impls j).map (fun im => im.cells.filter (fun c => decide (c.id ≠ cid))) := by
  cases hg : getCell s cid with
  | none => simp [genCell, hg]
  | some x =>
    obtain ⟨i, c⟩ := x
    obtain ⟨im, hi, _, hc, he⟩ := getCell_some hg
    simp only [genCell, hg, updCell_genC hi]
    have key : ∀ (cs : List Cell) (e : Nat) (d : Bool) (h : Nat),
        cs.filter (fun c => decide (c.id ≠ cid)) = im.cells.filter (fun c => decide (c.id ≠ cid)) →
        (aget (aset s.impls i { cells := cs, exec := e, deferred := d, holders := h }) j).map
          (fun im => im.cells.filter (fun c => decide (c.id ≠ cid))) =
        (aget s.impls j).map (fun im => im.cells.filter (fun c => decide (c.id ≠ cid))) := by
      intro cs e d h hcs
      rw [aget_aset]
      split
      · rename_i hji; subst hji; rw [hi]
        exact congrArg some hcs
      · rfl
    split
    · simp only [notifyParent, setImpl_impls, aget_aset_same]
      split
      · simp only [eraseCell, setImpl_impls, aget_aset_same, nullConns_impls, aset_aset]
        apply key
        rw [filter_idem, mapG_filter]
      · simp only [setImpl_impls, aset_aset]
        exact key _ _ _ _ (mapG_filter F cid im.cells)
    · exact key _ _ _ _ (mapG_filter F cid im.cells)

/-- a cell other than `cid` present after the cascade was present, identical, before -/
theorem genCell_other_mem {F : SlotB → SlotB} {s : St} {cid j : Nat} {jm : Impl} {d : Cell}
    (hj : aget (genCell F s cid).impls j = some jm) (hd : d ∈ jm.cells) (hne : d.id ≠ cid) :
    ∃ jm0, aget s.impls j = some jm0 ∧ d ∈ jm0.cells := by
  have := genCell_others F s cid j
  rw [hj] at this
  cases h0 : aget s.impls j with
  | none => rw [h0] at this; cases this
  | some jm0 =>
    rw [h0] at this
    simp only [Option.map_some, Option.some.injEq] at this
    have hm : d ∈ jm.cells.filter (fun c => decide (c.id ≠ cid)) :=
      List.mem_filter.2 ⟨hd, by simpa using hne⟩
    rw [this] at hm
    exact ⟨jm0, rfl, (List.mem_filter.1 hm).1⟩

/-- a cell other than `cid` present before the cascade is present, identical, after -/
theorem genCell_other_mem' {F : SlotB → SlotB} {s : St} {cid j : Nat} {jm0 : Impl} {d : Cell}
    (hj : aget s.impls j = some jm0) (hd : d ∈ jm0.cells) (hne : d.id ≠ cid) :
    ∃ jm, aget (genCell F s cid).impls j = some jm ∧ d ∈ jm.cells := by
  have := genCell_others F s cid j
  rw [hj] at this
  cases h0 : aget (genCell F s cid).impls j with
  | none => rw [h0] at this; cases this
  | some jm =>
    rw [h0] at this
    simp only [Option.map_some, Option.some.injEq] at this
    have hm : d ∈ jm0.cells.filter (fun c => decide (c.id ≠ cid)) :=
      List.mem_filter.2 ⟨hd, by simpa using hne⟩
    rw [← this] at hm
    exact ⟨jm, rfl, (List.mem_filter.1 hm).1⟩

/-- in a well-formed state: a cell with id `cid` present after the cascade is the updated one -/
theorem genCell_self {F : SlotB → SlotB} {s : St} (hw : WF s) {cid j : Nat} {jm : Impl} {d : Cell}
    (hj : aget (genCell F s cid).impls j = some jm) (hd : d ∈ jm.cells) (hde : d.id = cid) :
    ∃ d0, d = genC F d0 := by
  cases hg : getCell s cid with
  | none =>
    simp only [genCell, hg] at hj
    have : getCell s cid ≠ none := (getCell_ne_none_iff hw.keys cid).2 ⟨j, jm, hj, d, hd, hde⟩
    exact absurd hg this
  | some x =>
    obtain ⟨i, c⟩ := x
    obtain ⟨im, hi, _, hc, he⟩ := getCell_some hg
    -- in the updated impl, cells with id `cid` are updated ones; other impls have no such cell
    have hupd : ∀ (cs : List Cell) (e : Nat) (dd : Bool) (h : Nat),
        (∀ x ∈ cs, x ∈ mapG F cid im.cells) →
        aget (aset s.impls i { cells := cs, exec := e, deferred := dd, holders := h }) j = some jm →
        ∃ d0, d = genC F d0 := by
      intro cs e dd h hsub hj'
      rw [aget_aset] at hj'
      split at hj'
      · cases hj'
        have := hsub d hd
        simp only [mapG, List.mem_map] at this
        obtain ⟨d0, _, rfl⟩ := this
        by_cases hd0 : d0.id = cid
        · rw [if_pos hd0]; exact ⟨d0, rfl⟩
        · rw [if_neg hd0] at hde; exact absurd hde hd0
      · rename_i hne
        exact absurd (hw.cellU j i jm im d c hj' hi hd hc (hde.trans he.symm)) hne
    simp only [genCell, hg, updCell_genC hi] at hj
    split at hj
    · simp only [notifyParent, setImpl_impls, aget_aset_same] at hj
      split at hj
      · simp only [eraseCell, setImpl_impls, aget_aset_same, nullConns_impls, aset_aset] at hj
        exact hupd _ _ _ _ (fun x hx => (List.mem_filter.1 hx).1) hj
      · simp only [setImpl_impls, aset_aset] at hj
        exact hupd _ _ _ _ (fun x hx => hx) hj
    · exact hupd _ _ _ _ (fun x hx => hx) hj

/-- what the cascade leaves alone -/
theorem genCell_frame (F : SlotB → SlotB) (s : St) (cid : Nat) :
    (genCell F s cid).S = s.S ∧ (genCell F s cid).T = s.T ∧ (genCell F s cid).G = s.G ∧
    (genCell F s cid).ownedT = s.ownedT ∧ (genCell F s cid).next = s.next := by
  unfold genCell
  split
  · exact ⟨rfl, rfl, rfl, rfl, rfl⟩
  · simp only []
    have hu : ∀ (f : Cell → Cell) i, (updCell s i cid f).S = s.S ∧ (updCell s i cid f).T = s.T ∧
        (updCell s i cid f).G = s.G ∧ (updCell s i cid f).ownedT = s.ownedT ∧ (updCell s i cid f).next = s.next := by
      intro f i; unfold updCell; split <;> exact ⟨rfl, rfl, rfl, rfl, rfl⟩
    have hn : ∀ (s : St) i, (notifyParent s i cid).S = s.S ∧ (notifyParent s i cid).T = s.T ∧
        (notifyParent s i cid).G = s.G ∧ (notifyParent s i cid).ownedT = s.ownedT ∧
        (notifyParent s i cid).next = s.next := by
      intro s i; unfold notifyParent; split
      · exact ⟨rfl, rfl, rfl, rfl, rfl⟩
      · split
        · unfold eraseCell; split <;> exact ⟨rfl, rfl, rfl, rfl, rfl⟩
        · exact ⟨rfl, rfl, rfl, rfl, rfl⟩
    split
    · obtain ⟨a1, a2, a3, a4, a5⟩ := hn (updCell s _ cid _) _
      obtain ⟨b1, b2, b3, b4, b5⟩ := hu (fun c => { c with slot := F c.slot, linked := false }) ‹Nat›
      exact ⟨a1.trans b1, a2.trans b2, a3.trans b3, a4.trans b4, a5.trans b5⟩
    · exact hu _ _

theorem foldl_genCell_frame (F : SlotB → SlotB) (cids : List Nat) : ∀ (s : St),
    (cids.foldl (genCell F) s).S = s.S ∧ (cids.foldl (genCell F) s).T = s.T ∧
    (cids.foldl (genCell F) s).G = s.G ∧ (cids.foldl (genCell F) s).ownedT = s.ownedT ∧
    (cids.foldl (genCell F) s).next = s.next := by
  induction cids with
  | nil => intro s; exact ⟨rfl, rfl, rfl, rfl, rfl⟩
  | cons c cs ih =>
    intro s
    obtain ⟨a1, a2, a3, a4, a5⟩ := ih (genCell F s c)
    obtain ⟨b1, b2, b3, b4, b5⟩ := genCell_frame F s c
    exact ⟨a1.trans b1, a2.trans b2, a3.trans b3, a4.trans b4, a5.trans b5⟩

end Sigc.Inv
