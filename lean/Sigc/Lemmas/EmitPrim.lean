import Sigc.Lemmas.EmitImpl
/-!
# Emit work package — the primitive state transformers of `Sigc.Model` preserve `InvX` and are `Frame`
steps: `nullConns`, `eraseCell`, `notifyParent`, `disconnectCell`, `invalidateCell`, `connBlock`,
`sweep`, `unrefExec`, `gcImpl`, `ensureImpl`, `insertCell`, `clearImpl`.
-/
namespace Sigc.Emit
open Sigc.Model

/-! ## connections are not part of the invariant -/

@[simp] theorem nullConns_impls (s : St) (c : Nat) : (nullConns s c).impls = s.impls := rfl
@[simp] theorem nullConns_G (s : St) (c : Nat) : (nullConns s c).G = s.G := rfl
@[simp] theorem nullConns_S (s : St) (c : Nat) : (nullConns s c).S = s.S := rfl
@[simp] theorem nullConns_err (s : St) (c : Nat) : (nullConns s c).err = s.err := rfl
@[simp] theorem nullConns_next (s : St) (c : Nat) : (nullConns s c).next = s.next := rfl
@[simp] theorem nullConns_T (s : St) (c : Nat) : (nullConns s c).T = s.T := rfl

theorem nullConnsList_core (s : St) (cs : List Nat) :
    (nullConnsList s cs).impls = s.impls ∧ (nullConnsList s cs).G = s.G ∧ (nullConnsList s cs).S = s.S ∧
    (nullConnsList s cs).err = s.err ∧ (nullConnsList s cs).next = s.next := by
  unfold nullConnsList
  induction cs generalizing s with
  | nil => simp
  | cons c t ih =>
    simp only [List.foldl_cons]
    obtain ⟨a, b, c', d, e⟩ := ih (nullConns s c)
    exact ⟨by rw [a]; rfl, by rw [b]; rfl, by rw [c']; rfl, by rw [d]; rfl, by rw [e]; rfl⟩

@[simp] theorem nullConns_ownedG (s : St) (c : Nat) : (nullConns s c).ownedG = s.ownedG := rfl

@[simp] theorem nullConnsList_ownedG (s : St) (cs : List Nat) : (nullConnsList s cs).ownedG = s.ownedG := by
  unfold nullConnsList
  induction cs generalizing s with
  | nil => rfl
  | cons c t ih => simp only [List.foldl_cons]; rw [ih]; rfl

theorem Good.nullConnsList {off} {s s1 : St} (h : Good off s s1) (cs : List Nat) :
    Good off s (nullConnsList s1 cs) := by
  obtain ⟨a, b, c, d, e⟩ := nullConnsList_core s1 cs
  exact h.congr a b c d (by omega) (nullConnsList_ownedG _ _)

theorem Good.nullConns {off} {s s1 : St} (h : Good off s s1) (c : Nat) :
    Good off s (nullConns s1 c) :=
  h.congr rfl rfl rfl rfl (Nat.le_refl _)

/-! ## equations under `aget s.impls i = some im` -/

theorem setImpl_setImpl (s : St) (i : Nat) (a b : Impl) : setImpl (setImpl s i a) i b = setImpl s i b := by
  have : ∀ (l : List (Nat × Impl)), aset (aset l i a) i b = aset l i b := by
    intro l
    induction l with
    | nil => simp [aset]
    | cons p t ih =>
      obtain ⟨k, v⟩ := p
      by_cases e : k = i
      · simp [aset, e]
      · simp [aset, e, ih]
  simp [setImpl, this]

theorem updCell_eq {s : St} {i : Nat} {im : Impl} (hi : aget s.impls i = some im) (cid : Nat) (f : Cell → Cell) :
    updCell s i cid f = setImpl s i { im with cells := im.cells.map (updC cid f) } := by
  simp only [updCell, hi]; rfl

theorem eraseCell_eq {s : St} {i : Nat} {im : Impl} (hi : aget s.impls i = some im) (cid : Nat) :
    eraseCell s i cid = nullConns (setImpl s i { im with cells := im.cells.filter (·.id ≠ cid) }) cid := by
  simp [eraseCell, hi]

theorem notifyParent_eq {s : St} {i : Nat} {im : Impl} (hi : aget s.impls i = some im) (cid : Nat) :
    notifyParent s i cid = if im.exec = 0 then eraseCell s i cid else setImpl s i { im with deferred := true } := by
  simp [notifyParent, hi]

theorem getCell_some {s : St} {cid i : Nat} {c : Cell} (h : getCell s cid = some (i, c)) :
    ∃ im, aget s.impls i = some im ∧ im.cells.find? (·.id = cid) = some c := by
  unfold getCell at h
  split at h
  · contradiction
  · rename_i j hj
    split at h
    · contradiction
    · rename_i im him
      simp at h
      obtain ⟨hc', rfl⟩ := h
      exact ⟨im, him, hc'⟩

/-! ## cell-level primitives -/

theorem sublist_ids_filter (cs : List Cell) (p : Cell → Bool) :
    ∀ k ∈ (cs.filter p).map (·.id), k ∈ cs.map (·.id) := by
  intro k hk
  obtain ⟨c, hc, rfl⟩ := List.mem_map.mp hk
  exact List.mem_map.mpr ⟨c, (List.mem_filter.mp hc).1, rfl⟩

/-- erasing a cell of an impl that is not emitting -/
theorem Good.eraseCell {off} {s : St} (h : InvX off s) {i : Nat} {im : Impl}
    (hi : aget s.impls i = some im) (hx : im.exec = 0) (cid : Nat) :
    Good off s (eraseCell s i cid) := by
  rw [eraseCell_eq hi]
  apply Good.nullConns
  have hok := h.ok i im hi
  apply Good.setImpl h hi
  · apply hok.filter
    intro c hc hn
    have := hok.no_markers hx c hc
    rw [this] at hn; contradiction
  · intro k hk; exact Or.inl (sublist_ids_filter _ _ k hk)
  · intro c hc; exact h.fwdC i im hi c (List.mem_filter.mp hc).1
  · rfl
  · intro hp; omega

theorem ImplOK.setDeferred {k : Nat} {im : Impl} (h : ImplOK k im) (hx : im.exec ≠ 0) :
    ImplOK k { im with deferred := true } :=
  ⟨h.nodup, h.eh, h.mkr, fun e => absurd e hx, h.l, fun e => by simp at e⟩

theorem Good.notifyParent {off} {s : St} (h : InvX off s) (i cid : Nat) : Good off s (notifyParent s i cid) := by
  cases hi : aget s.impls i with
  | none => simp [Sigc.Model.notifyParent, hi]; exact Good.refl h
  | some im =>
    rw [notifyParent_eq hi]
    split
    · rename_i hx; exact Good.eraseCell h hi hx cid
    · rename_i hx
      apply Good.setImpl h hi ((h.ok i im hi).setDeferred hx)
      · intro k hk; exact Or.inl hk
      · intro c hc; exact h.fwdC i im hi c hc
      · rfl
      · intro _; exact ⟨[], [], by simp [skel]⟩

/-- the common shape of `disconnectCell` and `invalidateCell` -/
def touchCell (hf : SlotB → SlotB) (s : St) (cid : Nat) : St :=
  match getCell s cid with
  | none => s
  | some (i, c) =>
    let s := updCell s i cid (fun c => { c with slot := hf c.slot, linked := false })
    if c.linked then notifyParent s i cid else s

theorem disconnectCell_eq (s : St) (cid : Nat) : disconnectCell s cid = touchCell SlotB.disconnectRep s cid := rfl
theorem invalidateCell_eq (s : St) (cid : Nat) : invalidateCell s cid = touchCell SlotB.invalidate s cid := rfl

/-- what `touchCell` needs from the slot transformer -/
structure Weakens (hf : SlotB → SlotB) : Prop where
  isNone : ∀ sl, (hf sl).rep.isNone = sl.rep.isNone
  empty : ∀ sl, (hf sl).empty = true
  ok : ∀ G sl, SlotOK G sl → SlotOK G (hf sl)

theorem weakens_disconnectRep : Weakens SlotB.disconnectRep :=
  ⟨disconnectRep_isNone, disconnectRep_empty, fun _ _ h => h.disconnectRep⟩
theorem weakens_invalidate : Weakens SlotB.invalidate :=
  ⟨invalidate_isNone, invalidate_empty, fun _ _ h => h.invalidate⟩

theorem Good.touchCell {off} {hf : SlotB → SlotB} (hw : Weakens hf) {s : St} (h : InvX off s) (cid : Nat) :
    Good off s (touchCell hf s cid) := by
  unfold Sigc.Emit.touchCell
  cases hg : getCell s cid with
  | none => exact Good.refl h
  | some p =>
    obtain ⟨i, c⟩ := p
    obtain ⟨im, hi, hfind⟩ := getCell_some hg
    have hok := h.ok i im hi
    let f : Cell → Cell := fun c => { c with slot := hf c.slot, linked := false }
    have hid : ∀ c, (updC cid f c).id = c.id := by
      intro c; unfold updC; split <;> rfl
    have hn : ∀ c, (updC cid f c).slot.rep.isNone = c.slot.rep.isNone := by
      intro c; unfold updC; split
      · exact hw.isNone _
      · rfl
    have hl : ∀ c ∈ im.cells, (updC cid f c).linked = false → (updC cid f c).slot.empty = true := by
      intro c hc; unfold updC; split
      · intro _; exact hw.empty _
      · exact hok.l c hc
    have hfw : ∀ c ∈ im.cells.map (updC cid f), SlotOK s.G c.slot := by
      intro c hc
      obtain ⟨c0, hc0, rfl⟩ := List.mem_map.mp hc
      unfold updC; split
      · exact hw.ok _ _ (h.fwdC i im hi c0 hc0)
      · exact h.fwdC i im hi c0 hc0
    simp only
    rw [updCell_eq hi]
    cases hlk : c.linked with
    | false =>
      simp only [Bool.false_eq_true, if_false]
      apply Good.setImpl h hi (im' := { im with cells := im.cells.map (updC cid f), deferred := im.deferred })
      · apply hok.map _ _ hid hn hl
        · intro hd
          refine ⟨hd, ?_⟩
          intro c0 hc0 hl0
          unfold updC; split
          · rename_i e
            have := find_unique hok.nodup hfind hc0 e
            subst this; rw [hlk] at hl0; contradiction
          · exact hl0
        · exact hok.q1
      · intro k hk; left; simpa [cids, cids_map _ _ hid] using hk
      · exact hfw
      · rfl
      · intro _; exact ⟨[], [], by simp [skel_map im _ hid hn]⟩
    | true =>
      simp only [if_true]
      have hi1 : aget (Sigc.Model.setImpl s i { im with cells := im.cells.map (updC cid f) }).impls i
          = some { im with cells := im.cells.map (updC cid f) } := by simp [aget_setImpl]
      rw [notifyParent_eq hi1]
      split
      · rename_i hx
        rw [eraseCell_eq hi1, setImpl_setImpl]
        apply Good.nullConns
        simp only
        rw [map_updC_filter im.cells cid f (fun _ => rfl)]
        apply Good.setImpl h hi
        · apply hok.filter
          intro c hc hn
          have := hok.no_markers hx c hc
          rw [this] at hn; contradiction
        · intro k hk; exact Or.inl (sublist_ids_filter _ _ k hk)
        · intro c hc; exact h.fwdC i im hi c (List.mem_filter.mp hc).1
        · rfl
        · intro hp; simp at hx; omega
      · rename_i hx
        rw [setImpl_setImpl]
        apply Good.setImpl h hi (im' := { im with cells := im.cells.map (updC cid f), deferred := true })
        · apply hok.map _ _ hid hn hl
          · intro hd; contradiction
          · intro e; exact absurd e hx
        · intro k hk; left; simpa [cids, cids_map _ _ hid] using hk
        · exact hfw
        · rfl
        · intro _; exact ⟨[], [], by simp [skel_map im _ hid hn]⟩

theorem Good.disconnectCell {off} {s : St} (h : InvX off s) (cid : Nat) : Good off s (disconnectCell s cid) := by
  rw [disconnectCell_eq]; exact Good.touchCell weakens_disconnectRep h cid

theorem Good.invalidateCell {off} {s : St} (h : InvX off s) (cid : Nat) : Good off s (invalidateCell s cid) := by
  rw [invalidateCell_eq]; exact Good.touchCell weakens_invalidate h cid

theorem Good.foldl {off} (g : St → Nat → St) (hg : ∀ s c, InvX off s → Good off s (g s c))
    {s : St} (h : InvX off s) (cs : List Nat) : Good off s (cs.foldl g s) := by
  induction cs generalizing s with
  | nil => exact Good.refl h
  | cons c t ih =>
    simp only [List.foldl_cons]
    exact (hg s c h).trans (ih (hg s c h).inv)

/-- `connection::block` -/
theorem Good.connBlock {off} {s : St} (h : InvX off s) (p : Option Nat) (b : Bool) : Good off s (connBlock s p b) := by
  unfold Sigc.Model.connBlock
  cases p with
  | none => exact Good.refl h
  | some cid =>
    simp only
    cases hg : getCell s cid with
    | none => exact Good.refl h
    | some q =>
      obtain ⟨i, c⟩ := q
      obtain ⟨im, hi, _⟩ := getCell_some hg
      have hok := h.ok i im hi
      simp only
      rw [updCell_eq hi]
      let f : Cell → Cell := fun c => { c with slot := { c.slot with blocked := b } }
      have hid : ∀ c, (updC cid f c).id = c.id := by
        intro c; unfold updC; split <;> rfl
      have hn : ∀ c, (updC cid f c).slot.rep.isNone = c.slot.rep.isNone := by
        intro c; unfold updC; split <;> rfl
      apply Good.setImpl h hi (im' := { im with cells := im.cells.map (updC cid f), deferred := im.deferred })
      · apply hok.map _ _ hid hn
        · intro c hc; unfold updC; split
          · intro hl; have := hok.l c hc hl
            simpa [SlotB.empty] using this
          · exact hok.l c hc
        · intro hd; refine ⟨hd, ?_⟩
          intro c _ hl; unfold updC; split <;> exact hl
        · exact hok.q1
      · intro k hk; left; simpa [cids, cids_map _ _ hid] using hk
      · intro c hc
        obtain ⟨c0, hc0, rfl⟩ := List.mem_map.mp hc
        unfold updC; split
        · exact (h.fwdC i im hi c0 hc0).setBlocked b
        · exact h.fwdC i im hi c0 hc0
      · rfl
      · intro _; exact ⟨[], [], by simp [skel_map im _ hid hn]⟩

end Sigc.Emit
