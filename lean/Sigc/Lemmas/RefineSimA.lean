import Sigc.Lemmas.RefineSimDefs
/-!
# Refine work package — the simulation of the mutual block, part A: `invokeFun`, `runBody`, `execLine`,
`execOp` (the functions that are textually the same in the model and in the specification).
-/
namespace Sigc.Refine
open Sigc.Model

/-! ## fuel 0 -/

theorem invoke_sim0 : InvokeS 0 := by
  intro P s t fn arg s' o v _ _ _ h; simp [Model.invokeFun] at h

theorem body_sim0 : BodyS 0 := by
  intro P s t ls s' o _ _ _ h; simp [Model.runBody] at h

theorem line_sim0 : LineS 0 := by
  intro P s t l s' o _ _ _ h; simp [Model.execLine] at h

theorem op_sim0 : OpS 0 := by
  intro P s t op s' res _ _ _ h; simp [Model.execOp] at h

/-! ## `invokeFun` -/

theorem handleByObj_sim {s : St} {t : Spec.LSt} (hR : R s t) (o : Nat) :
    Spec.handleByObj t o = Model.handleByObj s o := by
  unfold Spec.handleByObj Model.handleByObj
  rw [hR.G]

theorem invoke_sim (f : Nat) (hb : BodyS f) (hi : InvokeS f) (he : EmitS f) : InvokeS (f+1) := by
  intro P s t fn arg s' o v hs hfn hR h g hg
  obtain ⟨g', rfl⟩ : ∃ g', g = g'+1 := ⟨g-1, by omega⟩
  have hfg : f ≤ g' := by omega
  have leafCase : ∀ fid, (match aget P.bodies fid with
      | none => some (s.log (.call s.depth fid arg), Outcome.ok, resultOf fid arg)
      | some body =>
        match Model.runBody f P { (s.log (.call s.depth fid arg)) with depth := (s.log (.call s.depth fid arg)).depth + 1 } body with
        | none => none
        | some (s, o) => some ({ s with depth := s.depth - 1 }, o, resultOf fid arg)) = some (s', o, v) →
      ∃ t', (match aget P.bodies fid with
      | none => some (t.log (.call t.depth fid arg), Outcome.ok, resultOf fid arg)
      | some body =>
        match Spec.runBody g' P { (t.log (.call t.depth fid arg)) with depth := (t.log (.call t.depth fid arg)).depth + 1 } body with
        | none => none
        | some (s, o) => some ({ s with depth := s.depth - 1 }, o, resultOf fid arg)) = some (t', o, v) ∧ R s' t' := by
    intro fid h
    rw [hR.depth]
    have hR1 : R (s.log (.call s.depth fid arg)) (t.log (.call s.depth fid arg)) := hR.log _
    split at h
    · simp at h; obtain ⟨h1, h2, h3⟩ := h; subst h1 h2 h3
      exact ⟨_, rfl, hR1⟩
    · split at h
      · contradiction
      · rename_i s2 o2 hr
        simp at h; obtain ⟨h1, h2, h3⟩ := h; subst h1 h2 h3
        have g1 : Emit.Good0 s { (s.log (.call s.depth fid arg)) with depth := (s.log (.call s.depth fid arg)).depth + 1 } :=
          Emit.Good.of_core hs rfl rfl rfl rfl (Nat.le_refl _)
        have hRd : R { (s.log (.call s.depth fid arg)) with depth := (s.log (.call s.depth fid arg)).depth + 1 }
            { (t.log (.call s.depth fid arg)) with depth := (t.log (.call s.depth fid arg)).depth + 1 } := by
          rw [hR1.depth]; exact hR1.setDepth _
        obtain ⟨t2, ht2, hR2⟩ := hb P _ _ _ _ _ g1.inv hRd (Quiet.of_depth (Nat.succ_ne_zero _)) hr g' hfg
        simp only [ht2]
        rw [hR2.depth]
        exact ⟨_, rfl, hR2.setDepth _⟩
  cases fn with
  | leaf fid ts => rw [invokeFun.eq_def] at h; rw [Spec.invokeFun.eq_def]; exact leafCase fid h
  | owner fid a b => rw [invokeFun.eq_def] at h; rw [Spec.invokeFun.eq_def]; exact leafCase fid h
  | nest blocked inner =>
    rw [invokeFun.eq_def] at h
    simp only at h
    rw [Spec.invokeFun.eq_def]
    simp only
    cases inner with
    | none => simp at h; obtain ⟨h1, h2, h3⟩ := h; subst h1 h2 h3; exact ⟨t, rfl, hR⟩
    | some g0 =>
      simp only at h ⊢
      split at h
      · rename_i hbl
        simp at h; obtain ⟨h1, h2, h3⟩ := h; subst h1 h2 h3
        rw [if_pos hbl]; exact ⟨t, rfl, hR⟩
      · rename_i hbl
        rw [if_neg hbl]
        exact hi P s t g0 arg s' o v hs (fun o ts ht => hfn o ts ht) hR h g' hfg
  | fwd ob ts =>
    rw [invokeFun.eq_def] at h
    simp only at h
    rw [Spec.invokeFun.eq_def]
    simp only
    obtain ⟨g0, hd, hh, hmem⟩ := Emit.handleByObj_some hfn (o := ob) (ts := ts) rfl
    rw [hh] at h
    rw [handleByObj_sim hR, hh]
    simp only at h ⊢
    exact he P s t hd.fl hd.impl arg .sum s' o v hs (fun i hi => hs.himpl (g0, hd) hmem i hi) hR h g' hfg

/-! ## `runBody` -/

theorem body_sim (f : Nat) (hl : LineS f) (hb : BodyS f) : BodyS (f+1) := by
  intro P s t ls s' o hs hR hq h g hg
  obtain ⟨g', rfl⟩ : ∃ g', g = g'+1 := ⟨g-1, by omega⟩
  have hfg : f ≤ g' := by omega
  cases ls with
  | nil =>
    rw [runBody] at h; simp at h; obtain ⟨h1, h2⟩ := h; subst h1 h2
    rw [Spec.runBody]; exact ⟨t, rfl, hR⟩
  | cons l ls =>
    rw [runBody] at h
    rw [Spec.runBody]
    split at h
    · contradiction
    · rename_i s1 h1
      simp at h; obtain ⟨e1, e2⟩ := h; subst e1 e2
      obtain ⟨t1, ht1, hR1⟩ := hl P s t l _ _ hs hR hq h1 g' hfg
      simp only [ht1]; exact ⟨t1, rfl, hR1⟩
    · rename_i s1 h1
      obtain ⟨t1, ht1, hR1⟩ := hl P s t l _ _ hs hR hq h1 g' hfg
      simp only [ht1]
      have g1 := (Emit.all_ok f).line P s l _ _ hs h1
      exact hb P s1 t1 ls s' o g1.inv hR1 (Quiet.step hq g1.frame (execLine_keeps h1).depth) h g' hfg

/-! ## `execLine` -/

theorem line_sim (f : Nat) (ho : OpS f) : LineS (f+1) := by
  intro P s t l s' o hs hR hq h g hg
  obtain ⟨g', rfl⟩ : ∃ g', g = g'+1 := ⟨g-1, by omega⟩
  have hfg : f ≤ g' := by omega
  rw [execLine] at h
  rw [Spec.execLine]
  have g0 : Emit.Good0 s { s with steps := s.steps + 1 } := Emit.Good.of_core hs rfl rfl rfl rfl (Nat.le_refl _)
  have hR0 : R { s with steps := s.steps + 1 } { t with steps := t.steps + 1 } := by
    rw [hR.steps]; exact hR.setSteps _
  have hq0 : Quiet { s with steps := s.steps + 1 } := Quiet.step hq g0.frame rfl
  split at h
  · contradiction
  · rename_i s1 _ h1
    simp at h; obtain ⟨e1, e2⟩ := h; subst e1 e2
    obtain ⟨t1, res1, ht1, hR1, hres⟩ := ho P _ _ _ _ _ g0.inv hR0 hq0 h1 g' hfg
    have g1 := (Emit.all_ok f).op P _ _ _ _ g0.inv h1
    have g2 : Emit.Good0 s (s1.log (.res s1.depth l.text "exc")) :=
      (g0.trans g1).congr rfl rfl rfl rfl (Nat.le_refl _)
    cases res1 with
    | ok r => exact absurd hres (by simp [ResR])
    | error u =>
      simp only [ht1]
      rw [hR1.depth]
      exact ⟨_, rfl, R_collect g2.inv (hR1.log _)⟩
  · rename_i s1 r h1
    simp at h; obtain ⟨e1, e2⟩ := h; subst e1 e2
    obtain ⟨t1, res1, ht1, hR1, hres⟩ := ho P _ _ _ _ _ g0.inv hR0 hq0 h1 g' hfg
    have g1 := (Emit.all_ok f).op P _ _ _ _ g0.inv h1
    have g2 : Emit.Good0 s (s1.log (.res s1.depth l.text r)) :=
      (g0.trans g1).congr rfl rfl rfl rfl (Nat.le_refl _)
    cases res1 with
    | error u => exact absurd hres (by simp [ResR])
    | ok r' =>
      simp only [ht1]
      rw [hR1.depth]
      exact ⟨_, rfl, R_collect g2.inv (hR1.logRes _ _ hres)⟩

/-! ## `execOp` -/

theorem ResR.refl (x : Except Unit String) : ResR x x := by
  cases x with
  | error _ => trivial
  | ok r => exact ResAllows.refl r

/-- both sides end with the same result -/
theorem fin_res {s1 s' : St} {t1 : Spec.LSt} {x res : Except Unit String} (hR : R s1 t1)
    (h : some (s1, x) = some (s', res)) :
    ∃ t' res', some (t1, x) = some (t', res') ∧ R s' t' ∧ ResR res' res := by
  simp at h; obtain ⟨h1, h2⟩ := h; subst h1 h2
  exact ⟨t1, x, rfl, hR, ResR.refl x⟩

/-- the operations without user code -/
theorem fall_sim {P : Prog} {s s' : St} {t : Spec.LSt} {op : Op} {res : Except Unit String}
    (hs : Emit.Inv s) (hR : R s t) (hq : Quiet s)
    (h : (match Model.modeRule P s op with
      | some r => some (s, (Except.ok r : Except Unit String))
      | none =>
        match Model.stepSimple s op with
        | some (s, r) => some (s, Except.ok r)
        | none => some (s, Except.ok "badop")) = some (s', res)) :
    ∃ t' res', (match Spec.modeRule P t op with
      | some r => some (t, (Except.ok r : Except Unit String))
      | none =>
        match Spec.stepSimple t op with
        | some (s, r) => some (s, Except.ok r)
        | none => some (t, Except.ok "badop")) = some (t', res') ∧ R s' t' ∧ ResR res' res := by
  rw [modeRule_sim hR]
  split at h
  · rename_i r hm
    exact fin_res hR h
  · rename_i hm
    obtain ⟨h1, h2⟩ := stepSim_all op s t hs hR hq
    split at h
    · rename_i s1 r hst
      obtain ⟨t1, r1, ht1, hR1, hr⟩ := h1 _ _ hst
      simp only [ht1]
      simp at h; obtain ⟨e1, e2⟩ := h; subst e1 e2
      exact ⟨_, _, rfl, hR1, hr⟩
    · rename_i hst
      rw [h2 hst]; exact fin_res hR h

theorem op_sim (f : Nat) (hi : InvokeS f) (he : EmitS f) : OpS (f+1) := by
  intro P s t op s' res hs hR hq h g hg
  obtain ⟨g', rfl⟩ : ∃ g', g = g'+1 := ⟨g-1, by omega⟩
  have hfg : f ≤ g' := by omega
  rw [execOp.eq_def] at h
  simp only at h
  rw [Spec.execOp.eq_def]
  simp only
  split at h
  · -- callS
    rename_i i arg
    have eS : aget t.S i = aget s.S i := by rw [hR.S]
    simp only
    rw [eS]
    split at h
    · rename_i hv
      rw [hv]; exact fin_res hR h
    · rename_i v hv
      rw [hv]; simp only
      split at h
      · rename_i hd
        rw [if_pos (by rw [hR.depth]; exact hd)]; exact fin_res hR h
      · rename_i hd
        rw [if_neg (by rw [hR.depth]; exact hd)]
        split at h
        · rename_i hst
          rw [if_pos (by rw [hR.steps]; exact hst)]; exact fin_res hR h
        · rename_i hst
          rw [if_neg (by rw [hR.steps]; exact hst)]
          split at h
          · rename_i fn hrep
            rw [hrep]; simp only
            split at h
            · rename_i hbl
              rw [if_pos hbl]; exact fin_res hR h
            · rename_i hbl
              rw [if_neg hbl]
              have hsl := hs.fwdS i v hv
              have h0 : Emit.Inv { s with S := aset s.S i { v with incall := v.incall + 1 } } :=
                hs.setS i _ hsl
              have hR0 : R { s with S := aset s.S i { v with incall := v.incall + 1 } }
                  { t with S := aset t.S i { v with incall := v.incall + 1 } } := by
                rw [hR.S]; exact hR.updS _
              split at h
              · contradiction
              · rename_i s1 o r hinv
                obtain ⟨t1, ht1, hR1⟩ := hi P _ _ fn arg s1 o r h0 (hsl _ fn hrep rfl) hR0 hinv g' hfg
                simp only [ht1]
                have e1 : aget t1.S i = aget s1.S i := by rw [hR1.S]
                rw [e1]
                cases hv2 : aget s1.S i with
                | none =>
                  rw [hv2] at h
                  cases o <;> simp only at h ⊢ <;> exact fin_res (hR1.fail _ _) h
                | some v2 =>
                  rw [hv2] at h
                  have hR2 : R { s1 with S := aset s1.S i { v2 with incall := v2.incall - 1 } }
                      { t1 with S := aset t1.S i { v2 with incall := v2.incall - 1 } } := by
                    rw [hR1.S]; exact hR1.updS _
                  cases o <;> simp only at h ⊢ <;> exact fin_res hR2 h
          · rename_i hno
            split
            · rename_i fn hrep
              exact absurd hrep (hno fn)
            · exact fin_res hR h
  · -- emit
    rename_i gi arg strat try_
    have eG : aget t.G gi = aget s.G gi := by rw [hR.G]
    simp only
    rw [eG]
    split at h
    · rename_i hgn
      rw [hgn]; exact fin_res hR h
    · rename_i hd hgs
      rw [hgs]; simp only
      split at h
      · rename_i hdp
        rw [if_pos (by rw [hR.depth]; exact hdp)]; exact fin_res hR h
      · rename_i hdp
        rw [if_neg (by rw [hR.depth]; exact hdp)]
        split at h
        · rename_i hst
          rw [if_pos (by rw [hR.steps]; exact hst)]; exact fin_res hR h
        · rename_i hst
          rw [if_neg (by rw [hR.steps]; exact hst)]
          have hh : ∀ k, hd.impl = some k → (aget s.impls k).isSome = true :=
            fun k hk => hs.himpl (gi, hd) (Emit.aget_some_mem hgs) k hk
          split at h
          · contradiction
          · rename_i s1 v1 hem
            obtain ⟨t1, ht1, hR1⟩ := he P s t hd.fl hd.impl arg strat s1 _ v1 hs hh hR hem g' hfg
            simp only [ht1]
            split at h
            · rename_i htry
              rw [if_pos htry]; exact fin_res hR1 h
            · rename_i htry
              rw [if_neg htry]; exact fin_res hR1 h
          · rename_i s1 v1 hem
            obtain ⟨t1, ht1, hR1⟩ := he P s t hd.fl hd.impl arg strat s1 _ v1 hs hh hR hem g' hfg
            simp only [ht1]
            exact fin_res hR1 h
  · -- throw_
    simp only
    exact fin_res hR h
  · -- everything else
    rename_i n1 n2 n3
    split
    · exact (n1 _ _ rfl).elim
    · exact (n2 _ _ _ _ rfl).elim
    · exact (n3 rfl).elim
    · exact fall_sim hs hR hq h

end Sigc.Refine
