import Sigc.Lemmas.InvInc
/-!
# what the harness teardown leaves behind

every phase of `teardown` removes the keys it walks over and no phase adds a key, so after the teardown
of a quiescent state all name maps are empty; with `Bal` (every impl is owned by a handle) also `impls`.
-/
namespace Sigc.Inv
open Sigc.Model

/-- the names alive in a state -/
structure Keys where
  K : List Nat
  C : List Nat
  S : List Nat
  G : List Nat
  T : List Nat

def keysOf (s : St) : Keys :=
  ⟨s.K.map (·.1), s.C.map (·.1), s.S.map (·.1), s.G.map (·.1), s.T.map (·.1)⟩

theorem keys_amap {α : Type} (l : List (Nat × α)) (f : α → α) : (amap l f).map (·.1) = l.map (·.1) := by
  simp [amap, List.map_map, Function.comp_def]

theorem keysOf_nullConns (s : St) (c : Nat) : keysOf (nullConns s c) = keysOf s := by
  simp only [keysOf, nullConns, keys_amap]

theorem keysOf_nullConnsList (ids : List Nat) : ∀ s : St, keysOf (nullConnsList s ids) = keysOf s := by
  induction ids with
  | nil => intro s; rfl
  | cons c cs ih =>
    intro s
    show keysOf (nullConnsList (nullConns s c) cs) = _
    rw [ih, keysOf_nullConns]

/-- the primitive updates keep all names -/
theorem keys_prims (Q : Keys → Prop) : PrimsA (fun s => Q (keysOf s)) where
  upd _ _ _ _ _ _ _ h _ _ := h
  filter s i im p d ids _ h _ _ := by
    show Q (keysOf (nullConnsList _ _))
    rw [keysOf_nullConnsList]; exact h
  delImpl s i im _ h _ _ _ := by
    show Q (keysOf (nullConnsList _ _))
    rw [keysOf_nullConnsList]; exact h
  invalS s t _ h := by
    have : keysOf { s with S := (amap s.S
        (fun v => if v.slot.tracksObj t then { v with slot := v.slot.invalidate } else v)) } = keysOf s := by
      simp only [keysOf, keys_amap]
    rw [this]; exact h

theorem keysOf_invalidateTrackable (s : St) (t : Nat) : keysOf (invalidateTrackable s t) = keysOf s :=
  (keys_prims (· = keysOf s)).invalidateTrackable t rfl
theorem keysOf_disconnectCell (s : St) (c : Nat) : keysOf (disconnectCell s c) = keysOf s :=
  (keys_prims (· = keysOf s)).disconnectCell c rfl
theorem keysOf_clearImpl (s : St) (i : Nat) : keysOf (clearImpl s i) = keysOf s :=
  (keys_prims (· = keysOf s)).clearImpl i rfl
theorem keysOf_gcImpl (s : St) (i : Nat) : keysOf (gcImpl s i) = keysOf s :=
  (keys_prims (· = keysOf s)).gcImpl i rfl

theorem filter_ne_of_aget_none {α : Type} {l : List (Nat × α)} {k : Nat} (h : aget l k = none) :
    (l.map (·.1)).filter (fun x => x ≠ k) = l.map (·.1) := by
  rw [List.filter_eq_self]
  intro a ha
  have := aget_none_iff.1 h
  simp only [ne_eq, decide_not, Bool.not_eq_eq_eq_not, Bool.not_true, decide_eq_false_iff_not]
  intro e; subst e; exact this ha

/-! ### the teardown operations, one by one -/

/-- the operations of the teardown run no user code: `execOp` is `stepSimple` -/
theorem execOp_simple_of {f : Nat} {P : Prog} {s : St} {op : Op} {r : St × Except Unit String} (k : Nat)
    (hop : op = .delK k ∨ op = .delC k ∨ op = .delS k ∨ op = .clear k ∨ op = .delT k)
    (h : execOp f P s op = some r) :
    (∃ r0, stepSimple s op = some (r.1, r0)) ∨ (stepSimple s op = none ∧ r.1 = s) := by
  cases f with
  | zero => rw [execOp] at h; cases h
  | succ f =>
    rcases hop with rfl | rfl | rfl | rfl | rfl
    all_goals (
      rw [execOp] at h
      simp only [modeRule] at h
      split at h
      · rename_i heq; cases h; exact Or.inl ⟨_, heq⟩
      · rename_i heq; cases h; exact Or.inr ⟨heq, rfl⟩
      all_goals simp)

theorem delK_keys {f : Nat} {P : Prog} {s : St} {k : Nat} {r : St × Except Unit String}
    (h : execOp f P s (.delK k) = some r) :
    keysOf r.1 = { keysOf s with K := (keysOf s).K.filter (fun x => x ≠ k) } := by
  rcases execOp_simple_of k (by simp) h with ⟨r0, hs⟩ | ⟨hs, _⟩
  · simp only [stepSimple] at hs
    split at hs
    · rename_i hn
      simp only [Option.some.injEq, Prod.mk.injEq] at hs
      rw [← hs.1]
      simp only [keysOf, filter_ne_of_aget_none hn]
    · simp only [Option.some.injEq, Prod.mk.injEq] at hs
      rw [← hs.1]
      split
      · rw [keysOf_disconnectCell]; simp only [keysOf, keys_adel]
      · simp only [keysOf, keys_adel]
  · simp [stepSimple] at hs
    split at hs <;> cases hs

theorem delC_keys {f : Nat} {P : Prog} {s : St} {k : Nat} {r : St × Except Unit String}
    (h : execOp f P s (.delC k) = some r) :
    keysOf r.1 = { keysOf s with C := (keysOf s).C.filter (fun x => x ≠ k) } := by
  rcases execOp_simple_of k (by simp) h with ⟨r0, hs⟩ | ⟨hs, _⟩
  · simp only [stepSimple] at hs
    split at hs
    · rename_i hn
      simp only [Option.some.injEq, Prod.mk.injEq] at hs
      rw [← hs.1]
      simp only [keysOf, filter_ne_of_aget_none hn]
    · simp only [Option.some.injEq, Prod.mk.injEq] at hs
      rw [← hs.1]
      simp only [keysOf, keys_adel]
  · simp [stepSimple] at hs
    split at hs <;> cases hs

theorem delS_keys {f : Nat} {P : Prog} {s : St} {k : Nat} {r : St × Except Unit String}
    (hc : Inc (fun _ => 0) s) (h : execOp f P s (.delS k) = some r) :
    keysOf r.1 = { keysOf s with S := (keysOf s).S.filter (fun x => x ≠ k) } := by
  rcases execOp_simple_of k (by simp) h with ⟨r0, hs⟩ | ⟨hs, _⟩
  · simp only [stepSimple] at hs
    split at hs
    · rename_i hn
      simp only [Option.some.injEq, Prod.mk.injEq] at hs
      rw [← hs.1]
      simp only [keysOf, filter_ne_of_aget_none hn]
    · rename_i v hv
      have : ¬ v.incall > 0 := by rw [hc.1 k v hv]; exact Nat.lt_irrefl 0
      simp only [this, if_false, Option.some.injEq, Prod.mk.injEq] at hs
      rw [← hs.1]
      simp only [keysOf, keys_adel]
  · simp [stepSimple] at hs
    split at hs
    · cases hs
    · split at hs <;> cases hs

theorem clear_keys {f : Nat} {P : Prog} {s : St} {g : Nat} {r : St × Except Unit String}
    (h : execOp f P s (.clear g) = some r) : keysOf r.1 = keysOf s := by
  rcases execOp_simple_of g (by simp) h with ⟨r0, hs⟩ | ⟨hs, e⟩
  · simp only [stepSimple] at hs
    split at hs
    · simp only [Option.some.injEq, Prod.mk.injEq] at hs
      rw [← hs.1]
    · simp only [Option.some.injEq, Prod.mk.injEq] at hs
      rw [← hs.1]
      split
      · exact keysOf_clearImpl _ _
      · rfl
  · rw [e]

theorem delT_keys {f : Nat} {P : Prog} {s : St} {k : Nat} {r : St × Except Unit String}
    (h : execOp f P s (.delT k) = some r) :
    keysOf r.1 = { keysOf s with T := (keysOf s).T.filter (fun x => x ≠ k) } := by
  rcases execOp_simple_of k (by simp) h with ⟨r0, hs⟩ | ⟨hs, _⟩
  · simp only [stepSimple] at hs
    split at hs
    · rename_i hn
      simp only [Option.some.injEq, Prod.mk.injEq] at hs
      rw [← hs.1]
      simp only [keysOf, filter_ne_of_aget_none hn]
    · simp only [Option.some.injEq, Prod.mk.injEq] at hs
      rw [← hs.1, keysOf_invalidateTrackable]
      simp only [keysOf, keys_adel]
  · simp [stepSimple] at hs
    split at hs <;> cases hs

theorem forceDelG_keys (s : St) (g : Nat) :
    keysOf (forceDelG s g) = { keysOf s with G := (keysOf s).G.filter (fun x => x ≠ g) } := by
  unfold forceDelG
  split
  · rename_i hn
    simp only [keysOf, filter_ne_of_aget_none hn]
  · simp only []
    have key : ∀ s1 : St, keysOf s1 = keysOf s →
        keysOf { s1 with G := adel s1.G g } = { keysOf s with G := (keysOf s).G.filter (fun x => x ≠ g) } := by
      intro s1 h1
      have : keysOf { s1 with G := adel s1.G g } = { keysOf s1 with G := (keysOf s1).G.filter (fun x => x ≠ g) } := by
        simp only [keysOf, keys_adel]
      rw [this, h1]
    split <;> split <;>
      first
      | (rw [keysOf_gcImpl]; exact key _ (keysOf_invalidateTrackable _ _))
      | (rw [keysOf_gcImpl]; exact key _ rfl)
      | exact key _ (keysOf_invalidateTrackable _ _)
      | exact key _ rfl

/-! ### the phases -/

theorem tdSeq_append (f : Nat) (P : Prog) (s : Option St) (a b : List Op) :
    tdSeq f P s (a ++ b) = tdSeq f P (tdSeq f P s a) b := by
  simp [tdSeq, List.foldl_append]

/-- the invariants carried through the teardown -/
def TdInv (s : St) : Prop := WF s ∧ Bal (fun _ => 0) s ∧ Inc (fun _ => 0) s

theorem TdInv.execOp {f : Nat} {P : Prog} {s : St} {op : Op} {r : St × Except Unit String} (h : TdInv s)
    (hr : Model.execOp f P s op = some r) : TdInv r.1 := by
  have hb := execOp_preserved WBal.stable (k := fun _ => 0) ⟨h.1, h.2.1⟩ hr
  exact ⟨hb.1, hb.2, Inc.execOp h.2.2 hr⟩

theorem TdInv.forceDelG {s : St} (g : Nat) (h : TdInv s) : TdInv (forceDelG s g) :=
  ⟨WF_forceDelG s g h.1, Bal_forceDelG _ s g h.2.1, Inc_forceDelG _ s g h.2.2⟩

/-- one phase: a sequence of operations `mk k`, each of which changes the names by `upd k` -/
theorem tdSeq_phase (f : Nat) (P : Prog) (mk : Nat → Op) (upd : Nat → Keys → Keys)
    (hk : ∀ s k r, TdInv s → execOp f P s (mk k) = some r → keysOf r.1 = upd k (keysOf s)) :
    ∀ (ks : List Nat) (s s' : St), TdInv s → tdSeq f P (some s) (ks.map mk) = some s' →
      TdInv s' ∧ keysOf s' = ks.foldl (fun a k => upd k a) (keysOf s) := by
  intro ks
  induction ks with
  | nil => intro s s' hs h; simp only [List.map_nil, tdSeq, List.foldl_nil, Option.some.injEq] at h; subst h; exact ⟨hs, rfl⟩
  | cons k ks ih =>
    intro s s' hs h
    rw [List.map_cons, tdSeq_cons] at h
    cases hq : tdQuiet f P s (mk k) with
    | none => rw [hq, tdSeq_none] at h; cases h
    | some s1 =>
      rw [hq] at h
      simp only [tdQuiet] at hq
      split at hq
      · cases hq
      · rename_i r heq
        simp only [Option.some.injEq] at hq; subst hq
        have h1 := hs.execOp heq
        obtain ⟨h2, h3⟩ := ih _ _ h1 h
        refine ⟨h2, ?_⟩
        rw [h3, hk s k _ hs heq]
        rfl

theorem mem_foldl_filter {ks : List Nat} : ∀ {l : List Nat} {x : Nat},
    x ∈ ks.foldl (fun l k => l.filter (fun y => y ≠ k)) l → x ∈ l ∧ x ∉ ks := by
  induction ks with
  | nil => intro l x h; exact ⟨h, by simp⟩
  | cons k ks ih =>
    intro l x h
    simp only [List.foldl_cons] at h
    obtain ⟨h1, h2⟩ := ih h
    simp only [List.mem_filter, ne_eq, decide_not, Bool.not_eq_eq_eq_not, Bool.not_true,
      decide_eq_false_iff_not] at h1
    exact ⟨h1.1, by simp only [List.mem_cons, not_or]; exact ⟨h1.2, h2⟩⟩

theorem foldl_filter_nil {ks l : List Nat} (h : ∀ x ∈ l, x ∈ ks) :
    ks.foldl (fun l k => l.filter (fun y => y ≠ k)) l = [] := by
  cases hl : ks.foldl (fun l k => l.filter (fun y => y ≠ k)) l with
  | nil => rfl
  | cons a t =>
    have : a ∈ ks.foldl (fun l k => l.filter (fun y => y ≠ k)) l := by rw [hl]; exact List.mem_cons_self
    obtain ⟨h1, h2⟩ := mem_foldl_filter this
    exact absurd (h a h1) h2

theorem foldl_K (ks : List Nat) : ∀ a : Keys,
    ks.foldl (fun a k => { a with K := a.K.filter (fun x => x ≠ k) }) a =
      { a with K := ks.foldl (fun l k => l.filter (fun y => y ≠ k)) a.K } := by
  induction ks with
  | nil => intro a; rfl
  | cons k ks ih => intro a; simp only [List.foldl_cons]; rw [ih]
theorem foldl_C (ks : List Nat) : ∀ a : Keys,
    ks.foldl (fun a k => { a with C := a.C.filter (fun x => x ≠ k) }) a =
      { a with C := ks.foldl (fun l k => l.filter (fun y => y ≠ k)) a.C } := by
  induction ks with
  | nil => intro a; rfl
  | cons k ks ih => intro a; simp only [List.foldl_cons]; rw [ih]
theorem foldl_S (ks : List Nat) : ∀ a : Keys,
    ks.foldl (fun a k => { a with S := a.S.filter (fun x => x ≠ k) }) a =
      { a with S := ks.foldl (fun l k => l.filter (fun y => y ≠ k)) a.S } := by
  induction ks with
  | nil => intro a; rfl
  | cons k ks ih => intro a; simp only [List.foldl_cons]; rw [ih]
theorem foldl_G (ks : List Nat) : ∀ a : Keys,
    ks.foldl (fun a k => { a with G := a.G.filter (fun x => x ≠ k) }) a =
      { a with G := ks.foldl (fun l k => l.filter (fun y => y ≠ k)) a.G } := by
  induction ks with
  | nil => intro a; rfl
  | cons k ks ih => intro a; simp only [List.foldl_cons]; rw [ih]
theorem foldl_T (ks : List Nat) : ∀ a : Keys,
    ks.foldl (fun a k => { a with T := a.T.filter (fun x => x ≠ k) }) a =
      { a with T := ks.foldl (fun l k => l.filter (fun y => y ≠ k)) a.T } := by
  induction ks with
  | nil => intro a; rfl
  | cons k ks ih => intro a; simp only [List.foldl_cons]; rw [ih]
theorem foldl_id (ks : List Nat) (a : Keys) : ks.foldl (fun a _ => a) a = a := by
  induction ks with
  | nil => rfl
  | cons k ks ih => simpa using ih

theorem mem_sortedKeys {α : Type} (l : List (Nat × α)) (x : Nat) : x ∈ sortedKeys l ↔ x ∈ l.map (·.1) := by
  simp only [sortedKeys]; exact List.mem_mergeSort

theorem foldl_forceDelG_td (gs : List Nat) : ∀ s : St, TdInv s →
    TdInv (gs.foldl forceDelG s) ∧
    keysOf (gs.foldl forceDelG s) = gs.foldl (fun a k => { a with G := a.G.filter (fun x => x ≠ k) }) (keysOf s) := by
  induction gs with
  | nil => intro s h; exact ⟨h, rfl⟩
  | cons g gs ih =>
    intro s h
    simp only [List.foldl_cons]
    obtain ⟨h1, h2⟩ := ih _ (h.forceDelG g)
    exact ⟨h1, by rw [h2, forceDelG_keys]⟩

/-- **after the teardown of a quiescent state every name map and the impl list are empty** -/
theorem teardown_empty (f : Nat) (P : Prog) (s s' : St) (hs : TdInv s) (h : teardown f P s = some s') :
    TdInv s' ∧ s'.K = [] ∧ s'.C = [] ∧ s'.S = [] ∧ s'.G = [] ∧ s'.T = [] ∧ s'.impls = [] := by
  rw [teardown_eq] at h
  split at h
  · cases h
  rename_i s1 h1
  obtain ⟨i1, k1⟩ := tdSeq_phase f P Op.delK (fun k a => { a with K := a.K.filter (fun x => x ≠ k) })
    (fun s k r _ hr => delK_keys hr) _ s s1 hs h1
  rw [foldl_K] at k1
  have eK1 : (keysOf s1).K = [] := by
    rw [k1]; exact foldl_filter_nil (fun x hx => (mem_sortedKeys _ _).2 hx)
  split at h
  · cases h
  rename_i s2 h2
  rw [tdSeq_append, tdSeq_append] at h2
  -- delC
  cases ha : tdSeq f P (some s1) ((sortedKeys s1.C).map Op.delC) with
  | none => rw [ha, tdSeq_none, tdSeq_none] at h2; cases h2
  | some s1a =>
  rw [ha] at h2
  obtain ⟨ia, ka⟩ := tdSeq_phase f P Op.delC (fun k a => { a with C := a.C.filter (fun x => x ≠ k) })
    (fun s k r _ hr => delC_keys hr) _ s1 s1a i1 ha
  rw [foldl_C] at ka
  -- delS
  cases hb : tdSeq f P (some s1a) ((sortedKeys s1.S).map Op.delS) with
  | none => rw [hb, tdSeq_none] at h2; cases h2
  | some s1b =>
  rw [hb] at h2
  obtain ⟨ib, kb⟩ := tdSeq_phase f P Op.delS (fun k a => { a with S := a.S.filter (fun x => x ≠ k) })
    (fun s k r hi hr => delS_keys hi.2.2 hr) _ s1a s1b ia hb
  rw [foldl_S] at kb
  -- clear
  obtain ⟨i2, k2⟩ := tdSeq_phase f P Op.clear (fun _ a => a)
    (fun s k r _ hr => clear_keys hr) _ s1b s2 ib h2
  rw [foldl_id] at k2
  -- signals
  simp only [] at h
  obtain ⟨i3, k3⟩ := foldl_forceDelG_td (sortedKeys s2.G) s2 i2
  rw [foldl_G] at k3
  -- trackables
  obtain ⟨i4, k4⟩ := tdSeq_phase f P Op.delT (fun k a => { a with T := a.T.filter (fun x => x ≠ k) })
    (fun s k r _ hr => delT_keys hr) _ _ s' i3 h
  rw [foldl_T] at k4
  -- collect the names
  have eC : (keysOf s1a).C = [] := by
    rw [ka]; exact foldl_filter_nil (fun x hx => (mem_sortedKeys _ _).2 hx)
  have eS : (keysOf s1b).S = [] := by
    rw [kb]
    refine foldl_filter_nil (fun x hx => (mem_sortedKeys _ _).2 ?_)
    rw [ka] at hx; exact hx
  have eG : (keysOf ((sortedKeys s2.G).foldl forceDelG s2)).G = [] := by
    rw [k3]; exact foldl_filter_nil (fun x hx => (mem_sortedKeys _ _).2 hx)
  have eT : (keysOf s').T = [] := by
    rw [k4]; exact foldl_filter_nil (fun x hx => (mem_sortedKeys _ _).2 hx)
  have hK : (keysOf s').K = [] := by rw [k4, k3, k2, kb, ka]; exact eK1
  have hC : (keysOf s').C = [] := by rw [k4, k3, k2, kb]; exact eC
  have hS : (keysOf s').S = [] := by rw [k4, k3, k2]; exact eS
  have hG : (keysOf s').G = [] := by rw [k4]; exact eG
  have fK : s'.K = [] := List.map_eq_nil_iff.1 hK
  have fC : s'.C = [] := List.map_eq_nil_iff.1 hC
  have fS : s'.S = [] := List.map_eq_nil_iff.1 hS
  have fG : s'.G = [] := List.map_eq_nil_iff.1 hG
  have fT : s'.T = [] := List.map_eq_nil_iff.1 eT
  refine ⟨i4, fK, fC, fS, fG, fT, ?_⟩
  -- no handle ⇒ no impl
  cases hi : s'.impls with
  | nil => rfl
  | cons p t =>
    exfalso
    obtain ⟨i, im⟩ := p
    have hget : aget s'.impls i = some im := by rw [hi]; simp [aget]
    rcases (i4.2.1.2.1 i im hget).2 with e | e | ⟨g, hd, hg, _⟩
    · cases e
    · exact Nat.lt_irrefl 0 e
    · rw [fG] at hg; simp [aget] at hg

end Sigc.Inv
