import Sigc.Lemmas.RefineDefs
/-!
# Refine work package — basic lemmas: dangling pointers stay dangling (`Gone` is monotone), lookups of
cells on both sides, uniqueness of ids on the specification side.
-/
namespace Sigc.Refine
open Sigc.Model

/-! ## ids of the specification's lists -/

def HasId (sigs : List (Nat × Spec.LSig)) (cid : Nat) : Prop := ∃ p ∈ sigs, ∃ c ∈ p.2.cells, c.id = cid

theorem gone_iff {sigs : List (Nat × Spec.LSig)} {n cid : Nat} : Gone sigs n cid ↔ cid < n ∧ ¬ HasId sigs cid := by
  unfold Gone HasId
  constructor
  · rintro ⟨h1, h2⟩
    exact ⟨h1, fun ⟨p, hp, c, hc, e⟩ => h2 p hp c hc e⟩
  · rintro ⟨h1, h2⟩
    exact ⟨h1, fun p hp c hc e => h2 ⟨p, hp, c, hc, e⟩⟩

/-- every old id present afterwards was present before -/
def SigsLe (sigs : List (Nat × Spec.LSig)) (n : Nat) (sigs' : List (Nat × Spec.LSig)) : Prop :=
  ∀ cid, cid < n → HasId sigs' cid → HasId sigs cid

theorem SigsLe.refl (sigs : List (Nat × Spec.LSig)) (n : Nat) : SigsLe sigs n sigs := fun _ _ h => h

theorem SigsLe.trans {a b c : List (Nat × Spec.LSig)} {n n' : Nat} (hn : n ≤ n') (h1 : SigsLe a n b) (h2 : SigsLe b n' c) :
    SigsLe a n c := fun cid hc h => h1 cid hc (h2 cid (by omega) h)

theorem Gone.mono {sigs sigs' : List (Nat × Spec.LSig)} {n n' cid : Nat} (hn : n ≤ n') (hle : SigsLe sigs n sigs')
    (h : Gone sigs n cid) : Gone sigs' n' cid := by
  rw [gone_iff] at h ⊢
  exact ⟨by omega, fun hh => h.2 (hle cid h.1 hh)⟩

theorem PtrR.mono {sigs sigs' : List (Nat × Spec.LSig)} {n n' : Nat} (hn : n ≤ n') (hle : SigsLe sigs n sigs')
    {a b : Option Nat} (h : PtrR sigs n a b) : PtrR sigs' n' a b := by
  rcases h with h | ⟨h1, cid, h2, h3⟩
  · exact Or.inl h
  · exact Or.inr ⟨h1, cid, h2, h3.mono hn hle⟩

theorem PtrR.rfl' {sigs : List (Nat × Spec.LSig)} {n : Nat} (a : Option Nat) : PtrR sigs n a a := Or.inl rfl

theorem ptrs_mono {sigs sigs' : List (Nat × Spec.LSig)} {n n' : Nat} (hn : n ≤ n') (hle : SigsLe sigs n sigs')
    {l m : List (Nat × Option Nat)} (h : AR (PtrR sigs n) l m) : AR (PtrR sigs' n') l m :=
  h.imp (fun _ _ _ _ _ hr => hr.mono hn hle)

/-- pointers stay related when only `next` grows -/
theorem ptrs_next {sigs : List (Nat × Spec.LSig)} {n n' : Nat} (hn : n ≤ n') {l m : List (Nat × Option Nat)}
    (h : AR (PtrR sigs n) l m) : AR (PtrR sigs n') l m := ptrs_mono hn (SigsLe.refl _ _) h

/-- the ids of a list after an update are among the old ones -/
theorem SigsLe.aset_sub {sigs : List (Nat × Spec.LSig)} {n i : Nat} {g g' : Spec.LSig} (hi : aget sigs i = some g)
    (hsub : ∀ c' ∈ g'.cells, c'.id < n → ∃ c ∈ g.cells, c.id = c'.id) : SigsLe sigs n (aset sigs i g') := by
  intro cid hc ⟨p, hp, c, hcm, e⟩
  rcases Emit.mem_aset hp with hp | hp
  · exact ⟨p, hp, c, hcm, e⟩
  · subst hp
    obtain ⟨c0, hc0, e0⟩ := hsub c hcm (by rw [e]; exact hc)
    exact ⟨(i, g), Emit.aget_some_mem hi, c0, hc0, by rw [e0, e]⟩

theorem SigsLe.aset_new {sigs : List (Nat × Spec.LSig)} {n i : Nat} {g' : Spec.LSig}
    (hsub : ∀ c' ∈ g'.cells, ¬ c'.id < n) : SigsLe sigs n (aset sigs i g') := by
  intro cid hc ⟨p, hp, c, hcm, e⟩
  rcases Emit.mem_aset hp with hp | hp
  · exact ⟨p, hp, c, hcm, e⟩
  · subst hp
    exact absurd (by rw [e]; exact hc) (hsub c hcm)

theorem SigsLe.adel (sigs : List (Nat × Spec.LSig)) (n i : Nat) : SigsLe sigs n (adel sigs i) := by
  intro cid _ ⟨p, hp, c, hcm, e⟩
  exact ⟨p, (Emit.mem_adel hp).1, c, hcm, e⟩

theorem SigsLe.amap {sigs : List (Nat × Spec.LSig)} {n : Nat} (f : Spec.LSig → Spec.LSig)
    (hsub : ∀ g, ∀ c' ∈ (f g).cells, ∃ c ∈ g.cells, c.id = c'.id) : SigsLe sigs n (amap sigs f) := by
  intro cid _ ⟨p, hp, c, hcm, e⟩
  unfold Model.amap at hp
  obtain ⟨q, hq, rfl⟩ := List.mem_map.mp hp
  obtain ⟨c0, hc0, e0⟩ := hsub q.2 c hcm
  exact ⟨q, hq, c0, hc0, by rw [e0, e]⟩

/-! ## consequences of `R` + `Inv` on the specification side -/

theorem SigR.ids {im : Impl} {g : Spec.LSig} (h : SigR im g) : g.cells.map (·.id) = Emit.cids im := by
  unfold Emit.cids
  exact (F2.map_eq h.cells (·.id) (·.id) (fun _ _ _ _ hr => hr.id.symm)).symm

theorem R.keys {s : St} {t : Spec.LSt} (h : R s t) : t.sigs.map (·.1) = s.impls.map (·.1) := h.sigs.keys.symm

theorem R.sig_of_impl {s : St} {t : Spec.LSt} (h : R s t) {i : Nat} {im : Impl} (hi : aget s.impls i = some im) :
    ∃ g, aget t.sigs i = some g ∧ SigR im g := h.sigs.get_some_left hi

theorem R.impl_of_sig {s : St} {t : Spec.LSt} (h : R s t) {i : Nat} {g : Spec.LSig} (hi : aget t.sigs i = some g) :
    ∃ im, aget s.impls i = some im ∧ SigR im g := h.sigs.get_some_right hi

theorem R.sig_none {s : St} {t : Spec.LSt} (h : R s t) {i : Nat} (hi : aget s.impls i = none) : aget t.sigs i = none :=
  h.sigs.get_none_left hi

theorem R.keys_nodup {s : St} {t : Spec.LSt} (hs : Emit.Inv s) (h : R s t) : (t.sigs.map (·.1)).Nodup := by
  rw [h.keys]; exact hs.keys

theorem R.mem_sig {s : St} {t : Spec.LSt} (hs : Emit.Inv s) (h : R s t) {p : Nat × Spec.LSig} (hp : p ∈ t.sigs) :
    aget t.sigs p.1 = some p.2 := Emit.aget_of_mem_nodup (h.keys_nodup hs) hp

/-- an id of the specification's lists is below `next` -/
theorem R.hasId_lt {s : St} {t : Spec.LSt} (hs : Emit.Inv s) (h : R s t) {cid : Nat} (hc : HasId t.sigs cid) :
    cid < t.next := by
  obtain ⟨p, hp, c, hcm, e⟩ := hc
  obtain ⟨im, hi, hr⟩ := h.impl_of_sig (h.mem_sig hs hp)
  have : cid ∈ Emit.cids im := by rw [← hr.ids, ← e]; exact List.mem_map.mpr ⟨c, hcm, rfl⟩
  rw [h.next]
  exact (hs.lt _ im hi).2 cid this

/-! ## finding cells in the specification -/

theorem findSig_some {sigs : List (Nat × Spec.LSig)} {cid i : Nat} (h : Spec.findSig sigs cid = some i) :
    ∃ g, (i, g) ∈ sigs ∧ ∃ c ∈ g.cells, c.id = cid ∧ c.zombie = false := by
  induction sigs with
  | nil => simp [Spec.findSig] at h
  | cons p t ih =>
    obtain ⟨j, g⟩ := p
    simp only [Spec.findSig] at h
    split at h
    · rename_i hany
      cases h
      rw [List.any_eq_true] at hany
      obtain ⟨c, hc, hp⟩ := hany
      simp at hp
      exact ⟨g, by simp, c, hc, hp.1, hp.2⟩
    · obtain ⟨g', hg', hc⟩ := ih h
      exact ⟨g', List.mem_cons_of_mem _ hg', hc⟩

theorem findSig_none {sigs : List (Nat × Spec.LSig)} {cid : Nat} (h : Spec.findSig sigs cid = none) :
    ∀ p ∈ sigs, ∀ c ∈ p.2.cells, c.id = cid → c.zombie = true := by
  induction sigs with
  | nil => intro p hp; simp at hp
  | cons q t ih =>
    obtain ⟨j, g⟩ := q
    simp only [Spec.findSig] at h
    split at h
    · contradiction
    · rename_i hany
      intro p hp c hc e
      rcases List.mem_cons.mp hp with e' | e'
      · subst e'
        cases hz : c.zombie with
        | true => rfl
        | false =>
          exfalso; apply hany
          rw [List.any_eq_true]
          exact ⟨c, hc, by simp [e, hz]⟩
      · exact ih h p e' c hc e

theorem findSig_isSome_of {sigs : List (Nat × Spec.LSig)} {cid : Nat} {p : Nat × Spec.LSig} (hp : p ∈ sigs)
    {c : Spec.LCell} (hc : c ∈ p.2.cells) (e : c.id = cid) (hz : c.zombie = false) :
    ∃ i, Spec.findSig sigs cid = some i := by
  cases h : Spec.findSig sigs cid with
  | some i => exact ⟨i, rfl⟩
  | none => have := findSig_none h p hp c hc e; rw [hz] at this; contradiction

theorem uniq_of_nodup {l : List Spec.LCell} (hnd : (l.map (·.id)).Nodup) {a b : Spec.LCell} (ha : a ∈ l) (hb : b ∈ l)
    (e : a.id = b.id) : a = b := by
  induction l with
  | nil => simp at ha
  | cons x xs ih =>
    simp only [List.map_cons, List.nodup_cons] at hnd
    rcases List.mem_cons.mp ha with e1 | e1 <;> rcases List.mem_cons.mp hb with e3 | e3
    · rw [e1, e3]
    · exfalso; apply hnd.1; rw [← e1, e]; exact List.mem_map.mpr ⟨b, e3, rfl⟩
    · exfalso; apply hnd.1; rw [← e3, ← e]; exact List.mem_map.mpr ⟨a, e1, rfl⟩
    · exact ih hnd.2 e1 e3

/-- what looking up the id of a model cell gives on both sides -/
theorem lookup {s : St} {t : Spec.LSt} (hs : Emit.Inv s) (h : R s t) (cid : Nat) :
    (Model.getCell s cid = none ∧ Spec.findSig t.sigs cid = none ∧ ¬ HasId t.sigs cid) ∨
    (∃ i c im g d, Model.getCell s cid = some (i, c) ∧ aget s.impls i = some im ∧ aget t.sigs i = some g ∧
      SigR im g ∧ c ∈ im.cells ∧ c.id = cid ∧ d ∈ g.cells ∧ CellR c d ∧
      (∀ p ∈ t.sigs, ∀ c' ∈ p.2.cells, c'.id = cid → p = (i, g) ∧ c' = d) ∧
      (d.zombie = false → Spec.findSig t.sigs cid = some i ∧
        g.cells.find? (fun c => c.id = cid && !c.zombie) = some d) ∧
      (d.zombie = true → Spec.findSig t.sigs cid = none)) := by
  cases hg : Model.getCell s cid with
  | none =>
    left
    have hno : ¬ HasId t.sigs cid := by
      rintro ⟨p, hp, c, hc, e⟩
      obtain ⟨im, hi, hr⟩ := h.impl_of_sig (h.mem_sig hs hp)
      have : cid ∈ Emit.cids im := by rw [← hr.ids, ← e]; exact List.mem_map.mpr ⟨c, hc, rfl⟩
      obtain ⟨c0, hc0⟩ := Emit.getCell_of_mem hs hi this
      rw [hg] at hc0; contradiction
    refine ⟨rfl, ?_, hno⟩
    cases hf : Spec.findSig t.sigs cid with
    | none => rfl
    | some i =>
      obtain ⟨g, hgm, c, hc, e, _⟩ := findSig_some hf
      exact absurd ⟨(i, g), hgm, c, hc, e⟩ hno
  | some pr =>
    right
    obtain ⟨i, c⟩ := pr
    obtain ⟨im, hi, hfind⟩ := Emit.getCell_some hg
    obtain ⟨hcm, hcid⟩ := Emit.find_mem hfind
    obtain ⟨g, hgi, hr⟩ := h.sig_of_impl hi
    obtain ⟨d, hd, hcd⟩ := hr.cells.mem_left hcm
    have hnd : (g.cells.map (·.id)).Nodup := by rw [hr.ids]; exact (hs.ok i im hi).nodup
    have huniq : ∀ d' ∈ g.cells, d'.id = cid → d' = d := by
      intro d' hd' e'
      have e2 : d.id = cid := by rw [hcd.id, hcid]
      exact uniq_of_nodup hnd hd' hd (by rw [e', e2])
    have hother : ∀ p ∈ t.sigs, ∀ c' ∈ p.2.cells, c'.id = cid → p = (i, g) ∧ c' = d := by
      intro p hp c' hc' e'
      have hpi := h.mem_sig hs hp
      obtain ⟨jm, hj, hjr⟩ := h.impl_of_sig hpi
      have hin : cid ∈ Emit.cids jm := by rw [← hjr.ids, ← e']; exact List.mem_map.mpr ⟨c', hc', rfl⟩
      have hin2 : cid ∈ Emit.cids im := List.mem_map.mpr ⟨c, hcm, hcid⟩
      have hij : p.1 = i := by
        by_cases e : p.1 = i
        · exact e
        · exact absurd hin2 (hs.disj p.1 i jm im hj hi e cid hin)
      have : p = (i, g) := by
        obtain ⟨a, b⟩ := p
        simp only at hij hpi; subst hij
        rw [hgi] at hpi; cases hpi; rfl
      subst this
      exact ⟨rfl, huniq c' hc' e'⟩
    refine ⟨i, c, im, g, d, rfl, hi, hgi, hr, hcm, hcid, hd, hcd, hother, ?_, ?_⟩
    · intro hz
      obtain ⟨j, hj⟩ := findSig_isSome_of (Emit.aget_some_mem hgi) hd (by rw [hcd.id, hcid]) hz
      obtain ⟨g', hg', c', hc', e', _⟩ := findSig_some hj
      have := (hother (j, g') hg' c' hc' e').1
      cases this
      refine ⟨hj, ?_⟩
      cases hf : g.cells.find? (fun c => c.id = cid && !c.zombie) with
      | none =>
        rw [List.find?_eq_none] at hf
        exact absurd (by simp [hcd.id, hcid, hz]) (hf d hd)
      | some d' =>
        have hm := List.mem_of_find?_eq_some hf
        have hp := List.find?_some hf
        simp at hp
        rw [huniq d' hm hp.1]
    · intro hz
      cases hf : Spec.findSig t.sigs cid with
      | none => rfl
      | some j =>
        obtain ⟨g', hg', c', hc', e', hz'⟩ := findSig_some hf
        have := (hother (j, g') hg' c' hc' e').2
        rw [this, hz] at hz'; contradiction

end Sigc.Refine
