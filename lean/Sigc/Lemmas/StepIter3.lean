import Sigc.Model
import Sigc.Lemmas.Basic
import Sigc.Lemmas.StepIter
import Sigc.Lemmas.StepIter2
/-!
# StepIter3 — every function of the interpreter only *extends* the call log and restores the depth

`Ext s s'`: `s'.depth = s.depth` and `s'.trace = new ++ s.trace` where every event of `new` was logged
at depth `≥ s.depth`.  Proved for all eleven functions of the mutual block by induction on fuel
(`allExt`).
-/
namespace Sigc.StepIter
open Sigc.Model

def evDepth : Event → Nat
  | .call d _ _ => d
  | .res d _ _ => d

/-- `s'` extends `s`: same depth; the log grew by events logged at depth `≥ s.depth` -/
def Ext (s s' : St) : Prop :=
  s'.depth = s.depth ∧ ∃ new, s'.trace = new ++ s.trace ∧ ∀ e ∈ new, s.depth ≤ evDepth e

theorem Ext.refl (s : St) : Ext s s := ⟨rfl, [], rfl, by simp⟩

theorem Ext.trans {s1 s2 s3 : St} (h12 : Ext s1 s2) (h23 : Ext s2 s3) : Ext s1 s3 := by
  obtain ⟨d12, n12, t12, a12⟩ := h12
  obtain ⟨d23, n23, t23, a23⟩ := h23
  refine ⟨d23.trans d12, n23 ++ n12, by rw [t23, t12, List.append_assoc], ?_⟩
  intro e he
  rcases List.mem_append.1 he with he | he
  · have := a23 e he; omega
  · exact a12 e he

theorem Ext.of_td {s s' : St} (ht : s'.trace = s.trace) (hd : s'.depth = s.depth) : Ext s s' :=
  ⟨hd, [], by simp [ht], by simp⟩

theorem Ext.of_eq_or_fail {s s' : St} (h : s' = s ∨ ∃ msg, s' = s.fail msg) : Ext s s' := by
  rcases h with rfl | ⟨msg, rfl⟩
  · exact Ext.refl _
  · exact Ext.of_td (by simp) (by simp)

theorem Ext.fail (s : St) (msg : String) : Ext s (s.fail msg) := Ext.of_td (by simp) (by simp)

theorem Ext.log (s : St) (e : Event) (h : s.depth ≤ evDepth e) : Ext s (s.log e) :=
  ⟨rfl, [e], rfl, by simpa using h⟩

/-- pre-composition with a step that leaves trace and depth alone -/
theorem Ext.td_left {s s0 s' : St} (ht : s0.trace = s.trace) (hd : s0.depth = s.depth) (h : Ext s0 s') : Ext s s' :=
  (Ext.of_td ht hd).trans h

theorem Ext.td_right {s s1 s' : St} (h : Ext s s1) (ht : s'.trace = s1.trace) (hd : s'.depth = s1.depth) : Ext s s' :=
  h.trans (Ext.of_td ht hd)

/-! ## prologue / epilogue of `emitImpl` -/

theorem emitPrologue_td (s : St) (i : Nat) (im : Impl) :
    (emitPrologue s i im).trace = s.trace ∧ (emitPrologue s i im).depth = s.depth := ⟨rfl, rfl⟩

theorem emitEpilogue_td (s : St) (i m : Nat) (o : Outcome) (v : Nat) :
    (emitEpilogue s i m o v).1.trace = s.trace ∧ (emitEpilogue s i m o v).1.depth = s.depth := by
  unfold emitEpilogue
  split
  · simp
  · simp only
    split <;> split <;> simp

/-! ## `emitLoop` in terms of `callableAt` -/

/-- one turn: the slot of cell `cur` is invoked iff it is callable at that moment -/
def emitStep (f : Nat) (P : Prog) (s : St) (i cur arg r : Nat) : Option (St × Outcome × Nat) :=
  match callableAt s i cur with
  | none => some (s, .ok, r)
  | some fn => invokeFun f P s fn arg

theorem emitLoop_unfold (f : Nat) (P : Prog) (s : St) (i cur m arg r : Nat) :
    emitLoop (f+1) P s i cur m arg r =
      (if cur = m then some (s, .ok, r) else
       match aget s.impls i with
       | none => some (s.fail "loop: impl destroyed", .ok, r)
       | some im =>
         match im.cells.find? (·.id = cur) with
         | none => some (s.fail "loop: iterator invalidated", .ok, r)
         | some _ =>
           match emitStep f P s i cur arg r with
           | none => none
           | some (s, .exc, v) => some (s, .exc, v)
           | some (s, .ok, v) =>
             match aget s.impls i with
             | none => some (s.fail "loop: impl destroyed", .ok, v)
             | some im2 =>
               match succId im2.cells cur with
               | none => some (s.fail "loop: iterator invalidated", .ok, v)
               | some nxt => emitLoop f P s i nxt m arg v) := by
  rw [emitLoop]
  by_cases hcm : cur = m
  · simp [hcm]
  · simp only [hcm, if_false]
    cases hi : aget s.impls i with
    | none => rfl
    | some im =>
      cases hc : im.cells.find? (·.id = cur) with
      | none => simp [hc]
      | some c =>
        simp only [emitStep, callableAt, hi, hc]
        cases hrep : c.slot.rep with
        | none => rfl
        | some rp =>
          obtain ⟨call, fn⟩ := rp
          cases call <;> cases fn <;> cases hb : c.slot.blocked <;> (try simp) <;> (try rfl)

/-! ## the mutual induction -/

structure AllExt (f : Nat) : Prop where
  invoke : ∀ P s fn arg s' o v, invokeFun f P s fn arg = some (s', o, v) → Ext s s'
  body : ∀ P s ls s' o, runBody f P s ls = some (s', o) → Ext s s'
  line : ∀ P s l s' o, execLine f P s l = some (s', o) → Ext s s'
  emit : ∀ P s fl impl arg strat s' o v, emitImpl f P s fl impl arg strat = some (s', o, v) → Ext s s'
  loop : ∀ P s i cur m arg r s' o v, emitLoop f P s i cur m arg r = some (s', o, v) → Ext s s'
  deref : ∀ P s i it arg s' o it', deref f P s i it arg = some (s', o, it') → Ext s s'
  acc : ∀ P s i it m arg mode k r s' o v, accLoop f P s i it m arg mode k r = some (s', o, v) → Ext s s'
  rev : ∀ P s i it first arg r s' o v, revLoop f P s i it first arg r = some (s', o, v) → Ext s s'
  walk : ∀ P s i it first m arg ops r s' o v, walkLoop f P s i it first m arg ops r = some (s', o, v) → Ext s s'
  strat : ∀ P s i first m arg st s' o v, runStrat f P s i first m arg st = some (s', o, v) → Ext s s'
  op : ∀ P s op s' r, execOp f P s op = some (s', r) → Ext s s'

theorem allExt_zero : AllExt 0 := by
  constructor <;> intros <;> rename_i h
  · simp [invokeFun] at h
  · simp [runBody] at h
  · simp [execLine] at h
  · simp [emitImpl] at h
  · simp [emitLoop] at h
  · simp [Model.deref] at h
  · simp [accLoop] at h
  · simp [revLoop] at h
  · simp [walkLoop] at h
  · simp [runStrat] at h
  · simp [execOp] at h

theorem invoke_step (f : Nat) (ih : AllExt f) (P : Prog) (s : St) (fn : Fun) (arg : Nat) (s' : St) (o : Outcome) (v : Nat)
    (h : invokeFun (f+1) P s fn arg = some (s', o, v)) : Ext s s' := by
  cases hu : userFid fn with
  | some fid =>
    rw [invokeFun_user f P s fn fid arg hu] at h
    split at h
    · simp at h; obtain ⟨rfl, _, _⟩ := h
      exact Ext.log _ _ (Nat.le_refl _)
    · rename_i bodyl _
      split at h
      · simp at h
      · rename_i s2 o2 hb
        simp at h; obtain ⟨rfl, _, _⟩ := h
        obtain ⟨hd, new, ht, ha⟩ := ih.body _ _ _ _ _ hb
        simp only [St.log] at hd ht ha
        refine ⟨by simp [hd], new ++ [Event.call s.depth fid arg], by simp [ht], ?_⟩
        intro e he
        rcases List.mem_append.1 he with he | he
        · have := ha e he; omega
        · simp at he; subst he; exact Nat.le_refl _
  | none =>
    cases fn with
    | leaf fid ts => simp [userFid] at hu
    | owner fid a b => simp [userFid] at hu
    | nest blocked inner =>
      cases inner with
      | none =>
        rw [invokeFun] at h
        simp at h; obtain ⟨rfl, _, _⟩ := h; exact Ext.refl _
      | some g =>
        rw [invokeFun] at h
        split at h
        · simp at h; obtain ⟨rfl, _, _⟩ := h; exact Ext.refl _
        · exact ih.invoke _ _ _ _ _ _ _ h
    | fwd ob ts =>
      rw [invokeFun] at h
      split at h
      · simp at h; obtain ⟨rfl, _, _⟩ := h; exact Ext.fail _ _
      · exact ih.emit _ _ _ _ _ _ _ _ _ h

theorem body_step (f : Nat) (ih : AllExt f) (P : Prog) (s : St) (ls : List Line) (s' : St) (o : Outcome)
    (h : runBody (f+1) P s ls = some (s', o)) : Ext s s' := by
  cases ls with
  | nil => simp [runBody] at h; obtain ⟨rfl, _⟩ := h; exact Ext.refl _
  | cons l ls =>
    rw [runBody] at h
    split at h
    · simp at h
    · rename_i s1 hl
      simp at h; obtain ⟨rfl, _⟩ := h
      exact ih.line _ _ _ _ _ hl
    · rename_i s1 hl
      exact (ih.line _ _ _ _ _ hl).trans (ih.body _ _ _ _ _ h)

theorem line_step (f : Nat) (ih : AllExt f) (P : Prog) (s : St) (l : Line) (s' : St) (o : Outcome)
    (h : execLine (f+1) P s l = some (s', o)) : Ext s s' := by
  rw [execLine] at h
  split at h
  · simp at h
  · rename_i s1 _ ho
    simp at h; obtain ⟨rfl, _⟩ := h
    have e1 := ih.op _ _ _ _ _ ho
    refine Ext.td_left (s0 := { s with steps := s.steps + 1 }) rfl rfl
      ((e1.trans (Ext.log _ _ ?_)).td_right (collect_trace _) (collect_depth _))
    exact Nat.le_refl _
  · rename_i s1 r ho
    simp at h; obtain ⟨rfl, _⟩ := h
    have e1 := ih.op _ _ _ _ _ ho
    refine Ext.td_left (s0 := { s with steps := s.steps + 1 }) rfl rfl
      ((e1.trans (Ext.log _ _ ?_)).td_right (collect_trace _) (collect_depth _))
    exact Nat.le_refl _

theorem emit_step (f : Nat) (ih : AllExt f) (P : Prog) (s : St) (fl : Flavour) (impl : Option Nat) (arg : Nat) (strat : Strat)
    (s' : St) (o : Outcome) (v : Nat)
    (h : emitImpl (f+1) P s fl impl arg strat = some (s', o, v)) : Ext s s' := by
  cases impl with
  | none => rw [emitImpl_none] at h; simp at h; obtain ⟨rfl, _, _⟩ := h; exact Ext.refl _
  | some i =>
    cases hi : aget s.impls i with
    | none =>
      rw [emitImpl] at h; simp only [hi] at h
      simp at h; obtain ⟨rfl, _, _⟩ := h; exact Ext.fail _ _
    | some im =>
      cases hacc : fl.isAcc with
      | true =>
        rw [emitImpl_acc_unfold f P s fl i arg strat im hacc hi] at h
        split at h
        · simp at h
        · rename_i s2 o2 v2 hr
          simp at h
          have e := ih.strat _ _ _ _ _ _ _ _ _ _ hr
          have ep := emitEpilogue_td s2 i s.next o2 v2
          rw [h] at ep
          exact (Ext.td_left (emitPrologue_td s i im).1 (emitPrologue_td s i im).2 e).td_right ep.1 ep.2
      | false =>
        by_cases hne : im.cells = []
        · rw [emitImpl_plain_empty f P s fl i arg strat im hacc hi hne] at h
          simp at h; obtain ⟨rfl, _, _⟩ := h; exact Ext.refl _
        · rw [emitImpl_plain_unfold f P s fl i arg strat im hacc hi hne] at h
          split at h
          · simp at h
          · rename_i s2 o2 v2 hr
            simp at h
            have e := ih.loop _ _ _ _ _ _ _ _ _ _ hr
            have ep := emitEpilogue_td s2 i s.next o2 v2
            rw [h] at ep
            exact (Ext.td_left (emitPrologue_td s i im).1 (emitPrologue_td s i im).2 e).td_right ep.1 ep.2

theorem emitStep_ext (f : Nat) (ih : AllExt f) (P : Prog) (s : St) (i cur arg r : Nat) (s' : St) (o : Outcome) (v : Nat)
    (h : emitStep f P s i cur arg r = some (s', o, v)) : Ext s s' := by
  unfold emitStep at h
  split at h
  · simp at h; obtain ⟨rfl, _, _⟩ := h; exact Ext.refl _
  · exact ih.invoke _ _ _ _ _ _ _ h

theorem loop_step (f : Nat) (ih : AllExt f) (P : Prog) (s : St) (i cur m arg r : Nat) (s' : St) (o : Outcome) (v : Nat)
    (h : emitLoop (f+1) P s i cur m arg r = some (s', o, v)) : Ext s s' := by
  rw [emitLoop_unfold] at h
  split at h
  · simp at h; obtain ⟨rfl, _, _⟩ := h; exact Ext.refl _
  · split at h
    · simp at h; obtain ⟨rfl, _, _⟩ := h; exact Ext.fail _ _
    · split at h
      · simp at h; obtain ⟨rfl, _, _⟩ := h; exact Ext.fail _ _
      · split at h
        · simp at h
        · rename_i s1 v1 hs
          simp at h; obtain ⟨rfl, _, _⟩ := h
          exact emitStep_ext f ih _ _ _ _ _ _ _ _ _ hs
        · rename_i s1 v1 hs
          have e1 := emitStep_ext f ih _ _ _ _ _ _ _ _ _ hs
          split at h
          · simp at h; obtain ⟨rfl, _, _⟩ := h; exact e1.trans (Ext.fail _ _)
          · split at h
            · simp at h; obtain ⟨rfl, _, _⟩ := h; exact e1.trans (Ext.fail _ _)
            · exact e1.trans (ih.loop _ _ _ _ _ _ _ _ _ _ h)

theorem deref_step (f : Nat) (ih : AllExt f) (P : Prog) (s : St) (i : Nat) (it : IterBuf) (arg : Nat)
    (s' : St) (o : Outcome) (it' : IterBuf)
    (h : Model.deref (f+1) P s i it arg = some (s', o, it')) : Ext s s' := by
  rcases deref_result f P s s' i arg it it' o h with ⟨_, _, hs⟩ | ⟨fn, _, _, h2 | h2⟩
  · exact Ext.of_eq_or_fail hs
  · obtain ⟨v, hx, _, _⟩ := h2; exact ih.invoke _ _ _ _ _ _ _ hx
  · obtain ⟨v, hx, _, _⟩ := h2; exact ih.invoke _ _ _ _ _ _ _ hx

theorem accAdvance_ext (f : Nat) (ih : AllExt f) (P : Prog) (i m arg mode k : Nat) (s : St) (it : IterBuf) (r : Nat)
    (s' : St) (o : Outcome) (v : Nat)
    (h : accAdvance f P i m arg mode k s it r = some (s', o, v)) : Ext s s' := by
  unfold accAdvance at h
  split at h
  · simp at h; obtain ⟨rfl, _, _⟩ := h; exact Ext.fail _ _
  · split at h
    · simp at h; obtain ⟨rfl, _, _⟩ := h; exact Ext.fail _ _
    · exact ih.acc _ _ _ _ _ _ _ _ _ _ _ _ h

theorem acc_step (f : Nat) (ih : AllExt f) (P : Prog) (s : St) (i : Nat) (it : IterBuf) (m arg mode k r : Nat)
    (s' : St) (o : Outcome) (v : Nat)
    (h : accLoop (f+1) P s i it m arg mode k r = some (s', o, v)) : Ext s s' := by
  rw [accLoop_unfold] at h
  split at h
  · simp at h; obtain ⟨rfl, _, _⟩ := h; exact Ext.refl _
  · split at h
    · exact accAdvance_ext f ih _ _ _ _ _ _ _ _ _ _ _ _ h
    · split at h
      · simp at h
      · rename_i s1 _ hd
        simp at h; obtain ⟨rfl, _, _⟩ := h
        exact ih.deref _ _ _ _ _ _ _ _ hd
      · rename_i s1 it1 hd
        have e1 := ih.deref _ _ _ _ _ _ _ _ hd
        split at h
        · simp at h; obtain ⟨rfl, _, _⟩ := h; exact e1
        · split at h
          · split at h
            · simp at h
            · rename_i s2 _ hd2
              simp at h; obtain ⟨rfl, _, _⟩ := h
              exact e1.trans (ih.deref _ _ _ _ _ _ _ _ hd2)
            · rename_i s2 it2 hd2
              exact (e1.trans (ih.deref _ _ _ _ _ _ _ _ hd2)).trans (accAdvance_ext f ih _ _ _ _ _ _ _ _ _ _ _ _ h)
          · exact e1.trans (accAdvance_ext f ih _ _ _ _ _ _ _ _ _ _ _ _ h)

theorem rev_step (f : Nat) (ih : AllExt f) (P : Prog) (s : St) (i : Nat) (it : IterBuf) (first arg r : Nat)
    (s' : St) (o : Outcome) (v : Nat)
    (h : revLoop (f+1) P s i it first arg r = some (s', o, v)) : Ext s s' := by
  rw [revLoop] at h
  split at h
  · simp at h; obtain ⟨rfl, _, _⟩ := h; exact Ext.refl _
  · split at h
    · simp at h; obtain ⟨rfl, _, _⟩ := h; exact Ext.fail _ _
    · split at h
      · simp at h; obtain ⟨rfl, _, _⟩ := h; exact Ext.fail _ _
      · simp only at h
        split at h
        · simp at h
        · rename_i s1 _ hd
          simp at h; obtain ⟨rfl, _, _⟩ := h
          exact ih.deref _ _ _ _ _ _ _ _ hd
        · rename_i s1 it1 hd
          exact (ih.deref _ _ _ _ _ _ _ _ hd).trans (ih.rev _ _ _ _ _ _ _ _ _ _ h)

theorem walk_step (f : Nat) (ih : AllExt f) (P : Prog) (s : St) (i : Nat) (it : IterBuf) (first m arg : Nat)
    (ops : List Char) (r : Nat) (s' : St) (o : Outcome) (v : Nat)
    (h : walkLoop (f+1) P s i it first m arg ops r = some (s', o, v)) : Ext s s' := by
  cases ops with
  | nil => rw [walkLoop_nil] at h; simp at h; obtain ⟨rfl, _, _⟩ := h; exact Ext.refl _
  | cons c cs =>
    rw [walkLoop] at h
    split at h
    · -- d
      split at h
      · exact ih.walk _ _ _ _ _ _ _ _ _ _ _ _ h
      · split at h
        · simp at h
        · rename_i s1 _ hd
          simp at h; obtain ⟨rfl, _, _⟩ := h
          exact ih.deref _ _ _ _ _ _ _ _ hd
        · rename_i s1 it1 hd
          exact (ih.deref _ _ _ _ _ _ _ _ hd).trans (ih.walk _ _ _ _ _ _ _ _ _ _ _ _ h)
    · split at h
      · -- c
        split at h
        · exact ih.walk _ _ _ _ _ _ _ _ _ _ _ _ h
        · split at h
          · simp at h
          · rename_i s1 _ hd
            simp at h; obtain ⟨rfl, _, _⟩ := h
            exact ih.deref _ _ _ _ _ _ _ _ hd
          · rename_i s1 it1 hd
            exact (ih.deref _ _ _ _ _ _ _ _ hd).trans (ih.walk _ _ _ _ _ _ _ _ _ _ _ _ h)
      · split at h
        · -- i
          split at h
          · exact ih.walk _ _ _ _ _ _ _ _ _ _ _ _ h
          · split at h
            · simp at h; obtain ⟨rfl, _, _⟩ := h; exact Ext.fail _ _
            · split at h
              · simp at h; obtain ⟨rfl, _, _⟩ := h; exact Ext.fail _ _
              · exact ih.walk _ _ _ _ _ _ _ _ _ _ _ _ h
        · split at h
          · -- x
            split at h
            · exact ih.walk _ _ _ _ _ _ _ _ _ _ _ _ h
            · split at h
              · simp at h; obtain ⟨rfl, _, _⟩ := h; exact Ext.fail _ _
              · split at h
                · simp at h; obtain ⟨rfl, _, _⟩ := h; exact Ext.fail _ _
                · exact ih.walk _ _ _ _ _ _ _ _ _ _ _ _ h
          · exact ih.walk _ _ _ _ _ _ _ _ _ _ _ _ h

theorem strat_step (f : Nat) (ih : AllExt f) (P : Prog) (s : St) (i first m arg : Nat) (st : Strat)
    (s' : St) (o : Outcome) (v : Nat)
    (h : runStrat (f+1) P s i first m arg st = some (s', o, v)) : Ext s s' := by
  cases st <;> rw [runStrat] at h
  · exact ih.acc _ _ _ _ _ _ _ _ _ _ _ _ h
  · exact ih.acc _ _ _ _ _ _ _ _ _ _ _ _ h
  · exact ih.acc _ _ _ _ _ _ _ _ _ _ _ _ h
  · exact ih.rev _ _ _ _ _ _ _ _ _ _ h
  · exact ih.acc _ _ _ _ _ _ _ _ _ _ _ _ h
  · exact ih.acc _ _ _ _ _ _ _ _ _ _ _ _ h
  · exact ih.walk _ _ _ _ _ _ _ _ _ _ _ _ h

theorem execOp_other (f : Nat) (P : Prog) (s : St) (op : Op)
    (hc : ∀ i arg, op ≠ .callS i arg) (he : ∀ g a st t, op ≠ .emit g a st t) (ht : op ≠ .throw_) :
    execOp (f+1) P s op =
      (match modeRule P s op with
       | some r => some (s, .ok r)
       | none =>
         match stepSimple s op with
         | some (s, r) => some (s, .ok r)
         | none => some (s, .ok "badop")) := by
  rw [execOp]
  · rfl
  · exact hc
  · exact he
  · exact ht

theorem op_step (f : Nat) (ih : AllExt f) (P : Prog) (s : St) (op : Op) (s' : St) (r : Except Unit String)
    (h : execOp (f+1) P s op = some (s', r)) : Ext s s' := by
  by_cases hc : ∃ i arg, op = .callS i arg
  · obtain ⟨i, arg, rfl⟩ := hc
    rw [execOp] at h
    simp only at h
    split at h
    · simp at h; obtain ⟨rfl, _⟩ := h; exact Ext.refl _
    · rename_i v hv
      split at h
      · simp at h; obtain ⟨rfl, _⟩ := h; exact Ext.refl _
      · split at h
        · simp at h; obtain ⟨rfl, _⟩ := h; exact Ext.refl _
        · split at h
          · split at h
            · simp at h; obtain ⟨rfl, _⟩ := h; exact Ext.refl _
            · split at h
              · simp at h
              · rename_i s1 o1 r1 hx
                have e1 := ih.invoke _ _ _ _ _ _ _ hx
                have e2 : Ext s s1 := Ext.td_left (s0 := { s with S := aset s.S i { v with incall := v.incall + 1 } }) rfl rfl e1
                have e3 : ∀ s2, s2 = (match aget s1.S i with
                    | some v2 => { s1 with S := aset s1.S i { v2 with incall := v2.incall - 1 } }
                    | none => s1.fail "callS: slot variable destroyed during its own call") → Ext s s2 := by
                  intro s2 hs2
                  subst hs2
                  split
                  · exact e2.td_right rfl rfl
                  · exact e2.trans (Ext.fail _ _)
                split at h
                · simp at h; obtain ⟨rfl, _⟩ := h; exact e3 _ rfl
                · simp at h; obtain ⟨rfl, _⟩ := h; exact e3 _ rfl
          · simp at h; obtain ⟨rfl, _⟩ := h; exact Ext.refl _
  by_cases he : ∃ g a st t, op = .emit g a st t
  · obtain ⟨g, a, st, t, rfl⟩ := he
    rw [execOp] at h
    simp only at h
    split at h
    · simp at h; obtain ⟨rfl, _⟩ := h; exact Ext.refl _
    · split at h
      · simp at h; obtain ⟨rfl, _⟩ := h; exact Ext.refl _
      · split at h
        · simp at h; obtain ⟨rfl, _⟩ := h; exact Ext.refl _
        · split at h
          · simp at h
          · rename_i s1 _ he
            have e1 := ih.emit _ _ _ _ _ _ _ _ _ he
            split at h
            · simp at h; obtain ⟨rfl, _⟩ := h; exact e1
            · simp at h; obtain ⟨rfl, _⟩ := h; exact e1
          · rename_i s1 _ he
            simp at h; obtain ⟨rfl, _⟩ := h
            exact ih.emit _ _ _ _ _ _ _ _ _ he
  by_cases ht : op = .throw_
  · subst ht
    rw [execOp] at h
    simp at h; obtain ⟨rfl, _⟩ := h; exact Ext.refl _
  rw [execOp_other f P s op (fun i a e => hc ⟨i, a, e⟩) (fun g a st t e => he ⟨g, a, st, t, e⟩) ht] at h
  split at h
  · simp at h; obtain ⟨rfl, _⟩ := h; exact Ext.refl _
  split at h
  · rename_i s1 r1 hs
    simp at h; obtain ⟨rfl, _⟩ := h
    have := stepSimple_td _ _ _ _ hs
    exact Ext.of_td this.1 this.2
  · simp at h; obtain ⟨rfl, _⟩ := h; exact Ext.refl _

theorem allExt : ∀ f, AllExt f
  | 0 => allExt_zero
  | f+1 =>
    have ih := allExt f
    { invoke := invoke_step f ih, body := body_step f ih, line := line_step f ih, emit := emit_step f ih,
      loop := loop_step f ih, deref := deref_step f ih, acc := acc_step f ih, rev := rev_step f ih,
      walk := walk_step f ih, strat := strat_step f ih, op := op_step f ih }

end Sigc.StepIter
