import Sigc.Lemmas.RefineSimDefs
/-!
# Refine work package — `emitter::emit`: prologue (`signal_impl_holder`, `temp_slot_list`) and epilogue
(`~temp_slot_list`, `~signal_impl_holder`: `unreference_exec`, `sweep`) of `emitImpl` vs snapshot and
epilogue of `emitSig`.
-/
namespace Sigc.Refine
open Sigc.Model

/-! ## replacing one impl / list -/

theorem R_setImpl_null {s : St} {t : Spec.LSt} (hs : Emit.Inv s) (hR : R s t) {i : Nat} {im : Impl} {g : Spec.LSig}
    (hi : aget s.impls i = some im) (hg : aget t.sigs i = some g) {im' : Impl} {g' : Spec.LSig} (hr' : SigR im' g')
    {n' : Nat} (hn : s.next ≤ n') (hsub : ∀ k ∈ Emit.cids im', k ∈ Emit.cids im ∨ s.next ≤ k)
    (E : List Nat) (hE : ∀ k ∈ E, k ∈ Emit.cids im ∧ k ∉ Emit.cids im') :
    R (nullSt E { s with impls := aset s.impls i im', next := n' }) { t with sigs := aset t.sigs i g', next := n' } := by
  have hsigs : AR SigR (aset s.impls i im') (aset t.sigs i g') := hR.sigs.set i hr'
  have hle : SigsLe t.sigs t.next (aset t.sigs i g') := by
    apply SigsLe.aset_sub hg
    intro c' hc' hlt
    have hk : c'.id ∈ Emit.cids im' := by rw [← hr'.ids]; exact List.mem_map.mpr ⟨c', hc', rfl⟩
    rcases hsub c'.id hk with h1 | h1
    · obtain ⟨im0, hi0, hr0⟩ := hR.impl_of_sig hg
      rw [hi] at hi0; cases hi0
      rw [← hr0.ids] at h1
      obtain ⟨c, hc, e⟩ := List.mem_map.mp h1
      exact ⟨c, hc, e⟩
    · rw [hR.next] at hlt; omega
  have hn' : t.next ≤ n' := by rw [hR.next]; exact hn
  have hgone : ∀ cid ∈ E, Gone (aset t.sigs i g') n' cid := by
    intro cid hc
    obtain ⟨h1, h2⟩ := hE cid hc
    rw [gone_iff]
    refine ⟨?_, ?_⟩
    · have := (hs.lt i im hi).2 cid h1; omega
    · intro hh
      obtain ⟨p, hp, hin⟩ := hasId_of_AR hsigs hh
      have hpa := Emit.aget_of_mem_nodup (Emit.keys_nodup_aset hs.keys i im') (show (p.1, p.2) ∈ aset s.impls i im' from hp)
      rw [Emit.aget_aset] at hpa
      split at hpa
      · cases hpa; exact h2 hin
      · rename_i hne
        exact hs.disj p.1 i p.2 im hpa hi hne cid hin h1
  have hp : ∀ {l m : List (Nat × Option Nat)}, AR (PtrR t.sigs t.next) l m →
      AR (PtrR (aset t.sigs i g') n') (amap l (nullE E)) m := fun h =>
    ptrs_null (SigsLe.refl _ _) E hgone (ptrs_mono hn' hle h)
  exact ⟨hR.T, hR.S, hR.G, hp hR.C, hp hR.K, hsigs, hR.ownedT, hp hR.ownedK, hR.ownedG, rfl, hR.depth, hR.steps, hR.trace, hR.k1, hR.k2⟩

/-! ## prologue -/

/-- the state in which the specification starts the turns of an emission -/
def specStart (t : Spec.LSt) (i : Nat) (g : Spec.LSig) : Spec.LSt :=
  Spec.setSig { t with next := t.next + 1 } i
    { g with active := g.active + 1, cells := g.cells ++ [{ id := t.next, slot := {}, marker := true }] }

theorem R_start {s : St} {t : Spec.LSt} (hs : Emit.Inv s) (hR : R s t) {i : Nat} {im : Impl} {g : Spec.LSig}
    (hi : aget s.impls i = some im) (hg : aget t.sigs i = some g) (hr : SigR im g) :
    R (Emit.emitStart s i im) (specStart t i g) := by
  have hmk : CellR { id := s.next, slot := {}, linked := false } { id := s.next, slot := {}, marker := true } :=
    ⟨rfl, rfl, rfl, fun _ => rfl, fun h => by simp at h, fun h => by simp at h⟩
  have hr' : SigR { im with exec := im.exec + 1, holders := im.holders + 1,
                            cells := im.cells ++ [{ id := s.next, slot := {}, linked := false }] }
      { g with active := g.active + 1, cells := g.cells ++ [{ id := s.next, slot := {}, marker := true }] } :=
    ⟨hr.cells.append (.cons hmk .nil), by simp [hr.active], hr.dirty, hr.limbo⟩
  have := R_setImpl_null hs hR hi hg hr' (n' := s.next + 1) (Nat.le_succ _) (by
    intro k hk
    simp only [Emit.cids, List.map_append, List.map_cons, List.map_nil, List.mem_append, List.mem_singleton] at hk
    rcases hk with hk | hk
    · exact Or.inl hk
    · right; omega) [] (by simp)
  rw [nullSt_nil] at this
  have e2 : specStart t i g = ({ t with sigs := aset t.sigs i ({ g with active := g.active + 1, cells := g.cells ++ [{ id := s.next, slot := {}, marker := true }] } : Spec.LSig), next := s.next + 1 } : Spec.LSt) := by
    unfold specStart Spec.setSig; rw [hR.next]
  rw [e2]
  exact this

/-- the ids of the unlinked cells of an impl -/
def unlinkedIds (im : Impl) : List Nat := (im.cells.filter (fun c => !c.linked)).map (·.id)

theorem mem_unlinkedIds {im : Impl} (hn : (Emit.cids im).Nodup) {c : Cell} (hc : c ∈ im.cells) :
    c.id ∈ unlinkedIds im ↔ c.linked = false := by
  unfold unlinkedIds
  constructor
  · intro h
    obtain ⟨c', hc', e⟩ := List.mem_map.mp h
    obtain ⟨hc1, hc2⟩ := List.mem_filter.mp hc'
    obtain ⟨c0, hf⟩ := Emit.find_of_mem_ids (List.mem_map.mpr ⟨c, hc, rfl⟩)
    have h1 := Emit.find_unique hn hf hc rfl
    have h2 := Emit.find_unique hn hf hc1 e
    rw [h1, ← h2]
    simpa using hc2
  · intro h
    exact List.mem_map.mpr ⟨c, List.mem_filter.mpr ⟨hc, by simp [h]⟩, rfl⟩

theorem off_start {s : St} (hs : Emit.Inv s) {i : Nat} {im : Impl} (hi : aget s.impls i = some im) :
    Off (unlinkedIds im) (Emit.emitStart s i im) := by
  have hn := (hs.ok i im hi).nodup
  refine ⟨?_, ?_⟩
  · intro z hz
    obtain ⟨c, hc, rfl⟩ := List.mem_map.mp hz
    have := (hs.lt i im hi).2 c.id (List.mem_map.mpr ⟨c, (List.mem_filter.mp hc).1, rfl⟩)
    simp [Emit.emitStart, Model.setImpl]; omega
  · intro p hp c hc hz
    obtain ⟨pi, pim⟩ := p
    simp only at hc
    have hpa := Emit.aget_of_mem_nodup (l := (Emit.emitStart s i im).impls) (by
      unfold Emit.emitStart Model.setImpl; exact Emit.keys_nodup_aset hs.keys i _) hp
    unfold Emit.emitStart Model.setImpl at hpa
    simp only at hpa
    rw [Emit.aget_aset] at hpa
    split at hpa
    · cases hpa
      simp only [List.mem_append, List.mem_singleton] at hc
      rcases hc with hc | hc
      · exact (mem_unlinkedIds hn hc).mp hz
      · subst hc; rfl
    · rename_i hne
      exfalso
      obtain ⟨c', hc', e⟩ := List.mem_map.mp hz
      have h1 : c.id ∈ Emit.cids im := by rw [← e]; exact List.mem_map.mpr ⟨c', (List.mem_filter.mp hc').1, rfl⟩
      exact hs.disj pi i pim im hpa hi hne c.id (List.mem_map.mpr ⟨c, hc, rfl⟩) h1

/-- the snapshot of a non-accumulating emission: the live entries = the linked cells -/
theorem snap_nonacc {im : Impl} {g : Spec.LSig} (hr : SigR im g) (hn : (Emit.cids im).Nodup) :
    (g.cells.filter (fun c => !c.marker && !c.zombie)).map (·.id)
      = (Emit.cids im).filter (fun k => !(unlinkedIds im).contains k) := by
  have h1 : (g.cells.filter (fun c => !c.marker && !c.zombie)).map (·.id) = (im.cells.filter (fun c => c.linked)).map (·.id) := by
    apply Eq.symm
    apply F2.map_eq (F2.filter hr.cells _ _ (fun c d _ _ hcd => by rw [hcd.live, Bool.and_comm]))
    intro c d _ _ hcd; exact hcd.id.symm
  rw [h1]
  unfold Emit.cids
  rw [List.filter_map]
  congr 1
  apply List.filter_congr
  intro c hc
  simp only [Function.comp]
  cases hl : c.linked with
  | true =>
    have : c.id ∉ unlinkedIds im := fun h => by
      have := (mem_unlinkedIds hn hc).mp h; rw [hl] at this; contradiction
    simp [this]
  | false =>
    have : c.id ∈ unlinkedIds im := (mem_unlinkedIds hn hc).mpr hl
    simp [this]

/-! ## epilogue -/

/-- the epilogue of `emitSig` on the list -/
def specEpi (g2 : Spec.LSig) (m : Nat) : Spec.LSig :=
  let g3 : Spec.LSig := { g2 with active := g2.active - 1, cells := g2.cells.filter (·.id ≠ m) }
  let g3 : Spec.LSig := if g3.active = 0 then { g3 with cells := g3.cells.filter (fun c => !c.zombie), limbo := [] } else g3
  if g3.active = 0 && g3.dirty then
    { g3 with dirty := false, cells := g3.cells.filter (fun c => !c.slot.empty) }
  else g3

theorem sigR_epi {im2 : Impl} {g2 : Spec.LSig} (hr : SigR im2 g2) (hok : Emit.ImplOK 0 im2) (hx : 1 ≤ im2.exec) (m : Nat) :
    SigR (Emit.epiImpl im2 m) (specEpi g2 m) := by
  have heh : im2.exec = im2.holders := by have := hok.eh; omega
  have hact : g2.active = im2.exec := by rw [hr.active, heh]
  have hA : F2 CellR (im2.cells.filter (·.id ≠ m)) (g2.cells.filter (·.id ≠ m)) :=
    F2.filter hr.cells _ _ (fun c d _ _ hcd => by rw [hcd.id])
  unfold Emit.epiImpl specEpi
  by_cases h1 : im2.exec - 1 = 0
  · have ha : g2.active - 1 = 0 := by rw [hact]; exact h1
    cases hd : im2.deferred with
    | true =>
      have hdirty : g2.dirty = true := by rw [hr.dirty, hd]
      simp only [h1, hd, ha, hdirty, Bool.and_self, decide_true, if_true]
      refine ⟨?_, by simp [hr.active] <;> omega, rfl, rfl⟩
      simp only [List.filter_filter]
      apply F2.filter hr.cells
      intro c d hc _ hcd
      rw [hcd.id]
      cases hz : d.zombie with
      | true =>
        have hl : c.linked = false := by
          have := hcd.zombie; rw [hz] at this
          cases h : c.linked <;> simp [h] at this ⊢
        rw [hok.l c hc hl]; simp
      | false => rw [hcd.slot hz]; simp
    | false =>
      have hdirty : g2.dirty = false := by rw [hr.dirty, hd]
      simp only [h1, hd, ha, hdirty, Bool.and_false, decide_true, if_true, Bool.false_eq_true, if_false]
      refine ⟨?_, by simp [hr.active] <;> omega, by simp [hdirty, hd], rfl⟩
      simp only
      have : (g2.cells.filter (·.id ≠ m)).filter (fun c => !c.zombie) = g2.cells.filter (·.id ≠ m) := by
        rw [List.filter_eq_self]
        intro d hd'
        obtain ⟨c, hc, hcd⟩ := hr.cells.mem_right (List.mem_filter.mp hd').1
        rw [hcd.zombie]
        cases hn : c.slot.rep with
        | none => simp
        | some rp =>
          have := hok.d hd c hc (by rw [hn]; rfl)
          simp [this]
      rw [this]; exact hA
  · have ha : ¬ (g2.active - 1 = 0) := by rw [hact]; exact h1
    simp only [h1, ha, decide_false, Bool.false_and, Bool.false_eq_true, if_false]
    exact ⟨hA, by simp [hr.active] <;> omega, hr.dirty, hr.limbo⟩

/-- the epilogue of `emitImpl` in closed form -/
theorem epilogue_closed {s : St} {i m : Nat} {im2 : Impl} (hi : aget s.impls i = some im2) :
    Emit.epilogue s i m
      = nullSt (m :: (if (im2.exec - 1 = 0 && im2.deferred) = true then
            ((im2.cells.filter (·.id ≠ m)).filter (·.slot.empty)).map (·.id) else []))
          { s with impls := aset s.impls i (Emit.epiImpl im2 m) } := by
  unfold Emit.epilogue
  simp only
  rw [Emit.eraseCell_eq hi, nullConns_eq]
  generalize hA : ({ im2 with cells := im2.cells.filter (·.id ≠ m) } : Impl) = A
  have hi3 : aget (nullSt [m] (setImpl s i A)).impls i = some A := by simp [Emit.aget_setImpl]
  rw [Emit.unrefExec_eq hi3]
  unfold Emit.epiImpl
  have hAe : A.exec = im2.exec := by subst hA; rfl
  have hAd : A.deferred = im2.deferred := by subst hA; rfl
  rw [hAe, hAd]
  by_cases hcond : (im2.exec - 1 = 0 && im2.deferred) = true
  · simp only [if_pos hcond]
    generalize hB : ({ cells := A.cells, exec := im2.exec - 1, deferred := im2.deferred, holders := A.holders } : Impl) = B
    have hi4 : aget (setImpl (nullSt [m] (setImpl s i A)) i B).impls i = some B := by simp [Emit.aget_setImpl]
    rw [Emit.sweep_eq hi4, nullConnsList_eq]
    have hi5 : aget (nullSt ((B.cells.filter (·.slot.empty)).map (·.id))
        (setImpl (setImpl (nullSt [m] (setImpl s i A)) i B) i
          { B with deferred := false, cells := B.cells.filter (fun c => !c.slot.empty) })).impls i
        = some { B with deferred := false, cells := B.cells.filter (fun c => !c.slot.empty) } := by
      simp [Emit.aget_setImpl]
    rw [hi5]
    simp only
    subst hB; subst hA
    simp [nullSt, setImpl, Emit.aset_aset, amap_amap, nullE_append]
  · simp only [if_neg hcond]
    generalize hB : ({ cells := A.cells, exec := im2.exec - 1, deferred := im2.deferred, holders := A.holders } : Impl) = B
    have hi4 : aget (setImpl (nullSt [m] (setImpl s i A)) i B).impls i = some B := by simp [Emit.aget_setImpl]
    rw [hi4]
    simp only
    subst hB; subst hA
    simp [nullSt, setImpl, Emit.aset_aset]

theorem R_epilogue {s : St} {t : Spec.LSt} (hs : Emit.Inv s) (hR : R s t) {i m : Nat} {im2 : Impl} {g2 : Spec.LSig}
    (hi : aget s.impls i = some im2) (hg : aget t.sigs i = some g2) (hr : SigR im2 g2) (hx : 1 ≤ im2.exec)
    (hm : m ∈ Emit.cids im2) :
    R (Emit.epilogue s i m) (Spec.setSig t i (specEpi g2 m)) := by
  rw [epilogue_closed hi]
  have hok := hs.ok i im2 hi
  have hsub : ∀ k ∈ Emit.cids (Emit.epiImpl im2 m), k ∈ Emit.cids im2 ∨ s.next ≤ k := by
    intro k hk
    obtain ⟨c, hc, rfl⟩ := List.mem_map.mp hk
    exact Or.inl (List.mem_map.mpr ⟨c, Emit.epiImpl_cells_sub im2 m c hc, rfl⟩)
  have := R_setImpl_null hs hR hi hg (sigR_epi hr hok hx m) (n' := s.next) (Nat.le_refl _) hsub
    (m :: (if (im2.exec - 1 = 0 && im2.deferred) = true then
            ((im2.cells.filter (·.id ≠ m)).filter (·.slot.empty)).map (·.id) else [])) (by
      intro k hk
      rcases List.mem_cons.mp hk with e | hk
      · subst e
        refine ⟨hm, ?_⟩
        intro hin
        obtain ⟨c, hc, e⟩ := List.mem_map.mp hin
        unfold Emit.epiImpl at hc
        split at hc
        · have := (List.mem_filter.mp (List.mem_filter.mp hc).1).2
          simp [e] at this
        · have := (List.mem_filter.mp hc).2
          simp [e] at this
      · split at hk
        · rename_i hcond
          obtain ⟨c, hc, rfl⟩ := List.mem_map.mp hk
          obtain ⟨hc1, hc2⟩ := List.mem_filter.mp hc
          refine ⟨List.mem_map.mpr ⟨c, (List.mem_filter.mp hc1).1, rfl⟩, ?_⟩
          intro hin
          obtain ⟨c', hc', e⟩ := List.mem_map.mp hin
          unfold Emit.epiImpl at hc'
          rw [if_pos hcond] at hc'
          simp only at hc'
          obtain ⟨hc'1, hc'2⟩ := List.mem_filter.mp hc'
          have hcu : c' = c := by
            obtain ⟨c0, hf⟩ := Emit.find_of_mem_ids (List.mem_map.mpr ⟨c, (List.mem_filter.mp hc1).1, rfl⟩)
            have h1 := Emit.find_unique hok.nodup hf (List.mem_filter.mp hc1).1 rfl
            have h2 := Emit.find_unique hok.nodup hf (List.mem_filter.mp hc'1).1 e
            rw [h2, ← h1]
          subst hcu
          simp [hc2] at hc'2
        · simp at hk)
  unfold Spec.setSig
  have e1 : ({ s with impls := aset s.impls i (Emit.epiImpl im2 m), next := s.next } : St)
      = { s with impls := aset s.impls i (Emit.epiImpl im2 m) } := rfl
  have e2 : ({ t with sigs := aset t.sigs i (specEpi g2 m), next := s.next } : Spec.LSt)
      = { t with sigs := aset t.sigs i (specEpi g2 m) } := by
    rw [← hR.next]
  rw [e1, e2] at this
  exact this

theorem inv_epilogue {s : St} (hs : Emit.Inv s) {i m : Nat} {im2 : Impl} (hi : aget s.impls i = some im2)
    (hx : 1 ≤ im2.exec) (hm : ∃ c ∈ im2.cells, c.id = m ∧ c.slot.rep.isNone = true) : Emit.Inv (Emit.epilogue s i m) := by
  obtain ⟨ca, cb, cc, cd, ce⟩ := Emit.epilogue_core (m := m) hi
  have hok2 := hs.ok i im2 hi
  have hepiok := Emit.epiImpl_ok (m := m) hok2 hx hm
  have : Emit.Inv (setImpl s i (Emit.epiImpl im2 m)) := by
    apply hs.setImpl hi hepiok
    · intro k hk
      obtain ⟨c, hc, rfl⟩ := List.mem_map.mp hk
      exact Or.inl (List.mem_map.mpr ⟨c, Emit.epiImpl_cells_sub im2 _ c hc, rfl⟩)
    · intro c hc; exact hs.fwdC i im2 hi c (Emit.epiImpl_cells_sub im2 _ c hc)
  exact this.congr ca cb cc cd (by rw [ce]; exact Nat.le_refl _) (Emit.epilogue_ownedG s i m)

end Sigc.Refine
