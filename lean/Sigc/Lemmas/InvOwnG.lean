import Sigc.Lemmas.InvWF
/-!
# signal objects owned by functors (`ownG:`) stay named while they are owned

`OG s`: every entry `(k, g)` of `s.ownedG` names a live signal object (`aget s.G g = some h`) that is not
`pinned` (so `delG g` answers exactly `owned`), and no name is owned twice.  `OG` is preserved by every
function of the interpreter (`StableCore OG`: the schema without the harness teardown, which destroys the
named objects without asking the owners) and therefore holds in every state of every run.

The third branch of `collectStep` (`dropHandle`) is the only place where a name owned by a functor leaves `G`;
the entry has been removed from `ownedG` just before.
-/
namespace Sigc.Inv
open Sigc.Model

/-- the `pinned` test of `delG` and of `ownG:` -/
def pinned (h : Handle) : Bool := h.everFwd && !h.fl.isTrackable

def OGI (G : List (Nat × Handle)) (oG : List (Nat × Nat)) : Prop :=
  (∀ p ∈ oG, ∃ h, aget G p.2 = some h ∧ pinned h = false) ∧
  (∀ p ∈ oG, ∀ q ∈ oG, p.2 = q.2 → p = q)

/-- every functor-owned signal object is named and not pinned; no name is owned twice -/
def OG (s : St) : Prop := OGI s.G s.ownedG

theorem OG.init : OG {} := ⟨fun _ hp => (by cases hp), fun _ hp => (by cases hp)⟩

/-- `G'` still has every name of `G`, with the same flavour and `everFwd` mark -/
def GKeep (G G' : List (Nat × Handle)) : Prop :=
  ∀ g h, aget G g = some h → ∃ h', aget G' g = some h' ∧ h'.everFwd = h.everFwd ∧ h'.fl = h.fl

theorem GKeep.refl (G : List (Nat × Handle)) : GKeep G G := fun _ h hg => ⟨h, hg, rfl, rfl⟩

theorem GKeep.trans {G G' G'' : List (Nat × Handle)} (h1 : GKeep G G') (h2 : GKeep G' G'') : GKeep G G'' := by
  intro g h hg
  obtain ⟨h', hg', e1, e2⟩ := h1 g h hg
  obtain ⟨h'', hg'', e3, e4⟩ := h2 g h' hg'
  exact ⟨h'', hg'', e3.trans e1, e4.trans e2⟩

theorem GKeep.aset_fresh {G : List (Nat × Handle)} {g : Nat} (hd : Handle) (h : aget G g = none) :
    GKeep G (aset G g hd) := by
  intro g' h' hg'
  refine ⟨h', ?_, rfl, rfl⟩
  rw [aget_aset]
  split
  · rename_i e; subst e; rw [h] at hg'; cases hg'
  · exact hg'

theorem GKeep.aset_same {G : List (Nat × Handle)} {g : Nat} {h0 hd : Handle} (h : aget G g = some h0)
    (e1 : hd.everFwd = h0.everFwd) (e2 : hd.fl = h0.fl) : GKeep G (aset G g hd) := by
  intro g' h' hg'
  rw [aget_aset]
  split
  · rename_i e; subst e; rw [h] at hg'; cases hg'; exact ⟨hd, rfl, e1, e2⟩
  · exact ⟨h', hg', rfl, rfl⟩

theorem OGI.keep {G G' : List (Nat × Handle)} {oG : List (Nat × Nat)} (h : OGI G oG) (hk : GKeep G G') :
    OGI G' oG := by
  refine ⟨fun p hp => ?_, h.2⟩
  obtain ⟨hd, hg, hpin⟩ := h.1 p hp
  obtain ⟨hd', hg', e1, e2⟩ := hk _ _ hg
  refine ⟨hd', hg', ?_⟩
  unfold pinned at *
  rw [e1, e2]; exact hpin

theorem not_named {oG : List (Nat × Nat)} {g : Nat} (hn : oG.any (fun p => p.2 = g) = false) :
    ∀ p ∈ oG, p.2 ≠ g := by
  intro p hp e
  have : oG.any (fun p => p.2 = g) = true := List.any_eq_true.2 ⟨p, hp, by simpa using e⟩
  rw [hn] at this; cases this

theorem OGI.adel {G : List (Nat × Handle)} {oG : List (Nat × Nat)} {g : Nat} (h : OGI G oG)
    (hn : oG.any (fun p => p.2 = g) = false) : OGI (adel G g) oG := by
  refine ⟨fun p hp => ?_, h.2⟩
  obtain ⟨hd, hg, hpin⟩ := h.1 p hp
  exact ⟨hd, by rw [aget_adel_other _ _ _ (not_named hn p hp)]; exact hg, hpin⟩

theorem OGI.sub {G : List (Nat × Handle)} {oG oG' : List (Nat × Nat)} (h : OGI G oG)
    (hs : ∀ p ∈ oG', p ∈ oG) : OGI G oG' :=
  ⟨fun p hp => h.1 p (hs p hp), fun p hp q hq e => h.2 p (hs p hp) q (hs q hq) e⟩

theorem OGI.cons {G : List (Nat × Handle)} {oG : List (Nat × Nat)} {k g : Nat} {hd : Handle} (h : OGI G oG)
    (hg : aget G g = some hd) (hp : pinned hd = false) (hn : oG.any (fun p => p.2 = g) = false) :
    OGI G ((k, g) :: oG) := by
  refine ⟨fun p hp' => ?_, fun p hp' q hq' e => ?_⟩
  · rcases List.mem_cons.1 hp' with e | e
    · subst e; exact ⟨hd, hg, hp⟩
    · exact h.1 p e
  · rcases List.mem_cons.1 hp' with e1 | e1 <;> rcases List.mem_cons.1 hq' with e2 | e2
    · rw [e1, e2]
    · subst e1; exact absurd e.symm (not_named hn q e2)
    · subst e2; exact absurd e (not_named hn p e1)
    · exact h.2 p e1 q e2 e

/-- after the entry of owner `k` has left `ownedG`, the name it owned is owned by nobody -/
theorem OGI.filter_unnamed {G : List (Nat × Handle)} {oG : List (Nat × Nat)} {k g : Nat} (h : OGI G oG)
    (hm : (k, g) ∈ oG) : (oG.filter (fun q => q.1 ≠ k)).any (fun p => p.2 = g) = false := by
  cases hc : (oG.filter (fun q => q.1 ≠ k)).any (fun p => p.2 = g) with
  | false => rfl
  | true =>
    obtain ⟨p, hp, e⟩ := List.any_eq_true.1 hc
    obtain ⟨hp1, hp2⟩ := List.mem_filter.1 hp
    have e' : p.2 = g := by simpa using e
    have := h.2 p hp1 (k, g) hm e'
    subst this
    simp at hp2

/-! ### frame: the library cascades touch neither `G` nor `ownedG` -/

@[simp] theorem nullConnsList_ownedG (s : St) (cids : List Nat) : (nullConnsList s cids).ownedG = s.ownedG := by
  induction cids generalizing s with
  | nil => rfl
  | cons c cs ih => simp only [nullConnsList, List.foldl_cons] at ih ⊢; rw [ih]; rfl

theorem frameG_prims (G0 : List (Nat × Handle)) (oG0 : List (Nat × Nat)) :
    PrimsA (fun s : St => s.G = G0 ∧ s.ownedG = oG0) where
  upd _ _ _ _ _ _ _ h _ _ := h
  filter s i im p d ids _ h _ _ := by
    show (nullConnsList _ _).G = G0 ∧ (nullConnsList _ _).ownedG = oG0
    rw [nullConnsList_G, nullConnsList_ownedG]; exact h
  delImpl s i im _ h _ _ _ := by
    show (nullConnsList _ _).G = G0 ∧ (nullConnsList _ _).ownedG = oG0
    rw [nullConnsList_G, nullConnsList_ownedG]; exact h
  invalS _ _ _ h := h

theorem OG.congr {s s' : St} (hG : s'.G = s.G) (hO : s'.ownedG = s.ownedG) (h : OG s) : OG s' := by
  unfold OG; rw [hG, hO]; exact h

theorem OG.prims : PrimsA OG where
  upd _ _ _ _ _ _ _ h _ _ := h
  filter s i im p d ids _ h _ _ := by
    show OGI (nullConnsList _ _).G (nullConnsList _ _).ownedG
    rw [nullConnsList_G, nullConnsList_ownedG]; exact h
  delImpl s i im _ h _ _ _ := by
    show OGI (nullConnsList _ _).G (nullConnsList _ _).ownedG
    rw [nullConnsList_G, nullConnsList_ownedG]; exact h
  invalS _ _ _ h := h

theorem invalidateTrackable_ownedG (s : St) (t : Nat) : (invalidateTrackable s t).ownedG = s.ownedG :=
  ((frameG_prims s.G s.ownedG).invalidateTrackable t ⟨rfl, rfl⟩).2

theorem OG.fail {s : St} (m : String) (h : OG s) : OG (s.fail m) := by
  unfold St.fail; split <;> exact h

/-! ### the operations -/

theorem ensureImpl_keep {s s1 : St} {g i : Nat} (he : ensureImpl s g = some (s1, i)) :
    GKeep s.G s1.G ∧ s1.ownedG = s.ownedG ∧ (∀ j, aget s.G j = none → aget s1.G j = none) := by
  unfold Model.ensureImpl at he
  split at he
  · cases he
  · rename_i hd hg
    split at he
    · cases he; exact ⟨GKeep.refl _, rfl, fun _ h => h⟩
    · simp only [St.fresh, Option.some.injEq, Prod.mk.injEq] at he
      obtain ⟨rfl, rfl⟩ := he
      refine ⟨GKeep.aset_same hg rfl rfl, rfl, fun j hj => ?_⟩
      show aget (aset s.G g _) j = none
      rw [aget_aset_other _ _ _ _ (fun e => by rw [e, hg] at hj; cases hj)]; exact hj

theorem OG.ensureImpl {s s1 : St} {g i : Nat} (h : OG s) (he : ensureImpl s g = some (s1, i)) : OG s1 := by
  obtain ⟨hk, ho, _⟩ := ensureImpl_keep he
  unfold OG; rw [ho]; exact OGI.keep h hk

theorem OG.insertCell {s : St} (i : Nat) (first : Bool) (sl : SlotB) (h : OG s) :
    OG (insertCell s i first sl).fst := by
  unfold Model.insertCell
  simp only [St.fresh]
  split
  · exact OG.fail _ h
  · exact h

theorem OG.mkFun {s s' : St} {v : Bool} {spec : FSpec} {fn : Fun} (h : OG s)
    (hm : mkFun s v spec = .ok (fn, s')) : OG s' := by
  have fin : ∀ {x : Fun × St}, (Except.ok x : Except String (Fun × St)) = .ok (fn, s') → x.2 = s' := by
    intro x e; cases e; rfl
  cases spec with
  | fwd g =>
    simp only [Model.mkFun] at hm
    split at hm
    · cases hm
    · rename_i hd hg
      split at hm
      · cases hm
      split at hm
      · cases hm
      · rename_i hno
        have := fin hm; subst this
        refine ⟨fun p hp => ?_, h.2⟩
        obtain ⟨hd', hg', hpin⟩ := h.1 p hp
        show ∃ h, aget (aset s.G g _) p.2 = some h ∧ pinned h = false
        rw [aget_aset]
        split
        · rename_i e
          refine ⟨_, rfl, ?_⟩
          have hany : s.ownedG.any (fun p => p.2 = g) = true :=
            List.any_eq_true.2 ⟨p, hp, by simpa using e⟩
          rw [hany] at hno
          simp only [pinned, Bool.true_and]
          simpa using hno
        · exact ⟨hd', hg', hpin⟩
  | ownG fid g =>
    simp only [Model.mkFun] at hm
    split at hm
    · cases hm
    · rename_i hd hg
      split at hm
      · cases hm
      rename_i hpin
      split at hm
      · cases hm
      · rename_i hno
        have := fin hm; subst this
        exact OGI.cons h hg (Bool.eq_false_iff.2 hpin)
          (show s.ownedG.any (fun p => p.2 = g) = false from Bool.eq_false_iff.2 hno)
  | ownT fid t =>
    simp only [Model.mkFun] at hm
    split at hm
    · cases hm
    · have := fin hm; subst this; exact h
  | ownK fid k =>
    simp only [Model.mkFun] at hm
    split at hm
    · cases hm
    · have := fin hm; subst this; exact h
  | fn _ => simp only [Model.mkFun] at hm; have := fin hm; subst this; exact h
  | bad => simp only [Model.mkFun] at hm; cases hm
  | mem _ _ | bref _ _ | trk _ _ _ | nest _ =>
    simp only [Model.mkFun] at hm
    repeat' split at hm
    all_goals (first | (cases hm; done) | skip)
    all_goals (have := fin hm; subst this; exact h)

/-- the destruction of a signal object that no functor owns -/
theorem OG.dropHandle {s : St} {g : Nat} (h : OG s) (hn : s.ownedG.any (fun p => p.2 = g) = false) :
    OG (dropHandle s g) := by
  unfold Model.dropHandle
  split
  · exact h
  · rename_i hd hg
    have h2 : ∀ s1 : St, OG s1 → s1.ownedG = s.ownedG → OG { s1 with G := adel s1.G g } :=
      fun s1 h1 ho => OGI.adel h1 (by rw [ho]; exact hn)
    simp only []
    split <;> split <;>
      first
      | exact OG.prims.gcImpl _ (h2 _ (OG.prims.invalidateTrackable _ h) (invalidateTrackable_ownedG _ _))
      | exact h2 _ (OG.prims.invalidateTrackable _ h) (invalidateTrackable_ownedG _ _)
      | exact OG.prims.gcImpl _ (h2 _ h rfl)
      | exact h2 _ h rfl

/-- third branch of `collectStep`: the entry leaves `ownedG`, then the object it named is destroyed -/
theorem OG.collectG {s : St} {k g : Nat} (h : OG s) (hm : (k, g) ∈ s.ownedG) :
    OG (Model.dropHandle { s with ownedG := s.ownedG.filter (fun q => q.1 ≠ k) } g) :=
  OG.dropHandle (s := { s with ownedG := s.ownedG.filter (fun q => q.1 ≠ k) })
    (OGI.sub h (fun _ hp => (List.mem_filter.1 hp).1)) (OGI.filter_unnamed h hm)

theorem OG.collect {s : St} (h : OG s) : OG (collect s) :=
  OG.prims.collect (fun _ _ h => h) (fun _ _ h => h) (fun _ _ _ hs hm => OG.collectG hs hm) h

theorem ogi_invalidateTrackable {s : St} {t : Nat} (h : OGI s.G s.ownedG) :
    OGI (invalidateTrackable s t).G (invalidateTrackable s t).ownedG := OG.prims.invalidateTrackable t h
theorem ogi_gcImpl {s : St} {i : Nat} (h : OGI s.G s.ownedG) :
    OGI (gcImpl s i).G (gcImpl s i).ownedG := OG.prims.gcImpl i h
theorem ogi_disconnectCell {s : St} {i : Nat} (h : OGI s.G s.ownedG) :
    OGI (disconnectCell s i).G (disconnectCell s i).ownedG := OG.prims.disconnectCell i h
theorem ogi_clearImpl {s : St} {i : Nat} (h : OGI s.G s.ownedG) :
    OGI (clearImpl s i).G (clearImpl s i).ownedG := OG.prims.clearImpl i h
theorem ogi_connBlock {s : St} {p : Option Nat} {b : Bool} (h : OGI s.G s.ownedG) :
    OGI (connBlock s p b).G (connBlock s p b).ownedG := OG.prims.connBlock p b h
theorem ogi_insertCell {s : St} {i : Nat} {first : Bool} {sl : SlotB} (h : OGI s.G s.ownedG) :
    OGI (insertCell s i first sl).fst.G (insertCell s i first sl).fst.ownedG := OG.insertCell i first sl h

/-- copy-assignment body shared by `asgG` and the accumulated branch of `masgG` -/
theorem OG.asgBody {s s1 : St} {j i im : Nat} {d : Handle} (hI : OG s) (hj : aget s.G j = some d)
    (he : Model.ensureImpl s i = some (s1, im)) :
    OG { s1 with G := aset s1.G j { d with impl := some im } } := by
  obtain ⟨hk, ho, _⟩ := ensureImpl_keep he
  obtain ⟨d', hd', e1, e2⟩ := hk j d hj
  show OGI _ s1.ownedG
  rw [ho]
  exact OGI.keep hI (GKeep.trans hk (GKeep.aset_same (hd := { d with impl := some im }) hd' e1.symm e2.symm))

/-- the signal-object operations -/
theorem OG_G_ops (s : St) (op : Op) (s' : St) (r : String) (hI : OG s)
    (hop : (∃ i fl, op = .newG i fl) ∨ (∃ j i, op = .cpG j i) ∨ (∃ j i, op = .mvG j i) ∨ (∃ j i, op = .asgG j i) ∨
      (∃ j i, op = .masgG j i) ∨ (∃ i, op = .delG i))
    (h : stepSimple s op = some (s', r)) : OG s' := by
  rcases hop with ⟨i, fl, rfl⟩ | ⟨j, i, rfl⟩ | ⟨j, i, rfl⟩ | ⟨j, i, rfl⟩ | ⟨j, i, rfl⟩ | ⟨i, rfl⟩
  all_goals simp only [stepSimple] at h
  · -- newG
    repeat' split at h
    all_goals (simp only [St.fresh, Option.some.injEq, Prod.mk.injEq] at h; obtain ⟨rfl, _⟩ := h)
    all_goals (first | exact hI | skip)
    exact OGI.keep hI (GKeep.aset_fresh _ ‹aget s.G i = none›)
  · -- cpG
    repeat' split at h
    all_goals (simp only [St.fresh, Option.some.injEq, Prod.mk.injEq] at h; obtain ⟨rfl, _⟩ := h)
    all_goals (first | exact hI | exact OG.ensureImpl hI ‹_› | skip)
    have h2 := OG.ensureImpl hI ‹_›
    obtain ⟨_, _, hfr⟩ := ensureImpl_keep ‹ensureImpl s i = some _›
    exact OGI.keep h2 (GKeep.aset_fresh _ (hfr j ‹_›))
  · -- mvG
    split at h
    · simp only [Option.some.injEq, Prod.mk.injEq] at h; obtain ⟨rfl, _⟩ := h; exact hI
    rename_i hd hi
    split at h
    · simp only [Option.some.injEq, Prod.mk.injEq] at h; obtain ⟨rfl, _⟩ := h; exact hI
    rename_i hj
    split at h
    · split at h
      · simp only [Option.some.injEq, Prod.mk.injEq] at h; obtain ⟨rfl, _⟩ := h; exact hI
      · rename_i s1 im he
        simp only [St.fresh, Option.some.injEq, Prod.mk.injEq] at h; obtain ⟨rfl, _⟩ := h
        obtain ⟨_, _, hfr⟩ := ensureImpl_keep he
        have h2 : OG s1 := OG.ensureImpl hI he
        exact OGI.keep h2 (GKeep.aset_fresh _ (hfr j hj))
    · simp only [St.fresh, Option.some.injEq, Prod.mk.injEq] at h; obtain ⟨rfl, _⟩ := h
      have hne : j ≠ i := fun e => by rw [e, hi] at hj; cases hj
      have h3 : OGI (aset (aset s.G i { hd with impl := none }) j
          { obj := s.next, fl := hd.fl, impl := hd.impl, trk := s.next + 1, lvl := hd.lvl }) s.ownedG :=
        OGI.keep hI (GKeep.trans (GKeep.aset_same (hd := { hd with impl := none }) hi rfl rfl)
          (GKeep.aset_fresh _ (by rw [aget_aset_other _ _ _ _ hne]; exact hj)))
      split
      · exact OG.prims.invalidateTrackable _ h3
      · exact h3
  · -- asgG
    split at h
    · rename_i d hh hj hi
      repeat' split at h
      all_goals (simp only [Option.some.injEq, Prod.mk.injEq] at h; obtain ⟨rfl, _⟩ := h)
      all_goals (first | exact hI | exact OG.ensureImpl hI ‹_› | skip)
      all_goals (have h3 := OG.asgBody hI hj ‹ensureImpl s i = some _›)
      · exact OG.prims.gcImpl _ h3
      · exact h3
    · simp only [Option.some.injEq, Prod.mk.injEq] at h; obtain ⟨rfl, _⟩ := h; exact hI
  · -- masgG
    split at h
    · rename_i d hh hj hi
      split at h
      · simp only [Option.some.injEq, Prod.mk.injEq] at h; obtain ⟨rfl, _⟩ := h; exact hI
      split at h
      · simp only [Option.some.injEq, Prod.mk.injEq] at h; obtain ⟨rfl, _⟩ := h; exact hI
      split at h
      · simp only [Option.some.injEq, Prod.mk.injEq] at h; obtain ⟨rfl, _⟩ := h; exact hI
      split at h
      · repeat' split at h
        all_goals (simp only [Option.some.injEq, Prod.mk.injEq] at h; obtain ⟨rfl, _⟩ := h)
        all_goals (first | exact hI | exact OG.ensureImpl hI ‹_› | skip)
        all_goals (have h3 := OG.asgBody hI hj ‹ensureImpl s i = some _›)
        · exact OG.prims.gcImpl _ h3
        · exact h3
      · split at h
        · simp only [Option.some.injEq, Prod.mk.injEq] at h; obtain ⟨rfl, _⟩ := h; exact hI
        · rename_i hne
          simp only [Option.some.injEq, Prod.mk.injEq] at h; obtain ⟨rfl, _⟩ := h
          have h3 : OGI (aset (aset s.G j { d with impl := hh.impl }) i { hh with impl := none }) s.ownedG :=
            OGI.keep hI (GKeep.trans (GKeep.aset_same (hd := { d with impl := hh.impl }) hj rfl rfl)
              (GKeep.aset_same (h0 := hh) (hd := { hh with impl := none })
                (by rw [aget_aset_other _ _ _ _ (fun e => hne e.symm)]; exact hi) rfl rfl))
          split <;> split <;>
            first
            | exact OG.prims.invalidateTrackable _ (OG.prims.gcImpl _ h3)
            | exact OG.prims.invalidateTrackable _ h3
            | exact OG.prims.gcImpl _ h3
            | exact h3
    · simp only [Option.some.injEq, Prod.mk.injEq] at h; obtain ⟨rfl, _⟩ := h; exact hI
  · -- delG
    split at h
    · simp only [Option.some.injEq, Prod.mk.injEq] at h; obtain ⟨rfl, _⟩ := h; exact hI
    rename_i hd hi
    split at h
    · simp only [Option.some.injEq, Prod.mk.injEq] at h; obtain ⟨rfl, _⟩ := h; exact hI
    split at h
    · simp only [Option.some.injEq, Prod.mk.injEq] at h; obtain ⟨rfl, _⟩ := h; exact hI
    rename_i hno
    simp only [Option.some.injEq, Prod.mk.injEq] at h; obtain ⟨rfl, _⟩ := h
    have hd' := OG.dropHandle (g := i) hI (Bool.eq_false_iff.2 hno)
    unfold Model.dropHandle at hd'
    simp only [hi] at hd'
    exact hd'

set_option maxHeartbeats 400000 in
theorem OG_simple (s : St) (op : Op) (s' : St) (r : String) (hI : OG s)
    (h : stepSimple s op = some (s', r)) : OG s' := by
  cases op
  case newG i fl => exact OG_G_ops s _ s' r hI (Or.inl ⟨i, fl, rfl⟩) h
  case cpG j i => exact OG_G_ops s _ s' r hI (Or.inr (Or.inl ⟨j, i, rfl⟩)) h
  case mvG j i => exact OG_G_ops s _ s' r hI (Or.inr (Or.inr (Or.inl ⟨j, i, rfl⟩))) h
  case asgG j i => exact OG_G_ops s _ s' r hI (Or.inr (Or.inr (Or.inr (Or.inl ⟨j, i, rfl⟩)))) h
  case masgG j i => exact OG_G_ops s _ s' r hI (Or.inr (Or.inr (Or.inr (Or.inr (Or.inl ⟨j, i, rfl⟩))))) h
  case delG i => exact OG_G_ops s _ s' r hI (Or.inr (Or.inr (Or.inr (Or.inr (Or.inr ⟨i, rfl⟩))))) h
  all_goals simp only [stepSimple] at h
  all_goals (repeat' split at h)
  all_goals (first | (cases h; done) | skip)
  all_goals (simp only [Option.some.injEq, Prod.mk.injEq] at h; obtain ⟨rfl, _⟩ := h)
  all_goals (first | exact hI | skip)
  all_goals (
    try (have h1 := OG.mkFun hI ‹_›)
    try (have h2 := OG.ensureImpl hI ‹_›)
    try (have h3 := OG.ensureImpl ‹OG _› ‹_›)
    simp only [OG] at *
    first
      | done
      | simp (maxDischargeDepth := 8) only [St.fresh, setConn,
          ogi_invalidateTrackable, ogi_disconnectCell, ogi_clearImpl, ogi_connBlock,
          ogi_insertCell, *])

/-- `OG` is preserved by every function of the interpreter (not by the harness teardown, which destroys
    the named signal objects whatever functors still own them) -/
theorem OG.stable : StableCore OG where
  log _ _ _ h := h
  fail s m _ h := OG.fail m h
  depth _ _ _ h := h
  steps _ _ _ h := h
  incall _ _ _ _ _ h _ := h
  simple s op s' r _ h hs := OG_simple s op s' r h hs
  collect s _ h := OG.collect h
  pro _ _ _ _ h _ := h
  erase _ i m _ h := OG.prims.eraseCell i m h
  unref _ i _ h := OG.prims.unrefExec i h
  drop s i _ h := by unfold dropHolder; split <;> exact h
  gc _ i _ h := OG.prims.gcImpl i h

/-- every state of every run satisfies `OG` -/
theorem OG.reachable (f : Nat) (P : Prog) (s : St) (h : runTop f P {} P.top = some s) : OG s :=
  OG.stable.runTop OG.init f P s h

/-- `delG` of a functor-owned signal object is refused with `owned` -/
theorem OG.delG_owned {s : St} (h : OG s) {p : Nat × Nat} (hp : p ∈ s.ownedG) :
    stepSimple s (.delG p.2) = some (s, "owned") := by
  obtain ⟨hd, hg, hpin⟩ := h.1 p hp
  have hany : s.ownedG.any (fun q => q.2 = p.2) = true := List.any_eq_true.2 ⟨p, hp, by simp⟩
  unfold pinned at hpin
  simp only [stepSimple, hg, hpin, hany]
  simp

end Sigc.Inv
