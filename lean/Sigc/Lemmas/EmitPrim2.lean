import Sigc.Lemmas.EmitPrim
/-!
# Emit work package — primitives, part 2: handles (`G`), `gcImpl`, `ensureImpl`, `insertCell`,
`sweep`/`unrefExec`, `clearImpl`, `invalidateTrackable`, `mkFun`.
-/
namespace Sigc.Emit
open Sigc.Model

/-! ## handles up to their `impl` pointer -/

def stripH (h : Handle) : Handle := { h with impl := none }

/-- two handle tables agree up to the `impl` pointers -/
def GSame (G G' : List (Nat × Handle)) : Prop := ∀ j, (aget G' j).map stripH = (aget G j).map stripH

/-- `G'` has all the signal objects of `G` (possibly more), and a signal object that is pinned in `G'` was
    already pinned in `G` (only `mkFun … (.fwd g)` pins) -/
def GFw (G G' : List (Nat × Handle)) : Prop :=
  ∀ g h, aget G g = some h → ∃ h', aget G' g = some h' ∧ h'.obj = h.obj ∧ h'.fl = h.fl ∧ h'.trk = h.trk ∧
    (h.everFwd = true → h'.everFwd = true)

def GLe (G G' : List (Nat × Handle)) : Prop :=
  GFw G G' ∧
  (∀ g h', aget G' g = some h' → h'.everFwd = true → ∃ h, aget G g = some h ∧ h.everFwd = true ∧ h.fl = h'.fl)

theorem GLe.refl (G : List (Nat × Handle)) : GLe G G :=
  ⟨fun _ h hh => ⟨h, hh, rfl, rfl, rfl, id⟩, fun _ h hh he => ⟨h, hh, he, rfl⟩⟩

theorem GSame.le {G G'} (h : GSame G G') : GLe G G' := by
  refine ⟨?_, ?_⟩
  · intro g hd hg
    have := h g
    rw [hg] at this
    cases hg' : aget G' g with
    | none => rw [hg'] at this; simp at this
    | some h' =>
      rw [hg'] at this
      simp [stripH] at this
      obtain ⟨a, b, c, d, e⟩ := this
      exact ⟨h', rfl, a, b, c, fun x => by rw [e]; exact x⟩
  · intro g h' hg' he
    have := h g
    rw [hg'] at this
    cases hg : aget G g with
    | none => rw [hg] at this; simp at this
    | some hd =>
      rw [hg] at this
      simp [stripH] at this
      obtain ⟨a, b, c, d, e⟩ := this
      exact ⟨hd, rfl, by rw [← e]; exact he, b.symm⟩

theorem GSame.none {G G'} (h : GSame G G') {j : Nat} (hj : aget G j = none) : aget G' j = none := by
  have := h j
  rw [hj] at this
  cases hg' : aget G' j with
  | none => rfl
  | some h' => rw [hg'] at this; simp at this

theorem FunOK.monoFw {G G'} (hle : GFw G G') {fn : Fun} (h : FunOK G fn) : FunOK G' fn := by
  intro o ts ht
  obtain ⟨g, hd, hg, ho, hflag⟩ := h o ts ht
  obtain ⟨h', hg', a, b, c, d⟩ := hle g hd hg
  refine ⟨g, h', hg', by rw [a, ho], ?_⟩
  rw [b, c]
  split
  · rename_i ht; simpa [ht] using hflag
  · rename_i ht; simp [ht] at hflag; exact d hflag

theorem SlotOK.monoFw {G G'} (hle : GFw G G') {sl : SlotB} (h : SlotOK G sl) : SlotOK G' sl :=
  fun r fn h1 h2 => (h r fn h1 h2).monoFw hle

theorem FunOK.mono {G G'} (hle : GLe G G') {fn : Fun} (h : FunOK G fn) : FunOK G' fn := h.monoFw hle.1

theorem SlotOK.mono {G G'} (hle : GLe G G') {sl : SlotB} (h : SlotOK G sl) : SlotOK G' sl := h.monoFw hle.1

theorem OwnOK.mono {O : List (Nat × Nat)} {G G'} (hle : GLe G G') (h : OwnOK O G) : OwnOK O G' := by
  intro p hp h' hg' he
  obtain ⟨hd, hg, he0, hfl⟩ := hle.2 p.2 h' hg' he
  rw [← hfl]; exact h p hp hd hg he0

/-- replacing a handle by one of the same object; the last hypothesis (it is not pinned by this) is found
    automatically when `h'` is `{ h with impl := … }` -/
theorem GLe.aset_same {G : List (Nat × Handle)} {g : Nat} {h h' : Handle} (hg : aget G g = some h)
    (a : h'.obj = h.obj) (b : h'.fl = h.fl) (c : h'.trk = h.trk) (d : h.everFwd = true → h'.everFwd = true)
    (d' : h'.everFwd = true → h.everFwd = true := by first | exact id | (intro x; simp_all)) :
    GLe G (aset G g h') := by
  refine ⟨?_, ?_⟩
  · intro j hj hjj
    rw [aget_aset]
    by_cases e : j = g
    · subst e; rw [hg] at hjj; cases hjj
      exact ⟨h', by simp, a, b, c, d⟩
    · simp only [e, if_false]; exact ⟨hj, hjj, rfl, rfl, rfl, id⟩
  · intro j hj hjj he
    rw [aget_aset] at hjj
    by_cases e : j = g
    · subst e; simp only [if_true] at hjj; cases hjj
      exact ⟨h, hg, d' he, b.symm⟩
    · simp only [e, if_false] at hjj; exact ⟨hj, hjj, he, rfl⟩

/-- a new handle (not pinned: found by `rfl` when `h'` is written out) -/
theorem GLe.aset_new {G : List (Nat × Handle)} {g : Nat} (h' : Handle) (hg : aget G g = none)
    (hf : h'.everFwd = false := by rfl) :
    GLe G (aset G g h') := by
  refine ⟨?_, ?_⟩
  · intro j hj hjj
    rw [aget_aset]
    by_cases e : j = g
    · subst e; rw [hg] at hjj; contradiction
    · simp only [e, if_false]; exact ⟨hj, hjj, rfl, rfl, rfl, id⟩
  · intro j hj hjj he
    rw [aget_aset] at hjj
    by_cases e : j = g
    · subst e; simp only [if_true] at hjj; cases hjj
      rw [hf] at he; contradiction
    · simp only [e, if_false] at hjj; exact ⟨hj, hjj, he, rfl⟩

theorem GLe.trans {A B C} (h1 : GLe A B) (h2 : GLe B C) : GLe A C := by
  refine ⟨?_, ?_⟩
  · intro g h hg
    obtain ⟨h', hg', a, b, c, d⟩ := h1.1 g h hg
    obtain ⟨h'', hg'', a', b', c', d'⟩ := h2.1 g h' hg'
    exact ⟨h'', hg'', by rw [a', a], by rw [b', b], by rw [c', c], fun x => d' (d x)⟩
  · intro g h'' hg'' he
    obtain ⟨h', hg', he', hf'⟩ := h2.2 g h'' hg'' he
    obtain ⟨h, hg, he0, hf⟩ := h1.2 g h' hg' he'
    exact ⟨h, hg, he0, by rw [hf, hf']⟩

/-- changing the handle table -/
theorem InvX.setG {off} {s : St} (h : InvX off s) {G' : List (Nat × Handle)} (hle : GLe s.G G')
    (hh : ∀ p ∈ G', ∀ i, p.2.impl = some i → (aget s.impls i).isSome = true) :
    InvX off { s with G := G' } :=
  ⟨h.keys, h.lt, h.ok, h.disj, hh, fun i v hv => (h.fwdS i v hv).mono hle,
   fun i im hi c hc => (h.fwdC i im hi c hc).mono hle, h.noerr, h.own.mono hle⟩

/-- changing the handle table, possibly pinning signal objects (`mkFun … (.fwd g)`) -/
theorem InvX.setGFw {off} {s : St} (h : InvX off s) {G' : List (Nat × Handle)} (hle : GFw s.G G')
    (hh : ∀ p ∈ G', ∀ i, p.2.impl = some i → (aget s.impls i).isSome = true)
    (ho : OwnOK s.ownedG G') :
    InvX off { s with G := G' } :=
  ⟨h.keys, h.lt, h.ok, h.disj, hh, fun i v hv => (h.fwdS i v hv).monoFw hle,
   fun i im hi c hc => (h.fwdC i im hi c hc).monoFw hle, h.noerr, ho⟩

theorem Good.setG {off} {s : St} (h : InvX off s) {G' : List (Nat × Handle)} (hle : GLe s.G G')
    (hh : ∀ p ∈ G', ∀ i, p.2.impl = some i → (aget s.impls i).isSome = true) :
    Good off s { s with G := G' } :=
  ⟨h.setG hle hh, Frame.of_eq (Nat.le_refl _) rfl rfl⟩

/-! ## `gcImpl` -/

theorem Good.gcImpl {s : St} (h : Inv s) (i : Nat) : Good (fun _ => 0) s (gcImpl s i) := by
  unfold Sigc.Model.gcImpl
  cases hi : aget s.impls i with
  | none => exact Good.refl h
  | some im =>
    simp only
    split
    · rename_i hc
      simp only [Bool.and_eq_true, beq_iff_eq, Bool.not_eq_true', List.any_eq_false, decide_eq_true_eq] at hc
      obtain ⟨hh, hg⟩ := hc
      have hx : im.exec = 0 := by have := (h.ok i im hi).eh; omega
      apply Good.nullConnsList
      refine ⟨⟨keys_nodup_adel h.keys i, ?_, ?_, ?_, ?_, h.fwdS, ?_, h.noerr, h.own⟩, ⟨Nat.le_refl _, ?_, ?_, fun _ => rfl⟩⟩
      · intro j jm hj; simp only [aget_adel] at hj; split at hj
        · contradiction
        · exact h.lt j jm hj
      · intro j jm hj; simp only [aget_adel] at hj; split at hj
        · contradiction
        · exact h.ok j jm hj
      · intro a b am bm ha hb; simp only [aget_adel] at ha hb
        split at ha
        · contradiction
        · split at hb
          · contradiction
          · exact h.disj a b am bm ha hb
      · intro p hp j hj
        simp only [aget_adel]
        split
        · rename_i e; subst e; exact absurd hj (by simpa using hg p hp)
        · exact h.himpl p hp j hj
      · intro j jm hj; simp only [aget_adel] at hj; split at hj
        · contradiction
        · exact h.fwdC j jm hj
      · intro j
        by_cases e : j = i
        · subst e; simp [execOf, aget_adel, hi, hx]
        · simp [execOf, aget_adel, e]
      · intro j jm hj hp
        simp only [aget_adel]
        split
        · rename_i e; subst e; rw [hi] at hj; cases hj; omega
        · exact ⟨jm, hj, [], [], by simp⟩
    · exact Good.refl h

/-! ## `ensureImpl` -/

theorem GSame.aset_impl {G : List (Nat × Handle)} {g : Nat} {h : Handle} (hg : aget G g = some h) (x : Option Nat) :
    GSame G (aset G g { h with impl := x }) := by
  intro j
  rw [aget_aset]
  by_cases e : j = g
  · subst e; simp [hg, stripH]
  · simp [e]

theorem GSame.refl (G : List (Nat × Handle)) : GSame G G := fun _ => rfl

theorem GSame.trans {A B C} (h1 : GSame A B) (h2 : GSame B C) : GSame A C := fun j => (h2 j).trans (h1 j)

theorem ensureImpl_good {s s' : St} {g i : Nat} (h : Inv s) (he : ensureImpl s g = some (s', i)) :
    Good (fun _ => 0) s s' ∧ (aget s'.impls i).isSome = true ∧ s'.S = s.S ∧ GSame s.G s'.G ∧
    (∃ hd, aget s'.G g = some hd ∧ hd.impl = some i) ∧ s'.T = s.T ∧ s'.C = s.C ∧ s'.K = s.K := by
  unfold ensureImpl at he
  cases hg : aget s.G g with
  | none => simp [hg] at he
  | some hd =>
    simp only [hg] at he
    cases hi : hd.impl with
    | some i0 =>
      simp [hi] at he
      obtain ⟨rfl, rfl⟩ := he
      exact ⟨Good.refl h, h.himpl (g, hd) (aget_some_mem hg) i0 hi, rfl, GSame.refl _, ⟨hd, hg, hi⟩, rfl, rfl, rfl⟩
    | none =>
      simp [hi, St.fresh] at he
      obtain ⟨rfl, rfl⟩ := he
      have hnone : aget s.impls s.next = none := by
        cases hx : aget s.impls s.next with
        | none => rfl
        | some im => have := (h.lt _ _ hx).1; omega
      have hfresh : ∀ j jm, aget s.impls j = some jm → j ≠ s.next := by
        intro j jm hj e; subst e; rw [hnone] at hj; contradiction
      refine ⟨⟨⟨?_, ?_, ?_, ?_, ?_, ?_, ?_, h.noerr, h.own.mono (GSame.aset_impl hg _).le⟩, ⟨by simp, ?_, ?_, fun _ => rfl⟩⟩, by simp, rfl,
              GSame.aset_impl hg _, ⟨{ hd with impl := some s.next }, by simp, rfl⟩, rfl, rfl, rfl⟩
      · exact keys_nodup_aset h.keys _ _
      · intro j jm hj
        simp only [aget_aset] at hj
        split at hj
        · rename_i e; subst e; cases hj; simp [cids]
        · obtain ⟨a, b⟩ := h.lt j jm hj
          exact ⟨by simp; omega, fun k hk => by have := b k hk; simp; omega⟩
      · intro j jm hj
        simp only [aget_aset] at hj
        split at hj
        · cases hj
          exact ⟨by simp [cids], rfl, by simp [markers], fun _ => rfl, by simp, by simp⟩
        · exact h.ok j jm hj
      · intro a b am bm ha hb hab k hk
        simp only [aget_aset] at ha hb
        split at ha
        · cases ha; simp [cids] at hk
        · split at hb
          · cases hb; simp [cids]
          · exact h.disj a b am bm ha hb hab k hk
      · intro p hp j hj
        simp only [aget_aset]
        split
        · rfl
        · rcases mem_aset hp with hp | hp
          · exact h.himpl p hp j hj
          · subst hp; simp at hj; rename_i e; exact absurd hj.symm e
      · intro j v hv
        exact (h.fwdS j v hv).mono (GSame.aset_impl hg _).le
      · intro j jm hj c hc
        simp only [aget_aset] at hj
        split at hj
        · cases hj; simp at hc
        · exact (h.fwdC j jm hj c hc).mono (GSame.aset_impl hg _).le
      · intro j
        by_cases e : j = s.next
        · subst e; simp [execOf, aget_aset, hnone]
        · simp [execOf, aget_aset, e]
      · intro j jm hj hp
        simp only [aget_aset]
        split
        · rename_i e; exact absurd e (hfresh j jm hj)
        · exact ⟨jm, hj, [], [], by simp⟩

/-! ## `insertCell` -/

theorem insertCell_eq {s : St} {i : Nat} {im : Impl} (hi : aget s.impls i = some im) (first : Bool) (sl : SlotB) :
    insertCell s i first sl =
      (setImpl { s with next := s.next + 1 } i
        { im with cells :=
            if first then ({ id := s.next, slot := (match sl.rep with
                | none => { sl with rep := some { call := false, fn := none } }
                | some _ => sl), linked := true } : Cell) :: im.cells
            else im.cells ++ [({ id := s.next, slot := (match sl.rep with
                | none => { sl with rep := some { call := false, fn := none } }
                | some _ => sl), linked := true } : Cell)] }, s.next) := by
  cases hr : sl.rep <;> simp [insertCell, St.fresh, hi, hr]

theorem ImplOK.insert {k : Nat} {im : Impl} (h : ImplOK k im) (c : Cell) (first : Bool)
    (hid : c.id ∉ cids im) (hr : c.slot.rep.isNone = false) (hl : c.linked = true) :
    ImplOK k { im with cells := if first then c :: im.cells else im.cells ++ [c] } := by
  have hmem : ∀ x, x ∈ (if first then c :: im.cells else im.cells ++ [c]) → x = c ∨ x ∈ im.cells := by
    intro x hx; split at hx
    · simpa using hx
    · simp at hx; exact hx.symm
  refine ⟨?_, h.eh, ?_, h.q1, ?_, ?_⟩
  · simp only [cids] at hid ⊢
    split
    · simp only [List.map_cons, List.nodup_cons]; exact ⟨hid, h.nodup⟩
    · simp only [List.map_append, List.map_cons, List.map_nil]
      rw [List.nodup_append]
      refine ⟨h.nodup, by simp, ?_⟩
      intro a ha b hb; simp at hb; subst hb; intro e; subst e; exact hid ha
  · have : markers { im with cells := if first then c :: im.cells else im.cells ++ [c] } = markers im := by
      simp only [markers]
      split <;> simp [List.countP_cons, List.countP_append, hr]
    rw [this]; exact h.mkr
  · intro x hx hlx
    rcases hmem x hx with e | e
    · subst e; rw [hl] at hlx; contradiction
    · exact h.l x e hlx
  · intro hd x hx hnx
    rcases hmem x hx with e | e
    · subst e; exact hl
    · exact h.d hd x e hnx

theorem insertCell_good {s : St} (h : Inv s) {i : Nat} (hi : (aget s.impls i).isSome = true) (first : Bool)
    (sl : SlotB) (hsl : SlotOK s.G sl) :
    Good (fun _ => 0) s (insertCell s i first sl).1 ∧ (insertCell s i first sl).1.G = s.G ∧
    (insertCell s i first sl).1.S = s.S ∧ (insertCell s i first sl).1.T = s.T ∧
    (insertCell s i first sl).1.C = s.C ∧ (insertCell s i first sl).1.K = s.K := by
  cases hi' : aget s.impls i with
  | none => rw [hi'] at hi; contradiction
  | some im =>
    rw [insertCell_eq hi']
    refine ⟨?_, rfl, rfl, rfl, rfl, rfl⟩
    have h1 : Good (fun _ => 0) s { s with next := s.next + 1 } :=
      Good.of_core h rfl rfl rfl rfl (by simp)
    refine h1.trans ?_
    have hfresh : ∀ j jm, aget s.impls j = some jm → s.next ∉ cids jm := by
      intro j jm hj hk; have := (h.lt j jm hj).2 _ hk; omega
    generalize hc : ({ id := s.next, slot := (match sl.rep with
                | none => { sl with rep := some { call := false, fn := none } }
                | some _ => sl), linked := true } : Cell) = c
    have hcid : c.id = s.next := by subst hc; rfl
    have hcl : c.linked = true := by subst hc; rfl
    have hcr : c.slot.rep.isNone = false := by
      subst hc; simp only; cases hr : sl.rep <;> simp [hr]
    have hcs : SlotOK s.G c.slot := by
      subst hc; simp only; cases hr : sl.rep with
      | none => intro r fn h1 h2; simp at h1; subst h1; simp at h2
      | some r0 => exact hsl
    apply Good.setImpl h1.inv (i := i) (im := im) hi'
    · apply (h.ok i im hi').insert c first _ hcr hcl
      rw [hcid]; exact hfresh i im hi'
    · intro k hk
      simp only [cids] at hk
      split at hk
      · simp at hk; rcases hk with e | e
        · right; subst e; rw [hcid]; exact ⟨by simp, hfresh⟩
        · left; simp [cids]; exact e
      · simp at hk; rcases hk with e | e
        · left; simp [cids]; exact e
        · right; subst e; rw [hcid]; exact ⟨by simp, hfresh⟩
    · intro x hx
      split at hx
      · simp at hx; rcases hx with e | e
        · subst e; exact hcs
        · exact h.fwdC i im hi' x e
      · simp at hx; rcases hx with e | e
        · exact h.fwdC i im hi' x e
        · subst e; exact hcs
    · rfl
    · intro _
      simp only [skel]
      split
      · exact ⟨[(c.id, c.slot.rep.isNone)], [], by simp⟩
      · exact ⟨[], [(c.id, c.slot.rep.isNone)], by simp⟩

end Sigc.Emit
