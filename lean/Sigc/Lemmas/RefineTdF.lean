import Sigc.Lemmas.RefineTdE
/-!
# Refine work package — the simulation tracking the specification's error flag, part F: `emitLoop`, `emitImpl`
(proofs as in `RefineSimC` / `RefineSimE`, with `R` replaced by `RE e`), the mutual induction and the runner.
-/
namespace Sigc.Refine
open Sigc.Model

theorem loop_simE0 : LoopE 0 := by
  intro e P s t i cur m arg r B Z done todo tl s' o v _ _ _ _ _ _ h
  simp [Model.emitLoop] at h

theorem loop_simE (f : Nat) (hi : InvokeE f) (hl : LoopE f) : LoopE (f+1) := by
  intro e P s t i cur m arg r B Z done todo tl s' o v hs hR hb hB hcur hoff h g hg
  obtain ⟨g', rfl⟩ : ∃ g', g = g' + 1 := ⟨g - 1, by omega⟩
  have hg' : f ≤ g' := by omega
  rw [StepIter.emitLoop_unfold] at h
  obtain ⟨im, pre, post, him, hids, hn, hnB⟩ := blk_ids hs hb
  rw [hB] at hnB
  by_cases hcm : cur = m
  · simp only [hcm, if_true] at h
    cases h
    have htodo : todo = [] := by
      cases todo with
      | nil => rfl
      | cons x xs =>
        exfalso
        simp at hcur
        have hx : x = m := by rw [hcur.1, hcm]
        have := (List.nodup_append.mp hnB).2.2 m (by rw [← hx]; simp) m (by simp)
        exact this rfl
    subst htodo
    refine ⟨t, ?_, hR⟩
    simp [Spec.turns]
  · simp only [hcm, if_false] at h
    cases todo with
    | nil => simp at hcur; exact absurd hcur.1.symm hcm
    | cons x todo' =>
      simp at hcur
      obtain ⟨hx, htl⟩ := hcur
      subst hx
      obtain ⟨n, tl', hnt⟩ : ∃ n tl', todo' ++ [m] = n :: tl' := by
        cases todo' with
        | nil => exact ⟨m, [], rfl⟩
        | cons y ys => exact ⟨y, ys ++ [m], rfl⟩
      have hB' : B.map (·.1) = done ++ x :: n :: tl' := by
        rw [hB]; simp; rw [← hnt]
      have hB2 : B.map (·.1) = (done ++ [x]) ++ todo' ++ [m] := by rw [hB]; simp
      obtain ⟨im0, c, him0, hfind⟩ := hb.find (k := x) (by rw [hB]; simp)
      rw [him0] at h
      simp only [hfind] at h
      by_cases hz : x ∈ Z
      · -- the cell is unlinked for good: the model steps over it, the specification has no turn for it
        have hfil : (x :: todo').filter (fun k => !Z.contains k) = todo'.filter (fun k => !Z.contains k) := by
          simp [List.filter, hz]
        rw [hfil]
        simp only [StepIter.emitStep, off_not_callable hs hoff hz] at h
        obtain ⟨im1, him1, hsucc⟩ := blk_succ hs hb hB'
        rw [him1] at h
        simp only [hsucc] at h
        exact hl e P s t i n m arg r B Z (done ++ [x]) todo' tl' s' o v hs hR hb hB2 hnt hoff h (g' + 1) (by omega)
      · have hfil : (x :: todo').filter (fun k => !Z.contains k) = x :: todo'.filter (fun k => !Z.contains k) := by
          simp [List.filter, hz]
        rw [hfil, StepIter.spec_turns_unfold, callable_sim hs hR.r]
        simp only [StepIter.emitStep] at h
        cases hc : StepIter.callableAt s i x with
        | none =>
          simp only [hc] at h ⊢
          obtain ⟨im1, him1, hsucc⟩ := blk_succ hs hb hB'
          rw [him1] at h
          simp only [hsucc] at h
          exact hl e P s t i n m arg r B Z (done ++ [x]) todo' tl' s' o v hs hR hb hB2 hnt hoff h g' hg'
        | some fn =>
          simp only [hc] at h ⊢
          obtain ⟨im2, c2, him2, hfind2, hrep, _⟩ := StepIter.callableAt_eq_some s i x fn hc
          have hfok : Emit.FunOK s.G fn :=
            hs.fwdC i im2 him2 c2 (Emit.find_mem hfind2).1 _ fn hrep rfl
          cases hinv : Model.invokeFun f P s fn arg with
          | none => rw [hinv] at h; simp at h
          | some res =>
            obtain ⟨s1, o1, v1⟩ := res
            rw [hinv] at h
            obtain ⟨t1, ht1, hR1⟩ := hi e P s t fn arg s1 o1 v1 hs hfok hR hinv g' hg'
            rw [ht1]
            have g1 := (Emit.all_ok f).invoke P s fn arg s1 o1 v1 hs hfok hinv
            cases o1 with
            | exc =>
              simp only at h ⊢
              cases h
              exact ⟨t1, rfl, hR1⟩
            | ok =>
              simp only at h ⊢
              have hb1 := hb.frame g1.frame
              have hoff1 := ((all_keeps f).invoke P s fn arg s1 .ok v1 hinv).off Z hoff
              obtain ⟨im1, him1, hsucc⟩ := blk_succ g1.inv hb1 hB'
              rw [him1] at h
              simp only [hsucc] at h
              exact hl e P s1 t1 i n m arg v1 B Z (done ++ [x]) todo' tl' s' o v g1.inv hR1 hb1 hB2 hnt hoff1 h g' hg'

theorem emit_simE0 : EmitE 0 := by
  intro e P s t fl impl arg strat s' o v _ _ _ h
  simp [Model.emitImpl] at h

theorem emit_simE (f : Nat) (hst : StratE f) (hl : LoopE f) : EmitE (f+1) := by
  intro e P s t fl impl arg strat s' o v hs himpl hR h g hg
  obtain ⟨g', rfl⟩ : ∃ g', g = g' + 1 := ⟨g - 1, by omega⟩
  have hg' : f ≤ g' := by omega
  cases impl with
  | none =>
    rw [Model.emitImpl] at h
    simp at h
    obtain ⟨rfl, rfl, rfl⟩ := h
    exact ⟨t, by rw [Spec.emitSig], hR⟩
  | some i =>
    cases hi : aget s.impls i with
    | none => have := himpl i rfl; rw [hi] at this; contradiction
    | some im =>
      obtain ⟨g0, hg0, hr⟩ := hR.r.sig_of_impl hi
      have hok := hs.ok i im hi
      rw [spec_emitSig_some hg0 hR.r.k2, ← F2.isEmpty hr.cells]
      rw [Model.emitImpl] at h
      rw [hi] at h
      simp only at h
      split at h
      · rename_i hc
        simp at h
        obtain ⟨rfl, rfl, rfl⟩ := h
        rw [if_pos hc]
        exact ⟨t, rfl, hR⟩
      · rename_i hc
        rw [if_neg hc]
        rw [show s.fresh = (s.next, { s with next := s.next + 1 }) from rfl] at h
        simp only at h
        obtain ⟨h1, hb1⟩ := Emit.emitStart_inv hs hi
        have hR1 : RE e (Emit.emitStart s i im) (specStart t i g0) := ⟨R_start hs hR.r hi hg0 hr, hR.err⟩
        obtain ⟨tl, hcur⟩ := first_head s im
        have hB : (Emit.skel im ++ [(s.next, true)]).map (·.1) = Emit.cids im ++ [s.next] := by
          simp [Emit.cids_eq_skel]
        split at h
        · contradiction
        · rename_i s2 o2 v2 hr2
          have hr2' : (if fl.isAcc = true then
                Model.runStrat f P (Emit.emitStart s i im) i (Emit.emitFirst s im) s.next arg (strat.forFlavour fl)
              else Model.emitLoop f P (Emit.emitStart s i im) i (Emit.emitFirst s im) s.next arg 0) = some (s2, o2, v2) := hr2
          -- the loop / the accumulator on both sides
          have hloop : Emit.Good0 (Emit.emitStart s i im) s2 ∧ ∃ t2,
              (if fl.isAcc = true then Spec.runStrat g' P (specStart t i g0) i (specSnap fl g0) arg (strat.forFlavour fl)
               else Spec.turns g' P (specStart t i g0) i (specSnap fl g0) arg 0) = some (t2, o2, v2) ∧ RE e s2 t2 := by
            cases hacc : fl.isAcc with
            | true =>
              simp only [hacc, if_true] at hr2' ⊢
              refine ⟨(Emit.all_ok f).strat P _ i _ s.next arg (strat.forFlavour fl) (Emit.skel im) tl s2 o2 v2 h1 hb1
                (by rw [hB]; exact hcur) hr2', ?_⟩
              rw [specSnap_acc hacc hr]
              exact hst e P _ _ i _ s.next arg (strat.forFlavour fl) (Emit.cids im) _ s2 o2 v2 h1 hR1 hb1 hB
                (by rw [hcur]; rfl) hr2' g' hg'
            | false =>
              simp only [hacc, Bool.false_eq_true, if_false] at hr2' ⊢
              refine ⟨(Emit.all_ok f).loop P _ i _ s.next arg 0 (Emit.skel im) s2 o2 v2 h1 hb1
                (by rw [hB, hcur]; simp) hr2', ?_⟩
              rw [specSnap_nonacc hacc hr hok.nodup]
              exact hl e P _ _ i _ s.next arg 0 _ (unlinkedIds im) [] (Emit.cids im) tl s2 o2 v2 h1 hR1 hb1
                (by rw [hB]; simp) hcur (off_start hs hi) hr2' g' hg'
          obtain ⟨g12, t2, ht2, hR2⟩ := hloop
          rw [ht2]
          simp only
          -- the epilogue
          obtain ⟨im2, hi2, hx2, pre, post, hsk2⟩ := hb1.frame g12.frame
          have hmem : (s.next, true) ∈ Emit.skel im2 := by rw [hsk2]; simp
          obtain ⟨cm, hcm, hcmid, hcmn⟩ := Emit.mem_skel hmem
          have hany : im2.cells.any (·.id = s.next) = true :=
            Emit.any_of_mem_ids (List.mem_map.mpr ⟨cm, hcm, hcmid⟩)
          rw [hi2] at h
          simp only at h
          rw [if_pos hany] at h
          have hepi : some (Model.collect (gcImpl (Emit.epilogue s2 i s.next) i), o2, v2) = some (s', o, v) := h
          simp at hepi
          obtain ⟨e1, e2, e3⟩ := hepi
          subst e1; subst e2; subst e3
          obtain ⟨g2, hg2, hr2s⟩ := hR2.r.sig_of_impl hi2
          rw [hg2]
          simp only
          rw [hR.r.next]
          have hRe := R_epilogue g12.inv hR2.r hi2 hg2 hr2s (by omega) (List.mem_map.mpr ⟨cm, hcm, hcmid⟩)
          have hie := inv_epilogue g12.inv hi2 (by omega) ⟨cm, hcm, hcmid, hcmn⟩
          have hRg := R_gc hie hRe i
          have hig := (Emit.Good.gcImpl hie i).inv
          exact ⟨_, rfl, R_collect hig hRg, by
            rw [SErr.collect_err, SErr.gcSig_err]; exact hR2.err⟩

/-! ## the mutual induction -/

/-- all functions of the mutual block, at a given fuel (`deref` only inside the snapshot) -/
structure AllSimE (f : Nat) : Prop where
  invoke : InvokeE f
  body : BodyE f
  line : LineE f
  emit : EmitE f
  loop : LoopE f
  deref : DerefE f
  acc : AccE f
  rev : RevE f
  walk : WalkE f
  strat : StratE f
  op : OpE f

theorem all_simE : ∀ f, AllSimE f := by
  intro f
  induction f with
  | zero =>
    exact ⟨invoke_simE0, body_simE0, line_simE0, emit_simE0, loop_simE0, deref_simE0, acc_simE0, rev_simE0, walk_simE0,
      strat_simE0, op_simE0⟩
  | succ f ih =>
    exact ⟨invoke_simE f ih.body ih.invoke ih.emit, body_simE f ih.line ih.body, line_simE f ih.op,
      emit_simE f ih.strat ih.loop, loop_simE f ih.invoke ih.loop, deref_simE f ih.invoke,
      acc_simE f ih.deref ih.acc, rev_simE f ih.deref ih.rev, walk_simE f ih.deref ih.walk,
      strat_simE f ih.acc ih.rev ih.walk, op_simE f ih.invoke ih.emit⟩

/-- the top-level runner: same fuel on both sides; the specification's error flag is never set -/
theorem runTop_simE (f : Nat) (P : Prog) (ls : List Line) : ∀ (e : Option String) (s : St) (t : Spec.LSt) (s' : St),
    Emit.Inv s → RE e s t → Quiet s →
    Model.runTop f P s ls = some s' → ∃ t', Spec.runTop f P t ls = some t' ∧ RE e s' t' := by
  induction ls with
  | nil =>
    intro e s t s' _ hR _ h
    simp [Model.runTop] at h; subst h
    exact ⟨t, by simp [Spec.runTop], hR⟩
  | cons l ls ih =>
    intro e s t s' hs hR hq h
    simp only [Model.runTop] at h
    split at h
    · contradiction
    · rename_i s1 o1 h1
      obtain ⟨t1, ht1, hR1⟩ := (all_simE f).line e P s t l s1 o1 hs hR hq h1 f (Nat.le_refl _)
      have g1 := (Emit.all_ok f).line P s l s1 o1 hs h1
      have hq1 : Quiet s1 := hq.step g1.frame (execLine_keeps h1).depth
      obtain ⟨t', ht', hR'⟩ := ih e s1 t1 s' g1.inv hR1 hq1 h
      refine ⟨t', ?_, hR'⟩
      simp only [Spec.runTop, ht1]
      exact ht'

end Sigc.Refine
