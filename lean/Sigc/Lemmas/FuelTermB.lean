import Sigc.Lemmas.FuelTermA
/-!
# Fuel work package — termination, part B: emissions, functors, operations, bodies, programs

Given the level invariant (`LvlStable`):

* `emit_term` — an emission of a slot list bounded by `L` terminates if functors forwarding below `L` do;
* `invoke_term` — a functor forwarding below `ℓ` terminates if bodies one level deeper do and emissions of
  lists bounded by some `L < ℓ` do (structural recursion on the functor value);
* `invoke_emit_term` — both, for every level (strong induction on the level);
* `body_term` — bodies at nesting depth `≥ δ` terminate, by downward induction on `δ` from `P.maxdepth`
  (where `callS` and `emit` answer `toodeep`);
* `runTop_term` — every program terminates.
-/
namespace Sigc.Fuel
open Sigc.Model

/-- emissions of slot lists bounded by `L` terminate at nesting depth `≥ δ` -/
def EmitT (P : Prog) (δ L : Nat) : Prop :=
  ∀ s fl impl arg strat, W δ none s →
    (∀ i, impl = some i → (aget s.impls i).isSome = true ∧ Bnd s i L ∧ i < s.next) →
    ∃ f r, emitImpl f P s fl impl arg strat = some r

/-- bodies run at nesting depth `≥ δ` terminate -/
def BodyT (P : Prog) (δ : Nat) : Prop := ∀ s ls, W δ none s → ∃ f r, runBody f P s ls = some r

/-- operations at nesting depth `≥ δ` terminate -/
def OpT (P : Prog) (δ : Nat) : Prop := ∀ s op, W δ none s → ∃ f r, execOp f P s op = some r

section
variable (hL : LvlStable)
include hL

theorem emit_term {P : Prog} {δ L : Nat} (hT : InvokeT P δ L) : EmitT P δ L := by
  intro s fl impl arg strat w himpl
  cases impl with
  | none => exact ⟨1, (s, .ok, 0), by rw [emitImpl]⟩
  | some i =>
    obtain ⟨hsome, hbnd, hlt⟩ := himpl i rfl
    obtain ⟨im, him⟩ := Option.isSome_iff_exists.mp hsome
    by_cases hemp : (!fl.isAcc && im.cells.isEmpty) = true
    · exact ⟨1, (s, .ok, 0), by rw [Sigc.Inv.emitImpl_succ, him]; simp only [hemp, if_true]⟩
    · obtain ⟨h1, hb1⟩ := Emit.emitStart_inv w.inv him
      have w1 : W δ (some (i, L)) (Sigc.Inv.emitPro s i im) :=
        ⟨h1, hL.pro (some (i, L)) s i im ⟨w.jk.1, fun i' L' e => by cases e; exact ⟨hbnd, hlt⟩⟩ him, w.dep⟩
      have hb1' : Emit.InBlk (Sigc.Inv.emitPro s i im) i (Emit.skel im ++ [(s.next, true)]) := hb1
      obtain ⟨rest, hB⟩ : ∃ rest, (Emit.skel im ++ [(s.next, true)]).map (·.1) =
          (match im.cells with | [] => s.next | c :: _ => c.id) :: rest := by
        cases hc : im.cells with
        | nil => exact ⟨[], by simp [Emit.skel, hc]⟩
        | cons c t => exact ⟨t.map (·.id) ++ [s.next], by simp [Emit.skel, hc, List.map_map, Function.comp_def]⟩
      have key : ∃ f res, (if fl.isAcc then
            runStrat f P (Sigc.Inv.emitPro s i im) i (match im.cells with | [] => s.next | c :: _ => c.id) s.next arg
              (strat.forFlavour fl)
          else emitLoop f P (Sigc.Inv.emitPro s i im) i (match im.cells with | [] => s.next | c :: _ => c.id) s.next
              arg 0) = some res := by
        cases hacc : fl.isAcc with
        | true =>
          obtain ⟨f, res, h⟩ := strat_term hL hT _ _ s.next arg (strat.forFlavour fl) (Emit.skel im) rest w1 hb1' hB
          exact ⟨f, res, by simpa using h⟩
        | false =>
          have hB2 : (Emit.skel im ++ [(s.next, true)]).map (·.1) = [] ++ Emit.cids im ++ [s.next] := by
            simp [Emit.cids_eq_skel]
          have hcur : Emit.cids im ++ [s.next] = (match im.cells with | [] => s.next | c :: _ => c.id) :: rest := by
            rw [← hB]; simp [Emit.cids_eq_skel]
          obtain ⟨f, res, h⟩ := loop_term hL hT (Emit.cids im) _ _ s.next arg 0 _ [] rest w1 hb1' hB2 hcur
          exact ⟨f, res, by simpa using h⟩
      obtain ⟨f, ⟨s2, o, v⟩, h⟩ := key
      refine ⟨f + 1, (Sigc.Inv.emitEpi s2 i s.next, o, v), ?_⟩
      rw [Sigc.Inv.emitImpl_succ, him]
      simp only [hemp, Bool.false_eq_true, ↓reduceIte]
      split
      · rename_i heq
        exact absurd (h.symm.trans heq) (by simp)
      · rename_i s2' o' v' heq
        have e := h.symm.trans heq
        simp only [Option.some.injEq, Prod.mk.injEq] at e
        obtain ⟨rfl, rfl, rfl⟩ := e
        rfl

theorem W.enter {δ : Nat} {s : St} (w : W δ none s) (e : Event) :
    W (δ + 1) none { (s.log e) with depth := (s.log e).depth + 1 } :=
  ⟨w.inv.congr rfl rfl rfl rfl (Nat.le_refl _), hL.core.depth _ _ _ (hL.core.log _ _ e w.jk),
   Nat.succ_le_succ w.dep⟩

theorem invoke_term_aux {P : Prog} {δ ℓ : Nat} (hB : BodyT P (δ + 1)) (hE : ∀ L, L < ℓ → EmitT P δ L) :
    ∀ (fn : Fun) (s : St) (arg : Nat), W δ none s → Emit.FunOK s.G fn → FunLt s.next s.G fn ℓ →
      ∃ f r, invokeFun f P s fn arg = some r
  | .leaf fid ts, s, arg, w, _, _ => by
    cases hb : aget P.bodies fid with
    | none => exact ⟨1, _, by rw [invokeFun.eq_def]; simp only [hb]; rfl⟩
    | some body =>
      obtain ⟨f, ⟨s2, o⟩, h⟩ := hB _ body (w.enter hL (.call s.depth fid arg))
      exact ⟨f + 1, _, by rw [invokeFun.eq_def]; simp only [hb, h]; rfl⟩
  | .owner fid a b, s, arg, w, _, _ => by
    cases hb : aget P.bodies fid with
    | none => exact ⟨1, _, by rw [invokeFun.eq_def]; simp only [hb]; rfl⟩
    | some body =>
      obtain ⟨f, ⟨s2, o⟩, h⟩ := hB _ body (w.enter hL (.call s.depth fid arg))
      exact ⟨f + 1, _, by rw [invokeFun.eq_def]; simp only [hb, h]; rfl⟩
  | .nest blocked none, s, arg, w, _, _ => ⟨1, _, by rw [invokeFun.eq_def]⟩
  | .nest true (some g), s, arg, w, _, _ => ⟨1, _, by rw [invokeFun.eq_def]; simp only [if_true]; rfl⟩
  | .nest false (some g), s, arg, w, hok, hlt => by
    obtain ⟨f, r, h⟩ := invoke_term_aux hB hE g s arg w (fun o ts ht => hok o ts ht) (fun o ts ht => hlt o ts ht)
    exact ⟨f + 1, r, by rw [invokeFun.eq_def]; simp only [Bool.false_eq_true, if_false]; exact h⟩
  | .fwd ob ts, s, arg, w, hok, hlt => by
    cases hh : handleByObj s ob with
    | none => exact ⟨1, _, by rw [invokeFun.eq_def]; simp only [hh]; rfl⟩
    | some p =>
      obtain ⟨g, hd⟩ := p
      have hmem : (g, hd) ∈ s.G := List.mem_of_find?_eq_some hh
      have hobj : hd.obj = ob := by simpa using List.find?_some hh
      have hlvl : hd.lvl < ℓ := by
        have := (hlt ob ts rfl).2 (g, hd) hmem hobj
        exact Int.ofNat_lt.mp this
      obtain ⟨f, r, h⟩ := hE hd.lvl hlvl s hd.fl hd.impl arg .sum w (fun i hi =>
        ⟨w.inv.himpl (g, hd) hmem i hi, w.jk.1.impls (g, hd) hmem i hi, w.jk.1.impllt (g, hd) hmem i hi⟩)
      exact ⟨f + 1, r, by rw [invokeFun.eq_def]; simp only [hh]; exact h⟩

theorem invoke_term {P : Prog} {δ ℓ : Nat} (hB : BodyT P (δ + 1)) (hE : ∀ L, L < ℓ → EmitT P δ L) :
    InvokeT P δ ℓ := fun s fn arg w hok hlt => invoke_term_aux hL hB hE fn s arg w hok hlt

/-- functors and emissions terminate at nesting depth `≥ δ`, whatever their level, if bodies terminate one
    level deeper -/
theorem invoke_emit_term {P : Prog} {δ : Nat} (hB : BodyT P (δ + 1)) : ∀ ℓ, InvokeT P δ ℓ ∧ EmitT P δ ℓ := by
  intro ℓ
  induction ℓ using Nat.strongRecOn with
  | _ ℓ ih =>
    have hi : InvokeT P δ ℓ := invoke_term hL hB (fun L hL' => (ih L hL').2)
    exact ⟨hi, emit_term hL hi⟩

theorem op_term {P : Prog} {δ : Nat} (hI : P.maxdepth ≤ δ ∨ ∀ ℓ, InvokeT P δ ℓ ∧ EmitT P δ ℓ) : OpT P δ := by
  intro s op w
  have simple : ∀ op : Op, (∀ i a, op ≠ .callS i a) → (∀ g a st t, op ≠ .emit g a st t) →
      ∃ r, execOp 1 P s op = some r := by
    intro op h1 h2
    rw [execOp.eq_def]
    cases op <;> simp only [] <;>
      first
      | exact absurd rfl (h1 _ _)
      | exact absurd rfl (h2 _ _ _ _)
      | exact ⟨_, rfl⟩
      | (split <;> first | exact ⟨_, rfl⟩ | (split <;> exact ⟨_, rfl⟩))
  cases op with
  | callS i arg =>
    cases hv : aget s.S i with
    | none => exact ⟨1, _, by rw [execOp.eq_def]; simp only [hv]; rfl⟩
    | some v =>
      by_cases hd : s.depth ≥ P.maxdepth
      · exact ⟨1, _, by rw [execOp.eq_def]; simp only [hv, hd, if_true]; rfl⟩
      · by_cases hst : s.steps > P.maxsteps
        · exact ⟨1, _, by rw [execOp.eq_def]; simp only [hv, hd, if_false, hst, if_true]; rfl⟩
        · rcases hrep : v.slot.rep with _ | ⟨_ | _, _ | fn⟩
          · exact ⟨1, _, by rw [execOp.eq_def]; simp only [hv, hd, if_false, hst, hrep]; rfl⟩
          · exact ⟨1, _, by rw [execOp.eq_def]; simp only [hv, hd, if_false, hst, hrep]; rfl⟩
          · exact ⟨1, _, by rw [execOp.eq_def]; simp only [hv, hd, if_false, hst, hrep]; rfl⟩
          · exact ⟨1, _, by rw [execOp.eq_def]; simp only [hv, hd, if_false, hst, hrep]; rfl⟩
          · cases hbl : v.slot.blocked with
            | true => exact ⟨1, _, by rw [execOp.eq_def]; simp only [hv, hd, if_false, hst, hrep, hbl, if_true]; rfl⟩
            | false =>
              have hT : ∀ ℓ, InvokeT P δ ℓ := by
                rcases hI with h | h
                · exact absurd (Nat.le_trans h w.dep) hd
                · exact fun ℓ => (h ℓ).1
              have hsl := w.inv.fwdS i v hv
              have w1 : W δ none (Sigc.Inv.callPro s i v) :=
                ⟨Emit.InvX.setS w.inv i _ hsl, hL.callPro none s i v w.jk hv, w.dep⟩
              have hlt : FunLt (Sigc.Inv.callPro s i v).next (Sigc.Inv.callPro s i v).G fn ((v.taint + 1).toNat : Nat) :=
                (w.jk.1.slots i v hv fn (by simp [fnOf, hrep])).mono (by omega)
              obtain ⟨f, ⟨s1, o, r⟩, h⟩ := hT _ (Sigc.Inv.callPro s i v) fn arg w1 (hsl _ fn hrep rfl) hlt
              refine ⟨f + 1, ?_⟩
              rw [execOp.eq_def]
              simp only [hv, hd, if_false, hst, hrep, hbl, Bool.false_eq_true]
              have h' : invokeFun f P { s with S := aset s.S i { v with incall := v.incall + 1 } } fn arg =
                  some (s1, o, r) := h
              rw [h']
              cases o <;> exact ⟨_, rfl⟩
  | emit g arg strat try_ =>
    cases hg : aget s.G g with
    | none => exact ⟨1, _, by rw [execOp.eq_def]; simp only [hg]; rfl⟩
    | some hd =>
      by_cases hdp : s.depth ≥ P.maxdepth
      · exact ⟨1, _, by rw [execOp.eq_def]; simp only [hg, hdp, if_true]; rfl⟩
      · by_cases hst : s.steps > P.maxsteps
        · exact ⟨1, _, by rw [execOp.eq_def]; simp only [hg, hdp, if_false, hst, if_true]; rfl⟩
        · have hE : EmitT P δ hd.lvl := by
            rcases hI with h | h
            · exact absurd (Nat.le_trans h w.dep) hdp
            · exact (h hd.lvl).2
          have hmem : (g, hd) ∈ s.G := Emit.aget_some_mem hg
          obtain ⟨f, ⟨s1, o, r⟩, h⟩ := hE s hd.fl hd.impl arg strat w (fun i hi =>
            ⟨w.inv.himpl (g, hd) hmem i hi, w.jk.1.impls (g, hd) hmem i hi, w.jk.1.impllt (g, hd) hmem i hi⟩)
          refine ⟨f + 1, ?_⟩
          rw [execOp.eq_def]
          simp only [hg, hdp, if_false, hst, h]
          cases o
          · exact ⟨_, rfl⟩
          · cases try_ <;> exact ⟨_, rfl⟩
  | _ => exact ⟨1, simple _ (fun _ _ h => by cases h) (fun _ _ _ _ h => by cases h)⟩

theorem W.line {δ k f P s l s' o} (w : W δ k s) (e : execLine f P s l = some (s', o)) : W δ k s' := by
  have g := (Emit.all_ok f).line P s l s' o w.inv e
  refine ⟨g.inv, (Sigc.Inv.preservedCore hL.core f).2.2.1 k P s l _ w.jk e, ?_⟩
  rw [(Sigc.Refine.execLine_keeps e).depth]; exact w.dep

theorem line_term {P : Prog} {δ : Nat} (hO : OpT P δ) (s : St) (l : Line) (w : W δ none s) :
    ∃ f r, execLine f P s l = some r := by
  have w1 : W δ none { s with steps := s.steps + 1 } :=
    ⟨w.inv.congr rfl rfl rfl rfl (Nat.le_refl _), hL.core.steps _ _ _ w.jk, w.dep⟩
  obtain ⟨f, ⟨s1, res⟩, h⟩ := hO _ l.op w1
  refine ⟨f + 1, ?_⟩
  rw [execLine]
  simp only [h]
  cases res <;> exact ⟨_, rfl⟩

theorem body_term {P : Prog} {δ : Nat} (hO : OpT P δ) : BodyT P δ := by
  intro s ls
  induction ls generalizing s with
  | nil => intro _; exact ⟨1, _, by rw [runBody]⟩
  | cons l ls ih =>
    intro w
    obtain ⟨f1, ⟨s1, o⟩, h1⟩ := line_term hL hO s l w
    cases o with
    | exc => exact ⟨f1 + 1, (s1, .exc), by rw [runBody]; simp only [h1]⟩
    | ok =>
      obtain ⟨f2, r, h2⟩ := ih s1 (w.line hL h1)
      refine ⟨max f1 f2 + 1, r, ?_⟩
      rw [runBody]
      simp only [execLine_mono (Nat.le_max_left f1 f2) h1]
      exact runBody_mono (Nat.le_max_right f1 f2) h2

/-- operations (hence lines and bodies) terminate at every nesting depth: downward induction from `P.maxdepth` -/
theorem op_all (P : Prog) : ∀ (n δ : Nat), P.maxdepth ≤ δ + n → OpT P δ := by
  intro n
  induction n with
  | zero => intro δ h; exact op_term hL (Or.inl h)
  | succ n ih =>
    intro δ h
    have hO1 : OpT P (δ + 1) := ih (δ + 1) (by omega)
    exact op_term hL (Or.inr (invoke_emit_term hL (body_term hL hO1)))

theorem runTop_term (P : Prog) : ∀ (ls : List Line) (s : St), W 0 none s → ∃ f s', runTop f P s ls = some s' := by
  intro ls
  induction ls with
  | nil => intro s _; exact ⟨0, s, rfl⟩
  | cons l ls ih =>
    intro s w
    have hO : OpT P 0 := op_all hL P P.maxdepth 0 (by omega)
    obtain ⟨f1, ⟨s1, o⟩, h1⟩ := line_term hL hO s l w
    obtain ⟨f2, s', h2⟩ := ih s1 (w.line hL h1)
    refine ⟨max f1 f2, s', ?_⟩
    simp only [runTop, execLine_mono (Nat.le_max_left f1 f2) h1]
    exact runTop_mono (Nat.le_max_right f1 f2) P ls s1 s' h2

/-- **every program terminates** (given the level invariant) -/
theorem terminates_of_lvl (P : Prog) : ∃ fuel s, runTop fuel P {} P.top = some s :=
  runTop_term hL P P.top {} ⟨Emit.inv_init, JK.init, Nat.zero_le _⟩

end

end Sigc.Fuel
