import Sigc.Lemmas.RefineCollect
import Sigc.Lemmas.RefineStepAll
import Sigc.Lemmas.RefineExtra
import Sigc.Lemmas.StepIter3
import Sigc.Lemmas.StepIter5
import Sigc.Lemmas.EmitTurns
/-!
# Refine work package — the statements of the simulation of the mutual block (one per function, at a
given fuel), and the facts shared by their proofs: callable cells agree, positions inside the block of
an emission, `Quiet` is kept.

Fuel: the model runs with fuel `f`, the specification with any fuel `g ≥ f` (the specification never
needs more fuel than the model: it skips the entries the model steps over).
-/
namespace Sigc.Refine
open Sigc.Model

/-! ## results of `execOp` -/

def ResR : Except Unit String → Except Unit String → Prop
  | .error _, .error _ => True
  | .ok r', .ok r => ResAllows r' r
  | _, _ => False

/-! ## small updates of related states -/

theorem R.log {s : St} {t : Spec.LSt} (hR : R s t) (e : Event) : R (s.log e) (t.log e) :=
  ⟨hR.T, hR.S, hR.G, hR.C, hR.K, hR.sigs, hR.ownedT, hR.ownedK, hR.ownedG, hR.next, hR.depth, hR.steps,
    Allows.cons_same hR.trace e, hR.k1, hR.k2⟩

theorem R.logRes {s : St} {t : Spec.LSt} (hR : R s t) (d : Nat) (text : String) {rs rm : String} (hr : ResAllows rs rm) :
    R (s.log (.res d text rm)) (t.log (.res d text rs)) :=
  ⟨hR.T, hR.S, hR.G, hR.C, hR.K, hR.sigs, hR.ownedT, hR.ownedK, hR.ownedG, hR.next, hR.depth, hR.steps,
    Allows.cons_res hR.trace d text hr, hR.k1, hR.k2⟩

theorem R.setDepth {s : St} {t : Spec.LSt} (hR : R s t) (d : Nat) : R { s with depth := d } { t with depth := d } :=
  ⟨hR.T, hR.S, hR.G, hR.C, hR.K, hR.sigs, hR.ownedT, hR.ownedK, hR.ownedG, hR.next, rfl, hR.steps, hR.trace, hR.k1, hR.k2⟩

theorem R.setSteps {s : St} {t : Spec.LSt} (hR : R s t) (n : Nat) : R { s with steps := n } { t with steps := n } :=
  ⟨hR.T, hR.S, hR.G, hR.C, hR.K, hR.sigs, hR.ownedT, hR.ownedK, hR.ownedG, hR.next, hR.depth, rfl, hR.trace, hR.k1, hR.k2⟩

/-! ## `Quiet` -/

theorem Quiet.of_depth {s : St} (h : s.depth ≠ 0) : Quiet s := fun e => absurd e h

/-- a piece of code that restores the emission counters and the depth keeps `Quiet` -/
theorem Quiet.step {s s' : St} (hq : Quiet s) (hf : Emit.Frame s s') (hd : s'.depth = s.depth) : Quiet s' := by
  intro e i
  rw [hf.exec i]
  exact hq (by rw [← hd]; exact e) i

theorem quiet_init : Quiet ({} : St) := by
  intro _ i
  simp [Emit.execOf]

/-! ## the refused operations -/

theorem modeRule_sim {s : St} {t : Spec.LSt} (hR : R s t) (P : Prog) (op : Op) :
    Spec.modeRule P t op = Model.modeRule P s op := by
  unfold Spec.modeRule Model.modeRule
  cases op <;> first | rfl | (simp only [hR.S, hR.steps]; rfl) | (simp only [hR.S, hR.steps])

/-! ## callable cells agree -/

/-- the functor a slot value lets through: valid and unblocked -/
def slotCallable (sl : SlotB) : Option Fun :=
  match sl.rep with
  | some { call := true, fn := some fn } => if sl.blocked then none else some fn
  | _ => none

theorem slotCallable_empty {sl : SlotB} (h : sl.empty = true) : slotCallable sl = none := by
  obtain ⟨bl, rp⟩ := sl
  unfold SlotB.empty at h
  unfold slotCallable
  cases rp with
  | none => rfl
  | some r =>
    obtain ⟨call, fn⟩ := r
    cases call
    · rfl
    · simp at h

theorem specCallable_eq {t : Spec.LSt} {i cid : Nat} {g : Spec.LSig} {d : Spec.LCell} (hg : aget t.sigs i = some g)
    (hd : g.cells.find? (fun c => c.id = cid) = some d) : StepIter.specCallable t i cid = slotCallable d.slot := by
  unfold StepIter.specCallable slotCallable
  simp only [hg, Option.bind_some, hd]
  obtain ⟨did, ⟨dbl, drp⟩, dmk, dzo⟩ := d
  cases drp with
  | none => cases dbl <;> rfl
  | some r =>
    obtain ⟨call, fn⟩ := r
    cases call <;> cases fn <;> cases dbl <;> rfl

theorem callableAt_eq {s : St} {i cid : Nat} {im : Impl} {c : Cell} (hi : aget s.impls i = some im)
    (hc : im.cells.find? (fun c => c.id = cid) = some c) : StepIter.callableAt s i cid = slotCallable c.slot := by
  unfold StepIter.callableAt slotCallable
  simp only [hi, hc]
  obtain ⟨cid', ⟨bl, rp⟩, lk⟩ := c
  cases rp with
  | none => rfl
  | some r =>
    obtain ⟨call, fn⟩ := r
    cases call <;> cases fn <;> cases bl <;> rfl

theorem callable_sim {s : St} {t : Spec.LSt} (hs : Emit.Inv s) (hR : R s t) (i cid : Nat) :
    StepIter.specCallable t i cid = StepIter.callableAt s i cid := by
  rcases hR.sigs.get i with ⟨h1, h2⟩ | ⟨im, g, h1, h2, hr⟩
  · simp [StepIter.specCallable, StepIter.callableAt, h1, h2]
  · rcases F2.find hr.cells (fun c => c.id = cid) (fun c => c.id = cid)
        (fun c d _ _ hcd => by rw [hcd.id]) with ⟨e1, e2⟩ | ⟨c, d, e1, e2, hcd⟩
    · simp [StepIter.specCallable, StepIter.callableAt, h1, h2, e1, e2]
    · rw [specCallable_eq h2 e2, callableAt_eq h1 e1]
      have hcm := (List.mem_of_find?_eq_some e1)
      cases hz : d.zombie with
      | false => rw [hcd.slot hz]
      | true =>
        have hl : c.linked = false := by
          have := hcd.zombie; rw [hz] at this
          cases h : c.linked <;> simp [h] at this ⊢
        rw [slotCallable_empty ((hs.ok i im h1).l c hcm hl), slotCallable_empty (hcd.zslot hz).1]

/-! ## positions inside the block of an emission -/

theorem getElem?_split {L : List Nat} {idx k : Nat} (h : L[idx]? = some k) :
    ∃ d r, L = d ++ k :: r ∧ d.length = idx := by
  induction L generalizing idx with
  | nil => simp at h
  | cons x xs ih =>
    cases idx with
    | zero => simp at h; subst h; exact ⟨[], xs, rfl, rfl⟩
    | succ n =>
      simp at h
      obtain ⟨d, r, e, hl⟩ := ih h
      exact ⟨x :: d, r, by rw [e]; rfl, by simp [hl]⟩

theorem getElem?_of_split {d r : List Nat} {k : Nat} : (d ++ k :: r)[d.length]? = some k := by
  simp

theorem getElem?_succ_of_split {d r : List Nat} {k n : Nat} : (d ++ k :: n :: r)[d.length + 1]? = some n := by
  induction d with
  | nil => simp
  | cons x xs ih => simpa using ih

/-- the exact predecessor inside a block -/
theorem pred_exact {cs : List Cell} (hn : (cs.map (·.id)).Nodup) {pre d rest post : List Nat} {p k : Nat}
    (hL : cs.map (·.id) = pre ++ (d ++ p :: k :: rest) ++ post) : predId cs k = some p := by
  have hL' : cs.map (·.id) = (pre ++ d) ++ p :: k :: (rest ++ post) := by rw [hL]; simp
  rw [hL'] at hn
  have hnd := List.nodup_append.mp hn
  apply Emit.predId_spec cs _ _ p k hL'
  · intro hin
    exact hnd.2.2 k hin k (by simp) rfl
  · intro e
    have := hnd.2.1
    simp [e] at this

/-- iterator of the model (a cell id) vs iterator of the specification (an index into the snapshot):
    the block of the emission is `snap ++ [m]` -/
structure PosR (snap : List Nat) (m : Nat) (itm : IterBuf) (its : Spec.It) : Prop where
  pos : (snap ++ [m])[its.pos]? = some itm.pos
  invoked : its.invoked = itm.invoked
  buf : its.buf = itm.buf

theorem PosR.le {snap : List Nat} {m : Nat} {itm : IterBuf} {its : Spec.It} (h : PosR snap m itm its) :
    its.pos ≤ snap.length := by
  have := h.pos
  rw [List.getElem?_eq_some_iff] at this
  obtain ⟨hlt, _⟩ := this
  simp at hlt; omega

/-- at the end marker ↔ past the snapshot -/
theorem PosR.at_end {snap : List Nat} {m : Nat} {itm : IterBuf} {its : Spec.It} (h : PosR snap m itm its)
    (hnd : (snap ++ [m]).Nodup) : itm.pos = m ↔ snap.length ≤ its.pos := by
  have hle := h.le
  have hp := h.pos
  constructor
  · intro e
    by_cases hlt : its.pos < snap.length
    · exfalso
      rw [List.getElem?_append_left hlt] at hp
      have hin : itm.pos ∈ snap := List.mem_of_getElem? hp
      have := (List.nodup_append.mp hnd).2.2 itm.pos hin m (by simp)
      exact this e
    · omega
  · intro hge
    have e : its.pos = snap.length := by omega
    rw [e] at hp
    simp at hp
    exact hp.symm

/-- inside the snapshot the specification's index holds the model's cell id -/
theorem PosR.in_snap {snap : List Nat} {m : Nat} {itm : IterBuf} {its : Spec.It} (h : PosR snap m itm its)
    (hlt : its.pos < snap.length) : snap[its.pos]? = some itm.pos := by
  have hp := h.pos
  rw [List.getElem?_append_left hlt] at hp
  exact hp

theorem PosR.past {snap : List Nat} {m : Nat} {itm : IterBuf} {its : Spec.It} (h : PosR snap m itm its)
    (hge : snap.length ≤ its.pos) : snap[its.pos]? = none := by
  simp [hge]

/-- what the block gives for the id list of the impl -/
theorem blk_ids {s : St} {i : Nat} {B : List (Nat × Bool)} (hs : Emit.Inv s) (hb : Emit.InBlk s i B) :
    ∃ im pre post, aget s.impls i = some im ∧ Emit.cids im = pre ++ B.map (·.1) ++ post ∧ (Emit.cids im).Nodup ∧
      (B.map (·.1)).Nodup := by
  obtain ⟨im, hi, _, pre, post, hids⟩ := hb.ids
  have hn := (hs.ok i im hi).nodup
  refine ⟨im, pre, post, hi, hids, hn, ?_⟩
  rw [hids] at hn
  exact (List.nodup_append.mp (List.nodup_append.mp hn).1).2.1

/-- `++it` -/
theorem blk_succ {s : St} {i : Nat} {B : List (Nat × Bool)} (hs : Emit.Inv s) (hb : Emit.InBlk s i B)
    {d r : List Nat} {k n : Nat} (hB : B.map (·.1) = d ++ k :: n :: r) :
    ∃ im, aget s.impls i = some im ∧ succId im.cells k = some n := by
  obtain ⟨im, pre, post, hi, hids, hn, _⟩ := blk_ids hs hb
  refine ⟨im, hi, ?_⟩
  rw [hB] at hids
  exact Emit.succ_exact (cs := im.cells) hn (pre := pre) (d := d) (rest := r) (post := post) hids

/-- `--it` -/
theorem blk_pred {s : St} {i : Nat} {B : List (Nat × Bool)} (hs : Emit.Inv s) (hb : Emit.InBlk s i B)
    {d r : List Nat} {p k : Nat} (hB : B.map (·.1) = d ++ p :: k :: r) :
    ∃ im, aget s.impls i = some im ∧ predId im.cells k = some p := by
  obtain ⟨im, pre, post, hi, hids, hn, _⟩ := blk_ids hs hb
  refine ⟨im, hi, ?_⟩
  rw [hB] at hids
  exact pred_exact (cs := im.cells) hn (pre := pre) (d := d) (rest := r) (post := post) hids

/-! ## the simulation statements -/

def InvokeS (f : Nat) : Prop := ∀ P s t fn arg s' o v, Emit.Inv s → Emit.FunOK s.G fn → R s t →
  Model.invokeFun f P s fn arg = some (s', o, v) →
  ∀ g, f ≤ g → ∃ t', Spec.invokeFun g P t fn arg = some (t', o, v) ∧ R s' t'

def BodyS (f : Nat) : Prop := ∀ P s t ls s' o, Emit.Inv s → R s t → Quiet s →
  Model.runBody f P s ls = some (s', o) →
  ∀ g, f ≤ g → ∃ t', Spec.runBody g P t ls = some (t', o) ∧ R s' t'

def LineS (f : Nat) : Prop := ∀ P s t l s' o, Emit.Inv s → R s t → Quiet s →
  Model.execLine f P s l = some (s', o) →
  ∀ g, f ≤ g → ∃ t', Spec.execLine g P t l = some (t', o) ∧ R s' t'

def EmitS (f : Nat) : Prop := ∀ P s t fl impl arg strat s' o v, Emit.Inv s →
  (∀ i, impl = some i → (aget s.impls i).isSome = true) → R s t →
  Model.emitImpl f P s fl impl arg strat = some (s', o, v) →
  ∀ g, f ≤ g → ∃ t', Spec.emitSig g P t fl impl arg strat = some (t', o, v) ∧ R s' t'

/-- the block of the emission is `done ++ todo ++ [m]`, `cur` is the head of `todo ++ [m]`, the cells
    in `Z` are unlinked for good; the specification still has to offer the turns of `todo` minus `Z` -/
def LoopS (f : Nat) : Prop := ∀ P s t i cur m arg r (B : List (Nat × Bool)) (Z done todo tl : List Nat) s' o v,
  Emit.Inv s → R s t → Emit.InBlk s i B → B.map (·.1) = done ++ todo ++ [m] → todo ++ [m] = cur :: tl → Off Z s →
  Model.emitLoop f P s i cur m arg r = some (s', o, v) →
  ∀ g, f ≤ g → ∃ t', Spec.turns g P t i (todo.filter (fun k => !Z.contains k)) arg r = some (t', o, v) ∧ R s' t'

def DerefS (f : Nat) : Prop := ∀ P s t i itm its arg snap m (B : List (Nat × Bool)) s' o itm', Emit.Inv s → R s t →
  Emit.InBlk s i B → B.map (·.1) = snap ++ [m] → PosR snap m itm its →
  Model.deref f P s i itm arg = some (s', o, itm') →
  ∀ g, f ≤ g → ∃ t' its', Spec.deref g P t i snap its arg = some (t', o, its') ∧ R s' t' ∧ PosR snap m itm' its' ∧
    its'.pos = its.pos

def AccS (f : Nat) : Prop := ∀ P s t i itm its m arg mode k r snap (B : List (Nat × Bool)) s' o v, Emit.Inv s → R s t →
  Emit.InBlk s i B → B.map (·.1) = snap ++ [m] → PosR snap m itm its →
  Model.accLoop f P s i itm m arg mode k r = some (s', o, v) →
  ∀ g, f ≤ g → ∃ t', Spec.accLoop g P t i snap its arg mode k r = some (t', o, v) ∧ R s' t'

def RevS (f : Nat) : Prop := ∀ P s t i itm its first m arg r snap (B : List (Nat × Bool)) s' o v, Emit.Inv s → R s t →
  Emit.InBlk s i B → B.map (·.1) = snap ++ [m] → (snap ++ [m])[0]? = some first → PosR snap m itm its →
  Model.revLoop f P s i itm first arg r = some (s', o, v) →
  ∀ g, f ≤ g → ∃ t', Spec.revLoop g P t i snap its arg r = some (t', o, v) ∧ R s' t'

def WalkS (f : Nat) : Prop := ∀ P s t i itm its first m arg ops r snap (B : List (Nat × Bool)) s' o v, Emit.Inv s → R s t →
  Emit.InBlk s i B → B.map (·.1) = snap ++ [m] → (snap ++ [m])[0]? = some first → PosR snap m itm its →
  Model.walkLoop f P s i itm first m arg ops r = some (s', o, v) →
  ∀ g, f ≤ g → ∃ t', Spec.walkLoop g P t i snap its arg ops r = some (t', o, v) ∧ R s' t'

def StratS (f : Nat) : Prop := ∀ P s t i first m arg strat snap (B : List (Nat × Bool)) s' o v, Emit.Inv s → R s t →
  Emit.InBlk s i B → B.map (·.1) = snap ++ [m] → (snap ++ [m])[0]? = some first →
  Model.runStrat f P s i first m arg strat = some (s', o, v) →
  ∀ g, f ≤ g → ∃ t', Spec.runStrat g P t i snap arg strat = some (t', o, v) ∧ R s' t'

def OpS (f : Nat) : Prop := ∀ P s t op s' res, Emit.Inv s → R s t → Quiet s →
  Model.execOp f P s op = some (s', res) →
  ∀ g, f ≤ g → ∃ t' res', Spec.execOp g P t op = some (t', res') ∧ R s' t' ∧ ResR res' res

/-- all functions of the mutual block, at a given fuel -/
structure AllS (f : Nat) : Prop where
  invoke : InvokeS f
  body : BodyS f
  line : LineS f
  emit : EmitS f
  loop : LoopS f
  deref : DerefS f
  acc : AccS f
  rev : RevS f
  walk : WalkS f
  strat : StratS f
  op : OpS f

end Sigc.Refine
