import Sigc.Lemmas.RefineDefs
import Sigc.Lemmas.StepIter2
/-!
# Refine work package — a model-only frame property (`Keeps`), part A: definitions and the primitives

`Keeps s s'`: nesting depth unchanged, allocation counter monotone, unlinked cells stay unlinked.
It holds for every piece of model code, for all states (no invariant needed).
-/
namespace Sigc.Refine
open Sigc.Model

/-- what every piece of model code preserves: nesting depth, allocation counter monotone, unlinked cells stay unlinked -/
structure Keeps (s s' : St) : Prop where
  depth : s'.depth = s.depth
  next : s.next ≤ s'.next
  off : ∀ Z, Off Z s → Off Z s'

theorem Keeps.refl (s : St) : Keeps s s := ⟨rfl, Nat.le_refl _, fun _ h => h⟩

theorem Keeps.trans {a b c : St} (h1 : Keeps a b) (h2 : Keeps b c) : Keeps a c :=
  ⟨h2.depth.trans h1.depth, Nat.le_trans h1.next h2.next, fun Z h => h2.off Z (h1.off Z h)⟩

/-! ## linked cells only come from linked cells -/

/-- every linked cell of `l'` is (by id) a linked cell of `l` -/
def Sub (l l' : List (Nat × Impl)) : Prop :=
  ∀ p' ∈ l', ∀ c' ∈ p'.2.cells, c'.linked = true →
    ∃ p ∈ l, ∃ c ∈ p.2.cells, c.id = c'.id ∧ c.linked = true

/-- every linked cell of `l'` is (by id) a linked cell of `l` or has a fresh id (`≥ n`) -/
def CF (n : Nat) (l l' : List (Nat × Impl)) : Prop :=
  ∀ p' ∈ l', ∀ c' ∈ p'.2.cells, c'.linked = true →
    n ≤ c'.id ∨ ∃ p ∈ l, ∃ c ∈ p.2.cells, c.id = c'.id ∧ c.linked = true

theorem Sub.refl (l : List (Nat × Impl)) : Sub l l := fun p hp c hc hl => ⟨p, hp, c, hc, rfl, hl⟩

theorem Sub.trans {a b c : List (Nat × Impl)} (h1 : Sub a b) (h2 : Sub b c) : Sub a c := by
  intro p' hp' c' hc' hl
  obtain ⟨p, hp, c0, hc0, hid, hl0⟩ := h2 p' hp' c' hc' hl
  obtain ⟨q, hq, d, hd, hid2, hl2⟩ := h1 p hp c0 hc0 hl0
  exact ⟨q, hq, d, hd, hid2.trans hid, hl2⟩

theorem Sub.of_eq {a b : List (Nat × Impl)} (h : b = a) : Sub a b := h ▸ Sub.refl a

theorem CF.refl (n : Nat) (l : List (Nat × Impl)) : CF n l l :=
  fun p hp c hc hl => Or.inr ⟨p, hp, c, hc, rfl, hl⟩

theorem CF.of_sub {n : Nat} {a b : List (Nat × Impl)} (h : Sub a b) : CF n a b :=
  fun p hp c hc hl => Or.inr (h p hp c hc hl)

theorem CF.sub {n : Nat} {a b c : List (Nat × Impl)} (h1 : CF n a b) (h2 : Sub b c) : CF n a c := by
  intro p' hp' c' hc' hl
  obtain ⟨p, hp, c0, hc0, hid, hl0⟩ := h2 p' hp' c' hc' hl
  rcases h1 p hp c0 hc0 hl0 with h | ⟨q, hq, d, hd, hid2, hl2⟩
  · exact Or.inl (hid ▸ h)
  · exact Or.inr ⟨q, hq, d, hd, hid2.trans hid, hl2⟩

theorem Keeps.of_cf {s s' : St} (hd : s'.depth = s.depth) (hn : s.next ≤ s'.next)
    (hc : CF s.next s.impls s'.impls) : Keeps s s' := by
  refine ⟨hd, hn, ?_⟩
  intro Z hoff
  obtain ⟨hz, ho⟩ := hoff
  refine ⟨fun z h => Nat.lt_of_lt_of_le (hz z h) hn, ?_⟩
  intro p' hp' c' hc' hcz
  cases hlk : c'.linked with
  | false => rfl
  | true =>
    rcases hc p' hp' c' hc' hlk with h | ⟨p, hp, c, hcc, hid, hl⟩
    · have := hz _ hcz
      omega
    · have := ho p hp c hcc (by rw [hid]; exact hcz)
      rw [this] at hl; contradiction

theorem Keeps.of_sub {s s' : St} (hd : s'.depth = s.depth) (hn : s.next ≤ s'.next)
    (hc : Sub s.impls s'.impls) : Keeps s s' := Keeps.of_cf hd hn (CF.of_sub hc)

/-- only fields other than `impls`, `next`, `depth` changed (or `next` grew) -/
theorem Keeps.of_eq {s s' : St} (hi : s'.impls = s.impls) (hn : s.next ≤ s'.next) (hd : s'.depth = s.depth) :
    Keeps s s' := Keeps.of_sub hd hn (Sub.of_eq hi)

theorem sub_aset {l : List (Nat × Impl)} {i : Nat} {im : Impl}
    (h : ∀ c' ∈ im.cells, c'.linked = true → ∃ p ∈ l, ∃ c ∈ p.2.cells, c.id = c'.id ∧ c.linked = true) :
    Sub l (aset l i im) := by
  intro p' hp' c' hc' hl
  rcases Emit.mem_aset hp' with hp | rfl
  · exact ⟨p', hp, c', hc', rfl, hl⟩
  · exact h c' hc' hl

theorem sub_aset_of {l : List (Nat × Impl)} {i : Nat} {im0 im : Impl} (hg : aget l i = some im0)
    (h : ∀ c' ∈ im.cells, c'.linked = true → ∃ c ∈ im0.cells, c.id = c'.id ∧ c.linked = true) :
    Sub l (aset l i im) :=
  sub_aset (fun c' hc' hl => by
    obtain ⟨c, hc, hid, hlk⟩ := h c' hc' hl
    exact ⟨(i, im0), Emit.aget_some_mem hg, c, hc, hid, hlk⟩)

theorem sub_adel (l : List (Nat × Impl)) (i : Nat) : Sub l (adel l i) :=
  fun p hp c hc hl => ⟨p, (Emit.mem_adel hp).1, c, hc, rfl, hl⟩

/-! ## primitive steps: depth and allocation counter unchanged, linked cells only from linked cells -/

structure Prim (a b : St) : Prop where
  depth : b.depth = a.depth
  next : b.next = a.next
  sub : Sub a.impls b.impls

theorem Prim.refl (s : St) : Prim s s := ⟨rfl, rfl, Sub.refl _⟩

theorem Prim.trans {a b c : St} (h1 : Prim a b) (h2 : Prim b c) : Prim a c :=
  ⟨h2.depth.trans h1.depth, h2.next.trans h1.next, h1.sub.trans h2.sub⟩

theorem Prim.after {a b c : St} (h2 : Prim b c) (h1 : Prim a b) : Prim a c := h1.trans h2

theorem Prim.keeps {a b : St} (h : Prim a b) : Keeps a b :=
  Keeps.of_sub h.depth (Nat.le_of_eq h.next.symm) h.sub

theorem Prim.of_eq {a b : St} (hd : b.depth = a.depth) (hn : b.next = a.next) (hi : b.impls = a.impls) :
    Prim a b := ⟨hd, hn, Sub.of_eq hi⟩

theorem Prim.foldl {α : Type} (f : St → α → St) (hf : ∀ s a, Prim s (f s a)) (l : List α) (s : St) :
    Prim s (l.foldl f s) := by
  induction l generalizing s with
  | nil => exact Prim.refl s
  | cons a t ih => exact (hf s a).trans (ih (f s a))

theorem prim_log (s : St) (e : Event) : Prim s (s.log e) := Prim.of_eq rfl rfl rfl

theorem prim_fail (s : St) (m : String) : Prim s (s.fail m) := by
  unfold St.fail; split
  · exact Prim.of_eq rfl rfl rfl
  · exact Prim.refl s

theorem prim_nullConns (s : St) (cid : Nat) : Prim s (nullConns s cid) := Prim.of_eq rfl rfl rfl

theorem prim_nullConnsList (s : St) (cids : List Nat) : Prim s (nullConnsList s cids) :=
  Prim.foldl nullConns prim_nullConns cids s

theorem prim_setConn (s : St) (k : Nat) (p : Option Nat) : Prim s (setConn s k p) := Prim.of_eq rfl rfl rfl

/-- `setImpl` with cells that come from linked cells of the state -/
theorem prim_setImpl (s : St) (i : Nat) (im : Impl)
    (h : ∀ c' ∈ im.cells, c'.linked = true → ∃ p ∈ s.impls, ∃ c ∈ p.2.cells, c.id = c'.id ∧ c.linked = true) :
    Prim s (setImpl s i im) := ⟨rfl, rfl, sub_aset h⟩

/-- `setImpl` with cells that come from linked cells of the impl it replaces -/
theorem prim_setImpl_of {s : St} {i : Nat} {im0 : Impl} (hg : aget s.impls i = some im0) (im : Impl)
    (h : ∀ c' ∈ im.cells, c'.linked = true → ∃ c ∈ im0.cells, c.id = c'.id ∧ c.linked = true) :
    Prim s (setImpl s i im) := ⟨rfl, rfl, sub_aset_of hg h⟩

/-- `setImpl` that keeps the cells -/
theorem prim_setImpl_same {s : St} {i : Nat} {im0 : Impl} (hg : aget s.impls i = some im0) (im : Impl)
    (h : im.cells = im0.cells) : Prim s (setImpl s i im) :=
  prim_setImpl_of hg im (fun c' hc' hl => ⟨c', h ▸ hc', rfl, hl⟩)

theorem prim_updCell (s : St) (i cid : Nat) (f : Cell → Cell) (hid : ∀ c, (f c).id = c.id)
    (hl : ∀ c, (f c).linked = false ∨ (f c).linked = c.linked) : Prim s (updCell s i cid f) := by
  unfold updCell
  split
  · exact Prim.refl _
  · rename_i im him
    apply prim_setImpl_of him
    intro c' hc' hlk
    simp only [List.mem_map] at hc'
    obtain ⟨c, hc, rfl⟩ := hc'
    by_cases e : c.id = cid
    · rw [if_pos e] at hlk ⊢
      refine ⟨c, hc, (hid c).symm, ?_⟩
      rcases hl c with h | h
      · rw [h] at hlk; contradiction
      · rw [← h]; exact hlk
    · rw [if_neg e] at hlk ⊢
      exact ⟨c, hc, rfl, hlk⟩

theorem prim_eraseCell (s : St) (i cid : Nat) : Prim s (eraseCell s i cid) := by
  unfold eraseCell
  split
  · exact Prim.refl _
  · rename_i im him
    exact (prim_setImpl_of him _ (fun c' hc' hl => ⟨c', (List.mem_filter.mp hc').1, rfl, hl⟩)).trans
      (prim_nullConns _ _)

theorem prim_sweep (s : St) (i : Nat) : Prim s (sweep s i) := by
  unfold sweep
  split
  · exact Prim.refl _
  · rename_i im him
    exact (prim_setImpl_of him _ (fun c' hc' hl => ⟨c', (List.mem_filter.mp hc').1, rfl, hl⟩)).trans
      (prim_nullConnsList _ _)

theorem prim_unrefExec (s : St) (i : Nat) : Prim s (unrefExec s i) := by
  unfold unrefExec
  split
  · exact Prim.refl _
  · rename_i im him
    have h1 : Prim s (setImpl s i { im with exec := im.exec - 1 }) := prim_setImpl_same him _ rfl
    simp only
    split
    · exact h1.trans (prim_sweep _ _)
    · exact h1

theorem prim_gcImpl (s : St) (i : Nat) : Prim s (gcImpl s i) := by
  unfold gcImpl
  split
  · exact Prim.refl _
  · rename_i im him
    split
    · have h1 : Prim s { s with impls := adel s.impls i } := ⟨rfl, rfl, sub_adel _ _⟩
      exact h1.trans (prim_nullConnsList _ _)
    · exact Prim.refl _

theorem prim_notifyParent (s : St) (i cid : Nat) : Prim s (notifyParent s i cid) := by
  unfold notifyParent
  split
  · exact Prim.refl _
  · rename_i im him
    split
    · exact prim_eraseCell _ _ _
    · exact prim_setImpl_same him _ rfl

theorem prim_disconnectCell (s : St) (cid : Nat) : Prim s (disconnectCell s cid) := by
  unfold disconnectCell
  split
  · exact Prim.refl _
  · rename_i i c _
    have h1 : Prim s (updCell s i cid (fun c => { c with slot := c.slot.disconnectRep, linked := false })) :=
      prim_updCell s i cid _ (fun _ => rfl) (fun _ => Or.inl rfl)
    simp only
    split
    · exact h1.trans (prim_notifyParent _ _ _)
    · exact h1

theorem prim_invalidateCell (s : St) (cid : Nat) : Prim s (invalidateCell s cid) := by
  unfold invalidateCell
  split
  · exact Prim.refl _
  · rename_i i c _
    have h1 : Prim s (updCell s i cid (fun c => { c with slot := c.slot.invalidate, linked := false })) :=
      prim_updCell s i cid _ (fun _ => rfl) (fun _ => Or.inl rfl)
    simp only
    split
    · exact h1.trans (prim_notifyParent _ _ _)
    · exact h1

theorem prim_invalidateTrackable (s : St) (t : Nat) : Prim s (invalidateTrackable s t) := by
  unfold invalidateTrackable
  simp only
  exact (Prim.foldl invalidateCell prim_invalidateCell _ _).after (Prim.of_eq rfl rfl rfl)

theorem prim_clearImpl (s : St) (i : Nat) : Prim s (clearImpl s i) := by
  unfold clearImpl
  split
  · exact Prim.refl _
  · rename_i im him
    simp only
    have h1 : Prim s ((im.cells.map (·.id)).foldl disconnectCell (setImpl s i { im with exec := im.exec + 1 })) :=
      (Prim.foldl disconnectCell prim_disconnectCell _ _).after (prim_setImpl_same him _ rfl)
    split
    · exact h1
    · rename_i im2 him2
      split
      · exact h1.trans (prim_unrefExec _ _)
      · refine (h1.trans ?_).trans (prim_unrefExec _ _)
        exact (prim_setImpl_of him2 _ (fun c' hc' _ => by simp at hc')).trans (prim_nullConnsList _ _)

theorem prim_connBlock (s : St) (p : Option Nat) (b : Bool) : Prim s (connBlock s p b) := by
  unfold connBlock
  split
  · exact Prim.refl _
  · split
    · exact Prim.refl _
    · exact prim_updCell _ _ _ _ (fun _ => rfl) (fun _ => Or.inr rfl)

theorem prim_dropHandle (s : St) (g : Nat) : Prim s (dropHandle s g) := by
  unfold dropHandle
  split
  · exact Prim.refl _
  · rename_i h _
    have h1 : Prim s (if h.fl.isTrackable = true then invalidateTrackable s h.trk else s) := by
      split
      · exact prim_invalidateTrackable _ _
      · exact Prim.refl _
    have h2 : Prim s { (if h.fl.isTrackable = true then invalidateTrackable s h.trk else s) with
        G := adel (if h.fl.isTrackable = true then invalidateTrackable s h.trk else s).G g } :=
      h1.trans (Prim.of_eq rfl rfl rfl)
    simp only
    split
    · exact h2.trans (prim_gcImpl _ _)
    · exact h2

theorem prim_collectStep {s s' : St} (h : collectStep s = some s') : Prim s s' := by
  unfold collectStep at h
  split at h
  · simp at h; subst h
    exact (prim_invalidateTrackable _ _).after (Prim.of_eq rfl rfl rfl)
  · split at h
    · simp at h; subst h
      split
      · exact (prim_disconnectCell _ _).after (Prim.of_eq rfl rfl rfl)
      · exact Prim.of_eq rfl rfl rfl
    · split at h
      · simp at h; subst h
        exact (prim_dropHandle _ _).after (Prim.of_eq rfl rfl rfl)
      · simp at h

theorem prim_collectN (n : Nat) (s : St) : Prim s (collectN n s) := by
  induction n generalizing s with
  | zero => exact Prim.refl s
  | succ n ih =>
    simp only [collectN]
    split
    · rename_i s1 h1
      exact (prim_collectStep h1).trans (ih s1)
    · exact Prim.refl s

theorem prim_collect (s : St) : Prim s (collect s) := prim_collectN _ s

/-! ## allocating primitives -/

theorem ensureImpl_parts {s s' : St} {g i : Nat} (h : ensureImpl s g = some (s', i)) :
    s'.depth = s.depth ∧ s.next ≤ s'.next ∧ Sub s.impls s'.impls := by
  unfold ensureImpl at h
  split at h
  · simp at h
  · split at h
    · simp at h; obtain ⟨rfl, _⟩ := h; exact ⟨rfl, Nat.le_refl _, Sub.refl _⟩
    · simp [St.fresh] at h; obtain ⟨rfl, _⟩ := h
      exact ⟨rfl, Nat.le_succ _, sub_aset (fun c' hc' _ => by simp at hc')⟩

theorem mkFun_parts {s s' : St} {v : Bool} {spec : FSpec} {fn : Fun} (h : mkFun s v spec = .ok (fn, s')) :
    s'.depth = s.depth ∧ s.next ≤ s'.next ∧ s'.impls = s.impls := by
  cases spec <;> simp only [mkFun] at h
  all_goals (repeat' (split at h))
  all_goals (first
    | (cases h; done)
    | (injection h with h; injection h with _ h; subst h; exact ⟨rfl, Nat.le_refl _, rfl⟩)
    | (injection h with h; injection h with _ h; subst h; exact ⟨rfl, Nat.le_succ _, rfl⟩))

theorem insertCell_next (s : St) (i : Nat) (first : Bool) (sl : SlotB) :
    (insertCell s i first sl).1.next = s.next + 1 := by
  unfold insertCell
  simp only [St.fresh]
  split
  · exact (prim_fail _ _).next
  · rfl

theorem insertCell_cf {n : Nat} {l : List (Nat × Impl)} (s : St) (i : Nat) (first : Bool) (sl : SlotB)
    (hn : n ≤ s.next) (h : CF n l s.impls) : CF n l (insertCell s i first sl).1.impls := by
  unfold insertCell
  simp only [St.fresh]
  split
  · exact h.sub (prim_fail _ _).sub
  · rename_i im him
    intro p' hp' c' hc' hl
    rcases Emit.mem_aset hp' with hp | rfl
    · exact h p' hp c' hc' hl
    · have hcases : c' ∈ im.cells ∨ c'.id = s.next := by
        simp only at hc'
        split at hc'
        · rcases List.mem_cons.mp hc' with e | e
          · right; rw [e]
          · left; exact e
        · rcases List.mem_append.mp hc' with e | e
          · left; exact e
          · right; simp at e; rw [e]
      rcases hcases with e | e
      · exact h (i, im) (Emit.aget_some_mem him) c' e hl
      · left; rw [e]; exact hn

/-! ## `Keeps` for every primitive -/

theorem keeps_log (s : St) (e : Event) : Keeps s (s.log e) := (prim_log s e).keeps
theorem keeps_fail (s : St) (m : String) : Keeps s (s.fail m) := (prim_fail s m).keeps
theorem keeps_nullConns (s : St) (cid : Nat) : Keeps s (nullConns s cid) := (prim_nullConns s cid).keeps
theorem keeps_nullConnsList (s : St) (cids : List Nat) : Keeps s (nullConnsList s cids) :=
  (prim_nullConnsList s cids).keeps
theorem keeps_setConn (s : St) (k : Nat) (p : Option Nat) : Keeps s (setConn s k p) := (prim_setConn s k p).keeps
theorem keeps_setImpl (s : St) (i : Nat) (im : Impl)
    (h : ∀ c' ∈ im.cells, c'.linked = true → ∃ p ∈ s.impls, ∃ c ∈ p.2.cells, c.id = c'.id ∧ c.linked = true) :
    Keeps s (setImpl s i im) := (prim_setImpl s i im h).keeps
theorem keeps_setImpl_of {s : St} {i : Nat} {im0 : Impl} (hg : aget s.impls i = some im0) (im : Impl)
    (h : ∀ c' ∈ im.cells, c'.linked = true → ∃ c ∈ im0.cells, c.id = c'.id ∧ c.linked = true) :
    Keeps s (setImpl s i im) := (prim_setImpl_of hg im h).keeps
theorem keeps_setImpl_same {s : St} {i : Nat} {im0 : Impl} (hg : aget s.impls i = some im0) (im : Impl)
    (h : im.cells = im0.cells) : Keeps s (setImpl s i im) := (prim_setImpl_same hg im h).keeps
/-- `setImpl` whose linked cells are linked cells of the state or carry ids that are not yet allocated -/
theorem keeps_setImpl_fresh (s : St) (i : Nat) (im : Impl)
    (h : ∀ c' ∈ im.cells, c'.linked = true →
      s.next ≤ c'.id ∨ ∃ p ∈ s.impls, ∃ c ∈ p.2.cells, c.id = c'.id ∧ c.linked = true) :
    Keeps s (setImpl s i im) := by
  refine Keeps.of_cf rfl (Nat.le_refl _) ?_
  intro p' hp' c' hc' hl
  rcases Emit.mem_aset hp' with hp | rfl
  · exact Or.inr ⟨p', hp, c', hc', rfl, hl⟩
  · exact h c' hc' hl
theorem keeps_updCell (s : St) (i cid : Nat) (f : Cell → Cell) (hid : ∀ c, (f c).id = c.id)
    (hl : ∀ c, (f c).linked = false ∨ (f c).linked = c.linked) : Keeps s (updCell s i cid f) :=
  (prim_updCell s i cid f hid hl).keeps
theorem keeps_eraseCell (s : St) (i cid : Nat) : Keeps s (eraseCell s i cid) := (prim_eraseCell s i cid).keeps
theorem keeps_sweep (s : St) (i : Nat) : Keeps s (sweep s i) := (prim_sweep s i).keeps
theorem keeps_unrefExec (s : St) (i : Nat) : Keeps s (unrefExec s i) := (prim_unrefExec s i).keeps
theorem keeps_gcImpl (s : St) (i : Nat) : Keeps s (gcImpl s i) := (prim_gcImpl s i).keeps
theorem keeps_notifyParent (s : St) (i cid : Nat) : Keeps s (notifyParent s i cid) :=
  (prim_notifyParent s i cid).keeps
theorem keeps_disconnectCell (s : St) (cid : Nat) : Keeps s (disconnectCell s cid) :=
  (prim_disconnectCell s cid).keeps
theorem keeps_invalidateCell (s : St) (cid : Nat) : Keeps s (invalidateCell s cid) :=
  (prim_invalidateCell s cid).keeps
theorem keeps_invalidateTrackable (s : St) (t : Nat) : Keeps s (invalidateTrackable s t) :=
  (prim_invalidateTrackable s t).keeps
theorem keeps_clearImpl (s : St) (i : Nat) : Keeps s (clearImpl s i) := (prim_clearImpl s i).keeps
theorem keeps_connBlock (s : St) (p : Option Nat) (b : Bool) : Keeps s (connBlock s p b) :=
  (prim_connBlock s p b).keeps
theorem keeps_collectStep {s s' : St} (h : collectStep s = some s') : Keeps s s' := (prim_collectStep h).keeps
theorem keeps_collectN (n : Nat) (s : St) : Keeps s (collectN n s) := (prim_collectN n s).keeps
theorem keeps_collect (s : St) : Keeps s (collect s) := (prim_collect s).keeps

theorem keeps_ensureImpl {s s' : St} {g i : Nat} (h : ensureImpl s g = some (s', i)) : Keeps s s' :=
  let ⟨hd, hn, hs⟩ := ensureImpl_parts h
  Keeps.of_sub hd hn hs

theorem keeps_mkFun {s s' : St} {v : Bool} {spec : FSpec} {fn : Fun} (h : mkFun s v spec = .ok (fn, s')) :
    Keeps s s' :=
  let ⟨hd, hn, hi⟩ := mkFun_parts h
  Keeps.of_eq hi hn hd

theorem keeps_insertCell (s : St) (i : Nat) (first : Bool) (sl : SlotB) : Keeps s (insertCell s i first sl).1 :=
  Keeps.of_cf (StepIter.insertCell_depth s i first sl) (by rw [insertCell_next]; exact Nat.le_succ _)
    (insertCell_cf s i first sl (Nat.le_refl _) (CF.refl _ _))

end Sigc.Refine
