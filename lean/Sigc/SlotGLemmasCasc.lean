import Sigc.SlotGLemmas
/-!
  The non-recursive head of `destroyRep` (`dropFn`) preserves `Inv`; the relation `Casc` (everything a cascade
  may change) and its basic steps.
-/
namespace Sigc.SlotG

/-- the non-recursive head of `destroyRep`: invalidate, unbind, drop the functor -/
def dropFn (r : Nat) (R : Rep) (f : Fun) (s : State) : State :=
  (unbindFun r f (s.setRep r (some { R with call := false }))).modRep r fun R' => { R' with fn := none }

theorem unbindFun_fn (r fid : Nat) (s : State) : unbindFun r (.fn fid) s = s := rfl
theorem unbindFun_mem (r fid t : Nat) (s : State) : unbindFun r (.mem fid t) s = trkRemove t r s := rfl
theorem unbindFun_sref (r fid v : Nat) (s : State) : unbindFun r (.sref fid v) s = unsetParentIf v r s := rfl
theorem unbindFun_own_some (r fid v t : Nat) (s : State) :
    unbindFun r (.own fid v (some t)) s = trkRemove t r s := rfl
theorem unbindFun_own_none (r fid v : Nat) (s : State) : unbindFun r (.own fid v none) s = s := rfl

/-- a functor that refers to no slot variable: at most a trackable registration has to be removed -/
theorem unbindFun_noRef (r : Nat) (f : Fun) (s : State) (hf : f.ref = none) :
    unbindFun r f s = match f.trk with | none => s | some t => trkRemove t r s := by
  cases f with
  | fn fid => rfl
  | mem fid t => rfl
  | sref fid v => simp [Fun.ref] at hf
  | own fid v t => cases t <;> rfl
  | nest fid v d => simp [Fun.ref] at hf
  | ownc fid c => rfl

/-- a functor that visits a slot variable (by reference or its bound copy): the parent link is taken back -/
theorem unbindFun_ref (r : Nat) (f : Fun) (s : State) (v : Nat) (hf : f.ref = some v) :
    unbindFun r f s = unsetParentIf v r s := by
  cases f <;> simp [Fun.ref] at hf <;> subst hf <;> rfl

theorem ref_trk_none {f : Fun} {v : Nat} (hf : f.ref = some v) : f.trk = none := by
  cases f <;> simp [Fun.ref] at hf <;> rfl

theorem inv_clearPar {s : State} (h : Inv s) (q r : Nat) : Inv (s.modRep q (clearPar r)) := by
  inv_auto h with [clearPar]

theorem inv_fnNone_ref {s : State} (h : Inv s) {r v : Nat} {R : Rep} {f : Fun} (hr : s.reps r = some R)
    (hf : R.fn = some f) (hfv : f.ref = some v)
    (hp : ∀ q Q, repOf s v = some q → s.reps q = some Q → Q.parent ≠ some r) :
    Inv (s.modRep r fun R' => { R' with fn := none }) := by
  have hft := ref_trk_none hfv
  -- the representations after the step, described without conditionals
  have hnew : ∀ x X', (s.modRep r fun R' => { R' with fn := none }).reps x = some X' →
      ∃ X, s.reps x = some X ∧ X'.parent = X.parent ∧ X'.cbs = X.cbs ∧ X'.call = X.call ∧
        ((x ≠ r ∧ X'.fn = X.fn) ∨ (x = r ∧ X'.fn = none)) := by
    intro x X' hx
    rw [reps_modRep] at hx
    by_cases hxr : x = r
    · subst hxr; simp only [if_true, Option.map_eq_some_iff] at hx
      obtain ⟨X, hX, rfl⟩ := hx
      exact ⟨X, hX, rfl, rfl, rfl, .inr ⟨rfl, rfl⟩⟩
    · rw [if_neg hxr] at hx; exact ⟨X', hx, rfl, rfl, rfl, .inl ⟨hxr, rfl⟩⟩
  have hold : ∀ x X, s.reps x = some X → x ≠ r → (s.modRep r fun R' => { R' with fn := none }).reps x = some X := by
    intro x X hX hxr; rw [reps_modRep, if_neg hxr]; exact hX
  have hself : ∃ R0, (s.modRep r fun R' => { R' with fn := none }).reps r = some R0 ∧ R0.fn = none := by
    rw [reps_modRep]; simp [hr]
  have hown : ∀ w, Owned (s.modRep r fun R' => { R' with fn := none }) w → Owned s w := by
    rintro w ⟨x, X', f', hX', hf', ho⟩
    obtain ⟨X, hX, -, -, -, hc⟩ := hnew x X' hX'
    rcases hc with ⟨-, hc⟩ | ⟨-, hc⟩
    · exact ⟨x, X, f', hX, by rw [← hc]; exact hf', ho⟩
    · rw [hc] at hf'; cases hf'
  refine { repAlive := ?_, repUniq := ?_, connReg := ?_, cbsConn := ?_, regUniq := ?_, cbsNodup := ?_,
           parentOk := ?_, trkReg := ?_, trkEnt := ?_, trkNodup := ?_, refOk := ?_, ownOk := ?_,
           nestOk := ?_, anonBound := ?_, repBound := ?_, regHeld := ?_, ownCOk := ?_ }
  · intro w x hw; rw [repOf_modRep] at hw
    obtain ⟨X, hX⟩ := h.repAlive w x hw
    by_cases hxr : x = r
    · subst hxr; obtain ⟨R0, hR0, -⟩ := hself; exact ⟨R0, hR0⟩
    · exact ⟨X, hold x X hX hxr⟩
  · intro v1 v2 x h1 h2; rw [repOf_modRep] at h1 h2; exact h.repUniq v1 v2 x h1 h2
  · intro c w hc; rw [conns_modRep] at hc
    obtain ⟨x, X, hX, hm, hor⟩ := h.connReg c w hc
    have hor' : repOf (s.modRep r fun R' => { R' with fn := none }) w = some x ∨
        Orphan (s.modRep r fun R' => { R' with fn := none }) x := by
      unfold Orphan at *; simp only [repOf_modRep]; exact hor
    by_cases hxr : x = r
    · subst hxr
      refine ⟨x, { X with fn := none }, ?_, hm, hor'⟩
      rw [reps_modRep]; simp [hX]
    · exact ⟨x, X, hold x X hX hxr, hm, hor'⟩
  · intro x X' c hX' hm
    obtain ⟨X, hX, -, hcb, -, -⟩ := hnew x X' hX'
    obtain ⟨w, hw, hor⟩ := h.cbsConn x X c hX (by rw [← hcb]; exact hm)
    refine ⟨w, by rw [conns_modRep]; exact hw, ?_⟩
    unfold Orphan at *; simp only [repOf_modRep]; exact hor
  · intro r1 R1 r2 R2 c h1 h2 m1 m2
    obtain ⟨X1, hX1, -, hc1, -, -⟩ := hnew r1 R1 h1
    obtain ⟨X2, hX2, -, hc2, -, -⟩ := hnew r2 R2 h2
    exact h.regUniq r1 X1 r2 X2 c hX1 hX2 (by rw [← hc1]; exact m1) (by rw [← hc2]; exact m2)
  · intro x X' hX'
    obtain ⟨X, hX, -, hcb, -, -⟩ := hnew x X' hX'
    rw [hcb]; exact h.cbsNodup x X hX
  · intro x X' p w hX' hpar hw
    rw [repOf_modRep] at hw
    obtain ⟨X, hX, hpp, -, -, -⟩ := hnew x X' hX'
    obtain ⟨P, f', hP, hPf, hfr⟩ := h.parentOk x X p w hX (by rw [← hpp]; exact hpar) hw
    by_cases hpr : p = r
    · subst hpr
      rw [hr] at hP; cases hP
      rw [hf] at hPf; cases hPf
      rw [hfv] at hfr; cases hfr
      exact absurd (by rw [← hpp]; exact hpar) (hp x X hw hX)
    · exact ⟨P, f', hold p P hP hpr, hPf, hfr⟩
  · intro x X' f' t hX' hf' ht
    obtain ⟨X, hX, -, -, -, hc⟩ := hnew x X' hX'
    rcases hc with ⟨-, hc⟩ | ⟨-, hc⟩
    · obtain ⟨T, hT, hm⟩ := h.trkReg x X f' t hX (by rw [← hc]; exact hf') ht
      exact ⟨T, by rw [trks_modRep]; exact hT, hm⟩
    · rw [hc] at hf'; cases hf'
  · intro t T x hT hm
    rw [trks_modRep] at hT
    obtain ⟨X, f', hX, hf', ht⟩ := h.trkEnt t T x hT hm
    have hxr : x ≠ r := by
      intro he; subst he; rw [hr] at hX; cases hX; rw [hf] at hf'; cases hf'; rw [hft] at ht; cases ht
    exact ⟨X, f', hold x X hX hxr, hf', ht⟩
  · intro t T hT; rw [trks_modRep] at hT; exact h.trkNodup t T hT
  · intro x X' fid w hX' hf'
    obtain ⟨X, hX, -, -, -, hc⟩ := hnew x X' hX'
    rcases hc with ⟨-, hc⟩ | ⟨-, hc⟩
    · obtain ⟨h1, h2, h3⟩ := h.refOk x X fid w hX (by rw [← hc]; exact hf')
      exact ⟨h1, by rw [slots_modRep]; exact h2, fun ho => h3 (hown w ho)⟩
    · rw [hc] at hf'; cases hf'
  · intro x X' fid w t hX' hf'
    obtain ⟨X, hX, -, -, -, hc⟩ := hnew x X' hX'
    rcases hc with ⟨-, hc⟩ | ⟨-, hc⟩
    · obtain ⟨h1, h2⟩ := h.ownOk x X fid w t hX (by rw [← hc]; exact hf')
      exact ⟨h1, by rw [slots_modRep]; exact h2⟩
    · rw [hc] at hf'; cases hf'
  · intro x X' fid w d hX' hf'
    obtain ⟨X, hX, -, -, -, hc⟩ := hnew x X' hX'
    rcases hc with ⟨-, hc⟩ | ⟨-, hc⟩
    · obtain ⟨h1, h2⟩ := h.nestOk x X fid w d hX (by rw [← hc]; exact hf')
      exact ⟨h1, by rw [slots_modRep]; exact h2⟩
    · rw [hc] at hf'; cases hf'
  · intro w V hV hb; rw [slots_modRep] at hV; rw [nextRep_modRep]; exact h.anonBound w V hV hb
  · intro x X' hX'
    obtain ⟨X, hX, -⟩ := hnew x X' hX'
    rw [nextRep_modRep]; exact h.repBound x X hX
  · intro x X' c hX' hm
    obtain ⟨X, hX, -, hcb, -, -⟩ := hnew x X' hX'
    obtain ⟨w, hw⟩ := h.regHeld x X c hX (by rw [← hcb]; exact hm)
    exact ⟨w, by rw [repOf_modRep]; exact hw⟩
  · intro x X' fid c hX' hf'
    obtain ⟨X, hX, -, -, -, hc⟩ := hnew x X' hX'
    rcases hc with ⟨-, hc⟩ | ⟨-, hc⟩
    · obtain ⟨p, hp'⟩ := h.ownCOk x X fid c hX (by rw [← hc]; exact hf')
      exact ⟨p, by rw [conns_modRep]; exact hp'⟩
    · rw [hc] at hf'; cases hf'

theorem inv_dropFn {s : State} (h : Inv s) {r : Nat} {R : Rep} {f : Fun} (hr : s.reps r = some R)
    (hf : R.fn = some f) : Inv (dropFn r R f s) := by
  unfold dropFn
  cases hfr : f.ref with
  | none =>
    rw [unbindFun_noRef _ _ _ hfr]
    cases hft : f.trk with
    | none => simp only []; inv_auto h
    | some t => simp only []; inv_auto h with [mem_remEntry, remEntry_nodup]
  | some v =>
    rw [unbindFun_ref _ _ _ v hfr, unsetParentIf_eq, repOf_setRep]
    have h1 : Inv (s.setRep r (some { R with call := false })) := inv_setRep_call h hr false
    have hr1 : (s.setRep r (some { R with call := false })).reps r = some { R with call := false } := by
      simp [reps_setRep]
    cases hq : repOf s v with
    | none =>
      simp only []
      refine inv_fnNone_ref h1 hr1 hf hfr ?_
      intro q Q hq'; rw [repOf_setRep, hq] at hq'; simp at hq'
    | some q =>
      simp only []
      have h2 := inv_clearPar h1 q r
      cases hx : ((s.setRep r (some { R with call := false })).modRep q (clearPar r)).reps r with
      | none => simp [reps_modRep, reps_setRep] at hx; grind
      | some X =>
        refine inv_fnNone_ref (f := f) (v := v) h2 hx ?_ hfr ?_
        · simp only [reps_modRep, reps_setRep] at hx; grind [clearPar]
        · intro q' Q' hq' hQ'
          simp only [repOf_modRep, repOf_setRep, hq, Option.some.injEq] at hq'
          subst hq'
          simp only [reps_modRep, if_true, Option.map_eq_some_iff] at hQ'
          obtain ⟨Q0, -, rfl⟩ := hQ'
          unfold clearPar; split <;> simp_all

/-! ### what a cascade can change -/

structure Casc (s s' : State) : Prop where
  nextRep : s'.nextRep = s.nextRep
  reps : ∀ x X', s'.reps x = some X' → ∃ X, s.reps x = some X ∧ (X'.fn = X.fn ∨ X'.fn = none) ∧
      (X'.parent = X.parent ∨ X'.parent = none) ∧ (X'.call = X.call ∨ X'.call = false) ∧
      (∀ c, c ∈ X'.cbs → c ∈ X.cbs)
  slots : ∀ v V', s'.slots v = some V' → s.slots v = some V'
  slotsKeep : ∀ v, ¬ Owned s v → s'.slots v = s.slots v
  conns : ∀ c, s'.conns c = s.conns c ∨ (s'.conns c = some none ∧ ∃ v, s.conns c = some (some v)) ∨
    (s'.conns c = none ∧ OwnedC s c)
  trkDom : ∀ t, (s'.trks t).isSome = (s.trks t).isSome
  trkEnt : ∀ t T' x, s'.trks t = some T' → (x, true) ∈ T'.entries →
      ∃ T, s.trks t = some T ∧ (x, true) ∈ T.entries
  trkFlags : ∀ t T' x, s'.trks t = some T' → (x, false) ∈ T'.entries →
      ∃ T, s.trks t = some T ∧ ((x, false) ∈ T.entries ∨ T.clearing = true)
  trkClr : ∀ t T', s'.trks t = some T' → ∃ T, s.trks t = some T ∧ T'.clearing = T.clearing
  killed : ∀ v r, repOf s v = some r → repOf s' v = some r ∨ (s'.slots v = none ∧ s'.reps r = none)
  orphanKeep : ∀ x X, s.reps x = some X → (∀ v, repOf s v ≠ some x) → ∃ X', s'.reps x = some X'
  err : s.err = true → s'.err = true

/-- the clauses of `Casc s s'` one by one, each by field rewriting and `grind` -/
syntax "casc_auto" (" with" " [" Lean.Parser.Tactic.grindParam,* "]")? : tactic
macro_rules
  | `(tactic| casc_auto $[with [$ps,*]]?) => do
    let ps : Array (Lean.TSyntax `Lean.Parser.Tactic.grindParam) := (ps.getD ⟨#[]⟩).getElems
    let ps := ps.push (← `(Lean.Parser.Tactic.grindParam| Option.map_eq_some_iff))
    `(tactic| (constructor <;> (intros; try st_simp; first | done | grind [repOf_eq, $ps,*])))

theorem Casc.refl (s : State) : Casc s s := by
  constructor <;> grind

theorem Casc.owned {s s' : State} (h : Casc s s') {v : Nat} (ho : Owned s' v) : Owned s v := by
  obtain ⟨r, R', f, hr, hf, hfo⟩ := ho
  obtain ⟨R, hR, hfn, -⟩ := h.reps r R' hr
  exact ⟨r, R, f, hR, by grind, hfo⟩

theorem Casc.ownedC {s s' : State} (h : Casc s s') {c : Nat} (ho : OwnedC s' c) : OwnedC s c := by
  obtain ⟨r, R', f, hr, hf, hfo⟩ := ho
  obtain ⟨R, hR, hfn, -⟩ := h.reps r R' hr
  exact ⟨r, R, f, hR, by grind, hfo⟩

theorem Casc.pinned {s s' : State} (h : Casc s s') {v : Nat} (ho : Pinned s' v) : Pinned s v := by
  obtain ⟨r, R', fid, hr, hf⟩ := ho
  obtain ⟨R, hR, hfn, -⟩ := h.reps r R' hr
  exact ⟨r, R, fid, hR, by grind⟩

theorem Casc.trans {s s1 s2 : State} (h1 : Casc s s1) (h2 : Casc s1 s2) : Casc s s2 := by
  constructor
  · rw [h2.nextRep, h1.nextRep]
  · intro x X2 hx
    obtain ⟨X1, hX1, a1, a2, a3, a4⟩ := h2.reps x X2 hx
    obtain ⟨X, hX, b1, b2, b3, b4⟩ := h1.reps x X1 hX1
    exact ⟨X, hX, by grind, by grind, by grind, by grind⟩
  · intro v V' hv
    exact h1.slots v V' (h2.slots v V' hv)
  · intro v hv
    rw [h2.slotsKeep v (fun ho => hv (h1.owned ho)), h1.slotsKeep v hv]
  · intro c
    rcases h2.conns c with a | ⟨a, w, hw⟩ | ⟨a, ho⟩
    · rw [a]; exact h1.conns c
    · rcases h1.conns c with b | ⟨b, -⟩ | ⟨b, -⟩
      · exact .inr (.inl ⟨a, w, by rw [← b]; exact hw⟩)
      · rw [b] at hw; cases hw
      · rw [b] at hw; cases hw
    · exact .inr (.inr ⟨a, h1.ownedC ho⟩)
  · intro t; rw [h2.trkDom, h1.trkDom]
  · intro t T2 x ht hx
    obtain ⟨T1, hT1, hx1⟩ := h2.trkEnt t T2 x ht hx
    exact h1.trkEnt t T1 x hT1 hx1
  · intro t T2 x ht hx
    obtain ⟨T1, hT1, hx1⟩ := h2.trkFlags t T2 x ht hx
    obtain ⟨T, hT, c⟩ := h1.trkClr t T1 hT1
    rcases hx1 with hx1 | hx1
    · obtain ⟨T', hT', hx'⟩ := h1.trkFlags t T1 x hT1 hx1
      exact ⟨T', hT', hx'⟩
    · exact ⟨T, hT, .inr (by rw [← c]; exact hx1)⟩
  · intro t T2 ht
    obtain ⟨T1, hT1, c1⟩ := h2.trkClr t T2 ht
    obtain ⟨T, hT, c⟩ := h1.trkClr t T1 hT1
    exact ⟨T, hT, by rw [c1, c]⟩
  · intro v r hv
    rcases h1.killed v r hv with hk | ⟨hk1, hk2⟩
    · rcases h2.killed v r hk with hk' | hk'
      · exact .inl hk'
      · exact .inr hk'
    · refine .inr ⟨?_, ?_⟩
      · cases hx : s2.slots v with
        | none => rfl
        | some V => have := h2.slots v V hx; simp [hk1] at this
      · cases hx : s2.reps r with
        | none => rfl
        | some X => obtain ⟨X1, hX1, -⟩ := h2.reps r X hx; simp [hk2] at hX1
  · intro x X hx ho
    obtain ⟨X1, hX1⟩ := h1.orphanKeep x X hx ho
    refine h2.orphanKeep x X1 hX1 ?_
    intro v hv
    have : repOf s v = some x := by
      rw [repOf_eq] at hv ⊢
      obtain ⟨V, hV, hVr⟩ := hv
      exact ⟨V, h1.slots v V hV, hVr⟩
    exact ho v this
  · intro he; exact h2.err (h1.err he)

theorem casc_setRep_same {s : State} {r : Nat} {R R' : Rep} (hr : s.reps r = some R)
    (h0 : R'.call = R.call ∨ R'.call = false) (h1 : R'.parent = R.parent ∨ R'.parent = none)
    (h2 : R'.fn = R.fn ∨ R'.fn = none) (h3 : ∀ c, c ∈ R'.cbs → c ∈ R.cbs) : Casc s (s.setRep r (some R')) := by
  casc_auto

theorem casc_setRep_call {s : State} {r : Nat} {R : Rep} (hr : s.reps r = some R) :
    Casc s (s.setRep r (some { R with call := false })) := by
  casc_auto

theorem casc_setRep_noParent {s : State} {r : Nat} {R : Rep} (hr : s.reps r = some R) :
    Casc s (s.setRep r (some { R with call := false, parent := none })) := by
  casc_auto

theorem casc_clearPar (s : State) (q r : Nat) : Casc s (s.modRep q (clearPar r)) := by
  casc_auto with [clearPar]

theorem casc_fnNone (s : State) (r : Nat) : Casc s (s.modRep r fun R' => { R' with fn := none }) := by
  casc_auto

theorem casc_trkRemove {s : State} (t r : Nat)
    (hn : ∀ t T, s.trks t = some T → (T.entries.map Prod.fst).Nodup) : Casc s (trkRemove t r s) := by
  casc_auto with [mem_remEntry, remEntry_clearing, mem_remEntry_flag]

theorem casc_unbindFun {s : State} (r : Nat) (f : Fun)
    (hn : ∀ t T, s.trks t = some T → (T.entries.map Prod.fst).Nodup) : Casc s (unbindFun r f s) := by
  cases f with
  | fn fid => exact Casc.refl s
  | mem fid t => exact casc_trkRemove t r hn
  | sref fid v =>
    rw [unbindFun_sref, unsetParentIf_eq]
    split
    · exact Casc.refl s
    · exact casc_clearPar s _ r
  | own fid v t =>
    cases t with
    | none => exact Casc.refl s
    | some t => exact casc_trkRemove t r hn
  | nest fid v d =>
    rw [unbindFun_ref _ _ _ v rfl, unsetParentIf_eq]
    split
    · exact Casc.refl s
    · exact casc_clearPar s _ r
  | ownc fid c => exact Casc.refl s

theorem casc_dropFn {s : State} {r : Nat} {R : Rep} {f : Fun} (hr : s.reps r = some R)
    (hn : ∀ t T, s.trks t = some T → (T.entries.map Prod.fst).Nodup) : Casc s (dropFn r R f s) := by
  unfold dropFn
  exact ((casc_setRep_call hr).trans (casc_unbindFun r f (by simpa [trks_setRep] using hn))).trans
    (casc_fnNone _ r)

end Sigc.SlotG
