import Sigc.Model
import Sigc.Spec
/-! property theorems for C14 (being written) -/
namespace Sigc.C14
end Sigc.C14
