import Sigc.Model
import Sigc.Lemmas.Basic
import Sigc.Lemmas.Frames
/-!
# C14 — signal objects are shared handles; the slot list lives as long as any handle
(first theorems; the complete family is being proved in Sigc/Lemmas/Step*.lean)
-/
namespace Sigc.C14
open Sigc.Model

/-- `ensureImpl` (`signal_base::impl()`): afterwards the handle has a list, which exists -/
theorem ensureImpl_spec (s s' : St) (g i : Nat) (h : ensureImpl s g = some (s', i)) :
    (∃ hd, aget s'.G g = some hd ∧ hd.impl = some i) ∧
    (∀ hd, aget s.G g = some hd → hd.impl = some i → s' = s) := by
  unfold ensureImpl at h
  cases hg : aget s.G g with
  | none => simp [hg] at h
  | some hd =>
    simp only [hg] at h
    cases hi : hd.impl with
    | some j =>
      simp [hi] at h
      obtain ⟨rfl, rfl⟩ := h
      exact ⟨⟨hd, hg, hi⟩, fun _ _ _ => rfl⟩
    | none =>
      simp [hi, St.fresh] at h
      obtain ⟨rfl, rfl⟩ := h
      refine ⟨⟨{ hd with impl := some s.next }, by simp, rfl⟩, ?_⟩
      intro hd' h1 h2
      cases h1
      rw [hi] at h2
      cases h2

/-- move construction of a plain `sigc::signal` transfers the list: the new object has the source's
    list, the source has none (and is reusable) -/
theorem mvG_transfers (s s' : St) (r : String) (j i : Nat) (h0 : Handle)
    (hi : aget s.G i = some h0) (hj : aget s.G j = none) (hacc : h0.fl.isAcc = false) (hji : j ≠ i)
    (h : stepSimple s (.mvG j i) = some (s', r)) :
    r = "ok" ∧ (∃ hd, aget s'.G j = some hd ∧ hd.impl = h0.impl ∧ hd.fl = h0.fl) ∧
    (∃ hs, aget s'.G i = some hs ∧ hs.impl = none) := by
  simp only [stepSimple, hi, hj, hacc] at h
  simp [St.fresh] at h
  obtain ⟨rfl, rfl⟩ := h
  refine ⟨rfl, ?_, ?_⟩
  · by_cases ht : h0.fl.isTrackable = true <;> simp [ht]
  · by_cases ht : h0.fl.isTrackable = true <;> simp [ht, aget_aset_other _ _ _ _ (Ne.symm hji)]

example : ∃ s' r, stepSimple { G := [(0, { obj := 1, fl := .I, impl := some 5, trk := 2, lvl := 0 })], next := 9 } (.mvG 1 0) = some (s', r)
    ∧ (aget s'.G 0).map (·.impl) = some none ∧ (aget s'.G 1).map (·.impl) = some (some 5) := by
  refine ⟨_, _, rfl, ?_, ?_⟩ <;> simp [aget, aset, St.fresh, Flavour.isTrackable]

end Sigc.C14
