import Sigc.Model
import Sigc.Lemmas.Basic
import Sigc.Lemmas.Frames
import Sigc.Lemmas.StepConn
import Sigc.Lemmas.StepHandles
import Sigc.Lemmas.StepTrack
import Sigc.Lemmas.StepSlots
import Sigc.Lemmas.StepOwned
import Sigc.Run
import Sigc.Spec
/-!
# C14 — signal objects are shared handles; the slot list lives as long as any handle

Per-operation theorems about `stepSimple` / `gcImpl` / `ensureImpl` of the mechanism model, valid for
**every** state (no well-formedness assumed), every program and fuel.

History: proving `copy_shares` for assignment exposed a defect of the library — copy-*assignment* between
two signal objects that both never had a list shared nothing (`signal_base::operator=` returned early on
`src.impl_ == impl_`, both null).  It was repaired (`if (&src == this) return *this; impl_ = src.impl();`),
the model follows the repaired code, and `asgG_shares` now holds without that exception.
-/
namespace Sigc.C14
open Sigc.Model Sigc.StepConn Sigc.StepHandles Sigc.StepTrack Sigc.StepOwned

/-- `ensureImpl` (`signal_base::impl()`): afterwards the handle has a list, which exists -/
theorem ensureImpl_spec (s s' : St) (g i : Nat) (h : ensureImpl s g = some (s', i)) :
    (∃ hd, aget s'.G g = some hd ∧ hd.impl = some i) ∧
    (∀ hd, aget s.G g = some hd → hd.impl = some i → s' = s) := by
  unfold ensureImpl at h
  cases hg : aget s.G g with
  | none => simp [hg] at h
  | some hd =>
    simp only [hg] at h
    cases hi : hd.impl with
    | some j =>
      simp [hi] at h
      obtain ⟨rfl, rfl⟩ := h
      exact ⟨⟨hd, hg, hi⟩, fun _ _ _ => rfl⟩
    | none =>
      simp [hi, St.fresh] at h
      obtain ⟨rfl, rfl⟩ := h
      refine ⟨⟨{ hd with impl := some s.next }, by simp, rfl⟩, ?_⟩
      intro hd' h1 h2
      cases h1
      rw [hi] at h2
      cases h2

example : (ensureImpl { G := [(0, { obj := 1, fl := .I, impl := none, trk := 2, lvl := 0 })], next := 3 } 0).map
    (fun x => (x.2, x.1.G.map (fun p => p.2.impl), x.1.impls.map (·.1))) = some (3, [some 3], [3]) := by decide

/-! ## copy_shares -/

/-- copy construction: afterwards source and copy refer to the same list, which exists — it is the
    source's list, or a fresh empty one created on demand (`src.impl()`) -/
theorem cpG_shares (s s' : St) (r : String) (j i : Nat) (h0 : Handle)
    (hi : aget s.G i = some h0) (hj : aget s.G j = none) (h : stepSimple s (.cpG j i) = some (s', r)) :
    r = "ok" ∧ ∃ im hs hd, aget s'.G i = some hs ∧ aget s'.G j = some hd ∧ hs.impl = some im ∧ hd.impl = some im ∧
      hd.fl = h0.fl ∧ hs.fl = h0.fl ∧ hd.lvl = h0.lvl ∧
      ((h0.impl = some im ∧ s'.impls = s.impls) ∨ (h0.impl = none ∧ im = s.next ∧ s'.impls = aset s.impls s.next {})) := by
  have hji : j ≠ i := by intro e; rw [e, hi] at hj; cases hj
  obtain ⟨s1, im, he, hg1, hoth, _, _, _, _, _, hcase⟩ := ensureImpl_cases s i h0 hi
  simp only [stepSimple, hi, hj, he, hg1] at h
  simp [St.fresh] at h
  obtain ⟨rfl, rfl⟩ := h
  refine ⟨rfl, im, { h0 with impl := some im }, { obj := s1.next, fl := h0.fl, impl := some im, trk := s1.next + 1, lvl := h0.lvl },
    ?_, by simp, rfl, rfl, rfl, rfl, rfl, ?_⟩
  · simp [aget_aset_other _ _ _ _ (Ne.symm hji), hg1]
  · rcases hcase with ⟨h1, rfl⟩ | ⟨h1, rfl, rfl⟩
    · exact Or.inl ⟨h1, rfl⟩
    · exact Or.inr ⟨h1, rfl, rfl⟩

example : (stepSimple { G := [(0, { obj := 1, fl := .I, impl := none, trk := 2, lvl := 0 })], next := 3 } (.cpG 1 0)).map
    (fun x => (x.1.G.map (fun p => p.2.impl), x.1.impls.map (·.1), x.1.next)) = some ([some 3, some 3], [3], 6) := by decide

/-- copy assignment between distinct objects: afterwards both refer to the same existing list — the
    source's list, or a fresh empty one created on demand when the source never had one (`src.impl()`),
    also when neither object had a list before -/
theorem asgG_shares (s s' : St) (r : String) (j i : Nat) (d h0 : Handle)
    (hj : aget s.G j = some d) (hi : aget s.G i = some h0) (hfl : d.fl = h0.fl) (hlvl : d.lvl = h0.lvl) (hji : j ≠ i)
    (h : stepSimple s (.asgG j i) = some (s', r)) :
    r = "ok" ∧ ∃ im, aget s'.G i = some { h0 with impl := some im } ∧ aget s'.G j = some { d with impl := some im } ∧
      (h0.impl = some im ∨ (h0.impl = none ∧ im = s.next)) := by
  simp only [stepSimple, hj, hi] at h
  rw [if_neg (by simp [hfl]), if_neg (by simp [hlvl]), if_neg hji] at h
  obtain ⟨s1, im, he, hg1, hoth, _, _, _, _, _, hcase⟩ := ensureImpl_cases s i h0 hi
  simp only [he] at h
  have hor : h0.impl = some im ∨ (h0.impl = none ∧ im = s.next) := by
    rcases hcase with ⟨h1, _⟩ | ⟨h1, h2, _⟩
    · exact Or.inl h1
    · exact Or.inr ⟨h1, h2⟩
  have hj1 : aget s1.G j = some d := by rw [hoth j hji]; exact hj
  by_cases hsame : d.impl = some im
  · simp only [hsame, if_true, Option.some.injEq, Prod.mk.injEq] at h
    obtain ⟨rfl, rfl⟩ := h
    refine ⟨rfl, im, hg1, ?_, hor⟩
    rw [hj1]; congr 1; cases d; simp_all
  · simp only [hsame, if_false] at h
    have hfin : ∀ (G' : List (Nat × Handle)), G' = aset s1.G j { d with impl := some im } →
        aget G' i = some { h0 with impl := some im } ∧ aget G' j = some { d with impl := some im } := by
      intro G' e
      refine ⟨?_, by rw [e]; simp⟩
      rw [e, aget_aset_other _ _ _ _ (Ne.symm hji), hg1]
    cases hd : d.impl with
    | none =>
      simp only [hd, Option.some.injEq, Prod.mk.injEq] at h
      obtain ⟨rfl, rfl⟩ := h
      obtain ⟨a, b⟩ := hfin _ rfl
      exact ⟨rfl, im, a, b, hor⟩
    | some old =>
      simp only [hd, Option.some.injEq, Prod.mk.injEq] at h
      obtain ⟨rfl, rfl⟩ := h
      rw [gcImpl_G]
      obtain ⟨a, b⟩ := hfin _ rfl
      exact ⟨rfl, im, a, b, hor⟩

example : (stepSimple { G := [(0, { obj := 1, fl := .I, impl := some 7, trk := 2, lvl := 0 }),
                              (1, { obj := 3, fl := .I, impl := none, trk := 4, lvl := 0 })],
                        impls := [(7, {})], next := 8 } (.asgG 1 0)).map
    (fun x => x.1.G.map (fun p => p.2.impl)) = some [some 7, some 7] := by decide

/-- the history that exposed the (repaired) defect: two never-connected signal objects, assignment, then
    a connect through the source is seen through the destination:
    `newG 0 I; mvG 1 0; asgG 1 0; connfn 0 0 (fn 5); sizeq 0 → 1; sizeq 1 → 1` -/
example :
    let run := fun (s : Option (St × String)) (op : Op) => s.bind (fun x => stepSimple x.1 op)
    let s4 := [Op.newG 0 (some .I), .mvG 1 0, .asgG 1 0, .connfn 0 0 (.fn 5) false].foldl run (some ({}, ""))
    (run s4 (.sizeq 0)).map (·.2) = some "1" ∧ (run s4 (.sizeq 1)).map (·.2) = some "1" := by
  decide

/-- copy *construction* of a never-connected signal shares as well: `newG 0 I; cpG 1 0; connfn 0 0 (fn 5); sizeq 1 → 1` -/
example :
    let run := fun (s : Option (St × String)) (op : Op) => s.bind (fun x => stepSimple x.1 op)
    let s3 := [Op.newG 0 (some .I), .cpG 1 0, .connfn 0 0 (.fn 5) false].foldl run (some ({}, ""))
    (run s3 (.sizeq 1)).map (·.2) = some "1" := by
  decide

/-- two handles of one list are indistinguishable for every query and for `block` / `clear`: the result
    and the successor state depend on the handle only through its `impl` -/
theorem shared_handles_agree_queries (s : St) (g1 g2 : Nat) (h1 h2 : Handle)
    (hg1 : aget s.G g1 = some h1) (hg2 : aget s.G g2 = some h2) (himpl : h1.impl = h2.impl) :
    stepSimple s (.sizeq g1) = stepSimple s (.sizeq g2) ∧
    stepSimple s (.emptyGq g1) = stepSimple s (.emptyGq g2) ∧
    stepSimple s (.blockedGq g1) = stepSimple s (.blockedGq g2) ∧
    (∀ b, stepSimple s (.blockG g1 b) = stepSimple s (.blockG g2 b)) ∧
    stepSimple s (.clear g1) = stepSimple s (.clear g2) := by
  refine ⟨?_, ?_, ?_, ?_, ?_⟩ <;> simp [stepSimple, hg1, hg2, himpl]

example :
    let s : St := { G := [(0, { obj := 1, fl := .I, impl := some 7, trk := 2, lvl := 0 }),
                          (1, { obj := 3, fl := .I, impl := some 7, trk := 4, lvl := 0 })],
                    impls := [(7, { cells := [{ id := 9, slot := { }, linked := true }] })], next := 10 }
    (stepSimple s (.sizeq 0)).map (·.2) = some "1" ∧ (stepSimple s (.sizeq 1)).map (·.2) = some "1" := by
  decide

/-- an emission through either handle of one list is the same computation (same flavour, same list) —
    for every program, fuel, argument and accumulator strategy -/
theorem shared_handles_agree_emit (f : Nat) (P : Prog) (s : St) (g1 g2 arg : Nat) (st : Strat) (t : Bool) (h1 h2 : Handle)
    (hg1 : aget s.G g1 = some h1) (hg2 : aget s.G g2 = some h2) (himpl : h1.impl = h2.impl) (hfl : h1.fl = h2.fl) :
    execOp f P s (.emit g1 arg st t) = execOp f P s (.emit g2 arg st t) := by
  cases f with
  | zero => rw [execOp, execOp]
  | succ f =>
    rw [execOp, execOp]
    simp only [hg1, hg2, himpl, hfl]

example (f : Nat) (P : Prog) : execOp f P exStT (.emit 0 5 .sum false) = execOp f P exStT (.emit 1 5 .sum false) :=
  shared_handles_agree_emit f P exStT 0 1 5 .sum false _ _ rfl rfl rfl rfl

/-- connecting through either handle of one (existing) list inserts the same cell into the same list:
    identical result and successor state -/
theorem shared_handles_agree_connect (s : St) (g1 g2 im : Nat) (h1 h2 : Handle)
    (hg1 : aget s.G g1 = some h1) (hg2 : aget s.G g2 = some h2) (hi1 : h1.impl = some im) (hi2 : h2.impl = some im)
    (hfl : h1.fl = h2.fl) (hlvl : h1.lvl = h2.lvl) :
    (∀ k spec first, stepSimple s (.connfn k g1 spec first) = stepSimple s (.connfn k g2 spec first)) ∧
    (∀ k sv first mv, stepSimple s (.conn k g1 sv first mv) = stepSimple s (.conn k g2 sv first mv)) := by
  constructor
  · intro k spec first
    simp only [stepSimple, hg1, hg2, hfl, hlvl]
    cases hm : mkFun s h2.fl.isVoid spec with
    | error e => rfl
    | ok pr =>
      obtain ⟨fn, s1⟩ := pr
      simp only []
      obtain ⟨_, _, _, _, hG⟩ := mkFun_frame s s1 _ spec fn hm
      obtain ⟨a1, ha1, hia1, _⟩ := hG g1 h1 hg1
      obtain ⟨a2, ha2, hia2, _⟩ := hG g2 h2 hg2
      rw [ensureImpl_some s1 g1 im a1 ha1 (hia1.trans hi1), ensureImpl_some s1 g2 im a2 ha2 (hia2.trans hi2)]
  · intro k sv first mv
    cases hv : aget s.S sv with
    | none => simp [stepSimple, hg1, hg2, hv]
    | some v =>
      simp only [stepSimple, hg1, hg2, hv, hfl, hlvl, ensureImpl_some s g1 im h1 hg1 hi1, ensureImpl_some s g2 im h2 hg2 hi2]

example : stepSimple exStT (.connfn 7 0 (.fn 1) false) = stepSimple exStT (.connfn 7 1 (.fn 1) false) :=
  (shared_handles_agree_connect exStT 0 1 3 _ _ rfl rfl rfl rfl rfl rfl).1 7 (.fn 1) false

/-! ## move_transfers -/

/-- move construction of a plain `sigc::signal` transfers the list: the new object has the source's
    list, the source has none (and is reusable) -/
theorem mvG_transfers (s s' : St) (r : String) (j i : Nat) (h0 : Handle)
    (hi : aget s.G i = some h0) (hj : aget s.G j = none) (hacc : h0.fl.isAcc = false) (hji : j ≠ i)
    (h : stepSimple s (.mvG j i) = some (s', r)) :
    r = "ok" ∧ (∃ hd, aget s'.G j = some hd ∧ hd.impl = h0.impl ∧ hd.fl = h0.fl) ∧
    (∃ hs, aget s'.G i = some hs ∧ hs.impl = none) := by
  simp only [stepSimple, hi, hj, hacc] at h
  simp [St.fresh] at h
  obtain ⟨rfl, rfl⟩ := h
  refine ⟨rfl, ?_, ?_⟩
  · by_cases ht : h0.fl.isTrackable = true <;> simp [ht]
  · by_cases ht : h0.fl.isTrackable = true <;> simp [ht, aget_aset_other _ _ _ _ (Ne.symm hji)]

example : ∃ s' r, stepSimple { G := [(0, { obj := 1, fl := .I, impl := some 5, trk := 2, lvl := 0 })], next := 9 } (.mvG 1 0) = some (s', r)
    ∧ (aget s'.G 0).map (·.impl) = some none ∧ (aget s'.G 1).map (·.impl) = some (some 5) := by
  refine ⟨_, _, rfl, ?_, ?_⟩ <;> simp [aget, aset, St.fresh, Flavour.isTrackable]

/-- the moved-from source is reusable: connecting through a handle without list allocates a fresh list
    holding exactly the new slot -/
theorem connect_allocates_fresh (s : St) (k g fid : Nat) (first : Bool) (h0 : Handle)
    (hg : aget s.G g = some h0) (hi : h0.impl = none) :
    ∃ s', stepSimple s (.connfn k g (.fn fid) first) = some (s', "ok") ∧
      aget s'.G g = some { h0 with impl := some s.next } ∧
      aget s'.impls s.next = some { cells := [{ id := s.next + 1, slot := { blocked := false, rep := some { call := true, fn := some (.leaf fid []) } }, linked := true }] } ∧
      aget s'.C k = some (some (s.next + 1)) ∧ s'.next = s.next + 2 := by
  simp only [stepSimple, hg, mkFun, specTaint]
  have hl : ¬ ((-1 : Int) ≥ (h0.lvl : Int)) := by omega
  simp only [hl, if_false, ensureImpl_none s g h0 hg hi]
  refine ⟨_, rfl, ?_, ?_, ?_, ?_⟩
  · cases first <;> simp [insertCell, allocImpl, St.fresh, setConn, setImpl]
  · cases first <;> simp [insertCell, allocImpl, St.fresh, setConn, setImpl]
  · cases first <;> simp [insertCell, allocImpl, St.fresh, setConn, setImpl]
  · cases first <;> simp [insertCell, allocImpl, St.fresh, setConn, setImpl]

/-- move construction then connect through the source: the source gets a *fresh* list, the destination
    keeps the transferred one -/
example :
    let run := fun (s : Option (St × String)) (op : Op) => s.bind (fun x => stepSimple x.1 op)
    let s4 := [Op.newG 0 (some .I), .connfn 0 0 (.fn 5) false, .mvG 1 0, .connfn 1 0 (.fn 6) false].foldl run (some ({}, ""))
    (s4.map (fun x => x.1.G.map (fun p => p.2.impl))) = some [some 7, some 3] ∧
    (run s4 (.sizeq 0)).map (·.2) = some "1" ∧ (run s4 (.sizeq 1)).map (·.2) = some "1" := by
  decide

/-- move assignment (non-accumulated flavours, distinct objects, not refused as `owned`, see
    `StepHandles.masgOwned`: no functor owns the source, nor — trackable flavours — the destination): the destination takes
    the source's list — also when both shared one list before (repaired F3) —, the source is left without a
    list -/
theorem masgG_transfers (s s' : St) (r : String) (j i : Nat) (d h0 : Handle)
    (hj : aget s.G j = some d) (hi : aget s.G i = some h0) (hfl : d.fl = h0.fl) (hlvl : d.lvl = h0.lvl)
    (hacc : h0.fl.isAcc = false) (hji : j ≠ i) (hown : masgOwned s h0.fl j i = false)
    (h : stepSimple s (.masgG j i) = some (s', r)) :
    r = "ok" ∧ aget s'.G j = some { d with impl := h0.impl } ∧ aget s'.G i = some { h0 with impl := none } := by
  unfold masgOwned at hown
  simp only [stepSimple, hj, hi] at h
  rw [if_neg (by simp [hfl]), if_neg (by simp [hlvl])] at h
  simp only [hacc, hji, hown, Bool.not_false, Bool.and_false, if_false, Bool.false_eq_true, Option.some.injEq, Prod.mk.injEq] at h
  obtain ⟨rfl, rfl⟩ := h
  refine ⟨rfl, ?_, ?_⟩
  · split <;> cases d.impl <;> simp [aget_aset_other _ _ _ _ hji]
  · split <;> cases d.impl <;> simp

example : (stepSimple { G := [(0, { obj := 1, fl := .I, impl := some 7, trk := 2, lvl := 0 }),
                              (1, { obj := 3, fl := .I, impl := some 7, trk := 4, lvl := 0 })],
                        impls := [(7, {})], next := 8 } (.masgG 1 0)).map
    (fun x => x.1.G.map (fun p => p.2.impl)) = some [none, some 7] := by decide

/-- a refused move assignment changes nothing -/
theorem masgG_owned_refused (s : St) (j i : Nat) (d h0 : Handle)
    (hj : aget s.G j = some d) (hi : aget s.G i = some h0) (hfl : d.fl = h0.fl) (hlvl : d.lvl = h0.lvl)
    (hacc : h0.fl.isAcc = false) (hown : masgOwned s h0.fl j i = true) :
    stepSimple s (.masgG j i) = some (s, "owned") := by
  unfold masgOwned at hown
  simp only [stepSimple, hj, hi]
  rw [if_neg (by simp [hfl]), if_neg (by simp [hlvl])]
  simp only [hacc, hown, Bool.not_false, Bool.and_self, if_true]

example : (stepSimple { G := [(0, { obj := 1, fl := .I, impl := some 7, trk := 2, lvl := 0 }),
                              (1, { obj := 3, fl := .I, impl := none, trk := 4, lvl := 0 })],
                        impls := [(7, {})], ownedG := [(5, 0)], next := 8 } (.masgG 1 0)).map (·.2) = some "owned" := by
  rw [masgG_owned_refused _ 1 0 { obj := 3, fl := .I, impl := none, trk := 4, lvl := 0 }
    { obj := 1, fl := .I, impl := some 7, trk := 2, lvl := 0 } rfl rfl rfl rfl rfl rfl]; rfl

/-- self-move-assignment is the identity, for every flavour (when it is not refused: the object is not owned by
    a functor, or of an `accumulated` flavour) -/
theorem masgG_self (s : St) (i : Nat) (h0 : Handle) (hi : aget s.G i = some h0)
    (hown : (!h0.fl.isAcc && s.ownedG.any (fun p => p.2 = i)) = false) :
    stepSimple s (.masgG i i) = some (s, "ok") := by
  simp only [stepSimple, hi]
  cases hacc : h0.fl.isAcc
  · simp only [hacc, Bool.not_false, Bool.true_and] at hown
    simp [hown]
  · simp

/-- … and refused or not, it leaves the state alone -/
theorem masgG_self_state (s : St) (i : Nat) (h0 : Handle) (hi : aget s.G i = some h0) :
    ∃ r, stepSimple s (.masgG i i) = some (s, r) ∧ (r = "ok" ∨ r = "owned") := by
  simp only [stepSimple, hi]
  cases hacc : h0.fl.isAcc
  · cases hown : s.ownedG.any (fun p => p.2 = i)
    · exact ⟨"ok", by simp, .inl rfl⟩
    · exact ⟨"owned", by simp, .inr rfl⟩
  · exact ⟨"ok", by simp, .inl rfl⟩

example : stepSimple exStT (.masgG 0 0) = some (exStT, "ok") := masgG_self exStT 0 _ rfl rfl

/-- self-copy-assignment is the identity -/
theorem asgG_self (s : St) (i : Nat) (h0 : Handle) (hi : aget s.G i = some h0) :
    stepSimple s (.asgG i i) = some (s, "ok") := by
  simp [stepSimple, hi]

example : stepSimple exStT (.asgG 1 1) = some (exStT, "ok") := asgG_self exStT 1 _ rfl

/-- the `accumulated` flavours declare no move constructor: moving is copying -/
theorem mvG_acc_is_copy (s : St) (j i : Nat) (h0 : Handle) (hi : aget s.G i = some h0) (hacc : h0.fl.isAcc = true) :
    stepSimple s (.mvG j i) = stepSimple s (.cpG j i) := by
  simp only [stepSimple, hi, hacc, if_true]
  cases hj : aget s.G j with
  | some _ => rfl
  | none =>
    simp only []
    obtain ⟨s1, im, he, hg1, _⟩ := ensureImpl_cases s i h0 hi
    simp [he, hg1]

example : (stepSimple { G := [(0, { obj := 1, fl := .TA, impl := none, trk := 2, lvl := 0 })], next := 3 } (.mvG 1 0)).map
    (fun x => (x.1.G.map (fun p => (p.2.impl, p.2.trk)))) = some [(some 3, 2), (some 3, 5)] := by decide

/-- … and move assignment is copy assignment -/
theorem masgG_acc_is_copy_assign (s : St) (j i : Nat) (h0 : Handle) (hi : aget s.G i = some h0) (hacc : h0.fl.isAcc = true) :
    stepSimple s (.masgG j i) = stepSimple s (.asgG j i) := by
  cases hj : aget s.G j <;> simp [stepSimple, hi, hj, hacc]

example : (stepSimple { G := [(0, { obj := 1, fl := .A, impl := some 7, trk := 2, lvl := 0 })], impls := [(7, {})], next := 8 } (.mvG 1 0)).map
    (fun x => x.1.G.map (fun p => p.2.impl)) = some [some 7, some 7] := by decide

/-! ## last_owner_teardown / lives_while_owned -/

/-- a list some signal object still refers to is never torn down -/
theorem lives_while_owned (s : St) (g i : Nat) (h0 : Handle) (hg : aget s.G g = some h0) (hi : h0.impl = some i) :
    gcImpl s i = s :=
  gcImpl_owned s i (refersTo_of_aget s.G g i h0 hg hi)

example : gcImpl exStT 3 = exStT := lives_while_owned exStT 0 3 _ rfl rfl

/-- a list whose emission is still running (a `signal_impl_holder` is alive) is never torn down, even
    when no signal object refers to it any more -/
theorem lives_while_emitting (s : St) (i : Nat) (im : Impl) (hi : aget s.impls i = some im) (hh : im.holders ≠ 0) :
    gcImpl s i = s :=
  gcImpl_held s i im hi hh

example : gcImpl { impls := [(3, { holders := 1, exec := 1 })] } 3 = { impls := [(3, { holders := 1, exec := 1 })] } :=
  lives_while_emitting _ 3 _ rfl (by decide)

/-- when the last owner is gone (no signal object refers to the list, no holder is alive) the list
    disappears with all its slots (their functor copies with them), every connection to one of its slots
    is nulled (reports disconnected), every other connection, list, slot variable and handle is untouched -/
theorem last_owner_teardown (s : St) (i : Nat) (im : Impl) (hi : aget s.impls i = some im) (hh : im.holders = 0)
    (hr : refersTo s.G i = false) :
    aget (gcImpl s i).impls i = none ∧
    (∀ k, k ≠ i → aget (gcImpl s i).impls k = aget s.impls k) ∧
    (∀ c, aget (gcImpl s i).C c = (aget s.C c).map (nullFL (im.cells.map (·.id)))) ∧
    (∀ c, aget (gcImpl s i).K c = (aget s.K c).map (nullFL (im.cells.map (·.id)))) ∧
    (gcImpl s i).S = s.S ∧ (gcImpl s i).G = s.G ∧ (gcImpl s i).T = s.T := by
  refine ⟨?_, fun k hk => gcImpl_other s i k hk, ?_, ?_, gcImpl_S s i, gcImpl_G s i, gcImpl_T s i⟩
  · rw [gcImpl_last s i im hi hh hr, nullConnsList_impls]; simp
  · intro c; rw [gcImpl_last s i im hi hh hr, nullConnsList_C_entry]
  · intro c; rw [gcImpl_last s i im hi hh hr, nullConnsList_K_entry]

example :
    let s : St := { impls := [(3, { cells := [{ id := 4, slot := { }, linked := true }] }), (6, { })],
                    C := [(0, some 4), (1, some 9)], K := [(0, some 4)] }
    ((gcImpl s 3).impls.map (·.1), (gcImpl s 3).C, (gcImpl s 3).K) = ([6], [(0, none), (1, some 9)], [(0, none)]) := by
  decide

/-- … so every connection that pointed into the dead list reports "not connected" afterwards -/
theorem teardown_disconnects (s : St) (i c cid : Nat) (im : Impl) (hi : aget s.impls i = some im) (hh : im.holders = 0)
    (hr : refersTo s.G i = false) (hc : aget s.C c = some (some cid)) (hmem : cid ∈ im.cells.map (·.id)) :
    stepSimple (gcImpl s i) (.connectedq c) = some (gcImpl s i, "0") := by
  obtain ⟨_, _, hC, _⟩ := last_owner_teardown s i im hi hh hr
  have : aget (gcImpl s i).C c = some none := by
    rw [hC c, hc]; simp [nullFL, hmem]
  simp [stepSimple, this, connConnected, bstr]

example :
    let s : St := { impls := [(3, { cells := [{ id := 4, slot := { rep := some { call := true, fn := some (.leaf 1 []) } }, linked := true }] })],
                    C := [(0, some 4)] }
    (stepSimple s (.connectedq 0)).map (·.2) = some "1" ∧ (stepSimple (gcImpl s 3) (.connectedq 0)).map (·.2) = some "0" := by
  decide

/-- … and the functor copies the torn-down list held are released: `liveCount` drops by at least the
    copies held by its cells, and by exactly that number when impl keys are unique -/
theorem teardown_releases_functors (s : St) (i fid : Nat) (im : Impl) (hi : aget s.impls i = some im) (hh : im.holders = 0)
    (hr : refersTo s.G i = false) :
    liveCount (gcImpl s i) fid + implLive fid im ≤ liveCount s fid ∧
    ((s.impls.map (·.1)).Nodup → liveCount (gcImpl s i) fid + implLive fid im = liveCount s fid) :=
  gcImpl_last_liveCount s i im fid hi hh hr

example :
    let s : St := { impls := [(3, { cells := [{ id := 4, slot := { rep := some { call := true, fn := some (.leaf 1 []) } }, linked := true }] }),
                              (6, { cells := [{ id := 5, slot := { rep := some { call := true, fn := some (.leaf 1 []) } }, linked := true }] })] }
    liveCount s 1 = 2 ∧ liveCount (gcImpl s 3) 1 = 1 := by
  decide

/-- destroying a signal object: `~trackable` first (trackable flavours: the forwarders made from this
    object are invalidated), then the handle goes, then the list is torn down iff this was the last owner -/
theorem delG_eq (s : St) (g : Nat) (h0 : Handle) (hg : aget s.G g = some h0)
    (hpin : (h0.everFwd && !h0.fl.isTrackable) = false) (hown : s.ownedG.any (fun p => p.2 = g) = false) :
    stepSimple s (.delG g) = some (
      (let s1 := if h0.fl.isTrackable then invalidateTrackable s h0.trk else s
       let s2 := { s1 with G := adel s1.G g }
       match h0.impl with | some im => gcImpl s2 im | none => s2), "ok") := by
  cases himpl : h0.impl <;> simp [stepSimple, hg, hpin, hown, himpl]

example : (stepSimple exStT (.delG 1)).map (·.2) = some "ok" := by
  rw [delG_eq exStT 1 _ rfl rfl rfl]; rfl

/-- … which is `dropHandle` (what `collect` runs when the last functor copy owning the object is gone) -/
theorem delG_eq_dropHandle (s : St) (g : Nat) (h0 : Handle) (hg : aget s.G g = some h0)
    (hpin : (h0.everFwd && !h0.fl.isTrackable) = false) (hown : s.ownedG.any (fun p => p.2 = g) = false) :
    stepSimple s (.delG g) = some (dropHandle s g, "ok") := by
  rw [delG_eq s g h0 hg hpin hown]
  simp only [dropHandle, hg]
  rfl

example : stepSimple exStT (.delG 1) = some (dropHandle exStT 1, "ok") := delG_eq_dropHandle exStT 1 _ rfl rfl rfl

/-- a signal object that a functor owns (`ownG`) cannot be destroyed through its name: `delG` is refused and
    changes nothing -/
theorem delG_owned_refused (s : St) (g : Nat) (h0 : Handle) (hg : aget s.G g = some h0)
    (hown : s.ownedG.any (fun p => p.2 = g) = true) :
    ∃ r, stepSimple s (.delG g) = some (s, r) ∧ (r = "pinned" ∨ r = "owned") := by
  simp only [stepSimple, hg, hown, if_true]
  cases (h0.everFwd && !h0.fl.isTrackable)
  · exact ⟨"owned", by simp, .inr rfl⟩
  · exact ⟨"pinned", by simp, .inl rfl⟩

example : (stepSimple { G := [(4, { obj := 9, fl := .I, impl := none, trk := 0, lvl := 0 })], ownedG := [(7, 4)] } (.delG 4)).map (·.2)
    = some "owned" := rfl

/-- destroying the last signal object of a list (plain flavour, no emission running; not refused: never
    forwarded to, not owned by a functor) tears the list down: it is gone, and every connection into it reports
    disconnected -/
theorem delG_last_owner (s s' : St) (r : String) (g i : Nat) (h0 : Handle) (im : Impl)
    (hg : aget s.G g = some h0) (hpin : h0.everFwd = false) (htr : h0.fl.isTrackable = false) (himpl : h0.impl = some i)
    (hi : aget s.impls i = some im) (hh : im.holders = 0) (hlast : refersTo (adel s.G g) i = false)
    (hown : s.ownedG.any (fun p => p.2 = g) = false)
    (h : stepSimple s (.delG g) = some (s', r)) :
    r = "ok" ∧ aget s'.impls i = none ∧ aget s'.G g = none ∧
    (∀ c, aget s'.C c = (aget s.C c).map (nullFL (im.cells.map (·.id)))) ∧ s'.S = s.S := by
  rw [delG_eq s g h0 hg (by simp [hpin]) hown] at h
  simp only [htr, himpl] at h
  simp at h
  obtain ⟨rfl, rfl⟩ := h
  obtain ⟨a, _, c, _, d, e, _⟩ := last_owner_teardown { s with G := adel s.G g } i im hi hh hlast
  exact ⟨rfl, a, by rw [e]; simp, c, d⟩

/-- … and destroying one of two owners leaves the list and all its connections alone -/
theorem delG_not_last_owner (s s' : St) (r : String) (g g2 i : Nat) (h0 h2 : Handle)
    (hg : aget s.G g = some h0) (hpin : h0.everFwd = false) (htr : h0.fl.isTrackable = false) (himpl : h0.impl = some i)
    (hg2 : aget s.G g2 = some h2) (hne : g2 ≠ g) (himpl2 : h2.impl = some i)
    (hown : s.ownedG.any (fun p => p.2 = g) = false)
    (h : stepSimple s (.delG g) = some (s', r)) :
    r = "ok" ∧ s'.impls = s.impls ∧ s'.C = s.C ∧ s'.K = s.K ∧ s'.S = s.S ∧ aget s'.G g = none ∧ aget s'.G g2 = some h2 := by
  rw [delG_eq s g h0 hg (by simp [hpin]) hown] at h
  simp only [htr, himpl] at h
  simp at h
  obtain ⟨rfl, rfl⟩ := h
  have h2' : aget (adel s.G g) g2 = some h2 := by rw [aget_adel_other _ _ _ hne]; exact hg2
  rw [lives_while_owned { s with G := adel s.G g } g2 i h2 h2' himpl2]
  exact ⟨rfl, rfl, rfl, rfl, rfl, by simp, h2'⟩

example :
    let run := fun (s : Option (St × String)) (op : Op) => s.bind (fun x => stepSimple x.1 op)
    let s3 := [Op.newG 0 (some .I), .connfn 0 0 (.fn 5) false, .cpG 1 0].foldl run (some ({}, ""))
    let s4 := run s3 (.delG 0)
    let s5 := run s4 (.delG 1)
    (run s4 (.sizeq 1)).map (·.2) = some "1" ∧ (run s4 (.connectedq 0)).map (·.2) = some "1" ∧
    (run s5 (.connectedq 0)).map (·.2) = some "0" ∧ s5.map (fun x => x.1.impls.length) = some 0 := by
  decide

/-- reassigning the last handle of a list tears the old list down as well (copy assignment): handles
    0 and 1 (same level) own different lists; `asgG 0 1` drops the last owner of the first list -/
example :
    let run := fun (s : Option (St × String)) (op : Op) => s.bind (fun x => stepSimple x.1 op)
    let s6 := [Op.newG 0 (some .I), .connfn 0 0 (.fn 5) false, .cpG 1 0, .mvG 2 1, .connfn 1 1 (.fn 6) false, .delG 2].foldl run (some ({}, ""))
    let s7 := run s6 (.asgG 0 1)
    s6.map (fun x => x.1.impls.length) = some 2 ∧
    (run s7 (.connectedq 0)).map (·.2) = some "0" ∧ (run s7 (.connectedq 1)).map (·.2) = some "1" ∧
    (run s7 (.sizeq 0)).map (·.2) = some "1" ∧ s7.map (fun x => x.1.impls.length) = some 1 := by
  decide

/-! ## trackable flavours: exactly which signal-object operations notify

`invVar t` is what `notify_callbacks()` of trackable `t` does to a slot variable (invalidate it iff its
functor refers to `t`); the effect on list cells is `C18.*_dies_with_object`. -/

/-- destroying a trackable_signal (not refused: not owned by a functor) notifies its trackable base: every slot
    variable holding a forwarder made from it is invalidated, no other slot variable changes -/
theorem delG_notifies (s s' : St) (r : String) (g : Nat) (h0 : Handle)
    (hg : aget s.G g = some h0) (ht : h0.fl.isTrackable = true) (hown : s.ownedG.any (fun p => p.2 = g) = false)
    (h : stepSimple s (.delG g) = some (s', r)) :
    s'.S = amap s.S (invVar h0.trk) := by
  rw [delG_eq s g h0 hg (by simp [ht]) hown] at h
  simp only [ht, if_true, Option.some.injEq, Prod.mk.injEq] at h
  obtain ⟨rfl, _⟩ := h
  cases h0.impl <;> simp [gcImpl_S, invalidateTrackable_S]

/-- destroying a plain signal notifies nobody -/
theorem delG_plain_notifies_nobody (s s' : St) (r : String) (g : Nat) (h0 : Handle)
    (hg : aget s.G g = some h0) (ht : h0.fl.isTrackable = false) (h : stepSimple s (.delG g) = some (s', r)) :
    s'.S = s.S := by
  simp only [stepSimple, hg, ht] at h
  split at h
  · simp at h; obtain ⟨rfl, _⟩ := h; rfl
  · split at h
    · simp at h; obtain ⟨rfl, _⟩ := h; rfl
    · simp at h; obtain ⟨rfl, _⟩ := h
      cases h0.impl <;> simp [gcImpl_S]

/-- move construction from a trackable_signal (not `accumulated`) notifies the source's trackable base -/
theorem mvG_notifies (s s' : St) (r : String) (j i : Nat) (h0 : Handle)
    (hi : aget s.G i = some h0) (hj : aget s.G j = none) (ht : h0.fl.isTrackable = true) (hacc : h0.fl.isAcc = false)
    (h : stepSimple s (.mvG j i) = some (s', r)) :
    s'.S = amap s.S (invVar h0.trk) := by
  simp only [stepSimple, hi, hj, hacc, ht] at h
  simp [St.fresh] at h
  obtain ⟨rfl, _⟩ := h
  rw [invalidateTrackable_S]

/-- move construction from a plain signal, or from an `accumulated` one (a copy), notifies nobody -/
theorem mvG_notifies_nobody (s s' : St) (r : String) (j i : Nat) (h0 : Handle)
    (hi : aget s.G i = some h0) (hno : h0.fl.isTrackable = false ∨ h0.fl.isAcc = true)
    (h : stepSimple s (.mvG j i) = some (s', r)) :
    s'.S = s.S := by
  simp only [stepSimple, hi] at h
  split at h
  · simp at h; obtain ⟨rfl, _⟩ := h; rfl
  · by_cases hacc : h0.fl.isAcc = true
    · simp only [hacc, if_true] at h
      obtain ⟨s1, im, he, _, _, hS1, _⟩ := ensureImpl_cases s i h0 hi
      simp only [he] at h
      simp [St.fresh] at h
      obtain ⟨rfl, _⟩ := h
      exact hS1
    · have ht : h0.fl.isTrackable = false := by
        rcases hno with h1 | h1
        · exact h1
        · exact absurd h1 hacc
      simp only [hacc, ht] at h
      simp [St.fresh] at h
      obtain ⟨rfl, _⟩ := h
      rfl

/-- move assignment from a trackable_signal that has a list (not `accumulated`, not self, not refused as
    `owned`) notifies the source's trackable base -/
theorem masgG_notifies (s s' : St) (r : String) (j i : Nat) (d h0 : Handle)
    (hj : aget s.G j = some d) (hi : aget s.G i = some h0) (hfl : d.fl = h0.fl) (hlvl : d.lvl = h0.lvl) (hji : j ≠ i)
    (ht : h0.fl.isTrackable = true) (hacc : h0.fl.isAcc = false) (hsome : h0.impl.isSome = true)
    (hown : masgOwned s h0.fl j i = false)
    (h : stepSimple s (.masgG j i) = some (s', r)) :
    s'.S = amap s.S (invVar h0.trk) := by
  unfold masgOwned at hown
  simp only [stepSimple, hj, hi] at h
  rw [if_neg (by simp [hfl]), if_neg (by simp [hlvl])] at h
  simp only [hacc, hown, Bool.not_false, Bool.and_false] at h
  simp only [hji, if_false, Bool.false_eq_true, ht, hsome, Bool.and_self, if_true, Option.some.injEq, Prod.mk.injEq] at h
  obtain ⟨rfl, _⟩ := h
  rw [invalidateTrackable_S]
  cases d.impl <;> simp [gcImpl_S]

/-- move assignment notifies nobody when the source is a plain signal, an `accumulated` one (copy
    assignment), has no list, or is the destination itself -/
theorem masgG_notifies_nobody (s s' : St) (r : String) (j i : Nat) (h0 : Handle)
    (hi : aget s.G i = some h0)
    (hno : h0.fl.isTrackable = false ∨ h0.fl.isAcc = true ∨ h0.impl = none ∨ j = i)
    (h : stepSimple s (.masgG j i) = some (s', r)) :
    s'.S = s.S := by
  simp only [stepSimple, hi] at h
  cases hj : aget s.G j with
  | none => simp [hj] at h; obtain ⟨rfl, _⟩ := h; rfl
  | some d =>
    simp only [hj] at h
    split at h
    · simp at h; obtain ⟨rfl, _⟩ := h; rfl
    · split at h
      · simp at h; obtain ⟨rfl, _⟩ := h; rfl
      · split at h
        · simp at h; obtain ⟨rfl, _⟩ := h; rfl
        · by_cases hacc : h0.fl.isAcc = true
          · simp only [hacc, if_true] at h
            split at h
            · simp at h; obtain ⟨rfl, _⟩ := h; rfl
            · obtain ⟨s1, im, he, _, _, hS1, _⟩ := ensureImpl_cases s i h0 hi
              simp only [he] at h
              split at h
              · simp at h; obtain ⟨rfl, _⟩ := h; exact hS1
              · simp at h; obtain ⟨rfl, _⟩ := h
                cases d.impl <;> simp [gcImpl_S, hS1]
          · simp only [hacc] at h
            by_cases hji : j = i
            · simp [hji] at h; obtain ⟨rfl, _⟩ := h; rfl
            · have hcond : (h0.fl.isTrackable && h0.impl.isSome) = false := by
                rcases hno with h1 | h1 | h1 | h1
                · simp [h1]
                · exact absurd h1 hacc
                · simp [h1]
                · exact absurd h1 hji
              simp only [hji, if_false, Bool.false_eq_true, hcond, Option.some.injEq, Prod.mk.injEq] at h
              obtain ⟨rfl, _⟩ := h
              cases d.impl <;> simp [gcImpl_S]

/-- copy construction and copy assignment never notify: the copy gets its own trackable base and the
    source keeps its registrations -/
theorem copies_notify_nobody (s s' : St) (r : String) (j i : Nat) (op : Op) (hop : op = .cpG j i ∨ op = .asgG j i)
    (h : stepSimple s op = some (s', r)) :
    s'.S = s.S := by
  rcases hop with rfl | rfl
  · simp only [stepSimple] at h
    cases hi : aget s.G i with
    | none => simp [hi] at h; obtain ⟨rfl, _⟩ := h; rfl
    | some h0 =>
      simp only [hi] at h
      split at h
      · simp at h; obtain ⟨rfl, _⟩ := h; rfl
      · obtain ⟨s1, im, he, hg1, _, hS1, _⟩ := ensureImpl_cases s i h0 hi
        simp only [he, hg1] at h
        simp [St.fresh] at h
        obtain ⟨rfl, _⟩ := h
        exact hS1
  · simp only [stepSimple] at h
    cases hi : aget s.G i with
    | none =>
      cases hj : aget s.G j <;> simp [hi, hj] at h <;> obtain ⟨rfl, _⟩ := h <;> rfl
    | some h0 =>
      cases hj : aget s.G j with
      | none => simp [hi, hj] at h; obtain ⟨rfl, _⟩ := h; rfl
      | some d =>
        simp only [hi, hj] at h
        split at h
        · simp at h; obtain ⟨rfl, _⟩ := h; rfl
        · split at h
          · simp at h; obtain ⟨rfl, _⟩ := h; rfl
          · split at h
            · simp at h; obtain ⟨rfl, _⟩ := h; rfl
            · obtain ⟨s1, im, he, _, _, hS1, _⟩ := ensureImpl_cases s i h0 hi
              simp only [he] at h
              split at h
              · simp at h; obtain ⟨rfl, _⟩ := h; exact hS1
              · simp at h; obtain ⟨rfl, _⟩ := h
                cases d.impl <;> simp [gcImpl_S, hS1]

/-- on the concrete state `exStT` (slot variable 0 holds a forwarder to trackable_signal object 0, whose
    copy is object 1): destroying / moving from object 0 empties the variable, copying it, assigning it,
    or destroying the copy does not -/
example :
    (stepSimple exStT (.delG 0)).map (fun x => x.1.S.map (fun p => p.2.slot.empty)) = some [true] ∧
    (stepSimple exStT (.mvG 3 0)).map (fun x => x.1.S.map (fun p => p.2.slot.empty)) = some [true] ∧
    (stepSimple exStT (.masgG 1 0)).map (fun x => x.1.S.map (fun p => p.2.slot.empty)) = some [true] ∧
    (stepSimple exStT (.cpG 3 0)).map (fun x => x.1.S.map (fun p => p.2.slot.empty)) = some [false] ∧
    (stepSimple exStT (.asgG 1 0)).map (fun x => x.1.S.map (fun p => p.2.slot.empty)) = some [false] ∧
    (stepSimple exStT (.delG 1)).map (fun x => x.1.S.map (fun p => p.2.slot.empty)) = some [false] ∧
    (stepSimple exStT (.masgG 0 0)).map (fun x => x.1.S.map (fun p => p.2.slot.empty)) = some [false] := by
  decide

/-! ## signal objects owned by functors (`ownG`): the owner keeps the object, hence its list, alive -/

/-- `delG` either leaves the state alone (`dead`, `pinned`, `owned`) or is `dropHandle` -/
theorem delG_cases (s : St) (g : Nat) :
    (∃ r, stepSimple s (.delG g) = some (s, r) ∧ r ≠ "ok") ∨ stepSimple s (.delG g) = some (dropHandle s g, "ok") := by
  cases hg : aget s.G g with
  | none => exact Or.inl ⟨"dead", by simp only [stepSimple, hg], by decide⟩
  | some h0 =>
    cases hpin : (h0.everFwd && !h0.fl.isTrackable) with
    | true => exact Or.inl ⟨"pinned", by simp only [stepSimple, hg, hpin, if_true], by decide⟩
    | false =>
      cases hown : s.ownedG.any (fun p => p.2 = g) with
      | true => exact Or.inl ⟨"owned", by simp only [stepSimple, hg, hpin, hown, if_true, Bool.false_eq_true, if_false], by decide⟩
      | false => exact Or.inr (delG_eq_dropHandle s g h0 hg hpin hown)

/-- connecting a functor that owns the signal object named `g0` (`connfn k g (ownG fid g0)`, answer `ok`): `g0` was
    named and owned by no functor; afterwards it has exactly one new entry in `ownedG`, under a fresh owner id, and
    its name is still in `G` (so `delG g0` is refused from now on: `delG_owned_refused`) -/
theorem connfn_ownG_registers (s s' : St) (k g fid g0 : Nat) (first : Bool)
    (h : stepSimple s (.connfn k g (.ownG fid g0) first) = some (s', "ok")) :
    (aget s.G g0).isSome = true ∧ s.ownedG.any (fun p => p.2 = g0) = false ∧
    s'.ownedG = (s.next, g0) :: s.ownedG ∧ (aget s'.G g0).isSome = true := by
  simp only [stepSimple] at h
  cases hg : aget s.G g with
  | none => simp [hg] at h
  | some hd =>
    simp only [hg] at h
    cases hm : mkFun s hd.fl.isVoid (.ownG fid g0) with
    | error e =>
      simp only [hm, Option.some.injEq, Prod.mk.injEq] at h
      exact absurd h.2 (mkFun_error_ne_ok _ _ _ _ hm)
    | ok pr =>
      obtain ⟨fn, s0⟩ := pr
      obtain ⟨hs0, _, hsome, hno⟩ := (Sigc.StepSlots.mkFun_ok_ownG s s0 _ _ fn hm).2 fid g0 rfl
      subst hs0
      have hl : ¬ ((-1 : Int) ≥ (hd.lvl : Int)) := by omega
      simp only [hm, specTaint, hl, if_false] at h
      obtain ⟨s1, im, he, hg1, hoth, _, _, _, _, _, hcase⟩ :=
        ensureImpl_cases { s with ownedG := (s.next, g0) :: s.ownedG, next := s.next + 1 } g hd hg
      simp only [he, Option.some.injEq, Prod.mk.injEq] at h
      obtain ⟨rfl, _⟩ := h
      refine ⟨hsome, hno, ?_, ?_⟩
      · show (insertCell s1 im first _).1.ownedG = _
        rw [insertCell_ownedG]
        rcases hcase with ⟨_, rfl⟩ | ⟨_, _, rfl⟩ <;> rfl
      · show (aget (insertCell s1 im first _).1.G g0).isSome = true
        rw [insertCell_G]
        by_cases e : g0 = g
        · subst e; rw [hg1]; rfl
        · rw [hoth g0 e]; exact hsome

/-- **a signal object that a functor owns keeps its slot list alive**: whatever handle `g2` is destroyed (`delG g2`;
    for the owned name itself that is refused), the owned name stays in `G` with the same list, stays owned, and the
    list it refers to stays — `gcImpl` never removes a list that a handle in `G` refers to (`lives_while_owned`), and
    a functor-owned handle stays in `G` (named or not by the program, it is a handle of the list) -/
theorem functor_owned_handle_keeps_list (s s' : St) (r : String) (g0 g2 im : Nat) (h0 : Handle)
    (hown : s.ownedG.any (fun p => p.2 = g0) = true) (hg0 : aget s.G g0 = some h0) (himpl : h0.impl = some im)
    (h : stepSimple s (.delG g2) = some (s', r)) :
    aget s'.G g0 = some h0 ∧ s'.ownedG = s.ownedG ∧ (aget s'.impls im).isSome = (aget s.impls im).isSome ∧
    (g2 = g0 → s' = s ∧ r ≠ "ok") := by
  rcases delG_cases s g2 with ⟨r', hr, hne⟩ | hr
  · rw [hr] at h
    simp only [Option.some.injEq, Prod.mk.injEq] at h
    obtain ⟨rfl, rfl⟩ := h
    exact ⟨hg0, rfl, rfl, fun _ => ⟨rfl, hne⟩⟩
  · have e : g0 ≠ g2 := by
      intro e
      subst e
      obtain ⟨r', hr', hne⟩ := delG_owned_refused s g0 h0 hg0 hown
      rw [hr] at hr'
      simp only [Option.some.injEq, Prod.mk.injEq] at hr'
      rcases hne with hne | hne <;> rw [hne] at hr' <;> exact absurd hr'.2 (by decide)
    rw [hr] at h
    simp only [Option.some.injEq, Prod.mk.injEq] at h
    obtain ⟨rfl, rfl⟩ := h
    refine ⟨?_, (dropHandle_own s g2).g, dropHandle_keeps_referred s g2 g0 im h0 e hg0 himpl, fun e' => absurd e'.symm e⟩
    rw [dropHandle_G, if_neg e]
    exact hg0

/-- the cycle the mechanism exists for — a signal whose own list holds a functor owning the signal:
    `newG 0 I; cpG 1 0; connfn 0 0 (ownG 9 0)`; the copy `1` can be destroyed, the owned name `0` cannot, and the
    list (one cell) is still there -/
example :
    let run := fun (s : Option (St × String)) (op : Op) => s.bind (fun x => stepSimple x.1 op)
    let s3 := [Op.newG 0 (some .I), .cpG 1 0, .connfn 0 0 (.ownG 9 0) false].foldl run (some ({}, ""))
    let s4 := run s3 (.delG 1)
    s3.map (fun x => x.1.ownedG) = some [(6, 0)] ∧ s4.map (·.2) = some "ok" ∧
    (run s4 (.delG 0)).map (·.2) = some "owned" ∧ (run (run s4 (.delG 0)) (.sizeq 0)).map (·.2) = some "1" ∧
    s4.map (fun x => heldK x.1 6) = some true := by
  decide

example : ∀ s' r, stepSimple { G := [(0, { obj := 1, fl := .I, impl := some 7, trk := 2, lvl := 0 }),
                                     (1, { obj := 3, fl := .I, impl := some 7, trk := 4, lvl := 0 })],
                               impls := [(7, {})], ownedG := [(5, 0)], next := 8 } (.delG 1) = some (s', r) →
    (aget s'.impls 7).isSome = true := fun s' r h =>
  (functor_owned_handle_keeps_list _ s' r 0 1 7 { obj := 1, fl := .I, impl := some 7, trk := 2, lvl := 0 } rfl rfl rfl h).2.2.1

/-- what the third branch of `collectStep` does, precisely: when no owned trackable and no owned scoped connection is
    unheld, the first functor-owned signal object whose owner id no functor copy holds any more is taken out of
    `ownedG` and destroyed exactly as `delG` would destroy it (`dropHandle`, cf. `delG_eq_dropHandle`): its name
    is gone, the other `ownedG` entries stay -/
theorem collectStep_drops_unheld_owned_handle (s : St) (k g : Nat)
    (hT : s.ownedT.find? (fun o => !heldT s o) = none)
    (hK : s.ownedK.find? (fun q => !heldK s q.1) = none)
    (hG : s.ownedG.find? (fun q => !heldK s q.1) = some (k, g)) :
    collectStep s = some (dropHandle { s with ownedG := s.ownedG.filter (fun q => q.1 ≠ k) } g) ∧
    aget (dropHandle { s with ownedG := s.ownedG.filter (fun q => q.1 ≠ k) } g).G g = none ∧
    (dropHandle { s with ownedG := s.ownedG.filter (fun q => q.1 ≠ k) } g).ownedG
      = s.ownedG.filter (fun q => q.1 ≠ k) ∧
    (k, g) ∈ s.ownedG ∧ heldK s k = false := by
  refine ⟨collectStep_ownedG s k g hT hK hG, ?_, (dropHandle_own _ g).g, List.mem_of_find?_eq_some hG, ?_⟩
  · rw [dropHandle_G]; simp
  · have := List.find?_some hG
    simpa using this

/-- **`collect` destroys every functor-owned signal object that no functor copy holds any more**: if `(k, g)` is in
    `ownedG` (`k` being the owner id of no other entry — owner ids come from the allocator) and no slot variable and no
    list cell holds a functor copy with owner id `k`, then after `collect` the name `g` is no longer in `G` and the
    entry is gone; and whatever is still in `ownedG` after `collect` was there before and is held by a functor copy -/
theorem collect_drops_unheld_owned_handle (s : St) (k g : Nat) (hm : (k, g) ∈ s.ownedG)
    (hu : ∀ g', (k, g') ∈ s.ownedG → g' = g) (hk : heldK s k = false) :
    aget (collect s).G g = none ∧ (k, g) ∉ (collect s).ownedG ∧
    ∀ p ∈ (collect s).ownedG, p ∈ s.ownedG ∧ heldK (collect s) p.1 = true :=
  ⟨(collect_drops_unheld s k g hm hu hk).1, (collect_drops_unheld s k g hm hu hk).2,
   fun p hp => ⟨(collect_rel s).sub p hp, collect_ownedG_held s p hp⟩⟩

/-- a list cell held a functor owning signal object `4` (owner id 7); the cell is gone (the state below has no
    list): `collect` destroys the object — and while a slot variable still holds a copy of the functor, it does not -/
example :
    let s : St := { G := [(4, { obj := 9, fl := .I, impl := none, trk := 0, lvl := 0 }),
                          (5, { obj := 10, fl := .I, impl := none, trk := 0, lvl := 0 })], ownedG := [(7, 4)], next := 11 }
    aget (collect s).G 4 = none ∧ (aget (collect s).G 5).isSome = true ∧ (collect s).ownedG = [] :=
  ⟨(collect_drops_unheld_owned_handle _ 7 4 (by simp) (by simp) (by decide)).1, by decide, by decide⟩

example :
    let s : St := { G := [(4, { obj := 9, fl := .I, impl := none, trk := 0, lvl := 0 })], ownedG := [(7, 4)], next := 11,
                    S := [(0, { isVoid := false, slot := { rep := some { call := true, fn := some (.owner 3 [] [7]) } } })] }
    (aget (collect s).G 4).isSome = true ∧ (collect s).ownedG = [(7, 4)] := by
  decide

/-- the uniqueness hypothesis of `collect_drops_unheld_owned_handle` holds in every well-formed state
    (`StepWF.WF`: every state in which any operation of any run executes — `execOp_WF`, `runTop_WF`), e.g. in the
    state an operation leaves behind before `collect` runs -/
theorem collect_drops_unheld_owned_handle_wf (s : St) (hw : Sigc.StepWF.WF s) (k g : Nat) (hm : (k, g) ∈ s.ownedG)
    (hk : heldK s k = false) :
    aget (collect s).G g = none ∧ (k, g) ∉ (collect s).ownedG :=
  let ⟨a, b, _⟩ := collect_drops_unheld_owned_handle s k g hm (fun _ h' => hw.owners.unique hm h') hk
  ⟨a, b⟩

example : Sigc.StepWF.WF { G := [(4, { obj := 9, fl := .I, impl := none, trk := 0, lvl := 0 })], ownedG := [(7, 4)], next := 11 } := by
  decide

/-- **after every line of every program, every functor-owned signal object is held by a live functor copy** (in a
    slot variable or a list cell): `execLine` ends with `collect`, which has destroyed the others
    (`collect_drops_unheld_owned_handle`) -/
theorem line_leaves_owned_handles_held (f : Nat) (P : Prog) (s : St) (l : Line) (r : St × Outcome)
    (h : execLine f P s l = some r) : ∀ p ∈ r.1.ownedG, heldK r.1 p.1 = true := by
  cases f with
  | zero => rw [execLine] at h; cases h
  | succ f =>
    rw [execLine] at h
    split at h
    · cases h
    · simp only [Option.some.injEq] at h; subst h
      exact fun p hp => collect_ownedG_held _ p hp
    · simp only [Option.some.injEq] at h; subst h
      exact fun p hp => collect_ownedG_held _ p hp

/-- … hence in every state reached by running any lines of any program from the initial state -/
theorem run_leaves_owned_handles_held (f : Nat) (P : Prog) (ls : List Line) (s : St)
    (h : runTop f P {} ls = some s) : ∀ p ∈ s.ownedG, heldK s p.1 = true := by
  have key : ∀ (ls : List Line) (s0 s : St), (∀ p ∈ s0.ownedG, heldK s0 p.1 = true) → runTop f P s0 ls = some s →
      ∀ p ∈ s.ownedG, heldK s p.1 = true := by
    intro ls
    induction ls with
    | nil => intro s0 s h0 h; rw [runTop] at h; cases h; exact h0
    | cons l t ih =>
      intro s0 s _ h
      rw [runTop] at h
      split at h
      · cases h
      · rename_i s1 o he
        exact ih s1 s (line_leaves_owned_handles_held f P s0 l (s1, o) he) h
  exact key ls {} s (fun _ hp => by cases hp) h

/-- a run: the functor owning signal `0` is connected to signal `1`; destroying signal `1` destroys the functor, and
    with it the owned signal object `0` (its name is gone: `sizeq 0 → dead`) -/
def exProgOwn : Prog :=
  { bodies := [], owners := true,
    top := [⟨"newG 0 I", .newG 0 (some .I)⟩, ⟨"newG 1 I", .newG 1 (some .I)⟩,
            ⟨"connfn 0 1 ownG 9 0", .connfn 0 1 (.ownG 9 0) false⟩, ⟨"delG 0", .delG 0⟩, ⟨"sizeq 0", .sizeq 0⟩,
            ⟨"delG 1", .delG 1⟩, ⟨"sizeq 0", .sizeq 0⟩] }

example : (runTop 20 exProgOwn {} exProgOwn.top).map (fun s => (s.G.map (·.1), s.ownedG,
      (s.trace.reverse.filterMap (fun e => match e with | .res _ t r => some (t, r) | _ => none)).drop 3)) =
    some ([], [], [("delG 0", "owned"), ("sizeq 0", "0"), ("delG 1", "ok"), ("sizeq 0", "dead")]) := by
  decide +kernel

example : ∀ f s, runTop f exProgOwn {} exProgOwn.top = some s → ∀ p ∈ s.ownedG, heldK s p.1 = true :=
  fun f s h => run_leaves_owned_handles_held f _ _ s h

/-! ## the specification `S` -/

/-- in `S`, too, two handles of one list are indistinguishable for queries, `block` and `clear` -/
theorem spec_shared_handles_agree_queries (s : Spec.LSt) (g1 g2 : Nat) (h1 h2 : Handle)
    (hg1 : aget s.G g1 = some h1) (hg2 : aget s.G g2 = some h2) (himpl : h1.impl = h2.impl) :
    Spec.stepSimple s (.sizeq g1) = Spec.stepSimple s (.sizeq g2) ∧
    Spec.stepSimple s (.emptyGq g1) = Spec.stepSimple s (.emptyGq g2) ∧
    Spec.stepSimple s (.blockedGq g1) = Spec.stepSimple s (.blockedGq g2) ∧
    (∀ b, Spec.stepSimple s (.blockG g1 b) = Spec.stepSimple s (.blockG g2 b)) ∧
    Spec.stepSimple s (.clear g1) = Spec.stepSimple s (.clear g2) := by
  refine ⟨?_, ?_, ?_, ?_, ?_⟩ <;> simp [Spec.stepSimple, hg1, hg2, himpl]

/-- in `S`, self-assignment (copy or move) of a signal object is the identity (the move unless refused: the
    object is owned by a functor and not of an `accumulated` flavour; the state is unchanged then, too) -/
theorem spec_self_assign (s : Spec.LSt) (i : Nat) (h0 : Handle) (hi : aget s.G i = some h0) :
    Spec.stepSimple s (.asgG i i) = some (s, "ok") ∧
    ((!h0.fl.isAcc && s.ownedG.any (fun p => p.2 = i)) = false → Spec.stepSimple s (.masgG i i) = some (s, "ok")) ∧
    ∃ r, Spec.stepSimple s (.masgG i i) = some (s, r) := by
  refine ⟨?_, ?_, ?_⟩
  · simp [Spec.stepSimple, hi]
  · intro hown
    simp only [Spec.stepSimple, hi]
    cases hacc : h0.fl.isAcc
    · simp only [hacc, Bool.not_false, Bool.true_and] at hown
      simp [hown]
    · simp
  · simp only [Spec.stepSimple, hi]
    cases hacc : h0.fl.isAcc
    · cases hown : s.ownedG.any (fun p => p.2 = i)
      · exact ⟨"ok", by simp⟩
      · exact ⟨"owned", by simp⟩
    · exact ⟨"ok", by simp⟩

/-- in `S`, move construction of a plain signal transfers the list and leaves the source without one -/
theorem spec_mvG_transfers (s s' : Spec.LSt) (r : String) (j i : Nat) (h0 : Handle)
    (hi : aget s.G i = some h0) (hj : aget s.G j = none) (hacc : h0.fl.isAcc = false) (ht : h0.fl.isTrackable = false)
    (h : Spec.stepSimple s (.mvG j i) = some (s', r)) :
    r = "ok" ∧ (∃ hd, aget s'.G j = some hd ∧ hd.impl = h0.impl ∧ hd.fl = h0.fl) ∧
    (∃ hs, aget s'.G i = some hs ∧ hs.impl = none) ∧ s'.sigs = s.sigs := by
  have hji : j ≠ i := by intro e; rw [e, hi] at hj; cases hj
  simp only [Spec.stepSimple, hi, hj, hacc, ht] at h
  simp [Spec.LSt.fresh] at h
  obtain ⟨rfl, rfl⟩ := h
  refine ⟨rfl, ⟨{ obj := s.next, fl := h0.fl, impl := h0.impl, trk := s.next + 1, lvl := h0.lvl }, by simp, rfl, rfl⟩,
    ⟨{ h0 with impl := none }, ?_, rfl⟩, rfl⟩
  simp [aget_aset_other _ _ _ _ (Ne.symm hji)]

example : (Spec.stepSimple { G := [(0, { obj := 1, fl := .I, impl := some 5, trk := 2, lvl := 0 })], next := 9 } (.mvG 1 0)).map
    (fun x => x.1.G.map (fun p => p.2.impl)) = some [none, some 5] := by decide

end Sigc.C14
