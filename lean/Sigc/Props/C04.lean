import Sigc.Model
import Sigc.Spec
import Sigc.Lemmas.InvExamples
/-!
# C04 — a connection handle is always safe and tells the truth about its slot

Model-level content (mechanism model `P`, `Sigc/Model.lean`): a connection is the `weak_raw_ptr`
`Option cellId`.  Proved here, for every fuel, program and history:

* `conn_never_dangles*` — in every reachable state (and at every operation boundary inside an emission)
  every pointer held by a connection, a scoped connection or a functor-owned scoped connection is the id
  of a cell that exists: every operation on the handle finds its target or `none`, never a destroyed cell.
* `connected_iff*` — `connected()` is true exactly when the cell is in a list and valid.
* `validity_monotone*`, `stays_false*` — once `connected()` is false for a handle value it is false for
  ever, whatever runs afterwards (cell ids are never reused, `call_` never goes back to non-null).
* `disconnect_idempotent`, `disconnect_exact`, `disc_twice` — `disconnect()` is idempotent and touches
  exactly the one cell.
All invariants are instances of the generic schema `Sigc.Inv.Stable` (`Sigc/Lemmas/InvSchema.lean`).
-/
namespace Sigc.C04
open Sigc.Model Sigc.Inv

/-- **every terminating run of every program**: in the final state every connection, scoped connection
    and functor-owned scoped connection is `none` or points at a cell that exists in some list -/
theorem conn_never_dangles (fuel : Nat) (P : Prog) (s : St) (h : runTop fuel P {} P.top = some s) :
    NoDangling s :=
  noDangling_of_links (Links.reachable fuel P s h)

/-- the same after the harness teardown of any reachable state -/
theorem conn_never_dangles_teardown (fuel fuel' : Nat) (P : Prog) (s s' : St)
    (h : runTop fuel P {} P.top = some s) (ht : teardown fuel' P s = some s') : NoDangling s' :=
  noDangling_of_links (Links.stable.teardown fuel' P s s' (Links.reachable fuel P s h) ht)

/-- … and at every operation boundary, inside or outside an emission, at any nesting depth: the link
    invariant is preserved by every operation (`execOp`), every emission (`emitImpl`) and every functor
    invocation (`invokeFun`), whatever the slots do re-entrantly -/
theorem conn_never_dangles_op (fuel : Nat) (P : Prog) (s : St) (op : Op) (r : St × Except Unit String)
    (hs : Links s) (h : execOp fuel P s op = some r) : Links r.1 ∧ NoDangling r.1 :=
  ⟨Links.stable.execOp hs h, noDangling_of_links (Links.stable.execOp hs h)⟩

theorem conn_never_dangles_emit (fuel : Nat) (P : Prog) (s : St) (fl : Flavour) (impl : Option Nat) (arg : Nat)
    (strat : Strat) (r : St × Outcome × Nat) (hs : Links s) (h : emitImpl fuel P s fl impl arg strat = some r) :
    Links r.1 ∧ NoDangling r.1 :=
  ⟨Links.stable.emitImpl hs h, noDangling_of_links (Links.stable.emitImpl hs h)⟩

theorem conn_never_dangles_invoke (fuel : Nat) (P : Prog) (s : St) (fn : Fun) (arg : Nat) (r : St × Outcome × Nat)
    (hs : Links s) (h : invokeFun fuel P s fn arg = some r) : Links r.1 ∧ NoDangling r.1 :=
  ⟨Links.stable.invokeFun hs h, noDangling_of_links (Links.stable.invokeFun hs h)⟩

/-- the hypothesis of the three previous theorems holds initially and in every reachable state -/
theorem links_reachable (fuel : Nat) (P : Prog) (s : St) (h : runTop fuel P {} P.top = some s) : Links s :=
  Links.reachable fuel P s h

/-! ### `connected()` tells the truth -/

/-- `connected()` of a handle value: true iff the lookup finds a cell and that cell is valid -/
theorem connected_iff (s : St) (cid : Nat) :
    connConnected s (some cid) = true ↔ ∃ i c, getCell s cid = some (i, c) ∧ c.slot.empty = false := by
  unfold connConnected
  simp only []
  split
  · rename_i hg; simp [hg]
  · rename_i i c hg
    simp only [hg, Bool.not_eq_true', Option.some.injEq, Prod.mk.injEq]
    constructor
    · intro h; exact ⟨i, c, ⟨rfl, rfl⟩, h⟩
    · rintro ⟨_, _, ⟨rfl, rfl⟩, h⟩; exact h

theorem connected_none (s : St) : connConnected s none = false := rfl

/-- in a well-formed (hence: in every reachable) state: `connected()` iff the cell is still held by a
    signal's list and its rep is valid (`rep_ && rep_->call_`) -/
theorem connected_iff_cell {s : St} (hw : WF s) (cid : Nat) :
    connConnected s (some cid) = true ↔
      ∃ i im c, aget s.impls i = some im ∧ c ∈ im.cells ∧ c.id = cid ∧ c.slot.empty = false := by
  rw [connected_iff]
  constructor
  · rintro ⟨i, c, hg, he⟩
    obtain ⟨im, hi, _, hc, hid⟩ := getCell_some hg
    exact ⟨i, im, c, hi, hc, hid, he⟩
  · rintro ⟨i, im, c, hi, hc, hid, he⟩
    exact ⟨i, c, hid ▸ getCell_of_mem hw hi hc, he⟩

theorem connected_iff_cell_reachable (fuel : Nat) (P : Prog) (s : St) (h : runTop fuel P {} P.top = some s)
    (cid : Nat) :
    connConnected s (some cid) = true ↔
      ∃ i im c, aget s.impls i = some im ∧ c ∈ im.cells ∧ c.id = cid ∧ c.slot.empty = false :=
  connected_iff_cell (Links.reachable fuel P s h).1.1 cid

/-! ### once false, false for ever -/

/-- no function of the model ever makes an allocated cell id valid again: `Dead cid` (= the id is
    allocated and no cell with this id is valid) is preserved by every operation, emission and functor
    invocation, for every fuel and program -/
theorem validity_monotone (cid : Nat) (fuel : Nat) (P : Prog) (s : St) (op : Op) (r : St × Except Unit String)
    (hd : Dead cid s) (h : execOp fuel P s op = some r) : Dead cid r.1 :=
  (Dead.stable cid).execOp hd h

theorem validity_monotone_emit (cid : Nat) (fuel : Nat) (P : Prog) (s : St) (fl : Flavour) (impl : Option Nat)
    (arg : Nat) (strat : Strat) (r : St × Outcome × Nat)
    (hd : Dead cid s) (h : emitImpl fuel P s fl impl arg strat = some r) : Dead cid r.1 :=
  (Dead.stable cid).emitImpl hd h

/-- `connected()` false now ⇒ false after any operation (well-formed state, allocated id) -/
theorem stays_false_op (fuel : Nat) (P : Prog) (s : St) (op : Op) (r : St × Except Unit String) (cid : Nat)
    (hw : WF s) (hlt : cid < s.next) (hf : connConnected s (some cid) = false)
    (h : execOp fuel P s op = some r) : connConnected r.1 (some cid) = false := by
  have hd : Dead cid s := (dead_iff_not_connected hw hlt).2 hf
  have hd' := (Dead.stable cid).execOp hd h
  exact (dead_iff_not_connected (WF.stable.execOp hw h) hd'.1).1 hd'

/-- **for ever**: take any reachable state `s`, any connection or scoped connection of `s` whose value `p`
    reports `connected() = false` (the slot was disconnected through another copy, a trackable died,
    `clear()`, the signal was destroyed, …); then after *any* continuation of the run the value `p`
    (hence every copy of the handle that was not assigned a different value) still reports false -/
theorem stays_false (fuel fuel' : Nat) (P : Prog) (s s' : St) (ls : List Line) (p : Option Nat)
    (h : runTop fuel P {} P.top = some s)
    (hp : (∃ k, aget s.C k = some p) ∨ (∃ k, aget s.K k = some p))
    (hf : connConnected s p = false) (h' : runTop fuel' P s ls = some s') :
    connConnected s' p = false := by
  cases p with
  | none => rfl
  | some cid =>
    have hl := Links.reachable fuel P s h
    have hw := hl.1.1
    have hin : CellIn s.impls cid := by
      rcases hp with ⟨k, hk⟩ | ⟨k, hk⟩
      · exact hl.2.1.get hk cid rfl
      · exact hl.2.2.1.get hk cid rfl
    obtain ⟨i, im, hi, c, hc, he⟩ := hin
    have hlt : cid < s.next := he ▸ hw.idLt i im c hi hc
    have hd : Dead cid s := (dead_iff_not_connected hw hlt).2 hf
    have hd' := (Dead.stable cid).runTop_from fuel' P ls s s' hd h'
    have hw' := WF.stable.runTop_from fuel' P ls s s' hw h'
    exact (dead_iff_not_connected hw' hd'.1).1 hd'

/-- once the cell has been erased, `disconnect()` through a stale value has no effect at all -/
theorem disconnect_erased_noop (s : St) (cid : Nat) (h : getCell s cid = none) : disconnectCell s cid = s := by
  simp [disconnectCell, h]

/-! ### `disconnect()` -/

/-- `slot_rep::disconnect()` is idempotent: a second `disconnect()` (through any copy of the handle)
    changes nothing — in every well-formed, hence every reachable, state -/
theorem disconnect_idempotent {s : St} (hw : WF s) (cid : Nat) :
    disconnectCell (disconnectCell s cid) cid = disconnectCell s cid :=
  disconnectCell_idem hw cid

/-- `disconnect()` of one cell leaves every other cell of every list exactly as it was (slot, blocked
    flag, link, order) and creates or removes no list -/
theorem disconnect_exact (s : St) (cid j : Nat) :
    (aget (disconnectCell s cid).impls j).map (fun im => im.cells.filter (fun c => decide (c.id ≠ cid))) =
    (aget s.impls j).map (fun im => im.cells.filter (fun c => decide (c.id ≠ cid))) :=
  disconnectCell_others s cid j

/-- after `disconnect()` the handle value reports `connected() = false` -/
theorem disconnect_disconnects {s : St} (hw : WF s) (cid : Nat) :
    connConnected (disconnectCell s cid) (some cid) = false :=
  disconnectCell_not_connected hw cid

/-- operation level: `c.disconnect(); c.disconnect();` — the second call changes nothing, whether the
    first one erased the cell (the handle was nulled) or only deferred the erase (inside an emission) -/
theorem disc_twice {s s1 : St} {r1 : String} (hw : WF s) (k : Nat)
    (h1 : stepSimple s (.disc k) = some (s1, r1)) : stepSimple s1 (.disc k) = some (s1, r1) := by
  simp only [stepSimple] at h1 ⊢
  cases hk : aget s.C k with
  | none =>
    simp only [hk, Option.some.injEq, Prod.mk.injEq] at h1
    obtain ⟨rfl, rfl⟩ := h1
    simp [hk]
  | some p =>
    simp only [hk, Option.some.injEq, Prod.mk.injEq] at h1
    obtain ⟨rfl, rfl⟩ := h1
    cases p with
    | none => simp [hk]
    | some cid =>
      simp only []
      rcases disconnectCell_C s cid with e | e
      · rw [e, hk]
        simp only [disconnectCell_idem hw cid]
      · rw [e, aget_amap_nullF hk]
        simp

/-! ### examples -/

/-- `sig.connect(f1); c1 = c0; c0.disconnect();` -/
def exP : Prog :=
  { bodies := [],
    top := [⟨"newG 0 V", .newG 0 (some .V)⟩, ⟨"connfn 0 0 fn 1", .connfn 0 0 (.fn 1) false⟩,
            ⟨"cpC 1 0", .cpC 1 0⟩, ⟨"disc 0", .disc 0⟩] }

/-- the program runs, the copy `c1` was nulled by the disconnect through `c0`, nothing dangles -/
example : ∃ s, runTop 3 exP {} exP.top = some s ∧ aget s.C 1 = some none ∧ NoDangling s := by
  have h : ∃ s, runTop 3 exP {} exP.top = some s ∧ aget s.C 1 = some none := by
    simp [exP, runTop, execLine, execOp, stepSimple, aget, aset, St.fresh, mkFun, specTaint, ensureImpl,
      insertCell, setConn, setImpl, St.log, collect, collectN, disconnectCell, getCell, findCellImpl, updCell, modeRule, FSpec.isOwner,
      notifyParent, eraseCell, nullConns, amap, SlotB.disconnectRep]
  obtain ⟨s, hs, hc⟩ := h
  exact ⟨s, hs, hc, conn_never_dangles 3 exP s hs⟩

/-- on the example state `Sigc.Inv.exS` (one signal, one connected valid cell, two connection copies):
    `connected()` is true; after `disconnect()` it is false and stays false -/
example : connConnected exS (some 4) = true := by
  simp [connConnected, getCell, findCellImpl, exS, aget, SlotB.empty]

example : connConnected (disconnectCell exS 4) (some 4) = false := disconnect_disconnects exS_wf 4

example : disconnectCell (disconnectCell exS 4) 4 = disconnectCell exS 4 := disconnect_idempotent exS_wf 4

example (fuel : Nat) (P : Prog) (op : Op) (r : St × Except Unit String)
    (h : execOp fuel P (disconnectCell exS 4) op = some r) : connConnected r.1 (some 4) = false :=
  stays_false_op fuel P _ op r 4 (WF.prims.disconnectCell 4 exS_wf)
    (by have := (disconnectCell_dead exS_wf (cid := 4) (i := 3)
          (c := { id := 4, slot := { rep := some { call := true, fn := some (.leaf 1 []) } }, linked := true })
          (by simp [getCell, findCellImpl, exS, aget])).1
        exact this)
    (disconnect_disconnects exS_wf 4) h

end Sigc.C04
