import Sigc.Model
import Sigc.Spec
/-! property theorems for C04 (being written) -/
namespace Sigc.C04
end Sigc.C04
