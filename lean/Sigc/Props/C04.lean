import Sigc.Model
import Sigc.Lemmas.Basic
import Sigc.Lemmas.Frames
/-!
# C04 — a connection handle is always safe and tells the truth about its slot
(first theorems; the all-history invariant "a connection never dangles" is being proved in Sigc/Lemmas/Inv*.lean)
-/
namespace Sigc.C04
open Sigc.Model

/-- an empty (default-constructed or nulled) connection is not connected and not blocked -/
theorem none_not_connected (s : St) : connConnected s none = false ∧ connBlocked s none = false := ⟨rfl, rfl⟩

/-- `connected()` is true exactly when the cell it was obtained for is still in a list and valid -/
theorem connected_iff (s : St) (cid : Nat) :
    connConnected s (some cid) = true ↔ ∃ i c, getCell s cid = some (i, c) ∧ c.slot.empty = false := by
  unfold connConnected
  cases h : getCell s cid with
  | none => simp [h]
  | some p =>
    obtain ⟨i, c⟩ := p
    simp only [h, Option.some.injEq, Prod.mk.injEq]
    constructor
    · intro hc
      exact ⟨i, c, ⟨rfl, rfl⟩, by simpa using hc⟩
    · rintro ⟨i', c', ⟨rfl, rfl⟩, hc⟩
      simp [hc]

/-- when a cell is erased, every connection and scoped connection that pointed at it is nulled
    (`~slot_rep` notifies the `weak_raw_ptr`s), the others keep their target -/
theorem nullConns_spec (s : St) (cid k : Nat) :
    (aget (nullConns s cid).C k = (aget s.C k).map (fun p => if p = some cid then none else p)) ∧
    (aget (nullConns s cid).K k = (aget s.K k).map (fun p => if p = some cid then none else p)) := by
  unfold nullConns
  simp only
  exact ⟨aget_amap _ _ _, aget_amap _ _ _⟩

theorem nullConns_no_pointer_left (s : St) (cid k : Nat) :
    aget (nullConns s cid).C k ≠ some (some cid) ∧ aget (nullConns s cid).K k ≠ some (some cid) := by
  obtain ⟨h1, h2⟩ := nullConns_spec s cid k
  rw [h1, h2]
  constructor
  · cases aget s.C k with
    | none => simp
    | some p => by_cases hp : p = some cid <;> simp [hp]
  · cases aget s.K k with
    | none => simp
    | some p => by_cases hp : p = some cid <;> simp [hp]

/-- copying / assigning / destroying connection variables never touches a signal or a slot -/
theorem conn_var_ops_frame (s s' : St) (r : String) (op : Op)
    (hop : (∃ j i, op = .cpC j i) ∨ (∃ j i, op = .asgC j i) ∨ (∃ i, op = .delC i) ∨ (∃ i, op = .newC i))
    (h : stepSimple s op = some (s', r)) :
    s'.impls = s.impls ∧ s'.S = s.S ∧ s'.T = s.T ∧ s'.G = s.G ∧ s'.K = s.K := by
  rcases hop with ⟨j, i, rfl⟩ | ⟨j, i, rfl⟩ | ⟨i, rfl⟩ | ⟨i, rfl⟩ <;>
    simp only [stepSimple] at h <;>
    (repeat' split at h) <;> simp [setConn] at h <;> obtain ⟨rfl, _⟩ := h <;> simp

example : connConnected { impls := [(1, { cells := [{ id := 2, slot := { rep := some { call := true, fn := some (.leaf 0 []) } }, linked := true }] })] } (some 2) = true := by
  decide

end Sigc.C04
