import Sigc.Model
import Sigc.Lemmas.Basic
/-!
# C12 — blocking suspends a slot without disconnecting it
-/
namespace Sigc.C12
open Sigc.Model

/-- `block()/unblock()` on a slot variable returns the previous state, sets the new one, and affects
    only that slot: no other slot variable, no signal, no connection changes -/
theorem blockS_returns_previous_only_that_slot (s s' : St) (r : String) (i : Nat) (b : Bool) (v : SlotVar)
    (hv : aget s.S i = some v) (h : stepSimple s (.blockS i b) = some (s', r)) :
    r = bstr v.slot.blocked ∧
    aget s'.S i = some { v with slot := { v.slot with blocked := b } } ∧
    (∀ k, k ≠ i → aget s'.S k = aget s.S k) ∧
    s'.impls = s.impls ∧ s'.C = s.C ∧ s'.K = s.K := by
  simp only [stepSimple, hv] at h
  simp at h
  obtain ⟨rfl, rfl⟩ := h
  refine ⟨rfl, by simp, ?_, rfl, rfl, rfl⟩
  intro k hk
  exact aget_aset_other _ _ _ _ hk

/-- blocking keeps the slot's representation (it stays connected / non-empty) -/
theorem blockS_keeps_rep (s s' : St) (r : String) (i : Nat) (b : Bool) (v : SlotVar)
    (hv : aget s.S i = some v) (h : stepSimple s (.blockS i b) = some (s', r)) :
    ∃ v', aget s'.S i = some v' ∧ v'.slot.rep = v.slot.rep ∧ v'.slot.empty = v.slot.empty := by
  obtain ⟨_, h2, _⟩ := blockS_returns_previous_only_that_slot s s' r i b v hv h
  exact ⟨_, h2, rfl, rfl⟩

/-- `signal.block(b)` sets the state of every slot in the list at that moment (and touches no other list) -/
theorem blockG_sets_all_current (s s' : St) (r : String) (g im : Nat) (b : Bool) (h0 : Handle) (x : Impl)
    (hg : aget s.G g = some h0) (hi : h0.impl = some im) (hx : aget s.impls im = some x)
    (h : stepSimple s (.blockG g b) = some (s', r)) :
    (∃ x', aget s'.impls im = some x' ∧ x'.cells.map (·.id) = x.cells.map (·.id) ∧
           ∀ c ∈ x'.cells, c.slot.blocked = b) ∧
    (∀ k, k ≠ im → aget s'.impls k = aget s.impls k) := by
  simp only [stepSimple, hg, hi, hx] at h
  simp at h
  obtain ⟨rfl, rfl⟩ := h
  constructor
  · refine ⟨{ x with cells := x.cells.map (fun c => { c with slot := { c.slot with blocked := b } }) },
            by simp [setImpl], ?_, ?_⟩
    · simp [List.map_map, Function.comp_def]
    · intro c hc
      simp at hc
      obtain ⟨c0, _, rfl⟩ := hc
      rfl
  · intro k hk
    simp [setImpl]
    exact aget_aset_other _ _ _ _ hk

/-- `signal.blocked()` answers "all slots blocked", which is true for an empty list and for a signal
    that never had a list -/
theorem blockedG_vacuous (s : St) (g : Nat) (h0 : Handle) (hg : aget s.G g = some h0) (hi : h0.impl = none) :
    stepSimple s (.blockedGq g) = some (s, "1") := by
  simp [stepSimple, hg, hi]

theorem blockedG_iff_all (s : St) (g im : Nat) (h0 : Handle) (x : Impl)
    (hg : aget s.G g = some h0) (hi : h0.impl = some im) (hx : aget s.impls im = some x) :
    stepSimple s (.blockedGq g) = some (s, bstr (x.cells.all (·.slot.blocked))) := by
  simp [stepSimple, hg, hi, hx]

/-- invoking a blocked slot through an emission loop step does nothing: the non-accumulating loop
    skips a blocked cell (one unfolding of `emitLoop`) — for every functor, fuel and program -/
theorem emitLoop_skips_blocked (f : Nat) (P : Prog) (s : St) (i cur m arg r : Nat) (im : Impl) (c : Cell)
    (hne : cur ≠ m) (hi : aget s.impls i = some im) (hc : im.cells.find? (·.id = cur) = some c)
    (hb : c.slot.blocked = true) (nxt : Nat) (hn : succId im.cells cur = some nxt) :
    emitLoop (f+1) P s i cur m arg r = emitLoop f P s i nxt m arg r := by
  rw [emitLoop]
  simp only [hne, if_false, hi, hc]
  cases hrep : c.slot.rep with
  | none => simp [hi, hn]
  | some rp =>
    obtain ⟨call, fn⟩ := rp
    cases call <;> cases fn <;> simp [hb, hi, hn]

example : stepSimple { S := [(0, { isVoid := false, slot := { blocked := true, rep := none } })] } (.blockS 0 false)
    = some ({ S := [(0, { isVoid := false, slot := { blocked := false, rep := none } })] }, "1") := by
  simp [stepSimple, aget, aset, bstr]

end Sigc.C12
